// Operations of spec/seq/SeqVec.tla executed on the real dispenso::ConcurrentVector (property C32).
// One Runner<V> per trait combination; the orchestration (drv_seqvec.cpp) talks to IRunner only, so
// the 36 instantiations can be compiled in parallel (drv_seqvec_p*.cpp).
//
// The C++ side only drives, reads back and records: after every call one ndjson line with the
// arguments, the returned position / observed values, the contents of both vectors read back
// element by element through the address registry of ctl::Tracked, size(), capacity(), the number
// of live element objects, the construction/destruction balance and the lifetime error count, and
// the result of the same call on a std::vector<int> mirror.  TLC decides (SeqVecTrace.tla).
#pragma once
#include <dispenso/concurrent_vector.h>

#include <stdlib.h>
#include <unistd.h>

#include <initializer_list>
#include <list>
#include <stdexcept>
#include <string>
#include <vector>

#include "../ctl/ctl.h"
#include "../ctl/tracked.h"

namespace sv {

constexpr int kDefaultId = 99;

// Element type: a lifetime-tracked id padded to N bytes.  The size selects the first bucket
// length of ConcurrentVector (DefaultConcurrentVectorSizeTraits: kDefaultCapacity = 512 / sizeof(T),
// 2 for sizeof(T) >= 256): N = 256 -> first bucket 1, N = 128 -> 2, N = 64 -> 4 elements.
template <size_t N>
struct Elem : ctl::Tracked {
  char pad[N - sizeof(ctl::Tracked)];
  Elem() noexcept : ctl::Tracked(kDefaultId) {}
  explicit Elem(int i) noexcept : ctl::Tracked(i) {}
  Elem(const Elem& o) noexcept : ctl::Tracked(static_cast<const ctl::Tracked&>(o)) {}
  Elem(Elem&& o) noexcept : ctl::Tracked(static_cast<ctl::Tracked&&>(o)) {}
  Elem& operator=(const Elem& o) noexcept {
    ctl::Tracked::operator=(static_cast<const ctl::Tracked&>(o));
    return *this;
  }
  Elem& operator=(Elem&& o) noexcept {
    ctl::Tracked::operator=(static_cast<ctl::Tracked&&>(o));
    return *this;
  }
};

template <bool Inl, bool Fast, int Strat>
struct Traits {
  static constexpr bool kPreferBuffersInline = Inl;
  static constexpr dispenso::ConcurrentVectorReallocStrategy kReallocStrategy =
      static_cast<dispenso::ConcurrentVectorReallocStrategy>(Strat);
  static constexpr bool kIteratorPreferSpeed = Fast;
};

struct OpReq {
  std::string name;
  std::vector<long long> p;
};

struct IRunner {
  virtual ~IRunner() {}
  virtual void begin(const std::string& tag) = 0; // writes the Reset line
  virtual void step(const OpReq& op) = 0; // executes one call, writes its line
  virtual void end() = 0; // destroys both vectors, writes the Destroy line
  // abstract view for the random program generator (taken from the std::vector mirror)
  bool ea = false, eb = false;
  size_t na = 0, nb = 0;
};

// 64-byte aligned storage for a vector object (C++14 operator new ignores over-alignment; the
// iterators of ConcurrentVector rely on the vector being 64-byte aligned).
template <class V>
struct Slot {
  void* mem = nullptr;
  V* p = nullptr;
  Slot() {
    if (posix_memalign(&mem, alignof(V) < 64 ? 64 : alignof(V), sizeof(V)) != 0) {
      fprintf(stderr, "ERROR drv_seqvec: posix_memalign failed\n");
      _exit(3);
    }
  }
  template <class... A>
  void make(A&&... args) {
    p = new (mem) V(std::forward<A>(args)...);
  }
  void destroy() {
    if (p) {
      p->~V();
      p = nullptr;
    }
  }
  ~Slot() {
    destroy();
    free(mem);
  }
  V& operator*() {
    return *p;
  }
  V* operator->() {
    return p;
  }
};

template <class E, class F>
static void withIlist(long long c, long long v, F&& f) {
  int x = (int)v;
  switch (c) {
    case 0: {
      std::initializer_list<E> il = {};
      f(il);
      break;
    }
    case 1: {
      std::initializer_list<E> il = {E(x)};
      f(il);
      break;
    }
    case 2: {
      std::initializer_list<E> il = {E(x), E(x + 1)};
      f(il);
      break;
    }
    case 3: {
      std::initializer_list<E> il = {E(x), E(x + 1), E(x + 2)};
      f(il);
      break;
    }
    case 4: {
      std::initializer_list<E> il = {E(x), E(x + 1), E(x + 2), E(x + 3)};
      f(il);
      break;
    }
    case 5: {
      std::initializer_list<E> il = {E(x), E(x + 1), E(x + 2), E(x + 3), E(x + 4)};
      f(il);
      break;
    }
    case 6: {
      std::initializer_list<E> il = {E(x), E(x + 1), E(x + 2), E(x + 3), E(x + 4), E(x + 5)};
      f(il);
      break;
    }
    default:
      fprintf(stderr, "ERROR drv_seqvec: initializer list of %lld elements not supported\n", c);
      _exit(3);
  }
}

template <class V>
class Runner : public IRunner {
 public:
  using E = typename V::value_type;
  using R = std::vector<long long>;

  Runner(ctl::Trace& tr, int f, int inl, int fast, int strat)
      : tr_(tr), f_(f), inl_(inl), fast_(fast), strat_(strat) {}

  void begin(const std::string& tag) override {
    ctl::Registry::get().reset();
    ma_.clear();
    mb_.clear();
    ea = eb = false;
    na = nb = 0;
    ctl::Json j;
    j.beginObj();
    j.kv("e", std::string("Reset"));
    j.kv("tag", tag);
    j.key("cfg").beginObj();
    j.kv("F", f_).kv("inl", inl_).kv("fast", fast_).kv("strat", strat_);
    j.endObj();
    j.endObj();
    tr_.line(j.s);
  }

  void end() override {
    a_.destroy();
    b_.destroy();
    ea = eb = false;
    auto& reg = ctl::Registry::get();
    ctl::Json j;
    j.beginObj();
    j.kv("e", std::string("Destroy"));
    j.kv("live", reg.liveCount());
    j.kv("bal", reg.ctors - reg.dtors);
    j.kv("errs", reg.errorCount());
    j.endObj();
    tr_.line(j.s);
  }

  void step(const OpReq& op) override {
    R r, mr;
    bool hasMr = false;
    apply(op, r, mr, hasMr);
    // garbage positions (e.g. a broken iterator difference) must reach TLC as a mismatch, not abort
    // the trace writer, which refuses integers that do not fit a TLC int
    for (auto& x : r)
      if (x > 1000000 || x < -1000000)
        x = -999999;
    ea = a_.p != nullptr;
    eb = b_.p != nullptr;
    na = ma_.size();
    nb = mb_.size();
    auto& reg = ctl::Registry::get();
    ctl::Json j;
    j.beginObj();
    j.kv("e", op.name);
    j.arr("p", op.p.begin(), op.p.end());
    j.arr("r", r.begin(), r.end());
    j.key("s").beginObj();
    j.kv("ea", ea ? 1 : 0);
    contents("a", a_.p, j);
    j.kv("eb", eb ? 1 : 0);
    contents("b", b_.p, j);
    j.kv("sz", a_.p ? (long long)a_->size() : 0);
    j.kv("live", reg.liveCount());
    j.kv("bal", reg.ctors - reg.dtors);
    j.kv("errs", reg.errorCount());
    j.kv("cap", a_.p ? (long long)a_->capacity() : 0);
    j.arr("ma", ma_.begin(), ma_.end());
    if (!hasMr) {
      mr.clear();
      mr.push_back(-1);
    }
    j.arr("mr", mr.begin(), mr.end());
    j.endObj();
    j.endObj();
    tr_.line(j.s);
  }

 private:
  ctl::Trace& tr_;
  int f_, inl_, fast_, strat_;
  Slot<V> a_, b_;
  std::vector<int> ma_, mb_; // the same calls on std::vector

  // Reads the vector back: the id registered for the object living at the address of element i
  // (-1 if no live object is there).
  static void contents(const char* key, V* v, ctl::Json& j) {
    j.key(key).beginArr();
    if (v) {
      auto& reg = ctl::Registry::get();
      size_t n = v->size();
      for (size_t i = 0; i < n; ++i) {
        const void* p = &(*v)[i];
        j.num(reg.isLive(p) ? reg.at(p) : -1);
      }
    }
    j.endArr();
  }

  static std::vector<E> srcVec(long long n, long long v) {
    std::vector<E> s;
    s.reserve((size_t)n);
    for (long long i = 0; i < n; ++i)
      s.emplace_back((int)(v + i));
    return s;
  }
  static std::list<E> srcList(long long n, long long v) {
    std::list<E> s;
    for (long long i = 0; i < n; ++i)
      s.emplace_back((int)(v + i));
    return s;
  }
  static void iota(std::vector<int>& m, long long n, long long v) {
    for (long long i = 0; i < n; ++i)
      m.push_back((int)(v + i));
  }

  [[noreturn]] static void bad(const OpReq& op, const char* why) {
    fprintf(stderr, "ERROR drv_seqvec: cannot execute %s: %s\n", op.name.c_str(), why);
    _exit(3);
  }

  void apply(const OpReq& op, R& r, R& mr, bool& hasMr) {
    const std::string& e = op.name;
    const std::vector<long long>& p = op.p;
    auto arg = [&](size_t i) -> long long {
      if (i >= p.size())
        bad(op, "missing argument");
      return p[i];
    };
    // element id argument: 0 = the canonical fresh id, 1 + the largest id present in either vector
    // (default-valued elements aside), taken from the std::vector mirrors
    int freshId = 1;
    for (int x : ma_)
      if (x != kDefaultId && x >= freshId)
        freshId = x + 1;
    for (int x : mb_)
      if (x != kDefaultId && x >= freshId)
        freshId = x + 1;
    auto idArg = [&](size_t i) -> long long {
      long long v = arg(i);
      return v == 0 ? freshId : v;
    };
    // ---------------------------------------------------------------- constructors of a
    if (e.compare(0, 4, "Ctor") == 0 && e != "CtorB") {
      if (a_.p)
        bad(op, "a already exists");
      if (e == "CtorDefault") {
        a_.make();
      } else if (e == "CtorReserve") {
        a_.make((size_t)arg(0), dispenso::ReserveTag);
      } else if (e == "CtorCount") {
        a_.make((size_t)arg(0));
        ma_.assign((size_t)arg(0), kDefaultId);
      } else if (e == "CtorCountValue") {
        {
          E val((int)idArg(1));
          a_.make((size_t)arg(0), val);
        }
        ma_.assign((size_t)arg(0), (int)idArg(1));
      } else if (e == "CtorRange") {
        {
          std::list<E> src = srcList(arg(0), idArg(1));
          a_.make(src.begin(), src.end());
        }
        iota(ma_, arg(0), idArg(1));
      } else if (e == "CtorSizedRange") {
        {
          std::vector<E> src = srcVec(arg(0), idArg(1));
          a_.make((size_t)arg(0), src.begin(), src.end());
        }
        iota(ma_, arg(0), idArg(1));
      } else if (e == "CtorIlist") {
        withIlist<E>(arg(0), idArg(1), [&](std::initializer_list<E> il) { a_.make(il); });
        iota(ma_, arg(0), idArg(1));
      } else
        bad(op, "unknown constructor");
      return;
    }
    // ---------------------------------------------------------------- the partner vector
    if (e == "CtorB") {
      if (b_.p)
        bad(op, "b already exists");
      {
        std::vector<E> src = srcVec(arg(0), idArg(1));
        b_.make(src.begin(), src.end());
      }
      iota(mb_, arg(0), idArg(1));
      return;
    }
    if (e == "DestroyB") {
      if (!b_.p)
        bad(op, "b does not exist");
      b_.destroy();
      mb_.clear();
      return;
    }
    if (!a_.p)
      bad(op, "a does not exist");
    V& a = *a_;
    if (e == "CopyCtorB") {
      if (b_.p)
        bad(op, "b already exists");
      b_.make(static_cast<const V&>(a));
      mb_ = ma_;
      return;
    }
    if (e == "MoveCtorB") {
      if (b_.p)
        bad(op, "b already exists");
      b_.make(std::move(a));
      a.clear(); // R6: a moved-from vector is only cleared / assigned / destroyed
      mb_ = std::move(ma_);
      ma_.clear();
      return;
    }
    // ---------------------------------------------------------------- assignment
    if (e == "AssignCount") {
      {
        E val((int)idArg(1));
        a.assign((size_t)arg(0), val);
      }
      ma_.assign((size_t)arg(0), (int)idArg(1));
      return;
    }
    if (e == "AssignRange") {
      {
        std::vector<E> src = srcVec(arg(0), idArg(1));
        a.assign(src.begin(), src.end());
      }
      ma_.clear();
      iota(ma_, arg(0), idArg(1));
      return;
    }
    if (e == "CopyAssignSelf") {
      V& alias = a;
      a = static_cast<const V&>(alias);
      return;
    }
    if (e == "CopyAssign" || e == "MoveAssign" || e == "CopyAssignToB" || e == "MoveAssignToB" ||
        e == "SwapMember" || e == "SwapFree" || e == "Compare") {
      if (!b_.p)
        bad(op, "b does not exist");
      V& b = *b_;
      if (e == "CopyAssign") {
        a = static_cast<const V&>(b);
        ma_ = mb_;
      } else if (e == "MoveAssign") {
        a = std::move(b);
        b.clear(); // R6
        ma_ = std::move(mb_);
        mb_.clear();
      } else if (e == "CopyAssignToB") {
        b = static_cast<const V&>(a);
        mb_ = ma_;
      } else if (e == "MoveAssignToB") {
        b = std::move(a);
        a.clear(); // R6
        mb_ = std::move(ma_);
        ma_.clear();
      } else if (e == "SwapMember") {
        a.swap(b);
        ma_.swap(mb_);
      } else if (e == "SwapFree") {
        swap(a, b); // found by ADL: dispenso::swap
        std::swap(ma_, mb_);
      } else { // Compare
        const V& ca = a;
        const V& cb = b;
        r = {ca == cb, ca != cb, ca < cb, ca <= cb, ca > cb, ca >= cb};
        mr = {ma_ == mb_, ma_ != mb_, ma_ < mb_, ma_ <= mb_, ma_ > mb_, ma_ >= mb_};
        hasMr = true;
      }
      return;
    }
    // ---------------------------------------------------------------- growth at the end
    auto pos = [&](typename V::iterator it) { return (long long)(it - a.begin()); };
    auto mpos = [&](std::vector<int>::iterator it) { return (long long)(it - ma_.begin()); };
    if (e == "PushBackCopy") {
      {
        E val((int)idArg(0));
        r = {pos(a.push_back(static_cast<const E&>(val)))};
      }
      ma_.push_back((int)idArg(0));
      mr = {(long long)ma_.size() - 1};
      hasMr = true;
      return;
    }
    if (e == "PushBackMove") {
      {
        E val((int)idArg(0));
        r = {pos(a.push_back(std::move(val)))};
      }
      ma_.push_back((int)idArg(0));
      mr = {(long long)ma_.size() - 1};
      hasMr = true;
      return;
    }
    if (e == "EmplaceBack") {
      r = {pos(a.emplace_back((int)idArg(0)))};
      ma_.emplace_back((int)idArg(0));
      mr = {(long long)ma_.size() - 1};
      hasMr = true;
      return;
    }
    if (e == "GrowByDefault" || e == "GrowByValue" || e == "GrowByRange" || e == "GrowByIlist" ||
        e == "GrowByGen") {
      long long c = arg(0);
      long long old = (long long)ma_.size();
      if (e == "GrowByDefault") {
        r = {pos(a.grow_by((size_t)c))};
        ma_.insert(ma_.end(), (size_t)c, kDefaultId);
      } else if (e == "GrowByValue") {
        {
          E val((int)idArg(1));
          r = {pos(a.grow_by((size_t)c, val))};
        }
        ma_.insert(ma_.end(), (size_t)c, (int)idArg(1));
      } else if (e == "GrowByRange") {
        {
          std::vector<E> src = srcVec(c, idArg(1));
          r = {pos(a.grow_by(src.begin(), src.end()))};
        }
        iota(ma_, c, idArg(1));
      } else if (e == "GrowByIlist") {
        withIlist<E>(c, idArg(1), [&](std::initializer_list<E> il) { r = {pos(a.grow_by(il))}; });
        iota(ma_, c, idArg(1));
      } else {
        int next = (int)idArg(1);
        r = {pos(a.grow_by_generator((size_t)c, [&next]() { return E(next++); }))};
        iota(ma_, c, idArg(1));
      }
      mr = {old};
      hasMr = true;
      return;
    }
    if (e == "GrowToAtLeast" || e == "GrowToAtLeastValue") {
      size_t n = (size_t)arg(0);
      if (n < 1)
        bad(op, "n >= 1 required");
      if (e == "GrowToAtLeast") {
        r = {pos(a.grow_to_at_least(n))};
        if (ma_.size() < n)
          ma_.resize(n, kDefaultId);
      } else {
        {
          E val((int)idArg(1));
          r = {pos(a.grow_to_at_least(n, val))};
        }
        if (ma_.size() < n)
          ma_.resize(n, (int)idArg(1));
      }
      return;
    }
    // ---------------------------------------------------------------- insert
    if (e.compare(0, 6, "Insert") == 0) {
      size_t at = (size_t)arg(0);
      if (at > a.size())
        bad(op, "position beyond end()");
      typename V::const_iterator cp = a.cbegin() + (ssize_t)at;
      if (e == "InsertCopy") {
        {
          E val((int)idArg(1));
          r = {pos(a.insert(cp, static_cast<const E&>(val)))};
        }
        mr = {mpos(ma_.insert(ma_.begin() + at, (int)idArg(1)))};
      } else if (e == "InsertMove") {
        {
          E val((int)idArg(1));
          r = {pos(a.insert(cp, std::move(val)))};
        }
        mr = {mpos(ma_.insert(ma_.begin() + at, (int)idArg(1)))};
      } else if (e == "InsertCount") {
        {
          E val((int)idArg(2));
          r = {pos(a.insert(cp, (size_t)arg(1), val))};
        }
        mr = {mpos(ma_.insert(ma_.begin() + at, (size_t)arg(1), (int)idArg(2)))};
      } else if (e == "InsertRange") {
        {
          std::list<E> src = srcList(arg(1), idArg(2));
          r = {pos(a.insert(cp, src.begin(), src.end()))};
        }
        std::vector<int> tmp;
        iota(tmp, arg(1), idArg(2));
        mr = {mpos(ma_.insert(ma_.begin() + at, tmp.begin(), tmp.end()))};
      } else if (e == "InsertIlist") {
        withIlist<E>(arg(1), idArg(2), [&](std::initializer_list<E> il) { r = {pos(a.insert(cp, il))}; });
        std::vector<int> tmp;
        iota(tmp, arg(1), idArg(2));
        mr = {mpos(ma_.insert(ma_.begin() + at, tmp.begin(), tmp.end()))};
      } else
        bad(op, "unknown insert");
      hasMr = true;
      return;
    }
    // ---------------------------------------------------------------- erase
    if (e == "EraseOne") {
      size_t at = (size_t)arg(0);
      if (at >= a.size())
        bad(op, "position not dereferenceable");
      r = {pos(a.erase(a.cbegin() + (ssize_t)at))};
      mr = {mpos(ma_.erase(ma_.begin() + at))};
      hasMr = true;
      return;
    }
    if (e == "EraseEnd") {
      r = {pos(a.erase(a.cend()))};
      return;
    }
    if (e == "EraseRange") {
      size_t f = (size_t)arg(0), l = (size_t)arg(1);
      if (f > l || l > a.size())
        bad(op, "invalid range");
      r = {pos(a.erase(a.cbegin() + (ssize_t)f, a.cbegin() + (ssize_t)l))};
      mr = {mpos(ma_.erase(ma_.begin() + f, ma_.begin() + l))};
      hasMr = true;
      return;
    }
    // ---------------------------------------------------------------- size changes
    if (e == "Resize") {
      a.resize((ssize_t)arg(0));
      ma_.resize((size_t)arg(0), kDefaultId);
      return;
    }
    if (e == "ResizeValue") {
      {
        E val((int)idArg(1));
        a.resize((ssize_t)arg(0), val);
      }
      ma_.resize((size_t)arg(0), (int)idArg(1));
      return;
    }
    if (e == "Reserve") {
      a.reserve((ssize_t)arg(0));
      ma_.reserve((size_t)arg(0));
      return;
    }
    if (e == "PopBack") {
      if (a.size() == 0)
        bad(op, "empty");
      a.pop_back();
      ma_.pop_back();
      return;
    }
    if (e == "Clear") {
      a.clear();
      ma_.clear();
      return;
    }
    if (e == "ShrinkToFit") {
      a.shrink_to_fit();
      ma_.shrink_to_fit();
      return;
    }
    // ---------------------------------------------------------------- observers
    const V& ca = a;
    if (e == "IterFwd") {
      for (auto it = a.begin(); it != a.end(); ++it)
        r.push_back(it->id);
      for (auto& x : a)
        r.push_back(x.id);
      return;
    }
    if (e == "IterConst") {
      for (auto it = ca.cbegin(); it != ca.cend(); it++)
        r.push_back((*it).id);
      for (typename V::const_iterator it = ca.begin(); it != ca.end(); ++it)
        r.push_back(it->id);
      return;
    }
    if (e == "IterRev") {
      for (auto it = a.rbegin(); it != a.rend(); ++it)
        r.push_back(it->id);
      for (auto it = a.end(); it != a.begin();) {
        --it;
        r.push_back(it->id);
      }
      return;
    }
    if (e == "IterConstRev") {
      for (auto it = ca.rbegin(); it != ca.rend(); ++it)
        r.push_back(it->id);
      for (auto it = ca.cend(); it != ca.cbegin();) {
        it--;
        r.push_back(it->id);
      }
      return;
    }
    if (e == "Index") {
      for (size_t i = 0; i < a.size(); ++i)
        r.push_back(a[i].id);
      for (size_t i = 0; i < ca.size(); ++i)
        r.push_back(ca[i].id);
      return;
    }
    if (e == "At") {
      for (size_t i = 0; i < a.size(); ++i)
        r.push_back(a.at(i).id);
      try {
        (void)a.at(a.size());
        r.push_back(0);
      } catch (const std::out_of_range&) {
        r.push_back(1);
      }
      for (size_t i = 0; i < ca.size(); ++i)
        r.push_back(ca.at(i).id);
      try {
        (void)ca.at(ca.size());
        r.push_back(0);
      } catch (const std::out_of_range&) {
        r.push_back(1);
      }
      return;
    }
    if (e == "FrontBack") {
      if (a.size() == 0)
        bad(op, "empty");
      r = {a.front().id, a.back().id, ca.front().id, ca.back().id};
      mr = {ma_.front(), ma_.back(), ma_.front(), ma_.back()};
      hasMr = true;
      return;
    }
    if (e == "SizeInfo") {
      r = {(long long)ca.size(), ca.empty() ? 1 : 0};
      mr = {(long long)ma_.size(), ma_.empty() ? 1 : 0};
      hasMr = true;
      return;
    }
    if (e == "IterArith") {
      ssize_t i = (ssize_t)arg(0);
      ssize_t n = (ssize_t)a.size();
      if (i > n)
        bad(op, "position beyond end()");
      for (ssize_t j = 0; j <= n; ++j) {
        auto it = a.begin() + i;
        ssize_t d = j - i;
        auto it2 = it + d;
        r.push_back(it2 - a.begin());
        r.push_back(it2 - it);
        r.push_back(it - it2);
        r.push_back(it < it2);
        r.push_back(it <= it2);
        r.push_back(it > it2);
        r.push_back(it >= it2);
        r.push_back(it == it2);
        r.push_back(it != it2);
        r.push_back(j < n ? (*it2).id : 0);
        r.push_back(j < n ? it[d].id : 0);
        auto it3 = it;
        it3 += d;
        r.push_back(it3 - a.begin());
        auto it4 = it2;
        it4 -= d;
        r.push_back(it4 - a.begin());
      }
      return;
    }
    bad(op, "unknown operation");
  }
};

template <class V>
IRunner* makeRunnerOf(ctl::Trace& tr, int f, int inl, int fast, int strat) {
  return new Runner<V>(tr, f, inl, fast, strat);
}

// One part = one (element size, iterator kind); 6 instantiations (buffer placement x strategy).
template <size_t N, bool Fast>
IRunner* makePart(ctl::Trace& tr, int f, int inl, int strat) {
  using E = Elem<N>;
  switch (inl * 3 + strat) {
    case 0:
      return makeRunnerOf<dispenso::ConcurrentVector<E, Traits<false, Fast, 0>>>(tr, f, 0, Fast, 0);
    case 1:
      return makeRunnerOf<dispenso::ConcurrentVector<E, Traits<false, Fast, 1>>>(tr, f, 0, Fast, 1);
    case 2:
      return makeRunnerOf<dispenso::ConcurrentVector<E, Traits<false, Fast, 2>>>(tr, f, 0, Fast, 2);
    case 3:
      return makeRunnerOf<dispenso::ConcurrentVector<E, Traits<true, Fast, 0>>>(tr, f, 1, Fast, 0);
    case 4:
      return makeRunnerOf<dispenso::ConcurrentVector<E, Traits<true, Fast, 1>>>(tr, f, 1, Fast, 1);
    case 5:
      return makeRunnerOf<dispenso::ConcurrentVector<E, Traits<true, Fast, 2>>>(tr, f, 1, Fast, 2);
  }
  return nullptr;
}

// defined in drv_seqvec_p1.cpp .. p6.cpp
IRunner* makeF1Fast(ctl::Trace& tr, int inl, int strat);
IRunner* makeF1Compact(ctl::Trace& tr, int inl, int strat);
IRunner* makeF2Fast(ctl::Trace& tr, int inl, int strat);
IRunner* makeF2Compact(ctl::Trace& tr, int inl, int strat);
IRunner* makeF4Fast(ctl::Trace& tr, int inl, int strat);
IRunner* makeF4Compact(ctl::Trace& tr, int inl, int strat);

} // namespace sv
