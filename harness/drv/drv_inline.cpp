// Driver for C46 (spec/taskset/InlineDepth.tla, InlineDepthObs.tla): long chains on the real library,
// on threads with SMALL stacks, E5 observation records (one per scenario and size pair n / 4n).
//
//   --out FILE [--n 2500] [--scenarios a,b,...] [--stack-kb 256]
//
// The process re-executes itself with RLIMIT_STACK = 256 KB, so the main thread AND every thread the
// library creates (pool workers) run on 256 KB stacks.  Every (scenario, n) runs in a forked child:
// a crash (stack overflow) is recorded, not fatal for the driver.
// Observed per run:  nest  = deepest nesting of body entries on one thread, measured from the stack
//                            pointers of the entries (an entry whose frame has been unwound is dropped),
//                            i.e. how deep the library nested inline execution - guarded or not;
//                    guard = largest InlineDepthGuard depth reported by the library hook (InlGuard);
//                    sb    = deepest stack use in bytes at a body entry;  ran = bodies executed;
//                    need  = bodies that must have run (n; fault scenarios: those entered before the fault),
//                    inj / left = fault scenarios: the fault was placed as intended / items queued at that time.
// C++ only drives and records; TLC checks the records against the bound of the specification.
#include <dispenso/future.h>
#include <dispenso/graph.h>
#include <dispenso/graph_executor.h>
#include <dispenso/pipeline.h>
#include <dispenso/task_set.h>
#include <dispenso/thread_pool.h>

#include <pthread.h>
#include <sys/resource.h>
#include <sys/wait.h>
#include <unistd.h>

#include <atomic>
#include <cstdio>
#include <cstring>
#include <functional>
#include <map>
#include <memory>
#include <stdexcept>
#include <string>
#include <thread>
#include <vector>

#include "../ctl/drv_common.h"

// ------------------------------------------------------------------ observation
static std::atomic<long> gMaxNest{0}, gMaxGuard{0}, gMaxStack{0}, gRan{0};

static void atomicMax(std::atomic<long>& a, long v) {
  long cur = a.load();
  while (v > cur && !a.compare_exchange_weak(cur, v)) {
  }
}

struct ThreadObs {
  uintptr_t sp[4096];
  int depth = 0;
  uintptr_t top = 0; // highest address of this thread's stack
};
static thread_local ThreadObs tObs;

static uintptr_t stackTop() {
  if (!tObs.top) {
    pthread_attr_t attr;
    void* addr = nullptr;
    size_t size = 0;
    if (pthread_getattr_np(pthread_self(), &attr) == 0) {
      pthread_attr_getstack(&attr, &addr, &size);
      pthread_attr_destroy(&attr);
    }
    tObs.top = (uintptr_t)addr + size;
  }
  return tObs.top;
}

// called at the entry of every task body / continuation / stage / node
static __attribute__((noinline)) void bodyEntry() {
  volatile char marker = 0;
  uintptr_t sp = (uintptr_t)&marker;
  auto& o = tObs;
  while (o.depth > 0 && o.sp[o.depth - 1] <= sp) // frames at or below this address have been unwound
    --o.depth;
  if (o.depth < 4096)
    o.sp[o.depth++] = sp;
  atomicMax(gMaxNest, o.depth);
  atomicMax(gMaxStack, (long)(stackTop() - sp));
  gRan.fetch_add(1, std::memory_order_relaxed);
}

extern "C" void dispenso_verif_note(const char* site, const void*, long long a, long long) {
  if (site[0] == 'I' && site[1] == 'n' && site[2] == 'l')
    atomicMax(gMaxGuard, (long)a);
}

struct Result {
  long ran = 0, nest = 0, guard = 0, sb = 0;
  long need = 0, inj = 0, left = 0; // bodies that must have run (n unless the scenario says otherwise); fault scenarios: placed / backlog at the fault
  int done = 0;
};

// ------------------------------------------------------------------ scenarios
using Scenario = std::function<void(long n)>;

// a gate the first link spins on, so that the chain is fully built before anything completes
struct Flag {
  std::atomic<int> v{0};
  void wait() {
    while (!v.load(std::memory_order_acquire))
      sched_yield();
  }
  void set() {
    v.store(1, std::memory_order_release);
  }
};

// n `then` continuations on the ImmediateInvoker behind a root that is not ready while they are added
static void thenImmediate(long n) {
  dispenso::ThreadPool pool(1);
  Flag go;
  dispenso::Future<int> f([&go]() {
    go.wait();
    bodyEntry();
    return 0;
  }, pool, std::launch::async);
  std::vector<dispenso::Future<int>> keep;
  for (long i = 0; i < n; ++i) {
    f = f.then([](dispenso::Future<int>&& p) {
      bodyEntry();
      return p.get() + 1;
    }, dispenso::kImmediateInvoker);
  }
  go.set();
  while (!f.is_ready()) // (get() on a continuation that has not started would run the chain from its tail)
    sched_yield();
  if (f.get() != n)
    _exit(9);
}

// get() on the LAST of n continuations while none has started: Future::wait runs the functor on the
// waiter, whose first act is to wait for its predecessor, which runs that one on the waiter, ...
static void thenGetTail(long n) {
  dispenso::ThreadPool pool(1);
  Flag go, started;
  dispenso::Future<int> f([&go, &started]() {
    started.set();
    go.wait();
    bodyEntry();
    return 0;
  }, pool, std::launch::async);
  started.wait();
  for (long i = 0; i < n; ++i) {
    f = f.then([](dispenso::Future<int>&& p) {
      bodyEntry();
      return p.get() + 1;
    }, pool);
  }
  std::thread releaser([&go]() {
    usleep(20000);
    go.set();
  });
  int v = f.get();
  releaser.join();
  if (v != n)
    _exit(9);
}

// n `then` continuations on a saturated pool (1 thread, load multiplier 1, two tasks kept queued)
static void thenSaturatedPool(long n) {
  dispenso::ThreadPool pool(1, 1);
  Flag go, release;
  dispenso::Future<int> f([&go]() {
    go.wait();
    bodyEntry();
    return 0;
  }, pool, std::launch::async);
  // keep the pool over its load factor while the chain runs: these stay queued behind the root
  std::atomic<int> fillers{0};
  for (int i = 0; i < 4; ++i)
    pool.schedule([&fillers]() { fillers.fetch_add(1); }, dispenso::ForceQueuingTag());
  for (long i = 0; i < n; ++i) {
    f = f.then([](dispenso::Future<int>&& p) {
      bodyEntry();
      return p.get() + 1;
    }, pool);
  }
  go.set();
  while (!f.is_ready())
    sched_yield();
  if (f.get() != n)
    _exit(9);
  while (fillers.load() < 4)
    sched_yield();
}

// serial pipeline (generator -> serial transform -> serial sink) with n items
static void pipelineSerial(long n, int threads) {
  dispenso::ThreadPool pool((size_t)threads);
  long next = 0, sum = 0;
  dispenso::pipeline(
      pool,
      [&next, n]() -> dispenso::OpResult<long> {
        if (next >= n)
          return {};
        return next++;
      },
      [](long v) {
        bodyEntry();
        return v + 1;
      },
      [&sum](long v) {
        bodyEntry();
        sum += v;
      });
  if (sum != n * (n + 1) / 2)
    _exit(9);
}

// --- serial pipeline stage with a large backlog WHILE THE PIPELINE'S TASK SET HOLDS AN EXCEPTION ------------
// The depth limit of the serial stage's continuation chain (completion callback runs the next queued item)
// must hold in every state of the pipeline, also after a stage has thrown: the limited path does not look
// at hasException() before it runs a stage function, so as long as nobody discards the backlog the chain
// keeps running items, and a chain that stops honouring canInlineSchedule() once the set is cancelled nests
// once per queued item.  The fault-free scenarios above never reach that state.  What it takes (all of it
// public API: slow stage functions, a stage that throws):
//   * generator -> A (serial transform, the backlog: its first call holds the stage until the generator has
//     handed out all n items) -> sink (the stage that throws);
//   * the exception must be recorded while a thread X is in the MIDDLE of a run of inline continuations of A
//     (after the throw a force-queued continuation is dropped by the cancelled task set, which ends the chain
//     in every version): a sink call, on a pool worker Y, waits until a call of A that is nested 3..20 deep on
//     another thread has parked, then throws; the parked call of A resumes once the exception has been recorded;
//   * nobody may discard A's backlog meanwhile; the only thread that does is the caller of pipeline(), in
//     LimitGatedScheduler::wait().  Three ways to keep it away:
//       1 pool thread: the generator has ended, the caller is in the wait loops and helps itself to pool
//         tasks (tryExecuteNext); the sink (serial) throws only on the worker, and once it has parked there
//         the caller is the only thread left to run A: X = caller, the chain is nested in wait();
//       2 pool threads: the same, but the sink admits two items at a time and the first sink call that runs on
//         the caller is a slow one (returns when A has gone quiet after the fault): X = caller or the caller
//         is busy inside a stage function while the two workers are X and Y;
//       open generator (3 pool threads): the generator stays open (blocked like a source waiting for input)
//         until A has gone quiet after the fault, so the caller is parked in the generator's completion wait;
//         X and Y are the two remaining workers (seeded/C46-b/agent_demo.cpp).
// Every wait is a handshake with a time-out (the run degrades to a fault-free or racy one, never hangs); a
// round in which the fault could not be placed is repeated (a few times).  Reported: inj = the fault was
// recorded mid-chain with at least n/3 items still queued behind A; need = bodies that must have run
// (after the fault the rest of the backlog is legitimately discarded by wait()).
static std::atomic<long> gNeed{-1}, gInj{0}, gLeft{0};

template <typename P>
static bool waitFor(P p, int ms) {
  for (long i = 0; !p(); ++i) {
    if (i >= ms * 10L)
      return false;
    if (i < 200)
      sched_yield();
    else
      usleep(100);
  }
  return true;
}

struct PipeFault : std::runtime_error {
  PipeFault() : std::runtime_error("sink failed") {}
};

static bool pipelineSerialFaultRound(long n, int threads, bool openGen) {
  dispenso::ThreadPool pool((size_t)threads);
  {
    // all workers up and running before the pipeline starts (otherwise the caller does most of the work of
    // the first round of a process alone)
    std::atomic<int> up{0};
    for (int i = 0; i < threads; ++i)
      pool.schedule([&up, threads]() {
        up.fetch_add(1);
        waitFor([&]() { return up.load() >= threads; }, 2000);
      }, dispenso::ForceQueuingTag());
    waitFor([&]() { return up.load() >= threads; }, 2000);
  }
  const pthread_t caller = pthread_self();
  const bool slowSinkOnCaller = !openGen && threads >= 2;
  std::atomic<int> allQueued{0}, sinkWaiting{0}, aParked{0}, thrown{0}, resumed{0}, callerBusy{0};
  std::atomic<long> ranA{0}, ranAtFault{0};
  std::atomic<unsigned long> genThread{0}, sinkThread{0};
  long next = 0;
  bool caught = false;
  // A has gone quiet after the fault (or has run everything, or the fault cannot be placed any more)
  auto untilQuiet = [&]() {
    if (waitFor([&]() { return resumed.load(std::memory_order_acquire) != 0 || ranA.load() >= n; }, 20000)) {
      // no call of A for 40 ms (a preempted chain must not be taken for a finished one)
      long last = -1;
      int same = 0;
      waitFor([&]() {
        long cur = ranA.load(std::memory_order_acquire);
        same = cur == last ? same + 1 : 0;
        last = cur;
        usleep(4000);
        return same >= 10;
      }, 20000);
    }
  };
  try {
    dispenso::pipeline(
        pool,
        [&]() -> dispenso::OpResult<long> {
          genThread.store((unsigned long)pthread_self(), std::memory_order_relaxed);
          if (next < n)
            return next++;
          allQueued.store(1, std::memory_order_release);
          if (openGen)
            untilQuiet(); // a source that is still open: end of input only after the fault
          return {};
        },
        dispenso::stage(
            [&](long v) -> long {
              bodyEntry();
              long k = ranA.fetch_add(1, std::memory_order_acq_rel) + 1;
              bool onGen = genThread.load(std::memory_order_relaxed) == (unsigned long)pthread_self();
              if (k == 1 && !onGen) {
                // hold the stage until everything is queued behind it (not when the library runs this call
                // inside the generator's own task: the generator could not go on)
                waitFor([&]() { return allQueued.load(std::memory_order_acquire) != 0; }, 10000);
              }
              if (k <= n / 2 && !aParked.load(std::memory_order_acquire))
                usleep(20); // A is the slow stage: do not work the backlog off before the fault has been placed
              int d = tObs.depth;
              if (sinkWaiting.load(std::memory_order_acquire) && d >= 3 && d <= 20 &&
                  (openGen || pthread_equal(pthread_self(), caller) || callerBusy.load(std::memory_order_acquire)) &&
                  sinkThread.load(std::memory_order_acquire) != (unsigned long)pthread_self() &&
                  !aParked.exchange(1, std::memory_order_acq_rel)) {
                ranAtFault.store(k, std::memory_order_relaxed);
                if (waitFor([&]() { return thrown.load(std::memory_order_acquire) != 0; }, 10000)) {
                  // go on when the catch handler of the sink's task has recorded the exception: this call runs inside
                  // a task of the pipeline's ConcurrentTaskSet, which is what parentTaskSet() returns
                  dispenso::TaskSetBase* ts = dispenso::parentTaskSet();
                  if (ts && waitFor([ts]() { return ts->canceled(); }, 10000))
                    resumed.store(1, std::memory_order_release);
                }
              }
              return v + 1;
            },
            1),
        dispenso::stage(
            [&](long) {
              bodyEntry();
              if (thrown.load(std::memory_order_acquire) || aParked.load(std::memory_order_acquire) ||
                  !allQueued.load(std::memory_order_acquire) || ranA.load() > n / 2) // (too late for a large backlog)
                return;
              if (!openGen && pthread_equal(pthread_self(), caller)) {
                // never the thrower (it would go straight on to discard the backlog); with two workers: a slow call
                if (slowSinkOnCaller && !callerBusy.exchange(1, std::memory_order_acq_rel))
                  untilQuiet();
                return;
              }
              if (sinkWaiting.exchange(1, std::memory_order_acq_rel))
                return;
              sinkThread.store((unsigned long)pthread_self(), std::memory_order_release);
              bool parked = waitFor([&]() { return aParked.load(std::memory_order_acquire) != 0 || ranA.load() >= n; }, 10000) &&
                  aParked.load(std::memory_order_acquire) != 0;
              if (parked) {
                thrown.store(1, std::memory_order_release);
                throw PipeFault();
              }
            },
            slowSinkOnCaller ? 2 : 1));
  } catch (const PipeFault&) {
    caught = true;
  }
  bool faulted = thrown.load() != 0;
  if (caught != faulted)
    _exit(9); // the exception of the stage must reach the caller of pipeline() (and only that)
  if (!faulted) {
    if (ranA.load() != n)
      _exit(9);
    gNeed.store(2 * n);
    return false;
  }
  long left = n - ranAtFault.load();
  gNeed.store(ranAtFault.load());
  gLeft.store(left);
  gInj.store(resumed.load() && left >= n / 3 ? 1 : 0);
  return gInj.load() != 0;
}

static void pipelineSerialFault(long n, int threads, bool openGen) {
  for (int round = 0; round < 4; ++round)
    if (pipelineSerialFaultRound(n, threads, openGen))
      return;
}

// n-node chain graph (and a comb: every spine node also releases a leaf) on the ConcurrentTaskSet executor
static void graphChain(long n, bool comb, int threads) {
  dispenso::ThreadPool pool((size_t)threads);
  dispenso::Graph g;
  std::atomic<long> cnt{0};
  dispenso::Node* prev = nullptr;
  for (long i = 0; i < n; ++i) {
    dispenso::Node& nd = g.addNode([&cnt]() {
      bodyEntry();
      cnt.fetch_add(1);
    });
    if (prev) {
      if (comb) {
        // leaf first: it becomes the inline continuation, the spine goes through tasks.schedule
        dispenso::Node& leaf = g.addNode([&cnt]() {
          bodyEntry();
          cnt.fetch_add(1);
        });
        leaf.dependsOn(*prev);
      }
      nd.dependsOn(*prev);
    }
    prev = &nd;
  }
  setAllNodesIncomplete(g); // (found by ADL: the only declaration is the friend declaration in Node)
  dispenso::ConcurrentTaskSet tasks(pool);
  dispenso::ConcurrentTaskSetExecutor exec;
  exec(tasks, g);
  if (cnt.load() != (comb ? 2 * n - 1 : n))
    _exit(9);
}

// recursive scheduling on ONE ConcurrentTaskSet under overload: task k schedules task k + 1
struct CtsChain {
  dispenso::ConcurrentTaskSet* ts;
  long n;
  std::atomic<long> ran{0};
  void link(long k) {
    bodyEntry();
    ran.fetch_add(1);
    if (k < n)
      ts->schedule([this, k]() { link(k + 1); });
  }
};
static void ctsRecursive(long n, int threads, bool heavy) {
  dispenso::ThreadPool pool((size_t)threads, 1);
  dispenso::ConcurrentTaskSet ts(pool, heavy ? dispenso::TaskCost::kHeavy : dispenso::TaskCost::kLightweight, 1);
  Flag release;
  // overload: the only worker is held inside a task, more tasks stay queued
  std::atomic<int> blockers{0};
  for (int i = 0; threads > 0 && i < 2 + 2 * threads; ++i)
    ts.schedule([&release, &blockers]() {
      blockers.fetch_add(1);
      release.wait();
    }, dispenso::ForceQueuingTag());
  CtsChain c{&ts, n};
  ts.schedule([&c]() { c.link(1); });
  release.set();
  ts.wait();
  if (c.ran.load() != n)
    _exit(9);
}

// the same while the set holds an exception: a sibling task throws when the chain is 10 links deep (nested on
// the scheduling thread); the link goes on scheduling its successor once the set is cancelled.  Every schedule
// path drops work for a cancelled set, so the chain ends there - in particular it must not go on inline
// without the depth guard.  (needs PipeFault / waitFor from the pipeline fault scenarios above)
static void ctsRecursiveFault(long n, int threads, bool heavy) {
  dispenso::ThreadPool pool((size_t)threads, 1);
  dispenso::ConcurrentTaskSet ts(pool, heavy ? dispenso::TaskCost::kHeavy : dispenso::TaskCost::kLightweight, 1);
  Flag release;
  std::atomic<int> blockers{0}, midChain{0}, recorded{0};
  for (int i = 0; i < 2 + 2 * threads; ++i)
    ts.schedule([&]() {
      if (blockers.fetch_add(1) == 0 && waitFor([&]() { return midChain.load(std::memory_order_acquire) != 0; }, 10000))
        throw PipeFault();
      release.wait();
    }, dispenso::ForceQueuingTag());
  // the queued tasks of a cancelled set evaporate; tasks that are not the set's keep the POOL over its load
  // factor (the second load-based inline decision of ConcurrentTaskSet::schedule) after the fault
  std::atomic<int> fillers{0};
  for (int i = 0; i < 4; ++i)
    pool.schedule([&]() {
      release.wait();
      fillers.fetch_add(1);
    }, dispenso::ForceQueuingTag());
  struct Chain {
    dispenso::ConcurrentTaskSet* ts;
    long n;
    std::atomic<int>*midChain, *recorded;
    std::atomic<long> ran{0};
    void link(long k) {
      bodyEntry();
      ran.fetch_add(1);
      if (k == 10 && tObs.depth >= 3) {
        midChain->store(1, std::memory_order_release);
        if (waitFor([this]() { return ts->canceled(); }, 10000))
          recorded->store(1);
      }
      if (k < n)
        ts->schedule([this, k]() { link(k + 1); });
    }
  } c{&ts, n, &midChain, &recorded};
  bool caught = false;
  try {
    ts.schedule([&c]() { c.link(1); });
    midChain.store(1); // (a chain that was not nested at link 10: no fault is placed, the blocker throws late)
    release.set();
    ts.wait();
  } catch (const PipeFault&) {
    caught = true;
  }
  release.set();
  while (fillers.load() < 4)
    sched_yield();
  if (!caught)
    _exit(9);
  gNeed.store(recorded.load() ? 10 : 0);
  gLeft.store(n - c.ran.load());
  gInj.store(recorded.load());
}

// recursive scheduling on a TaskSet from its owner thread under overload of the set
struct TsChain {
  dispenso::TaskSet* ts;
  long n;
  long ran = 0;
  void link(long k) {
    bodyEntry();
    ++ran;
    if (k < n)
      ts->schedule([this, k]() { link(k + 1); });
  }
};
static void tsRecursive(long n) {
  dispenso::ThreadPool pool(1, 32);
  dispenso::TaskSet ts(pool, 1);
  Flag release;
  for (int i = 0; i < 3; ++i)
    ts.schedule([&release]() { release.wait(); }, dispenso::ForceQueuingTag());
  TsChain c{&ts, n};
  ts.schedule([&c]() { c.link(1); }); // outstanding (3) > load factor (1): runs on the owner thread
  release.set();
  ts.wait();
  if (c.ran != n)
    _exit(9);
}

// recursive ThreadPool::schedule under overload (multiplier 1) from a pool thread
struct PoolChain {
  dispenso::ThreadPool* pool;
  long n;
  std::atomic<long> ran{0};
  void link(long k) {
    bodyEntry();
    ran.fetch_add(1);
    if (k < n)
      pool->schedule([this, k]() { link(k + 1); });
  }
};
static void poolRecursive(long n, int threads) {
  dispenso::ThreadPool pool((size_t)threads, 1);
  PoolChain c{&pool, n};
  std::atomic<int> fillers{0};
  Flag go;
  if (threads > 0) {
    pool.schedule([&]() {
      go.wait();
      c.link(1);
    }, dispenso::ForceQueuingTag());
    for (int i = 0; i < 4; ++i)
      pool.schedule([&fillers]() { fillers.fetch_add(1); }, dispenso::ForceQueuingTag());
    go.set();
    while (c.ran.load() < n || fillers.load() < 4)
      sched_yield();
  } else {
    pool.schedule([&]() { c.link(1); });
    if (c.ran.load() != n)
      _exit(9);
  }
}

// the same through ThreadPool::scheduleBulk (the inline branch of scheduleBulkImpl under load)
struct PoolBulkChain {
  dispenso::ThreadPool* pool;
  long n;
  std::atomic<long> ran{0};
  void link(long k) {
    bodyEntry();
    ran.fetch_add(1);
    if (k < n)
      pool->scheduleBulk(1, [this, k](size_t) { return [this, k]() { link(k + 1); }; });
  }
};
static void poolBulkRecursive(long n, int threads) {
  dispenso::ThreadPool pool((size_t)threads, 1);
  PoolBulkChain c{&pool, n};
  std::atomic<int> fillers{0};
  Flag go;
  pool.schedule([&]() {
    go.wait();
    c.link(1);
  }, dispenso::ForceQueuingTag());
  for (int i = 0; i < 4; ++i)
    pool.schedule([&fillers]() { fillers.fetch_add(1); }, dispenso::ForceQueuingTag());
  go.set();
  while (c.ran.load() < n || fillers.load() < 4)
    sched_yield();
}

static std::map<std::string, Scenario> scenarios() {
  std::map<std::string, Scenario> m;
  m["then_immediate"] = [](long n) { thenImmediate(n); };
  m["then_pool_saturated"] = [](long n) { thenSaturatedPool(n); };
  m["then_get_tail"] = [](long n) { thenGetTail(n); };
  m["pipeline_serial_p2"] = [](long n) { pipelineSerial(n, 2); };
  m["pipeline_serial_p1"] = [](long n) { pipelineSerial(n, 1); };
  m["pipeline_serial_p0"] = [](long n) { pipelineSerial(n, 0); };
  m["pipeline_serial_fault_p1"] = [](long n) { pipelineSerialFault(n, 1, false); };
  m["pipeline_serial_fault_p2"] = [](long n) { pipelineSerialFault(n, 2, false); };
  m["pipeline_serial_fault_open_p3"] = [](long n) { pipelineSerialFault(n, 3, true); };
  m["graph_chain_p2"] = [](long n) { graphChain(n, false, 2); };
  m["graph_comb_p1"] = [](long n) { graphChain(n, true, 1); };
  m["graph_comb_p0"] = [](long n) { graphChain(n, true, 0); };
  m["cts_recursive_heavy_p1"] = [](long n) { ctsRecursive(n, 1, true); };
  m["cts_recursive_light_p1"] = [](long n) { ctsRecursive(n, 1, false); };
  m["cts_recursive_heavy_p0"] = [](long n) { ctsRecursive(n, 0, true); };
  m["cts_recursive_heavy_fault_p1"] = [](long n) { ctsRecursiveFault(n, 1, true); };
  m["cts_recursive_light_fault_p1"] = [](long n) { ctsRecursiveFault(n, 1, false); };
  m["ts_recursive_p1"] = [](long n) { tsRecursive(n); };
  m["pool_recursive_p1"] = [](long n) { poolRecursive(n, 1); };
  m["pool_recursive_p0"] = [](long n) { poolRecursive(n, 0); };
  m["pool_bulk_recursive_p1"] = [](long n) { poolBulkRecursive(n, 1); };
  return m;
}

// ------------------------------------------------------------------ runner
struct Outcome {
  Result r;
  int crash = 0, sig = 0, timeout = 0;
};

static Outcome runChild(const Scenario& sc, long n, int timeoutSec) {
  Outcome o;
  int fds[2];
  if (pipe(fds) != 0)
    _exit(4);
  pid_t pid = fork();
  if (pid == 0) {
    close(fds[0]);
    alarm((unsigned)timeoutSec);
    sc(n);
    Result r;
    r.done = 1;
    r.ran = gRan.load();
    r.nest = gMaxNest.load();
    r.guard = gMaxGuard.load();
    r.sb = gMaxStack.load();
    r.need = gNeed.load() < 0 ? n : gNeed.load();
    r.inj = gInj.load();
    r.left = gLeft.load();
    if (write(fds[1], &r, sizeof r) != (ssize_t)sizeof r)
      _exit(5);
    _exit(0);
  }
  close(fds[1]);
  Result r;
  ssize_t got = read(fds[0], &r, sizeof r);
  close(fds[0]);
  int status = 0;
  waitpid(pid, &status, 0);
  if (got == (ssize_t)sizeof r && WIFEXITED(status) && WEXITSTATUS(status) == 0) {
    o.r = r;
  } else if (WIFSIGNALED(status)) {
    o.sig = WTERMSIG(status);
    if (o.sig == SIGALRM)
      o.timeout = 1;
    else
      o.crash = 1;
  } else {
    o.crash = 1;
    o.sig = WIFEXITED(status) ? 100 + WEXITSTATUS(status) : -1;
  }
  return o;
}

int main(int argc, char** argv) {
  drv::Args a(argc, argv);
  long stackKb = a.num("stack-kb", 256);
  if (!getenv("DRV_INLINE_CHILD")) {
    struct rlimit rl;
    rl.rlim_cur = rl.rlim_max = (rlim_t)stackKb * 1024;
    if (setrlimit(RLIMIT_STACK, &rl) != 0) {
      perror("setrlimit");
      return 3;
    }
    setenv("DRV_INLINE_CHILD", "1", 1);
    execv("/proc/self/exe", argv);
    perror("execv");
    return 3;
  }
  FILE* out = fopen(a.str("out", "inline.ndjson").c_str(), "w");
  if (!out)
    return 3;
  long n = a.num("n", 2500);
  auto all = scenarios();
  std::vector<std::string> names;
  if (a.has("scenarios")) {
    for (auto& s : drv::split(a.str("scenarios"), ','))
      names.push_back(s);
  } else {
    for (auto& kv : all)
      names.push_back(kv.first);
  }
  long records = 0, crashes = 0;
  fprintf(out, "{\"e\":\"Header\",\"stackkb\":%ld,\"maxinl\":%d}\n", stackKb, dispenso::detail::kMaxInlineDepth);
  for (auto& name : names) {
    auto it = all.find(name);
    if (it == all.end()) {
      fprintf(stderr, "ERROR drv_inline: unknown scenario %s\n", name.c_str());
      return 3;
    }
    Outcome o1 = runChild(it->second, n, (int)a.num("timeout", 60));
    Outcome o2 = runChild(it->second, 4 * n, (int)a.num("timeout", 60));
    fprintf(
        out,
        "{\"e\":\"Obs\",\"sc\":\"%s\",\"n1\":%ld,\"n2\":%ld,\"done1\":%d,\"done2\":%d,\"crash1\":%d,\"crash2\":%d,"
        "\"sig1\":%d,\"sig2\":%d,\"timeout1\":%d,\"timeout2\":%d,\"ran1\":%ld,\"ran2\":%ld,\"nest1\":%ld,\"nest2\":%ld,"
        "\"guard1\":%ld,\"guard2\":%ld,\"sb1\":%ld,\"sb2\":%ld,\"need1\":%ld,\"need2\":%ld,\"inj1\":%ld,\"inj2\":%ld,"
        "\"left1\":%ld,\"left2\":%ld}\n",
        name.c_str(), n, 4 * n, o1.r.done, o2.r.done, o1.crash, o2.crash, o1.sig, o2.sig, o1.timeout, o2.timeout,
        o1.r.ran, o2.r.ran, o1.r.nest, o2.r.nest, o1.r.guard, o2.r.guard, o1.r.sb, o2.r.sb, o1.r.need, o2.r.need, o1.r.inj,
        o2.r.inj, o1.r.left, o2.r.left);
    fflush(out);
    ++records;
    crashes += o1.crash + o2.crash;
  }
  fclose(out);
  printf("DRIVER executions=%ld steps=%ld completed=%ld deadlocks=0 diverged=0 stuck=0 crashes=%ld\n", records, records,
         records, crashes);
  return 0;
}
