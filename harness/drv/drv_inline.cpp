// Driver for C46 (spec/taskset/InlineDepth.tla, InlineDepthObs.tla): long chains on the real library,
// on threads with SMALL stacks, E5 observation records (one per scenario and size pair n / 4n).
//
//   --out FILE [--n 2500] [--scenarios a,b,...] [--stack-kb 256]
//
// The process re-executes itself with RLIMIT_STACK = 256 KB, so the main thread AND every thread the
// library creates (pool workers) run on 256 KB stacks.  Every (scenario, n) runs in a forked child:
// a crash (stack overflow) is recorded, not fatal for the driver.
// Observed per run:  nest  = deepest nesting of body entries on one thread, measured from the stack
//                            pointers of the entries (an entry whose frame has been unwound is dropped),
//                            i.e. how deep the library nested inline execution - guarded or not;
//                    guard = largest InlineDepthGuard depth reported by the library hook (InlGuard);
//                    sb    = deepest stack use in bytes at a body entry;  ran = bodies executed.
// C++ only drives and records; TLC checks the records against the bound of the specification.
#include <dispenso/future.h>
#include <dispenso/graph.h>
#include <dispenso/graph_executor.h>
#include <dispenso/pipeline.h>
#include <dispenso/task_set.h>
#include <dispenso/thread_pool.h>

#include <pthread.h>
#include <sys/resource.h>
#include <sys/wait.h>
#include <unistd.h>

#include <atomic>
#include <cstdio>
#include <cstring>
#include <functional>
#include <map>
#include <memory>
#include <string>
#include <thread>
#include <vector>

#include "../ctl/drv_common.h"

// ------------------------------------------------------------------ observation
static std::atomic<long> gMaxNest{0}, gMaxGuard{0}, gMaxStack{0}, gRan{0};

static void atomicMax(std::atomic<long>& a, long v) {
  long cur = a.load();
  while (v > cur && !a.compare_exchange_weak(cur, v)) {
  }
}

struct ThreadObs {
  uintptr_t sp[4096];
  int depth = 0;
  uintptr_t top = 0; // highest address of this thread's stack
};
static thread_local ThreadObs tObs;

static uintptr_t stackTop() {
  if (!tObs.top) {
    pthread_attr_t attr;
    void* addr = nullptr;
    size_t size = 0;
    if (pthread_getattr_np(pthread_self(), &attr) == 0) {
      pthread_attr_getstack(&attr, &addr, &size);
      pthread_attr_destroy(&attr);
    }
    tObs.top = (uintptr_t)addr + size;
  }
  return tObs.top;
}

// called at the entry of every task body / continuation / stage / node
static __attribute__((noinline)) void bodyEntry() {
  volatile char marker = 0;
  uintptr_t sp = (uintptr_t)&marker;
  auto& o = tObs;
  while (o.depth > 0 && o.sp[o.depth - 1] <= sp) // frames at or below this address have been unwound
    --o.depth;
  if (o.depth < 4096)
    o.sp[o.depth++] = sp;
  atomicMax(gMaxNest, o.depth);
  atomicMax(gMaxStack, (long)(stackTop() - sp));
  gRan.fetch_add(1, std::memory_order_relaxed);
}

extern "C" void dispenso_verif_note(const char* site, const void*, long long a, long long) {
  if (site[0] == 'I' && site[1] == 'n' && site[2] == 'l')
    atomicMax(gMaxGuard, (long)a);
}

struct Result {
  long ran = 0, nest = 0, guard = 0, sb = 0;
  int done = 0;
};

// ------------------------------------------------------------------ scenarios
using Scenario = std::function<void(long n)>;

// a gate the first link spins on, so that the chain is fully built before anything completes
struct Flag {
  std::atomic<int> v{0};
  void wait() {
    while (!v.load(std::memory_order_acquire))
      sched_yield();
  }
  void set() {
    v.store(1, std::memory_order_release);
  }
};

// n `then` continuations on the ImmediateInvoker behind a root that is not ready while they are added
static void thenImmediate(long n) {
  dispenso::ThreadPool pool(1);
  Flag go;
  dispenso::Future<int> f([&go]() {
    go.wait();
    bodyEntry();
    return 0;
  }, pool, std::launch::async);
  std::vector<dispenso::Future<int>> keep;
  for (long i = 0; i < n; ++i) {
    f = f.then([](dispenso::Future<int>&& p) {
      bodyEntry();
      return p.get() + 1;
    }, dispenso::kImmediateInvoker);
  }
  go.set();
  while (!f.is_ready()) // (get() on a continuation that has not started would run the chain from its tail)
    sched_yield();
  if (f.get() != n)
    _exit(9);
}

// get() on the LAST of n continuations while none has started: Future::wait runs the functor on the
// waiter, whose first act is to wait for its predecessor, which runs that one on the waiter, ...
static void thenGetTail(long n) {
  dispenso::ThreadPool pool(1);
  Flag go, started;
  dispenso::Future<int> f([&go, &started]() {
    started.set();
    go.wait();
    bodyEntry();
    return 0;
  }, pool, std::launch::async);
  started.wait();
  for (long i = 0; i < n; ++i) {
    f = f.then([](dispenso::Future<int>&& p) {
      bodyEntry();
      return p.get() + 1;
    }, pool);
  }
  std::thread releaser([&go]() {
    usleep(20000);
    go.set();
  });
  int v = f.get();
  releaser.join();
  if (v != n)
    _exit(9);
}

// n `then` continuations on a saturated pool (1 thread, load multiplier 1, two tasks kept queued)
static void thenSaturatedPool(long n) {
  dispenso::ThreadPool pool(1, 1);
  Flag go, release;
  dispenso::Future<int> f([&go]() {
    go.wait();
    bodyEntry();
    return 0;
  }, pool, std::launch::async);
  // keep the pool over its load factor while the chain runs: these stay queued behind the root
  std::atomic<int> fillers{0};
  for (int i = 0; i < 4; ++i)
    pool.schedule([&fillers]() { fillers.fetch_add(1); }, dispenso::ForceQueuingTag());
  for (long i = 0; i < n; ++i) {
    f = f.then([](dispenso::Future<int>&& p) {
      bodyEntry();
      return p.get() + 1;
    }, pool);
  }
  go.set();
  while (!f.is_ready())
    sched_yield();
  if (f.get() != n)
    _exit(9);
  while (fillers.load() < 4)
    sched_yield();
}

// serial pipeline (generator -> serial transform -> serial sink) with n items
static void pipelineSerial(long n, int threads) {
  dispenso::ThreadPool pool((size_t)threads);
  long next = 0, sum = 0;
  dispenso::pipeline(
      pool,
      [&next, n]() -> dispenso::OpResult<long> {
        if (next >= n)
          return {};
        return next++;
      },
      [](long v) {
        bodyEntry();
        return v + 1;
      },
      [&sum](long v) {
        bodyEntry();
        sum += v;
      });
  if (sum != n * (n + 1) / 2)
    _exit(9);
}

// n-node chain graph (and a comb: every spine node also releases a leaf) on the ConcurrentTaskSet executor
static void graphChain(long n, bool comb, int threads) {
  dispenso::ThreadPool pool((size_t)threads);
  dispenso::Graph g;
  std::atomic<long> cnt{0};
  dispenso::Node* prev = nullptr;
  for (long i = 0; i < n; ++i) {
    dispenso::Node& nd = g.addNode([&cnt]() {
      bodyEntry();
      cnt.fetch_add(1);
    });
    if (prev) {
      if (comb) {
        // leaf first: it becomes the inline continuation, the spine goes through tasks.schedule
        dispenso::Node& leaf = g.addNode([&cnt]() {
          bodyEntry();
          cnt.fetch_add(1);
        });
        leaf.dependsOn(*prev);
      }
      nd.dependsOn(*prev);
    }
    prev = &nd;
  }
  setAllNodesIncomplete(g); // (found by ADL: the only declaration is the friend declaration in Node)
  dispenso::ConcurrentTaskSet tasks(pool);
  dispenso::ConcurrentTaskSetExecutor exec;
  exec(tasks, g);
  if (cnt.load() != (comb ? 2 * n - 1 : n))
    _exit(9);
}

// recursive scheduling on ONE ConcurrentTaskSet under overload: task k schedules task k + 1
struct CtsChain {
  dispenso::ConcurrentTaskSet* ts;
  long n;
  std::atomic<long> ran{0};
  void link(long k) {
    bodyEntry();
    ran.fetch_add(1);
    if (k < n)
      ts->schedule([this, k]() { link(k + 1); });
  }
};
static void ctsRecursive(long n, int threads, bool heavy) {
  dispenso::ThreadPool pool((size_t)threads, 1);
  dispenso::ConcurrentTaskSet ts(pool, heavy ? dispenso::TaskCost::kHeavy : dispenso::TaskCost::kLightweight, 1);
  Flag release;
  // overload: the only worker is held inside a task, more tasks stay queued
  std::atomic<int> blockers{0};
  for (int i = 0; threads > 0 && i < 2 + 2 * threads; ++i)
    ts.schedule([&release, &blockers]() {
      blockers.fetch_add(1);
      release.wait();
    }, dispenso::ForceQueuingTag());
  CtsChain c{&ts, n};
  ts.schedule([&c]() { c.link(1); });
  release.set();
  ts.wait();
  if (c.ran.load() != n)
    _exit(9);
}

// recursive scheduling on a TaskSet from its owner thread under overload of the set
struct TsChain {
  dispenso::TaskSet* ts;
  long n;
  long ran = 0;
  void link(long k) {
    bodyEntry();
    ++ran;
    if (k < n)
      ts->schedule([this, k]() { link(k + 1); });
  }
};
static void tsRecursive(long n) {
  dispenso::ThreadPool pool(1, 32);
  dispenso::TaskSet ts(pool, 1);
  Flag release;
  for (int i = 0; i < 3; ++i)
    ts.schedule([&release]() { release.wait(); }, dispenso::ForceQueuingTag());
  TsChain c{&ts, n};
  ts.schedule([&c]() { c.link(1); }); // outstanding (3) > load factor (1): runs on the owner thread
  release.set();
  ts.wait();
  if (c.ran != n)
    _exit(9);
}

// recursive ThreadPool::schedule under overload (multiplier 1) from a pool thread
struct PoolChain {
  dispenso::ThreadPool* pool;
  long n;
  std::atomic<long> ran{0};
  void link(long k) {
    bodyEntry();
    ran.fetch_add(1);
    if (k < n)
      pool->schedule([this, k]() { link(k + 1); });
  }
};
static void poolRecursive(long n, int threads) {
  dispenso::ThreadPool pool((size_t)threads, 1);
  PoolChain c{&pool, n};
  std::atomic<int> fillers{0};
  Flag go;
  if (threads > 0) {
    pool.schedule([&]() {
      go.wait();
      c.link(1);
    }, dispenso::ForceQueuingTag());
    for (int i = 0; i < 4; ++i)
      pool.schedule([&fillers]() { fillers.fetch_add(1); }, dispenso::ForceQueuingTag());
    go.set();
    while (c.ran.load() < n || fillers.load() < 4)
      sched_yield();
  } else {
    pool.schedule([&]() { c.link(1); });
    if (c.ran.load() != n)
      _exit(9);
  }
}

// the same through ThreadPool::scheduleBulk (the inline branch of scheduleBulkImpl under load)
struct PoolBulkChain {
  dispenso::ThreadPool* pool;
  long n;
  std::atomic<long> ran{0};
  void link(long k) {
    bodyEntry();
    ran.fetch_add(1);
    if (k < n)
      pool->scheduleBulk(1, [this, k](size_t) { return [this, k]() { link(k + 1); }; });
  }
};
static void poolBulkRecursive(long n, int threads) {
  dispenso::ThreadPool pool((size_t)threads, 1);
  PoolBulkChain c{&pool, n};
  std::atomic<int> fillers{0};
  Flag go;
  pool.schedule([&]() {
    go.wait();
    c.link(1);
  }, dispenso::ForceQueuingTag());
  for (int i = 0; i < 4; ++i)
    pool.schedule([&fillers]() { fillers.fetch_add(1); }, dispenso::ForceQueuingTag());
  go.set();
  while (c.ran.load() < n || fillers.load() < 4)
    sched_yield();
}

static std::map<std::string, Scenario> scenarios() {
  std::map<std::string, Scenario> m;
  m["then_immediate"] = [](long n) { thenImmediate(n); };
  m["then_pool_saturated"] = [](long n) { thenSaturatedPool(n); };
  m["then_get_tail"] = [](long n) { thenGetTail(n); };
  m["pipeline_serial_p2"] = [](long n) { pipelineSerial(n, 2); };
  m["pipeline_serial_p1"] = [](long n) { pipelineSerial(n, 1); };
  m["pipeline_serial_p0"] = [](long n) { pipelineSerial(n, 0); };
  m["graph_chain_p2"] = [](long n) { graphChain(n, false, 2); };
  m["graph_comb_p1"] = [](long n) { graphChain(n, true, 1); };
  m["graph_comb_p0"] = [](long n) { graphChain(n, true, 0); };
  m["cts_recursive_heavy_p1"] = [](long n) { ctsRecursive(n, 1, true); };
  m["cts_recursive_light_p1"] = [](long n) { ctsRecursive(n, 1, false); };
  m["cts_recursive_heavy_p0"] = [](long n) { ctsRecursive(n, 0, true); };
  m["ts_recursive_p1"] = [](long n) { tsRecursive(n); };
  m["pool_recursive_p1"] = [](long n) { poolRecursive(n, 1); };
  m["pool_recursive_p0"] = [](long n) { poolRecursive(n, 0); };
  m["pool_bulk_recursive_p1"] = [](long n) { poolBulkRecursive(n, 1); };
  return m;
}

// ------------------------------------------------------------------ runner
struct Outcome {
  Result r;
  int crash = 0, sig = 0, timeout = 0;
};

static Outcome runChild(const Scenario& sc, long n, int timeoutSec) {
  Outcome o;
  int fds[2];
  if (pipe(fds) != 0)
    _exit(4);
  pid_t pid = fork();
  if (pid == 0) {
    close(fds[0]);
    alarm((unsigned)timeoutSec);
    sc(n);
    Result r;
    r.done = 1;
    r.ran = gRan.load();
    r.nest = gMaxNest.load();
    r.guard = gMaxGuard.load();
    r.sb = gMaxStack.load();
    if (write(fds[1], &r, sizeof r) != (ssize_t)sizeof r)
      _exit(5);
    _exit(0);
  }
  close(fds[1]);
  Result r;
  ssize_t got = read(fds[0], &r, sizeof r);
  close(fds[0]);
  int status = 0;
  waitpid(pid, &status, 0);
  if (got == (ssize_t)sizeof r && WIFEXITED(status) && WEXITSTATUS(status) == 0) {
    o.r = r;
  } else if (WIFSIGNALED(status)) {
    o.sig = WTERMSIG(status);
    if (o.sig == SIGALRM)
      o.timeout = 1;
    else
      o.crash = 1;
  } else {
    o.crash = 1;
    o.sig = WIFEXITED(status) ? 100 + WEXITSTATUS(status) : -1;
  }
  return o;
}

int main(int argc, char** argv) {
  drv::Args a(argc, argv);
  long stackKb = a.num("stack-kb", 256);
  if (!getenv("DRV_INLINE_CHILD")) {
    struct rlimit rl;
    rl.rlim_cur = rl.rlim_max = (rlim_t)stackKb * 1024;
    if (setrlimit(RLIMIT_STACK, &rl) != 0) {
      perror("setrlimit");
      return 3;
    }
    setenv("DRV_INLINE_CHILD", "1", 1);
    execv("/proc/self/exe", argv);
    perror("execv");
    return 3;
  }
  FILE* out = fopen(a.str("out", "inline.ndjson").c_str(), "w");
  if (!out)
    return 3;
  long n = a.num("n", 2500);
  auto all = scenarios();
  std::vector<std::string> names;
  if (a.has("scenarios")) {
    for (auto& s : drv::split(a.str("scenarios"), ','))
      names.push_back(s);
  } else {
    for (auto& kv : all)
      names.push_back(kv.first);
  }
  long records = 0, crashes = 0;
  fprintf(out, "{\"e\":\"Header\",\"stackkb\":%ld,\"maxinl\":%d}\n", stackKb, dispenso::detail::kMaxInlineDepth);
  for (auto& name : names) {
    auto it = all.find(name);
    if (it == all.end()) {
      fprintf(stderr, "ERROR drv_inline: unknown scenario %s\n", name.c_str());
      return 3;
    }
    Outcome o1 = runChild(it->second, n, (int)a.num("timeout", 60));
    Outcome o2 = runChild(it->second, 4 * n, (int)a.num("timeout", 60));
    fprintf(
        out,
        "{\"e\":\"Obs\",\"sc\":\"%s\",\"n1\":%ld,\"n2\":%ld,\"done1\":%d,\"done2\":%d,\"crash1\":%d,\"crash2\":%d,"
        "\"sig1\":%d,\"sig2\":%d,\"timeout1\":%d,\"timeout2\":%d,\"ran1\":%ld,\"ran2\":%ld,\"nest1\":%ld,\"nest2\":%ld,"
        "\"guard1\":%ld,\"guard2\":%ld,\"sb1\":%ld,\"sb2\":%ld}\n",
        name.c_str(), n, 4 * n, o1.r.done, o2.r.done, o1.crash, o2.crash, o1.sig, o2.sig, o1.timeout, o2.timeout,
        o1.r.ran, o2.r.ran, o1.r.nest, o2.r.nest, o1.r.guard, o2.r.guard, o1.r.sb, o2.r.sb);
    fflush(out);
    ++records;
    crashes += o1.crash + o2.crash;
  }
  fclose(out);
  printf("DRIVER executions=%ld steps=%ld completed=%ld deadlocks=0 diverged=0 stuck=0 crashes=%ld\n", records, records,
         records, crashes);
  return 0;
}
