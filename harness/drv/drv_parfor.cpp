// Driver for dispenso::parallel_for (spec/parfor/ParFor.tla, ParForTrace.tla) - E5 records.
//
// Calls the real parallel_for on many (index type, start, end, chunking, ParForOptions, pool size)
// inputs with a free-running pool.  The loop body records the [begin, end) it was given.  One ndjson
// observation record per call is written; the TLC trace spec has one step per record and compares
// the observed body list with ParForOutcome(input) and evaluates the C12/C13 invariants on it.
//
//   --out FILE --suite i8|wide|gran|nest|multi|mixed|static17 --tier quick|thorough --seed S [--n N]
//
// TLC integers are 32-bit.  Positions of 32/64-bit index types are therefore logged in a FRAME:
// the start is mapped to a small representative s0 with the same sign and the same residue modulo
// the granularity, every other position p is logged as s0 + (p - start), and the type is logged as
// the window [s0 - min(start - typeMin, CAP), s0 + min(typeMax - start, CAP)] (CAP = 2^20).  8 and
// 16-bit types are logged exactly.  Positions that do not fit (garbage after a cursor wrap) are
// logged as +-2^29, which no specification outcome contains.
//
// C++ only drives and records; every verdict is TLC's.
#include <dispenso/concurrent_vector.h>
#include <dispenso/parallel_for.h>

#include <unistd.h>

#include <algorithm>
#include <atomic>
#include <cstdio>
#include <map>
#include <memory>
#include <mutex>
#include <string>
#include <vector>

#include "../ctl/drv_common.h"

typedef __int128 i128;

static const long long kCap = 1 << 20;
static const long long kGarbage = 1 << 29;

struct Rng {
  uint64_t s;
  explicit Rng(uint64_t seed) : s(seed * 0x9E3779B97F4A7C15ull + 0x1234567) {}
  uint64_t next() {
    s ^= s << 13;
    s ^= s >> 7;
    s ^= s << 17;
    return s;
  }
  uint64_t below(uint64_t n) {
    return next() % n;
  }
  template <class T>
  T pick(std::initializer_list<T> l) {
    return *(l.begin() + below(l.size()));
  }
};

// ------------------------------------------------------------------ recording
struct RecCtx {
  std::atomic<long> started{0}, finished{0};
  std::atomic<size_t> n{0};
  std::vector<std::pair<i128, i128>> slots;
  size_t runawayAt = 0;
  long startedAtReturn = 0, finishedAtReturn = 0;
  std::string head; // the input part of the record
  i128 realStart = 0;
  long long s0 = 0;
  // index-form calls (suite mixed): visits per index of [start, end) and the number of visits outside of it
  std::unique_ptr<std::atomic<uint8_t>[]> counts;
  size_t ncounts = 0;
  std::atomic<size_t> nstray{0};
};

static FILE* gOut = nullptr;
static std::mutex gOutMu;
static long long gRecords = 0;
static std::vector<std::shared_ptr<RecCtx>> gPending; // returned, waiting for the late-body check

static long long frameOf(const RecCtx& c, i128 p) {
  i128 d = p - c.realStart;
  if (d > kGarbage || d < -kGarbage)
    return d > 0 ? kGarbage : -kGarbage;
  return c.s0 + (long long)d;
}

static void writeRecord(RecCtx& c, bool trunc, long late) {
  size_t n = std::min(c.n.load(), c.slots.size());
  std::vector<std::pair<long long, long long>> b;
  b.reserve(n);
  for (size_t i = 0; i < n; ++i)
    b.emplace_back(frameOf(c, c.slots[i].first), frameOf(c, c.slots[i].second));
  std::sort(b.begin(), b.end());
  std::string s = c.head;
  s += ",\"b\":[";
  size_t lim = trunc ? std::min<size_t>(n, 40) : n;
  for (size_t i = 0; i < lim; ++i) {
    char buf[64];
    snprintf(buf, sizeof buf, "%s[%lld,%lld]", i ? "," : "", b[i].first, b[i].second);
    s += buf;
  }
  char buf[160];
  snprintf(
      buf,
      sizeof buf,
      "],\"nb\":%zu,\"trunc\":%d,\"inflight\":%ld,\"late\":%ld}\n",
      std::min<size_t>(c.n.load(), 1000000),
      trunc ? 1 : 0,
      c.startedAtReturn - c.finishedAtReturn,
      late);
  s += buf;
  fputs(s.c_str(), gOut);
  ++gRecords;
}

static void printTotals(long long runaway) {
  printf(
      "DRIVER executions=%lld steps=%lld completed=%lld deadlocks=0 diverged=0 stuck=0 runaway=%lld\n",
      gRecords,
      gRecords,
      gRecords - runaway,
      runaway);
  fflush(stdout);
}

// A body was invoked far more often than the range has items: the loop does not terminate in any
// reasonable time (cursor wrap).  Emit the record (TLC rejects it) and stop the driver.
static void runaway(RecCtx& c) {
  std::lock_guard<std::mutex> l(gOutMu);
  for (auto& p : gPending)
    writeRecord(*p, false, p->started.load() - p->startedAtReturn);
  c.startedAtReturn = c.started.load();
  c.finishedAtReturn = c.finished.load();
  writeRecord(c, true, 0);
  fflush(gOut);
  printTotals(1);
  _exit(0);
}

static void flushPending() {
  std::lock_guard<std::mutex> l(gOutMu);
  for (auto& p : gPending)
    writeRecord(*p, false, p->started.load() - p->startedAtReturn);
  gPending.clear();
}

// ------------------------------------------------------------------ pools
struct Pools {
  std::map<int, std::unique_ptr<dispenso::ThreadPool>> m;
  dispenso::ThreadPool& get(int n) {
    auto it = m.find(n);
    if (it == m.end())
      it = m.emplace(n, std::make_unique<dispenso::ThreadPool>((size_t)n)).first;
    return *it->second;
  }
  // destroying the pools joins every worker: nothing can run a body afterwards
  void destroyAll() {
    m.clear();
  }
};

// ------------------------------------------------------------------ one call
enum Mode { kStaticM, kAutoM, kChunkM };
static const char* modeName(Mode m) {
  return m == kStaticM ? "static" : m == kAutoM ? "auto" : "chunk";
}

struct CallCfg {
  Mode mode = kStaticM;
  long long chunk = 0;
  dispenso::ParForOptions opt;
  int pool = 3;
  int api = 0; // 0: (start,end) overload  1: ChunkedRange overload  2: states overload
  bool concurrentSet = false;
  int ix = 0; // 1: the INDEX-form overloads f(i) / f(state, i) (api 0 / 2), see suiteMixed
  int nested = 0; // 1: issue the call from inside a parallel_for body on the same pool (inline path)
                  // 2: issue it from a plain task running on a worker of the same pool (rec = 2)
};

template <class T>
static long long floorMod(i128 a, long long g) {
  i128 m = a % g;
  if (m < 0)
    m += g;
  return (long long)m;
}

template <class T>
static std::shared_ptr<RecCtx> makeCtx(T s, T e, const CallCfg& cc, size_t poolThreads) {
  using L = std::numeric_limits<T>;
  auto c = std::make_shared<RecCtx>();
  const int bits = (int)sizeof(T) * 8;
  const bool sg = L::is_signed;
  i128 S = (i128)s, E = (i128)e, lo = (i128)L::min(), hi = (i128)L::max();
  long long g = std::max<long long>(1, cc.opt.granularity);
  long long s0, tmin, tmax;
  if (bits <= 16) {
    s0 = (long long)S;
    tmin = (long long)lo;
    tmax = (long long)hi;
  } else {
    long long dlo = (long long)std::min<i128>(S - lo, kCap), dhi = (long long)std::min<i128>(hi - S, kCap);
    if (S >= -4096 && S <= 4096)
      s0 = (long long)S;
    else if (S > 0)
      s0 = 4096 + floorMod<T>(S - 4096, g);
    else
      s0 = -8192 + floorMod<T>(S + 8192, g);
    tmin = s0 - dlo;
    tmax = s0 + dhi;
  }
  long long en;
  if (E > S)
    en = s0 + (long long)std::min<i128>(E - S, kGarbage);
  else
    en = (E == S) ? s0 : s0 - 1;
  c->realStart = S;
  c->s0 = s0;
  size_t size = E > S ? (size_t)std::min<i128>(E - S, 100000) : 0;
  c->slots.resize(size + 64);
  c->runawayAt = 4 * size + 2000;
  long long mt = std::max<int32_t>((int32_t)cc.opt.maxThreads, 1);
  char buf[640];
  snprintf(
      buf,
      sizeof buf,
      "{\"e\":\"pf\",\"w\":%d,\"sg\":%d,\"tmin\":%lld,\"tmax\":%lld,\"ws\":%d,\"s\":%lld,\"en\":%lld,"
      "\"mode\":\"%s\",\"c\":%lld,\"mt\":%lld,\"wait\":%d,\"mi\":%u,\"g\":%u,\"N\":%zu,\"l3\":%zu,"
      "\"rec\":%d,\"api\":%d,\"ix\":%d",
      bits,
      sg ? 1 : 0,
      tmin,
      tmax,
      bits == 64 ? 1 : 0,
      s0,
      en,
      modeName(cc.mode),
      cc.chunk,
      std::min<long long>(mt, 1000000),
      cc.opt.wait ? 1 : 0,
      cc.opt.minItemsPerChunk,
      cc.opt.granularity,
      poolThreads,
      dispenso::CpuSet::l3CacheGroups().size(),
      cc.nested,
      cc.api + (cc.concurrentSet ? 10 : 0),
      cc.ix);
  c->head = buf;
  return c;
}

template <class T, class TaskSetT>
static void invoke(TaskSetT& ts, T s, T e, const CallCfg& cc, const std::shared_ptr<RecCtx>& c) {
  auto body = [c](T b, T en) {
    c->started.fetch_add(1, std::memory_order_relaxed);
    size_t idx = c->n.fetch_add(1, std::memory_order_relaxed);
    if (idx < c->slots.size())
      c->slots[idx] = std::make_pair((i128)b, (i128)en);
    if (idx >= c->runawayAt)
      runaway(*c);
    c->finished.fetch_add(1, std::memory_order_release);
  };
  dispenso::ParForOptions opt = cc.opt;
  opt.defaultChunking =
      cc.mode == kAutoM ? dispenso::ParForChunking::kAdaptive : dispenso::ParForChunking::kStatic;
  if (cc.mode == kChunkM) {
    auto range = dispenso::makeChunkedRange(s, e, (T)cc.chunk);
    if (cc.api == 2) {
      std::vector<int> states;
      dispenso::parallel_for(
          ts, states, []() { return 0; }, range, [body](int&, T b, T en) { body(b, en); }, opt);
      if (!opt.wait)
        ts.wait(); // `states` must outlive the work
    } else {
      dispenso::parallel_for(ts, range, body, opt);
    }
  } else if (cc.api == 0) {
    dispenso::parallel_for(ts, s, e, body, opt);
  } else if (cc.api == 1) {
    dispenso::parallel_for(ts, dispenso::makeChunkedRange(s, e, opt.defaultChunking), body, opt);
  } else {
    std::vector<int> states;
    dispenso::parallel_for(
        ts,
        states,
        []() { return 0; },
        dispenso::makeChunkedRange(s, e, opt.defaultChunking),
        [body](int&, T b, T en) { body(b, en); },
        opt);
    if (!opt.wait)
      ts.wait();
  }
  if (!opt.wait)
    ts.wait();
  // every invocation must have returned by now
  c->finishedAtReturn = c->finished.load(std::memory_order_acquire);
  c->startedAtReturn = c->started.load(std::memory_order_acquire);
}

// ------------------------------------------------------------------ index-form overloads
// parallel_for(taskSet, start, end, f(i)) and the per-thread-state variant f(state, i), called with start and end of
// DIFFERENT integer types (A, B): the loop runs in T = common_type<A, B> and the body must be handed every index of
// [start, end) in T exactly once - also the indices above the maximum of the narrower type.  The body counts the
// visits per index; after the call returned the counters are written as the exact multiset of visits in the
// record's usual form: layer k is the list of maximal runs [b, e) of indices visited at least k times (visits
// outside [start, end) are unit runs [i, i + 1)).  Every index was visited exactly once <=> that list is a
// partition of [start, end), which is what the trace spec's C12Partition decides (chunk boundaries are not
// observable through this overload, so Conforms only asks for a complete record; "ix":1).
template <class A, class B, class TaskSetT>
static void invokeIx(TaskSetT& ts, A s, B e, const CallCfg& cc, const std::shared_ptr<RecCtx>& c) {
  using T = std::common_type_t<A, B>;
  auto body = [c](T i) {
    c->started.fetch_add(1, std::memory_order_relaxed);
    i128 d = (i128)i - c->realStart;
    if (d >= 0 && d < (i128)c->ncounts) {
      if (c->counts[(size_t)d].load(std::memory_order_relaxed) < 200)
        c->counts[(size_t)d].fetch_add(1, std::memory_order_relaxed);
    } else {
      size_t k = c->nstray.fetch_add(1, std::memory_order_relaxed);
      if (k < 32)
        c->slots[k] = std::make_pair((i128)i, (i128)i + 1);
    }
    c->finished.fetch_add(1, std::memory_order_release);
  };
  dispenso::ParForOptions opt = cc.opt;
  opt.defaultChunking =
      cc.mode == kAutoM ? dispenso::ParForChunking::kAdaptive : dispenso::ParForChunking::kStatic;
  if (cc.api == 2) {
    std::vector<int> states;
    dispenso::parallel_for(
        ts, states, []() { return 0; }, s, e, [body](int&, T i) { body(i); }, opt);
    if (!opt.wait)
      ts.wait(); // `states` must outlive the work
  } else {
    dispenso::parallel_for(ts, s, e, body, opt);
  }
  if (!opt.wait)
    ts.wait();
  c->finishedAtReturn = c->finished.load(std::memory_order_acquire);
  c->startedAtReturn = c->started.load(std::memory_order_acquire);
  // counters -> runs
  size_t n = std::min<size_t>(c->nstray.load(), 32);
  for (unsigned layer = 1; layer <= 4; ++layer) {
    size_t i = 0;
    bool any = false;
    while (i < c->ncounts) {
      if (c->counts[i].load(std::memory_order_relaxed) < layer) {
        ++i;
        continue;
      }
      size_t j = i;
      while (j < c->ncounts && c->counts[j].load(std::memory_order_relaxed) >= layer)
        ++j;
      any = true;
      if (n < c->slots.size())
        c->slots[n++] = std::make_pair(c->realStart + (i128)i, c->realStart + (i128)j);
      i = j;
    }
    if (!any)
      break;
  }
  c->n.store(n);
}

static void enqueueRecord(const std::shared_ptr<RecCtx>& c);

template <class A, class B>
static void runMixed(Pools& pools, A s, B e, const CallCfg& cc) {
  using T = std::common_type_t<A, B>;
  dispenso::ThreadPool& pool = pools.get(cc.pool);
  auto c = makeCtx<T>((T)s, (T)e, cc, (size_t)pool.numThreads());
  c->ncounts = (T)e > (T)s ? (size_t)((i128)(T)e - (i128)(T)s) : 0;
  c->counts.reset(new std::atomic<uint8_t>[c->ncounts + 1]);
  for (size_t i = 0; i <= c->ncounts; ++i)
    c->counts[i].store(0, std::memory_order_relaxed);
  if (cc.concurrentSet) {
    dispenso::ConcurrentTaskSet ts(pool);
    invokeIx<A, B>(ts, s, e, cc, c);
  } else {
    dispenso::TaskSet ts(pool);
    invokeIx<A, B>(ts, s, e, cc, c);
  }
  enqueueRecord(c);
}

template <class T>
static void runCase(Pools& pools, T s, T e, const CallCfg& cc) {
  dispenso::ThreadPool& pool = pools.get(cc.pool);
  auto c = makeCtx<T>(s, e, cc, (size_t)pool.numThreads());
  auto call = [&]() {
    if (cc.concurrentSet) {
      dispenso::ConcurrentTaskSet ts(pool);
      invoke<T>(ts, s, e, cc, c);
    } else {
      dispenso::TaskSet ts(pool);
      invoke<T>(ts, s, e, cc, c);
    }
  };
  if (cc.nested == 2) {
    // the call is made by a pool worker that is NOT inside a parallel loop: the full parallel path runs
    // with a caller that has a ring index of its own (caller-chunk selection of the static path)
    std::atomic<int> done{0};
    pool.schedule(
        [&]() {
          call();
          done.store(1, std::memory_order_release);
        },
        dispenso::ForceQueuingTag());
    while (!done.load(std::memory_order_acquire))
      std::this_thread::yield();
  } else if (cc.nested) {
    // the call is made from a body of an enclosing parallel_for on the same pool
    dispenso::TaskSet outer(pool);
    std::atomic<int> once{0};
    dispenso::parallel_for(outer, 0, 3, [&](int) {
      if (once.fetch_add(1) == 0)
        call();
    });
  } else {
    call();
  }
  enqueueRecord(c);
}

static void enqueueRecord(const std::shared_ptr<RecCtx>& c) {
  std::lock_guard<std::mutex> l(gOutMu);
  gPending.push_back(c);
  // Records are written with a delay of 512 further calls (a body that runs after its call
  // returned is then counted as `late`); the rest is written after the pools were joined.
  if (gPending.size() >= 1024) {
    for (size_t i = 0; i < 512; ++i)
      writeRecord(*gPending[i], false, gPending[i]->started.load() - gPending[i]->startedAtReturn);
    gPending.erase(gPending.begin(), gPending.begin() + 512);
  }
}

// ------------------------------------------------------------------ option generators
static dispenso::ParForOptions randOptions(Rng& r, bool gran) {
  dispenso::ParForOptions o;
  o.wait = r.below(3) != 0;
  o.maxThreads = r.pick<uint32_t>({0x7fffffffu, 0x7fffffffu, 0x7fffffffu, 0u, 1u, 2u, 3u, 4u, 9u});
  o.minItemsPerChunk = r.pick<uint32_t>({1, 1, 1, 1, 0, 2, 3, 5, 16, 65, 100});
  if (gran)
    o.granularity = r.pick<uint32_t>({1, 1, 1, 1, 0, 2, 3, 4, 7, 16, 64, 128});
  o.reuseExistingState = r.below(4) == 0;
  return o;
}

static CallCfg randCfg(Rng& r, Mode mode, long long typeMax) {
  CallCfg cc;
  cc.mode = mode;
  cc.opt = randOptions(r, mode != kChunkM);
  if (mode == kChunkM) {
    cc.chunk = r.pick<long long>({1, 2, 3, 7, 16, 100, 127, 300});
    if (cc.chunk > typeMax)
      cc.chunk = typeMax; // == ChunkedRange::kStatic for 8-bit signed: the documented static sentinel
  }
  cc.pool = r.pick<int>({0, 1, 1, 2, 3, 3, 5, 8});
  cc.api = (int)r.below(3);
  cc.concurrentSet = r.below(4) == 0;
  return cc;
}

// ------------------------------------------------------------------ suites
template <class T>
static void suite8(Pools& pools, Rng& r, bool thorough) {
  using L = std::numeric_limits<T>;
  const int lo = L::min(), hi = L::max();
  std::vector<std::pair<int, int>> ranges;
  if (thorough) {
    for (int s = lo; s <= hi; ++s)
      for (int e = s; e <= hi; ++e)
        ranges.emplace_back(s, e);
    for (int s = lo + 1; s <= hi; s += 37)
      ranges.emplace_back(s, s - 1);
  } else {
    std::vector<int> starts = {lo, lo + 1, lo + 7, lo + 126, lo + 127, lo + 128, lo + 129, hi - 100, hi - 20, hi - 3, hi - 1, hi};
    std::vector<int> lens = {-1, 0, 1, 2, 3, 4, 5, 8, 17, 33, 64, 100, 127, 128, 129, 200, 254, 255};
    for (int s : starts)
      for (int len : lens) {
        if (s + len >= lo && s + len <= hi)
          ranges.emplace_back(s, s + len);
        // and the range of that length that ends at the maximum
        if (len > 0 && hi - len >= lo)
          ranges.emplace_back(hi - len, hi);
      }
  }
  // quick: the boundary-biased ranges in all three modes; thorough: EVERY range, the mode rotating with
  // (start + end + seed) so that three seeds give every range in every mode
  int rot = (int)r.below(3);
  for (auto& rg : ranges)
    for (Mode m : {kStaticM, kAutoM, kChunkM}) {
      if (thorough && ((rg.first + rg.second + 512 + rot) % 3) != (int)m)
        continue;
      CallCfg cc = randCfg(r, m, hi);
      runCase<T>(pools, (T)rg.first, (T)rg.second, cc);
    }
  if (thorough)
    suite8<T>(pools, r, false);
}

template <class T>
static void suiteWide(Pools& pools, Rng& r, int n) {
  using L = std::numeric_limits<T>;
  const T lo = L::min(), hi = L::max();
  for (int k = 0; k < n; ++k) {
    int len = r.pick<int>({0, 1, 2, 3, 5, 8, 16, 17, 31, 64, 100, 255, 256, 257, 300}) ;
    if (r.below(3) == 0)
      len = (int)r.below(301);
    T s, e;
    switch (r.below(6)) {
      case 0: // ends at the maximum
        e = hi;
        s = (T)(hi - (T)len);
        break;
      case 1: // ends just below the maximum
        e = (T)(hi - (T)r.below(40));
        s = (T)(e - (T)len);
        break;
      case 2: // starts at the minimum
        s = lo;
        e = (T)(lo + (T)len);
        break;
      case 3: // starts just above the minimum
        s = (T)(lo + (T)r.below(40));
        e = (T)(s + (T)len);
        break;
      case 4: { // around zero (signed) / small (unsigned)
        long long z = L::is_signed ? (long long)r.below(300) - 200 : (long long)r.below(100);
        s = (T)z;
        e = (T)(z + len);
        break;
      }
      default: { // somewhere in the middle of the type
        T mid = (T)(hi / 3 + (T)r.below(1000));
        s = r.below(2) && L::is_signed ? (T)(0 - mid) : mid;
        e = (T)(s + (T)len);
        break;
      }
    }
    if (r.below(25) == 0 && s > lo)
      e = (T)(s - 1); // reversed
    Mode m = (Mode)r.below(3);
    CallCfg cc = randCfg(r, m, (long long)std::min<i128>((i128)hi, 1000000));
    if (r.below(12) == 0)
      cc.pool = 20; // more than 16 workers: the multi-group dynamic path
    runCase<T>(pools, s, e, cc);
  }
}

// C13: every residue of start modulo g, static + adaptive, wait modes
template <class T>
static void suiteGran(Pools& pools, Rng& r, i128 base, bool thorough) {
  using L = std::numeric_limits<T>;
  for (uint32_t g : {2u, 3u, 7u, 16u, 64u}) {
    int nres = (int)g;
    for (int res = 0; res < nres; ++res) {
      if (!thorough && g == 64 && res % 5 != 0 && res != 63)
        continue;
      std::vector<long long> sizes = {(long long)g - 1, g, (long long)g + 1, 2ll * g, 5ll * g + 1, 100, 257, 300};
      for (long long size : sizes) {
        if (!thorough && r.below(2))
          continue;
        i128 S = base + res;
        i128 E = S + size;
        if (S < (i128)L::min() || E > (i128)L::max())
          continue;
        for (Mode m : {kStaticM, kAutoM}) {
          CallCfg cc;
          cc.mode = m;
          cc.opt.granularity = g;
          cc.opt.wait = r.below(3) != 0;
          cc.opt.minItemsPerChunk = r.pick<uint32_t>({1, 1, 1, 3, 20});
          cc.opt.maxThreads = r.pick<uint32_t>({0x7fffffffu, 0x7fffffffu, 2u, 3u, 5u});
          cc.pool = r.pick<int>({1, 2, 3, 3, 5, 8});
          cc.api = (int)r.below(3);
          cc.concurrentSet = r.below(4) == 0;
          runCase<T>(pools, (T)S, (T)E, cc);
        }
      }
    }
  }
}

// C17: the chunk boundaries parallel_for derives from staticChunkSize* (static chunking only)
template <class T>
static void suiteStatic(Pools& pools, Rng& r, int n) {
  using L = std::numeric_limits<T>;
  for (int k = 0; k < n; ++k) {
    long long size = r.below(4) == 0 ? (long long)r.below(40) : (long long)r.below(401);
    if ((i128)size > (i128)L::max() - (i128)L::min())
      size = (long long)((i128)L::max() - (i128)L::min());
    i128 S;
    switch (r.below(4)) {
      case 0: S = (i128)L::min(); break;
      case 1: S = (i128)L::max() - size; break;
      case 2: S = L::is_signed ? -(i128)r.below(200) : (i128)r.below(200); break;
      default: S = (i128)L::max() / 2 - (i128)r.below(1000); break;
    }
    if (S < (i128)L::min())
      S = (i128)L::min();
    if (S + size > (i128)L::max())
      S = (i128)L::max() - size;
    CallCfg cc;
    cc.mode = kStaticM;
    cc.opt.granularity = r.pick<uint32_t>({1, 1, 1, 2, 3, 4, 5, 6, 7, 8});
    cc.opt.wait = r.below(3) != 0;
    cc.opt.maxThreads = r.pick<uint32_t>({0x7fffffffu, 0x7fffffffu, 0x7fffffffu, 2u, 3u, 5u, 11u});
    cc.opt.minItemsPerChunk = r.pick<uint32_t>({1, 1, 1, 2, 7, 30});
    cc.pool = r.pick<int>({1, 2, 3, 4, 5, 7, 12, 39});
    cc.api = (int)r.below(3);
    runCase<T>(pools, (T)S, (T)(S + size), cc);
  }
}

// more than 16 participating workers (multi-group dynamic path) with FEW chunks: fewer chunks than worker groups,
// the final short chunk in an early group, ranges that are not a multiple of the chunk size, type maxima
template <class T>
static void suiteMulti(Pools& pools, Rng& r, int n) {
  using L = std::numeric_limits<T>;
  for (int k = 0; k < n; ++k) {
    long long len = 1 + (long long)r.below(sizeof(T) == 1 ? 100 : 260);
    long long chunk = std::max<long long>(1, len - 3 + (long long)r.below(40)); // around the range size: 1..3 chunks
    if (r.below(4) == 0)
      chunk = 1 + (long long)r.below((uint64_t)len);
    chunk = std::min<long long>(chunk, (long long)std::min<i128>((i128)L::max(), 1000000));
    i128 S;
    switch (r.below(3)) {
      case 0: S = (i128)L::max() - len; break;            // touches the type maximum
      case 1: S = L::is_signed ? -(i128)r.below(50) : (i128)r.below(50); break;
      default: S = (i128)L::max() / 2; break;
    }
    if (S < (i128)L::min())
      S = (i128)L::min();
    CallCfg cc;
    cc.mode = r.below(5) == 0 ? kAutoM : kChunkM;
    cc.chunk = cc.mode == kChunkM ? chunk : 0;
    cc.opt.wait = r.below(2) != 0;
    cc.opt.maxThreads = 0x7fffffffu;
    cc.opt.minItemsPerChunk = 1;
    cc.opt.granularity = cc.mode == kAutoM ? r.pick<uint32_t>({1, 2, 3}) : 1;
    cc.pool = r.pick<int>({20, 20, 39});
    cc.api = (int)r.below(3);
    cc.concurrentSet = r.below(4) == 0;
    runCase<T>(pools, (T)S, (T)(S + len), cc);
  }
}

// Index-form overloads with MIXED-WIDTH start / end types (A narrower than B, and the reverse as a control): ranges
// that cross the maximum of the narrower type (the loop index must not be narrowed to the type of `start` on its way
// to the body), ranges that start low and pass it, and ranges that fit.  Static and adaptive chunking, stateless and
// per-thread-state variant, wait and no-wait, TaskSet and ConcurrentTaskSet, pool sizes 0..20.
template <class A, class B>
static void mixedOne(Pools& pools, Rng& r, bool big) {
  using T = std::common_type_t<A, B>;
  const i128 narrowMax = std::min<i128>((i128)std::numeric_limits<A>::max(), (i128)std::numeric_limits<B>::max());
  const i128 bMax = (i128)std::numeric_limits<B>::max(), aMax = (i128)std::numeric_limits<A>::max();
  i128 S, E;
  switch (big ? 1 : r.below(4)) {
    case 0:
    case 3: // crosses the maximum of the narrower type
      S = narrowMax - (i128)r.below(200);
      E = narrowMax + 1 + (i128)r.below(200);
      break;
    case 1: // starts low, passes the maximum of the narrower type (only where that is cheap)
      S = (i128)r.below(20);
      if (narrowMax <= 255)
        E = narrowMax + (i128)r.below(800);
      else if (big && narrowMax <= 65535)
        E = narrowMax + 1 + (i128)r.below(5000);
      else
        E = S + (i128)r.below(300);
      break;
    default: // fits
      S = (i128)r.below(60);
      E = S + (i128)r.below(narrowMax <= 255 ? 60 : 300);
      break;
  }
  S = std::min(S, aMax);
  E = std::min(E, bMax);
  CallCfg cc = randCfg(r, r.below(2) ? kStaticM : kAutoM, 1000);
  cc.api = r.below(2) ? 0 : 2;
  cc.ix = 1;
  if (r.below(12) == 0)
    cc.pool = 20;
  (void)sizeof(T);
  runMixed<A, B>(pools, (A)S, (B)E, cc);
}

static void suiteMixed(Pools& pools, Rng& r, int n) {
  for (int k = 0; k < n; ++k) {
    bool big = k % 64 == 7; // a few long ranges (0 .. above 65536 for a 16-bit start)
    switch (big ? 3 + (int)r.below(2) * 3 : (int)r.below(14)) {
      case 0: mixedOne<uint8_t, int>(pools, r, big); break;
      case 1: mixedOne<uint8_t, size_t>(pools, r, big); break;
      case 2: mixedOne<int8_t, int>(pools, r, big); break;
      case 3: mixedOne<uint16_t, size_t>(pools, r, big); break;
      case 4: mixedOne<uint16_t, uint32_t>(pools, r, big); break;
      case 5: mixedOne<int16_t, int>(pools, r, big); break;
      case 6: mixedOne<uint16_t, int64_t>(pools, r, big); break;
      case 7: mixedOne<int16_t, int64_t>(pools, r, big); break;
      case 8: mixedOne<uint32_t, uint64_t>(pools, r, big); break;
      case 9: mixedOne<int32_t, int64_t>(pools, r, big); break;
      case 10: mixedOne<int, size_t>(pools, r, big); break; // like a literal 0 with a size_t end above 2^31
      case 11: mixedOne<size_t, uint16_t>(pools, r, big); break; // wide start, narrow end (control)
      case 12: mixedOne<int, uint8_t>(pools, r, big); break;
      default: mixedOne<int64_t, int64_t>(pools, r, big); break; // same type (control)
    }
  }
}

template <class T>
static void suiteNest(Pools& pools, Rng& r, int n) {
  for (int k = 0; k < n; ++k) {
    T s = (T)r.below(50);
    T e = (T)(s + (T)r.below(120));
    CallCfg cc = randCfg(r, (Mode)r.below(3), (long long)std::min<i128>((i128)std::numeric_limits<T>::max(), 1000));
    cc.nested = 1 + (k & 1);
    if (cc.pool == 0)
      cc.pool = 2;
    if (cc.nested == 2 && r.below(2)) {
      // fewer chunks than pool threads: the calling worker's ring index can exceed the chunk count
      cc.pool = r.pick<int>({3, 5, 8});
      cc.opt.maxThreads = r.pick<uint32_t>({2u, 2u, 3u});
    }
    runCase<T>(pools, s, e, cc);
  }
}

int main(int argc, char** argv) {
  drv::Args args(argc, argv);
  std::string out = args.str("out");
  std::string suite = args.str("suite", "i8");
  bool thorough = args.str("tier", "quick") == "thorough";
  Rng r((uint64_t)args.num("seed", 1) * 7919 + std::hash<std::string>()(suite) % 1000);
  gOut = fopen(out.c_str(), "w");
  if (!gOut) {
    fprintf(stderr, "cannot open %s\n", out.c_str());
    return 2;
  }
  // line 1 is a header (the trace spec's initial state consumes it, so TLC's depth = line number)
  fprintf(gOut, "{\"e\":\"hdr\",\"suite\":\"%s\",\"tier\":\"%s\",\"seed\":%lld}\n", suite.c_str(),
          thorough ? "thorough" : "quick", (long long)args.num("seed", 1));
  Pools pools;
  int n = (int)args.num("n", thorough ? 6000 : 450);
  if (suite == "i8") {
    suite8<int8_t>(pools, r, thorough);
    suite8<uint8_t>(pools, r, thorough);
  } else if (suite == "wide") {
    suiteWide<int16_t>(pools, r, n);
    suiteWide<uint16_t>(pools, r, n);
    suiteWide<int32_t>(pools, r, n);
    suiteWide<uint32_t>(pools, r, n);
    suiteWide<int64_t>(pools, r, n);
    suiteWide<uint64_t>(pools, r, n);
  } else if (suite == "gran") {
    suiteGran<int32_t>(pools, r, 0, thorough);
    suiteGran<int32_t>(pools, r, -1000, thorough);
    suiteGran<int8_t>(pools, r, -128, thorough);
    suiteGran<uint16_t>(pools, r, 65535 - 400, thorough);
    suiteGran<int64_t>(pools, r, std::numeric_limits<int64_t>::min() + 5, thorough);
    suiteGran<uint64_t>(pools, r, (i128)1 << 40, thorough);
    suiteGran<uint64_t>(pools, r, (i128)std::numeric_limits<uint64_t>::max() - 420, thorough);
    suiteGran<int64_t>(pools, r, (i128)std::numeric_limits<int64_t>::max() - 420, thorough);
    suiteGran<uint32_t>(pools, r, 3, thorough);
  } else if (suite == "static17") {
    suiteStatic<int32_t>(pools, r, n);
    suiteStatic<int64_t>(pools, r, n / 2);
    suiteStatic<uint8_t>(pools, r, n / 2);
    suiteStatic<uint16_t>(pools, r, n / 2);
    suiteStatic<uint64_t>(pools, r, n / 2);
  } else if (suite == "multi") {
    suiteMulti<int32_t>(pools, r, n / 3);
    suiteMulti<int8_t>(pools, r, n / 6);
    suiteMulti<uint8_t>(pools, r, n / 6);
    suiteMulti<int64_t>(pools, r, n / 6);
    suiteMulti<uint16_t>(pools, r, n / 6);
  } else if (suite == "mixed") {
    suiteMixed(pools, r, n);
  } else if (suite == "nest") {
    suiteNest<int32_t>(pools, r, n);
    suiteNest<uint8_t>(pools, r, n / 2);
  } else {
    fprintf(stderr, "unknown suite %s\n", suite.c_str());
    return 2;
  }
  // joining the pool threads: a body that runs after its call returned shows up as `late`
  pools.destroyAll();
  flushPending();
  fclose(gOut);
  printTotals(0);
  return 0;
}
