// Driver for dispenso::CompletionEvent and dispenso::Latch (spec/event/Event.tla; C21, C20).
//   --out FILE            trace (ndjson)
//   --scen FILE           scenario list, one per line (written by the check from spec/event/scen_*.ndjson):
//                           <kind> <init> <tgt>;<thread>:<op>/<n>/<us>/<clk>/<tol>,<op>/...;<thread>:...
//   --schedules FILE      replay each schedule of FILE; its first step {"t":"<i>","a":"Scen"} names the
//                         (1-based) scenario of --scen it belongs to
//   --index I --random N --seed S [--pct D]     N random controlled executions of scenario I
//   --randprog c21|c20 --random N --seed S [--pct D]   ... of random programs of that class
//   --nospurious / --notimeout                 environment switches (random executions; the tail of a replay)
//   --free N --seed S     E5: N free-running rounds (real futex, real clock) of timed waits racing a
//                         notify; one {"e":"Obs",...} record per timed wait
#include <dispenso/completion_event.h>
#include <dispenso/latch.h>

#include <time.h>
#include <unistd.h>

#include <algorithm>
#include <chrono>
#include <fstream>
#include <thread>

#include "../ctl/ctl.h"
#include "../ctl/drv_common.h"

using ctl::Json;

struct OpDesc {
  std::string op;
  long long n = 0, us = 0, clk = 0, tol = 0;
};
struct Scenario {
  std::string kind; // "event" | "latch"
  int init = 0, tgt = 1;
  std::vector<std::pair<std::string, std::vector<OpDesc>>> prog;
};

// A clock whose reading is an input of the program: waitUntil(abs) samples it exactly once.
static thread_local long long tlsClockUs = 0;
struct TestClock {
  typedef std::chrono::microseconds duration;
  typedef duration::rep rep;
  typedef duration::period period;
  typedef std::chrono::time_point<TestClock> time_point;
  static constexpr bool is_steady = true;
  static time_point now() {
    return time_point(duration(tlsClockUs));
  }
};

static Scenario parseScenario(const std::string& line) {
  Scenario s;
  auto parts = drv::split(line, ';');
  auto head = drv::split(parts[0], ' ');
  s.kind = head[0];
  s.init = atoi(head[1].c_str());
  s.tgt = atoi(head[2].c_str());
  for (size_t i = 1; i < parts.size(); ++i) {
    if (parts[i].empty())
      continue;
    auto nm = drv::split(parts[i], ':');
    std::vector<OpDesc> ops;
    for (auto& o : drv::split(nm.size() > 1 ? nm[1] : "", ',')) {
      if (o.empty())
        continue;
      auto f = drv::split(o, '/');
      OpDesc d;
      d.op = f[0];
      d.n = atoll(f[1].c_str());
      d.us = atoll(f[2].c_str());
      d.clk = atoll(f[3].c_str());
      d.tol = atoll(f[4].c_str());
      ops.push_back(d);
    }
    s.prog.emplace_back(nm[0], ops);
  }
  return s;
}

static std::vector<Scenario> readScenarios(const std::string& path) {
  std::vector<Scenario> out;
  std::ifstream f(path);
  if (!f) {
    fprintf(stderr, "ERROR drv_event: cannot open %s\n", path.c_str());
    _exit(3);
  }
  std::string line;
  while (std::getline(f, line))
    if (!line.empty())
      out.push_back(parseScenario(line));
  return out;
}

static std::string resetLine(const Scenario& s, const std::string& tag) {
  Json j;
  j.beginObj();
  j.kv("e", std::string("Reset"));
  j.kv("kind", s.kind);
  j.kv("init", s.init);
  j.kv("tgt", s.tgt);
  j.kv("tag", tag);
  j.key("prog").beginObj();
  for (auto& th : s.prog) {
    j.key(th.first.c_str()).beginArr();
    for (auto& o : th.second) {
      j.beginObj();
      j.kv("op", o.op);
      j.kv("n", o.n);
      j.kv("us", o.us);
      j.kv("clk", o.clk);
      j.kv("tol", o.tol);
      j.endObj();
    }
    j.endArr();
  }
  j.endObj();
  j.endObj();
  return j.s;
}

// ------------------------------------------------------------------------------ random programs
static long long tolOf(long long rel) {
  // the timespec is exact when rel/1e6 s is a short dyadic rational (multiples of 1/64 s); otherwise
  // truncation to whole nanoseconds may lose 1 ns and the logged microseconds may be 1 short
  return (rel % 15625 == 0) ? 0 : 1;
}
static OpDesc mk(const char* op, long long n = 0, long long us = 0, long long clk = 0) {
  OpDesc d;
  d.op = op;
  d.n = n;
  d.us = us;
  d.clk = clk;
  d.tol = (d.op == "waitfor" || d.op == "waituntil") ? tolOf(us - clk) : 0;
  return d;
}
static OpDesc randomTimed(uint64_t& rng) {
  // the logical clock of the spec adds up the expired timespecs: keep the sum of a program below 2^31 us
  static const long long durs[] = {0,     -1,    -1000000, 1,       7,        250,       999,
                                   15625, 31250, 1000000,  1500000, 59000000, 123456789, 200000000};
  long long us = durs[ctl::splitmix(rng) % (sizeof(durs) / sizeof(durs[0]))];
  if (ctl::splitmix(rng) % 3 == 0) {
    long long clk = (long long)(ctl::splitmix(rng) % 100000);
    return mk("waituntil", 0, clk + us, clk);
  }
  return mk("waitfor", 0, us);
}

// All programs respect the documented contracts: one publisher per event; reset only in
// single-thread programs; untimed waits only if the program completes the object; latch decrements
// sum up exactly to the count.
static Scenario randomProgram(uint64_t& rng, bool timed) {
  Scenario s;
  auto rnd = [&](unsigned n) { return (unsigned)(ctl::splitmix(rng) % n); };
  bool latch = !timed && rnd(3) != 0;
  if (!latch) {
    s.kind = "event";
    s.init = 0;
    s.tgt = 1;
    if (rnd(5) == 0) {
      // sequential life cycle with reset, one thread
      std::vector<OpDesc> ops;
      bool set = false;
      int n = 3 + (int)rnd(6);
      for (int i = 0; i < n; ++i) {
        unsigned r = rnd(timed ? 8 : 6);
        if (r == 0) {
          ops.push_back(mk("notify"));
          set = true;
        } else if (r == 1) {
          ops.push_back(mk("reset"));
          set = false;
        } else if (r == 2)
          ops.push_back(mk("completed"));
        else if (r == 3 && set)
          ops.push_back(mk("wait"));
        else if (timed || r >= 4)
          ops.push_back(randomTimed(rng));
      }
      if (ops.empty())
        ops.push_back(mk("completed"));
      s.prog.emplace_back("d1", ops);
      return s;
    }
    bool publisher = rnd(timed ? 4 : 8) != 0;
    if (publisher) {
      std::vector<OpDesc> ops;
      if (rnd(4) == 0)
        ops.push_back(mk("completed"));
      ops.push_back(mk("notify"));
      if (rnd(6) == 0)
        ops.push_back(mk("notify"));
      if (rnd(4) == 0)
        ops.push_back(mk("completed"));
      s.prog.emplace_back("d1", ops);
    }
    int nw = 1 + (int)rnd(timed ? 2 : 3);
    for (int w = 0; w < nw; ++w) {
      std::vector<OpDesc> ops;
      int n = 1 + (int)rnd(2);
      for (int i = 0; i < n; ++i) {
        unsigned r = rnd(6);
        if (r == 0)
          ops.push_back(mk("completed"));
        else if (publisher && (r <= 2 && !timed))
          ops.push_back(mk("wait"));
        else if (publisher && r == 1)
          ops.push_back(mk("wait"));
        else
          ops.push_back(randomTimed(rng));
      }
      s.prog.emplace_back("w" + std::to_string(w + 1), ops);
    }
    return s;
  }
  s.kind = "latch";
  s.tgt = 0;
  s.init = 1 + (int)rnd(4);
  int left = s.init;
  int nd = 1 + (int)rnd(3);
  std::vector<std::vector<OpDesc>> dec(nd);
  // arrive_and_wait blocks until the count is zero, so it must be the last decrement of its thread
  // (anything else is a program that can never complete -- the user's deadlock, not the library's)
  std::vector<bool> hasAw(nd, false);
  while (left > 0) {
    int n = 1 + (int)rnd((unsigned)left);
    unsigned d = rnd((unsigned)nd);
    auto& ops = dec[d];
    if (hasAw[d])
      ops.insert(ops.begin(), mk("cd", n));
    else if (n == 1 && rnd(2) == 0) {
      ops.push_back(mk("aw"));
      hasAw[d] = true;
    } else
      ops.push_back(mk("cd", n));
    left -= n;
    if (rnd(8) == 0) {
      unsigned z = rnd((unsigned)nd);
      dec[z].insert(dec[z].begin(), mk("cd", 0));
    }
  }
  int k = 0;
  for (auto& ops : dec)
    if (!ops.empty()) {
      if (rnd(5) == 0)
        ops.push_back(mk(rnd(2) ? "wait" : "trywait"));
      s.prog.emplace_back("d" + std::to_string(++k), ops);
    }
  int nw = (int)rnd(3);
  for (int w = 0; w < nw; ++w) {
    std::vector<OpDesc> ops;
    if (rnd(3) == 0)
      ops.push_back(mk("trywait"));
    ops.push_back(mk("wait"));
    if (rnd(4) == 0)
      ops.push_back(mk("trywait"));
    s.prog.emplace_back("w" + std::to_string(w + 1), ops);
  }
  return s;
}

// ------------------------------------------------------------------------------------ execution
struct Obj {
  dispenso::CompletionEvent* ev = nullptr;
  dispenso::Latch* latch = nullptr;
  int status() const {
    return ev ? ev->impl_.status_.load() : latch->impl_.status_.load();
  }
};

static long long doOp(Obj& o, const OpDesc& d) {
  if (o.ev) {
    if (d.op == "notify") {
      o.ev->notify();
      return 1;
    }
    if (d.op == "wait") {
      o.ev->wait();
      return 1;
    }
    if (d.op == "completed") {
      ctl::point("EvCompleted", o.ev);
      return o.ev->completed() ? 1 : 0;
    }
    if (d.op == "reset") {
      ctl::point("EvReset", o.ev);
      o.ev->reset();
      return 1;
    }
    if (d.op == "waitfor")
      return o.ev->waitFor(std::chrono::microseconds(d.us)) ? 1 : 0;
    if (d.op == "waituntil") {
      tlsClockUs = d.clk;
      return o.ev->waitUntil(TestClock::time_point(std::chrono::microseconds(d.us))) ? 1 : 0;
    }
  } else {
    if (d.op == "cd") {
      o.latch->count_down((uint32_t)d.n);
      return 1;
    }
    if (d.op == "trywait")
      return o.latch->try_wait() ? 1 : 0;
    if (d.op == "wait") {
      o.latch->wait();
      return 1;
    }
    if (d.op == "aw") {
      o.latch->arrive_and_wait();
      return 1;
    }
  }
  fprintf(stderr, "ERROR drv_event: op %s not applicable\n", d.op.c_str());
  _exit(3);
}

static ctl::RunResult
execute(const Scenario& sc, const ctl::RunOptions& opts, ctl::Trace& tr, const std::string& tag) {
  Obj* o = new Obj();
  if (sc.kind == "event")
    o->ev = new dispenso::CompletionEvent();
  else
    o->latch = new dispenso::Latch((uint32_t)sc.init);
  tr.line(resetLine(sc, tag));
  ctl::Controller c(tr);
  c.setProjection([o](Json& j) {
    j.kv("status", o->status());
    std::vector<std::string> q;
    for (auto& w : ctl::futexWaiters())
      q.push_back(w.name);
    std::sort(q.begin(), q.end());
    j.key("q").beginArr();
    for (auto& n : q)
      j.str(n);
    j.endArr();
  });
  for (auto& th : sc.prog) {
    const std::vector<OpDesc>* ops = &th.second;
    c.addThread(th.first, [o, ops]() {
      for (auto& d : *ops) {
        long long r = doOp(*o, d);
        ctl::ret(r);
      }
    });
  }
  ctl::RunResult res = c.run(opts);
  if (res.completed) {
    Json j;
    j.beginObj();
    j.kv("e", std::string("End"));
    j.kv("status", o->status());
    j.endObj();
    tr.line(j.s);
    delete o->ev;
    delete o->latch;
    delete o;
  }
  return res;
}

// ------------------------------------------------------------------------- E5: free-running rounds
static long long nowNs() {
  return std::chrono::duration_cast<std::chrono::nanoseconds>(
             std::chrono::steady_clock::now().time_since_epoch())
      .count();
}
static void sleepUs(long long us) {
  if (us <= 0)
    return;
  long long end = nowNs() + us * 1000;
  if (us > 200) {
    struct timespec ts {
      0, (long)((us - 100) * 1000)
    };
    nanosleep(&ts, nullptr);
  }
  while (nowNs() < end) {
  }
}

static int runFree(const drv::Args& a) {
  ctl::Trace tr(a.str("out", "obs.ndjson"));
  long long rounds = a.num("free", 100);
  uint64_t rng = (uint64_t)a.num("seed", 1) * 0x9e3779b97f4a7c15ULL + 99;
  static const long long reqs[] = {-1000, 0, 1, 40, 150, 400, 900, 1500, 2500};
  static const long long delays[] = {-1, 0, 30, 120, 400, 800, 1400, 2600};
  long long nobs = 0;
  for (long long r = 0; r < rounds; ++r) {
    dispenso::CompletionEvent ev;
    std::atomic<int> entered{0};
    long long notifyDelay = delays[ctl::splitmix(rng) % 8];
    int nw = 1 + (int)(ctl::splitmix(rng) % 3);
    ctl::Controller c(tr);
    if (notifyDelay >= 0)
      c.addThread("n", [&]() {
        sleepUs(notifyDelay);
        entered.store(1, std::memory_order_seq_cst);
        ev.notify();
      });
    for (int w = 0; w < nw; ++w) {
      long long req = reqs[ctl::splitmix(rng) % 9];
      bool until = ctl::splitmix(rng) % 3 == 0;
      long long startDelay = (long long)(ctl::splitmix(rng) % 4) * 100;
      c.addThread("w" + std::to_string(w + 1), [&, req, until, startDelay, r]() {
        sleepUs(startDelay);
        bool res;
        long long t0 = nowNs();
        if (until) {
          auto abs = std::chrono::steady_clock::time_point(std::chrono::nanoseconds(t0)) +
              std::chrono::microseconds(req);
          res = ev.waitUntil(abs);
        } else {
          res = ev.waitFor(std::chrono::microseconds(req));
        }
        long long t1 = nowNs();
        int done = ev.completed() ? 1 : 0;
        int pre = entered.load(std::memory_order_seq_cst);
        long long el = (t1 - t0) / 1000; // rounded down: conservative for "too early"
        if (el > 2000000000LL)
          el = 2000000000LL;
        Json j;
        j.s = "\"kind\":\"";
        j.s += until ? "waitUntil" : "waitFor";
        j.s += "\"";
        j.first = false;
        j.kv("req", req);
        j.kv("el", el);
        j.kv("res", res ? 1 : 0);
        j.kv("done", done);
        j.kv("pre", pre);
        j.kv("round", r);
        ctl::freeEvent(tr, "Obs", j.s);
      });
      ++nobs;
    }
    ctl::RunOptions o;
    o.mode = ctl::RunOptions::Free;
    o.seed = rng;
    c.run(o);
  }
  tr.flush();
  printf(
      "DRIVER executions=%lld steps=%lld completed=%lld deadlocks=0 diverged=0 stuck=0\n",
      rounds,
      nobs,
      rounds);
  fflush(stdout);
  return 0;
}

// --------------------------------------------------------------- E5: free-running wake-up races
// One waiter and one completer per round, truly concurrent (real futex), the completer's call placed at
// a random offset around the waiter's entry into wait().  The hooks of the library are inert here
// (no controller), so the race windows BETWEEN two hook points are exercised as well - the controlled
// executions interleave only at the hook points.  One record per round:
//   {"e":"Race","kind":"event"|"latch"|"arrive","round":r,"returned":0|1,"done":0|1}
// returned = the waiter came back within the grace period after the completing call had returned.
static int runRace(const drv::Args& a) {
  std::string out = a.str("out", "race.ndjson");
  FILE* f = fopen(out.c_str(), "w");
  if (!f)
    return 2;
  long long rounds = a.num("race", 1000);
  uint64_t rng = (uint64_t)a.num("seed", 1) * 0x9e3779b97f4a7c15ULL + 7;
  const long long graceNs = 10LL * 1000 * 1000 * 1000;
  struct Shared {
    std::atomic<long long> round{-1};
    std::atomic<int> kind{0};
    std::atomic<long long> entered{-1}, returned{-1};
    std::atomic<void*> obj{nullptr};
    std::atomic<int> stop{0};
  };
  static Shared sh; // static: a stuck waiter may outlive this function
  std::thread waiter([]() {
    long long seen = -1;
    while (!sh.stop.load(std::memory_order_acquire)) {
      long long r = sh.round.load(std::memory_order_acquire);
      if (r == seen)
        continue;
      if (r < -1)
        break; // shutdown marker (the objects of earlier rounds are gone)
      seen = r;
      void* o = sh.obj.load(std::memory_order_acquire);
      int kind = sh.kind.load(std::memory_order_acquire);
      sh.entered.store(r, std::memory_order_release);
      if (kind == 0)
        static_cast<dispenso::CompletionEvent*>(o)->wait();
      else if (kind == 1)
        static_cast<dispenso::Latch*>(o)->wait();
      else
        static_cast<dispenso::Latch*>(o)->arrive_and_wait();
      sh.returned.store(r, std::memory_order_release);
    }
  });
  long long lost = 0, done = 0;
  for (long long r = 0; r < rounds; ++r) {
    int kind = (int)(ctl::splitmix(rng) % 3);
    dispenso::CompletionEvent* ev = nullptr;
    dispenso::Latch* la = nullptr;
    if (kind == 0)
      ev = new dispenso::CompletionEvent();
    else
      la = new dispenso::Latch(kind == 1 ? 1 : 2);
    sh.kind.store(kind, std::memory_order_release);
    sh.obj.store(kind == 0 ? (void*)ev : (void*)la, std::memory_order_release);
    sh.round.store(r, std::memory_order_release);
    // spin a random number of iterations so that the completing call lands before, inside and after the
    // waiter's entry sequence
    long long spin = (long long)(ctl::splitmix(rng) % 600);
    while (sh.entered.load(std::memory_order_acquire) != r) {
    }
    for (volatile long long k = 0; k < spin; ++k) {
    }
    if (kind == 0)
      ev->notify();
    else
      la->count_down();
    long long t0 = nowNs();
    bool back = false;
    while (!(back = sh.returned.load(std::memory_order_acquire) == r) && nowNs() - t0 < graceNs) {
    }
    int completed = kind == 0 ? (ev->completed() ? 1 : 0) : (la->try_wait() ? 1 : 0);
    fprintf(f, "{\"e\":\"Race\",\"kind\":\"%s\",\"round\":%lld,\"returned\":%d,\"done\":%d}\n",
            kind == 0 ? "event" : kind == 1 ? "latch" : "arrive", r, back ? 1 : 0, completed);
    ++done;
    if (!back) {
      ++lost; // the waiter is stuck in the futex: it cannot be joined, the objects stay alive
      break;
    }
    delete ev;
    delete la;
  }
  fclose(f);
  printf("DRIVER executions=%lld steps=%lld completed=%lld deadlocks=%lld diverged=0 stuck=0\n", done, done,
         done - lost, lost);
  fflush(stdout);
  if (!lost) {
    sh.stop.store(1, std::memory_order_release);
    sh.round.store(-2, std::memory_order_release);
    waiter.join();
    return 0;
  }
  _exit(0); // a stuck waiter cannot be joined; the record says what happened
}

// ------------------------------------------------------------------------------------------ main
int main(int argc, char** argv) {
  drv::Args a(argc, argv);
  if (a.has("race")) {
    int rc = runRace(a);
    fflush(stdout);
    _exit(rc);
  }
  if (a.has("free")) {
    int rc = runFree(a);
    fflush(stdout);
    _exit(rc);
  }
  ctl::Trace tr(a.str("out", "trace.ndjson"));
  drv::Totals tot;
  std::vector<Scenario> scens;
  if (a.has("scen"))
    scens = readScenarios(a.str("scen"));
  if (a.has("schedules")) {
    auto scheds = ctl::readSchedules(a.str("schedules"));
    size_t idx = 0;
    for (auto& full : scheds) {
      if (full.empty() || full[0].action != "Scen") {
        fprintf(stderr, "ERROR drv_event: schedule %zu does not start with a Scen step\n", idx);
        _exit(3);
      }
      size_t si = (size_t)atoi(full[0].thread.c_str());
      if (si < 1 || si > scens.size()) {
        fprintf(stderr, "ERROR drv_event: schedule %zu names scenario %zu\n", idx, si);
        _exit(3);
      }
      ctl::Schedule s(full.begin() + 1, full.end());
      ctl::RunOptions o;
      o.mode = ctl::RunOptions::Replay;
      o.schedule = &s;
      o.allowTimeout = !a.has("notimeout");
      o.allowSpurious = !a.has("nospurious");
      auto r = execute(
          scens[si - 1], o, tr, "scen" + std::to_string(si) + "/sched" + std::to_string(idx));
      ++idx;
      tot.add(r);
      if (!r.completed)
        break; // threads may still be parked: this process cannot run another execution
    }
  } else {
    long long n = a.num("random", 100);
    uint64_t seed = (uint64_t)a.num("seed", 1);
    uint64_t prng = seed * 7919 + 17;
    std::string cls = a.str("randprog", "");
    size_t index = (size_t)a.num("index", 1);
    if (cls.empty() && (index < 1 || index > scens.size())) {
      fprintf(stderr, "ERROR drv_event: --index out of range\n");
      _exit(3);
    }
    for (long long i = 0; i < n; ++i) {
      ctl::RunOptions o;
      o.mode = ctl::RunOptions::Random;
      o.seed = seed * 1000003ULL + (uint64_t)i;
      o.pctDepth = (int)a.num("pct", 0);
      o.allowTimeout = !a.has("notimeout");
      o.allowSpurious = !a.has("nospurious");
      Scenario sc = cls.empty() ? scens[index - 1] : randomProgram(prng, cls == "c20");
      auto r = execute(sc, o, tr, "rand" + std::to_string(o.seed));
      tot.add(r);
      if (!r.completed)
        break;
    }
  }
  tr.flush();
  tot.print();
  fflush(stdout);
  _exit(0); // parked threads of an aborted execution must not block exit
}
