// Driver for property C32: dispenso::ConcurrentVector used sequentially (spec/seq/SeqVec.tla).
//   --out FILE              trace (ndjson), validated by spec/seq/SeqVecTrace.tla
//   --schedules FILE        replay every schedule of FILE (bin/walker.py output: one JSON array per
//                           line of {"a":<action>,"t":"<<args>>"}), each on a fresh pair of vectors
//   --combos all | F.inl.fast.strat,...    trait combinations (F = first bucket length 1|2|4,
//                           inl = buffer pointers inline, fast = kIteratorPreferSpeed,
//                           strat = 0 full-buffer-ahead, 1 half-buffer-ahead, 2 as-needed)
//   --share K               with --schedules: combination number c replays schedule i only if
//                           (i + c) % K == 0 (K = 1: every combination replays everything)
//   --random N --seed S [--maxlen L] [--maxsize M]   N random operation sequences per combination
#include "drv_seqvec_ops.h"

#include "../ctl/drv_common.h"

using sv::IRunner;
using sv::OpReq;

struct Combo {
  int f, inl, fast, strat;
};

static IRunner* make(ctl::Trace& tr, const Combo& c) {
  if (c.f == 1)
    return c.fast ? sv::makeF1Fast(tr, c.inl, c.strat) : sv::makeF1Compact(tr, c.inl, c.strat);
  if (c.f == 2)
    return c.fast ? sv::makeF2Fast(tr, c.inl, c.strat) : sv::makeF2Compact(tr, c.inl, c.strat);
  if (c.f == 4)
    return c.fast ? sv::makeF4Fast(tr, c.inl, c.strat) : sv::makeF4Compact(tr, c.inl, c.strat);
  return nullptr;
}

static std::vector<Combo> parseCombos(const std::string& s) {
  std::vector<Combo> out;
  if (s == "all") {
    for (int f : {1, 2, 4})
      for (int inl = 0; inl < 2; ++inl)
        for (int fast = 0; fast < 2; ++fast)
          for (int st = 0; st < 3; ++st)
            out.push_back({f, inl, fast, st});
    return out;
  }
  for (auto& c : drv::split(s, ',')) {
    auto q = drv::split(c, '.');
    if (q.size() != 4) {
      fprintf(stderr, "ERROR drv_seqvec: bad combination %s\n", c.c_str());
      _exit(3);
    }
    out.push_back({atoi(q[0].c_str()), atoi(q[1].c_str()), atoi(q[2].c_str()), atoi(q[3].c_str())});
  }
  return out;
}

// "<<1, 2>>" / "3" / "<<>>"  ->  the integers
static std::vector<long long> parseTuple(const std::string& s) {
  std::vector<long long> out;
  size_t i = 0;
  while (i < s.size()) {
    if (isdigit((unsigned char)s[i]) || (s[i] == '-' && i + 1 < s.size() && isdigit((unsigned char)s[i + 1]))) {
      size_t j = i + 1;
      while (j < s.size() && isdigit((unsigned char)s[j]))
        ++j;
      out.push_back(atoll(s.substr(i, j - i).c_str()));
      i = j;
    } else
      ++i;
  }
  return out;
}

// ------------------------------------------------------------------------------ random programs
struct Gen {
  uint64_t rng;
  int next = 100; // fresh element ids (larger than every id used so far; 99 = default value)
  int maxSize;
  explicit Gen(uint64_t seed, int ms) : rng(seed), maxSize(ms) {}
  long long rnd(long long n) { // 0 .. n-1
    return n <= 0 ? 0 : (long long)(ctl::splitmix(rng) % (uint64_t)n);
  }
  long long fresh(long long c) {
    int v = next;
    next += (int)(c > 0 ? c : 1);
    return v;
  }
  OpReq op(const IRunner& r) {
    long long n = (long long)r.na, room = maxSize - n;
    if (room < 0)
      room = 0;
    auto cnt = [&](long long m) { return rnd((m < room ? m : room) + 1); };
    if (!r.ea) {
      long long k = rnd(7);
      long long c = rnd(3) == 0 ? rnd(13) : rnd(7);
      if (c > maxSize)
        c = maxSize;
      switch (k) {
        case 0:
          return {"CtorDefault", {}};
        case 1:
          return {"CtorReserve", {rnd(20)}};
        case 2:
          return {"CtorCount", {c}};
        case 3:
          return {"CtorCountValue", {c, fresh(1)}};
        case 4:
          return {"CtorRange", {c, fresh(c)}};
        case 5:
          return {"CtorSizedRange", {c, fresh(c)}};
        default:
          c = c > 6 ? 6 : c;
          return {"CtorIlist", {c, fresh(c)}};
      }
    }
    for (;;) {
      long long g = rnd(100);
      if (g < 24) { // growth at the end
        long long k = rnd(10);
        if (k < 3 && room >= 1) {
          static const char* nm[] = {"PushBackCopy", "PushBackMove", "EmplaceBack"};
          return {nm[k], {fresh(1)}};
        }
        long long c = cnt(rnd(4) == 0 ? 9 : 4);
        if (k == 3)
          return {"GrowByDefault", {c}};
        if (k == 4)
          return {"GrowByValue", {c, fresh(1)}};
        if (k == 5)
          return {"GrowByRange", {c, fresh(c)}};
        if (k == 6) {
          c = c > 6 ? 6 : c;
          return {"GrowByIlist", {c, fresh(c)}};
        }
        if (k == 7)
          return {"GrowByGen", {c, fresh(c)}};
        long long tgt = 1 + rnd(n + (room < 4 ? room : 4) + 1);
        if (tgt > maxSize)
          tgt = maxSize;
        if (tgt < 1)
          continue;
        if (k == 8)
          return {"GrowToAtLeast", {tgt}};
        return {"GrowToAtLeastValue", {tgt, fresh(1)}};
      }
      if (g < 40) { // insert
        long long k = rnd(5), at = rnd(n + 1);
        if (rnd(4) == 0)
          at = rnd(2) ? 0 : n;
        if (k == 0 && room >= 1)
          return {"InsertCopy", {at, fresh(1)}};
        if (k == 1 && room >= 1)
          return {"InsertMove", {at, fresh(1)}};
        long long c = cnt(rnd(4) == 0 ? 8 : 3);
        if (k == 2)
          return {"InsertCount", {at, c, fresh(1)}};
        if (k == 3)
          return {"InsertRange", {at, c, fresh(c)}};
        c = c > 6 ? 6 : c;
        return {"InsertIlist", {at, c, fresh(c)}};
      }
      if (g < 54) { // erase
        long long k = rnd(8);
        if (k == 0)
          return {"EraseEnd", {}};
        if (k < 4 && n > 0)
          return {"EraseOne", {rnd(n)}};
        long long f = rnd(n + 1), l = f + rnd(n - f + 1);
        if (rnd(3) == 0)
          l = f + rnd((n - f < 3 ? n - f : 3) + 1);
        return {"EraseRange", {f, l}};
      }
      if (g < 66) { // size changes
        long long k = rnd(8);
        if (k == 0)
          return {"Resize", {rnd(n + (room < 5 ? room : 5) + 1)}};
        if (k == 1)
          return {"ResizeValue", {rnd(n + (room < 5 ? room : 5) + 1), fresh(1)}};
        if (k == 2)
          return {"Reserve", {rnd(2 * maxSize)}};
        if (k == 3 && n > 0)
          return {"PopBack", {}};
        if (k == 4 && rnd(3) == 0)
          return {"Clear", {}};
        if (k == 5)
          return {"ShrinkToFit", {}};
        if (k == 6 && n > 0)
          return {"PopBack", {}};
        continue;
      }
      if (g < 72) { // assign
        long long c = rnd(3) == 0 ? rnd(maxSize + 1) : rnd(6);
        if (c > maxSize)
          c = maxSize;
        if (rnd(2))
          return {"AssignCount", {c, fresh(1)}};
        return {"AssignRange", {c, fresh(c)}};
      }
      if (g < 84) { // the partner vector
        if (!r.eb) {
          long long k = rnd(3);
          if (k == 0) {
            long long c = rnd(8);
            return {"CtorB", {c, fresh(c)}};
          }
          return {k == 1 ? "CopyCtorB" : "MoveCtorB", {}};
        }
        static const char* nm[] = {"CopyAssign", "MoveAssign", "CopyAssignToB", "MoveAssignToB",
                                   "SwapMember", "SwapFree", "Compare", "DestroyB", "Compare"};
        return {nm[rnd(9)], {}};
      }
      if (g < 86)
        return {"CopyAssignSelf", {}};
      // observers
      long long k = rnd(10);
      static const char* nm[] = {"IterFwd", "IterConst", "IterRev", "IterConstRev", "Index", "At",
                                 "SizeInfo"};
      if (k < 7)
        return {nm[k], {}};
      if (k == 7 && n > 0)
        return {"FrontBack", {}};
      if (k >= 8)
        return {"IterArith", {rnd(n + 1)}};
    }
  }
};

int main(int argc, char** argv) {
  drv::Args a(argc, argv);
  ctl::Trace tr(a.str("out", "seqvec.ndjson"));
  std::vector<Combo> combos = parseCombos(a.str("combos", "all"));
  long long executions = 0, steps = 0;
  if (a.has("schedules")) {
    auto scheds = ctl::readSchedules(a.str("schedules"));
    long long share = a.num("share", 1);
    if (share < 1)
      share = 1;
    for (size_t ci = 0; ci < combos.size(); ++ci) {
      std::unique_ptr<IRunner> r(make(tr, combos[ci]));
      if (!r) {
        fprintf(stderr, "ERROR drv_seqvec: unsupported combination\n");
        return 3;
      }
      for (size_t si = 0; si < scheds.size(); ++si) {
        if ((long long)(si + ci) % share != 0)
          continue;
        r->begin("sched" + std::to_string(si));
        for (auto& st : scheds[si]) {
          OpReq op{st.action, parseTuple(st.thread)};
          r->step(op);
          ++steps;
        }
        r->end();
        ++executions;
      }
    }
  } else {
    long long n = a.num("random", 10);
    uint64_t seed = (uint64_t)a.num("seed", 1);
    long long maxlen = a.num("maxlen", 60);
    for (size_t ci = 0; ci < combos.size(); ++ci) {
      std::unique_ptr<IRunner> r(make(tr, combos[ci]));
      if (!r) {
        fprintf(stderr, "ERROR drv_seqvec: unsupported combination\n");
        return 3;
      }
      int maxSize = (int)a.num("maxsize", combos[ci].f == 4 ? 40 : 24);
      for (long long i = 0; i < n; ++i) {
        Gen g(seed * 1000003ULL + (uint64_t)ci * 7919ULL + (uint64_t)i, maxSize);
        long long len = 1 + g.rnd(maxlen);
        if (g.rnd(3) != 0)
          len = maxlen;
        r->begin("rand" + std::to_string(seed) + "." + std::to_string(ci) + "." + std::to_string(i));
        for (long long s = 0; s < len; ++s) {
          r->step(g.op(*r));
          ++steps;
        }
        r->end();
        ++executions;
      }
    }
  }
  tr.flush();
  printf("DRIVER executions=%lld steps=%lld completed=%lld deadlocks=0 diverged=0 stuck=0\n", executions,
         steps, executions);
  fflush(stdout);
  return 0;
}
