// Driver for dispenso::ConcurrentObjectArena (spec/arena/Arena.tla).
//   --out FILE            trace (ndjson)
//   --prog "m:new.A.1.0|g1:grow.A.2,write.A.1.1.11;g2:grow.A.2,size.A|m:copy.B.A,readi.B.1"
//                         phases separated by '|', threads (g1 g2 m) by ';', ops by ',', fields by '.'
//                           grow.AR.delta  write.AR.g.off.val  read.AR.g.off  writei.AR.i.val  readi.AR.i
//                           size.AR cap.AR numbuf.AR getbuf.AR.k bufsize.AR.k new.AR.minBuf.init
//                           copy.DST.SRC move.DST.SRC assign.DST.SRC massign.DST.SRC swap.A.B del.AR
//   --schedules FILE      replay each schedule of FILE (phases consume the schedule one after the other)
//   --random N --seed S [--pct D] --randprog   N random controlled executions of random programs
//   --stress N --seed S   E5: N free-running rounds (real threads, no controller, inert hooks, no memory
//                         observation): 2-4 threads grow_by() on one fresh arena truly concurrently; ONE
//                         observation record per round, validated by spec/arena/ArenaObs.tla
//
// Observation (no addresses are logged):
//   * malloc/free are wrapped at link time (-Wl,--wrap=malloc,--wrap=free): alignedMalloc'd buffers are
//     numbered in allocation order and pre-filled with 0xEE ("Garbage").
//   * operator new[] / delete[] are replaced: pointer tables (new T*[n]) are numbered in allocation
//     order and pre-filled with a pointer to a static poison buffer (a conforming, adversarial
//     allocator: the content of new T*[n] is indeterminate), so that reading an uninitialised table
//     entry is deterministic and observable instead of a lucky crash.
//   * the element type is trivially copyable (the copy constructor requires it) but has a
//     user-provided default constructor that counts constructions per address.
#include <dispenso/concurrent_object_arena.h>

#include <sched.h>
#include <time.h>
#include <unistd.h>

#include <algorithm>
#include <map>
#include <mutex>
#include <new>
#include <thread>

#include "../ctl/ctl.h"
#include "../ctl/drv_common.h"

#if defined(__has_feature)
#if __has_feature(address_sanitizer)
#define DRV_ASAN 1
#endif
#endif
#if defined(__SANITIZE_ADDRESS__)
#define DRV_ASAN 1
#endif
#ifdef DRV_ASAN
extern "C" int __lsan_do_recoverable_leak_check();
#endif

using ctl::Json;

// ------------------------------------------------------------------------------ memory observation
extern "C" void* __real_malloc(size_t);
extern "C" void __real_free(void*);

static const size_t kAlign = 64;
static const unsigned kGarbageWord = 0xEEEEEEEEu;
static const unsigned kPoisonWord = 0xDDDDDDDDu;
alignas(64) static unsigned g_poison[256];

struct Block {
  size_t size;
  int id;
};
static bool g_track = false;
// E5 only: every malloc'ed block is handed out filled with 0xAB (malloc returns memory with arbitrary
// content: a conforming, adversarial allocator), so that an element the arena hands out WITHOUT
// initialising it is observable instead of accidentally zero on a fresh heap page.  Thread-safe: the
// block is not shared yet.
static bool g_dirtyHeap = false;
static int g_nextBuf = 0, g_nextTab = 0;
static std::map<char*, Block> g_blocks; // raw malloc pointer -> block (alignedMalloc buffers)
static std::map<char*, Block> g_tabs; // new[] pointer -> table
static std::map<const void*, int> g_ctor; // element address -> number of default constructions

static char* blockBase(char* raw) {
  uintptr_t b = reinterpret_cast<uintptr_t>(raw) + kAlign;
  b &= ~(uintptr_t)(kAlign - 1);
  return reinterpret_cast<char*>(b);
}

extern "C" void* __wrap_malloc(size_t n) {
  void* p = __real_malloc(n);
  if (g_dirtyHeap && p)
    memset(p, 0xAB, n);
  if (g_track && p) {
    memset(p, 0xEE, n);
    g_blocks[(char*)p] = Block{n, g_nextBuf++};
  }
  return p;
}
extern "C" void __wrap_free(void* p) {
  if (p && !g_blocks.empty()) {
    auto it = g_blocks.find((char*)p);
    if (it != g_blocks.end()) {
      char* lo = (char*)p;
      char* hi = lo + it->second.size;
      for (auto c = g_ctor.lower_bound(lo); c != g_ctor.end() && c->first < (const void*)hi;)
        c = g_ctor.erase(c);
      g_blocks.erase(it);
    }
  }
  __real_free(p);
}

void* operator new[](size_t n) {
  void* p = __real_malloc(n ? n : 1);
  if (!p)
    throw std::bad_alloc();
  if (g_track) {
    void* pat = g_poison;
    for (size_t i = 0; i + sizeof(void*) <= n; i += sizeof(void*))
      memcpy((char*)p + i, &pat, sizeof(void*));
    g_tabs[(char*)p] = Block{n, g_nextTab++};
  }
  return p;
}
void operator delete[](void* p) noexcept {
  if (!p)
    return;
  if (!g_tabs.empty())
    g_tabs.erase((char*)p);
  __real_free(p);
}
void operator delete[](void* p, size_t) noexcept {
  operator delete[](p);
}

static void note(const char* k, long long a, long long b) {
  dispenso_verif_note(k, nullptr, a, b);
}

struct Elem {
  unsigned v;
  Elem() : v(0) {
    ++g_ctor[this];
  }
};
static_assert(std::is_trivially_copyable<Elem>::value, "Elem must be trivially copyable");
using Arena = dispenso::ConcurrentObjectArena<Elem, size_t, kAlign>;

static long long mapVal(unsigned v) {
  if (v == kGarbageWord)
    return -1;
  if (v == kPoisonWord)
    return -2;
  return (long long)v;
}

// buffer id whose aligned base is p (-1: not the base of a live buffer)
static int bufIdOfBase(const void* p) {
  for (auto& b : g_blocks)
    if (blockBase(b.first) == p)
      return b.second.id;
  return -1;
}
static void locate(const void* p, int& buf, int& slot) {
  auto it = g_blocks.upper_bound((char*)p);
  if (it != g_blocks.begin()) {
    --it;
    char* base = blockBase(it->first);
    if ((char*)p >= base && (char*)p < it->first + it->second.size) {
      buf = it->second.id;
      slot = (int)(((char*)p - base) / (long)sizeof(Elem));
      return;
    }
  }
  buf = -1;
  slot = -1;
}
static int tabId(const void* p) {
  if (!p)
    return -1;
  auto it = g_tabs.find((char*)p);
  return it == g_tabs.end() ? -2 : it->second.id;
}

// ------------------------------------------------------------------------------------- programs
static const char* kThreadNames[] = {"g1", "g2", "m"};
static const int kNumThreadNames = 3;
static const char* kArenaNames[] = {"A", "B", "C"};
static const int kNumArenas = 3;

struct OpDesc {
  std::string op, ar, src;
  int x = 0, y = 0, z = 0;
};
struct Phase {
  std::vector<OpDesc> ops[kNumThreadNames];
};
using Program = std::vector<Phase>;

static int threadIndex(const std::string& n) {
  for (int i = 0; i < kNumThreadNames; ++i)
    if (n == kThreadNames[i])
      return i;
  fprintf(stderr, "ERROR drv_arena: unknown thread %s\n", n.c_str());
  _exit(3);
}
static int arenaIndex(const std::string& n) {
  for (int i = 0; i < kNumArenas; ++i)
    if (n == kArenaNames[i])
      return i;
  fprintf(stderr, "ERROR drv_arena: unknown arena %s\n", n.c_str());
  _exit(3);
}
static bool twoArenaOp(const std::string& op) {
  return op == "copy" || op == "move" || op == "assign" || op == "massign" || op == "swap";
}

static Program parseProg(const std::string& s) {
  Program p;
  for (auto& ph : drv::split(s, '|')) {
    Phase phase;
    for (auto& th : drv::split(ph, ';')) {
      if (th.empty())
        continue;
      auto nm = drv::split(th, ':');
      int ti = threadIndex(nm[0]);
      for (auto& o : drv::split(nm.size() > 1 ? nm[1] : "", ',')) {
        if (o.empty())
          continue;
        auto f = drv::split(o, '.');
        OpDesc d;
        d.op = f[0];
        d.ar = f.size() > 1 ? f[1] : "A";
        size_t k = 2;
        if (twoArenaOp(d.op))
          d.src = f.size() > k ? f[k++] : "A";
        if (f.size() > k)
          d.x = atoi(f[k++].c_str());
        if (f.size() > k)
          d.y = atoi(f[k++].c_str());
        if (f.size() > k)
          d.z = atoi(f[k++].c_str());
        if (d.op == "writei") { // writei.AR.i.val -> x = i, z = val
          d.z = d.y;
          d.y = 0;
        }
        phase.ops[ti].push_back(d);
      }
    }
    p.push_back(phase);
  }
  return p;
}

static std::string resetLine(const Program& prog, const std::string& tag) {
  Json j;
  j.beginObj();
  j.kv("e", std::string("Reset"));
  j.kv("tag", tag);
  j.key("prog").beginArr();
  for (auto& ph : prog) {
    j.beginObj();
    for (int t = 0; t < kNumThreadNames; ++t) {
      j.key(kThreadNames[t]).beginArr();
      for (auto& o : ph.ops[t]) {
        j.beginObj();
        j.kv("op", o.op);
        j.kv("ar", o.ar);
        j.kv("src", o.src);
        j.kv("x", o.x);
        j.kv("y", o.y);
        j.kv("z", o.z);
        j.endObj();
      }
      j.endArr();
    }
    j.endObj();
  }
  j.endArr();
  j.endObj();
  return j.s;
}

// --------------------------------------------------------------------- random programs (rule R1)
// Only programs the documentation allows: concurrent phases use grow_by / operator[] / size /
// capacity / numBuffers / getBuffer only; a thread writes only elements returned by its own grow_by
// and reads only those; getBuffer(k) only for buffers that existed when the phase started; copy /
// move / assignment / swap / getBufferSize / destruction only in single-thread phases; a moved-from
// arena is only assigned to or destroyed.
struct GenArena {
  bool ex = false, mv = false;
  int size = 0, bs = 1;
};
static int rnd(uint64_t& rng, int n) {
  return (int)(ctl::splitmix(rng) % (uint64_t)n);
}
static int log2ceil(int n) {
  int l = 0;
  while ((1 << l) < n)
    ++l;
  return n <= 1 ? (n == 1 ? 0 : 1) : l;
}

static Program randomProgram(uint64_t& rng) {
  Program p;
  GenArena g[kNumArenas];
  int nextVal = 1;
  auto mk = [](const char* op, int ar, int src, int x, int y, int z) {
    OpDesc d;
    d.op = op;
    d.ar = kArenaNames[ar];
    d.src = src >= 0 ? kArenaNames[src] : "";
    d.x = x;
    d.y = y;
    d.z = z;
    return d;
  };
  // phase 1: construct A
  {
    Phase ph;
    int mb = 1 + rnd(rng, 4);
    int init = rnd(rng, 3) == 0 ? 1 + rnd(rng, 4) : 0;
    ph.ops[2].push_back(mk("new", 0, -1, mb, init, 0));
    g[0].ex = true;
    g[0].bs = 1 << log2ceil(mb);
    g[0].size = init;
    p.push_back(ph);
  }
  // 1-2 concurrent grower phases on A
  int nGrowPhases = 1 + rnd(rng, 2);
  std::vector<std::vector<int>> myGrows(kNumThreadNames); // per thread: delta of each grow so far
  for (int k = 0; k < nGrowPhases; ++k) {
    Phase ph;
    int nth = 1 + rnd(rng, 2);
    int p0 = g[0].size;
    int added = 0;
    for (int t = 0; t < nth; ++t) {
      int nops = 1 + rnd(rng, 4);
      for (int i = 0; i < nops; ++i) {
        int r = rnd(rng, 20);
        // elements of own grows (grow index gi, offset) that can be addressed
        std::vector<std::pair<int, int>> own;
        for (size_t gi = 0; gi < myGrows[t].size(); ++gi)
          for (int off = 0; off < myGrows[t][gi]; ++off)
            own.emplace_back((int)gi + 1, off);
        if (r < 9 || (own.empty() && r < 14)) {
          int d = rnd(rng, 8) == 0 ? 4 + rnd(rng, 3) : rnd(rng, 4);
          ph.ops[t].push_back(mk("grow", 0, -1, d, 0, 0));
          myGrows[t].push_back(d);
          added += d;
        } else if (r < 12 && !own.empty()) {
          auto e = own[rnd(rng, (int)own.size())];
          ph.ops[t].push_back(mk("write", 0, -1, e.first, e.second, nextVal++));
        } else if (r < 14 && !own.empty()) {
          auto e = own[rnd(rng, (int)own.size())];
          ph.ops[t].push_back(mk("read", 0, -1, e.first, e.second, 0));
        } else if (r < 16) {
          ph.ops[t].push_back(mk("size", 0, -1, 0, 0, 0));
        } else if (r < 17) {
          ph.ops[t].push_back(mk("cap", 0, -1, 0, 0, 0));
        } else if (r < 18) {
          ph.ops[t].push_back(mk("numbuf", 0, -1, 0, 0, 0));
        } else {
          ph.ops[t].push_back(mk("getbuf", 0, -1, rnd(rng, p0 / g[0].bs + 1), 0, 0));
        }
      }
    }
    g[0].size += added;
    p.push_back(ph);
  }
  // sequential tail
  if (rnd(rng, 8) != 0) {
    Phase ph;
    int nops = 1 + rnd(rng, 9);
    for (int i = 0; i < nops; ++i) {
      std::vector<int> live, ex, nex;
      for (int a = 0; a < kNumArenas; ++a) {
        if (g[a].ex)
          ex.push_back(a);
        else
          nex.push_back(a);
        if (g[a].ex && !g[a].mv)
          live.push_back(a);
      }
      int r = rnd(rng, 24);
      auto pick = [&](std::vector<int>& v) { return v[rnd(rng, (int)v.size())]; };
      if (r < 5 && !nex.empty() && !live.empty()) { // copy construct
        int d = pick(nex), s = pick(live);
        ph.ops[2].push_back(mk("copy", d, s, 0, 0, 0));
        g[d] = g[s];
      } else if (r < 7 && !nex.empty() && !live.empty()) { // move construct
        int d = pick(nex), s = pick(live);
        ph.ops[2].push_back(mk("move", d, s, 0, 0, 0));
        g[d] = g[s];
        g[s] = GenArena();
        g[s].ex = true;
        g[s].mv = true;
      } else if (r < 10 && !ex.empty() && !live.empty()) { // copy assign (also self, also to moved-from)
        int d = pick(ex), s = pick(live);
        ph.ops[2].push_back(mk("assign", d, s, 0, 0, 0));
        g[d] = g[s];
      } else if (r < 12 && live.size() >= 2) { // move assign
        int d = pick(live), s = pick(live);
        if (d != s) {
          ph.ops[2].push_back(mk("massign", d, s, 0, 0, 0));
          g[d] = g[s];
          g[s].mv = true;
        }
      } else if (r < 14 && live.size() >= 2) {
        int a = pick(live), b = pick(live);
        ph.ops[2].push_back(mk("swap", a, b, 0, 0, 0));
        std::swap(g[a], g[b]);
      } else if (r < 15 && !ex.empty()) {
        int a = pick(ex);
        ph.ops[2].push_back(mk("del", a, -1, 0, 0, 0));
        g[a] = GenArena();
      } else if (r < 16 && !nex.empty()) {
        int a = pick(nex);
        int mb = 1 + rnd(rng, 4);
        int init = rnd(rng, 4);
        ph.ops[2].push_back(mk("new", a, -1, mb, init, 0));
        g[a].ex = true;
        g[a].mv = false;
        g[a].bs = 1 << log2ceil(mb);
        g[a].size = init;
      } else if (!live.empty()) {
        int a = pick(live);
        int q = rnd(rng, 10);
        if (q < 2) {
          int d = rnd(rng, 4);
          ph.ops[2].push_back(mk("grow", a, -1, d, 0, 0));
          myGrows[2].push_back(d);
          g[a].size += d;
        } else if (q < 5 && g[a].size > 0) {
          ph.ops[2].push_back(mk("readi", a, -1, rnd(rng, g[a].size), 0, 0));
        } else if (q < 6 && g[a].size > 0) {
          ph.ops[2].push_back(mk("writei", a, -1, rnd(rng, g[a].size), 0, nextVal++));
        } else if (q < 7) {
          ph.ops[2].push_back(mk("bufsize", a, -1, rnd(rng, g[a].size / g[a].bs + 1), 0, 0));
        } else if (q < 8) {
          ph.ops[2].push_back(mk("numbuf", a, -1, 0, 0, 0));
        } else if (q < 9) {
          ph.ops[2].push_back(mk("size", a, -1, 0, 0, 0));
        } else {
          ph.ops[2].push_back(mk("getbuf", a, -1, rnd(rng, g[a].size / g[a].bs + 1), 0, 0));
        }
      }
    }
    if (!ph.ops[2].empty())
      p.push_back(ph);
  }
  return p;
}

// ------------------------------------------------------------------------------------ execution
struct World {
  Arena* ar[kNumArenas] = {nullptr, nullptr, nullptr};
  bool mv[kNumArenas] = {false, false, false};
  std::map<std::pair<int, int>, Elem*> saved; // (arena, index) -> reference taken at first access
  std::vector<long long> growStarts[kNumThreadNames];
  void forget(int a) {
    for (auto it = saved.begin(); it != saved.end();)
      it = it->first.first == a ? saved.erase(it) : std::next(it);
  }
};

static void project(World& w, Json& j) {
  j.key("ar").beginObj();
  for (int a = 0; a < kNumArenas; ++a) {
    j.key(kArenaNames[a]).beginObj();
    Arena* A = w.ar[a];
    bool cmp = A && !w.mv[a];
    j.kv("ex", A ? 1 : 0);
    j.kv("mv", (A && w.mv[a]) ? 1 : 0);
    Elem** tab = cmp ? A->buffers_.load() : nullptr;
    // never dereference what is not a live table / live buffer (a defect must be reported by TLC,
    // not crash the projection): -3 = "not addressable"
    int tid = cmp ? tabId(tab) : -1;
    size_t tabEntries = tid >= 0 ? g_tabs[(char*)tab].size / sizeof(Elem*) : 0;
    size_t lg = cmp ? (size_t)A->kLog2BuffSize : 0;
    j.kv("lg", (long long)std::min<size_t>(lg, 1000));
    j.kv("pos", cmp ? (long long)std::min<size_t>(A->pos_.load(), 1000000) : 0);
    j.kv("alloc", cmp ? (long long)std::min<size_t>(A->allocatedSize_.load(), 1000000) : 0);
    j.kv("tab", tid);
    j.kv("cap", cmp ? (long long)std::min<size_t>(A->buffersSize_, 1000000) : 0);
    j.kv("npos", cmp ? (long long)std::min<size_t>(A->buffersPos_, 1000000) : 0);
    j.key("ent").beginArr();
    if (cmp)
      for (size_t k = 0; k < std::min<size_t>(A->buffersPos_, 64); ++k)
        j.num(k < tabEntries ? bufIdOfBase(tab[k]) : -3);
    j.endArr();
    j.key("dl").beginArr();
    if (cmp)
      for (Elem** t : A->deleteLater_)
        j.num(tabId(t));
    j.endArr();
    // contents, addressed exactly as operator[] does (index >> log2, index & mask)
    j.key("c").beginArr();
    if (cmp && lg <= 16) {
      size_t n = std::min<size_t>(A->pos_.load(), 256);
      size_t mask = ((size_t)1 << lg) - 1;
      for (size_t i = 0; i < n; ++i) {
        size_t bi = i >> lg;
        if (bi < tabEntries && bufIdOfBase(tab[bi]) >= 0)
          j.num(mapVal(tab[bi][i & mask].v));
        else
          j.num(-3);
      }
    }
    j.endArr();
    j.endObj();
  }
  j.endObj();
  // heap: live buffers (id order) with raw contents and construction counts; live tables
  std::map<int, char*> byId;
  for (auto& b : g_blocks)
    byId[b.second.id] = b.first;
  j.key("bl").beginArr();
  for (auto& b : byId)
    j.num(b.first);
  j.endArr();
  j.key("bv").beginArr();
  for (auto& b : byId) {
    Elem* base = reinterpret_cast<Elem*>(blockBase(b.second));
    size_t bs = (g_blocks[b.second].size - kAlign) / sizeof(Elem);
    j.beginArr();
    for (size_t k = 0; k < bs; ++k)
      j.num(mapVal(base[k].v));
    j.endArr();
  }
  j.endArr();
  j.key("bc").beginArr();
  for (auto& b : byId) {
    Elem* base = reinterpret_cast<Elem*>(blockBase(b.second));
    size_t bs = (g_blocks[b.second].size - kAlign) / sizeof(Elem);
    j.beginArr();
    for (size_t k = 0; k < bs; ++k) {
      auto it = g_ctor.find(base + k);
      j.num(it == g_ctor.end() ? 0 : it->second);
    }
    j.endArr();
  }
  j.endArr();
  std::vector<int> tl;
  for (auto& t : g_tabs)
    tl.push_back(t.second.id);
  std::sort(tl.begin(), tl.end());
  j.arr("tl", tl.begin(), tl.end());
}

static void doOp(World& w, int ti, const OpDesc& o) {
  int a = arenaIndex(o.ar);
  int s = o.src.empty() ? -1 : arenaIndex(o.src);
  Arena*& A = w.ar[a];
  if (o.op == "grow") {
    long long r = (long long)A->grow_by((size_t)o.x);
    w.growStarts[ti].push_back(r);
    note("grow", r, 0);
  } else if (o.op == "write" || o.op == "writei" || o.op == "read" || o.op == "readi") {
    size_t idx = (o.op == "writei" || o.op == "readi")
        ? (size_t)o.x
        : (size_t)(w.growStarts[ti][(size_t)o.x - 1] + o.y);
    Elem& e = (*A)[idx];
    auto key = std::make_pair(a, (int)idx);
    Elem* first = w.saved.count(key) ? w.saved[key] : &e;
    w.saved[key] = first;
    int buf, slot;
    locate(&e, buf, slot);
    if (o.op[0] == 'w') {
      e.v = (unsigned)o.z;
      note("loc", buf, slot);
    } else {
      note("val", mapVal(e.v), 0);
      note("loc", buf, slot);
      note("via", mapVal(first->v), 0);
    }
  } else if (o.op == "size") {
    note("size", (long long)A->size(), 0);
  } else if (o.op == "cap") {
    note("cap", (long long)A->capacity(), 0);
  } else if (o.op == "numbuf") {
    ctl::point("NumBuf", A);
    note("numbuf", (long long)A->numBuffers(), 0);
  } else if (o.op == "getbuf") {
    const Elem* p = A->getBuffer((size_t)o.x);
    note("getbuf", bufIdOfBase(p), 0);
  } else {
    ctl::point("SeqOp", A);
    if (o.op == "bufsize") {
      note("bufsize", (long long)A->getBufferSize((size_t)o.x), 0);
    } else if (o.op == "new") {
      // the constructor calls grow_by(initialSize), which has schedule points: publish the object
      // before constructing it so that the projection sees it while the constructor is running
      w.mv[a] = false;
      void* mem = ::operator new(sizeof(Arena));
      A = static_cast<Arena*>(mem);
      new (mem) Arena((size_t)o.x, (size_t)o.y);
    } else if (o.op == "copy") {
      A = new Arena(*w.ar[s]);
      w.mv[a] = false;
    } else if (o.op == "move") {
      A = new Arena(std::move(*w.ar[s]));
      w.mv[a] = false;
      w.mv[s] = true;
      w.forget(s);
    } else if (o.op == "assign") {
      *A = *w.ar[s];
      w.mv[a] = false;
      w.forget(a);
    } else if (o.op == "massign") {
      *A = std::move(*w.ar[s]);
      if (a != s) {
        w.mv[a] = false;
        w.mv[s] = true;
      }
      w.forget(a);
      w.forget(s);
    } else if (o.op == "swap") {
      swap(*A, *w.ar[s]);
      w.forget(a);
      w.forget(s);
    } else if (o.op == "del") {
      delete A;
      A = nullptr;
      w.mv[a] = false;
      w.forget(a);
    } else {
      fprintf(stderr, "ERROR drv_arena: unknown op %s\n", o.op.c_str());
      _exit(3);
    }
  }
}

static ctl::RunResult
execute(const Program& prog, const ctl::RunOptions& base, ctl::Trace& tr, const std::string& tag) {
  g_blocks.clear();
  g_tabs.clear();
  g_ctor.clear();
  g_nextBuf = g_nextTab = 0;
  World w;
  tr.line(resetLine(prog, tag));
  g_track = true;

  ctl::RunResult total;
  total.completed = true;
  size_t schedPos = 0;
  for (size_t k = 0; k < prog.size(); ++k) {
    if (k > 0)
      tr.line("{\"e\":\"NextPhase\"}");
    ctl::Controller c(tr);
    c.setProjection([&w](Json& j) { project(w, j); });
    const Phase& ph = prog[k];
    for (int t = 0; t < kNumThreadNames; ++t) {
      if (ph.ops[t].empty())
        continue;
      const std::vector<OpDesc>* ops = &ph.ops[t];
      c.addThread(kThreadNames[t], [&w, ops, t]() {
        for (auto& o : *ops)
          doOp(w, t, o);
      });
    }
    ctl::RunOptions o = base;
    ctl::Schedule sub;
    if (base.mode == ctl::RunOptions::Replay && base.schedule) {
      if (schedPos < base.schedule->size())
        sub.assign(base.schedule->begin() + (long)schedPos, base.schedule->end());
      o.schedule = &sub;
    } else {
      o.seed = base.seed * 31 + k;
    }
    ctl::RunResult r = c.run(o);
    schedPos += r.steps;
    total.steps += r.steps;
    total.deadlock |= r.deadlock;
    total.diverged |= r.diverged;
    total.stuck |= r.stuck;
    if (!r.completed) {
      total.completed = false;
      total.detail = r.detail;
      g_track = false;
      return total; // parked threads: terminal for this process
    }
  }
  for (int a = 0; a < kNumArenas; ++a) {
    delete w.ar[a];
    w.ar[a] = nullptr;
  }
  g_track = false;
  Json j;
  j.beginObj();
  j.kv("e", std::string("Destroy"));
  j.kv("bufs", (long long)g_blocks.size());
  j.kv("tabs", (long long)g_tabs.size());
  j.endObj();
  tr.line(j.s);
  return total;
}


// ------------------------------------------------------------------------------------------ E5
// Free-running rounds.  No ctl::Controller exists (every DISPENSO_VERIF_POINT is inert) and g_track is
// off (malloc only fills the block with 0xAB, see g_dirtyHeap; new[] passes through), so the growers race inside what the controlled engines treat as
// one atomic step - in particular inside the resizeMutex_ section and the compare-exchange of grow_by.
// A record holds what a user of the public API can observe: what every grow_by returned and size()
// after it (per-thread program order), and after the join size(), capacity(), numBuffers(), the
// buffer sizes, the contents and how often each element was default-constructed.
namespace stress {

constexpr int kMaxGrowers = 4;
constexpr int kMaxOps = 10;
constexpr int kMaxDelta = 6;
constexpr unsigned kDefaultVal = 7;
constexpr long long kMaxData = 2048;

unsigned g_roundMagic = 0; // written by the main thread between rounds only

// Trivially copyable element with a user-provided default constructor that counts how often it ran
// on this storage during this round (the storage is malloc'ed: whatever it held before is not a
// construction of this round, because the magic differs from round to round).
struct SElem {
  unsigned val, magic, cnt;
  SElem() {
    if (*reinterpret_cast<volatile unsigned*>(&magic) == g_roundMagic)
      cnt = *reinterpret_cast<volatile unsigned*>(&cnt) + 1;
    else {
      magic = g_roundMagic;
      cnt = 1;
    }
    val = kDefaultVal;
  }
};
static_assert(std::is_trivially_copyable<SElem>::value, "SElem must be trivially copyable");
using SArena = dispenso::ConcurrentObjectArena<SElem, size_t, kAlign>;

// Element types WITHOUT a user-provided default constructor.  The arena constructs its elements with
// `new (p) T()`: value-initialisation, which for such a T zero-initialises the object, so "every element
// grow_by (and the initialSize constructor) hands out is default-constructed" means: it equals T(),
// whatever the heap block held before.  SElem above cannot see this (its constructor sets the fields);
// the heap is dirty (g_dirtyHeap, and every handed-out plain element is overwritten with a non-zero
// value before its arena is freed).  In every round each grower repeats its grow_by program on an
// arena of int and an arena of Pod (same minBuffSize / initialSize, concurrently with the others) and
// counts the handed-out elements that differ from T() ("nz" per grower, "nz0" for the initialSize
// elements checked by the constructing thread).
struct Pod {
  int a;
  unsigned b;
  double c;
};
static_assert(std::is_trivial<Pod>::value && sizeof(Pod) == 16, "Pod: plain aggregate without padding");
using IArena = dispenso::ConcurrentObjectArena<int>;
using PArena = dispenso::ConcurrentObjectArena<Pod>;

// number of non-zero bytes of the object (T() of int / Pod is all-zero bytes); reads through a
// volatile pointer in a non-inlined function: the comparison is done on what is in memory
__attribute__((noinline)) bool allZero(const void* p, size_t n) {
  const volatile unsigned char* c = static_cast<const volatile unsigned char*>(p);
  unsigned acc = 0;
  for (size_t i = 0; i < n; ++i)
    acc |= c[i];
  return acc == 0;
}
inline void dirty(int& e, int tag) {
  e = tag | 0x40000000;
}
inline void dirty(Pod& e, int tag) {
  e.a = tag | 0x40000000;
  e.b = 0xCDCDCDCDu;
  e.c = 1.5;
}

struct SOp {
  long long n = 0; // delta
  int v = 0; // value tag: worker * 100000 + op index * 100; element j of the range gets v + j
  long long p = -1; // what grow_by returned
  long long s = -1; // size() right after the call
};
struct Work {
  int nops = 0;
  SOp ops[kMaxOps];
  int spin = 0;
  long long mis = 0;
  long long nz = 0; // elements of int / Pod arenas handed out by grow_by that differ from T()
  int nsaved = 0;
  long long savedIdx[kMaxOps * kMaxDelta];
  SElem* savedPtr[kMaxOps * kMaxDelta];
  unsigned savedVal[kMaxOps * kMaxDelta];
};

inline long long clip(long long x) {
  return x > 100000000LL || x < -100000000LL ? -99999999LL : x;
}

struct Shared {
  std::atomic<long long> go{-1};
  std::atomic<int> arrived{0}; // workers that have seen the round start (rendezvous)
  std::atomic<unsigned long long> startAt{0}; // tick at which the workers start (0: not yet known)
  std::atomic<int> done{0};
  std::atomic<int> quit{0};
  std::atomic<long long> beat{0};
  std::atomic<long long> round{0};
  SArena* arena = nullptr;
  IArena* iarena = nullptr;
  PArena* parena = nullptr;
  int growers = 0;
  Work w[kMaxGrowers];
};
Shared g_sh;
std::mutex g_outMu;
FILE* g_out = nullptr;
long long g_roundsDone = 0, g_opsDone = 0;

long long nowNs() {
  timespec ts;
  clock_gettime(CLOCK_MONOTONIC, &ts);
  return (long long)ts.tv_sec * 1000000000LL + ts.tv_nsec;
}
#if defined(__x86_64__) || defined(__i386__)
inline unsigned long long ticks() {
  return __builtin_ia32_rdtsc();
}
constexpr unsigned long long kStartDelayTicks = 6000;
#else
inline unsigned long long ticks() {
  return (unsigned long long)nowNs();
}
constexpr unsigned long long kStartDelayTicks = 2000;
#endif
inline void relax(unsigned& n) {
  if ((++n & 0xffff) == 0)
    sched_yield();
}

// the grower's program on an arena of a plain element type: only "equals T()" is observed here (the
// ranges are validated on the SElem arena); a range that is not inside [0, size()) is not dereferenced
template <class A>
void plainGrower(A& ar, Work& w) {
  for (int i = 0; i < w.nops; ++i) {
    const SOp& o = w.ops[i];
    size_t p = ar.grow_by((size_t)o.n);
    size_t s = ar.size();
    if (p + (size_t)o.n > s || p > (size_t)kMaxData) {
      ++w.mis;
      continue;
    }
    for (long long j = 0; j < o.n; ++j) {
      auto& e = ar[p + (size_t)j];
      if (!allZero(&e, sizeof e))
        ++w.nz;
      dirty(e, o.v + (int)j);
    }
  }
}

void grower(SArena& ar, Work& w) {
  for (volatile int k = 0; k < w.spin; ++k) {
  }
  for (int i = 0; i < w.nops; ++i) {
    SOp& o = w.ops[i];
    size_t p = ar.grow_by((size_t)o.n);
    size_t s = ar.size();
    o.p = clip((long long)p);
    o.s = clip((long long)s);
    if (p + (size_t)o.n > s || p > (size_t)kMaxData)
      ++w.mis; // not dereferenced; the validator rejects p / s anyway
    else
      for (long long j = 0; j < o.n; ++j) {
        SElem* e = &ar[p + (size_t)j];
        // the elements of the returned range are default-constructed, exactly once
        if (e->magic != g_roundMagic || e->cnt != 1 || e->val != kDefaultVal)
          ++w.mis;
        e->val = (unsigned)(o.v + j);
        w.savedIdx[w.nsaved] = (long long)p + j;
        w.savedPtr[w.nsaved] = e;
        w.savedVal[w.nsaved] = (unsigned)(o.v + j);
        ++w.nsaved;
      }
    // references taken earlier stay valid: same address, same value
    for (int q = 0; q < w.nsaved; ++q)
      if (&ar[(size_t)w.savedIdx[q]] != w.savedPtr[q] || w.savedPtr[q]->val != w.savedVal[q])
        ++w.mis;
  }
}

void workerMain(int w) {
  long long seen = -1;
  unsigned spins = 0;
  for (;;) {
    long long r = g_sh.go.load(std::memory_order_acquire);
    if (r == seen) {
      if (g_sh.quit.load(std::memory_order_acquire))
        return;
      relax(spins);
      continue;
    }
    seen = r;
    // rendezvous: the last worker to arrive picks a start tick a little in the future; every worker
    // spins on the clock until then, so that all programs start within a few nanoseconds of each other
    // (each worker then adds its own random spin offset)
    if (g_sh.arrived.fetch_add(1, std::memory_order_acq_rel) + 1 == kMaxGrowers)
      g_sh.startAt.store(ticks() + kStartDelayTicks, std::memory_order_release);
    unsigned long long at;
    while ((at = g_sh.startAt.load(std::memory_order_acquire)) == 0)
      relax(spins);
    while (ticks() < at) {
    }
    if (w < g_sh.growers) {
      grower(*g_sh.arena, g_sh.w[w]);
      plainGrower(*g_sh.iarena, g_sh.w[w]);
      plainGrower(*g_sh.parena, g_sh.w[w]);
    }
    g_sh.done.fetch_add(1, std::memory_order_acq_rel);
  }
}

void printTotals(long long stuck) {
  printf(
      "DRIVER executions=%lld steps=%lld completed=%lld deadlocks=%lld diverged=0 stuck=0\n",
      g_roundsDone + stuck,
      g_opsDone,
      g_roundsDone,
      stuck);
  fflush(stdout);
}

// A round that does not finish within the grace period is reported as a record and ends the run (the
// threads that hang cannot be joined).
void watchdogMain() {
  const long long graceNs = 10LL * 1000 * 1000 * 1000;
  while (!g_sh.quit.load(std::memory_order_acquire)) {
    usleep(50 * 1000);
    long long b = g_sh.beat.load(std::memory_order_acquire);
    if (b != 0 && nowNs() - b > graceNs && !g_sh.quit.load(std::memory_order_acquire)) {
      std::lock_guard<std::mutex> lk(g_outMu);
      fprintf(
          g_out,
          "{\"e\":\"Arena\",\"round\":%lld,\"stuck\":1,\"done\":%d}\n",
          g_sh.round.load(std::memory_order_acquire),
          g_sh.done.load(std::memory_order_acquire));
      fflush(g_out);
      printTotals(1);
      _exit(0);
    }
  }
}

int run(const drv::Args& a) {
  std::string out = a.str("out", "arena_obs.ndjson");
  g_out = fopen(out.c_str(), "w");
  if (!g_out)
    return 2;
  long long rounds = a.num("stress", 1000);
  g_dirtyHeap = true;
  uint64_t rng = (uint64_t)a.num("seed", 1) * 0x9e3779b97f4a7c15ULL + 37;
  auto rnd = [&](int n) { return (int)(ctl::splitmix(rng) % (uint64_t)n); };
  std::vector<std::thread> workers;
  for (int w = 0; w < kMaxGrowers; ++w)
    workers.emplace_back(workerMain, w);
  std::thread watchdog(watchdogMain);
  long long tRun = 0, tBegin = nowNs();
  for (long long r = 0; r < rounds; ++r) {
    // ---- the round's configuration and programs
    int mb = 1 + rnd(4), n0 = rnd(4);
    int growers = 2 + rnd(3);
    long long worst = n0;
    for (int t = 0; t < growers; ++t) {
      Work& wk = g_sh.w[t];
      wk.nops = 0;
      wk.mis = 0;
      wk.nz = 0;
      wk.nsaved = 0;
      wk.spin = rnd(8) == 0 ? rnd(300) : rnd(24);
      int nops = 1 + rnd(kMaxOps);
      for (int k = 0; k < nops; ++k) {
        SOp o;
        int x = rnd(12);
        o.n = x == 0 ? 0 : x < 9 ? 1 + rnd(3) : 4 + rnd(kMaxDelta - 3);
        o.v = (t + 1) * 100000 + wk.nops * 100;
        if (worst + o.n > 64)
          continue;
        worst += o.n;
        wk.ops[wk.nops++] = o;
      }
    }
    g_roundMagic = 0x5A000000u | (unsigned)(r & 0xFFFFFF);
    g_sh.round.store(r, std::memory_order_release);
    g_sh.beat.store(nowNs(), std::memory_order_release);
    SArena* ar = new SArena((size_t)mb, (size_t)n0);
    for (int i = 0; i < n0; ++i)
      (*ar)[(size_t)i].val = (unsigned)(i + 1);
    IArena* iar = new IArena((size_t)mb, (size_t)n0);
    PArena* par = new PArena((size_t)mb, (size_t)n0);
    long long nz0 = 0;
    for (int i = 0; i < n0; ++i) {
      if (!allZero(&(*iar)[(size_t)i], sizeof(int)))
        ++nz0;
      if (!allZero(&(*par)[(size_t)i], sizeof(Pod)))
        ++nz0;
      dirty((*iar)[(size_t)i], i + 1);
      dirty((*par)[(size_t)i], i + 1);
    }
    g_sh.arena = ar;
    g_sh.iarena = iar;
    g_sh.parena = par;
    g_sh.growers = growers;
    g_sh.arrived.store(0, std::memory_order_relaxed);
    g_sh.startAt.store(0, std::memory_order_relaxed);
    g_sh.done.store(0, std::memory_order_relaxed);
    long long t1 = nowNs();
    g_sh.go.store(r, std::memory_order_release);
    unsigned spins = 0;
    while (g_sh.done.load(std::memory_order_acquire) != kMaxGrowers)
      relax(spins); // (the watchdog ends the process if this never happens)
    tRun += nowNs() - t1;
    // ---- observation after the join
    long long size = clip((long long)ar->size());
    long long cap = clip((long long)ar->capacity());
    long long nb = clip((long long)ar->numBuffers());
    long long bs = (long long)ar->kBufferSize;
    long long n = size < 0 ? 0 : (size > kMaxData ? kMaxData : size);
    long long nbSafe = nb < 0 ? 0 : (nb > kMaxData ? kMaxData : nb);
    long long bsum = 0;
    for (long long k = 0; k < nbSafe; ++k)
      bsum += (long long)ar->getBufferSize((size_t)k);
    long long moved = 0, bufmis = 0;
    for (int t = 0; t < growers; ++t)
      for (int q = 0; q < g_sh.w[t].nsaved; ++q)
        if (g_sh.w[t].savedIdx[q] < n && &(*ar)[(size_t)g_sh.w[t].savedIdx[q]] != g_sh.w[t].savedPtr[q])
          ++moved;
    std::string s, cx;
    char b[256];
    snprintf(
        b,
        sizeof b,
        "{\"e\":\"Arena\",\"round\":%lld,\"stuck\":0,\"mb\":%d,\"bs\":%lld,\"n0\":%d,\"nz0\":%lld,\"thr\":[",
        r,
        mb,
        clip(bs),
        n0,
        nz0);
    s += b;
    for (int t = 0; t < growers; ++t) {
      const Work& w = g_sh.w[t];
      snprintf(b, sizeof b, "%s{\"mis\":%lld,\"nz\":%lld,\"ops\":[", t ? "," : "", clip(w.mis), clip(w.nz));
      s += b;
      for (int k = 0; k < w.nops; ++k) {
        const SOp& o = w.ops[k];
        snprintf(b, sizeof b, "%s[%lld,%d,%lld,%lld]", k ? "," : "", o.n, o.v, o.p, o.s);
        s += b;
      }
      s += "]}";
      g_opsDone += w.nops;
    }
    std::string data;
    for (long long i = 0; i < n; ++i) {
      const SElem& e = (*ar)[(size_t)i];
      if (bs > 0 && i / bs < nbSafe && &e != ar->getBuffer((size_t)(i / bs)) + (i % bs))
        ++bufmis;
      snprintf(b, sizeof b, "%s%lld", i ? "," : "", clip((long long)e.val));
      data += b;
      long long c = e.magic == g_roundMagic ? (long long)e.cnt : 0;
      if (c != 1) { // sparse: every index not listed was default-constructed exactly once
        snprintf(b, sizeof b, "%s[%lld,%lld]", cx.empty() ? "" : ",", i, clip(c));
        cx += b;
      }
    }
    snprintf(
        b,
        sizeof b,
        "],\"size\":%lld,\"cap\":%lld,\"nb\":%lld,\"bsum\":%lld,\"moved\":%lld,\"bufmis\":%lld,\"data\":[",
        size,
        cap,
        nb,
        clip(bsum),
        moved,
        bufmis);
    s += b;
    s += data;
    s += "],\"cx\":[";
    s += cx;
    s += "]}\n";
    delete ar;
    delete iar;
    delete par;
    {
      std::lock_guard<std::mutex> lk(g_outMu);
      fwrite(s.data(), 1, s.size(), g_out);
    }
    ++g_roundsDone;
  }
  g_sh.quit.store(1, std::memory_order_release);
  for (auto& t : workers)
    t.join();
  watchdog.join();
  fclose(g_out);
  if (a.has("timing"))
    fprintf(
        stderr,
        "stress timing (ms): concurrent phase %lld, total %lld\n",
        tRun / 1000000,
        (nowNs() - tBegin) / 1000000);
  printTotals(0);
  return 0;
}

} // namespace stress

int main(int argc, char** argv) {
  for (auto& x : g_poison)
    x = kPoisonWord;
  drv::Args a(argc, argv);
  if (a.has("stress")) {
    int rc = stress::run(a);
    fflush(stdout);
    _exit(rc);
  }
  ctl::Trace tr(a.str("out", "trace.ndjson"));
  drv::Totals tot;
  Program prog = parseProg(a.str("prog", "m:new.A.1.0|g1:grow.A.1"));
  if (a.has("schedules")) {
    auto scheds = ctl::readSchedules(a.str("schedules"));
    size_t idx = 0;
    for (auto& s : scheds) {
      ctl::RunOptions o;
      o.mode = ctl::RunOptions::Replay;
      o.schedule = &s;
      auto r = execute(prog, o, tr, "sched" + std::to_string(idx++));
      tot.add(r);
      if (!r.completed)
        break;
    }
  } else {
    long long n = a.num("random", 100);
    uint64_t seed = (uint64_t)a.num("seed", 1);
    uint64_t prng = seed * 7919 + 17;
    for (long long i = 0; i < n; ++i) {
      ctl::RunOptions o;
      o.mode = ctl::RunOptions::Random;
      o.seed = seed * 1000003ULL + (uint64_t)i;
      o.pctDepth = (int)a.num("pct", 0);
      Program p = a.has("randprog") ? randomProgram(prng) : prog;
      auto r = execute(p, o, tr, "rand" + std::to_string(o.seed));
      tot.add(r);
      if (!r.completed)
        break;
    }
  }
  tr.flush();
  tot.print();
  fflush(stdout);
  int rc = 0;
#ifdef DRV_ASAN
  if (tot.completed == tot.executions && __lsan_do_recoverable_leak_check())
    rc = 66;
#endif
  _exit(rc);
}
