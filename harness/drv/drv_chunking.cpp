// Driver for the static chunking helpers (spec/parfor/Chunking.tla, ChunkingTrace.tla) - E5 records.
//
// Evaluates the compiled dispenso::detail::staticChunkSize / staticChunkSizeGranular and the public
// dispenso::staticChunkSize (dispenso/util.h) and writes one ndjson observation record per call:
//   {"e":"scs","api":"detail|public|granular","items":I,"chunks":C,"g":G,"ceil":..,"trans":..}
//   {"e":"big","api":..,"q":Q,"m":M,"chunks":C,"g":G,"dq":..,"cr":..,"trans":..}
// "big" records are calls with items = (Q*C + M)*G up to 2^62; TLC integers are 32-bit, so the result
// is logged relative to the quotient: dq = ceil/G - Q, cr = ceil % G.  C++ only records; the verdicts
// are TLC's (ChunkingTrace.tla).
//
// BOUNDARY-BIASED inputs.  The arithmetic is on ssize_t, but the values it serves are counts of 8 / 16 /
// 32 / 64-bit index types and a uint32_t granularity, and an implementation is free to take narrower
// paths for narrow values.  A defect of that kind lives in a window of a few values next to a power
// of two (e.g. 2^32 - chunks < items < 2^32) that neither the grid nor random 62-bit values ever hit.
// Therefore every width boundary 2^K (K = 7 8 15 16 24 31 32 33 48 53 62 63) is approached from both
// sides at distances related to the chunk count (0, +-1, +-2, +-chunks/2, +-(chunks-1), +-chunks,
// +-(chunks+1), -2*chunks), by items and - for the granular variant - also by items / g, with chunk
// counts and granularities that are themselves small, around 2^8 / 2^16 / 2^31 / 2^32:
//   {"e":"wide","api":..,"k":K,"d":D,"g":[..],"items":[..],"q":[..],"m":[..],"chunks":[..],
//    "dq":..,"cr":..,"trans":[..]}
// A 63-bit quantity is logged as three 21-bit limbs [hi, mid, lo] (a negative one as [-1,-1,-1], never
// legal); items = (q*chunks + m)*g with m < chunks is how the driver DEFINES the input, dq / cr as above.
// Every such call respects the documented precondition (items >= 0, chunks >= 1, nothing overflows
// ssize_t: items + chunks - 1 <= 2^63 - 1 and ceil <= 2^63 - 1).
//
// The same boundaries for the real static parallel_for: ranges of 16 / 32 / 64-bit index types whose SIZE
// is next to 2^15 / 2^16 / 2^31 / 2^32 / 2^33 / 2^48 / 2^62 / 2^63 (up to the whole domain of the 16 and
// 32-bit types), a body that only records the [begin, end) it is given (nothing iterates):
//   {"e":"pfw","w":bits,"sg":0|1,"k":K,"d":D,"g":G,"N":pool,"mt":maxThreads,"wait":0|1,"pos":P,
//    "size":[..],"q":[..],"m":M,"nb":n,"b":[[do,orem,ds,lrem,gap],...],"tail":t}
// size = (q*nt + m)*g with nt = min(N+1, mt); the bodies are sorted by begin; for the i-th (0-based)
// do = (begin-start)/g - i*q, orem = (begin-start)%g, ds = (end-begin)/g - q, lrem = (end-begin)%g,
// gap = begin - end of the previous body (begin - start for the first), tail = end of range - end of the last
// (exact 128-bit arithmetic in the driver; anything that does not fit 31 bits is logged as -2147483647).
//
//   --out FILE --tier quick|thorough --seed S
#include <dispenso/parallel_for.h>
#include <dispenso/platform.h>
#include <dispenso/util.h>

#include <algorithm>
#include <atomic>
#include <cstdio>
#include <limits>
#include <map>
#include <memory>
#include <string>
#include <vector>

#include "../ctl/drv_common.h"

static FILE* gOut;
static long long gRecords = 0;

static uint64_t rngState;
static uint64_t rnd() {
  rngState ^= rngState << 13;
  rngState ^= rngState >> 7;
  rngState ^= rngState << 17;
  return rngState;
}

static void small(long long items, long long chunks, unsigned g) {
  if (g == 1) {
    auto a = dispenso::detail::staticChunkSize((ssize_t)items, (ssize_t)chunks);
    fprintf(gOut, "{\"e\":\"scs\",\"api\":\"detail\",\"items\":%lld,\"chunks\":%lld,\"g\":1,\"ceil\":%lld,\"trans\":%lld}\n",
            items, chunks, (long long)a.ceilChunkSize, (long long)a.transitionTaskIndex);
    auto b = dispenso::staticChunkSize((ssize_t)items, (ssize_t)chunks);
    fprintf(gOut, "{\"e\":\"scs\",\"api\":\"public\",\"items\":%lld,\"chunks\":%lld,\"g\":1,\"ceil\":%lld,\"trans\":%lld}\n",
            items, chunks, (long long)b.ceilChunkSize, (long long)b.transitionTaskIndex);
    gRecords += 2;
  }
  auto c = dispenso::detail::staticChunkSizeGranular((ssize_t)items, (ssize_t)chunks, g);
  fprintf(gOut, "{\"e\":\"scs\",\"api\":\"granular\",\"items\":%lld,\"chunks\":%lld,\"g\":%u,\"ceil\":%lld,\"trans\":%lld}\n",
          items, chunks, g, (long long)c.ceilChunkSize, (long long)c.transitionTaskIndex);
  ++gRecords;
}

// TLC integers are 32-bit; a value that does not fit is logged as -2147483647 (never a legal result)
static long long clampLog(long long v) {
  return (v > 2147483647ll || v < -2147483647ll) ? -2147483647ll : v;
}

static void big(long long q, long long m, long long chunks, unsigned g) {
  long long items = (q * chunks + m) * (long long)g;
  dispenso::detail::StaticChunking r;
  const char* api;
  if (g == 1 && (rnd() & 1)) {
    r = dispenso::staticChunkSize((ssize_t)items, (ssize_t)chunks);
    api = "public";
  } else {
    r = dispenso::detail::staticChunkSizeGranular((ssize_t)items, (ssize_t)chunks, g);
    api = "granular";
  }
  long long dq = (long long)r.ceilChunkSize / (long long)g - q;
  long long cr = (long long)r.ceilChunkSize % (long long)g;
  fprintf(gOut, "{\"e\":\"big\",\"api\":\"%s\",\"q\":%lld,\"m\":%lld,\"chunks\":%lld,\"g\":%u,\"dq\":%lld,\"cr\":%lld,\"trans\":%lld}\n",
          api, q, m, chunks, g, clampLog(dq), clampLog(cr), clampLog((long long)r.transitionTaskIndex));
  ++gRecords;
}

// ------------------------------------------------------------------ boundary-biased inputs
typedef __int128 i128;
static const i128 kSsizeMax = (i128)std::numeric_limits<ssize_t>::max();

// 63-bit non-negative value as three 21-bit limbs; anything else as [-1,-1,-1]
static std::string limbs(i128 v) {
  char buf[96];
  if (v < 0 || v > kSsizeMax)
    return "[-1,-1,-1]";
  unsigned long long u = (unsigned long long)v;
  snprintf(buf, sizeof buf, "[%llu,%llu,%llu]", u >> 42, (u >> 21) & 0x1fffffull, u & 0x1fffffull);
  return buf;
}
static long long clampLog128(i128 v) {
  return (v > 2147483647ll || v < -2147483647ll) ? -2147483647ll : (long long)v;
}

static const int kBoundaryBits[] = {7, 8, 15, 16, 24, 31, 32, 33, 48, 53, 62, 63};

// distances from the boundary, as a function of the chunk count
static std::vector<i128> distances(i128 c) {
  std::vector<i128> d = {0, 1, 2, -1, -2, c - 1, c, c + 1, -(c - 1), -c, -(c + 1), -2 * c, -(c / 2), c / 2};
  std::sort(d.begin(), d.end());
  d.erase(std::unique(d.begin(), d.end()), d.end());
  return d;
}

// one call with `units` granularity units (items = units * g); api: 0 detail 1 public 2 granular
static bool wide(int api, int k, i128 dist, i128 units, i128 chunks, i128 g) {
  if (units < 0 || chunks < 1 || g < 1)
    return false;
  i128 items = units * g;
  // the documented precondition: nothing overflows ssize_t
  i128 ceilU = (units + chunks - 1) / chunks;
  if (items > kSsizeMax || chunks > kSsizeMax || units + chunks - 1 > kSsizeMax || ceilU * g > kSsizeMax ||
      ceilU * chunks > kSsizeMax)
    return false;
  if (api != 2 && g != 1)
    return false;
  i128 q = units / chunks, m = units % chunks;
  dispenso::detail::StaticChunking r;
  const char* name;
  if (api == 0) {
    r = dispenso::detail::staticChunkSize((ssize_t)items, (ssize_t)chunks);
    name = "detail";
  } else if (api == 1) {
    r = dispenso::staticChunkSize((ssize_t)items, (ssize_t)chunks);
    name = "public";
  } else {
    r = dispenso::detail::staticChunkSizeGranular((ssize_t)items, (ssize_t)chunks, (uint32_t)g);
    name = "granular";
  }
  // floor division / non-negative remainder also for a (wrong) negative result
  i128 c = (i128)r.ceilChunkSize;
  i128 cq = c / g, cr = c % g;
  if (cr < 0) {
    cr += g;
    --cq;
  }
  fprintf(gOut,
          "{\"e\":\"wide\",\"api\":\"%s\",\"k\":%d,\"d\":%lld,\"g\":%s,\"items\":%s,\"q\":%s,\"m\":%s,\"chunks\":%s,"
          "\"dq\":%lld,\"cr\":%lld,\"trans\":%s}\n",
          name, k, clampLog128(dist), limbs(g).c_str(), limbs(items).c_str(), limbs(q).c_str(), limbs(m).c_str(),
          limbs(chunks).c_str(), clampLog128(cq - q), clampLog128(cr), limbs((i128)r.transitionTaskIndex).c_str());
  ++gRecords;
  return true;
}

static void boundaries(bool thorough) {
  const i128 one = 1;
  // chunk counts: small ones (thread counts), and the width boundaries themselves
  std::vector<i128> core = {1, 2, 3, 4, 7, 8, 16, 17, 32, 64, 255, 256, 65536, (one << 31) - 1, one << 31,
                            (one << 32) - 1, one << 32};
  std::vector<i128> more = {5, 6, 9, 12, 15, 31, 33, 40, 63, 65, 100, 127, 128, 129, 257, 1000, 65535, 65537,
                            (one << 31) + 1, (one << 32) + 1, (one << 33) - 1, (one << 48), (one << 62) - 1};
  std::vector<i128> gs = {2, 3, 4, 5, 7, 8, 16, 64, 255, 256, 65535, 65536, (one << 31) - 1, one << 31,
                          (one << 32) - 1};
  std::vector<i128> cs = core;
  if (thorough)
    cs.insert(cs.end(), more.begin(), more.end());
  else
    for (int j = 0; j < 6; ++j)
      cs.push_back(more[rnd() % more.size()]);
  for (i128 c : cs)
    for (int k : kBoundaryBits)
      for (i128 d : distances(c)) {
        i128 t = (one << k) + d;
        // g = 1: the public function always, the detail function half of the time
        wide(1, k, d, t, c, 1);
        if (thorough || (rnd() & 1))
          wide(0, k, d, t, c, 1);
        // granular: items next to the boundary (t rounded down to a multiple of g), and items / g
        // next to the boundary
        int ng = thorough ? 4 : 1;
        for (int j = 0; j < ng; ++j) {
          i128 g = gs[rnd() % gs.size()];
          wide(2, k, d, t / g, c, g);
          i128 g2 = gs[rnd() % gs.size()];
          wide(2, k, d, t, c, g2);
        }
      }
}

// ------------------------------------------------------------------ static parallel_for over huge ranges
struct Pools {
  std::map<int, std::unique_ptr<dispenso::ThreadPool>> m;
  dispenso::ThreadPool& get(int n) {
    auto it = m.find(n);
    if (it == m.end())
      it = m.emplace(n, std::make_unique<dispenso::ThreadPool>((size_t)n)).first;
    return *it->second;
  }
};

struct Slots {
  std::atomic<size_t> n{0};
  std::vector<std::pair<i128, i128>> v;
};

// position of the range in the type: 0 starts at the minimum, 1 ends at the maximum, 2 starts at 0 /
// around the middle
template <class T>
static bool hugeCase(Pools& pools, int k, i128 dist, i128 units, uint32_t g, int pos, int N, uint32_t mt,
                     bool wait, int api) {
  using L = std::numeric_limits<T>;
  const i128 lo = (i128)L::min(), hi = (i128)L::max();
  i128 nt = std::min<i128>((i128)N + 1, (i128)mt);
  i128 size = units * (i128)g;
  // the documented limits: the range fits the type and its size fits int64_t (ChunkedRange::size_type)
  if (units < 4 * nt || size > hi - lo || size + nt - 1 > kSsizeMax)
    return false;
  i128 S = pos == 0 ? lo : pos == 1 ? hi - size : (L::is_signed ? -(size / 2) : (hi - size) / 2);
  if (S < lo || S + size > hi)
    return false;
  i128 q = units / nt, m = units % nt;
  auto sl = std::make_shared<Slots>();
  sl->v.resize(256);
  auto body = [sl](T b, T e) {
    size_t idx = sl->n.fetch_add(1, std::memory_order_relaxed);
    if (idx < sl->v.size())
      sl->v[idx] = std::make_pair((i128)b, (i128)e);
  };
  dispenso::ParForOptions opt;
  opt.defaultChunking = dispenso::ParForChunking::kStatic;
  opt.maxThreads = mt;
  opt.wait = wait;
  opt.granularity = g;
  {
    dispenso::TaskSet ts(pools.get(N));
    if (api == 0)
      dispenso::parallel_for(ts, (T)S, (T)(S + size), body, opt);
    else
      dispenso::parallel_for(ts, dispenso::makeChunkedRange((T)S, (T)(S + size), dispenso::ParForChunking::kStatic),
                             body, opt);
    ts.wait();
  }
  size_t n = std::min(sl->n.load(), sl->v.size());
  std::vector<std::pair<i128, i128>> b(sl->v.begin(), sl->v.begin() + (long)n);
  std::sort(b.begin(), b.end());
  std::string s;
  char buf[320];
  snprintf(buf, sizeof buf,
           "{\"e\":\"pfw\",\"w\":%d,\"sg\":%d,\"k\":%d,\"d\":%lld,\"g\":%u,\"N\":%d,\"mt\":%lld,\"wait\":%d,\"pos\":%d,"
           "\"api\":%d,\"size\":%s,\"q\":%s,\"m\":%lld,\"nb\":%zu,\"b\":[",
           (int)sizeof(T) * 8, L::is_signed ? 1 : 0, k, clampLog128(dist), g, N,
           (long long)std::min<uint32_t>(mt, 1000000u), wait ? 1 : 0, pos, api, limbs(size).c_str(), limbs(q).c_str(),
           (long long)m, sl->n.load());
  s = buf;
  for (size_t i = 0; i < n; ++i) {
    i128 off = b[i].first - S, len = b[i].second - b[i].first;
    i128 oq = off / g, orem = off % g, lq = len / g, lrem = len % g;
    i128 gap = b[i].first - (i ? b[i - 1].second : S);
    snprintf(buf, sizeof buf, "%s[%lld,%lld,%lld,%lld,%lld]", i ? "," : "", clampLog128(oq - (i128)i * q),
             clampLog128(orem), clampLog128(lq - q), clampLog128(lrem), clampLog128(gap));
    s += buf;
  }
  snprintf(buf, sizeof buf, "],\"tail\":%lld}\n", n ? clampLog128(S + size - b[n - 1].second) : -2147483647ll);
  s += buf;
  fputs(s.c_str(), gOut);
  ++gRecords;
  return true;
}

template <class T>
static void hugeRanges(Pools& pools, bool thorough) {
  const i128 one = 1;
  const int bits = (int)sizeof(T) * 8;
  for (int k : {15, 16, 31, 32, 33, 48, 62, 63}) {
    if (k > bits)
      continue;
    std::vector<int> Ns = {1, 3, 15};
    static const int moreN[] = {2, 4, 7, 8, 16, 31};
    Ns.push_back(moreN[rnd() % 6]);
    if (thorough)
      Ns.insert(Ns.end(), moreN, moreN + 6);
    for (int N : Ns) {
      uint32_t mt = (rnd() % 4 == 0 && N > 2) ? (uint32_t)(2 + rnd() % (unsigned)(N - 1)) : 0x7fffffffu;
      i128 nt = std::min<i128>((i128)N + 1, (i128)mt);
      for (i128 d : distances(nt)) {
        uint32_t g = (rnd() % 3 == 0) ? (uint32_t)(2 + rnd() % 7) : 1u;
        i128 t = (one << k) + d;
        int pos = (int)(rnd() % 3);
        bool wait = rnd() % 3 != 0;
        int api = (int)(rnd() % 2);
        // size next to the boundary; with g > 1 also size / g next to the boundary
        if (!hugeCase<T>(pools, k, d, t / g, g, pos, N, mt, wait, api))
          hugeCase<T>(pools, k, d, t / g, g, 2, N, mt, wait, api);
        if (g > 1 && !hugeCase<T>(pools, k, d, t, g, pos, N, mt, wait, api))
          hugeCase<T>(pools, k, d, t, g, 2, N, mt, wait, api);
      }
    }
  }
}

int main(int argc, char** argv) {
  drv::Args args(argc, argv);
  bool thorough = args.str("tier", "quick") == "thorough";
  rngState = (uint64_t)args.num("seed", 1) * 0x9E3779B97F4A7C15ull + 99;
  gOut = fopen(args.str("out").c_str(), "w");
  if (!gOut)
    return 2;
  fprintf(gOut, "{\"e\":\"hdr\",\"suite\":\"chunking\",\"seed\":%lld}\n", (long long)args.num("seed", 1));
  // the grid of the model: items 0..400 (multiples of g), chunks 1..40, g 1..8
  for (unsigned g = 1; g <= 8; ++g)
    for (long long chunks = 1; chunks <= 40; ++chunks)
      for (long long items = 0; items <= 400; items += g) {
        if (!thorough && rnd() % 4 != 0 && items > 3 * (long long)g && chunks > 2)
          continue;
        small(items, chunks, g);
      }
  // values around 2^31 and up to 2^62
  int nbig = thorough ? 60000 : 2500;
  for (int k = 0; k < nbig; ++k) {
    unsigned g = 1 + (unsigned)(rnd() % 8);
    long long chunks;
    switch (rnd() % 4) {
      case 0: chunks = 1 + (long long)(rnd() % 64); break;
      case 1: chunks = 2147483647ll - (long long)(rnd() % 1000); break;
      case 2: chunks = (1ll << 30) + (long long)(rnd() % 2001) - 1000; break;
      default: chunks = 1 + (long long)(rnd() % 2147483647ll); break;
    }
    long long qmax = ((1ll << 62) / (long long)g) / chunks - 1;
    if (qmax > 2147483000ll)
      qmax = 2147483000ll;
    if (qmax < 0)
      continue;
    long long q = rnd() % 3 == 0 ? qmax - (long long)(rnd() % (qmax < 1000 ? qmax + 1 : 1000)) : (long long)(rnd() % (qmax + 1));
    long long m;
    switch (rnd() % 4) {
      case 0: m = 0; break;
      case 1: m = chunks - 1; break;
      case 2: m = chunks > 1 ? 1 : 0; break;
      default: m = (long long)(rnd() % chunks); break;
    }
    big(q, m, chunks, g);
  }
  // values next to every width boundary, and the real static parallel_for over ranges of such sizes
  boundaries(thorough);
  {
    Pools pools;
    hugeRanges<uint32_t>(pools, thorough);
    hugeRanges<int32_t>(pools, thorough);
    hugeRanges<uint64_t>(pools, thorough);
    hugeRanges<int64_t>(pools, thorough);
    hugeRanges<uint16_t>(pools, thorough);
    hugeRanges<int16_t>(pools, thorough);
  }
  fclose(gOut);
  printf("DRIVER executions=%lld steps=%lld completed=%lld deadlocks=0 diverged=0 stuck=0\n", gRecords, gRecords, gRecords);
  return 0;
}
