// Driver for the static chunking helpers (spec/parfor/Chunking.tla, ChunkingTrace.tla) - E5 records.
//
// Evaluates the compiled dispenso::detail::staticChunkSize / staticChunkSizeGranular and the public
// dispenso::staticChunkSize (dispenso/util.h) and writes one ndjson observation record per call:
//   {"e":"scs","api":"detail|public|granular","items":I,"chunks":C,"g":G,"ceil":..,"trans":..}
//   {"e":"big","api":..,"q":Q,"m":M,"chunks":C,"g":G,"dq":..,"cr":..,"trans":..}
// "big" records are calls with items = (Q*C + M)*G up to 2^62; TLC integers are 32-bit, so the result
// is logged relative to the quotient: dq = ceil/G - Q, cr = ceil % G.  C++ only records; the verdicts
// are TLC's (ChunkingTrace.tla).
//
//   --out FILE --tier quick|thorough --seed S
#include <dispenso/platform.h>
#include <dispenso/util.h>

#include <cstdio>
#include <string>

#include "../ctl/drv_common.h"

static FILE* gOut;
static long long gRecords = 0;

static uint64_t rngState;
static uint64_t rnd() {
  rngState ^= rngState << 13;
  rngState ^= rngState >> 7;
  rngState ^= rngState << 17;
  return rngState;
}

static void small(long long items, long long chunks, unsigned g) {
  if (g == 1) {
    auto a = dispenso::detail::staticChunkSize((ssize_t)items, (ssize_t)chunks);
    fprintf(gOut, "{\"e\":\"scs\",\"api\":\"detail\",\"items\":%lld,\"chunks\":%lld,\"g\":1,\"ceil\":%lld,\"trans\":%lld}\n",
            items, chunks, (long long)a.ceilChunkSize, (long long)a.transitionTaskIndex);
    auto b = dispenso::staticChunkSize((ssize_t)items, (ssize_t)chunks);
    fprintf(gOut, "{\"e\":\"scs\",\"api\":\"public\",\"items\":%lld,\"chunks\":%lld,\"g\":1,\"ceil\":%lld,\"trans\":%lld}\n",
            items, chunks, (long long)b.ceilChunkSize, (long long)b.transitionTaskIndex);
    gRecords += 2;
  }
  auto c = dispenso::detail::staticChunkSizeGranular((ssize_t)items, (ssize_t)chunks, g);
  fprintf(gOut, "{\"e\":\"scs\",\"api\":\"granular\",\"items\":%lld,\"chunks\":%lld,\"g\":%u,\"ceil\":%lld,\"trans\":%lld}\n",
          items, chunks, g, (long long)c.ceilChunkSize, (long long)c.transitionTaskIndex);
  ++gRecords;
}

// TLC integers are 32-bit; a value that does not fit is logged as -2147483647 (never a legal result)
static long long clampLog(long long v) {
  return (v > 2147483647ll || v < -2147483647ll) ? -2147483647ll : v;
}

static void big(long long q, long long m, long long chunks, unsigned g) {
  long long items = (q * chunks + m) * (long long)g;
  dispenso::detail::StaticChunking r;
  const char* api;
  if (g == 1 && (rnd() & 1)) {
    r = dispenso::staticChunkSize((ssize_t)items, (ssize_t)chunks);
    api = "public";
  } else {
    r = dispenso::detail::staticChunkSizeGranular((ssize_t)items, (ssize_t)chunks, g);
    api = "granular";
  }
  long long dq = (long long)r.ceilChunkSize / (long long)g - q;
  long long cr = (long long)r.ceilChunkSize % (long long)g;
  fprintf(gOut, "{\"e\":\"big\",\"api\":\"%s\",\"q\":%lld,\"m\":%lld,\"chunks\":%lld,\"g\":%u,\"dq\":%lld,\"cr\":%lld,\"trans\":%lld}\n",
          api, q, m, chunks, g, clampLog(dq), clampLog(cr), clampLog((long long)r.transitionTaskIndex));
  ++gRecords;
}

int main(int argc, char** argv) {
  drv::Args args(argc, argv);
  bool thorough = args.str("tier", "quick") == "thorough";
  rngState = (uint64_t)args.num("seed", 1) * 0x9E3779B97F4A7C15ull + 99;
  gOut = fopen(args.str("out").c_str(), "w");
  if (!gOut)
    return 2;
  fprintf(gOut, "{\"e\":\"hdr\",\"suite\":\"chunking\",\"seed\":%lld}\n", (long long)args.num("seed", 1));
  // the grid of the model: items 0..400 (multiples of g), chunks 1..40, g 1..8
  for (unsigned g = 1; g <= 8; ++g)
    for (long long chunks = 1; chunks <= 40; ++chunks)
      for (long long items = 0; items <= 400; items += g) {
        if (!thorough && rnd() % 4 != 0 && items > 3 * (long long)g && chunks > 2)
          continue;
        small(items, chunks, g);
      }
  // values around 2^31 and up to 2^62
  int nbig = thorough ? 60000 : 2500;
  for (int k = 0; k < nbig; ++k) {
    unsigned g = 1 + (unsigned)(rnd() % 8);
    long long chunks;
    switch (rnd() % 4) {
      case 0: chunks = 1 + (long long)(rnd() % 64); break;
      case 1: chunks = 2147483647ll - (long long)(rnd() % 1000); break;
      case 2: chunks = (1ll << 30) + (long long)(rnd() % 2001) - 1000; break;
      default: chunks = 1 + (long long)(rnd() % 2147483647ll); break;
    }
    long long qmax = ((1ll << 62) / (long long)g) / chunks - 1;
    if (qmax > 2147483000ll)
      qmax = 2147483000ll;
    if (qmax < 0)
      continue;
    long long q = rnd() % 3 == 0 ? qmax - (long long)(rnd() % (qmax < 1000 ? qmax + 1 : 1000)) : (long long)(rnd() % (qmax + 1));
    long long m;
    switch (rnd() % 4) {
      case 0: m = 0; break;
      case 1: m = chunks - 1; break;
      case 2: m = chunks > 1 ? 1 : 0; break;
      default: m = (long long)(rnd() % chunks); break;
    }
    big(q, m, chunks, g);
  }
  fclose(gOut);
  printf("DRIVER executions=%lld steps=%lld completed=%lld deadlocks=0 diverged=0 stuck=0\n", gRecords, gRecords, gRecords);
  return 0;
}
