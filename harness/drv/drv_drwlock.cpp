// Driver for dispenso::detail::DistributedRWLockImpl<N> (spec/drwlock/DRWLock.tla).
//   --out FILE            trace (ndjson)
//   --n 1|2|4             number of sub-locks N
//   --prog "t1:lock,unlock;t2:try_lock,unlock;t3:lock_shared.1,unlock_shared.1"   (op.slot)
//   --schedules FILE      replay each schedule of FILE (one JSON array per line)
//   --random N --seed S [--pct D]   N random controlled executions
//   --randprog            with --random: also draw a random program per execution
//   --spurious            the environment may return spuriously from futex waits
//   --calibrate           print CEPT=0|1 (does CompletionEventImpl::wait carry its own point?) and exit
//   --stress ROUNDS --seed S        E5: free-running rounds (real threads, real futex, inert hooks) on
//                         DistributedRWLockImpl<1|2|4> (explicit reader indices) and on the public
//                         DistributedRWLock<2> / DistributedRWLock<> (N = 16, slot = threadId());
//                         one observation record per batch of rounds (see rwlock_stress.h)
//
// The shared operations are called with an arbitrary index whose low bits select the slot
// (index = slot + N * 5), as DistributedRWLock does with threadId().  An operation whose
// precondition does not hold in the thread's current mode (e.g. "unlock" after a failed
// "try_lock") is skipped -- the specification skips it in the same way.  After every operation
// that leaves the thread holding the lock it passes through a critical section (points CsEnter /
// CsExit) that maintains the occupancy counters shown in the projection.
#include <dispenso/detail/distributed_rw_lock_impl.h>
#include <dispenso/distributed_rw_lock.h>

#include <unistd.h>

#include "../ctl/ctl.h"
#include "../ctl/drv_common.h"
#include "rwlock_stress.h"

using ctl::Json;

struct OpDesc {
  std::string op;
  int s = 0;
};
using Program = std::vector<std::pair<std::string, std::vector<OpDesc>>>;

static Program parseProg(const std::string& s) {
  Program p;
  for (auto& th : drv::split(s, ';')) {
    if (th.empty())
      continue;
    auto nm = drv::split(th, ':');
    std::vector<OpDesc> ops;
    for (auto& o : drv::split(nm.size() > 1 ? nm[1] : "", ',')) {
      if (o.empty())
        continue;
      auto parts = drv::split(o, '.');
      OpDesc d;
      d.op = parts[0];
      d.s = parts.size() > 1 ? atoi(parts[1].c_str()) : 0;
      ops.push_back(d);
    }
    p.emplace_back(nm[0], ops);
  }
  return p;
}

static int g_cept = 0;

static std::string resetLine(const Program& prog, int n, bool spurious, const std::string& tag) {
  Json j;
  j.beginObj();
  j.kv("e", std::string("Reset"));
  j.kv("n", n);
  j.kv("spur", spurious ? 1 : 0);
  j.kv("cept", g_cept);
  j.kv("tag", tag);
  j.key("prog").beginObj();
  for (auto& th : prog) {
    j.key(th.first.c_str()).beginArr();
    for (auto& o : th.second) {
      j.beginObj();
      j.kv("op", o.op);
      j.kv("s", o.s);
      j.endObj();
    }
    j.endArr();
  }
  j.endObj();
  j.endObj();
  return j.s;
}

// ------------------------------------------------------------------------------ random programs
static Program randomProgram(uint64_t& rng, int n) {
  auto rnd = [&](unsigned k) { return (unsigned)(ctl::splitmix(rng) % k); };
  Program p;
  int nth = 2 + (int)rnd(3);
  for (int t = 0; t < nth; ++t) {
    std::vector<OpDesc> ops;
    int nseg = 1 + (int)rnd(3);
    for (int k = 0; k < nseg; ++k) {
      unsigned c = rnd(8);
      if (c < 2) {
        ops.push_back({"lock", 0});
        ops.push_back({"unlock", 0});
      } else if (c < 4) {
        ops.push_back({"try_lock", 0});
        ops.push_back({"unlock", 0});
      } else {
        int s = (int)rnd((unsigned)n);
        ops.push_back({c < 6 ? "lock_shared" : "try_lock_shared", s});
        ops.push_back({"unlock_shared", s});
      }
    }
    p.emplace_back("t" + std::to_string(t + 1), ops);
  }
  return p;
}

// ------------------------------------------------------------------------------------ execution
enum Mode { N, R, W };

static bool applicable(const std::string& o, Mode m) {
  if (o == "lock" || o == "try_lock" || o == "lock_shared" || o == "try_lock_shared")
    return m == N;
  if (o == "unlock")
    return m == W;
  if (o == "unlock_shared")
    return m == R;
  fprintf(stderr, "ERROR drv_drwlock: unknown op %s\n", o.c_str());
  _exit(3);
}

struct Occupancy {
  std::atomic<int> inW{0}, inR{0};
};

template <class Lock>
static void runThread(Lock& lk, Occupancy& occ, const std::vector<OpDesc>& ops) {
  Mode m = N;
  for (auto& d : ops) {
    const std::string& o = d.op;
    if (!applicable(o, m))
      continue;
    size_t index = (size_t)d.s + Lock::kNumSlots * 5; // any index with these low bits
    if (o == "lock") {
      lk.lock();
      ctl::ret(1);
      m = W;
    } else if (o == "try_lock") {
      bool ok = lk.try_lock();
      ctl::ret(ok ? 1 : 0);
      m = ok ? W : N;
    } else if (o == "unlock") {
      lk.unlock();
      ctl::ret(1);
      m = N;
    } else if (o == "lock_shared") {
      lk.lock_shared(index);
      ctl::ret(1);
      m = R;
    } else if (o == "try_lock_shared") {
      bool ok = lk.try_lock_shared(index);
      ctl::ret(ok ? 1 : 0);
      m = ok ? R : N;
    } else if (o == "unlock_shared") {
      lk.unlock_shared(index);
      ctl::ret(1);
      m = N;
    }
    if (m != N) {
      std::atomic<int>& c = m == W ? occ.inW : occ.inR;
      ctl::point("CsEnter");
      c.fetch_add(1, std::memory_order_relaxed);
      ctl::point("CsExit");
      c.fetch_sub(1, std::memory_order_relaxed);
    }
  }
}

template <class Lock>
static ctl::RunResult execute(
    const Program& prog,
    bool spurious,
    const ctl::RunOptions& opts,
    ctl::Trace& tr,
    const std::string& tag) {
  constexpr int n = (int)Lock::kNumSlots;
  Lock* lk = new Lock();
  Occupancy* occ = new Occupancy();
  tr.line(resetLine(prog, n, spurious, tag));
  // heap-allocated: the logical threads of an execution that did not complete stay parked, so
  // neither the controller nor the lock may be destroyed then (the process exits right after)
  ctl::Controller& c = *new ctl::Controller(tr);
  c.setProjection([lk, occ](Json& j) {
    int words[n];
    for (int i = 0; i < n; ++i)
      words[i] = lk->slots_[i].lockWord().load();
    j.key("w").beginArr();
    for (int i = 0; i < n; ++i)
      j.num(words[i] < 0 ? 1 : 0);
    j.endArr();
    j.key("r").beginArr();
    for (int i = 0; i < n; ++i)
      j.num((long long)(words[i] & 0x7fffffff));
    j.endArr();
    j.kv("inW", occ->inW.load());
    j.kv("inR", occ->inR.load());
  });
  for (auto& th : prog) {
    const std::vector<OpDesc>* ops = &th.second;
    c.addThread(th.first, [lk, occ, ops]() { runThread(*lk, *occ, *ops); });
  }
  ctl::RunResult res = c.run(opts);
  if (!res.completed && !res.deadlock && !res.diverged && !res.stuck) {
    res.stuck = true; // step budget exhausted: some thread spins although everybody else is done
    tr.line("{\"e\":\"Deadlock\",\"why\":\"step budget exhausted\"}");
  }
  if (res.completed) {
    Json j;
    j.beginObj();
    j.kv("e", std::string("End"));
    int any = 0;
    for (int i = 0; i < n; ++i)
      any |= lk->slots_[i].lockWord().load();
    j.kv("word", any == 0 ? 0 : 1);
    j.endObj();
    tr.line(j.s);
    delete &c;
    delete lk;
    delete occ;
  }
  return res;
}

template <class Lock>
static int runAll(const drv::Args& a) {
  constexpr int n = (int)Lock::kNumSlots;
  ctl::Trace tr(a.str("out", "trace.ndjson"));
  drv::Totals tot;
  bool spurious = a.has("spurious");
  Program prog = parseProg(a.str("prog", "t1:lock,unlock;t2:lock_shared.0,unlock_shared.0"));
  for (auto& th : prog)
    for (auto& o : th.second)
      if (o.s < 0 || o.s >= n) {
        fprintf(stderr, "ERROR drv_drwlock: slot %d out of range\n", o.s);
        _exit(3);
      }
  if (a.has("schedules")) {
    auto scheds = ctl::readSchedules(a.str("schedules"));
    size_t idx = 0;
    for (auto& s : scheds) {
      ctl::RunOptions o;
      o.mode = ctl::RunOptions::Replay;
      o.schedule = &s;
      o.allowSpurious = spurious;
      o.maxSteps = 20000;
      auto r = execute<Lock>(prog, spurious, o, tr, "sched" + std::to_string(idx++));
      tot.add(r);
      if (!r.completed)
        break; // threads may still be parked: this process cannot run another execution
    }
  } else {
    long long cnt = a.num("random", 100);
    uint64_t seed = (uint64_t)a.num("seed", 1);
    uint64_t prng = seed * 7919 + 17;
    for (long long i = 0; i < cnt; ++i) {
      ctl::RunOptions o;
      o.mode = ctl::RunOptions::Random;
      o.seed = seed * 1000003ULL + (uint64_t)i;
      o.pctDepth = (int)a.num("pct", 0);
      o.allowSpurious = spurious;
      o.maxSteps = 20000;
      Program p = a.has("randprog") ? randomProgram(prng, n) : prog;
      auto r = execute<Lock>(p, spurious, o, tr, "rand" + std::to_string(o.seed % 1000000007ULL));
      tot.add(r);
      if (!r.completed)
        break;
    }
  }
  tr.flush();
  tot.print();
  return 0;
}

// Does CompletionEventImpl::wait() stop at a point of its own before loading the status?  (It does
// once the hooks of the CompletionEvent component are merged; the specification models both.)
static int calibrate() {
  ctl::Trace tr("/dev/null");
  dispenso::detail::CompletionEventImpl ev(7);
  ctl::Controller c(tr);
  c.addThread("t1", [&ev]() { ev.wait(7); });
  ctl::RunOptions o;
  o.mode = ctl::RunOptions::Random;
  auto r = c.run(o);
  return r.steps > 1 ? 1 : 0;
}

// ------------------------------------------------------------------------------ E5 (free-running)
struct LockIf {
  virtual ~LockIf() {}
  virtual void lock() = 0;
  virtual bool try_lock() = 0;
  virtual void unlock() = 0;
  virtual void lock_shared(size_t i) = 0;
  virtual bool try_lock_shared(size_t i) = 0;
  virtual void unlock_shared(size_t i) = 0;
  virtual int residue() = 0;
};
// DistributedRWLockImpl<N>: the reader chooses the index (any thread-to-slot mapping)
template <size_t N>
struct ImplLock : LockIf {
  dispenso::detail::DistributedRWLockImpl<N> lk;
  void lock() override {
    lk.lock();
  }
  bool try_lock() override {
    return lk.try_lock();
  }
  void unlock() override {
    lk.unlock();
  }
  void lock_shared(size_t i) override {
    lk.lock_shared(i);
  }
  bool try_lock_shared(size_t i) override {
    return lk.try_lock_shared(i);
  }
  void unlock_shared(size_t i) override {
    lk.unlock_shared(i);
  }
  int residue() override {
    int any = 0;
    for (size_t i = 0; i < N; ++i)
      any |= lk.slots_[i].lockWord().load();
    return any;
  }
};
// the public class: the slot is threadId() % N
template <size_t N>
struct PublicLock : LockIf {
  dispenso::DistributedRWLock<N> lk;
  void lock() override {
    lk.lock();
  }
  bool try_lock() override {
    return lk.try_lock();
  }
  void unlock() override {
    lk.unlock();
  }
  void lock_shared(size_t) override {
    lk.lock_shared();
  }
  bool try_lock_shared(size_t) override {
    return lk.try_lock_shared();
  }
  void unlock_shared(size_t) override {
    lk.unlock_shared();
  }
  int residue() override {
    int any = 0;
    for (size_t i = 0; i < N; ++i)
      any |= lk.impl_.slots_[i].lockWord().load();
    return any;
  }
};

struct StressLock {
  static constexpr int kFlavours = 5;
  int fl;
  LockIf* p;
  explicit StressLock(int flavour) : fl(flavour) {
    switch (fl) {
      case 0:
        p = new ImplLock<1>();
        break;
      case 1:
        p = new ImplLock<2>();
        break;
      case 2:
        p = new ImplLock<4>();
        break;
      case 3:
        p = new PublicLock<2>();
        break;
      default:
        p = new PublicLock<16>();
    }
  }
  ~StressLock() {
    delete p;
  }
  const char* name() const {
    static const char* n[] = {"DistributedRWLockImpl<1>", "DistributedRWLockImpl<2>", "DistributedRWLockImpl<4>",
                              "DistributedRWLock<2>", "DistributedRWLock<16>"};
    return n[fl];
  }
  int slots() const {
    static const int n[] = {1, 2, 4, 2, 16};
    return n[fl];
  }
  bool upDown() const {
    return false; // no lock_upgrade / lock_downgrade in this interface
  }
  void lock() {
    p->lock();
  }
  bool try_lock() {
    return p->try_lock();
  }
  void unlock() {
    p->unlock();
  }
  void lock_shared(size_t i) {
    p->lock_shared(i);
  }
  bool try_lock_shared(size_t i) {
    return p->try_lock_shared(i);
  }
  void unlock_shared(size_t i) {
    p->unlock_shared(i);
  }
  void lock_upgrade() {
    _exit(3);
  }
  void lock_downgrade() {
    _exit(3);
  }
  int residue() {
    return p->residue();
  }
};

int main(int argc, char** argv) {
  drv::Args a(argc, argv);
  if (a.has("stress")) {
    int rc = stress::run<StressLock>(a);
    fflush(stdout);
    _exit(rc);
  }
  g_cept = calibrate();
  if (a.has("calibrate")) {
    printf("CEPT=%d\n", g_cept);
    fflush(stdout);
    _exit(0);
  }
  int n = (int)a.num("n", 2);
  int rc;
  if (n == 1)
    rc = runAll<dispenso::detail::DistributedRWLockImpl<1>>(a);
  else if (n == 2)
    rc = runAll<dispenso::detail::DistributedRWLockImpl<2>>(a);
  else if (n == 4)
    rc = runAll<dispenso::detail::DistributedRWLockImpl<4>>(a);
  else {
    fprintf(stderr, "ERROR drv_drwlock: unsupported n\n");
    return 3;
  }
  fflush(stdout);
  _exit(rc); // parked threads of an aborted execution must not block exit
}
