// Driver for dispenso::pipeline (spec/pipeline/Gate.tla, Pipeline.tla, PipelineTrace.tla).
//
// Runs REAL pipelines on the REAL ThreadPool under the controlled scheduler.  One execution = one pool
// (created and destroyed inside the controlled run) and a chain of pipelines on it (the later ones show
// that the pool is still usable).  Stage functors log (item, stage) begin/end notes INSIDE the bodies,
// with a schedule point between them, so an overlap in the log is a real overlap.  Item payloads are
// lifetime-counted (per item id) and own a heap cell (LeakSanitizer / AddressSanitizer see leaks and
// use-after-free in the sanitised build).  C++ only drives, records and projects; TLC judges.
//
//   --out FILE --progs "cfg|cfg@cfg..."  --random N --seed S [--pct D] [--maxsteps M] [--fix 0|1]
//   cfg = "n=2;lim=1,2,1;p=1;k=3;filt=1.2;thr=1.2,2.3;ops=1,0;raw=0;api=0"
//     n    number of gates (0 = one-stage pipeline);  lim = generator, gate 1..n (99 = kStageNoLimit)
//     filt (gate.item) pairs dropped by that (OpResult-returning) transform; thr (stage.item) pairs that throw
//     ops  per transform: 1 = returns OpResult<Item> (may filter), 0 = returns Item, 2 = returns const Item& to a
//          result buffer the functor owns and reuses for the next item (only as dispenso::stage(f, 1): the
//          serial slot is what protects the buffer; any other limit / raw=1 falls back to kind 0)
//     raw  1 = every stage is passed as a plain functor (=> serial), no dispenso::stage()
//     api  1 = call dispenso::pipeline() itself (no projection of the internals); 0 = the same four
//              statements written out here so that the gates' words can be projected after every step
#include <dispenso/pipeline.h>

#include <unistd.h>

#include <atomic>
#include <functional>
#include <set>

#include "../ctl/ctl.h"
#include "../ctl/drv_common.h"
#include "pool_proj.h"

using ctl::Json;
using dispenso::ssize_t;

// ------------------------------------------------------------------------------ configuration
struct Cfg {
  int n = 1, p = 1, k = 2, raw = 0, api = 0;
  std::vector<int> lim{1, 1};
  std::vector<int> ops;
  std::set<std::pair<int, int>> filt, thr;
  std::string text;
};

static std::vector<std::pair<int, int>> pairs(const std::string& s) {
  std::vector<std::pair<int, int>> out;
  for (auto& e : drv::split(s, ',')) {
    if (e.empty())
      continue;
    auto ab = drv::split(e, '.');
    out.emplace_back(atoi(ab[0].c_str()), ab.size() > 1 ? atoi(ab[1].c_str()) : 0);
  }
  return out;
}

static Cfg parseCfg(const std::string& s) {
  Cfg c;
  c.text = s;
  c.lim.clear();
  for (auto& kv : drv::split(s, ';')) {
    auto e = drv::split(kv, '=');
    if (e.size() < 2)
      continue;
    const std::string &k = e[0], &v = e[1];
    if (k == "n")
      c.n = atoi(v.c_str());
    else if (k == "p")
      c.p = atoi(v.c_str());
    else if (k == "k")
      c.k = atoi(v.c_str());
    else if (k == "raw")
      c.raw = atoi(v.c_str());
    else if (k == "api")
      c.api = atoi(v.c_str());
    else if (k == "lim") {
      for (auto& x : drv::split(v, ','))
        c.lim.push_back(atoi(x.c_str()));
    } else if (k == "ops") {
      for (auto& x : drv::split(v, ','))
        if (!x.empty())
          c.ops.push_back(atoi(x.c_str()));
    } else if (k == "filt") {
      for (auto& pr : pairs(v))
        c.filt.insert(pr);
    } else if (k == "thr") {
      for (auto& pr : pairs(v))
        c.thr.insert(pr);
    }
  }
  while ((int)c.lim.size() < c.n + 1)
    c.lim.push_back(1);
  while ((int)c.ops.size() < std::max(0, c.n - 1))
    c.ops.push_back(0);
  for (auto& f : c.filt)
    if (f.first >= 1 && f.first < c.n)
      c.ops[(size_t)f.first - 1] = 1;
  if (c.raw)
    for (auto& l : c.lim)
      l = 1;
  for (int g = 1; g < c.n; ++g)
    if (c.ops[(size_t)g - 1] == 2 && (c.raw || c.lim[(size_t)g] != 1))
      c.ops[(size_t)g - 1] = 0;
  return c;
}

static ssize_t stageLimit(int l) {
  return l >= 99 ? dispenso::kStageNoLimit : (ssize_t)l;
}

// ------------------------------------------------------------------------------ payload
static std::atomic<int> g_live[64];
static std::atomic<long long> g_payloadErrors{0};

struct Item {
  int id, tag;
  int* cell;
  Item(int i, int t) : id(i), tag(t), cell(new int(i)) {
    g_live[id & 63].fetch_add(1);
  }
  Item(const Item& o) : id(o.id), tag(o.tag), cell(new int(o.id)) {
    if (*o.cell != o.id)
      g_payloadErrors.fetch_add(1);
    g_live[id & 63].fetch_add(1);
  }
  Item(Item&& o) noexcept : id(o.id), tag(o.tag), cell(new int(o.id)) {
    if (*o.cell != o.id)
      g_payloadErrors.fetch_add(1);
    g_live[id & 63].fetch_add(1);
  }
  Item& operator=(const Item& o) {
    if (*o.cell != o.id)
      g_payloadErrors.fetch_add(1);
    g_live[id & 63].fetch_sub(1);
    id = o.id;
    tag = o.tag;
    *cell = id;
    g_live[id & 63].fetch_add(1);
    return *this;
  }
  ~Item() {
    if (*cell != id)
      g_payloadErrors.fetch_add(1);
    g_live[id & 63].fetch_sub(1);
    delete cell;
  }
};

struct PipeExc {
  int code;
};

// ------------------------------------------------------------------------------ world
struct World {
  dispenso::ThreadPool* pool = nullptr;
  const Cfg* cfg = nullptr;
  std::atomic<int> next{0};
  std::atomic<int> returned{0}; // pipelines of the chain that have returned to the driver
  // registered internals of the running pipeline (projection)
  dispenso::ConcurrentTaskSet* tasks = nullptr;
  std::vector<std::function<void(Json&)>> gates;
  std::function<long long()> genLeft;
};

static bool throwsAt(const World* w, int s, int it) {
  return w->cfg->thr.count({s, it}) != 0;
}

// generator: claims the next item id (several instances share the functor)
struct GenFn {
  World* w;
  dispenso::OpResult<Item> operator()() {
    ctl::note("gbegin", 0, 0);
    ctl::point("DrGen");
    int it = w->next.load() + 1;
    if (it > w->cfg->k) {
      ctl::note("gend", 0, 0);
      return {};
    }
    w->next.store(it);
    if (throwsAt(w, 0, it)) {
      ctl::note("gthrow", it, 0);
      throw PipeExc{it};
    }
    ctl::note("gen", it, 0);
    return Item(it, 0);
  }
};

struct SingleFn {
  World* w;
  bool operator()() {
    ctl::note("gbegin", 0, 0);
    ctl::point("DrGen");
    int it = w->next.load() + 1;
    if (it > w->cfg->k) {
      ctl::note("gend", 0, 0);
      return false;
    }
    w->next.store(it);
    if (throwsAt(w, 0, it)) {
      ctl::note("gthrow", it, 0);
      throw PipeExc{it};
    }
    ctl::note("gen", it, 0);
    return true;
  }
};

static void bodyIn(World* w, int g, const Item& in) {
  if (*in.cell != in.id)
    g_payloadErrors.fetch_add(1);
  ctl::note("begin", in.id, g * 10 + in.tag);
  ctl::point("DrBody");
  if (throwsAt(w, g, in.id)) {
    ctl::note("throw", in.id, g);
    throw PipeExc{g * 10 + in.id};
  }
  ctl::note("end", in.id, g);
}

struct PlainFn {
  World* w;
  int g;
  Item operator()(Item in) {
    bodyIn(w, g, in);
    return Item(in.id, g);
  }
};
struct OpFn {
  World* w;
  int g;
  dispenso::OpResult<Item> operator()(Item in) {
    bodyIn(w, g, in);
    if (w->cfg->filt.count({g, in.id}))
      return {};
    return Item(in.id, g);
  }
};
// A transform that hands out a REFERENCE to a result buffer it owns and overwrites for the next item.  As
// dispenso::stage(RefFn, 1) this is a correct stage: at most one invocation at a time, and the stage wrapper
// returns by value, i.e. the result is copied while the serial slot is still held.  The item identity travels
// in the buffer, so the next stage logs the identity it really RECEIVED: a result that is read only after the
// slot was released (the next queued item already ran and overwrote the buffer) shows up in the trace as
// one item delivered twice and another one lost (AtMostOnce / AllDelivered).
struct RefFn {
  World* w;
  int g;
  Item buf{0, 0};
  RefFn(World* wi, int gi) : w(wi), g(gi) {}
  const Item& operator()(Item in) {
    bodyIn(w, g, in);
    buf = Item(in.id, g);
    return buf;
  }
};
struct SinkFn {
  World* w;
  int g;
  void operator()(Item in) {
    bodyIn(w, g, in);
  }
};

// ------------------------------------------------------------------------------ projection
template <class Impl>
static void addGate(World& w, Impl* g) {
  w.gates.push_back([g](Json& j) {
    j.beginArr();
    long long r = (long long)g->resources_.load();
    j.num(g->unlimited_ ? 99 : r);
    j.num((long long)g->outstanding_.load());
    j.num((long long)g->queue_.size_approx());
    j.endArr();
  });
}
namespace dd = dispenso::detail;
template <class C>
static void collect(World&, dd::Pipe<dd::StageClass::kSingleStage, C, dd::SinkPipe>&) {}
template <class C>
static void collect(World& w, dd::Pipe<dd::StageClass::kSink, C, dd::SinkPipe>& p) {
  addGate(w, p.tasks_.impl_.get());
}
template <class C, class N>
static void collect(World& w, dd::Pipe<dd::StageClass::kTransform, C, N>& p) {
  addGate(w, p.tasks_.impl_.get());
  collect(w, p.pipeNext_);
}
template <class C, class N>
static void collect(World& w, dd::Pipe<dd::StageClass::kOpTransform, C, N>& p) {
  addGate(w, p.tasks_.impl_.get());
  collect(w, p.pipeNext_);
}
template <class C, class N>
static void collect(World& w, dd::Pipe<dd::StageClass::kGenerator, C, N>& p) {
  auto* pp = &p;
  w.genLeft = [pp]() -> long long {
    return pp->completion_ ? (long long)pp->completion_->intrusiveStatus().load() : -1;
  };
  collect(w, p.pipeNext_);
}

struct Registration {
  World& w;
  template <class P>
  Registration(World& wi, dispenso::ConcurrentTaskSet& t, P& pipes) : w(wi) {
    w.tasks = &t;
    collect(w, pipes);
  }
  ~Registration() {
    w.tasks = nullptr;
    w.gates.clear();
    w.genLeft = nullptr;
  }
};

// The body of dispenso::pipeline(ThreadPool&, Stages&&...) (dispenso/pipeline.h), statement by statement,
// plus the registration of the internals for the projection (destroyed before pipes and tasks).
template <typename... Stages>
static void pipelineProjected(World& w, dispenso::ThreadPool& pool, Stages&&... sIn) {
  dispenso::ConcurrentTaskSet tasks(pool);
  auto pipes = dispenso::detail::makePipes(tasks, std::forward<Stages>(sIn)...);
  Registration reg(w, tasks, pipes);
  pipes.execute();
  pipes.wait();
}

template <typename... Stages>
static void runStages(World& w, Stages&&... s) {
  if (w.cfg->api)
    dispenso::pipeline(*w.pool, std::forward<Stages>(s)...);
  else
    pipelineProjected(w, *w.pool, std::forward<Stages>(s)...);
}

template <class F>
static F mk(std::true_type, F f, int) {
  return f;
}
template <class F>
static auto mk(std::false_type, F f, int lim) {
  return dispenso::stage(std::move(f), stageLimit(lim));
}

// picks the functor type of transform g by its kind (0 Item, 1 OpResult<Item>, 2 const Item& to a reused buffer;
// kind 2 exists only behind dispenso::stage(f, 1), see parseCfg)
template <class K>
static void transformOf(World& w, int g, int kind, std::true_type, K&& k) {
  if (kind == 1)
    k(OpFn{&w, g});
  else
    k(PlainFn{&w, g});
}
template <class K>
static void transformOf(World& w, int g, int kind, std::false_type, K&& k) {
  if (kind == 1)
    k(OpFn{&w, g});
  else if (kind == 2)
    k(RefFn(&w, g));
  else
    k(PlainFn{&w, g});
}
template <class Raw, class K>
static void tr1(World& w, int kind, K&& k) {
  transformOf(w, 1, kind, Raw(), std::forward<K>(k));
}
template <class Raw, class K>
static void tr2(World& w, int kind, K&& k) {
  transformOf(w, 2, kind, Raw(), std::forward<K>(k));
}

template <class Raw>
static void runShape(World& w) {
  const Cfg& c = *w.cfg;
  Raw r;
  World* pw = &w;
  auto L = [&c](int s) { return c.lim[(size_t)s]; };
  switch (c.n) {
    case 0:
      runStages(w, mk(r, SingleFn{pw}, L(0)));
      break;
    case 1:
      runStages(w, mk(r, GenFn{pw}, L(0)), mk(r, SinkFn{pw, 1}, L(1)));
      break;
    case 2:
      tr1<Raw>(w, c.ops[0], [&](auto f1) { runStages(w, mk(r, GenFn{pw}, L(0)), mk(r, std::move(f1), L(1)), mk(r, SinkFn{pw, 2}, L(2))); });
      break;
    default:
      tr1<Raw>(w, c.ops[0], [&](auto f1) {
        tr2<Raw>(w, c.ops[1], [&](auto f2) {
          runStages(w, mk(r, GenFn{pw}, L(0)), mk(r, std::move(f1), L(1)), mk(r, std::move(f2), L(2)), mk(r, SinkFn{pw, 3}, L(3)));
        });
      });
      break;
  }
}

// ------------------------------------------------------------------------------ trace lines
static std::string resetLine(const Cfg& c, const std::string& tag, int fix) {
  Json j;
  j.beginObj();
  j.kv("e", std::string("Reset"));
  j.kv("tag", tag);
  j.kv("n", c.n);
  j.arr("lim", c.lim.begin(), c.lim.end());
  j.kv("p", c.p);
  j.kv("k", c.k);
  j.key("filt").beginArr();
  for (auto& f : c.filt) {
    j.beginArr();
    j.num(f.first);
    j.num(f.second);
    j.endArr();
  }
  j.endArr();
  j.key("thr").beginArr();
  for (auto& f : c.thr) {
    j.beginArr();
    j.num(f.first);
    j.num(f.second);
    j.endArr();
  }
  j.endArr();
  j.kv("maxd", dispenso::detail::kMaxInlineDepth);
  j.kv("fix", fix);
  j.kv("api", c.api);
  j.kv("cfg", c.text);
  j.endObj();
  return j.s;
}

static bool siteFilter(const char* s) {
  // the task set's own schedule points (Ts*) belong to C02/C04/C05: at pipeline level packageTask,
  // the cancellation check and the exception slot are atomic steps (spec/pipeline/Pipeline.tla)
  if (s[0] == 'T' && s[1] == 's')
    return false;
  return poolproj::siteFilter(s) || (s[0] == 'P' && s[1] == 'l');
}

static ctl::RunResult execute(const std::vector<Cfg>& chain, ctl::RunOptions opts, ctl::Trace& tr,
                              const std::string& tag, int fix, bool* teardownOnly) {
  World* w = new World();
  w->cfg = &chain[0];
  for (auto& l : g_live)
    l.store(0);
  tr.line(resetLine(chain[0], tag, fix));
  ctl::Controller c(tr);
  ctl::setSiteFilter(siteFilter);
  c.setProjection([w](Json& j) {
    if (w->tasks) {
      j.kv("alive", 1);
      j.kv("otc", (long long)w->tasks->outstandingTaskCount_.load());
      j.kv("can", w->tasks->canceled_.load() ? 1 : 0);
      j.kv("exc", w->tasks->guardException_.load() != dispenso::TaskSetBase::kUnset ? 1 : 0);
      j.kv("gl", w->genLeft ? w->genLeft() : -1);
      j.key("g").beginArr();
      for (auto& g : w->gates)
        g(j);
      j.endArr();
    } else {
      j.kv("alive", 0);
    }
  });
  const std::vector<Cfg>* ch = &chain;
  ctl::Trace* ptr = &tr;
  c.addThread("main", [w, ch, ptr, tag, fix]() {
    ctl::point("DrNew");
    w->pool = new dispenso::ThreadPool((size_t)(*ch)[0].p);
    for (size_t i = 0; i < ch->size(); ++i) {
      ctl::point("DrOp");
      w->cfg = &(*ch)[i];
      w->next.store(0);
      if (i > 0)
        ptr->line(resetLine((*ch)[i], tag + "+" + std::to_string(i), fix));
      int code = -1;
      try {
        if (w->cfg->raw)
          runShape<std::true_type>(*w);
        else
          runShape<std::false_type>(*w);
      } catch (const PipeExc& e) {
        code = e.code;
      } catch (...) {
        code = 999;
      }
      ctl::point("DrRet");
      // live payload objects after pipeline() returned / rethrew: number of item ids, and of objects
      int ids = 0, objs = 0;
      for (auto& l : g_live) {
        int v = l.load();
        ids += v != 0;
        objs += v;
      }
      ctl::note("ret", code, ids);
      w->returned.fetch_add(1);
      ctl::note("live", objs, (long long)g_payloadErrors.load());
    }
    ctl::point("DrDel");
    delete w->pool;
    w->pool = nullptr;
    ctl::point("DrEnd");
  });
  ctl::RunResult res = c.run(opts);
  // an incomplete run in which every pipeline had already returned stopped inside ~ThreadPool (C09's business)
  *teardownOnly = !res.completed && w->returned.load() == (int)chain.size();
  if (res.completed)
    delete w;
  return res;
}

int main(int argc, char** argv) {
  drv::Args a(argc, argv);
  ctl::Trace tr(a.str("out", "trace.ndjson"));
  drv::Totals tot;
  std::vector<std::vector<Cfg>> progs;
  for (auto& ps : drv::split(a.str("progs", "n=1;lim=1,1;p=1;k=2"), '@')) {
    std::vector<Cfg> chain;
    for (auto& cs : drv::split(ps, '|'))
      if (!cs.empty())
        chain.push_back(parseCfg(cs));
    if (!chain.empty())
      progs.push_back(chain);
  }
  long long n = a.num("random", 5);
  uint64_t seed = (uint64_t)a.num("seed", 1);
  int fix = (int)a.num("fix", 1);
  bool stop = false;
  // executions are numbered e = 0 .. n*|progs|-1 (round robin over the programs); --from resumes after an
  // execution that could not be unwound (one incomplete execution ends the process)
  long long total = n * (long long)progs.size();
  long long e = a.num("from", 0);
  if (a.has("count"))
    total = std::min(total, e + a.num("count", 1));
  for (; e < total && !stop; ++e) {
    size_t pi = (size_t)(e % (long long)progs.size());
    long long i = e / (long long)progs.size();
    ctl::RunOptions o;
    o.mode = ctl::RunOptions::Random;
    o.seed = seed * 1000003ULL + (uint64_t)i * 7919ULL + pi;
    int pct = (int)a.num("pct", -1);
    o.pctDepth = pct >= 0 ? pct : (i % 3 == 2 ? 3 : 0);
    o.allowTimeout = !a.has("notimeout");
    o.maxSteps = (size_t)a.num("maxsteps", 30000);
    bool teardownOnly = false;
    auto r = execute(progs[pi], o, tr, "p" + std::to_string(pi) + "s" + std::to_string(o.seed), fix, &teardownOnly);
    if (teardownOnly && r.deadlock) {
      r.deadlock = false;
      r.completed = true; // the pipelines completed; the trace keeps the Deadlock line
      printf("TEARDOWN_INCOMPLETE exec=%lld cfg=%s\n", e, progs[pi][0].text.c_str());
      tot.add(r);
      stop = true;
      ++e;
      break;
    }
    tot.add(r);
    if (!r.completed) {
      printf("INCOMPLETE exec=%lld cfg=%s seed=%llu deadlock=%d steps=%zu %s\n", e, progs[pi][0].text.c_str(),
             (unsigned long long)o.seed, (int)r.deadlock, r.steps, r.detail.c_str());
      stop = true;
      ++e;
      break;
    }
  }
  printf("NEXT %lld OF %lld\n", e, total);
  tr.flush();
  tot.print();
  fflush(stdout);
  if (stop)
    _exit(0);
  return 0; // normal exit: LeakSanitizer runs in the sanitised build
}
