// Driver for dispenso::MpmcRingBuffer (spec/mpmc/Mpmc.tla).
//   --out FILE            trace (ndjson)
//   --cap 2|3|4           ring capacity (3 = exact, non power of two)
//   --prog "p1:push1,emplace2;p2:batch3.4;c1:pop,popinto;c2:popr,size"
//   --schedules FILE      replay each schedule of FILE (one JSON array per line)
//   --random N --seed S [--pct D]   N random controlled executions
//   --randprog            with --random: also draw a random program per execution
#include <dispenso/mpmc_ring_buffer.h>

#include <unistd.h>

#include "../ctl/ctl.h"
#include "../ctl/drv_common.h"
#include "../ctl/tracked.h"

using ctl::Json;
using ctl::Tracked;

struct OpDesc {
  std::string op;
  int v = 0;
  std::vector<int> vs;
};
using Program = std::vector<std::pair<std::string, std::vector<OpDesc>>>;

static Program parseProg(const std::string& s) {
  Program p;
  for (auto& th : drv::split(s, ';')) {
    if (th.empty())
      continue;
    auto nm = drv::split(th, ':');
    std::vector<OpDesc> ops;
    for (auto& o : drv::split(nm.size() > 1 ? nm[1] : "", ',')) {
      if (o.empty())
        continue;
      OpDesc d;
      size_t i = 0;
      while (i < o.size() && !isdigit((unsigned char)o[i]))
        ++i;
      d.op = o.substr(0, i);
      if (d.op == "batch") {
        for (auto& x : drv::split(o.substr(i), '.'))
          d.vs.push_back(atoi(x.c_str()));
      } else if (i < o.size())
        d.v = atoi(o.c_str() + i);
      ops.push_back(d);
    }
    p.emplace_back(nm[0], ops);
  }
  return p;
}

static std::string resetLine(const Program& prog, int cap, const std::string& tag) {
  Json j;
  j.beginObj();
  j.kv("e", std::string("Reset"));
  j.kv("cap", cap);
  j.kv("tag", tag);
  j.key("prog").beginObj();
  for (auto& th : prog) {
    j.key(th.first.c_str()).beginArr();
    for (auto& o : th.second) {
      j.beginObj();
      j.kv("op", o.op);
      j.kv("v", o.v);
      j.arr("vs", o.vs.begin(), o.vs.end());
      j.endObj();
    }
    j.endArr();
  }
  j.endObj();
  j.endObj();
  return j.s;
}

static Program randomProgram(uint64_t& rng, int cap) {
  static const char* pushOps[] = {"push", "emplace", "pushc"};
  static const char* popOps[] = {"pop", "popr", "popinto"};
  static const char* obsOps[] = {"empty", "full", "size"};
  Program p;
  int nth = 2 + (int)(ctl::splitmix(rng) % 3);
  int next = 1;
  for (int t = 0; t < nth; ++t) {
    std::vector<OpDesc> ops;
    int nops = 1 + (int)(ctl::splitmix(rng) % 3);
    for (int k = 0; k < nops; ++k) {
      OpDesc d;
      unsigned r = (unsigned)(ctl::splitmix(rng) % 16);
      if (r < 5) {
        d.op = pushOps[ctl::splitmix(rng) % 3];
        d.v = next++;
      } else if (r < 7) {
        d.op = "batch";
        int n = 1 + (int)(ctl::splitmix(rng) % (cap + 1));
        for (int i = 0; i < n; ++i)
          d.vs.push_back(next++);
      } else if (r < 14) {
        d.op = popOps[ctl::splitmix(rng) % 3];
      } else {
        d.op = obsOps[ctl::splitmix(rng) % 3];
      }
      ops.push_back(d);
    }
    p.emplace_back("t" + std::to_string(t + 1), ops);
  }
  return p;
}

template <class Ring>
static long long doOp(Ring& ring, const OpDesc& o) {
  if (o.op == "push") {
    Tracked x(o.v);
    return ring.try_push(std::move(x)) ? 1 : 0;
  }
  if (o.op == "pushc") {
    Tracked x(o.v);
    return ring.try_push(x) ? 1 : 0;
  }
  if (o.op == "emplace") {
    return ring.try_emplace(o.v) ? 1 : 0;
  }
  if (o.op == "pop") {
    Tracked item;
    return ring.try_pop(item) ? item.id : 0;
  }
  if (o.op == "popr") {
    auto r = ring.try_pop();
    return r ? r.value().id : 0;
  }
  if (o.op == "popinto") {
    alignas(Tracked) char buf[sizeof(Tracked)];
    Tracked* p = reinterpret_cast<Tracked*>(buf);
    if (ring.try_pop_into(p)) {
      int id = p->id;
      p->~Tracked();
      return id;
    }
    return 0;
  }
  if (o.op == "batch") {
    std::vector<Tracked> items;
    items.reserve(o.vs.size());
    for (int v : o.vs)
      items.emplace_back(v);
    return (long long)ring.try_push_batch(items.data(), items.size());
  }
  if (o.op == "empty")
    return ring.empty() ? 1 : 0;
  if (o.op == "full")
    return ring.full() ? 1 : 0;
  if (o.op == "size")
    return (long long)ring.size();
  fprintf(stderr, "ERROR drv_mpmc: unknown op %s\n", o.op.c_str());
  _exit(3);
}

template <class Ring>
static ctl::RunResult execute(
    const Program& prog,
    int cap,
    const ctl::RunOptions& opts,
    ctl::Trace& tr,
    const std::string& tag) {
  ctl::Registry::get().reset();
  Ring* ring = new Ring();
  tr.line(resetLine(prog, cap, tag));
  ctl::Controller c(tr);
  c.setProjection([ring, cap](Json& j) {
    j.kv("head", (long long)ring->head_.load());
    j.kv("tail", (long long)ring->tail_.load());
    j.key("seq").beginArr();
    for (int i = 0; i < cap; ++i)
      j.num((long long)ring->slots_[i].seq.load());
    j.endArr();
    j.key("data").beginArr();
    for (int i = 0; i < cap; ++i) {
      const void* p = ring->dataPtr(ring->slots_[i]);
      // 0: no live object; -1: a live but moved-from object
      int id = ctl::Registry::get().isLive(p) ? ctl::Registry::get().at(p) : 0;
      if (ctl::Registry::get().isLive(p) && id == 0)
        id = -1;
      j.num(id);
    }
    j.endArr();
  });
  for (auto& th : prog) {
    const std::vector<OpDesc>* ops = &th.second;
    c.addThread(th.first, [ring, ops]() {
      for (auto& o : *ops) {
        long long r = doOp(*ring, o);
        ctl::ret(r);
      }
    });
  }
  ctl::RunResult res = c.run(opts);
  if (res.completed) {
    delete ring;
    Json j;
    j.beginObj();
    j.kv("e", std::string("Destroy"));
    j.kv("live", ctl::Registry::get().liveCount());
    j.kv("errs", ctl::Registry::get().errorCount());
    j.endObj();
    tr.line(j.s);
  }
  return res;
}

template <class Ring>
static int runAll(const drv::Args& a, int cap) {
  ctl::Trace tr(a.str("out", "trace.ndjson"));
  drv::Totals tot;
  Program prog = parseProg(a.str("prog", "p1:push1;c1:pop"));
  if (a.has("schedules")) {
    auto scheds = ctl::readSchedules(a.str("schedules"));
    size_t idx = 0;
    for (auto& s : scheds) {
      ctl::RunOptions o;
      o.mode = ctl::RunOptions::Replay;
      o.schedule = &s;
      auto r = execute<Ring>(prog, cap, o, tr, "sched" + std::to_string(idx++));
      tot.add(r);
      if (!r.completed)
        break; // threads may still be parked: this process cannot run another execution
    }
  } else {
    long long n = a.num("random", 100);
    uint64_t seed = (uint64_t)a.num("seed", 1);
    uint64_t prng = seed * 7919 + 17;
    for (long long i = 0; i < n; ++i) {
      ctl::RunOptions o;
      o.mode = ctl::RunOptions::Random;
      o.seed = seed * 1000003ULL + (uint64_t)i;
      o.pctDepth = (int)a.num("pct", 0);
      Program p = a.has("randprog") ? randomProgram(prng, cap) : prog;
      auto r = execute<Ring>(p, cap, o, tr, "rand" + std::to_string(o.seed));
      tot.add(r);
      if (!r.completed)
        break;
    }
  }
  tr.flush();
  tot.print();
  return 0;
}

int main(int argc, char** argv) {
  drv::Args a(argc, argv);
  int cap = (int)a.num("cap", 2);
  int rc;
  if (cap == 2)
    rc = runAll<dispenso::MpmcRingBuffer<Tracked, 2>>(a, 2);
  else if (cap == 3)
    rc = runAll<dispenso::MpmcRingBuffer<Tracked, 3, false>>(a, 3);
  else if (cap == 4)
    rc = runAll<dispenso::MpmcRingBuffer<Tracked, 4>>(a, 4);
  else {
    fprintf(stderr, "ERROR drv_mpmc: unsupported cap\n");
    return 3;
  }
  fflush(stdout);
  _exit(rc); // parked threads of an aborted execution must not block exit
}
