// Driver for dispenso::MpmcRingBuffer (spec/mpmc/Mpmc.tla).
//   --out FILE            trace (ndjson)
//   --cap 2|3|4           ring capacity (3 = exact, non power of two)
//   --prog "p1:push1,emplace2;p2:batch3.4;c1:pop,popinto;c2:popr,size"
//   --schedules FILE      replay each schedule of FILE (one JSON array per line)
//   --random N --seed S [--pct D]   N random controlled executions
//   --randprog            with --random: also draw a random program per execution
//   --stress N --seed S [--cap K]   E5: N free-running rounds (real threads, no controller, hooks inert),
//                         one observation record per round (validated by spec/mpmc/MpmcObs.tla)
#include <dispenso/mpmc_ring_buffer.h>

#include <limits.h>
#include <linux/futex.h>
#include <sched.h>
#include <sys/syscall.h>
#include <unistd.h>

#include <atomic>
#include <chrono>
#include <thread>

#include "../ctl/ctl.h"
#include "../ctl/drv_common.h"
#include "../ctl/tracked.h"

using ctl::Json;
using ctl::Tracked;

struct OpDesc {
  std::string op;
  int v = 0;
  std::vector<int> vs;
};
using Program = std::vector<std::pair<std::string, std::vector<OpDesc>>>;

static Program parseProg(const std::string& s) {
  Program p;
  for (auto& th : drv::split(s, ';')) {
    if (th.empty())
      continue;
    auto nm = drv::split(th, ':');
    std::vector<OpDesc> ops;
    for (auto& o : drv::split(nm.size() > 1 ? nm[1] : "", ',')) {
      if (o.empty())
        continue;
      OpDesc d;
      size_t i = 0;
      while (i < o.size() && !isdigit((unsigned char)o[i]))
        ++i;
      d.op = o.substr(0, i);
      if (d.op == "batch") {
        for (auto& x : drv::split(o.substr(i), '.'))
          d.vs.push_back(atoi(x.c_str()));
      } else if (i < o.size())
        d.v = atoi(o.c_str() + i);
      ops.push_back(d);
    }
    p.emplace_back(nm[0], ops);
  }
  return p;
}

static std::string resetLine(const Program& prog, int cap, const std::string& tag) {
  Json j;
  j.beginObj();
  j.kv("e", std::string("Reset"));
  j.kv("cap", cap);
  j.kv("tag", tag);
  j.key("prog").beginObj();
  for (auto& th : prog) {
    j.key(th.first.c_str()).beginArr();
    for (auto& o : th.second) {
      j.beginObj();
      j.kv("op", o.op);
      j.kv("v", o.v);
      j.arr("vs", o.vs.begin(), o.vs.end());
      j.endObj();
    }
    j.endArr();
  }
  j.endObj();
  j.endObj();
  return j.s;
}

static Program randomProgram(uint64_t& rng, int cap) {
  static const char* pushOps[] = {"push", "emplace", "pushc"};
  static const char* popOps[] = {"pop", "popr", "popinto"};
  static const char* obsOps[] = {"empty", "full", "size"};
  Program p;
  int nth = 2 + (int)(ctl::splitmix(rng) % 3);
  int next = 1;
  for (int t = 0; t < nth; ++t) {
    std::vector<OpDesc> ops;
    int nops = 1 + (int)(ctl::splitmix(rng) % 3);
    for (int k = 0; k < nops; ++k) {
      OpDesc d;
      unsigned r = (unsigned)(ctl::splitmix(rng) % 16);
      if (r < 5) {
        d.op = pushOps[ctl::splitmix(rng) % 3];
        d.v = next++;
      } else if (r < 7) {
        d.op = "batch";
        int n = 1 + (int)(ctl::splitmix(rng) % (cap + 1));
        for (int i = 0; i < n; ++i)
          d.vs.push_back(next++);
      } else if (r < 14) {
        d.op = popOps[ctl::splitmix(rng) % 3];
      } else {
        d.op = obsOps[ctl::splitmix(rng) % 3];
      }
      ops.push_back(d);
    }
    p.emplace_back("t" + std::to_string(t + 1), ops);
  }
  return p;
}

template <class Ring>
static long long doOp(Ring& ring, const OpDesc& o) {
  if (o.op == "push") {
    Tracked x(o.v);
    return ring.try_push(std::move(x)) ? 1 : 0;
  }
  if (o.op == "pushc") {
    Tracked x(o.v);
    return ring.try_push(x) ? 1 : 0;
  }
  if (o.op == "emplace") {
    return ring.try_emplace(o.v) ? 1 : 0;
  }
  if (o.op == "pop") {
    Tracked item;
    return ring.try_pop(item) ? item.id : 0;
  }
  if (o.op == "popr") {
    auto r = ring.try_pop();
    return r ? r.value().id : 0;
  }
  if (o.op == "popinto") {
    alignas(Tracked) char buf[sizeof(Tracked)];
    Tracked* p = reinterpret_cast<Tracked*>(buf);
    if (ring.try_pop_into(p)) {
      int id = p->id;
      p->~Tracked();
      return id;
    }
    return 0;
  }
  if (o.op == "batch") {
    std::vector<Tracked> items;
    items.reserve(o.vs.size());
    for (int v : o.vs)
      items.emplace_back(v);
    return (long long)ring.try_push_batch(items.data(), items.size());
  }
  if (o.op == "empty")
    return ring.empty() ? 1 : 0;
  if (o.op == "full")
    return ring.full() ? 1 : 0;
  if (o.op == "size")
    return (long long)ring.size();
  fprintf(stderr, "ERROR drv_mpmc: unknown op %s\n", o.op.c_str());
  _exit(3);
}

template <class Ring>
static ctl::RunResult execute(
    const Program& prog,
    int cap,
    const ctl::RunOptions& opts,
    ctl::Trace& tr,
    const std::string& tag) {
  ctl::Registry::get().reset();
  Ring* ring = new Ring();
  tr.line(resetLine(prog, cap, tag));
  ctl::Controller c(tr);
  c.setProjection([ring, cap](Json& j) {
    j.kv("head", (long long)ring->head_.load());
    j.kv("tail", (long long)ring->tail_.load());
    j.key("seq").beginArr();
    for (int i = 0; i < cap; ++i)
      j.num((long long)ring->slots_[i].seq.load());
    j.endArr();
    j.key("data").beginArr();
    for (int i = 0; i < cap; ++i) {
      const void* p = ring->dataPtr(ring->slots_[i]);
      // 0: no live object; -1: a live but moved-from object
      int id = ctl::Registry::get().isLive(p) ? ctl::Registry::get().at(p) : 0;
      if (ctl::Registry::get().isLive(p) && id == 0)
        id = -1;
      j.num(id);
    }
    j.endArr();
  });
  for (auto& th : prog) {
    const std::vector<OpDesc>* ops = &th.second;
    c.addThread(th.first, [ring, ops]() {
      for (auto& o : *ops) {
        long long r = doOp(*ring, o);
        ctl::ret(r);
      }
    });
  }
  ctl::RunResult res = c.run(opts);
  if (res.completed) {
    delete ring;
    Json j;
    j.beginObj();
    j.kv("e", std::string("Destroy"));
    j.kv("live", ctl::Registry::get().liveCount());
    j.kv("errs", ctl::Registry::get().errorCount());
    j.endObj();
    tr.line(j.s);
  }
  return res;
}

template <class Ring>
static int runAll(const drv::Args& a, int cap) {
  ctl::Trace tr(a.str("out", "trace.ndjson"));
  drv::Totals tot;
  Program prog = parseProg(a.str("prog", "p1:push1;c1:pop"));
  if (a.has("schedules")) {
    auto scheds = ctl::readSchedules(a.str("schedules"));
    size_t idx = 0;
    for (auto& s : scheds) {
      ctl::RunOptions o;
      o.mode = ctl::RunOptions::Replay;
      o.schedule = &s;
      auto r = execute<Ring>(prog, cap, o, tr, "sched" + std::to_string(idx++));
      tot.add(r);
      if (!r.completed)
        break; // threads may still be parked: this process cannot run another execution
    }
  } else {
    long long n = a.num("random", 100);
    uint64_t seed = (uint64_t)a.num("seed", 1);
    uint64_t prng = seed * 7919 + 17;
    for (long long i = 0; i < n; ++i) {
      ctl::RunOptions o;
      o.mode = ctl::RunOptions::Random;
      o.seed = seed * 1000003ULL + (uint64_t)i;
      o.pctDepth = (int)a.num("pct", 0);
      Program p = a.has("randprog") ? randomProgram(prng, cap) : prog;
      auto r = execute<Ring>(p, cap, o, tr, "rand" + std::to_string(o.seed));
      tot.add(r);
      if (!r.completed)
        break;
    }
  }
  tr.flush();
  tot.print();
  return 0;
}

// =========================================================================== E5: free-running rounds
// P producers x C consumers (1..3 each) hammer one small ring truly concurrently.  Producer p pushes the
// values p*100000+1 .. p*100000+n[p] in that order (try_push(T&&) / try_push(const T&) / try_emplace /
// try_push_batch, retrying what was not accepted); the consumers pop (try_pop(T&) / try_pop() /
// try_pop_into) until `target` elements have been received in total.  Then - everything quiescent - the
// main thread observes size/empty/full, pops some more (`drain`), optionally fills the ring up with one
// batch, and destroys the ring.  The record holds only what the public API returned, per thread in program
// order, plus the payload lifetime counters.  No C++ check decides anything: MpmcObs.tla does.
namespace stress {

const int kBase = 100000; // value = producer * kBase + sequence number
const int kAlive = 0x600DF00D, kDead = 0x0DEAD000;

// lifetime accounting without shared state on the hot path: plain thread-local counters, folded into the
// round's totals by each thread when it is done
thread_local long long tlCtor = 0, tlDtor = 0, tlErr = 0;

struct Pay {
  int v;
  volatile int magic; // volatile: the store in the destructor must survive dead-store elimination
  explicit Pay(int x) noexcept : v(x), magic(kAlive) {
    ++tlCtor;
  }
  Pay(const Pay& o) noexcept : v(o.v), magic(kAlive) {
    ++tlCtor;
    if (o.magic != kAlive)
      ++tlErr; // copy of a dead object
  }
  Pay(Pay&& o) noexcept : v(o.v), magic(kAlive) {
    ++tlCtor;
    if (o.magic != kAlive)
      ++tlErr; // move from a dead object
    o.v = 0;
  }
  Pay& operator=(Pay&& o) noexcept {
    if (magic != kAlive || o.magic != kAlive)
      ++tlErr;
    v = o.v;
    o.v = 0;
    return *this;
  }
  Pay& operator=(const Pay& o) noexcept {
    if (magic != kAlive || o.magic != kAlive)
      ++tlErr;
    v = o.v;
    return *this;
  }
  ~Pay() {
    ++tlDtor;
    if (magic != kAlive)
      ++tlErr; // destroyed twice / never constructed
    magic = kDead;
  }
};

static inline void cpuRelax() {
#if defined(__x86_64__) || defined(__i386__)
  __builtin_ia32_pause();
#else
  asm volatile("" ::: "memory");
#endif
}
static inline void spinFor(unsigned n) {
  for (volatile unsigned k = 0; k < n; ++k) {
  }
}
// The box is shared (often oversubscribed): idle threads sleep in the kernel, threads that wait for a peer
// that may be descheduled give their time slice away.  On an idle box none of this is reached.
static void futexWait(std::atomic<uint32_t>& w, uint32_t val) {
  syscall(SYS_futex, reinterpret_cast<uint32_t*>(&w), FUTEX_WAIT_PRIVATE, val, nullptr, nullptr, 0);
}
static void futexWakeAll(std::atomic<uint32_t>& w) {
  syscall(SYS_futex, reinterpret_cast<uint32_t*>(&w), FUTEX_WAKE_PRIVATE, INT_MAX, nullptr, nullptr, 0);
}
// returns the new value of w once it differs from `old`
static uint32_t awaitChange(std::atomic<uint32_t>& w, uint32_t old) {
  for (unsigned k = 0;; ++k) {
    uint32_t v = w.load(std::memory_order_acquire);
    if (v != old)
      return v;
    if (k < 3000)
      cpuRelax();
    else
      futexWait(w, old);
  }
}
struct Yielder {
  unsigned n = 0;
  void operator()() {
    if (++n < 2000)
      cpuRelax();
    else
      sched_yield();
  }
};

const int kMaxP = 3, kMaxC = 3;
const uint32_t kShutdown = 0xFFFFFFFFu;

struct RoundCfg {
  int target = 0;
  int n[kMaxP] = {0, 0, 0};
  uint64_t seed = 0;
  unsigned gap[kMaxP + kMaxC] = {0, 0, 0, 0, 0, 0}; // max. spin between two operations of thread i
};

// The round word carries (round index, np, nc): a worker decides from the word alone whether it takes part,
// and only the participants (for which the main thread waits) read cfg.
static inline uint32_t roundWord(long long idx, int np, int nc) {
  return (uint32_t)(((idx + 1) & 0x7FFFFFF) << 4) | (uint32_t)((np - 1) << 2) | (uint32_t)(nc - 1);
}

struct alignas(64) Shared {
  std::atomic<uint32_t> round{0};
  alignas(64) std::atomic<int> arrived{0};
  alignas(64) std::atomic<uint32_t> done{0};
  alignas(64) std::atomic<long long> consumed{0};
  alignas(64) std::atomic<long long> ctor{0};
  std::atomic<long long> dtor{0}, err{0}, pfail{0}, cfail{0};
  std::atomic<void*> ring{nullptr};
  RoundCfg cfg;
  std::vector<int> got[kMaxC];
  // watchdog
  std::atomic<long long> beat{0};
  std::atomic<int> finished{0};
};
static Shared sh; // static: stuck threads may outlive the function that started them

template <class Ring>
static void producer(Ring& ring, int p, const RoundCfg& c, uint64_t rng) {
  const int cap = (int)Ring::capacity();
  int next = 1, n = c.n[p];
  long long fails = 0;
  unsigned gap = c.gap[p], streak = 0;
  while (next <= n) {
    unsigned r = (unsigned)(ctl::splitmix(rng) % 16);
    int before = next;
    if (r < 4) {
      Pay x((p + 1) * kBase + next);
      if (ring.try_push(std::move(x)))
        ++next;
    } else if (r < 7) {
      Pay x((p + 1) * kBase + next);
      if (ring.try_push(x))
        ++next;
    } else if (r < 11) {
      if (ring.try_emplace((p + 1) * kBase + next))
        ++next;
    } else {
      int want = 1 + (int)(ctl::splitmix(rng) % (unsigned)(cap + 1)); // cap + 1: the count is clamped
      if (want > n - next + 1)
        want = n - next + 1;
      alignas(Pay) char buf[sizeof(Pay) * 8];
      Pay* items = reinterpret_cast<Pay*>(buf);
      for (int i = 0; i < want; ++i)
        new (items + i) Pay((p + 1) * kBase + next + i);
      size_t k = ring.try_push_batch(items, (size_t)want);
      for (int i = 0; i < want; ++i)
        items[i].~Pay();
      next += (int)k;
    }
    if (next == before) {
      ++fails;
      if (++streak >= 64) // full for a long time: the consumers are probably descheduled
        sched_yield();
    } else
      streak = 0;
    if (gap)
      spinFor((unsigned)(ctl::splitmix(rng) % gap));
  }
  sh.pfail.fetch_add(fails, std::memory_order_relaxed);
}

template <class Ring>
static int popOnce(Ring& ring, unsigned variant) {
  if (variant == 0) {
    Pay item(0);
    return ring.try_pop(item) ? item.v : 0;
  }
  if (variant == 1) {
    auto r = ring.try_pop();
    return r ? r.value().v : 0;
  }
  alignas(Pay) char buf[sizeof(Pay)];
  Pay* p = reinterpret_cast<Pay*>(buf);
  if (ring.try_pop_into(p)) {
    int v = p->v;
    p->~Pay();
    return v;
  }
  return 0;
}

template <class Ring>
static void consumer(Ring& ring, int ci, const RoundCfg& c, uint64_t rng) {
  std::vector<int>& got = sh.got[ci];
  long long fails = 0;
  unsigned gap = c.gap[kMaxP + ci], streak = 0;
  while (sh.consumed.load(std::memory_order_relaxed) < c.target) {
    int v = popOnce(ring, (unsigned)(ctl::splitmix(rng) % 3));
    if (v != 0) {
      got.push_back(v);
      sh.consumed.fetch_add(1, std::memory_order_relaxed);
      streak = 0;
    } else {
      ++fails;
      if (++streak >= 64) // empty for a long time: the producers are probably descheduled
        sched_yield();
    }
    if (gap)
      spinFor((unsigned)(ctl::splitmix(rng) % gap));
  }
  sh.cfail.fetch_add(fails, std::memory_order_relaxed);
}

// worker i: 0..2 producers, 3..5 consumers
template <class Ring>
static void worker(int i) {
  uint32_t seen = 0;
  for (;;) {
    uint32_t w = awaitChange(sh.round, seen);
    if (w == kShutdown)
      return;
    seen = w;
    int np = (int)((w >> 2) & 3) + 1, nc = (int)(w & 3) + 1;
    bool isProd = i < kMaxP;
    int k = isProd ? i : i - kMaxP;
    if (k >= (isProd ? np : nc))
      continue; // sits this round out (and does not look at cfg: the main thread does not wait for it)
    const RoundCfg& c = sh.cfg;
    Ring& ring = *static_cast<Ring*>(sh.ring.load(std::memory_order_acquire));
    uint64_t rng = c.seed * 0x9e3779b97f4a7c15ULL + (uint64_t)(i + 1) * 0xbf58476d1ce4e5b9ULL;
    long long c0 = tlCtor, d0 = tlDtor, e0 = tlErr;
    unsigned offset = (unsigned)(ctl::splitmix(rng) % 96);
    // start barrier: everybody leaves it within a cache miss of each other, then a small random offset
    sh.arrived.fetch_add(1, std::memory_order_acq_rel);
    Yielder y;
    while (sh.arrived.load(std::memory_order_acquire) < np + nc)
      y();
    spinFor(offset);
    if (isProd)
      producer(ring, k, c, rng);
    else
      consumer(ring, k, c, rng);
    sh.ctor.fetch_add(tlCtor - c0, std::memory_order_relaxed);
    sh.dtor.fetch_add(tlDtor - d0, std::memory_order_relaxed);
    sh.err.fetch_add(tlErr - e0, std::memory_order_relaxed);
    if (sh.done.fetch_add(1, std::memory_order_acq_rel) + 1 == (uint32_t)(np + nc))
      futexWakeAll(sh.done);
  }
}

static void appendArr(std::string& s, const std::vector<int>& v) {
  s += '[';
  for (size_t i = 0; i < v.size(); ++i) {
    if (i)
      s += ',';
    s += std::to_string(v[i]);
  }
  s += ']';
}

struct Out {
  FILE* f = nullptr;
  std::mutex mu;
  long long rounds = 0;
  int np = 0, nc = 0;
  std::chrono::steady_clock::time_point deadline;
};
static Out out;

// up to `rounds` rounds on rings of type Ring (when a round gets stuck the watchdog ends the process)
template <class Ring>
static void runRounds(long long rounds, uint64_t& rng, long long& pfail, long long& cfail) {
  const int cap = (int)Ring::capacity();
  sh.round.store(0, std::memory_order_release);
  std::vector<std::thread> ths;
  for (int i = 0; i < kMaxP + kMaxC; ++i)
    ths.emplace_back(worker<Ring>, i);
  alignas(Ring) static char storage[sizeof(Ring)];
  for (long long r = 0; r < rounds; ++r) {
    if ((r & 63) == 0 && std::chrono::steady_clock::now() > out.deadline)
      break;
    RoundCfg& c = sh.cfg;
    int np = 1 + (int)(ctl::splitmix(rng) % kMaxP);
    int nc = 1 + (int)(ctl::splitmix(rng) % kMaxC);
    int total = 0;
    for (int p = 0; p < kMaxP; ++p) {
      c.n[p] = p < np ? 1 + (int)(ctl::splitmix(rng) % 10) : 0;
      total += c.n[p];
    }
    int leave = (ctl::splitmix(rng) % 3) ? (int)(ctl::splitmix(rng) % (unsigned)(cap + 1)) : 0;
    c.target = total > leave ? total - leave : 0;
    c.seed = ctl::splitmix(rng);
    // pace: mostly flat out; sometimes slow producers (ring mostly empty) or slow consumers (mostly full)
    unsigned pace = (unsigned)(ctl::splitmix(rng) % 4);
    for (int i = 0; i < kMaxP + kMaxC; ++i)
      c.gap[i] = 0;
    if (pace == 1)
      for (int i = 0; i < kMaxP; ++i)
        c.gap[i] = 1 + (unsigned)(ctl::splitmix(rng) % 120);
    else if (pace == 2)
      for (int i = kMaxP; i < kMaxP + kMaxC; ++i)
        c.gap[i] = 1 + (unsigned)(ctl::splitmix(rng) % 120);
    for (int i = 0; i < kMaxC; ++i)
      sh.got[i].clear();
    sh.arrived.store(0, std::memory_order_relaxed);
    sh.done.store(0, std::memory_order_relaxed);
    sh.consumed.store(0, std::memory_order_relaxed);
    sh.ctor.store(0, std::memory_order_relaxed);
    sh.dtor.store(0, std::memory_order_relaxed);
    sh.err.store(0, std::memory_order_relaxed);
    sh.pfail.store(0, std::memory_order_relaxed);
    sh.cfail.store(0, std::memory_order_relaxed);
    long long c0 = tlCtor, d0 = tlDtor, e0 = tlErr;
    Ring* ring = new (storage) Ring();
    sh.ring.store(ring, std::memory_order_release);
    out.np = np;
    out.nc = nc;
    sh.beat.fetch_add(1, std::memory_order_release);
    sh.round.store(roundWord(out.rounds, np, nc), std::memory_order_release); // go
    futexWakeAll(sh.round);
    for (uint32_t d = 0; d != (uint32_t)(np + nc);)
      d = awaitChange(sh.done, d);
    // ---- quiescent from here on
    int sz = (int)ring->size(), em = ring->empty() ? 1 : 0, fu = ring->full() ? 1 : 0;
    std::vector<int> drain;
    int attempts = (int)(ctl::splitmix(rng) % (unsigned)((sz < 0 || sz > 8 ? 8 : sz) + 2));
    for (int i = 0; i < attempts; ++i)
      drain.push_back(popOnce(*ring, (unsigned)(ctl::splitmix(rng) % 3)));
    int sz2 = (int)ring->size();
    int fill = (int)(ctl::splitmix(rng) % 2), qb = 0, qf = 0, fu2 = 0, sz3 = sz2;
    if (fill) {
      alignas(Pay) char buf[sizeof(Pay) * 8];
      Pay* items = reinterpret_cast<Pay*>(buf);
      for (int i = 0; i < cap + 1; ++i)
        new (items + i) Pay(9 * kBase + 1 + i);
      qb = (int)ring->try_push_batch(items, (size_t)(cap + 1));
      for (int i = 0; i < cap + 1; ++i)
        items[i].~Pay();
      qf = ring->try_emplace(9 * kBase + 99) ? 1 : 0;
      fu2 = ring->full() ? 1 : 0;
      sz3 = (int)ring->size();
    }
    long long dBefore = tlDtor;
    ring->~Ring();
    int dd = (int)(tlDtor - dBefore); // elements the destructor destroyed
    long long live = (sh.ctor.load() + tlCtor - c0) - (sh.dtor.load() + tlDtor - d0);
    long long errs = sh.err.load() + tlErr - e0;
    pfail += sh.pfail.load();
    cfail += sh.cfail.load();
    std::string s = "{\"e\":\"Round\",\"round\":" + std::to_string(out.rounds) + ",\"cap\":" + std::to_string(cap) +
        ",\"np\":" + std::to_string(np) + ",\"nc\":" + std::to_string(nc) + ",\"n\":";
    appendArr(s, std::vector<int>(c.n, c.n + np));
    s += ",\"got\":[";
    for (int i = 0; i < nc; ++i) {
      if (i)
        s += ',';
      appendArr(s, sh.got[i]);
    }
    s += "],\"sz\":" + std::to_string(sz) + ",\"em\":" + std::to_string(em) + ",\"fu\":" + std::to_string(fu) +
        ",\"drain\":";
    appendArr(s, drain);
    s += ",\"sz2\":" + std::to_string(sz2) + ",\"fill\":" + std::to_string(fill) + ",\"qb\":" + std::to_string(qb) +
        ",\"qf\":" + std::to_string(qf) + ",\"fu2\":" + std::to_string(fu2) + ",\"sz3\":" + std::to_string(sz3) +
        ",\"dd\":" + std::to_string(dd) + ",\"live\":" + std::to_string(live) + ",\"errs\":" + std::to_string(errs) +
        ",\"stuck\":0}\n";
    {
      std::lock_guard<std::mutex> lk(out.mu);
      fputs(s.c_str(), out.f);
      ++out.rounds;
    }
  }
  sh.round.store(kShutdown, std::memory_order_release);
  futexWakeAll(sh.round);
  for (auto& t : ths)
    t.join();
}

static int run(const drv::Args& a) {
  out.f = fopen(a.str("out", "stress.ndjson").c_str(), "w");
  if (!out.f)
    return 2;
  long long rounds = a.num("stress", 1000);
  uint64_t rng = (uint64_t)a.num("seed", 1) * 0x9e3779b97f4a7c15ULL + 11;
  // --maxms: stop starting new rounds after that much wall-clock time (the number of rounds that were run is
  // reported); keeps the engine within its budget when the machine is oversubscribed
  out.deadline = std::chrono::steady_clock::now() + std::chrono::milliseconds(a.num("maxms", 3600 * 1000));
  // watchdog: a round that does not finish within 10 s of wall-clock time is reported as such; the
  // process cannot continue (its threads spin inside the ring), so the record is the last one
  std::thread([]() {
    long long last = -1;
    auto t0 = std::chrono::steady_clock::now();
    while (!sh.finished.load(std::memory_order_acquire)) {
      std::this_thread::sleep_for(std::chrono::milliseconds(50));
      long long b = sh.beat.load(std::memory_order_acquire);
      auto now = std::chrono::steady_clock::now();
      if (b != last) {
        last = b;
        t0 = now;
      } else if (now - t0 > std::chrono::seconds(10) && !sh.finished.load(std::memory_order_acquire)) {
        std::lock_guard<std::mutex> lk(out.mu);
        fprintf(out.f, "{\"e\":\"Round\",\"round\":%lld,\"np\":%d,\"nc\":%d,\"target\":%d,\"consumed\":%lld,\"stuck\":1}\n",
                out.rounds, out.np, out.nc, sh.cfg.target, sh.consumed.load());
        fflush(out.f);
        printf("DRIVER executions=%lld steps=%lld completed=%lld deadlocks=1 diverged=0 stuck=0\n", out.rounds + 1,
               out.rounds + 1, out.rounds);
        fflush(stdout);
        _exit(0);
      }
    }
  }).detach();
  long long pfail = 0, cfail = 0;
  // blocks of rounds per capacity (the worker threads persist within a block)
  long long left = rounds;
  int phase = 0, only = (int)a.num("cap", 0);
  while (left > 0 && std::chrono::steady_clock::now() <= out.deadline) {
    long long blk = left < 2000 ? left : 2000;
    long long before = out.rounds;
    int cap = only ? only : 2 + phase % 3;
    if (cap == 2)
      runRounds<dispenso::MpmcRingBuffer<Pay, 2>>(blk, rng, pfail, cfail);
    else if (cap == 3)
      runRounds<dispenso::MpmcRingBuffer<Pay, 3, false>>(blk, rng, pfail, cfail);
    else if (cap == 4)
      runRounds<dispenso::MpmcRingBuffer<Pay, 4>>(blk, rng, pfail, cfail);
    else
      return 3;
    left -= blk;
    ++phase;
    if (out.rounds - before < blk)
      break; // out of time
  }
  sh.finished.store(1, std::memory_order_release);
  {
    std::lock_guard<std::mutex> lk(out.mu);
    fclose(out.f);
  }
  printf("STRESS requested=%lld failed_pushes=%lld failed_pops=%lld\n", rounds, pfail, cfail);
  printf("DRIVER executions=%lld steps=%lld completed=%lld deadlocks=0 diverged=0 stuck=0\n", out.rounds, out.rounds,
         out.rounds);
  fflush(stdout);
  return 0;
}

} // namespace stress

int main(int argc, char** argv) {
  drv::Args a(argc, argv);
  if (a.has("stress")) {
    int rc = stress::run(a);
    fflush(stdout);
    _exit(rc);
  }
  int cap = (int)a.num("cap", 2);
  int rc;
  if (cap == 2)
    rc = runAll<dispenso::MpmcRingBuffer<Tracked, 2>>(a, 2);
  else if (cap == 3)
    rc = runAll<dispenso::MpmcRingBuffer<Tracked, 3, false>>(a, 3);
  else if (cap == 4)
    rc = runAll<dispenso::MpmcRingBuffer<Tracked, 4>>(a, 4);
  else {
    fprintf(stderr, "ERROR drv_mpmc: unsupported cap\n");
    return 3;
  }
  fflush(stdout);
  _exit(rc); // parked threads of an aborted execution must not block exit
}
