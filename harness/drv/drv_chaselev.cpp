// Driver for dispenso::ChaseLevDeque (spec/chaselev/ChaseLev.tla).
//   --out FILE            trace (ndjson)
//   --cap 1|2|4|mix       Capacity template argument (mix: random mode only, one per execution)
//   --prog "o:push1,push2,pop,popinto,steal,empty,size;s1:steal,stealinto;s2:stealinto"
//   --schedules FILE      replay each schedule of FILE (one JSON array per line)
//   --random N --seed S [--pct D]   N random controlled executions
//   --randprog            with --random: also draw a random (contract-respecting) program
//   --stress N --seed S   E5: N free-running rounds (real threads, no controller), one observation
//                         record per round (see namespace fr below; validated by ChaseLevObs.tla)
// The element type is int (the deque requires a trivially copyable T, so the lifetime-tracked
// payload of the other ring drivers cannot be stored; elements are tagged by value).
#include <dispenso/chase_lev_deque.h>

#include <sched.h>
#include <time.h>
#include <unistd.h>

#include <atomic>
#include <string>
#include <thread>

#include "../ctl/ctl.h"
#include "../ctl/drv_common.h"

using ctl::Json;

struct OpDesc {
  std::string op;
  int v = 0;
};
using Program = std::vector<std::pair<std::string, std::vector<OpDesc>>>;

static Program parseProg(const std::string& s) {
  Program p;
  for (auto& th : drv::split(s, ';')) {
    if (th.empty())
      continue;
    auto nm = drv::split(th, ':');
    std::vector<OpDesc> ops;
    for (auto& o : drv::split(nm.size() > 1 ? nm[1] : "", ',')) {
      if (o.empty())
        continue;
      OpDesc d;
      size_t i = 0;
      while (i < o.size() && !isdigit((unsigned char)o[i]))
        ++i;
      d.op = o.substr(0, i);
      if (i < o.size())
        d.v = atoi(o.c_str() + i);
      ops.push_back(d);
    }
    p.emplace_back(nm[0], ops);
  }
  return p;
}

static std::string
resetLine(const Program& prog, long long cap, long long slots, const std::string& tag) {
  Json j;
  j.beginObj();
  j.kv("e", std::string("Reset"));
  j.kv("cap", cap);
  j.kv("slots", slots);
  j.kv("tag", tag);
  j.key("prog").beginObj();
  for (auto& th : prog) {
    j.key(th.first.c_str()).beginArr();
    for (auto& o : th.second) {
      j.beginObj();
      j.kv("op", o.op);
      j.kv("v", o.v);
      j.endObj();
    }
    j.endArr();
  }
  j.endObj();
  j.endObj();
  return j.s;
}

// Random program inside the documented contract (R1): only thread "o" pushes and pops; every
// thread (the owner too) may steal and observe.
static Program randomProgram(uint64_t& rng) {
  static const char* stealOps[] = {"steal", "stealinto"};
  static const char* popOps[] = {"pop", "popinto"};
  static const char* obsOps[] = {"empty", "size"};
  int next = 1;
  Program p;
  std::vector<OpDesc> own;
  int nown = 1 + (int)(ctl::splitmix(rng) % 6);
  for (int k = 0; k < nown; ++k) {
    OpDesc d;
    unsigned r = (unsigned)(ctl::splitmix(rng) % 20);
    if (r < 9) {
      d.op = "push";
      d.v = next++;
    } else if (r < 16)
      d.op = popOps[ctl::splitmix(rng) % 2];
    else if (r < 18)
      d.op = stealOps[ctl::splitmix(rng) % 2];
    else
      d.op = obsOps[ctl::splitmix(rng) % 2];
    own.push_back(d);
  }
  p.emplace_back("o", own);
  int nst = 1 + (int)(ctl::splitmix(rng) % 3);
  for (int s = 0; s < nst; ++s) {
    std::vector<OpDesc> ops;
    int nops = 1 + (int)(ctl::splitmix(rng) % 3);
    for (int k = 0; k < nops; ++k) {
      OpDesc d;
      d.op = (ctl::splitmix(rng) % 8 == 0) ? obsOps[ctl::splitmix(rng) % 2]
                                           : stealOps[ctl::splitmix(rng) % 2];
      ops.push_back(d);
    }
    p.emplace_back("s" + std::to_string(s + 1), ops);
  }
  return p;
}

template <class Deque>
static void doOp(Deque& dq, const OpDesc& o) {
  if (o.op == "push") {
    ctl::ret(dq.try_push(o.v) ? 1 : 0);
  } else if (o.op == "pop") {
    int out = -7;
    bool ok = dq.try_pop(out);
    ctl::ret(ok ? out : 0);
  } else if (o.op == "popinto") {
    alignas(int) char buf[sizeof(int)];
    bool ok = dq.try_pop_into(reinterpret_cast<int*>(buf));
    ctl::ret(ok ? *reinterpret_cast<int*>(buf) : 0);
  } else if (o.op == "steal") {
    int out = -7;
    bool ok = dq.try_steal(out);
    ctl::ret(ok ? out : 0);
  } else if (o.op == "stealinto") {
    alignas(int) char buf[sizeof(int)];
    bool ok = dq.try_steal_into(reinterpret_cast<int*>(buf));
    ctl::ret(ok ? *reinterpret_cast<int*>(buf) : 0);
  } else if (o.op == "empty") {
    ctl::ret(dq.empty() ? 1 : 0);
  } else if (o.op == "size") {
    ctl::ret((long long)dq.size());
  } else {
    fprintf(stderr, "ERROR drv_chaselev: unknown op %s\n", o.op.c_str());
    _exit(3);
  }
}

template <class Deque>
static ctl::RunResult
execute(const Program& prog, const ctl::RunOptions& opts, ctl::Trace& tr, const std::string& tag) {
  Deque* dq = new Deque();
  // "never written" storage is projected as 0 (value-initialisation already zeroes it; this keeps
  // the projection independent of that)
  memset(dq->storage_, 0, sizeof(dq->storage_));
  const long long slots = (long long)(sizeof(dq->storage_) / sizeof(int));
  tr.line(resetLine(prog, (long long)Deque::capacity(), slots, tag));
  ctl::Controller c(tr);
  c.setProjection([dq, slots](Json& j) {
    j.kv("top", (long long)dq->top_.load());
    j.kv("bottom", (long long)dq->bottom_.load());
    j.key("slot").beginArr();
    for (long long i = 0; i < slots; ++i) {
      int v;
      memcpy(&v, &dq->storage_[(size_t)i * sizeof(int)], sizeof(int));
      j.num(v);
    }
    j.endArr();
  });
  for (auto& th : prog) {
    const std::vector<OpDesc>* ops = &th.second;
    c.addThread(th.first, [dq, ops]() {
      for (auto& o : *ops)
        doOp(*dq, o);
    });
  }
  ctl::RunResult res = c.run(opts);
  if (res.completed)
    delete dq;
  return res;
}

using ExecFn = ctl::RunResult (*)(
    const Program&,
    const ctl::RunOptions&,
    ctl::Trace&,
    const std::string&);
struct Kind {
  const char* name;
  ExecFn fn;
};
static const Kind kKinds[] = {
    {"1", &execute<dispenso::ChaseLevDeque<int, 1>>},
    {"2", &execute<dispenso::ChaseLevDeque<int, 2>>},
    {"4", &execute<dispenso::ChaseLevDeque<int, 4>>},
};
static const int kNumKinds = (int)(sizeof(kKinds) / sizeof(kKinds[0]));

// =============================================================================================
// E5: free-running rounds (--stress N --seed S).  Real threads, no ctl::Controller (the hooks are
// inert), one owner + 1..3 stealers truly concurrent on a ChaseLevDeque<int, 1|2|4|8> that lives
// across rounds (so top/bottom sit at every offset modulo the capacity).  One observation record
// per round, validated by spec/chaselev/ChaseLevObs.tla:
//   {"e":"Round","round":r,"stuck":0,"cap":c,"ns":n,"mode":m,
//    "o":[[kind,arg,res],...]   owner operations in program order; kind 1 push(arg) res 1/0,
//                               2 pop, 3 pop_into, 4 steal, 5 steal_into (res value or 0),
//                               6 size() (res), 7 empty() (res 1/0)
//    "s":[[v,...],...]          per stealer: the values of its successful steals, in program order
//    "mx":[..]                  per stealer: largest size() it saw (0 if it never asked)
//    "qsize","qempty"           size()/empty() once every thread of the round has stopped
//    "d":[[kind,res],...]       the owner then drains qsize elements, quiescent (kinds 2..5)
//    "fpop","fsteal","fsize","fempty"   and asks once more: try_pop, try_steal, size(), empty()}
// mode 0: the stealers go on until the owner is done AND the deque is drained; mode 1: they stop as
// soon as the owner is done (what is left is taken by the quiescent drain).
// Values: every push attempt of a round uses the next integer 1,2,3,... (order by value = push order).
namespace fr {

constexpr int kMaxSt = 3;
constexpr int kMaxOps = 56; // owner operations per round (program + own drain)
constexpr int kMaxGot = 64; // > kMaxOps: a stealer that fills this has certainly invented values
constexpr long long kGraceNs = 10LL * 1000 * 1000 * 1000;

struct OpRec {
  int kind, arg, res;
};

struct Shared {
  alignas(64) std::atomic<int> done{0}; // the owner has finished its program of this round
  alignas(64) std::atomic<long long> progress{0}; // watchdog: bumped at every round start
  std::atomic<long long> curRound{-1};
  std::atomic<int> finished{0};
  struct alignas(64) PerSt {
    std::atomic<long long> go{-1}; // round this stealer takes part in (-2: shut down)
    std::atomic<long long> entered{-1}, fin{-1};
    // parameters (written by the owner before go, release/acquire through go; the owner does not
    // touch them, nor capIdx/mode below, before it has seen fin == go)
    uint64_t seed = 0;
    unsigned spin = 0, pause = 0;
    // results (written by the stealer before fin)
    int ngot = 0, mx = 0;
    int got[kMaxGot];
  } st[kMaxSt];
  // round parameters (ns is read by the owner only)
  int capIdx = 0, ns = 1, mode = 0;
};
static Shared sh; // static: stuck threads may outlive runStress

static long long nowNs() {
  struct timespec ts;
  clock_gettime(CLOCK_MONOTONIC, &ts);
  return (long long)ts.tv_sec * 1000000000LL + ts.tv_nsec;
}

static inline void relax(unsigned& n) {
  // the machine is shared: do not burn a time slice waiting for a descheduled thread
  if (++n > 256)
    sched_yield();
  else {
#if defined(__x86_64__) || defined(__i386__)
    __builtin_ia32_pause();
#endif
  }
}

static inline void spinFor(unsigned n) {
  for (volatile unsigned k = 0; k < n; ++k) {
  }
}

static dispenso::ChaseLevDeque<int, 1> g_d1;
static dispenso::ChaseLevDeque<int, 2> g_d2;
static dispenso::ChaseLevDeque<int, 4> g_d4;
static dispenso::ChaseLevDeque<int, 8> g_d8;

template <class DQ>
static void stealerRound(DQ& dq, Shared::PerSt& me, int mode) {
  uint64_t rng = me.seed;
  int n = 0, mx = 0;
  spinFor(me.spin);
  for (;;) {
    // read the flag BEFORE the attempt: once the owner is done nothing is pushed any more, so an
    // empty() that is true afterwards stays true
    int d = sh.done.load(std::memory_order_acquire);
    unsigned r = (unsigned)ctl::splitmix(rng);
    if ((r & 31) == 0) {
      int s = (int)dq.size();
      if (s > mx)
        mx = s;
    } else if (r & 32) {
      int out = -7;
      if (dq.try_steal(out))
        me.got[n++] = out;
    } else {
      alignas(int) char buf[sizeof(int)];
      if (dq.try_steal_into(reinterpret_cast<int*>(buf)))
        me.got[n++] = *reinterpret_cast<int*>(buf);
    }
    if (n >= kMaxGot)
      break;
    if (d && (mode == 1 || dq.empty()))
      break;
    if (me.pause)
      spinFor((r >> 8) % (me.pause + 1));
  }
  me.ngot = n;
  me.mx = mx;
}

template <class DQ>
static void stealerEntry(void* dq, Shared::PerSt& me, int mode) {
  stealerRound(*static_cast<DQ*>(dq), me, mode);
}

// owner side of one round; returns the record
template <class DQ>
static void ownerRound(DQ& dq, uint64_t& rng, long long round, std::string& rec, long long& nops) {
  const int cap = (int)DQ::capacity();
  const int ns = sh.ns, mode = sh.mode;
  OpRec ops[kMaxOps];
  int no = 0;
  int next = 1; // value of the next push attempt
  int est = 0; // owner's own count: accepted pushes - successful pops (only shapes the program)
  // profile: 0 nearly empty (push/pop ping-pong: the last-element race), 1 nearly full (wrap-around,
  // rejected pushes), 2 uniform mix
  const int profile = (int)(ctl::splitmix(rng) % 3);
  const int nprog = 4 + (int)(ctl::splitmix(rng) % 29);
  const bool ownDrain = (ctl::splitmix(rng) & 1) != 0;
  const unsigned opPause = (ctl::splitmix(rng) % 4 == 0) ? (unsigned)(ctl::splitmix(rng) % 48) : 0;
  const unsigned startSpin = (unsigned)(ctl::splitmix(rng) % 300);
  // wait until every stealer of the round is awake, then start at a random offset
  unsigned w = 0;
  for (int i = 0; i < ns; ++i)
    while (sh.st[i].entered.load(std::memory_order_acquire) != round)
      relax(w);
  spinFor(startSpin);
  auto perform = [&](int kind) {
    OpRec o{kind, 0, 0};
    switch (kind) {
      case 1:
        o.arg = next++;
        o.res = dq.try_push(o.arg) ? 1 : 0;
        est += o.res;
        break;
      case 2: {
        int out = -7;
        o.res = dq.try_pop(out) ? out : 0;
        break;
      }
      case 3: {
        alignas(int) char buf[sizeof(int)];
        o.res = dq.try_pop_into(reinterpret_cast<int*>(buf)) ? *reinterpret_cast<int*>(buf) : 0;
        break;
      }
      case 4: {
        int out = -7;
        o.res = dq.try_steal(out) ? out : 0;
        break;
      }
      case 5: {
        alignas(int) char buf[sizeof(int)];
        o.res = dq.try_steal_into(reinterpret_cast<int*>(buf)) ? *reinterpret_cast<int*>(buf) : 0;
        break;
      }
      case 6:
        o.res = (int)dq.size();
        break;
      default:
        o.res = dq.empty() ? 1 : 0;
        break;
    }
    if (kind == 2 || kind == 3) {
      if (o.res)
        --est;
      else
        est = 0;
    }
    ops[no++] = o;
    return o.res;
  };
  for (int k = 0; k < nprog; ++k) {
    unsigned r = (unsigned)(ctl::splitmix(rng) % 100);
    int kind;
    if (r < 4)
      kind = 4 + (int)(ctl::splitmix(rng) & 1); // the owner may steal too
    else if (r < 8)
      kind = 6 + (int)(ctl::splitmix(rng) & 1);
    else {
      unsigned pushPct = profile == 0 ? (est == 0 ? 90 : 25) : profile == 1 ? 80 : 50;
      kind = (ctl::splitmix(rng) % 100 < pushPct) ? 1 : 2 + (int)(ctl::splitmix(rng) & 1);
    }
    perform(kind);
    if (opPause)
      spinFor((unsigned)(ctl::splitmix(rng) % (opPause + 1)));
  }
  if (ownDrain) // the owner pops against the stealers until a pop fails
    for (int k = 0; k < 16; ++k)
      if (!perform(2 + (int)(ctl::splitmix(rng) & 1)))
        break;
  sh.done.store(1, std::memory_order_release);
  w = 0;
  for (int i = 0; i < ns; ++i)
    while (sh.st[i].fin.load(std::memory_order_acquire) != round)
      relax(w);
  // quiescent: nobody but this thread touches the deque now
  const int qsize = (int)dq.size(), qempty = dq.empty() ? 1 : 0;
  OpRec dr[kMaxGot];
  int nd = 0;
  for (int k = 0; k < qsize && k < kMaxGot; ++k) {
    int kind = 2 + (int)(ctl::splitmix(rng) & 3);
    int save = no;
    int res = perform(kind);
    no = save;
    dr[nd++] = OpRec{kind, 0, res};
  }
  int out = -7;
  const int fpop = dq.try_pop(out) ? out : 0;
  const int fsteal = dq.try_steal(out) ? out : 0;
  const int fsize = (int)dq.size(), fempty = dq.empty() ? 1 : 0;
  nops += no + nd + 4;
  // ---- record
  char buf[160];
  snprintf(buf, sizeof buf, "{\"e\":\"Round\",\"round\":%lld,\"stuck\":0,\"cap\":%d,\"ns\":%d,\"mode\":%d,\"o\":[",
           round, cap, ns, mode);
  rec = buf;
  for (int k = 0; k < no; ++k) {
    snprintf(buf, sizeof buf, "%s[%d,%d,%d]", k ? "," : "", ops[k].kind, ops[k].arg, ops[k].res);
    rec += buf;
  }
  rec += "],\"s\":[";
  for (int i = 0; i < ns; ++i) {
    rec += i ? ",[" : "[";
    for (int k = 0; k < sh.st[i].ngot; ++k) {
      snprintf(buf, sizeof buf, "%s%d", k ? "," : "", sh.st[i].got[k]);
      rec += buf;
    }
    rec += "]";
  }
  rec += "],\"mx\":[";
  for (int i = 0; i < ns; ++i) {
    snprintf(buf, sizeof buf, "%s%d", i ? "," : "", sh.st[i].mx);
    rec += buf;
  }
  snprintf(buf, sizeof buf, "],\"qsize\":%d,\"qempty\":%d,\"d\":[", qsize, qempty);
  rec += buf;
  for (int k = 0; k < nd; ++k) {
    snprintf(buf, sizeof buf, "%s[%d,%d]", k ? "," : "", dr[k].kind, dr[k].res);
    rec += buf;
  }
  snprintf(buf, sizeof buf, "],\"fpop\":%d,\"fsteal\":%d,\"fsize\":%d,\"fempty\":%d}\n", fpop, fsteal, fsize,
           fempty);
  rec += buf;
}

using StealFn = void (*)(void*, Shared::PerSt&, int);
using OwnerFn = void (*)(uint64_t&, long long, std::string&, long long&);
template <class DQ, DQ* D>
static void ownerEntry(uint64_t& rng, long long round, std::string& rec, long long& nops) {
  ownerRound(*D, rng, round, rec, nops);
}
struct CapKind {
  void* dq;
  StealFn steal;
  OwnerFn owner;
};
static const CapKind kCaps[] = {
    {&g_d1, &stealerEntry<decltype(g_d1)>, &ownerEntry<decltype(g_d1), &g_d1>},
    {&g_d2, &stealerEntry<decltype(g_d2)>, &ownerEntry<decltype(g_d2), &g_d2>},
    {&g_d4, &stealerEntry<decltype(g_d4)>, &ownerEntry<decltype(g_d4), &g_d4>},
    {&g_d8, &stealerEntry<decltype(g_d8)>, &ownerEntry<decltype(g_d8), &g_d8>},
};

static void stealerThread(int idx) {
  Shared::PerSt& me = sh.st[idx];
  long long seen = -1;
  unsigned w = 0;
  for (;;) {
    long long r = me.go.load(std::memory_order_acquire);
    if (r == -2)
      return;
    if (r == seen) {
      relax(w);
      continue;
    }
    seen = r;
    const CapKind& ck = kCaps[sh.capIdx];
    const int mode = sh.mode;
    me.entered.store(r, std::memory_order_release);
    ck.steal(ck.dq, me, mode);
    me.fin.store(r, std::memory_order_release);
    w = 0;
  }
}

static int runStress(const drv::Args& a) {
  std::string out = a.str("out", "stress.ndjson");
  FILE* f = fopen(out.c_str(), "w");
  if (!f)
    return 2;
  static char fbuf[1 << 20];
  setvbuf(f, fbuf, _IOFBF, sizeof fbuf);
  const long long rounds = a.num("stress", 1000);
  uint64_t rng = (uint64_t)a.num("seed", 1) * 0x9e3779b97f4a7c15ULL + 36;
  std::thread stealers[kMaxSt];
  for (int i = 0; i < kMaxSt; ++i)
    stealers[i] = std::thread(stealerThread, i);
  // watchdog: a round that does not finish within the grace period is reported as such; the
  // validator rejects that record
  std::thread dog([f]() {
    long long last = -1, since = nowNs();
    while (!sh.finished.load(std::memory_order_acquire)) {
      usleep(50 * 1000);
      long long p = sh.progress.load(std::memory_order_acquire);
      if (p != last) {
        last = p;
        since = nowNs();
      } else if (nowNs() - since > kGraceNs && !sh.finished.load(std::memory_order_acquire)) {
        long long r = sh.curRound.load(std::memory_order_acquire);
        fprintf(f, "{\"e\":\"Round\",\"round\":%lld,\"stuck\":1,\"cap\":0,\"ns\":0,\"mode\":0,\"o\":[],\"s\":[],"
                   "\"mx\":[],\"qsize\":0,\"qempty\":0,\"d\":[],\"fpop\":0,\"fsteal\":0,\"fsize\":0,\"fempty\":0}\n",
                r);
        fflush(f);
        printf("DRIVER executions=%lld steps=0 completed=%lld deadlocks=1 diverged=0 stuck=0\n", r + 1, r);
        fflush(stdout);
        _exit(0);
      }
    }
  });
  long long nops = 0;
  std::string rec;
  for (long long r = 0; r < rounds; ++r) {
    sh.curRound.store(r, std::memory_order_release);
    sh.progress.fetch_add(1, std::memory_order_acq_rel);
    sh.capIdx = (int)(ctl::splitmix(rng) % 4);
    sh.ns = 1 + (int)(ctl::splitmix(rng) % kMaxSt);
    sh.mode = (ctl::splitmix(rng) % 4 == 0) ? 1 : 0;
    // per round: eager stealers (deque nearly empty) or lazy ones (deque fills up)
    const unsigned lazy = (ctl::splitmix(rng) % 3 == 0) ? 400 : (ctl::splitmix(rng) & 1) ? 40 : 0;
    for (int i = 0; i < sh.ns; ++i) {
      sh.st[i].seed = ctl::splitmix(rng);
      sh.st[i].spin = (unsigned)(ctl::splitmix(rng) % 300);
      sh.st[i].pause = lazy ? (unsigned)(ctl::splitmix(rng) % lazy) : 0;
      sh.st[i].ngot = 0;
      sh.st[i].mx = 0;
    }
    sh.done.store(0, std::memory_order_release);
    for (int i = 0; i < sh.ns; ++i)
      sh.st[i].go.store(r, std::memory_order_release);
    kCaps[sh.capIdx].owner(rng, r, rec, nops);
    fwrite(rec.data(), 1, rec.size(), f);
  }
  sh.finished.store(1, std::memory_order_release);
  for (int i = 0; i < kMaxSt; ++i)
    sh.st[i].go.store(-2, std::memory_order_release);
  for (auto& t : stealers)
    t.join();
  dog.join();
  fclose(f);
  printf("DRIVER executions=%lld steps=%lld completed=%lld deadlocks=0 diverged=0 stuck=0\n", rounds, nops,
         rounds);
  fflush(stdout);
  return 0;
}

} // namespace fr

int main(int argc, char** argv) {
  drv::Args a(argc, argv);
  if (a.has("stress")) {
    int rc = fr::runStress(a);
    fflush(stdout);
    _exit(rc);
  }
  ctl::Trace tr(a.str("out", "trace.ndjson"));
  drv::Totals tot;
  std::string capName = a.str("cap", "2");
  const Kind* fixed = nullptr;
  for (int i = 0; i < kNumKinds; ++i)
    if (capName == kKinds[i].name)
      fixed = &kKinds[i];
  if (!fixed && capName != "mix") {
    fprintf(stderr, "ERROR drv_chaselev: unsupported cap %s\n", capName.c_str());
    return 3;
  }
  Program prog = parseProg(a.str("prog", "o:push1,pop;s1:steal"));
  if (a.has("schedules")) {
    if (!fixed) {
      fprintf(stderr, "ERROR drv_chaselev: --schedules needs a fixed --cap\n");
      return 3;
    }
    auto scheds = ctl::readSchedules(a.str("schedules"));
    size_t idx = 0;
    for (auto& s : scheds) {
      ctl::RunOptions o;
      o.mode = ctl::RunOptions::Replay;
      o.schedule = &s;
      auto r = fixed->fn(prog, o, tr, "sched" + std::to_string(idx++));
      tot.add(r);
      if (!r.completed)
        break; // threads may still be parked: this process cannot run another execution
    }
  } else {
    long long n = a.num("random", 100);
    uint64_t seed = (uint64_t)a.num("seed", 1);
    uint64_t prng = seed * 7919 + 17;
    for (long long i = 0; i < n; ++i) {
      ctl::RunOptions o;
      o.mode = ctl::RunOptions::Random;
      o.seed = seed * 1000003ULL + (uint64_t)i;
      o.pctDepth = (int)a.num("pct", 0);
      const Kind* k = fixed ? fixed : &kKinds[ctl::splitmix(prng) % kNumKinds];
      Program p = a.has("randprog") ? randomProgram(prng) : prog;
      auto r = k->fn(p, o, tr, std::string("cap") + k->name + "-rand" + std::to_string(o.seed));
      tot.add(r);
      if (!r.completed)
        break;
    }
  }
  tr.flush();
  tot.print();
  fflush(stdout);
  _exit(0); // parked threads of an aborted execution must not block exit
}
