// Driver for dispenso::ChaseLevDeque (spec/chaselev/ChaseLev.tla).
//   --out FILE            trace (ndjson)
//   --cap 1|2|4|mix       Capacity template argument (mix: random mode only, one per execution)
//   --prog "o:push1,push2,pop,popinto,steal,empty,size;s1:steal,stealinto;s2:stealinto"
//   --schedules FILE      replay each schedule of FILE (one JSON array per line)
//   --random N --seed S [--pct D]   N random controlled executions
//   --randprog            with --random: also draw a random (contract-respecting) program
// The element type is int (the deque requires a trivially copyable T, so the lifetime-tracked
// payload of the other ring drivers cannot be stored; elements are tagged by value).
#include <dispenso/chase_lev_deque.h>

#include <unistd.h>

#include "../ctl/ctl.h"
#include "../ctl/drv_common.h"

using ctl::Json;

struct OpDesc {
  std::string op;
  int v = 0;
};
using Program = std::vector<std::pair<std::string, std::vector<OpDesc>>>;

static Program parseProg(const std::string& s) {
  Program p;
  for (auto& th : drv::split(s, ';')) {
    if (th.empty())
      continue;
    auto nm = drv::split(th, ':');
    std::vector<OpDesc> ops;
    for (auto& o : drv::split(nm.size() > 1 ? nm[1] : "", ',')) {
      if (o.empty())
        continue;
      OpDesc d;
      size_t i = 0;
      while (i < o.size() && !isdigit((unsigned char)o[i]))
        ++i;
      d.op = o.substr(0, i);
      if (i < o.size())
        d.v = atoi(o.c_str() + i);
      ops.push_back(d);
    }
    p.emplace_back(nm[0], ops);
  }
  return p;
}

static std::string
resetLine(const Program& prog, long long cap, long long slots, const std::string& tag) {
  Json j;
  j.beginObj();
  j.kv("e", std::string("Reset"));
  j.kv("cap", cap);
  j.kv("slots", slots);
  j.kv("tag", tag);
  j.key("prog").beginObj();
  for (auto& th : prog) {
    j.key(th.first.c_str()).beginArr();
    for (auto& o : th.second) {
      j.beginObj();
      j.kv("op", o.op);
      j.kv("v", o.v);
      j.endObj();
    }
    j.endArr();
  }
  j.endObj();
  j.endObj();
  return j.s;
}

// Random program inside the documented contract (R1): only thread "o" pushes and pops; every
// thread (the owner too) may steal and observe.
static Program randomProgram(uint64_t& rng) {
  static const char* stealOps[] = {"steal", "stealinto"};
  static const char* popOps[] = {"pop", "popinto"};
  static const char* obsOps[] = {"empty", "size"};
  int next = 1;
  Program p;
  std::vector<OpDesc> own;
  int nown = 1 + (int)(ctl::splitmix(rng) % 6);
  for (int k = 0; k < nown; ++k) {
    OpDesc d;
    unsigned r = (unsigned)(ctl::splitmix(rng) % 20);
    if (r < 9) {
      d.op = "push";
      d.v = next++;
    } else if (r < 16)
      d.op = popOps[ctl::splitmix(rng) % 2];
    else if (r < 18)
      d.op = stealOps[ctl::splitmix(rng) % 2];
    else
      d.op = obsOps[ctl::splitmix(rng) % 2];
    own.push_back(d);
  }
  p.emplace_back("o", own);
  int nst = 1 + (int)(ctl::splitmix(rng) % 3);
  for (int s = 0; s < nst; ++s) {
    std::vector<OpDesc> ops;
    int nops = 1 + (int)(ctl::splitmix(rng) % 3);
    for (int k = 0; k < nops; ++k) {
      OpDesc d;
      d.op = (ctl::splitmix(rng) % 8 == 0) ? obsOps[ctl::splitmix(rng) % 2]
                                           : stealOps[ctl::splitmix(rng) % 2];
      ops.push_back(d);
    }
    p.emplace_back("s" + std::to_string(s + 1), ops);
  }
  return p;
}

template <class Deque>
static void doOp(Deque& dq, const OpDesc& o) {
  if (o.op == "push") {
    ctl::ret(dq.try_push(o.v) ? 1 : 0);
  } else if (o.op == "pop") {
    int out = -7;
    bool ok = dq.try_pop(out);
    ctl::ret(ok ? out : 0);
  } else if (o.op == "popinto") {
    alignas(int) char buf[sizeof(int)];
    bool ok = dq.try_pop_into(reinterpret_cast<int*>(buf));
    ctl::ret(ok ? *reinterpret_cast<int*>(buf) : 0);
  } else if (o.op == "steal") {
    int out = -7;
    bool ok = dq.try_steal(out);
    ctl::ret(ok ? out : 0);
  } else if (o.op == "stealinto") {
    alignas(int) char buf[sizeof(int)];
    bool ok = dq.try_steal_into(reinterpret_cast<int*>(buf));
    ctl::ret(ok ? *reinterpret_cast<int*>(buf) : 0);
  } else if (o.op == "empty") {
    ctl::ret(dq.empty() ? 1 : 0);
  } else if (o.op == "size") {
    ctl::ret((long long)dq.size());
  } else {
    fprintf(stderr, "ERROR drv_chaselev: unknown op %s\n", o.op.c_str());
    _exit(3);
  }
}

template <class Deque>
static ctl::RunResult
execute(const Program& prog, const ctl::RunOptions& opts, ctl::Trace& tr, const std::string& tag) {
  Deque* dq = new Deque();
  // "never written" storage is projected as 0 (value-initialisation already zeroes it; this keeps
  // the projection independent of that)
  memset(dq->storage_, 0, sizeof(dq->storage_));
  const long long slots = (long long)(sizeof(dq->storage_) / sizeof(int));
  tr.line(resetLine(prog, (long long)Deque::capacity(), slots, tag));
  ctl::Controller c(tr);
  c.setProjection([dq, slots](Json& j) {
    j.kv("top", (long long)dq->top_.load());
    j.kv("bottom", (long long)dq->bottom_.load());
    j.key("slot").beginArr();
    for (long long i = 0; i < slots; ++i) {
      int v;
      memcpy(&v, &dq->storage_[(size_t)i * sizeof(int)], sizeof(int));
      j.num(v);
    }
    j.endArr();
  });
  for (auto& th : prog) {
    const std::vector<OpDesc>* ops = &th.second;
    c.addThread(th.first, [dq, ops]() {
      for (auto& o : *ops)
        doOp(*dq, o);
    });
  }
  ctl::RunResult res = c.run(opts);
  if (res.completed)
    delete dq;
  return res;
}

using ExecFn = ctl::RunResult (*)(
    const Program&,
    const ctl::RunOptions&,
    ctl::Trace&,
    const std::string&);
struct Kind {
  const char* name;
  ExecFn fn;
};
static const Kind kKinds[] = {
    {"1", &execute<dispenso::ChaseLevDeque<int, 1>>},
    {"2", &execute<dispenso::ChaseLevDeque<int, 2>>},
    {"4", &execute<dispenso::ChaseLevDeque<int, 4>>},
};
static const int kNumKinds = (int)(sizeof(kKinds) / sizeof(kKinds[0]));

int main(int argc, char** argv) {
  drv::Args a(argc, argv);
  ctl::Trace tr(a.str("out", "trace.ndjson"));
  drv::Totals tot;
  std::string capName = a.str("cap", "2");
  const Kind* fixed = nullptr;
  for (int i = 0; i < kNumKinds; ++i)
    if (capName == kKinds[i].name)
      fixed = &kKinds[i];
  if (!fixed && capName != "mix") {
    fprintf(stderr, "ERROR drv_chaselev: unsupported cap %s\n", capName.c_str());
    return 3;
  }
  Program prog = parseProg(a.str("prog", "o:push1,pop;s1:steal"));
  if (a.has("schedules")) {
    if (!fixed) {
      fprintf(stderr, "ERROR drv_chaselev: --schedules needs a fixed --cap\n");
      return 3;
    }
    auto scheds = ctl::readSchedules(a.str("schedules"));
    size_t idx = 0;
    for (auto& s : scheds) {
      ctl::RunOptions o;
      o.mode = ctl::RunOptions::Replay;
      o.schedule = &s;
      auto r = fixed->fn(prog, o, tr, "sched" + std::to_string(idx++));
      tot.add(r);
      if (!r.completed)
        break; // threads may still be parked: this process cannot run another execution
    }
  } else {
    long long n = a.num("random", 100);
    uint64_t seed = (uint64_t)a.num("seed", 1);
    uint64_t prng = seed * 7919 + 17;
    for (long long i = 0; i < n; ++i) {
      ctl::RunOptions o;
      o.mode = ctl::RunOptions::Random;
      o.seed = seed * 1000003ULL + (uint64_t)i;
      o.pctDepth = (int)a.num("pct", 0);
      const Kind* k = fixed ? fixed : &kKinds[ctl::splitmix(prng) % kNumKinds];
      Program p = a.has("randprog") ? randomProgram(prng) : prog;
      auto r = k->fn(p, o, tr, std::string("cap") + k->name + "-rand" + std::to_string(o.seed));
      tot.add(r);
      if (!r.completed)
        break;
    }
  }
  tr.flush();
  tot.print();
  fflush(stdout);
  _exit(0); // parked threads of an aborted execution must not block exit
}
