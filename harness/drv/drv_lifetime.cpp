// C11 driver: API programs (incl. exception / cancellation / shutdown paths) over lifetime-tracked
// payloads.  Every construction, copy, move, use and destruction of a payload object is an event
// {"e":"Ctor"|"Dtor"|"Use","id":n,"src":m}; {"e":"Quiesce"} marks points at which every dispenso object
// of the program is gone, so no payload may still be alive.  The events are validated by TLC against
// spec/lib/Lifetime.tla.  Built with ASan+UBSan(+LSan) as an auxiliary monitor of raw memory errors.
//   --out FILE  --seed S  --rounds N  [--only NAME]
#include <dispenso/async_request.h>
#include <dispenso/concurrent_vector.h>
#include <dispenso/for_each.h>
#include <dispenso/future.h>
#include <dispenso/graph.h>
#include <dispenso/graph_executor.h>
#include <dispenso/latch.h>
#include <dispenso/mpmc_ring_buffer.h>
#include <dispenso/once_function.h>
#include <dispenso/parallel_for.h>
#include <dispenso/pipeline.h>
#include <dispenso/resource_pool.h>
#include <dispenso/small_vector.h>
#include <dispenso/spsc_ring_buffer.h>
#include <dispenso/task_set.h>
#include <dispenso/thread_pool.h>
#include <dispenso/timed_task.h>

#include <unistd.h>

#include <atomic>
#include <chrono>
#include <map>
#include <mutex>
#include <stdexcept>
#include <thread>

#include "../ctl/ctl.h"
#include "../ctl/drv_common.h"

static ctl::Trace* g_tr = nullptr;
static std::atomic<int> g_nextId{1};
static std::atomic<long long> g_events{0};

static void ev(const char* e, int id, int src) {
  ctl::Json j;
  j.beginObj();
  j.kv("e", std::string(e));
  j.kv("id", id);
  j.kv("src", src);
  j.endObj();
  g_tr->line(j.s);
  g_events.fetch_add(1);
}

// The library's own small-buffer blocks (guarded MemAlloc / MemFree hooks of allocSmallBuffer<size> /
// deallocSmallBuffer<size>): {"e":"Alloc"|"Free","id":block,"src":size class}.  The Alloc note fires after
// the block was obtained and the Free note before it is returned, so for one address the logged order is
// the real order.
static std::mutex g_blkMu;
static std::map<const void*, int> g_blkIds;
static void memSink(const char* site, const void* obj, long long size, long long) {
  int id;
  {
    std::lock_guard<std::mutex> l(g_blkMu);
    auto it = g_blkIds.find(obj);
    if (it == g_blkIds.end())
      it = g_blkIds.emplace(obj, (int)g_blkIds.size() + 1).first;
    id = it->second;
  }
  ev(site[3] == 'A' ? "Alloc" : "Free", id, (int)size);
}

// Lifetime-tracked payload.  The id lives in the object; a use / destruction of freed or never
// constructed memory shows an id that is not alive (ids are clamped so that TLC can read them).
struct LT {
  int id;
  int value;
  static int clamp(int v) {
    return (v > 0 && v < 100000000) ? v : 99999999;
  }
  LT() noexcept : id(g_nextId.fetch_add(1)), value(0) {
    ev("Ctor", id, 0);
  }
  explicit LT(int v) noexcept : id(g_nextId.fetch_add(1)), value(v) {
    ev("Ctor", id, 0);
  }
  LT(const LT& o) noexcept : id(g_nextId.fetch_add(1)), value(o.value) {
    ev("Ctor", id, clamp(o.id));
  }
  LT(LT&& o) noexcept : id(g_nextId.fetch_add(1)), value(o.value) {
    ev("Ctor", id, clamp(o.id));
  }
  LT& operator=(const LT& o) noexcept {
    ev("Use", clamp(id), 0);
    ev("Use", clamp(o.id), 0);
    value = o.value;
    return *this;
  }
  LT& operator=(LT&& o) noexcept {
    ev("Use", clamp(id), 0);
    ev("Use", clamp(o.id), 0);
    value = o.value;
    return *this;
  }
  ~LT() {
    ev("Dtor", clamp(id), 0);
  }
  int use() const {
    ev("Use", clamp(id), 0);
    return value;
  }
  bool operator==(const LT& o) const {
    return value == o.value;
  }
};

static void reset(const char* prog) {
  ctl::Json j;
  j.beginObj();
  j.kv("e", std::string("Reset"));
  j.kv("prog", std::string(prog));
  j.endObj();
  g_tr->line(j.s);
}
static void quiesce() {
  g_tr->line("{\"e\":\"Quiesce\"}");
}

struct Boom : std::runtime_error {
  Boom() : std::runtime_error("boom") {}
};

// ------------------------------------------------------------------------------------- programs
static void p_pool_destroy_queued(uint64_t seed) {
  {
    dispenso::ThreadPool pool(1 + seed % 3);
    std::atomic<int> sum{0};
    for (int i = 0; i < 40; ++i) {
      LT x(i);
      pool.schedule([x, &sum]() { sum += x.use(); }, dispenso::ForceQueuingTag());
    }
  } // destructor runs / drains the queued tasks
  quiesce();
}

static void p_pool_zero_threads(uint64_t) {
  {
    dispenso::ThreadPool pool(0);
    for (int i = 0; i < 5; ++i) {
      LT x(i);
      pool.schedule([x]() { x.use(); });
    }
    pool.resize(2);
    for (int i = 0; i < 10; ++i) {
      LT x(i);
      pool.schedule([x]() { x.use(); }, dispenso::ForceQueuingTag());
    }
    pool.resize(0);
  }
  quiesce();
}

static void p_taskset_cancel(uint64_t seed) {
  {
    dispenso::ThreadPool pool(2);
    dispenso::TaskSet ts(pool);
    for (int i = 0; i < 60; ++i) {
      LT x(i);
      if (i == (int)(seed % 7))
        ts.schedule([x, &ts]() {
          x.use();
          ts.cancel();
        });
      else
        ts.schedule([x]() { x.use(); }, dispenso::ForceQueuingTag());
    }
    ts.wait();
  }
  quiesce();
}

static void p_cts_throw(uint64_t seed) {
  {
    dispenso::ThreadPool pool(3);
    dispenso::ConcurrentTaskSet ts(pool);
    for (int i = 0; i < 50; ++i) {
      LT x(i);
      bool thrower = (i % 11) == (int)(seed % 11);
      ts.schedule(
          [x, thrower]() {
            x.use();
            if (thrower)
              throw Boom();
          },
          dispenso::ForceQueuingTag());
    }
    try {
      ts.wait();
    } catch (const Boom&) {
    }
  }
  quiesce();
}

static void p_cts_bulk_cancel(uint64_t seed) {
  {
    dispenso::ThreadPool pool(2);
    dispenso::ConcurrentTaskSet ts(pool);
    LT shared(7);
    ts.scheduleBulk(30 + seed % 5, [&shared, &ts](size_t i) {
      LT x((int)i);
      return [x, &ts, i, &shared]() {
        x.use();
        shared.use();
        if (i == 3)
          ts.cancel();
      };
    });
    ts.wait();
  }
  quiesce();
}

static void p_future_chain(uint64_t seed) {
  {
    dispenso::ThreadPool pool(2);
    auto f = dispenso::async(pool, []() { return LT(5); });
    auto g = f.then([](dispenso::Future<LT>&& r) { return LT(r.get().use() + 1); }, pool);
    (void)g.get().use();
    std::vector<dispenso::Future<LT>> fs;
    for (int i = 0; i < 6; ++i)
      fs.push_back(dispenso::async(pool, [i]() { return LT(i); }));
    auto all = dispenso::when_all(fs.begin(), fs.end());
    for (auto& r : all.get())
      (void)r.get().use();
    auto thrower = dispenso::async(pool, [seed]() -> LT {
      LT tmp(1);
      if (seed % 2 == 0)
        throw Boom();
      return tmp;
    });
    try {
      (void)thrower.get().use();
    } catch (const Boom&) {
    }
    auto cont = thrower.then([](dispenso::Future<LT>&& r) {
      try {
        return r.get().use();
      } catch (const Boom&) {
        return -1;
      }
    });
    (void)cont.get();
  }
  quiesce();
}

static void p_future_taskset(uint64_t) {
  {
    dispenso::ThreadPool pool(2);
    dispenso::ConcurrentTaskSet ts(pool);
    std::vector<dispenso::Future<LT>> fs;
    for (int i = 0; i < 8; ++i)
      fs.push_back(dispenso::async(ts, [i]() { return LT(i); }));
    ts.wait();
    for (auto& f : fs)
      (void)f.get().use();
  }
  quiesce();
}

static void p_pipeline(uint64_t seed, bool doThrow) {
  {
    dispenso::ThreadPool pool(3);
    int counter = 0;
    int throwAt = 3 + (int)(seed % 5);
    int stage = (int)(seed % 3);
    std::atomic<int> sunk{0};
    auto gen = [&counter, doThrow, throwAt, stage]() -> dispenso::OpResult<LT> {
      if (counter >= 14)
        return {};
      int c = counter++;
      if (doThrow && stage == 0 && c == throwAt)
        throw Boom();
      return LT(c);
    };
    auto xform = [doThrow, throwAt, stage](LT in) -> dispenso::OpResult<LT> {
      if (doThrow && stage == 1 && in.use() == throwAt)
        throw Boom();
      if (in.use() % 5 == 4)
        return {};
      return LT(in.use() * 2);
    };
    auto sink = [&sunk, doThrow, throwAt, stage](LT in) {
      if (doThrow && stage == 2 && in.use() == throwAt * 2)
        throw Boom();
      sunk += in.use();
    };
    try {
      if (seed % 2)
        dispenso::pipeline(pool, std::move(gen), dispenso::stage(std::move(xform), 3), std::move(sink));
      else
        dispenso::pipeline(
            pool, std::move(gen), std::move(xform), dispenso::stage(std::move(sink), dispenso::kStageNoLimit));
    } catch (const Boom&) {
    }
  }
  quiesce();
}

static void p_cvector(uint64_t seed) {
  {
    dispenso::ConcurrentVector<LT> v;
    for (int i = 0; i < 9; ++i)
      v.push_back(LT(i));
    v.emplace_back(100);
    v.grow_by(3);
    v.grow_by(2, LT(55));
    v.erase(v.begin() + 2);
    v.erase(v.begin() + 1, v.begin() + 4);
    v.insert(v.begin() + 1, LT(77));
    v.resize(6);
    v.resize(11, LT(9));
    v.pop_back();
    dispenso::ConcurrentVector<LT> w(v);
    dispenso::ConcurrentVector<LT> u(std::move(w));
    w = v;
    v.clear();
    for (auto& e : u)
      (void)e.use();
    u.shrink_to_fit();
    {
      dispenso::ThreadPool pool(3);
      dispenso::ConcurrentVector<LT> c;
      dispenso::TaskSet pts(pool);
      dispenso::parallel_for(pts, 0, 24 + (int)(seed % 8), [&c](int i) { c.push_back(LT(i)); });
      for (auto& e : c)
        (void)e.use();
    }
  }
  quiesce();
}

static void p_small_containers(uint64_t) {
  {
    dispenso::SmallVector<LT, 2> s;
    for (int i = 0; i < 7; ++i)
      s.emplace_back(i);
    s.pop_back();
    dispenso::SmallVector<LT, 2> t(s);
    dispenso::SmallVector<LT, 2> m(std::move(t));
    s.resize(2);
    s = m;
    m.clear();
    dispenso::OpResult<LT> a;
    dispenso::OpResult<LT> b(LT(3));
    a = b;
    dispenso::OpResult<LT> c(std::move(a));
    b = std::move(c);
    b.emplace(9);
    (void)b.value().use();
    LT cap(4);
    dispenso::OnceFunction f([cap]() { (void)cap.use(); });
    dispenso::OnceFunction g(std::move(f));
    g();
    dispenso::MpmcRingBuffer<LT, 4> ring;
    for (int i = 0; i < 6; ++i)
      ring.try_emplace(i);
    auto r = ring.try_pop();
    if (r)
      (void)r.value().use();
    LT out;
    ring.try_pop(out);
    dispenso::SPSCRingBuffer<LT, 4> sp;
    for (int i = 0; i < 6; ++i)
      sp.try_push(LT(i));
    LT o2;
    sp.try_pop(o2);
  } // rings destroyed with elements still inside
  quiesce();
}

static void p_loops(uint64_t seed) {
  {
    dispenso::ThreadPool pool(3);
    std::vector<LT> states;
    dispenso::ParForOptions opts;
    opts.maxThreads = 1 + (uint32_t)(seed % 4);
    dispenso::TaskSet lts(pool);
    dispenso::parallel_for(
        lts, states, []() { return LT(0); }, 0, 200, [](LT& s, int a, int b) { s.value += (b - a) + s.use() * 0; }, opts);
    std::vector<LT> data;
    for (int i = 0; i < 30; ++i)
      data.emplace_back(i);
    dispenso::for_each(lts, data.begin(), data.end(), [](LT& x) { (void)x.use(); });
    dispenso::TaskSet ts(pool);
    dispenso::ParForOptions nw;
    nw.wait = false;
    LT cap(1);
    dispenso::parallel_for(ts, 0, 50, [cap](int) { (void)cap.use(); }, nw);
    ts.wait();
  }
  quiesce();
}

// parallel loops on their error paths: a body that throws (the task set records it, cancels the rest and
// rethrows from wait()), and a task set that is cancelled while loop tasks are still queued.  Every
// chunking mode, waiting and not waiting.
static void p_loops_error(uint64_t seed) {
  for (int variant = 0; variant < 8; ++variant) {
    {
      dispenso::ThreadPool pool(3);
      dispenso::TaskSet ts(pool);
      dispenso::ParForOptions o;
      o.wait = (variant & 1) != 0;
      o.defaultChunking = (variant & 2) ? dispenso::ParForChunking::kAdaptive : dispenso::ParForChunking::kStatic;
      bool cancel = (variant & 4) != 0;
      int bad = (int)((seed + (uint64_t)variant * 5) % 97);
      LT cap(variant);
      std::vector<LT> states;
      try {
        dispenso::parallel_for(
            ts,
            states,
            []() { return LT(0); },
            0,
            200,
            [cap, bad, cancel, &ts](LT& st, int a, int b) {
              (void)cap.use();
              (void)st.use();
              if (a <= bad && bad < b) {
                if (cancel)
                  ts.cancel();
                else
                  throw Boom();
              }
            },
            o);
        ts.wait();
      } catch (const Boom&) {
      }
      try {
        ts.wait();
      } catch (const Boom&) {
      }
    }
    quiesce();
  }
}

static void p_graph(uint64_t) {
  {
    dispenso::ThreadPool pool(2);
    dispenso::Graph g;
    LT a(1), b(2), c(3);
    dispenso::Node& n0 = g.addNode([a]() { (void)a.use(); });
    dispenso::Node& n1 = g.addNode([b]() { (void)b.use(); });
    dispenso::Node& n2 = g.addNode([c]() { (void)c.use(); });
    n2.dependsOn(n0, n1);
    dispenso::ConcurrentTaskSet ts(pool);
    dispenso::ConcurrentTaskSetExecutor ex;
    setAllNodesIncomplete(g);
    ex(ts, g);
    dispenso::SingleThreadExecutor st;
    setAllNodesIncomplete(g);
    st(g);
  }
  quiesce();
}

// a node throws inside a parallel executor's wave; the same executor object is then used for another
// graph after the first one is gone: nothing of the aborted evaluation may be carried over
template <class Exec, class TS>
static void graphThrowThenReuse(dispenso::ThreadPool& pool, uint64_t seed) {
  Exec ex;
  for (int round = 0; round < 2; ++round) {
    {
      dispenso::Graph g;
      LT pa(1), pb(2), pc(3);
      std::atomic<int> ran{0};
      std::vector<dispenso::Node*> as, cs;
      int chains = 2 + (int)((seed + (uint64_t)round) % 6);
      for (int i = 0; i < chains; ++i) {
        auto& a = g.addNode([pa, &ran]() { (void)pa.use(); ran.fetch_add(1); });
        auto& c = g.addNode([pc]() { (void)pc.use(); });
        c.dependsOn(a);
        as.push_back(&a);
        cs.push_back(&c);
      }
      auto& b = g.addNode([pb, &ran, chains]() {
        (void)pb.use();
        // let the other sources of the wave finish first, so that their dependents are already collected
        for (int spin = 0; spin < 2000000 && ran.load() < chains; ++spin) {
        }
        throw Boom();
      });
      auto& d = g.addNode([pc]() { (void)pc.use(); });
      d.dependsOn(b);
      auto& sink = g.addNode([pa]() { (void)pa.use(); });
      for (auto* c : cs)
        sink.dependsOn(*c);
      sink.dependsOn(d);
      TS ts(pool);
      setAllNodesIncomplete(g); // (a freshly built graph has all counters 0: the contract is setAll / propagate before evaluating)
      try {
        ex(ts, g);
      } catch (const Boom&) {
      }
      try {
        ts.wait();
      } catch (const Boom&) {
      }
    } // the graph and its payload copies are gone
    quiesce();
    {
      // same shape and creation order as the aborted graph (the node allocator hands out the same addresses again):
      // anything the executor kept from the aborted evaluation now aliases these nodes
      dispenso::Graph g2;
      LT q(9);
      int chains = 2 + (int)((seed + (uint64_t)round) % 6);
      std::vector<std::atomic<int>> runs((size_t)(2 * chains + 3));
      for (auto& r : runs)
        r.store(0);
      std::atomic<int> early{0};
      std::vector<dispenso::Node*> cs;
      for (int i = 0; i < chains; ++i) {
        auto& a = g2.addNode([q, &runs, i]() { (void)q.use(); runs[(size_t)(2 * i)].fetch_add(1); });
        auto& c = g2.addNode([q, &runs, &early, i]() {
          (void)q.use();
          if (runs[(size_t)(2 * i)].load() != 1)
            early.fetch_add(1);
          runs[(size_t)(2 * i + 1)].fetch_add(1);
        });
        c.dependsOn(a);
        cs.push_back(&c);
      }
      auto& b = g2.addNode([q, &runs, chains]() { (void)q.use(); runs[(size_t)(2 * chains)].fetch_add(1); });
      auto& d = g2.addNode([q, &runs, chains]() { (void)q.use(); runs[(size_t)(2 * chains + 1)].fetch_add(1); });
      d.dependsOn(b);
      auto& sink = g2.addNode([q, &runs, &early, chains]() {
        (void)q.use();
        for (int k = 0; k < 2 * chains + 2; ++k)
          if (runs[(size_t)k].load() != 1)
            early.fetch_add(1);
        runs[(size_t)(2 * chains + 2)].fetch_add(1);
      });
      for (auto* c : cs)
        sink.dependsOn(*c);
      sink.dependsOn(d);
      TS ts(pool);
      setAllNodesIncomplete(g2);
      ex(ts, g2);
      int wrong = early.load();
      for (auto& r : runs)
        if (r.load() != 1)
          ++wrong;
      // every node of the new graph ran exactly once, after its predecessors
      if (wrong && getenv("VERIF_DEBUG")) {
        fprintf(stderr, "graph_throw: early=%d runs:", early.load());
        for (auto& r : runs)
          fprintf(stderr, " %d", r.load());
        fprintf(stderr, "\n");
      }
      ev("Expect", 30, wrong);
    }
    quiesce();
  }
}
static void p_graph_throw(uint64_t seed) {
  {
    dispenso::ThreadPool pool(3);
    graphThrowThenReuse<dispenso::ParallelForExecutor, dispenso::TaskSet>(pool, seed);
    graphThrowThenReuse<dispenso::ConcurrentTaskSetExecutor, dispenso::ConcurrentTaskSet>(pool, seed);
  }
  quiesce();
}

// The owner keeps cancelling a parent set while its tasks create and destroy nested sets that registered for the
// cascade (ParentCascadeCancel::kOn), which is what a nested loop on a pool thread does: the cascade may only
// touch children that are still registered (heap children: a write into a destroyed child is a heap-use-after-free
// for the sanitizer build; the payload of the nested tasks is lifetime-tracked as usual)
static void p_cascade_race(uint64_t seed) {
  {
    dispenso::ThreadPool pool(3);
    dispenso::ConcurrentTaskSet parent(pool);
    std::atomic<int> stop{0};
    std::atomic<long> made{0};
    std::atomic<int> started{0};
    for (int w = 0; w < 3; ++w)
      parent.schedule(
          [&pool, &stop, &made, &started, w, seed]() {
            started.fetch_add(1);
            long n = 0;
            while (!stop.load(std::memory_order_acquire) && n < 20000) {
              auto* child = new dispenso::ConcurrentTaskSet(pool, dispenso::ParentCascadeCancel::kOn);
              if ((n + w + (long)seed) % 64 == 0) {
                LT x((int)n);
                child->schedule([x]() { (void)x.use(); });
              }
              child->wait();
              delete child;
              ++n;
            }
            made.fetch_add(n);
          },
          dispenso::ForceQueuingTag());
    while (started.load() < 3) // (a cancelled set skips tasks that have not started)
      std::this_thread::yield();
    auto t0 = std::chrono::steady_clock::now();
    while (std::chrono::steady_clock::now() - t0 < std::chrono::milliseconds(300))
      parent.cancel();
    stop.store(1, std::memory_order_release);
    parent.wait();
    ev("Expect", 31, made.load() > 0 ? 0 : 1);
  }
  quiesce();
}

// several threads build, evaluate and destroy PRIVATE graphs at the same time (they share nothing the API shows;
// the library's process-wide state - allocator caches, small-buffer pools - is shared behind their backs)
template <class G>
static void graphPrivate(uint64_t seed, int t) {
  for (int round = 0; round < 12; ++round) {
    G g;
    LT payload(t * 100 + round);
    int nsub = 1 + (int)((seed + (uint64_t)(t + round)) % 4);
    typename G::NodeType* prev = nullptr;
    for (int s = 0; s < nsub; ++s) {
      auto& sg = g.addSubgraph();
      for (int k = 0; k < 2; ++k) {
        auto& n = sg.addNode([payload]() { (void)payload.use(); });
        if (prev)
          n.dependsOn(*prev);
        prev = &n;
      }
    }
    setAllNodesIncomplete(g);
    dispenso::SingleThreadExecutor st;
    st(g);
  }
}
static void p_graph_threads(uint64_t seed) {
  {
    std::vector<std::thread> ts;
    for (int t = 0; t < 3; ++t)
      ts.emplace_back([seed, t]() {
        if (t % 2)
          graphPrivate<dispenso::BiPropGraph>(seed, t);
        else
          graphPrivate<dispenso::Graph>(seed, t);
      });
    for (auto& th : ts)
      th.join();
  }
  quiesce();
}

// more subgraphs than the per-type allocator cache holds (kMaxCache = 8): every node allocator is either
// cached or freed when its subgraph goes away; repeated, with both node types, partially rebuilt
template <class G>
static void graphManySubgraphs(uint64_t seed) {
  for (int round = 0; round < 3; ++round) {
    G g;
    std::vector<typename G::SubgraphType*> subs;
    int nsub = 10 + (int)((seed + (uint64_t)round) % 4);
    for (int s = 0; s < nsub; ++s)
      subs.push_back(&g.addSubgraph());
    typename G::NodeType* prev = nullptr;
    LT payload(round);
    for (int s = 0; s < nsub; ++s)
      for (int k = 0; k < 3; ++k) {
        auto& n = subs[(size_t)s]->addNode([payload]() { (void)payload.use(); });
        if (prev)
          n.dependsOn(*prev);
        prev = &n;
      }
    dispenso::SingleThreadExecutor st;
    st(g);
    if (round == 1) {
      subs[2]->clear();
      subs[2]->addNode([payload]() { (void)payload.use(); });
      setAllNodesIncomplete(g);
      st(g);
    }
  }
}
static void p_graph_many(uint64_t seed) {
  graphManySubgraphs<dispenso::Graph>(seed);
  quiesce();
  graphManySubgraphs<dispenso::BiPropGraph>(seed);
  quiesce();
}

static void p_misc(uint64_t) {
  {
    dispenso::AsyncRequest<LT> req;
    req.requestUpdate();
    req.tryEmplaceUpdate(5);
    auto r = req.getUpdate();
    if (r)
      (void)r.value().use();
    req.requestUpdate();
    req.tryEmplaceUpdate(6); // left inside: destroyed with the request
    dispenso::ResourcePool<LT> rp(3, []() { return LT(1); });
    {
      auto h1 = rp.acquire();
      auto h2 = rp.acquire();
      (void)h1.get().use();
      (void)h2.get().use();
    }
    dispenso::ThreadPool pool(2);
    dispenso::Latch latch(3);
    LT cap(2);
    for (int i = 0; i < 3; ++i)
      pool.schedule([cap, &latch]() {
        (void)cap.use();
        latch.count_down();
      });
    latch.wait();
  }
  quiesce();
}

static void p_timed(uint64_t) {
  {
    dispenso::ThreadPool pool(1);
    dispenso::TimedTaskScheduler sched;
    LT cap(3);
    std::atomic<int> n{0};
    {
      dispenso::TimedTask t = sched.schedule(
          pool,
          [cap, &n]() {
            (void)cap.use();
            ++n;
            return true;
          },
          0.0,
          0.001,
          3);
      std::this_thread::sleep_for(std::chrono::milliseconds(15));
    }
    {
      dispenso::TimedTask t2 = sched.schedule(
          pool,
          [cap]() {
            (void)cap.use();
            return true;
          },
          10.0,
          0.0,
          1);
      t2.cancel();
    }
  }
  quiesce();
}

struct Prog {
  const char* name;
  std::function<void(uint64_t)> fn;
};

int main(int argc, char** argv) {
  drv::Args a(argc, argv);
  ctl::Trace tr(a.str("out", "lifetime.ndjson"));
  g_tr = &tr;
  ctl::setMemSink(memSink);
  uint64_t seed = (uint64_t)a.num("seed", 1);
  int rounds = (int)a.num("rounds", 2);
  std::string only = a.str("only", "");
  std::vector<Prog> progs = {
      {"pool_destroy_queued", p_pool_destroy_queued},
      {"pool_zero_threads", p_pool_zero_threads},
      {"taskset_cancel", p_taskset_cancel},
      {"cts_throw", p_cts_throw},
      {"cts_bulk_cancel", p_cts_bulk_cancel},
      {"future_chain", p_future_chain},
      {"future_taskset", p_future_taskset},
      {"pipeline_ok", [](uint64_t s) { p_pipeline(s, false); }},
      {"pipeline_throw", [](uint64_t s) { p_pipeline(s, true); }},
      {"cvector", p_cvector},
      {"small_containers", p_small_containers},
      {"loops", p_loops},
      {"loops_error", p_loops_error},
      {"graph", p_graph},
      {"graph_many", p_graph_many},
      {"graph_throw", p_graph_throw},
      {"cascade_race", p_cascade_race},
      {"graph_threads", p_graph_threads},
      {"misc", p_misc},
      {"timed", p_timed},
  };
  long long execs = 0;
  for (int r = 0; r < rounds; ++r)
    for (auto& p : progs) {
      if (!only.empty() && only != p.name)
        continue;
      reset(p.name);
      p.fn(seed * 31 + (uint64_t)r * 7 + execs);
      ++execs;
    }
  tr.flush();
  printf("DRIVER executions=%lld steps=%lld completed=%lld deadlocks=0 diverged=0 stuck=0\n", execs,
         g_events.load(), execs);
  fflush(stdout);
  return 0; // normal exit: LeakSanitizer runs
}
