// drv_seqvec part 1: element size 256 bytes (first bucket 1), kIteratorPreferSpeed = true;
// buffer placement x reallocation strategy = 6 instantiations of Runner (see drv_seqvec_ops.h).
#include "drv_seqvec_ops.h"
namespace sv {
IRunner* makeF1Fast(ctl::Trace& tr, int inl, int strat) {
  return makePart<256, true>(tr, 1, inl, strat);
}
} // namespace sv
