// E5 for C47 (ForceQueuingTag never runs the functor on the caller, pool with >= 1 thread): free-running rounds
// (no controller, real threads, inert hooks) of force-queued submissions with ALLOCATION FAILURES injected into
// the central queue's enqueue.  The controlled engines (E2-E4) treat the moodycamel enqueue as an opaque step
// that always succeeds; the only branch of the submission paths they can never reach is "enqueue returned
// false" (the queue could not allocate an implicit producer / a new block).  Whatever the library does on that
// branch, C47 still applies: the functor must not be run by the submitting thread inside the call.
//
// Fault injection: the executable is linked with -Wl,--wrap=malloc, so every direct malloc() call compiled into
// it (moodycamel's Traits::malloc, dispenso's alignedMalloc) goes through __wrap_malloc below.  It fails only on
// the thread that armed it, only while that thread is inside a force-queued schedule call, and only for sizes
// below 4096 (the small-buffer allocator that backs OnceFunction grabs >= 8 KiB slabs and is never affected;
// operator new lives in libstdc++.so and is not wrapped).  What can fail is exactly the queue's bookkeeping:
//   * the implicit producer of a thread that has never enqueued to this pool (ThreadPool / ConcurrentTaskSet
//     from a non-pool thread),
//   * a new block once the 32 pre-allocated blocks (1024 slots) are in use (TaskSet token, worker token,
//     established implicit producer): the round first queues ~1100 fillers behind the held workers.
//
// A round: fresh pool of n = 1..3 threads; api = ThreadPool | TaskSet | ConcurrentTaskSet(kLightweight) |
// ConcurrentTaskSet(kHeavy); caller = a fresh non-pool thread | a task running on a pool worker; gate = 1: every
// worker is held inside a task until the caller has finished (nobody sleeps, nothing is dequeued), gate = 0:
// workers run freely.  The caller issues schedule(f, ForceQueuingTag) / scheduleBulk(k, gen, ForceQueuingTag)
// calls, some with the fault armed.  Detection is logical, not timing based: a thread_local depth counter is
// raised around each call and read by the functor.
//
// Records (one per call, one per round):
//  {"e":"FqCall","round":r,"api":0..3,"n":threads,"caller":0 ext|1 worker,"gate":0|1,"bulk":0|k,"armed":0|1,
//   "inj":allocation failures injected during the call,"ret":0 returned|1 threw bad_alloc|2 threw something else,
//   "cnt":functors of the call,"inl":how many of them ran on the calling thread before the call returned,
//   "pre":how many ran before the gate opened,"once":ran exactly once by the time the pool was destroyed,
//   "never":never ran,"multi":ran more than once,"late":ran after ~ThreadPool returned}
//  {"e":"FqRound","round":r,...,"calls":c,"fill":fillers submitted,"fillonce":fillers that ran exactly once,
//   "fillinl":fillers that ran on the caller inside their call,"thrown":calls that threw,"stuck":0|1}
//
// After a bad_alloc out of a task set's schedule the unchanged library leaves the set's outstanding count (and
// workRemaining_) raised - its own comment says so - so such a set is never waited on or destroyed (it is
// leaked); ~ThreadPool drains what was queued.  Sets that saw no throw are waited on and destroyed normally.
//   --out FILE --stress ROUNDS --seed S
#include <dispenso/task_set.h>
#include <dispenso/thread_pool.h>

#include <unistd.h>

#include <atomic>
#include <chrono>
#include <cstdio>
#include <deque>
#include <new>
#include <thread>
#include <vector>

#include "../ctl/ctl.h"
#include "../ctl/drv_common.h"

// ---------------------------------------------------------------------------------------------- fault injection
static thread_local int tl_inFqCall = 0; // > 0 while this thread is inside a force-queued schedule call
static thread_local bool tl_armed = false;
static thread_local int tl_injected = 0;

extern "C" void* __real_malloc(size_t);
extern "C" void* __wrap_malloc(size_t n) {
  if (tl_armed && tl_inFqCall > 0 && n < 4096) {
    ++tl_injected;
    return nullptr;
  }
  return __real_malloc(n);
}

// ---------------------------------------------------------------------------------------------- bookkeeping
static std::atomic<long long> g_progress{0};
static FILE* g_out = nullptr;
static char g_roundInfo[256];

struct Slot {
  std::atomic<int> runs{0}, inl{0}, pre{0}, late{0};
};

struct Round {
  std::atomic<int> gateOpen{0};
  std::atomic<int> poolGone{0};
  std::atomic<int> held{0};
  std::atomic<int> callsDone{0};
  std::atomic<int> callerFinished{0};
  std::deque<Slot> slots; // stable addresses; only the caller appends, before the functor exists
  std::deque<Slot> fill;
};

struct Probe {
  Round* r;
  Slot* s;
  void operator()() const {
    if (tl_inFqCall > 0)
      s->inl.fetch_add(1, std::memory_order_relaxed);
    if (!r->gateOpen.load(std::memory_order_acquire))
      s->pre.fetch_add(1, std::memory_order_relaxed);
    if (r->poolGone.load(std::memory_order_acquire))
      s->late.fetch_add(1, std::memory_order_relaxed);
    s->runs.fetch_add(1, std::memory_order_relaxed);
  }
};

struct CallRec {
  int bulk, armed, inj, ret;
  size_t first, cnt;
};

static void watchdog() {
  long long last = -1;
  int idle = 0;
  for (;;) {
    std::this_thread::sleep_for(std::chrono::milliseconds(500));
    long long p = g_progress.load();
    if (p == last) {
      if (++idle >= 40) { // 20 s without a finished round
        fprintf(g_out, "{\"e\":\"FqRound\",%s,\"calls\":0,\"fill\":0,\"fillonce\":0,\"fillinl\":0,\"thrown\":0,\"stuck\":1}\n",
                g_roundInfo);
        fflush(g_out);
        printf("DRIVER executions=%lld steps=%lld completed=%lld deadlocks=1 diverged=0 stuck=0\n", p + 1, p + 1, p);
        fflush(stdout);
        _exit(0);
      }
    } else {
      idle = 0;
      last = p;
    }
  }
}

// one force-queued call, optionally with allocation failures armed on this thread for its duration
template <typename F>
static int guardedCall(bool armed, int& inj, F&& f) {
  int ret = 0;
  tl_injected = 0;
  ++tl_inFqCall;
  tl_armed = armed;
  try {
    f();
  } catch (const std::bad_alloc&) {
    ret = 1;
  } catch (...) {
    ret = 2;
  }
  tl_armed = false;
  --tl_inFqCall;
  inj = tl_injected;
  return ret;
}

// api adaptors: single(Probe) and, for the task sets, bulk(k, gen)
struct PoolApi {
  dispenso::ThreadPool& pool;
  static constexpr bool kBulk = false;
  void make() {}
  void single(Probe p) {
    pool.schedule(p, dispenso::ForceQueuingTag());
  }
  template <typename G>
  void bulk(size_t, G&&) {}
  void waitAndDestroy() {}
};
struct TsApi {
  dispenso::ThreadPool& pool;
  dispenso::TaskSet* ts = nullptr;
  static constexpr bool kBulk = true;
  void make() {
    ts = new dispenso::TaskSet(pool);
  }
  void single(Probe p) {
    ts->schedule(p, dispenso::ForceQueuingTag());
  }
  template <typename G>
  void bulk(size_t k, G&& g) {
    ts->scheduleBulk(k, g, dispenso::ForceQueuingTag());
  }
  void waitAndDestroy() {
    ts->wait();
    delete ts;
  }
};
struct CtsApi {
  dispenso::ThreadPool& pool;
  dispenso::TaskCost cost;
  dispenso::ConcurrentTaskSet* ts = nullptr;
  static constexpr bool kBulk = true;
  void make() {
    ts = new dispenso::ConcurrentTaskSet(pool, cost);
  }
  void single(Probe p) {
    ts->schedule(p, dispenso::ForceQueuingTag());
  }
  template <typename G>
  void bulk(size_t k, G&& g) {
    ts->scheduleBulk(k, g, dispenso::ForceQueuingTag());
  }
  void waitAndDestroy() {
    ts->wait();
    delete ts;
  }
};

// The caller's program.  Runs on a fresh non-pool thread or inside a task on a pool worker.
template <typename Api>
static void callerBody(Api api, Round& R, std::vector<CallRec>& calls, uint64_t rng, bool gated) {
  api.make();
  int thrown = 0;
  auto oneCall = [&](bool armed, size_t k) { // k = 0: schedule(f, FQ); k > 0: scheduleBulk(k, gen, FQ)
    CallRec c;
    c.bulk = (int)k;
    c.armed = armed;
    c.first = R.slots.size();
    c.cnt = k ? k : 1;
    for (size_t j = 0; j < c.cnt; ++j)
      R.slots.emplace_back();
    // deque: elements are never moved, but they are not contiguous; take the addresses one by one
    std::vector<Slot*> ptrs(c.cnt);
    for (size_t j = 0; j < c.cnt; ++j)
      ptrs[j] = &R.slots[c.first + j];
    Round* rp = &R;
    if (k == 0) {
      c.ret = guardedCall(armed, c.inj, [&]() { api.single(Probe{rp, ptrs[0]}); });
    } else {
      Slot** pp = ptrs.data();
      c.ret = guardedCall(armed, c.inj, [&]() { api.bulk(k, [rp, pp](size_t j) { return Probe{rp, pp[j]}; }); });
    }
    thrown += c.ret != 0;
    calls.push_back(c);
  };
  auto pick = [&](int armedOutOf4) {
    bool armed = (int)(ctl::splitmix(rng) % 4) < armedOutOf4;
    size_t k = 0;
    if (Api::kBulk && ctl::splitmix(rng) % 4 == 0)
      k = 1 + ctl::splitmix(rng) % 5;
    oneCall(armed, k);
  };
  // phase A: the caller's very first submissions to this pool (implicit producer creation for non-pool callers)
  for (int i = 0; i < 4; ++i)
    pick(3);
  // phase B: use up the queue's pre-allocated blocks (1024 slots); fillers are ordinary force-queued functors
  size_t nfill = gated ? 1000 + ctl::splitmix(rng) % 200 : 100 + ctl::splitmix(rng) % 100;
  for (size_t i = 0; i < nfill; ++i) {
    R.fill.emplace_back();
    int inj;
    int ret = guardedCall(false, inj, [&]() { api.single(Probe{&R, &R.fill.back()}); });
    if (ret != 0) { // not expected (no fault armed); recorded as a call so that the validator sees it
      CallRec c{0, 0, inj, ret, 0, 0};
      calls.push_back(c);
      ++thrown;
    }
  }
  // phase C: submissions across block boundaries, most of them with the fault armed
  size_t nc = 48 + ctl::splitmix(rng) % 32;
  for (size_t i = 0; i < nc; ++i)
    pick(3);
  R.callsDone.store(1, std::memory_order_release);
  while (!R.gateOpen.load(std::memory_order_acquire))
    std::this_thread::yield();
  // a set that saw a throw has an inflated outstanding count (documented in the library): never wait on it
  if (thrown == 0)
    api.waitAndDestroy();
  R.callerFinished.store(1, std::memory_order_release);
}

struct Stats {
  long long calls = 0, thrown = 0, inlined = 0;
  long long injApi[4] = {0, 0, 0, 0};
};

static void runRound(long long r, int api, int n, int callerKind, int gate, uint64_t rng, Stats& st) {
  snprintf(g_roundInfo, sizeof g_roundInfo, "\"round\":%lld,\"api\":%d,\"n\":%d,\"caller\":%d,\"gate\":%d", r, api, n,
           callerKind, gate);
  Round* R = new Round; // leaked together with the sets that reference it
  std::vector<CallRec> calls;
  if (!gate)
    R->gateOpen.store(1);
  auto* pool = new dispenso::ThreadPool((size_t)n);
  int holders = gate ? (callerKind == 1 ? n - 1 : n) : 0;
  for (int i = 0; i < holders; ++i)
    pool->schedule(
        [R]() {
          R->held.fetch_add(1);
          while (!R->gateOpen.load(std::memory_order_acquire))
            std::this_thread::sleep_for(std::chrono::microseconds(50));
        },
        dispenso::ForceQueuingTag());
  while (R->held.load() < holders)
    std::this_thread::yield();
  auto body = [&, api]() {
    switch (api) {
      case 0:
        callerBody(PoolApi{*pool}, *R, calls, rng, gate != 0);
        break;
      case 1:
        callerBody(TsApi{*pool}, *R, calls, rng, gate != 0);
        break;
      case 2:
        callerBody(CtsApi{*pool, dispenso::TaskCost::kLightweight}, *R, calls, rng, gate != 0);
        break;
      default:
        callerBody(CtsApi{*pool, dispenso::TaskCost::kHeavy}, *R, calls, rng, gate != 0);
        break;
    }
  };
  std::thread ext;
  if (callerKind == 0)
    ext = std::thread(body);
  else
    pool->schedule(body, dispenso::ForceQueuingTag());
  while (!R->callsDone.load(std::memory_order_acquire))
    std::this_thread::yield();
  R->gateOpen.store(1, std::memory_order_release);
  while (!R->callerFinished.load(std::memory_order_acquire))
    std::this_thread::yield();
  if (ext.joinable())
    ext.join();
  delete pool; // joins the workers and drains whatever is still queued
  R->poolGone.store(1, std::memory_order_release);

  long long thrown = 0;
  for (auto& c : calls) {
    int inl = 0, pre = 0, once = 0, never = 0, multi = 0, late = 0;
    for (size_t j = 0; j < c.cnt; ++j) {
      Slot& s = R->slots[c.first + j];
      int runs = s.runs.load();
      inl += s.inl.load();
      pre += s.pre.load();
      late += s.late.load();
      once += runs == 1;
      never += runs == 0;
      multi += runs > 1;
    }
    thrown += c.ret != 0;
    st.inlined += inl;
    st.injApi[api] += c.inj;
    fprintf(g_out,
            "{\"e\":\"FqCall\",%s,\"bulk\":%d,\"armed\":%d,\"inj\":%d,\"ret\":%d,\"cnt\":%zu,\"inl\":%d,\"pre\":%d,"
            "\"once\":%d,\"never\":%d,\"multi\":%d,\"late\":%d}\n",
            g_roundInfo, c.bulk, c.armed, c.inj, c.ret, c.cnt, inl, pre, once, never, multi, late);
  }
  int fillonce = 0, fillinl = 0;
  for (auto& s : R->fill) {
    fillonce += s.runs.load() == 1;
    fillinl += s.inl.load();
  }
  st.inlined += fillinl;
  st.calls += (long long)calls.size();
  st.thrown += thrown;
  fprintf(g_out, "{\"e\":\"FqRound\",%s,\"calls\":%zu,\"fill\":%zu,\"fillonce\":%d,\"fillinl\":%d,\"thrown\":%lld,\"stuck\":0}\n",
          g_roundInfo, calls.size(), R->fill.size(), fillonce, fillinl, thrown);
  fflush(g_out);
}

int main(int argc, char** argv) {
  drv::Args a(argc, argv);
  g_out = fopen(a.str("out", "fqfault.ndjson").c_str(), "w");
  if (!g_out)
    return 2;
  long long rounds = a.num("stress", 48);
  uint64_t rng = (uint64_t)a.num("seed", 1) * 0x9e3779b97f4a7c15ULL + 47;
  std::thread(watchdog).detach();
  Stats st;
  // the matrix api(4) x n(3) x caller(2) x gate(2) = 48 combinations is walked systematically from a seeded offset,
  // so 48 rounds cover it completely; the per-round program is random
  long long off = (long long)(ctl::splitmix(rng) % 48);
  for (long long r = 0; r < rounds; ++r) {
    long long c = (r + off) % 48;
    int api = (int)(c % 4);
    int n = 1 + (int)((c / 4) % 3);
    int callerKind = (int)((c / 12) % 2);
    int gate = (int)((c / 24) % 2) ? 0 : 1;
    runRound(r, api, n, callerKind, gate, ctl::splitmix(rng), st);
    g_progress.fetch_add(1);
  }
  fclose(g_out);
  printf("DRIVER executions=%lld steps=%lld completed=%lld deadlocks=0 diverged=0 stuck=0 thrown=%lld inlined=%lld "
         "inj_pool=%lld inj_ts=%lld inj_ctsl=%lld inj_ctsh=%lld\n",
         rounds, st.calls, rounds, st.thrown, st.inlined, st.injApi[0], st.injApi[1], st.injApi[2], st.injApi[3]);
  fflush(stdout);
  _exit(0);
}
