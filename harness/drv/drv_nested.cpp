// Driver for C06 (spec/taskset/Nested.tla, NestedTrace.tla): small acyclic nesting programs on the
// REAL ThreadPool / ConcurrentTaskSet / TaskSet / Future / parallel_for under the controlled scheduler.
//
//   --out FILE --progs FILE (one program per line, optional prefixes "NW=0,2 " "R=12 ") --nw 0,1,2 --runs N --seed S [--pct D]
//   [--maxsteps M] [--mult 32] [--notimeout]
//
// program text:   SETS;TASKS;MAIN
//   SETS   comma list of H (ConcurrentTaskSet, TaskCost::kHeavy = placed scheduling), L (ConcurrentTaskSet,
//          kLightweight), T (TaskSet)
//   TASKS  '|' separated  k@set:ops   (k = 1,2,...; set 0 = a Future launched on the pool)
//   ops    comma list:  sK schedule task K into its set   aK launch future K    wS wait on set S
//                       gK Future::wait on K              bS.k1.k2 scheduleBulk  pS.k1.k2 waiting parallel_for
//          an op may carry a schedule restriction ^bK (^eK): it is not started before task K began
//          (ended); ^i: not before every pool worker is parked.  This only narrows the schedules explored (directed scenarios); it is not part of
//          the program.
//          Stale central-queue hint (prefix "STALE=K "): ThreadPool::centralQueueNonEmpty_ is documented as allowed to be
//          wrong - a worker that saw the queue empty clears it with a plain store that may overwrite a producer's set.
//          With STALE=K a worker that arrives at that store (site TpWkClearFlag) is not resumed before the schedule call
//          of task K has returned (or main's program ended), so its clear hides task K (and everything queued before it).
//          ^c: not before every pool worker is parked at that store; ^hK: not before the hint is stale (reads false
//          while the central queue is not empty) or task K began.  Again pure schedule restrictions.
// Every body logs begin/end, every API call logs call/ret (each in its own step).  C++ only drives,
// records and projects (central queue / ring / steal ring sizes); every verdict is TLC's.
#include <dispenso/future.h>
#include <dispenso/parallel_for.h>
#include <dispenso/task_set.h>
#include <dispenso/thread_pool.h>

#include <unistd.h>

#include <atomic>
#include <cstring>
#include <fstream>
#include <memory>

#include "../ctl/ctl.h"
#include "../ctl/drv_common.h"

using ctl::Json;

static long long g_execCount = 0; // executions so far (odd ones create non-deferred futures)

struct Op {
  char op = 0; // s a w g b p
  int a = 0;
  std::vector<int> ks;
  char guard = 0; // 'b' / 'e' / 'i' / 'c' / 'h' / 0
  int gk = 0;
};
struct TaskDef {
  int set = 0;
  std::vector<Op> body;
};
struct Program {
  std::string text;
  std::vector<int> nws; // pool sizes this program is run with (empty = the --nw list)
  long long runs = 0; // executions per pool size (0 = --runs)
  int stale = 0; // directed stale central-queue hint: hide task `stale` (0 = off)
  std::vector<char> sets; // H L T
  std::vector<TaskDef> tasks; // 1-based: tasks[k-1]
  std::vector<Op> main;
};

static std::vector<Op> parseOps(const std::string& s) {
  std::vector<Op> out;
  for (auto& o : drv::split(s, ',')) {
    if (o.empty())
      continue;
    Op d;
    std::string core = o;
    size_t g = o.find('^');
    if (g != std::string::npos) {
      core = o.substr(0, g);
      d.guard = o[g + 1];
      d.gk = atoi(o.c_str() + g + 2);
    }
    d.op = core[0];
    auto nums = drv::split(core.substr(1), '.');
    d.a = atoi(nums[0].c_str());
    for (size_t i = 1; i < nums.size(); ++i)
      d.ks.push_back(atoi(nums[i].c_str()));
    out.push_back(d);
  }
  return out;
}

static Program parseProgram(const std::string& line) {
  Program p;
  std::string text = line;
  for (;;) { // optional prefixes "NW=0,2,3 " and "R=12 "
    size_t sp = text.find(' ');
    if (text.rfind("NW=", 0) == 0) {
      for (auto& s : drv::split(text.substr(3, sp - 3), ','))
        p.nws.push_back(atoi(s.c_str()));
    } else if (text.rfind("R=", 0) == 0) {
      p.runs = atoll(text.c_str() + 2);
    } else if (text.rfind("STALE=", 0) == 0) {
      p.stale = atoi(text.c_str() + 6);
    } else {
      break;
    }
    text = text.substr(sp + 1);
  }
  p.text = text;
  auto parts = drv::split(text, ';');
  if (parts.size() != 3) {
    fprintf(stderr, "ERROR drv_nested: bad program %s\n", text.c_str());
    _exit(3);
  }
  for (auto& s : drv::split(parts[0], ','))
    if (!s.empty())
      p.sets.push_back(s[0]);
  for (auto& t : drv::split(parts[1], '|')) {
    if (t.empty())
      continue;
    size_t at = t.find('@'), col = t.find(':');
    TaskDef d;
    d.set = atoi(t.c_str() + at + 1);
    d.body = parseOps(t.substr(col + 1));
    p.tasks.push_back(d);
  }
  p.main = parseOps(parts[2]);
  return p;
}

static const char* opName(char c) {
  switch (c) {
    case 's':
      return "sched";
    case 'a':
      return "async";
    case 'w':
      return "wait";
    case 'g':
      return "get";
    case 'b':
      return "bulk";
    default:
      return "pfor";
  }
}
static int opCode(char c) {
  switch (c) {
    case 's':
      return 1;
    case 'w':
      return 2;
    case 'g':
      return 3;
    case 'a':
      return 4;
    case 'b':
      return 5;
    default:
      return 6;
  }
}

static void opsJson(Json& j, const std::vector<Op>& ops) {
  j.beginArr();
  for (auto& o : ops) {
    j.beginObj();
    j.kv("op", std::string(opName(o.op)));
    j.kv("a", o.a);
    j.arr("ks", o.ks.begin(), o.ks.end());
    j.endObj();
  }
  j.endArr();
}

static std::string headerLine(const std::vector<Program>& progs) {
  Json j;
  j.beginObj();
  j.kv("e", std::string("Header"));
  j.kv("ss", DISPENSO_TUNE_STEAL_RING_SHARING);
  j.key("progs").beginArr();
  for (auto& p : progs) {
    j.beginObj();
    j.key("sets").beginArr();
    for (char c : p.sets)
      j.str(c == 'H' ? "heavy" : c == 'L' ? "light" : "ts");
    j.endArr();
    j.key("tasks").beginArr();
    for (auto& t : p.tasks) {
      j.beginObj();
      j.kv("set", t.set);
      j.key("body");
      opsJson(j, t.body);
      j.endObj();
    }
    j.endArr();
    j.key("main");
    opsJson(j, p.main);
    j.endObj();
  }
  j.endArr();
  j.endObj();
  return j.s;
}

struct World {
  const Program* prog = nullptr;
  dispenso::ThreadPool* pool = nullptr;
  std::vector<std::unique_ptr<dispenso::ConcurrentTaskSet>> cts;
  std::vector<std::unique_ptr<dispenso::TaskSet>> ts;
  std::vector<dispenso::Future<void>> futs;
  std::unique_ptr<std::atomic<int>[]> begun, ended;
  std::unique_ptr<std::atomic<int>[]> schedRet; // the schedule call of task k has returned
  int nw = 0;
  std::atomic<int> heldAtClear{0}; // workers currently parked before their hint-clearing store (STALE=K)
};

// Directed stale hint (STALE=K): the site filter runs on the thread that arrives at a point, before it parks there.  A
// pool worker arriving at TpWkClearFlag has just seen the central queue empty; it first parks at the gate "GateStale"
// until the schedule call of task K has returned, then performs its (now stale) clear.  The gate is a driver-level
// event: a stuttering step for the specification.  Released at the end of main's program so that tear-down proceeds.
static World* g_world = nullptr;
static bool staleRelease(World* w) {
  return w->ended[0].load() != 0 || w->schedRet[(size_t)w->prog->stale].load() != 0;
}
static void holdStaleClear(const char* s) {
  World* w = g_world;
  if (!w || !w->prog->stale || s[0] != 'T' || strcmp(s, "TpWkClearFlag") != 0 || ctl::selfName()[0] != 'w' || staleRelease(w))
    return;
  w->heldAtClear.fetch_add(1);
  ctl::gate("GateStale", [w]() { return staleRelease(w); });
  w->heldAtClear.fetch_sub(1);
}

static void runOps(World* w, const std::vector<Op>& ops);

static void taskBody(World* w, int k) {
  ctl::note("begin", k);
  w->begun[(size_t)k].store(1);
  runOps(w, w->prog->tasks[(size_t)k - 1].body);
  ctl::point("DrEnd");
  ctl::note("end", k);
  w->ended[(size_t)k].store(1);
}

static void runOps(World* w, const std::vector<Op>& ops) {
  for (auto& o : ops) {
    if (o.guard == 'i') {
      // not before every pool worker is parked (so that placed scheduling finds a sleeper to claim)
      ctl::gate("DrOp", []() { return ctl::allDynamicThreadsParked(); });
    } else if (o.guard == 'c') {
      // not before every pool worker is parked in front of its hint-clearing store (STALE=K programs)
      ctl::gate("DrOp", [w]() { return w->heldAtClear.load() >= w->nw; });
    } else if (o.guard == 'h') {
      // not before the central-queue hint is stale (reads "empty" while a task is queued) - or task gk began, after
      // which it cannot become stale for that task any more (an idle worker's time-out probe repaired it)
      std::atomic<int>* flag = &w->begun[(size_t)o.gk];
      ctl::gate("DrOp", [w, flag]() {
        return flag->load() != 0 || (!w->pool->centralQueueNonEmpty_.load() && w->pool->work_.size_approx() > 0);
      });
    } else if (o.guard) {
      std::atomic<int>* flag = o.guard == 'b' ? &w->begun[(size_t)o.gk] : &w->ended[(size_t)o.gk];
      ctl::gate("DrOp", [flag]() { return flag->load() != 0; });
    } else {
      ctl::point("DrOp");
    }
    int code = opCode(o.op);
    ctl::note("call", code, o.a);
    switch (o.op) {
      case 's': {
        int k = o.a;
        int s = w->prog->tasks[(size_t)k - 1].set;
        if (w->prog->sets[(size_t)s - 1] == 'T')
          w->ts[(size_t)s - 1]->schedule([w, k]() { taskBody(w, k); });
        else
          w->cts[(size_t)s - 1]->schedule([w, k]() { taskBody(w, k); });
        break;
      }
      case 'a': {
        int k = o.a;
        // every other execution creates its futures without the deferred bit (kNotDeferred): Future::wait() / get()
        // still run a not-yet-started future on the waiting thread (only the timed waits honour the bit), so the
        // program has the same specification either way
        if (g_execCount % 2)
          w->futs[(size_t)k] = dispenso::Future<void>([w, k]() { taskBody(w, k); }, *w->pool, dispenso::kNotAsync,
                                                      dispenso::kNotDeferred);
        else
          w->futs[(size_t)k] = dispenso::Future<void>([w, k]() { taskBody(w, k); }, *w->pool);
        break;
      }
      case 'w': {
        if (w->prog->sets[(size_t)o.a - 1] == 'T')
          w->ts[(size_t)o.a - 1]->wait();
        else
          w->cts[(size_t)o.a - 1]->wait();
        break;
      }
      case 'g':
        w->futs[(size_t)o.a].wait();
        break;
      case 'b': {
        const std::vector<int>* ks = &o.ks;
        auto gen = [w, ks](size_t i) {
          int k = (*ks)[i];
          return [w, k]() { taskBody(w, k); };
        };
        if (w->prog->sets[(size_t)o.a - 1] == 'T')
          w->ts[(size_t)o.a - 1]->scheduleBulk(o.ks.size(), gen);
        else
          w->cts[(size_t)o.a - 1]->scheduleBulk(o.ks.size(), gen);
        break;
      }
      case 'p': {
        const std::vector<int>* ks = &o.ks;
        auto body = [w, ks](size_t i) { taskBody(w, (*ks)[i]); };
        dispenso::ParForOptions po;
        po.defaultChunking = dispenso::ParForChunking::kStatic;
        if (w->prog->sets[(size_t)o.a - 1] == 'T')
          dispenso::parallel_for(*w->ts[(size_t)o.a - 1], size_t{0}, o.ks.size(), body, po);
        else
          dispenso::parallel_for(*w->cts[(size_t)o.a - 1], size_t{0}, o.ks.size(), body, po);
        break;
      }
    }
    ctl::point("DrRet");
    ctl::note("ret", code, o.a);
    if (o.op == 's')
      w->schedRet[(size_t)o.a].store(1);
  }
}

static bool siteFilter(const char* s) {
  holdStaleClear(s);
  // pool-level points only: rings / queues / arenas are atomic units; the task-set points of the
  // C02/C04/C05 component (prefix Ts) pass through, so that a pop and the body it starts are one step
  return (s[0] == 'T' && s[1] == 'p') || (s[0] == 'P' && s[1] == 'w') || (s[0] == 'E' && s[1] == 'w') ||
      (s[0] == 'F' && s[1] == 'u') || (s[0] == 'D' && s[1] == 'r') ||
      (s[0] == 'I' && s[1] == 'n' && s[2] == 'l'); // Inl* notes (inline depth)
}

static void project(World* w, Json& j) {
  if (!w->pool) {
    j.kv("alive", 0);
    return;
  }
  auto& p = *w->pool;
  j.kv("alive", 1);
  j.kv("cq", (long long)p.work_.size_approx());
  j.kv("flag", p.centralQueueNonEmpty_.load() ? 1 : 0); // the lossy hint (diagnosis only: no conjunct may rely on it)
  j.key("rings").beginArr();
  for (size_t i = 0; i < p.rings_.size(); ++i)
    j.num((long long)p.rings_[i].size());
  j.endArr();
  j.key("steal").beginArr();
  for (size_t i = 0; i < p.stealRings_.size(); ++i)
    j.num((long long)p.stealRings_[i].size());
  j.endArr();
}

static ctl::RunResult execute(const Program& prog, int pidx, int nw, int mult, ctl::RunOptions opts,
                              ctl::Trace& tr, const std::string& tag) {
  ++g_execCount;
  World* w = new World();
  w->prog = &prog;
  size_t nt = prog.tasks.size();
  w->begun.reset(new std::atomic<int>[nt + 1]);
  w->ended.reset(new std::atomic<int>[nt + 1]);
  w->schedRet.reset(new std::atomic<int>[nt + 1]);
  for (size_t i = 0; i <= nt; ++i) {
    w->begun[i].store(0);
    w->ended[i].store(0);
    w->schedRet[i].store(0);
  }
  w->nw = nw;
  g_world = w;
  w->futs.resize(nt + 1);
  {
    Json j;
    j.beginObj();
    j.kv("e", std::string("Reset"));
    j.kv("tag", tag);
    j.kv("p", pidx);
    j.kv("nw", nw);
    j.endObj();
    tr.line(j.s);
  }
  ctl::Controller c(tr);
  ctl::setSiteFilter(siteFilter);
  c.setProjection([w](Json& j) { project(w, j); });
  c.addThread("main", [w, nw, mult]() {
    ctl::point("DrSetup");
    w->pool = new dispenso::ThreadPool((size_t)nw, (size_t)mult);
    for (char k : w->prog->sets) {
      w->cts.emplace_back();
      w->ts.emplace_back();
      if (k == 'H')
        w->cts.back().reset(new dispenso::ConcurrentTaskSet(*w->pool, dispenso::TaskCost::kHeavy));
      else if (k == 'L')
        w->cts.back().reset(new dispenso::ConcurrentTaskSet(*w->pool, dispenso::TaskCost::kLightweight));
      else
        w->ts.back().reset(new dispenso::TaskSet(*w->pool));
    }
    runOps(w, w->prog->main);
    ctl::point("DrEnd");
    ctl::note("end", 0);
    w->ended[0].store(1);
    // tear-down (not part of the program): every set has been waited for, only husks can be queued
    w->futs.clear();
    w->cts.clear();
    w->ts.clear();
    auto* p = w->pool;
    delete p;
    w->pool = nullptr;
  });
  ctl::RunResult res = c.run(opts);
  g_world = nullptr;
  Json j;
  j.beginObj();
  if (res.completed) {
    j.kv("e", std::string("End"));
  } else if (!res.deadlock && !res.diverged && !res.stuck) {
    j.kv("e", std::string("Stalled"));
    j.kv("steps", (long long)res.steps);
    j.key("s").beginObj();
    project(w, j);
    j.endObj();
  }
  j.endObj();
  if (j.s != "{}")
    tr.line(j.s);
  if (res.completed)
    delete w;
  return res;
}

int main(int argc, char** argv) {
  drv::Args a(argc, argv);
  ctl::Trace tr(a.str("out", "trace.ndjson"));
  drv::Totals tot;
  std::vector<Program> progs;
  {
    std::ifstream f(a.str("progs", ""));
    std::string line;
    while (std::getline(f, line))
      if (!line.empty() && line[0] != '#')
        progs.push_back(parseProgram(line));
  }
  if (progs.empty()) {
    fprintf(stderr, "ERROR drv_nested: no programs\n");
    return 3;
  }
  tr.line(headerLine(progs));
  std::vector<int> nws;
  for (auto& s : drv::split(a.str("nw", "0,1,2"), ','))
    nws.push_back(atoi(s.c_str()));
  long long runs = a.num("runs", 4);
  uint64_t seed = (uint64_t)a.num("seed", 1);
  int mult = (int)a.num("mult", 32);
  int pct = (int)a.num("pct", 0);
  long long stalled = 0;
  bool stop = false;
  for (size_t pi = 0; pi < progs.size() && !stop; ++pi)
    for (int nw : (progs[pi].nws.empty() ? nws : progs[pi].nws)) {
      for (long long i = 0; i < (progs[pi].runs ? progs[pi].runs : runs) && !stop; ++i) {
        ctl::RunOptions o;
        o.mode = ctl::RunOptions::Random;
        o.seed = seed * 1000003ULL + (uint64_t)pi * 7919 + (uint64_t)nw * 104729 + (uint64_t)i;
        // every third run uses PCT priorities (a high-priority spinner is only preempted by the
        // scheduler's 1/16 random picks, so these runs are longer)
        o.pctDepth = (pct > 0 && i % 3 == 2) ? pct : 0;
        o.allowTimeout = !a.has("notimeout");
        o.maxSteps = (size_t)a.num("maxsteps", 30000) * (o.pctDepth > 0 ? 10 : 1);
        auto r = execute(progs[pi], (int)pi + 1, nw, mult, o, tr,
                         "p" + std::to_string(pi + 1) + "n" + std::to_string(nw) + "s" + std::to_string(o.seed));
        tot.add(r);
        if (!r.completed) {
          if (!r.deadlock && !r.diverged && !r.stuck)
            ++stalled;
          stop = true; // parked threads cannot be unwound: one incomplete execution per process
        }
      }
      if (stop)
        break;
    }
  tr.flush();
  tot.print();
  printf("STALLED %lld\n", stalled);
  fflush(stdout);
  _exit(0);
}
