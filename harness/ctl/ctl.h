// Controlled scheduler + trace writer for the dispenso verification harnesses.
//
// Logical threads are real std::threads.  In CONTROLLED mode exactly one logical thread runs at a
// time: a thread stops at every DISPENSO_VERIF_POINT (and at ctl::point) until the controller grants
// it the next step.  After every step the controller appends one ndjson event
//   {"e":<site at which the thread was parked = the spec action it just executed>,"t":<thread>,
//    "r":[...values noted during the step...], "s":{...projected shared state...}}
// to the trace.  The modelled futex gives the controller the kernel's choices (which waiters a
// FUTEX_WAKE wakes, whether a timed wait times out, spurious returns).
//
// In FREE mode threads run truly concurrently; points inject seeded random delays and notes are
// written under a lock with a global sequence number (only invoke/response order is meaningful).
#pragma once

#include <atomic>
#include <cstdint>
#include <cstdio>
#include <functional>
#include <memory>
#include <string>
#include <thread>
#include <vector>

namespace ctl {

// ------------------------------------------------------------------------------------------ JSON
struct Json {
  std::string s;
  bool first = true;
  void sep() {
    if (!first)
      s += ',';
    first = false;
  }
  Json& key(const char* k) {
    sep();
    s += '"';
    s += k;
    s += "\":";
    first = true;
    return *this;
  }
  Json& num(long long v);
  Json& str(const std::string& v) {
    sep();
    s += '"';
    s += v;
    s += '"';
    return *this;
  }
  Json& boolean(bool v) {
    sep();
    s += v ? "true" : "false";
    return *this;
  }
  Json& raw(const std::string& v) {
    sep();
    s += v;
    return *this;
  }
  Json& beginObj() {
    sep();
    s += '{';
    first = true;
    return *this;
  }
  Json& endObj() {
    s += '}';
    first = false;
    return *this;
  }
  Json& beginArr() {
    sep();
    s += '[';
    first = true;
    return *this;
  }
  Json& endArr() {
    s += ']';
    first = false;
    return *this;
  }
  Json& kv(const char* k, long long v) {
    key(k);
    return num(v);
  }
  Json& kv(const char* k, const std::string& v) {
    key(k);
    return str(v);
  }
  Json& kvb(const char* k, bool v) {
    key(k);
    return boolean(v);
  }
  template <class It>
  Json& arr(const char* k, It b, It e) {
    key(k);
    beginArr();
    for (; b != e; ++b)
      num(static_cast<long long>(*b));
    return endArr();
  }
};

// ----------------------------------------------------------------------------------- trace file
class Trace {
 public:
  explicit Trace(const std::string& path);
  ~Trace();
  void line(const std::string& l); // appends l + '\n' (thread-safe)
  size_t lines() const {
    return lines_;
  }
  void flush();

 private:
  FILE* f_;
  size_t lines_ = 0;
};

// ------------------------------------------------------------------------------------- schedule
// One step of a schedule: which logical thread advances; for environment steps, the kind.
struct Step {
  std::string thread; // logical thread name
  std::string action; // expected site (empty = any); "FutexTimeout"/"FutexSpurious" = env steps
  std::vector<std::string> wake; // for a FUTEX_WAKE step: the waiters to wake (names)
  bool hasWake = false;
};
using Schedule = std::vector<Step>;

// Parses a schedule file: one schedule per line, each a JSON array of
// {"t":"p1","a":"PushCas","w":["w0"]} objects (w optional).
std::vector<Schedule> readSchedules(const std::string& path);

struct RunOptions {
  enum Mode { Replay, Random, Free } mode = Random;
  const Schedule* schedule = nullptr; // Replay
  uint64_t seed = 1; // Random / Free
  bool allowTimeout = true; // may the environment fire time-outs of timed futex waits
  bool allowSpurious = false; // may the environment return spuriously from futex waits
  int pctDepth = 0; // >0: PCT-style priorities with that many change points; 0: uniform
  size_t maxSteps = 100000;
  double watchdogSec = 20.0;
  double blockedGraceSec = 15.0; // how long to wait for a really-blocked thread (join) to come back
  // After the schedule is exhausted in Replay mode: continue with the lowest-index runnable thread
  // until everything finishes (the tail is still recorded and validated).
  bool finishAfterReplay = true;
};

struct RunResult {
  bool completed = false; // all logical threads finished
  bool deadlock = false; // nothing runnable, some thread not finished
  bool diverged = false; // replay named a thread/action that is not available
  bool stuck = false; // a granted step did not reach its next point within the watchdog
  size_t steps = 0;
  std::string detail;
};

// --------------------------------------------------------------------------------- controller
class Controller {
 public:
  Controller(Trace& trace);
  ~Controller();

  // Declares a logical thread.  Bodies start running inside run().
  void addThread(const std::string& name, std::function<void()> body);

  // Projection of the shared state, called by the controller after every step while no logical
  // thread is running.  Appends key/values into the (already opened) "s" object.
  void setProjection(std::function<void(Json&)> p) {
    project_ = std::move(p);
  }

  // Name assigned to library-created threads (pool workers): kind + index by default.
  void setDynamicThreadNamer(std::function<std::string(const char*, const void*, long long)> n) {
    namer_ = std::move(n);
  }

  RunResult run(const RunOptions& opts);

  struct Impl;
  Impl* impl() {
    return impl_.get();
  }

 private:
  std::unique_ptr<Impl> impl_;
  std::function<void(Json&)> project_;
  std::function<std::string(const char*, const void*, long long)> namer_;
  friend struct Impl;
};

// ------------------------------------------------------------------- calls made by logical threads
// Schedule point placed by driver code (same semantics as DISPENSO_VERIF_POINT).
void point(const char* site, const void* obj = nullptr);
// Schedule point that is only enabled while pred() holds; pred is evaluated by the controller
// while no logical thread runs (e.g. "all pool workers are parked").
void gate(const char* site, std::function<bool()> pred);
// Only sites accepted by the filter are schedule points (others pass through).  nullptr = all.
void setSiteFilter(bool (*filter)(const char* site));
// Library NOTE hooks whose site starts with "Mem" (MemAlloc / MemFree of the small-buffer interface) are never
// part of a controlled trace; a driver that tracks the library's own blocks installs a sink for them.
void setMemSink(void (*sink)(const char* site, const void* obj, long long a, long long b));
// Snapshot helpers for projections / gate predicates (call only from the controller context).
struct WaiterInfo {
  std::string name;
  const void* addr;
};
std::vector<WaiterInfo> futexWaiters();
// true iff every library-created (dynamic) thread that is not finished is blocked in the futex
bool allDynamicThreadsParked();
int liveDynamicThreads();
// Attach a value to the event of the step currently executing (thread-local; no schedule point).
void ret(long long v);
void note(const char* tag, long long a, long long b = 0);
void retStr(const std::string& v);
// Name of the calling logical thread ("" if not a logical thread).
const std::string& selfName();
// True while a controlled run is active.
bool active();
// Mark a region in which points must not block (e.g. while holding a std::mutex).
struct NoPointScope {
  NoPointScope();
  ~NoPointScope();
};

// ------------------------------------------------------------------------------- free-run helpers
// Free-running event log: {"e":..., "t":..., "n":<global seq>, ...extra}.  Thread-safe.
void freeEvent(Trace& tr, const char* e, const std::string& extraJsonMembers);

uint64_t splitmix(uint64_t& x);

} // namespace ctl
