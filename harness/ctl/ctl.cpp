#include "ctl.h"

#include <errno.h>
#include <linux/futex.h>
#include <sched.h>
#include <string.h>
#include <time.h>
#include <unistd.h>

#include <algorithm>
#include <chrono>
#include <cstdlib>
#include <map>
#include <mutex>

namespace ctl {

Json& Json::num(long long v) {
  sep();
  // TLC integers are 32-bit; refuse anything wider rather than letting the deserialiser wrap.
  if (v > 2147483647LL || v < -2147483647LL) {
    fprintf(stderr, "ERROR ctl: integer %lld does not fit a TLC int\n", v);
    fflush(stderr);
    _exit(3);
  }
  s += std::to_string(v);
  return *this;
}

// ------------------------------------------------------------------------------------------ Trace
Trace::Trace(const std::string& path) {
  f_ = fopen(path.c_str(), "w");
  if (!f_) {
    fprintf(stderr, "ERROR ctl: cannot open %s\n", path.c_str());
    _exit(3);
  }
  setvbuf(f_, nullptr, _IOFBF, 1 << 20);
}
Trace::~Trace() {
  if (f_)
    fclose(f_);
}
static std::mutex g_traceMu;
void Trace::line(const std::string& l) {
  std::lock_guard<std::mutex> lk(g_traceMu);
  fwrite(l.data(), 1, l.size(), f_);
  fputc('\n', f_);
  ++lines_;
}
void Trace::flush() {
  std::lock_guard<std::mutex> lk(g_traceMu);
  fflush(f_);
}

uint64_t splitmix(uint64_t& x) {
  uint64_t z = (x += 0x9e3779b97f4a7c15ULL);
  z = (z ^ (z >> 30)) * 0xbf58476d1ce4e5b9ULL;
  z = (z ^ (z >> 27)) * 0x94d049bb133111ebULL;
  return z ^ (z >> 31);
}

// -------------------------------------------------------------------------------- schedule reader
// Minimal parser for  [{"t":"p1","a":"X","w":["a","b"]}, ...]  per line.
namespace {
struct P {
  const char* p;
  void ws() {
    while (*p == ' ' || *p == '\t')
      ++p;
  }
  bool eat(char c) {
    ws();
    if (*p == c) {
      ++p;
      return true;
    }
    return false;
  }
  std::string str() {
    ws();
    std::string r;
    if (*p != '"')
      return r;
    ++p;
    while (*p && *p != '"') {
      if (*p == '\\' && p[1])
        ++p;
      r += *p++;
    }
    if (*p == '"')
      ++p;
    return r;
  }
};
} // namespace

std::vector<Schedule> readSchedules(const std::string& path) {
  std::vector<Schedule> out;
  FILE* f = fopen(path.c_str(), "r");
  if (!f) {
    fprintf(stderr, "ERROR ctl: cannot open schedule file %s\n", path.c_str());
    _exit(3);
  }
  char* lineBuf = nullptr;
  size_t cap = 0;
  while (getline(&lineBuf, &cap, f) > 0) {
    P ps{lineBuf};
    if (!ps.eat('['))
      continue;
    Schedule sch;
    while (ps.eat('{')) {
      Step st;
      while (true) {
        std::string k = ps.str();
        ps.eat(':');
        if (k == "t")
          st.thread = ps.str();
        else if (k == "a")
          st.action = ps.str();
        else if (k == "w") {
          st.hasWake = true;
          ps.eat('[');
          while (!ps.eat(']')) {
            st.wake.push_back(ps.str());
            ps.eat(',');
          }
        } else
          ps.str();
        if (!ps.eat(','))
          break;
      }
      ps.eat('}');
      ps.eat(',');
      sch.push_back(std::move(st));
    }
    out.push_back(std::move(sch));
  }
  free(lineBuf);
  fclose(f);
  return out;
}

// ------------------------------------------------------------------------------------- controller
enum : int { ST_NEW, ST_RUNNING, ST_POINT, ST_FWAIT, ST_BLOCKED, ST_DONE };
enum : int { WR_NONE, WR_WOKEN, WR_TIMEOUT, WR_SPURIOUS };

struct LThread {
  std::string name;
  std::thread th;
  std::function<void()> body;
  std::atomic<int> st{ST_NEW};
  std::atomic<int> go{0};
  const char* site = "";
  const void* obj = nullptr;
  // futex
  int* faddr = nullptr;
  bool ftimed = false;
  long long ftimeoutUs = 0;
  int wakeReason = WR_NONE;
  int fwakeN = 0; // for a thread parked at FutexWake
  std::vector<LThread*> wakeChoice;
  // step notes
  std::vector<std::string> notes;
  std::function<bool()> gatePred; // non-empty while parked at a gate
  int noPoint = 0;
  bool dynamic = false;
};

struct Controller::Impl {
  Controller* outer;
  Trace& trace;
  std::vector<std::unique_ptr<LThread>> threads;
  std::mutex regMu; // protects `threads` against dynamic registration
  RunOptions opts;
  uint64_t rng = 1;
  Impl(Controller* o, Trace& t) : outer(o), trace(t) {}
};

static thread_local LThread* tlsMe = nullptr;
static bool (*g_filter)(const char*) = nullptr;
static void (*g_memSink)(const char*, const void*, long long, long long) = nullptr;
void setMemSink(void (*sink)(const char* site, const void* obj, long long a, long long b)) {
  g_memSink = sink;
}
void setSiteFilter(bool (*filter)(const char* site)) {
  g_filter = filter;
}
static std::atomic<Controller::Impl*> g_ctl{nullptr};
static std::atomic<int> g_mode{-1}; // RunOptions::Mode while a run is active
static uint64_t g_freeSeed = 1;
static std::atomic<unsigned long long> g_freeSeq{0};

static inline void cpuRelax() {
#if defined(__x86_64__) || defined(__i386__)
  __builtin_ia32_pause();
#endif
}

static void waitGo(LThread* me) {
  int spins = 0;
  while (!me->go.load(std::memory_order_acquire)) {
    if (++spins < 2000)
      cpuRelax();
    else {
      sched_yield();
    }
  }
  me->go.store(0, std::memory_order_relaxed);
}

bool active() {
  return g_mode.load(std::memory_order_acquire) >= 0;
}

const std::string& selfName() {
  static const std::string empty;
  return tlsMe ? tlsMe->name : empty;
}

static thread_local uint64_t tlsFreeRng = 0;
static void freeDelay() {
  if (!tlsFreeRng) {
    tlsFreeRng = g_freeSeed ^ (0x1234567ULL * (uint64_t)(uintptr_t)&tlsFreeRng);
  }
  uint64_t r = splitmix(tlsFreeRng);
  unsigned k = r & 63;
  if (k < 40)
    return; // mostly no delay
  if (k < 56) {
    for (unsigned i = 0; i < ((r >> 8) & 255); ++i)
      cpuRelax();
  } else if (k < 62) {
    sched_yield();
  } else {
    struct timespec ts {
      0, (long)(((r >> 16) & 127) * 1000)
    };
    nanosleep(&ts, nullptr);
  }
}

void point(const char* site, const void* obj) {
  int mode = g_mode.load(std::memory_order_acquire);
  if (mode < 0)
    return;
  if (mode == RunOptions::Free) {
    freeDelay();
    return;
  }
  LThread* me = tlsMe;
  if (!me || me->noPoint > 0)
    return;
  if (g_filter && !g_filter(site))
    return;
  me->site = site;
  me->obj = obj;
  me->st.store(ST_POINT, std::memory_order_release);
  waitGo(me);
}

void gate(const char* site, std::function<bool()> pred) {
  int mode = g_mode.load(std::memory_order_acquire);
  LThread* me = tlsMe;
  if (mode < 0 || !me)
    return;
  if (mode == RunOptions::Free) {
    while (!pred())
      sched_yield();
    return;
  }
  me->gatePred = std::move(pred);
  me->site = site;
  me->obj = nullptr;
  me->st.store(ST_POINT, std::memory_order_release);
  waitGo(me);
  me->gatePred = nullptr;
}

void note(const char* tag, long long a, long long b) {
  if (tlsMe) {
    Json j;
    j.beginArr();
    j.str(tag);
    j.num(a);
    j.num(b);
    j.endArr();
    tlsMe->notes.push_back(j.s);
  }
}

std::vector<WaiterInfo> futexWaiters() {
  std::vector<WaiterInfo> out;
  Controller::Impl* I = g_ctl.load();
  if (!I)
    return out;
  std::lock_guard<std::mutex> lk(I->regMu);
  for (auto& t : I->threads)
    if (t->st.load() == ST_FWAIT)
      out.push_back({t->name, t->faddr});
  return out;
}

bool allDynamicThreadsParked() {
  Controller::Impl* I = g_ctl.load();
  if (!I)
    return false;
  std::lock_guard<std::mutex> lk(I->regMu);
  for (auto& t : I->threads)
    if (t->dynamic && t->st.load() != ST_DONE && t->st.load() != ST_FWAIT)
      return false;
  return true;
}

int liveDynamicThreads() {
  Controller::Impl* I = g_ctl.load();
  if (!I)
    return 0;
  std::lock_guard<std::mutex> lk(I->regMu);
  int n = 0;
  for (auto& t : I->threads)
    if (t->dynamic && t->st.load() != ST_DONE)
      ++n;
  return n;
}

void ret(long long v) {
  if (tlsMe) {
    Json j;
    j.num(v);
    tlsMe->notes.push_back(j.s);
  }
}
void retStr(const std::string& v) {
  if (tlsMe)
    tlsMe->notes.push_back("\"" + v + "\"");
}

NoPointScope::NoPointScope() {
  if (tlsMe)
    ++tlsMe->noPoint;
}
NoPointScope::~NoPointScope() {
  if (tlsMe)
    --tlsMe->noPoint;
}

void freeEvent(Trace& tr, const char* e, const std::string& extra) {
  std::string l = "{\"e\":\"";
  l += e;
  l += "\",\"t\":\"";
  l += selfName();
  l += "\"";
  if (!extra.empty()) {
    l += ",";
    l += extra;
  }
  l += "}";
  tr.line(l);
}

Controller::Controller(Trace& trace) : impl_(new Impl(this, trace)) {}
Controller::~Controller() {
  // After an incomplete run (deadlock / divergence / stuck step) logical threads are still parked:
  // they cannot be unwound, so their bookkeeping is leaked and the threads detached.
  bool parked = false;
  for (auto& t : impl_->threads)
    if (t->th.joinable())
      parked = true;
  if (parked) {
    for (auto& t : impl_->threads)
      if (t->th.joinable())
        t->th.detach();
    (void)impl_.release();
  }
}

void Controller::addThread(const std::string& name, std::function<void()> body) {
  auto t = std::make_unique<LThread>();
  t->name = name;
  t->body = std::move(body);
  impl_->threads.push_back(std::move(t));
}

static void threadMain(LThread* me) {
  tlsMe = me;
  if (g_mode.load() != RunOptions::Free) {
    // park until first granted; the pre-first-point prefix of the body runs as part of the
    // thread's first step only if it has no point; so make the start explicit:
    me->site = "Start";
    me->st.store(ST_POINT, std::memory_order_release);
    waitGo(me);
  }
  me->body();
  me->st.store(ST_DONE, std::memory_order_release);
  tlsMe = nullptr;
}

static double nowSec() {
  struct timespec ts;
  clock_gettime(CLOCK_MONOTONIC, &ts);
  return ts.tv_sec + ts.tv_nsec * 1e-9;
}

namespace {
struct Cand {
  LThread* t;
  int kind; // 0 step, 1 timeout env, 2 spurious env
};
} // namespace

RunResult Controller::run(const RunOptions& opts) {
  Impl& I = *impl_;
  I.opts = opts;
  I.rng = opts.seed * 0x9e3779b97f4a7c15ULL + 12345;
  RunResult res;
  g_ctl.store(&I);
  g_freeSeed = opts.seed | 1;
  g_mode.store(opts.mode, std::memory_order_release);

  if (opts.mode == RunOptions::Free) {
    for (auto& t : I.threads)
      t->th = std::thread(threadMain, t.get());
    for (auto& t : I.threads)
      t->th.join();
    g_mode.store(-1);
    g_ctl.store(nullptr);
    res.completed = true;
    return res;
  }

  size_t nStatic = I.threads.size();
  for (size_t i = 0; i < nStatic; ++i) {
    LThread* t = I.threads[i].get();
    t->th = std::thread(threadMain, t);
    while (t->st.load(std::memory_order_acquire) == ST_NEW)
      cpuRelax();
  }

  // PCT-like priorities
  std::map<LThread*, int> prio;
  std::vector<size_t> changePts;
  if (opts.mode == RunOptions::Random && opts.pctDepth > 0) {
    for (int i = 0; i < opts.pctDepth; ++i)
      changePts.push_back(splitmix(I.rng) % 200);
  }

  size_t schedPos = 0;
  auto findThread = [&](const std::string& n) -> LThread* {
    std::lock_guard<std::mutex> lk(I.regMu);
    for (auto it = I.threads.rbegin(); it != I.threads.rend(); ++it)
      if ((*it)->name == n)
        return it->get();
    return nullptr;
  };

  while (res.steps < opts.maxSteps) {
    // collect candidates
    std::vector<Cand> cands;
    bool allDone = true;
    {
      std::vector<LThread*> snapshot;
      {
        std::lock_guard<std::mutex> lk(I.regMu);
        for (auto& tp : I.threads)
          snapshot.push_back(tp.get());
      }
      for (LThread* t : snapshot) {
        int st = t->st.load(std::memory_order_acquire);
        if (st != ST_DONE)
          allDone = false;
        if (st == ST_POINT) {
          if (!t->gatePred || t->gatePred())
            cands.push_back({t, 0});
        } else if (st == ST_FWAIT) {
          if (t->ftimed && opts.allowTimeout)
            cands.push_back({t, 1});
          if (opts.allowSpurious)
            cands.push_back({t, 2});
        }
      }
    }
    if (allDone) {
      res.completed = true;
      break;
    }
    // Real-blocked threads (join etc.) may become runnable by themselves; wait briefly for them.
    if (cands.empty()) {
      bool anyBlocked = false;
      bool recheck = false;
      {
        std::lock_guard<std::mutex> lk(I.regMu);
        for (auto& tp : I.threads)
          if (tp->st.load() == ST_BLOCKED || tp->st.load() == ST_NEW)
            anyBlocked = true;
      }
      if (anyBlocked) {
        double t0 = nowSec();
        bool progressed = false;
        while (nowSec() - t0 < opts.blockedGraceSec) {
          bool any = false;
          {
            std::lock_guard<std::mutex> lk(I.regMu);
            for (auto& tp : I.threads) {
              int st = tp->st.load(std::memory_order_acquire);
              if (st == ST_POINT || st == ST_DONE)
                any = any || (st == ST_POINT);
            }
            bool done = true;
            for (auto& tp : I.threads)
              if (tp->st.load() != ST_DONE)
                done = false;
            if (done)
              any = true;
          }
          if (any) {
            progressed = true;
            break;
          }
          sched_yield();
        }
        if (progressed)
          continue;
      } else {
        // A thread may have left a real blocking region (ST_BLOCKED -> ST_POINT) between the
        // candidate snapshot above and the scan for blocked threads: look again before declaring
        // a deadlock.  (Nobody was blocked at the scan, so this second look is stable.)
        {
          std::lock_guard<std::mutex> lk(I.regMu);
          for (auto& tp : I.threads) {
            int st = tp->st.load(std::memory_order_acquire);
            if (st == ST_POINT && (!tp->gatePred))
              recheck = true;
            if (st == ST_RUNNING || st == ST_NEW || st == ST_BLOCKED)
              recheck = true;
          }
        }
        if (!recheck) {
          // gates: evaluate outside the lock
          std::vector<LThread*> snap;
          {
            std::lock_guard<std::mutex> lk(I.regMu);
            for (auto& tp : I.threads)
              snap.push_back(tp.get());
          }
          for (LThread* t : snap)
            if (t->st.load(std::memory_order_acquire) == ST_POINT && t->gatePred && t->gatePred())
              recheck = true;
        }
        if (recheck)
          continue;
      }
      res.deadlock = true;
      Json j;
      j.beginObj();
      j.kv("e", std::string("Deadlock"));
      j.key("threads").beginArr();
      {
        std::lock_guard<std::mutex> lk(I.regMu);
        for (auto& tp : I.threads) {
          j.beginArr();
          j.str(tp->name);
          j.num(tp->st.load());
          j.str(tp->site ? tp->site : "");
          j.endArr();
        }
      }
      j.endArr();
      j.key("s").beginObj();
      if (project_)
        project_(j);
      j.endObj();
      j.endObj();
      I.trace.line(j.s);
      break;
    }

    // choose
    Cand chosen{nullptr, 0};
    const Step* stp = nullptr;
    if (opts.mode == RunOptions::Replay && opts.schedule && schedPos < opts.schedule->size()) {
      stp = &(*opts.schedule)[schedPos++];
      int wantKind = stp->action == "FutexTimeout" ? 1 : stp->action == "FutexSpurious" ? 2 : 0;
      for (auto& c : cands)
        if (c.t->name == stp->thread && c.kind == wantKind)
          chosen = c;
      if (!chosen.t) {
        // The named thread may be inside a real blocking region that is about to end, or a
        // dynamic thread that has not registered yet: wait for it (bounded).
        double t0 = nowSec();
        while (!chosen.t && nowSec() - t0 < opts.watchdogSec) {
          LThread* t = findThread(stp->thread);
          if (t) {
            int st = t->st.load(std::memory_order_acquire);
            if (st == ST_POINT && wantKind == 0)
              chosen = {t, 0};
            else if (st == ST_DONE || st == ST_FWAIT)
              break;
          }
          if (!chosen.t)
            sched_yield();
        }
      }
      if (!chosen.t ||
          (wantKind == 0 && !stp->action.empty() && stp->action != chosen.t->site)) {
        res.diverged = true;
        res.detail = "schedule step " + std::to_string(schedPos) + " names " + stp->thread + ":" +
            stp->action + " but " +
            (chosen.t ? std::string("thread is at ") + chosen.t->site
                      : std::string("thread is not runnable"));
        Json j;
        j.beginObj();
        j.kv("e", std::string("Diverged"));
        j.kv("detail", res.detail);
        j.endObj();
        I.trace.line(j.s);
        break;
      }
    } else if (opts.mode == RunOptions::Replay) {
      if (!opts.finishAfterReplay)
        break;
      // finish deterministically and fairly: round-robin over the step candidates (a fixed
      // "lowest index" choice can spin for ever on a lock whose holder is parked)
      {
        std::vector<Cand> steps;
        for (auto& c : cands)
          if (c.kind == 0)
            steps.push_back(c);
        if (!steps.empty())
          chosen = steps[res.steps % steps.size()];
        else
          chosen = cands[0];
      }
    } else {
      if (opts.pctDepth > 0) {
        for (auto& c : cands)
          if (!prio.count(c.t))
            prio[c.t] = 1000 + (int)(splitmix(I.rng) % 1000);
        for (auto cp : changePts)
          if (cp == res.steps) {
            // lower the priority of the currently best
            LThread* best = nullptr;
            for (auto& c : cands)
              if (!best || prio[c.t] > prio[best])
                best = c.t;
            if (best)
              prio[best] = (int)(splitmix(I.rng) % 100);
          }
        // env candidates get chosen with small probability; otherwise highest priority step
        std::vector<Cand> steps;
        for (auto& c : cands)
          if (c.kind == 0)
            steps.push_back(c);
        if (steps.empty() || splitmix(I.rng) % 16 == 0)
          chosen = cands[splitmix(I.rng) % cands.size()];
        else {
          chosen = steps[0];
          for (auto& c : steps)
            if (prio[c.t] > prio[chosen.t])
              chosen = c;
        }
      } else {
        // environment steps (time-outs, spurious returns) are rare unless nothing else can run
        std::vector<Cand> steps;
        for (auto& c : cands)
          if (c.kind == 0)
            steps.push_back(c);
        if (steps.empty() || splitmix(I.rng) % 24 == 0)
          chosen = cands[splitmix(I.rng) % cands.size()];
        else
          chosen = steps[splitmix(I.rng) % steps.size()];
      }
    }

    LThread* t = chosen.t;
    ++res.steps;
    if (chosen.kind != 0) {
      // environment step: a blocked futex waiter becomes runnable
      t->wakeReason = chosen.kind == 1 ? WR_TIMEOUT : WR_SPURIOUS;
      t->site = "FutexRet";
      t->st.store(ST_POINT, std::memory_order_release);
      Json j;
      j.beginObj();
      j.kv("e", std::string(chosen.kind == 1 ? "FutexTimeout" : "FutexSpurious"));
      j.kv("t", t->name);
      if (chosen.kind == 1)
        j.kv("us", std::min<long long>(t->ftimeoutUs, 2000000000LL));
      j.key("s").beginObj();
      if (project_)
        project_(j);
      j.endObj();
      j.endObj();
      I.trace.line(j.s);
      continue;
    }

    std::string site = t->site;
    std::vector<std::string> wokenNames;
    if (site == "FutexWake") {
      // choose which waiters the kernel wakes: any subset of size min(n, |waiters|)
      std::vector<LThread*> waiters;
      {
        std::lock_guard<std::mutex> lk(I.regMu);
        for (auto& tp : I.threads)
          if (tp->st.load() == ST_FWAIT && tp->faddr == (int*)t->obj)
            waiters.push_back(tp.get());
      }
      size_t k = std::min<size_t>((size_t)std::max(0, t->fwakeN), waiters.size());
      t->wakeChoice.clear();
      if (stp && stp->hasWake) {
        for (auto& n : stp->wake)
          for (auto* w : waiters)
            if (w->name == n)
              t->wakeChoice.push_back(w);
        if (t->wakeChoice.size() != k) {
          res.diverged = true;
          res.detail = "schedule wake set size " + std::to_string(t->wakeChoice.size()) +
              " != kernel count " + std::to_string(k);
          Json j;
          j.beginObj();
          j.kv("e", std::string("Diverged"));
          j.kv("detail", res.detail);
          j.endObj();
          I.trace.line(j.s);
          break;
        }
      } else {
        // random subset of size k
        for (size_t i = 0; i < k; ++i) {
          size_t r = i + splitmix(I.rng) % (waiters.size() - i);
          std::swap(waiters[i], waiters[r]);
          t->wakeChoice.push_back(waiters[i]);
        }
      }
      for (auto* w : t->wakeChoice)
        wokenNames.push_back(w->name);
      std::sort(wokenNames.begin(), wokenNames.end());
    }

    t->notes.clear();
    t->st.store(ST_RUNNING, std::memory_order_release);
    t->go.store(1, std::memory_order_release);
    double t0 = nowSec();
    int spins = 0;
    while (t->st.load(std::memory_order_acquire) == ST_RUNNING) {
      if (++spins < 4000)
        cpuRelax();
      else {
        sched_yield();
        if ((spins & 1023) == 0 && nowSec() - t0 > opts.watchdogSec) {
          res.stuck = true;
          break;
        }
      }
    }
    Json j;
    j.beginObj();
    j.kv("e", site);
    j.kv("t", t->name);
    if (res.stuck)
      j.kvb("stuck", true);
    if (site == "FutexWake") {
      j.key("w").beginArr();
      for (auto& n : wokenNames)
        j.str(n);
      j.endArr();
    }
    if (!res.stuck) {
      j.key("r").beginArr();
      for (auto& n : t->notes)
        j.raw(n);
      j.endArr();
      j.key("s").beginObj();
      if (project_)
        project_(j);
      j.endObj();
    }
    j.endObj();
    I.trace.line(j.s);
    if (res.stuck) {
      res.detail = "thread " + t->name + " did not finish step " + site;
      break;
    }
  }

  if (!res.completed) {
    // Cannot unwind parked threads safely: the caller must treat this run as terminal.
    I.trace.flush();
    g_mode.store(-1);
    return res;
  }
  for (auto& t : I.threads)
    if (t->th.joinable())
      t->th.join();
  g_mode.store(-1);
  g_ctl.store(nullptr);
  return res;
}

} // namespace ctl

// ------------------------------------------------------------------------- hook implementations
using namespace ctl;

extern "C" {

void dispenso_verif_point(const char* site, const void* obj) {
  ctl::point(site, obj);
}

void dispenso_verif_note(const char* site, const void* obj, long long a, long long b) {
  if (site[0] == 'M' && site[1] == 'e' && site[2] == 'm') {
    if (ctl::g_memSink)
      ctl::g_memSink(site, obj, a, b);
    return;
  }
  // library NOTE hooks of components the driver does not model (site filter) are dropped, like their points
  if (g_filter && !g_filter(site))
    return;
  if (tlsMe && g_mode.load(std::memory_order_relaxed) >= 0 &&
      g_mode.load(std::memory_order_relaxed) != RunOptions::Free) {
    Json j;
    j.beginArr();
    j.str(site);
    j.num(a);
    j.num(b);
    j.endArr();
    tlsMe->notes.push_back(j.s);
  }
}

int dispenso_verif_futex(
    int* uaddr,
    int futexOp,
    int val,
    const struct timespec* timeout,
    int* result) {
  int mode = g_mode.load(std::memory_order_acquire);
  LThread* me = tlsMe;
  if (mode < 0 || mode == RunOptions::Free || !me)
    return 0;
  int op = futexOp & ~FUTEX_PRIVATE_FLAG;
  if (op == FUTEX_WAIT) {
    me->faddr = uaddr;
    me->ftimed = timeout != nullptr;
    me->ftimeoutUs = timeout ? timeout->tv_sec * 1000000LL + timeout->tv_nsec / 1000 : 0;
    ctl::point("FutexWait", uaddr);
    if (__atomic_load_n(uaddr, __ATOMIC_SEQ_CST) != val) {
      ctl::ret(0);
      errno = EAGAIN;
      *result = -1;
      return 1;
    }
    ctl::ret(1);
    me->wakeReason = WR_NONE;
    me->site = "FutexBlocked";
    me->st.store(ST_FWAIT, std::memory_order_release);
    waitGo(me); // granted again only after a wake / timeout / spurious step made us ST_POINT
    int wr = me->wakeReason;
    me->faddr = nullptr;
    ctl::ret(wr);
    if (wr == WR_TIMEOUT) {
      errno = ETIMEDOUT;
      *result = -1;
    } else {
      *result = 0;
    }
    return 1;
  }
  if (op == FUTEX_WAKE) {
    me->fwakeN = val;
    ctl::point("FutexWake", uaddr);
    int n = 0;
    for (LThread* w : me->wakeChoice) {
      w->wakeReason = WR_WOKEN;
      w->site = "FutexRet";
      w->st.store(ST_POINT, std::memory_order_release);
      ++n;
    }
    me->wakeChoice.clear();
    *result = n;
    return 1;
  }
  return 0;
}

void dispenso_verif_thread_begin(const char* kind, const void* owner, long long index) {
  Controller::Impl* I = g_ctl.load();
  int mode = g_mode.load(std::memory_order_acquire);
  if (!I || mode < 0 || mode == RunOptions::Free)
    return;
  auto t = std::make_unique<LThread>();
  t->dynamic = true;
  t->name = std::string(kind) + std::to_string(index);
  (void)owner;
  LThread* me = t.get();
  me->site = "Start";
  {
    std::lock_guard<std::mutex> lk(I->regMu);
    I->threads.push_back(std::move(t));
  }
  tlsMe = me;
  me->st.store(ST_POINT, std::memory_order_release);
  waitGo(me);
}

void dispenso_verif_thread_end(const char* kind, const void* owner) {
  (void)kind;
  (void)owner;
  LThread* me = tlsMe;
  if (!me || !me->dynamic)
    return;
  tlsMe = nullptr;
  me->st.store(ST_DONE, std::memory_order_release);
}

void dispenso_verif_thread_spawned(const char* kind, const void* owner, long long index) {
  // The spawner waits until the new thread has registered, so that the set of logical threads is
  // deterministic at every schedule decision.
  Controller::Impl* I = g_ctl.load();
  int mode = g_mode.load(std::memory_order_acquire);
  if (!I || mode < 0 || mode == RunOptions::Free || !tlsMe)
    return;
  (void)owner;
  std::string name = std::string(kind) + std::to_string(index);
  for (;;) {
    {
      std::lock_guard<std::mutex> lk(I->regMu);
      for (auto& t : I->threads)
        if (t->name == name && t->st.load() != ST_DONE)
          return;
    }
    sched_yield();
  }
}

void dispenso_verif_blocking_begin(const char* site, const void* obj) {
  LThread* me = tlsMe;
  int mode = g_mode.load(std::memory_order_acquire);
  if (!me || mode < 0 || mode == RunOptions::Free)
    return;
  me->site = site;
  me->obj = obj;
  me->st.store(ST_BLOCKED, std::memory_order_release);
}

void dispenso_verif_blocking_end(const char* site, const void* obj) {
  LThread* me = tlsMe;
  int mode = g_mode.load(std::memory_order_acquire);
  if (!me || mode < 0 || mode == RunOptions::Free)
    return;
  me->site = site;
  me->obj = obj;
  me->st.store(ST_POINT, std::memory_order_release);
  waitGo(me);
}

} // extern "C"
