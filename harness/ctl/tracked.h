// Lifetime-tracked payload for the harnesses: every live object is registered by address.
// The registry answers "which object (id) lives at this address?" for state projection and counts
// lifetime errors (destroying / using an address that holds no live object, constructing over a
// live object).
#pragma once
#include <atomic>
#include <map>
#include <mutex>

namespace ctl {

struct Registry {
  std::mutex mu;
  std::map<const void*, int> live; // address -> id (0 = moved-from but alive)
  long long ctors = 0, dtors = 0, errors = 0;
  static Registry& get() {
    static Registry r;
    return r;
  }
  void add(const void* p, int id) {
    std::lock_guard<std::mutex> lk(mu);
    ++ctors;
    if (live.count(p))
      ++errors; // constructed over a live object
    live[p] = id;
  }
  void set(const void* p, int id) {
    std::lock_guard<std::mutex> lk(mu);
    auto it = live.find(p);
    if (it == live.end())
      ++errors; // assignment to / move from a dead object
    else
      it->second = id;
  }
  void del(const void* p) {
    std::lock_guard<std::mutex> lk(mu);
    ++dtors;
    auto it = live.find(p);
    if (it == live.end())
      ++errors; // double destroy
    else
      live.erase(it);
  }
  int at(const void* p) {
    std::lock_guard<std::mutex> lk(mu);
    auto it = live.find(p);
    return it == live.end() ? 0 : it->second;
  }
  bool isLive(const void* p) {
    std::lock_guard<std::mutex> lk(mu);
    return live.count(p) != 0;
  }
  long long liveCount() {
    std::lock_guard<std::mutex> lk(mu);
    return (long long)live.size();
  }
  // number of live objects whose address lies in [lo, hi)
  long long liveIn(const void* lo, const void* hi) {
    std::lock_guard<std::mutex> lk(mu);
    long long n = 0;
    for (auto it = live.lower_bound(lo); it != live.end() && it->first < hi; ++it)
      ++n;
    return n;
  }
  long long errorCount() {
    std::lock_guard<std::mutex> lk(mu);
    return errors;
  }
  void reset() {
    std::lock_guard<std::mutex> lk(mu);
    live.clear();
    ctors = dtors = errors = 0;
  }
};

struct Tracked {
  int id;
  Tracked() noexcept : id(0) {
    Registry::get().add(this, 0);
  }
  explicit Tracked(int i) noexcept : id(i) {
    Registry::get().add(this, i);
  }
  Tracked(const Tracked& o) noexcept : id(o.id) {
    Registry::get().add(this, id);
  }
  Tracked(Tracked&& o) noexcept : id(o.id) {
    Registry::get().add(this, id);
    o.id = 0;
    Registry::get().set(&o, 0);
  }
  Tracked& operator=(const Tracked& o) noexcept {
    id = o.id;
    Registry::get().set(this, id);
    return *this;
  }
  Tracked& operator=(Tracked&& o) noexcept {
    if (this != &o) {
      id = o.id;
      Registry::get().set(this, id);
      o.id = 0;
      Registry::get().set(&o, 0);
    }
    return *this;
  }
  ~Tracked() {
    Registry::get().del(this);
  }
  bool operator==(const Tracked& o) const {
    return id == o.id;
  }
  bool operator!=(const Tracked& o) const {
    return id != o.id;
  }
  bool operator<(const Tracked& o) const {
    return id < o.id;
  }
};

} // namespace ctl
