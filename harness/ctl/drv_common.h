// Shared helpers for drivers: argument parsing and the standard "run many executions" loop.
#pragma once
#include <cstdlib>
#include <cstring>
#include <functional>
#include <map>
#include <string>
#include <vector>

#include "ctl.h"

namespace drv {

struct Args {
  std::map<std::string, std::string> kv;
  Args(int argc, char** argv) {
    for (int i = 1; i < argc; ++i) {
      std::string a = argv[i];
      if (a.rfind("--", 0) == 0) {
        std::string k = a.substr(2);
        if (i + 1 < argc && strncmp(argv[i + 1], "--", 2) != 0)
          kv[k] = argv[++i];
        else
          kv[k] = "1";
      }
    }
  }
  bool has(const std::string& k) const {
    return kv.count(k) != 0;
  }
  std::string str(const std::string& k, const std::string& d = "") const {
    auto it = kv.find(k);
    return it == kv.end() ? d : it->second;
  }
  long long num(const std::string& k, long long d = 0) const {
    auto it = kv.find(k);
    return it == kv.end() ? d : atoll(it->second.c_str());
  }
};

inline std::vector<std::string> split(const std::string& s, char c) {
  std::vector<std::string> out;
  std::string cur;
  for (char ch : s) {
    if (ch == c) {
      out.push_back(cur);
      cur.clear();
    } else
      cur += ch;
  }
  out.push_back(cur);
  return out;
}

// Standard outcome line printed by every driver (parsed by bin/vcheck):
//   DRIVER executions=<n> steps=<n> completed=<n> deadlocks=<n> diverged=<n> stuck=<n>
struct Totals {
  long long executions = 0, steps = 0, completed = 0, deadlocks = 0, diverged = 0, stuck = 0;
  void add(const ctl::RunResult& r) {
    ++executions;
    steps += (long long)r.steps;
    completed += r.completed;
    deadlocks += r.deadlock;
    diverged += r.diverged;
    stuck += r.stuck;
  }
  void print() const {
    printf(
        "DRIVER executions=%lld steps=%lld completed=%lld deadlocks=%lld diverged=%lld stuck=%lld\n",
        executions,
        steps,
        completed,
        deadlocks,
        diverged,
        stuck);
    fflush(stdout);
  }
};

} // namespace drv
