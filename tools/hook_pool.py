#!/usr/bin/env python3
"""Inserts the thread-pool schedule points (add-only) into a dispenso checkout. Usage: hook_pool.py <repo>"""
import sys, re
repo = sys.argv[1]

def P(site, obj='this'):
    return 'DISPENSO_VERIF_POINT("%s", %s);' % (site, obj)

class F:
    def __init__(self, rel):
        self.path = repo + '/dispenso/' + rel
        self.lines = open(self.path).read().split('\n')
        self.lo, self.hi = 0, len(self.lines)
    def region(self, start_pat, end_pat=None):
        """restrict following insertions to [first line matching start_pat, next line matching end_pat)"""
        self.lo = next(i for i, l in enumerate(self.lines) if start_pat in l)
        self.hi = len(self.lines)
        if end_pat:
            self.hi = next(i for i in range(self.lo + 1, len(self.lines)) if end_pat in self.lines[i])
        return self
    def all(self):
        self.lo, self.hi = 0, len(self.lines)
        return self
    def before(self, anchor, text, count=1, after=False):
        idx = [i for i in range(self.lo, self.hi) if anchor in self.lines[i] and 'DISPENSO_VERIF' not in self.lines[i]]
        assert len(idx) == count, (self.path, anchor, len(idx), count)
        for i in reversed(idx):
            ind = self.lines[i][:len(self.lines[i]) - len(self.lines[i].lstrip())]
            if after:
                # statement may span lines: find the line that ends it (first line at or after i ending with ';' at same depth)
                j = i
                depth = 0
                while True:
                    depth += self.lines[j].count('(') + self.lines[j].count('{') - self.lines[j].count(')') - self.lines[j].count('}')
                    if depth <= 0 and self.lines[j].rstrip().endswith(';'):
                        break
                    j += 1
                self.lines.insert(j + 1, ind + text)
            else:
                self.lines.insert(i, ind + text)
        self.hi += len(idx)
        return self
    def save(self):
        open(self.path, 'w').write('\n'.join(self.lines))

# ------------------------------------------------------------------ thread_pool.h
f = F('thread_pool.h')
f.region('void conditionallyWake() {', 'public:')
f.before('auto* ws = detail::consumeLoad(wakeState_);', P('TpLoadWake'))
f.before('int32_t sleeping = ws->totalSleeping();', P('TpReadSleeping'))
f.before('ssize_t pending = workRemaining_.load', P('TpReadPending'))
f.all().before('using Ring = MpmcRingBuffer<OnceFunction, 16>;', '#if defined(DISPENSO_VERIF_RING_CAPACITY)')
f.all().before('using Ring = MpmcRingBuffer<OnceFunction, 16>;', 'using Ring = MpmcRingBuffer<OnceFunction, DISPENSO_VERIF_RING_CAPACITY>;')
f.all().before('using Ring = MpmcRingBuffer<OnceFunction, 16>;', '#else')
f.all().before('using Ring = MpmcRingBuffer<OnceFunction, 16>;', '#endif // DISPENSO_VERIF_RING_CAPACITY', after=True)
f.region('DISPENSO_INLINE void enqueueToCentralQueue(', 'template <typename Generator>')
f.before('bool enqueued;', P('TpEnqueue'))
f.before('centralQueueNonEmpty_.store(true', P('TpSetFlag'))
f.region('DISPENSO_INLINE bool ThreadPool::shouldRunInline() {', 'template <bool kPlaced, typename F>')
f.before('ssize_t curWork = workRemaining_.load', P('TpInlineCheck'))
f.region('inline void ThreadPool::forceEnqueue(', 'template <typename F>')
f.before('if (!numThreads_.load(std::memory_order_relaxed)) {', P('TpFqLoadThreads'))
f.before('workRemaining_.fetch_add(1, std::memory_order_release);', P('TpAddWork'))
f.region('DISPENSO_INLINE void ThreadPool::scheduleImpl(OnceFunction task', 'DISPENSO_INLINE void ThreadPool::scheduleImplPlaced(')
f.before('auto* ws = detail::consumeLoad(wakeState_);', P('TpLoadWake'))
f.before('int32_t sleeping = ws->totalSleeping();', P('TpReadSleeping'))
f.before('ssize_t pending = workRemaining_.load', P('TpReadPending'))
f.region('DISPENSO_INLINE void ThreadPool::scheduleImplPlaced(', 'inline bool ThreadPool::tryExecuteNext() {')
f.before('auto* ws = detail::consumeLoad(wakeState_);', P('TpLoadWake'))
f.before('int32_t sleeping = ws->totalSleeping();', P('TpReadSleeping'))
f.before('if (sleeping > 0 &&', P('TpReadNotWorking'))
f.before('if (stealIdx < numStealRings_.load(std::memory_order_relaxed) &&', P('TpPushSteal'))
f.before('stealRingsWithWork_.fetch_or(', P('TpSetStealBit'))
f.region('inline bool ThreadPool::tryExecuteNext() {', 'inline bool ThreadPool::tryExecuteNextFromProducerToken(')
f.before('bool dequeued = work_.try_dequeue(next);', P('TpStealCentral'))
f.region('inline bool ThreadPool::tryExecuteNextFromProducerToken(', 'inline bool ThreadPool::tryExecuteNextFromRings(')
f.before('if (work_.try_dequeue_from_producer(token, next)) {', P('TpStealCentralTok'))
f.region('inline bool ThreadPool::tryExecuteNextFromRings(', 'inline void ThreadPool::executeNext(')
f.before('size_t n = numRings_.load(std::memory_order_acquire);', P('TpRingsLoadCount'))
f.before('if (rings_[idx].try_pop(task)) {', P('TpRingsPop'))
f.region('inline void ThreadPool::executeNext(', 'DISPENSO_INLINE bool ThreadPool::tryFindAndExecuteWork(')
f.before('workRemaining_.fetch_add(-1, std::memory_order_relaxed);', P('TpDecWork'))
f.region('DISPENSO_INLINE bool ThreadPool::tryFindAndExecuteWork(', 'DISPENSO_INLINE void ThreadPool::scheduleBulkToRingsFastPath(')
f.before('bool fromRing = myRing.try_pop(task);', P('TpWkPopRing'), 2)
f.before('if (checkQueue && centralQueueNonEmpty_.load(std::memory_order_relaxed)) {', P('TpWkReadFlag'), 2)
f.before('bool got = work_.try_dequeue(ctoken, task);', P('TpWkDequeue'), 2)
f.before('centralQueueNonEmpty_.store(false, std::memory_order_relaxed);', P('TpWkClearFlag'), 2)
f.before('if (!myStealRing.empty() && myStealRing.try_pop(task)) {', P('TpWkPopSteal'))
f.before('uint64_t mask = stealRingsWithWork_.load(std::memory_order_acquire);', P('TpWkReadStealMask'))
f.before('if (stealRings_[static_cast<size_t>(target)].try_pop(task)) {', P('TpWkCrossSteal'))
f.before('stealRingsWithWork_.fetch_and(', P('TpWkClearStealBit'))
f.region('DISPENSO_INLINE void ThreadPool::scheduleBulkToRingsFastPath(', 'DISPENSO_INLINE void ThreadPool::scheduleBulkToRingsBatched(')
f.before('auto* wsCascade = detail::consumeLoad(wakeState_);', P('TpBulkLoadWake'))
f.before('if (!rings_[ring].try_push(std::move(wrapped))) {', P('TpPushRing'))
f.before('if (!rings_[ring].try_push(std::move(task))) {', P('TpPushRing'), 2)
f.region('DISPENSO_INLINE void ThreadPool::scheduleBulkToRingsBatched(', 'void ThreadPool::scheduleBulkToRings(')
f.before('size_t pushed = rings_[ring].try_push_batch(staged, toStage);', P('TpPushRingBatch'))
f.region('void ThreadPool::scheduleBulkToRings(', 'namespace detail {')
f.before('workRemaining_.fetch_add(static_cast<ssize_t>(count), std::memory_order_release);', P('TpAddWorkN'))
f.before('size_t ringCount = numRings_.load(std::memory_order_acquire);', P('TpBulkLoadRingCount'))
f.before('auto* ws = detail::consumeLoad(wakeState_);', P('TpLoadWake'))
f.region('void ThreadPool::scheduleBulkEnqueue(', 'template <bool kPlaced, typename Generator>')
f.before('workRemaining_.fetch_add(static_cast<ssize_t>(count), std::memory_order_release);', P('TpAddWorkN'))
f.before('bool enqueued;', P('TpEnqueueBulk'))
f.before('centralQueueNonEmpty_.store(true', P('TpSetFlag'))
f.before('auto* ws = detail::consumeLoad(wakeState_);', P('TpLoadWake'))
f.before('int32_t sleeping = ws->totalSleeping();', P('TpReadSleeping'))
f.before('int32_t notWorking = numNotWorking_.load', P('TpReadNotWorking'))
f.region('void ThreadPool::scheduleBulkImpl(size_t count, Generator&& gen) {', 'void ThreadPool::scheduleBulk(size_t count, Generator&& gen) {')
f.before('ssize_t numPool = numThreads_.load(std::memory_order_relaxed);', P('TpBulkLoadThreads'))
f.before('ssize_t curWork = workRemaining_.load(std::memory_order_relaxed);', P('TpBulkLoadCheck'))
f.before('workRemaining_.fetch_add(static_cast<ssize_t>(toEnqueue), std::memory_order_release);', P('TpAddWorkN'))
f.region('void setSignalingWake(bool enable, uint32_t sleepDurationUs)', 'DISPENSO_DLL_ACCESS void resizeLocked')
f.before('enableEpochWaiter_.store(enable, std::memory_order_release);', P('TpStoreEnable'))
f.save()

# ------------------------------------------------------------------ detail/thread_pool_wake.h
f = F('detail/thread_pool_wake.h')
f.region('void enterSleep(int32_t threadIdx) {', 'void exitSleep(int32_t threadIdx) {')
f.before('groupStates_[static_cast<size_t>(group)].sleepMask.fetch_or(', P('PwSetSleepBit'))
f.before('totalSleeping_.fetch_add(1', P('PwIncSleeping'))
f.region('void exitSleep(int32_t threadIdx) {', 'bool tryClaimSleeper(int32_t threadIdx) {')
f.before('groupStates_[static_cast<size_t>(group)].sleepMask.fetch_and(', P('PwClearSleepBit'))
f.before('totalSleeping_.fetch_sub(1', P('PwDecSleeping'))
f.region('bool tryClaimSleeper(int32_t threadIdx) {', 'int32_t claimAndWakeOne();')
f.before('uint64_t prev = groupStates_[static_cast<size_t>(group)].sleepMask.fetch_and(', P('PwClaim'))
f.region('void cascadeWake(int32_t targetGroup) {', 'bool cascadeWakeSeed(int32_t count);')
f.before('uint64_t mask =', P('PwCascadeReadMask'))
f.region('int32_t totalSleeping() const {', '}')
f.save()

# ------------------------------------------------------------------ thread_pool_wake.cpp
f = F('thread_pool_wake.cpp')
f.region('void PoolWakeState::wakeRange(int32_t count) {', 'int32_t PoolWakeState::claimAndWakeOne() {')
f.before('uint64_t mask = groupStates_[static_cast<size_t>(g)].sleepMask.load', P('PwRangeReadMask'))
f.region('int32_t PoolWakeState::claimAndWakeOne() {', 'bool PoolWakeState::cascadeWakeSeed(int32_t count) {')
f.before('if (totalSleeping_.load(std::memory_order_relaxed) <= 0) {', P('PwClaimReadSleeping'))
f.before('int32_t g = nextWakeGroup_.load', P('PwReadNextGroup'))
f.before('uint64_t mask = groupStates_[static_cast<size_t>(g)].sleepMask.load', P('PwClaimReadMask'))
f.before('nextWakeGroup_.store(', P('PwStoreNextGroup'))
f.region('bool PoolWakeState::cascadeWakeSeed(int32_t count) {', 'void PoolWakeState::wakeAll() {')
f.before('if (totalSleeping_.load(std::memory_order_relaxed) == 0) {', P('PwSeedReadSleeping'))
f.before('uint64_t mask = groupStates_[static_cast<size_t>(g)].sleepMask.load', P('PwSeedReadMask'))
f.region('void PoolWakeState::wakeAll() {')
f.before('if (groupStates_[static_cast<size_t>(g)].sleepMask.load(std::memory_order_relaxed)) {', P('PwAllReadMask'))
f.save()

# ------------------------------------------------------------------ detail/epoch_waiter.h (Linux class only)
f = F('detail/epoch_waiter.h')
f.region('#if defined(__linux__) || defined(__FreeBSD__)\n'.strip(), '#elif defined(__MACH__) && defined(DISPENSO_HAS_MAC_FUTEX)')
# the first '#if defined(__linux__)...' match is the kWakeAllThreshold block? it is '#elif' there, so the pattern with '#if ' is unique
f.before('epoch_.fetch_add(1, std::memory_order_acq_rel);', P('EwBump'), 4)
f.before('if ((current = epoch_.load(std::memory_order_acquire)) == expectedEpoch) {', P('EwLoadEpochB'), 2)
f.before('if ((current = epoch_.load(std::memory_order_acquire)) != expectedEpoch) {', P('EwLoadEpochA'), 1)
f.before('return epoch_.load(std::memory_order_acquire);', P('EwLoadEpochC'), 3)
f.save()

# ------------------------------------------------------------------ thread_pool.cpp
f = F('thread_pool.cpp')
f.region('void ThreadPool::PerThreadData::stop() {', 'uint32_t ThreadPool::waitOnThread(')
f.before('running_.store(false, std::memory_order_release);', P('TpStop'))
f.region('uint32_t ThreadPool::waitOnThread(', 'inline bool ThreadPool::PerThreadData::running() {')
f.before('auto* ws = detail::consumeLoad(wakeState_);', P('TpWkWaitLoadWake'))
f.region('inline bool ThreadPool::PerThreadData::running() {', 'ThreadPool::ThreadPool(size_t n')
f.before('return running_.load(std::memory_order_acquire);', P('TpWkLoadRunning'))
f.region('ThreadPool::ThreadPool(size_t n', 'ThreadPool::PerThreadData::~PerThreadData() {}')
f.before('threads_.back().setThread(', 'DISPENSO_VERIF_THREAD_SPAWNED("w", this, ringIdx);', 2, after=True)
f.region('void ThreadPool::markWorkDone(bool& isWorking) {', 'void ThreadPool::markIdle(bool& isWorking) {')
f.before('numNotWorking_.fetch_sub(1', P('TpWkDecNotWorking'))
f.region('void ThreadPool::markIdle(bool& isWorking) {', 'template <bool kUseWakeSleep>')
f.before('numNotWorking_.fetch_add(1', P('TpWkIncNotWorking'))
f.region('void ThreadPool::threadLoopImpl(PerThreadData& data, int32_t ringIndex) {', 'template void ThreadPool::threadLoopImpl<true>')
f.before('moodycamel::ConsumerToken ctoken(work_);', 'DISPENSO_VERIF_THREAD_BEGIN("w", this, ringIndex);')
f.before('auto* ws = detail::consumeLoad(wakeState_);', P('TpWkInit'))
f.before('workRemaining_.fetch_sub(localWorkDone, std::memory_order_relaxed);', P('TpWkFlushWork'), 2)
f.before('if (myStealRing.try_pop(stealTask)) {', P('TpWkPopSteal2'))
f.before('if (epoch == preWaitEpoch && work_.size_approx() != 0) {', P('TpWkSizeApprox'))
f.before('centralQueueNonEmpty_.store(true, std::memory_order_relaxed);', P('TpSetFlag'))
# end of thread: after the final markIdle(isWorking);
idx = [i for i in range(f.lo, f.hi) if f.lines[i].strip() == 'markIdle(isWorking);']
last = idx[-1]
f.lines.insert(last + 1, '  DISPENSO_VERIF_THREAD_END("w", this);')
f.hi += 1
for fn_start, fn_end in (('void ThreadPool::resizeLocked(ssize_t sn) {', 'ThreadPool::~ThreadPool() {'),
                         ('ThreadPool::~ThreadPool() {', 'ThreadPool& globalThreadPool() {')):
    f.region(fn_start, fn_end)
    f.before('auto* ws = detail::consumeLoad(wakeState_);', P('TpRzLoadWake'))
    f.before('t.thread_.join();', 'DISPENSO_VERIF_BLOCKING_BEGIN("TpRzJoin", this);')
    f.before('t.thread_.join();', 'DISPENSO_VERIF_BLOCKING_END("TpRzJoined", this);', after=True)
    f.before('while (rings_[i].try_pop(task)) {', P('TpRzDrainRing'))
    f.before('while (stealRings_[i].try_pop(task)) {', P('TpRzDrainSteal'))
    # inside the drain loops, after running the task (2 x `task();`)
    idx = [i for i in range(f.lo, f.hi) if f.lines[i].strip() == 'task();']
    assert len(idx) == 2, idx
    for k, i in enumerate(reversed(idx)):
        ind = f.lines[i][:len(f.lines[i]) - len(f.lines[i].lstrip())]
        f.lines.insert(i + 1, ind + P('TpRzDrainSteal' if k == 0 else 'TpRzDrainRing'))
    f.hi += 2
f.region('void ThreadPool::resizeLocked(ssize_t sn) {', 'ThreadPool::~ThreadPool() {')
f.before('rings_.grow_by(n - rings_.size());', P('TpRzGrowRings'))
f.before('numRings_.store(n, std::memory_order_release);', P('TpRzStoreNumRings'))
f.before('numStealRings_.store(newNumSteal, std::memory_order_release);', P('TpRzStoreNumSteal'))
f.before('numStealRings_.store(0, std::memory_order_release);', P('TpRzStoreNumSteal'))
f.before('wakeState_.store(rawNewWake, std::memory_order_release);', P('TpRzStoreWake'))
f.before('wakeState_.store(nullptr, std::memory_order_release);', P('TpRzStoreWake'))
f.before('poolLoadFactor_.store(', P('TpRzStoreLoadFactor'))
f.before('numThreads_.store(sn, std::memory_order_relaxed);', P('TpRzStoreNumThreads'))
f.before('numNotWorking_.store(static_cast<int32_t>(n), std::memory_order_relaxed);', P('TpRzStoreNotWorking'))
f.before('threads_.back().setThread(', 'DISPENSO_VERIF_THREAD_SPAWNED("w", this, ringIdx);', 2, after=True)
f.save()
print('ok')
