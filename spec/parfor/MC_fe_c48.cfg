\* C48 E1 (for_each part): every interleaving, small domain
CONSTANTS
  Orig = {}
  PoolSizes = {1, 3}
  Lens = {5}
  MaxThreads = {0, 1, 2, 4}
  Waits = {TRUE, FALSE}
  Cats = {"ra"}
  SeqOnly = FALSE
SPECIFICATION Spec
CHECK_DEADLOCK TRUE
INVARIANTS NoDivZero PlanPartition AtMostOnce ExactlyOnceAtCompletion ConcurrencyBound PeakBound PlanBound OneBodyPerThread
