CONSTANTS
  OrigAlign = TRUE
  OrigCursor = FALSE
  W = 6
  Signs = {TRUE, FALSE}
  WideSame = {FALSE}
  Starts <- EdgeOffsets
  Lens <- EdgeLens
  Modes = {"auto"}
  Chunks = {1}
  Pools <- PoolsSmall
  Waits = {TRUE}
  MinItems = {1}
  Grans = {2, 3, 4}
  Props = {"c13"}
  L3 = 1
  GSpan = 2
INIT Init
NEXT Next
CHECK_DEADLOCK FALSE
INVARIANTS NoArithmeticError C13Granularity
