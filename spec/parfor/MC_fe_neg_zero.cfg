\* negative control (C15): ORIGINAL for_each_n reaches staticChunkSize(n, 0) on a zero-thread pool with wait = false
CONSTANTS
  Orig = {"fe0"}
  PoolSizes = {0, 1}
  Lens = {0, 1, 3}
  MaxThreads = {0, 1, 2}
  Waits = {TRUE, FALSE}
  Cats = {"ra"}
  SeqOnly = TRUE
SPECIFICATION Spec
CHECK_DEADLOCK TRUE
INVARIANTS NoDivZero
