------------------------------ MODULE Chunking ------------------------------
(* Transcription of the chunking arithmetic of dispenso::parallel_for.            *)
(*                                                                                *)
(*   dispenso/platform.h           staticChunkSize, staticChunkSizeGranular        *)
(*   dispenso/detail/par_for_static.h   StaticChunkMapper, parallel_for_staticImpl *)
(*   dispenso/parallel_for.h       ChunkedRange::calcChunkSize, computeGranularity,*)
(*                                 adjustChunkSizing, parallel_for (dispatch)      *)
(*   dispenso/detail/par_for_dynamic.h  chunk -> [begin,end) of the shared index   *)
(*   dispenso/for_each.h           chunk boundaries of for_each_n                  *)
(*                                                                                *)
(* Two kinds of arithmetic are distinguished, exactly as in the C++ code:         *)
(*  * COUNT arithmetic (ssize_t / size_type values: number of items, chunks,      *)
(*    threads, chunk sizes).  These are 64-bit in the code and are modelled by    *)
(*    unbounded integers: ASSUMPTION "counts do not overflow 64 bits" (sizes      *)
(*    below 2^62).                                                                *)
(*  * POSITION arithmetic (values of the loop index type IntegerT and of the      *)
(*    64-bit "wide" cursor type).  Every C++ conversion / wrapping operation is   *)
(*    an explicit Cast(x, type).  A type is a record [min, max]; its cardinality  *)
(*    need not be a power of two, so the same operators serve a reduced W-bit     *)
(*    type in model checking, the real 8/16-bit types, and a window              *)
(*    [start - dlo, start + dhi] of a 32/64-bit type in trace validation          *)
(*    (TLC integers are 32-bit).                                                  *)
EXTENDS Integers, Sequences, FiniteSets, TLC

Min(a, b) == IF a < b THEN a ELSE b
Max(a, b) == IF a > b THEN a ELSE b
Abs(a) == IF a < 0 THEN -a ELSE a

\* ---------------------------------------------------------------- integer types
Ty(lo, hi) == [min |-> lo, max |-> hi]
Card(ty) == ty.max - ty.min + 1
\* conversion of the mathematical value x to the type (two's complement wrap)
Cast(x, ty) == ty.min + ((x - ty.min) % Card(ty))
Fits(x, ty) == ty.min <= x /\ x <= ty.max

\* C++ integer division / remainder (truncation toward zero); b # 0
TruncDiv(a, b) == LET q == Abs(a) \div Abs(b) IN IF (a < 0) # (b < 0) THEN -q ELSE q

\* ---------------------------------------------------------------- platform.h
\* items >= 0, chunks >= 1 (asserted in the code)
CeilDiv(a, b) == (a + b - 1) \div b

StaticChunkSize(items, chunks) ==
  LET c    == (items + chunks - 1) \div chunks
      left == c * chunks - items
  IN  [ceil |-> c, trans |-> chunks - left]

\* items is a multiple of g (asserted in the code)
StaticChunkSizeGranular(items, chunks, g) ==
  IF g <= 1 THEN StaticChunkSize(items, chunks)
  ELSE LET u    == items \div g
           cg   == (u + chunks - 1) \div chunks
           left == cg * chunks - u
       IN  [ceil |-> cg * g, trans |-> chunks - left]

\* ---------------------------------------------------------------- par_for_static.h
\* m = [nt, chunk, small, trans, rs, re, ty]; idx in 0 .. nt-1.  <<start, end>> of chunk idx.
MapperChunk(m, idx) ==
  LET ty == m.ty
      st == IF idx < m.trans
            THEN Cast(m.rs + Cast(Cast(idx, ty) * m.chunk, ty), ty)
            ELSE Cast(m.rs + Cast(Cast(m.trans, ty) * m.chunk, ty)
                           + Cast(Cast(idx - m.trans, ty) * m.small, ty), ty)
      en == IF idx + 1 = m.nt THEN m.re
            ELSE IF idx < m.trans THEN Cast(st + m.chunk, ty)
            ELSE Cast(st + m.small, ty)
  IN  <<st, en>>

\* parallel_for_staticImpl: the mapper it builds for range [rs, re), maxThreads, pool size N
StaticMapper(ty, rs, re, maxThreads, N, g) ==
  LET size == re - rs
      nt0  == Min(Min(N + 1, maxThreads), size)
      nt   == IF g > 1 /\ (size \div g) < nt0 THEN Max(1, size \div g) ELSE nt0
      ch   == IF g > 1 THEN StaticChunkSizeGranular(size, nt, g) ELSE StaticChunkSize(size, nt)
      chunk == Cast(ch.ceil, ty)
      perfect == ch.trans = nt
      step == IF g > 1 THEN Cast(g, ty) ELSE 1
      small == Cast(chunk - (IF perfect THEN 0 ELSE step), ty)
  IN  [nt |-> nt, chunk |-> chunk, small |-> small, trans |-> (IF perfect THEN nt ELSE ch.trans),
       rs |-> rs, re |-> re, ty |-> ty]

MapperBodies(m) == [i \in 1 .. m.nt |-> MapperChunk(m, i - 1)]

\* ---------------------------------------------------------------- for_each.h
\* boundaries of for_each_n(n items, numThreads): offsets b[0..nt]
ForEachSizes(n, nt) ==
  LET ch == StaticChunkSize(n, nt)
      perfect == ch.trans = nt
      small == ch.ceil - (IF perfect THEN 0 ELSE 1)
  IN  [t \in 1 .. nt |-> IF (t - 1) < ch.trans THEN ch.ceil ELSE small]
\* random-access variant: offset of chunk idx computed directly
ForEachOffset(n, nt, idx) ==
  LET ch == StaticChunkSize(n, nt)
      perfect == ch.trans = nt
      small == ch.ceil - (IF perfect THEN 0 ELSE 1)
  IN  IF idx < ch.trans THEN idx * ch.ceil ELSE ch.trans * ch.ceil + (idx - ch.trans) * small

\* ---------------------------------------------------------------- parallel_for.h
\* ChunkedRange::calcChunkSize, automatic branch: do { ... } while (chunkSize < minChunkSize)
RECURSIVE DynLoop(_, _, _, _, _)
DynLoop(size, wt, dyn, minChunk, g) ==
  IF dyn <= 0 THEN [err |-> TRUE, cs |-> 1]     \* roughChunks = 0: division by zero in the code
  ELSE LET rough == dyn * wt
           cs0 == (size + rough - 1) \div rough
           cs  == IF g > 1 THEN ((cs0 + g - 1) \div g) * g ELSE cs0
       IN  IF cs < minChunk THEN DynLoop(size, wt, dyn - 1, minChunk, g)
           ELSE [err |-> FALSE, cs |-> cs]

\* chunk = 0: automatic; otherwise the explicit chunk size.  Result [err, cs, n].
CalcChunkSize(size, chunk, launched, onCaller, minChunk, g, maxDyn) ==
  LET wt == launched + (IF onCaller THEN 1 ELSE 0)
  IN  IF chunk = 0
      THEN LET r == IF wt <= 0 THEN [err |-> TRUE, cs |-> 1]
                    ELSE DynLoop(size, wt, Min(maxDyn, size \div wt), minChunk, g)
           IN  [err |-> r.err, cs |-> r.cs, n |-> (size + r.cs - 1) \div r.cs]
      ELSE [err |-> FALSE, cs |-> chunk, n |-> (size + chunk - 1) \div chunk]

\* detail::adjustChunkSizing.  `clamp`: in the branch for tiny explicit-chunk ranges the code assigns
\* maxThreads = size - wait; a repair of C48 (maxThreads bounds the concurrency) makes that
\* min(maxThreads, size - wait).  The worker count of that branch is irrelevant to C12/C13/C17, so
\* the specification allows both (clamp = FALSE / TRUE) and the properties are checked for both.
AdjustChunkSizing(size, maxThreads0, isStatic0, isAuto, isStaticRange, minItems, N, wait, clamp) ==
  LET w   == IF wait THEN 1 ELSE 0
      mt1 == Min(maxThreads0, N + 1)
  IN  IF minItems > 1
      THEN LET maxWorkers == size \div minItems
               mt2 == IF maxWorkers < mt1 THEN maxWorkers ELSE mt1
           IN  [maxThreads |-> mt2,
                isStatic |-> IF mt2 > 0 /\ (size \div (mt2 + w)) < minItems /\ isAuto
                             THEN TRUE ELSE isStatic0]
      ELSE IF size <= N + w
      THEN (IF isAuto THEN [maxThreads |-> mt1, isStatic |-> TRUE]
            ELSE IF ~isStaticRange
            THEN [maxThreads |-> IF clamp THEN Min(mt1, size - w) ELSE size - w, isStatic |-> isStatic0]
            ELSE [maxThreads |-> mt1, isStatic |-> isStatic0])
      ELSE [maxThreads |-> mt1, isStatic |-> isStatic0]

\* detail::computeGranularity: [g, trimmedEnd, hasTail]
ComputeGranularity(ty, start, end, autoOrStatic, requested) ==
  LET g   == IF autoOrStatic THEN Max(1, requested) ELSE 1
      rem == IF g > 1 THEN (end - start) % g ELSE 0
  IN  [g |-> g,
       trimmedEnd |-> IF rem > 0 THEN Cast(end - Cast(rem, ty), ty) ELSE end,
       hasTail |-> rem > 0]

\* par_for_dynamic.h: the chunk handed out for shared-index value cur (0 <= cur < n)
DynChunk(ty, start, end, cs, n, cur) ==
  LET sidx == Cast(start + cur * cs, ty)
  IN  <<sidx, IF cur + 1 = n THEN end ELSE Cast(sidx + cs, ty)>>

\* number of index groups of parallel_for_dynamicImpl (gspan = 16 in the code)
DynGroups(totalWorkers, l3, gspan) ==
  IF l3 > 1 /\ totalWorkers > gspan THEN Min(l3, totalWorkers)
  ELSE Max(1, (totalWorkers + gspan - 1) \div gspan)
\* group g (0-based) owns chunks startChunk .. startChunk + count - 1
DynGroupRange(n, groups, g) ==
  LET base == n \div groups
      extra == n % groups
  IN  [startChunk |-> g * base + Min(g, extra), count |-> base + (IF g < extra THEN 1 ELSE 0)]

\* ---------------------------------------------------------------- properties of chunk lists
RECURSIVE SumSizes(_)
SumSizes(B) == IF B = <<>> THEN 0 ELSE (B[1][2] - B[1][1]) + SumSizes(Tail(B))

\* B (sequence of <<b, e>>) is an exact partition of [s, e): every body non-empty and inside the
\* range, every index in exactly one body.
IsChain(B, s, e) ==
  IF B = <<>> THEN s = e
  ELSE /\ B[1][1] = s /\ B[Len(B)][2] = e
       /\ \A i \in 1 .. Len(B) : B[i][1] < B[i][2]
       /\ \A i \in 1 .. (Len(B) - 1) : B[i][2] = B[i + 1][1]
IsPartition(B, s, e) ==
  \/ IsChain(B, s, e)
  \/ /\ \A i \in 1 .. Len(B) : s <= B[i][1] /\ B[i][1] < B[i][2] /\ B[i][2] <= e
     /\ SumSizes(B) = e - s
     /\ \A i, j \in 1 .. Len(B) : i < j => (B[i][2] <= B[j][1] \/ B[j][2] <= B[i][1])

\* granularity contract: at most one body whose size is not a multiple of g, and it ends at e
GranularityOK(B, g, e) ==
  LET odd == {i \in 1 .. Len(B) : (B[i][2] - B[i][1]) % g # 0}
  IN  g <= 1 \/ (Cardinality(odd) <= 1 /\ \A i \in odd : B[i][2] = e)

SeqToBag(B) == LET R == {B[i] : i \in DOMAIN B}
               IN  [x \in R |-> Cardinality({i \in DOMAIN B : B[i] = x})]
=============================================================================
