\* C14/C48 E1: every interleaving of the body invocations, small parameter domain (code with the fixes)
CONSTANTS
  Orig = {}
  PoolSizes = {1, 3}
  Lens = {7}
  Modes = {"static", "auto", "chunk"}
  Chunks = {2}
  MaxThreads = {2, 3}
  Waits = {TRUE, FALSE}
  Grans = {1, 3}
  MinItems = {1}
  Reuses <- ReuseOne
  InPool = FALSE
  SeqOnly = FALSE
SPECIFICATION Spec
CHECK_DEADLOCK TRUE
INVARIANTS OneBodyPerState StateExists StatesNonEmptyAfterReturn ConcurrencyBound PeakBound PlanBound SlotsDistinct OneBodyPerThread QuietAfterCompletion
