CONSTANTS
  OrigAlign = FALSE
  OrigCursor = FALSE
SPECIFICATION TraceSpec
CHECK_DEADLOCK FALSE
POSTCONDITION TraceAccepted
INVARIANTS Conforms C12Partition C12AllReturned SpecC12
