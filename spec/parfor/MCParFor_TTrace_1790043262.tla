---- MODULE MCParFor_TTrace_1790043262 ----
EXTENDS Sequences, TLCExt, MCParFor, Toolbox, Naturals, TLC

_expression ==
    LET MCParFor_TEExpression == INSTANCE MCParFor_TEExpression
    IN MCParFor_TEExpression!expression
----

_trace ==
    LET MCParFor_TETrace == INSTANCE MCParFor_TETrace
    IN MCParFor_TETrace!trace
----

_inv ==
    ~(
        TLCGet("level") = Len(_TETrace)
        /\
        seed = ([sg |-> FALSE, ws |-> TRUE, start |-> 1])
        /\
        inp = ([sg |-> FALSE, start |-> 1, end |-> 63, mode |-> "auto", c |-> 0, wait |-> TRUE, mi |-> 1, g |-> 1, clamp |-> FALSE, tmin |-> 0, tmax |-> 63, wmin |-> 0, wmax |-> 63, mt |-> 1000, N |-> 1, l3 |-> 1, gspan |-> 2, rec |-> FALSE])
        /\
        out = ([c12 |-> FALSE, kind |-> "stripe", err |-> FALSE, late |-> TRUE, runaway |-> TRUE, c13 |-> TRUE, bodies |-> <<<<1, 2>>, <<2, 3>>, <<3, 4>>, <<4, 5>>, <<5, 6>>, <<6, 7>>, <<7, 8>>, <<8, 9>>, <<9, 10>>, <<10, 11>>, <<11, 12>>, <<12, 13>>, <<13, 14>>, <<14, 15>>, <<15, 16>>, <<16, 17>>, <<17, 18>>, <<18, 19>>, <<19, 20>>, <<20, 21>>, <<21, 22>>, <<22, 23>>, <<23, 24>>, <<24, 25>>, <<25, 26>>, <<26, 27>>, <<27, 28>>, <<28, 29>>, <<29, 30>>, <<30, 31>>, <<31, 32>>, <<32, 33>>, <<33, 34>>, <<34, 35>>, <<35, 36>>, <<36, 37>>, <<37, 38>>, <<38, 39>>, <<39, 40>>, <<40, 41>>, <<41, 42>>, <<42, 43>>, <<43, 44>>, <<44, 45>>, <<45, 46>>, <<46, 47>>, <<47, 48>>, <<48, 49>>, <<49, 50>>, <<50, 51>>, <<51, 52>>, <<52, 53>>, <<53, 54>>, <<54, 55>>, <<55, 56>>, <<56, 57>>, <<57, 58>>, <<58, 59>>, <<59, 60>>, <<60, 61>>, <<61, 62>>, <<62, 63>>, <<0, 1>>, <<1, 2>>, <<2, 3>>, <<3, 4>>, <<4, 5>>, <<5, 6>>, <<6, 7>>, <<7, 8>>, <<8, 9>>, <<9, 10>>, <<10, 11>>, <<11, 12>>, <<12, 13>>, <<13, 14>>, <<14, 15>>, <<15, 16>>, <<16, 17>>, <<17, 18>>, <<18, 19>>, <<19, 20>>, <<20, 21>>, <<21, 22>>, <<22, 23>>, <<23, 24>>, <<24, 25>>, <<25, 26>>, <<26, 27>>, <<27, 28>>, <<28, 29>>, <<29, 30>>, <<30, 31>>, <<31, 32>>, <<32, 33>>, <<33, 34>>>>])
    )
----

_init ==
    /\ out = _TETrace[1].out
    /\ inp = _TETrace[1].inp
    /\ seed = _TETrace[1].seed
----

_next ==
    /\ \E i,j \in DOMAIN _TETrace:
        /\ \/ /\ j = i + 1
              /\ i = TLCGet("level")
        /\ out  = _TETrace[i].out
        /\ out' = _TETrace[j].out
        /\ inp  = _TETrace[i].inp
        /\ inp' = _TETrace[j].inp
        /\ seed  = _TETrace[i].seed
        /\ seed' = _TETrace[j].seed

\* Uncomment the ASSUME below to write the states of the error trace
\* to the given file in Json format. Note that you can pass any tuple
\* to `JsonSerialize`. For example, a sub-sequence of _TETrace.
    \* ASSUME
    \*     LET J == INSTANCE Json
    \*         IN J!JsonSerialize("MCParFor_TTrace_1790043262.json", _TETrace)

=============================================================================

 Note that you can extract this module `MCParFor_TEExpression`
  to a dedicated file to reuse `expression` (the module in the 
  dedicated `MCParFor_TEExpression.tla` file takes precedence 
  over the module `MCParFor_TEExpression` below).

---- MODULE MCParFor_TEExpression ----
EXTENDS Sequences, TLCExt, MCParFor, Toolbox, Naturals, TLC

expression == 
    [
        \* To hide variables of the `MCParFor` spec from the error trace,
        \* remove the variables below.  The trace will be written in the order
        \* of the fields of this record.
        out |-> out
        ,inp |-> inp
        ,seed |-> seed
        
        \* Put additional constant-, state-, and action-level expressions here:
        \* ,_stateNumber |-> _TEPosition
        \* ,_outUnchanged |-> out = out'
        
        \* Format the `out` variable as Json value.
        \* ,_outJson |->
        \*     LET J == INSTANCE Json
        \*     IN J!ToJson(out)
        
        \* Lastly, you may build expressions over arbitrary sets of states by
        \* leveraging the _TETrace operator.  For example, this is how to
        \* count the number of times a spec variable changed up to the current
        \* state in the trace.
        \* ,_outModCount |->
        \*     LET F[s \in DOMAIN _TETrace] ==
        \*         IF s = 1 THEN 0
        \*         ELSE IF _TETrace[s].out # _TETrace[s-1].out
        \*             THEN 1 + F[s-1] ELSE F[s-1]
        \*     IN F[_TEPosition - 1]
    ]

=============================================================================



Parsing and semantic processing can take forever if the trace below is long.
 In this case, it is advised to uncomment the module below to deserialize the
 trace from a generated binary file.

\*
\*---- MODULE MCParFor_TETrace ----
\*EXTENDS IOUtils, MCParFor, TLC
\*
\*trace == IODeserialize("MCParFor_TTrace_1790043262.bin", TRUE)
\*
\*=============================================================================
\*

---- MODULE MCParFor_TETrace ----
EXTENDS MCParFor, TLC

trace == 
    <<
    ([seed |-> [sg |-> FALSE, ws |-> TRUE, start |-> 1],inp |-> <<>>,out |-> <<>>]),
    ([seed |-> [sg |-> FALSE, ws |-> TRUE, start |-> 1],inp |-> [sg |-> FALSE, start |-> 1, end |-> 63, mode |-> "auto", c |-> 0, wait |-> TRUE, mi |-> 1, g |-> 1, clamp |-> FALSE, tmin |-> 0, tmax |-> 63, wmin |-> 0, wmax |-> 63, mt |-> 1000, N |-> 1, l3 |-> 1, gspan |-> 2, rec |-> FALSE],out |-> [c12 |-> FALSE, kind |-> "stripe", err |-> FALSE, late |-> TRUE, runaway |-> TRUE, c13 |-> TRUE, bodies |-> <<<<1, 2>>, <<2, 3>>, <<3, 4>>, <<4, 5>>, <<5, 6>>, <<6, 7>>, <<7, 8>>, <<8, 9>>, <<9, 10>>, <<10, 11>>, <<11, 12>>, <<12, 13>>, <<13, 14>>, <<14, 15>>, <<15, 16>>, <<16, 17>>, <<17, 18>>, <<18, 19>>, <<19, 20>>, <<20, 21>>, <<21, 22>>, <<22, 23>>, <<23, 24>>, <<24, 25>>, <<25, 26>>, <<26, 27>>, <<27, 28>>, <<28, 29>>, <<29, 30>>, <<30, 31>>, <<31, 32>>, <<32, 33>>, <<33, 34>>, <<34, 35>>, <<35, 36>>, <<36, 37>>, <<37, 38>>, <<38, 39>>, <<39, 40>>, <<40, 41>>, <<41, 42>>, <<42, 43>>, <<43, 44>>, <<44, 45>>, <<45, 46>>, <<46, 47>>, <<47, 48>>, <<48, 49>>, <<49, 50>>, <<50, 51>>, <<51, 52>>, <<52, 53>>, <<53, 54>>, <<54, 55>>, <<55, 56>>, <<56, 57>>, <<57, 58>>, <<58, 59>>, <<59, 60>>, <<60, 61>>, <<61, 62>>, <<62, 63>>, <<0, 1>>, <<1, 2>>, <<2, 3>>, <<3, 4>>, <<4, 5>>, <<5, 6>>, <<6, 7>>, <<7, 8>>, <<8, 9>>, <<9, 10>>, <<10, 11>>, <<11, 12>>, <<12, 13>>, <<13, 14>>, <<14, 15>>, <<15, 16>>, <<16, 17>>, <<17, 18>>, <<18, 19>>, <<19, 20>>, <<20, 21>>, <<21, 22>>, <<22, 23>>, <<23, 24>>, <<24, 25>>, <<25, 26>>, <<26, 27>>, <<27, 28>>, <<28, 29>>, <<29, 30>>, <<30, 31>>, <<31, 32>>, <<32, 33>>, <<33, 34>>>>]])
    >>
----


=============================================================================

---- CONFIG MCParFor_TTrace_1790043262 ----
CONSTANTS
    OrigAlign = FALSE
    OrigCursor = TRUE
    W = 6
    Signs = { TRUE , FALSE }
    WideSame = { TRUE }
    Starts <- EdgeOffsets
    Lens <- EdgeLens
    Modes = { "auto" }
    Chunks = { 1 }
    Pools <- PoolsSmall
    Waits = { TRUE }
    MinItems = { 1 }
    Grans = { 1 }
    Props = { "c12" }
    L3 = 1
    GSpan = 2

INVARIANT
    _inv

CHECK_DEADLOCK
    \* CHECK_DEADLOCK off because of PROPERTY or INVARIANT above.
    FALSE

INIT
    _init

NEXT
    _next

CONSTANT
    _TETrace <- _trace

ALIAS
    _expression
=============================================================================
\* Generated on Tue Sep 22 02:14:35 UTC 2026