CONSTANTS
  W = 5
  Signs = {TRUE, FALSE}
  DStarts = {0, 20}
  DLens = {1, 5, 8}
  DChunks = {1, 3}
  DWorkers = {1, 2, 3, 4}
  DWaits = {TRUE, FALSE}
  L3s = {1, 3}
  GSpan = 2
INIT Init
NEXT Next
CHECK_DEADLOCK FALSE
INVARIANTS Disjoint CompleteAtExit
