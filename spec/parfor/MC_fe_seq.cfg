\* C15 E1: pool 0..3 x wait x maxThreads 0..4 x n 0..9 x iterator category, overlap-free schedules
CONSTANTS
  Orig = {}
  PoolSizes = {0, 1, 2, 3}
  Lens = {0, 1, 2, 3, 4, 5, 6, 7, 8, 9}
  MaxThreads = {0, 1, 2, 3, 4}
  Waits = {TRUE, FALSE}
  Cats = {"ra", "bidi", "fwd"}
  SeqOnly = TRUE
SPECIFICATION Spec
CHECK_DEADLOCK TRUE
INVARIANTS NoDivZero PlanPartition AtMostOnce ExactlyOnceAtCompletion ConcurrencyBound PeakBound PlanBound OneBodyPerThread
