------------------------------ MODULE MCParFor ------------------------------
(* E1 for C12 / C13: every input of parallel_for over a reduced W-bit index type.  *)
(* One initial state per (signedness, wide-type kind, start); the single action    *)
(* Eval picks the rest of the input, evaluates the transcribed algorithm and       *)
(* stores the verdicts; the invariants are the properties.                         *)
EXTENDS ParFor

CONSTANTS W,          \* bits of the index type
          Signs,      \* subset of BOOLEAN: signed / unsigned index types
          WideSame,   \* subset of BOOLEAN: TRUE = the wide cursor type is the index type (64-bit
                      \* index types), FALSE = wide type never wraps (8/16/32-bit index types)
          Starts,     \* offsets of start from the type minimum that are explored
          Lens,       \* range lengths explored (end - start; -1 = an empty/reversed range)
          Modes,      \* subset of {"static", "auto", "chunk"}
          Chunks,     \* explicit chunk sizes
          Pools,      \* set of <<N, maxThreads>>
          Waits, MinItems, Grans,
          Props,      \* subset of {"c12", "c13"}: the verdicts to compute
          L3, GSpan   \* L3 groups; workers per dynamic index group (16 in the code; 2 exercises the
                      \* multi-group path with <= 4 workers)

VARIABLES seed, inp, out
vars == <<seed, inp, out>>

TMin(sg) == IF sg THEN -(2 ^ (W - 1)) ELSE 0
TMax(sg) == IF sg THEN 2 ^ (W - 1) - 1 ELSE 2 ^ W - 1
Big == 2 ^ 24

Init ==
  /\ seed \in {[sg |-> sg, ws |-> ws, start |-> TMin(sg) + d] :
               sg \in Signs, ws \in WideSame, d \in Starts \cap (0 .. (2 ^ W - 1))}
  /\ inp = <<>> /\ out = <<>>

MkIn(s, end, mode, c, pool, wait, mi, g, clamp) ==
  [sg |-> s.sg, tmin |-> TMin(s.sg), tmax |-> TMax(s.sg),
   wmin |-> IF s.ws THEN TMin(s.sg) ELSE (IF s.sg THEN -Big ELSE 0),
   wmax |-> IF s.ws THEN TMax(s.sg) ELSE Big,
   start |-> s.start, end |-> end, mode |-> mode, c |-> c, mt |-> pool[2], wait |-> wait,
   mi |-> mi, g |-> g, N |-> pool[1], l3 |-> L3, gspan |-> GSpan, rec |-> FALSE, clamp |-> clamp]

\* R1: inputs the documentation allows.  The range size must fit the wide signed type
\* (ChunkedRange: "I do not expect ranges larger than can be held in int64_t").
Allowed(s, end) ==
  /\ TMin(s.sg) <= end /\ end <= TMax(s.sg)
  /\ (s.ws /\ s.sg) => end - s.start <= TMax(TRUE)

Eval ==
  /\ inp = <<>>
  /\ \E len \in Lens, mode \in Modes, pool \in Pools, wait \in Waits :
       \E c \in (IF mode = "chunk" THEN {x \in Chunks : x <= TMax(seed.sg)} ELSE {0}),
          mi \in MinItems,
          g \in (IF mode = "chunk" THEN {1} ELSE Grans),
          clamp \in (IF mode = "chunk" THEN BOOLEAN ELSE {FALSE}) :
         \* (bound with \E over singleton sets: TLC re-evaluates action-level LET definitions at every use)
         \E in \in {MkIn(seed, seed.start + len, mode, c, pool, wait, mi, g, clamp)} :
           \E o \in {ParForOutcome(in)} :
             /\ Allowed(seed, in.end)
             /\ inp' = in
             /\ out' = [kind |-> o.kind, err |-> o.err, late |-> o.late, runaway |-> o.runaway,
                        c12 |-> ("c12" \notin Props \/ C12Holds(in, o)),
                        c13 |-> ("c13" \notin Props \/ C13Holds(in, o)), bodies |-> o.bodies]
  /\ UNCHANGED seed

Next == Eval
Spec == Init /\ [][Next]_vars

\* ---------------------------------------------------------------- properties
NoArithmeticError == out # <<>> => ~out.err
NoLateClaim       == out # <<>> => ~out.late /\ ~out.runaway
C12Partition      == out # <<>> => out.c12
C13Granularity    == out # <<>> => out.c13

\* ---------------------------------------------------------------- sets used by the configurations
PoolsAll   == {<<0, 1000>>, <<1, 1>>, <<1, 1000>>, <<2, 2>>, <<2, 1000>>, <<3, 2>>, <<3, 3>>, <<3, 1000>>}
PoolsSmall == {<<1, 1000>>, <<3, 1000>>}
PoolsOne   == {<<3, 1000>>}
AllOffsets == 0 .. (2 ^ W - 1)
AllLens    == (-1) .. (2 ^ W - 1)
\* start at / near the type minimum, around zero of a signed type, near the maximum
EdgeOffsets == {0, 1, 3, 2 ^ (W - 1) - 3, 2 ^ (W - 1), 2 ^ (W - 1) + 2}
               \cup {2 ^ W - 1 - d : d \in {1, 2, 5, 6, 9, 14, 21, 30}}
PoolsQ == {<<1, 1000>>, <<2, 2>>, <<3, 1000>>}
EdgeOffsetsQ == {0, 3, 2 ^ (W - 1) - 3, 2 ^ W - 31, 2 ^ W - 15, 2 ^ W - 6, 2 ^ W - 2}
EdgeLensQ == {-1, 0, 1, 2, 5, 13, 14, 29, 30, 2 ^ W - 1}
EdgeLens == {-1, 0, 1, 2, 3, 5, 8, 13, 21, 2 ^ (W - 1) - 1, 2 ^ (W - 1), 2 ^ W - 2, 2 ^ W - 1}
=============================================================================
