CONSTANTS
  MaxItems = 400
  MaxChunks = 40
  MaxG = 8
INIT Init
NEXT Next
CHECK_DEADLOCK FALSE
INVARIANTS SizesSumToItems TransitionInRange SizesDifferByOneUnit QuotRemForm GranularOneIsPlain MapperContiguous ForEachBoundaries
