----------------------------- MODULE ParForApi -----------------------------
(* API-level specification of one stateful dispenso::parallel_for call          *)
(* (dispenso/parallel_for.h:555, detail/par_for_static.h, par_for_dynamic.h,     *)
(* par_for_stripe.h) over an abstract thread pool, for                            *)
(*   C14  no element of the states container is used by two body invocations at   *)
(*        a time; the container is non-empty afterwards                            *)
(*   C48  never more than max(1, maxThreads) body invocations at a time            *)
(*                                                                                *)
(* Actions (the observable events of a call)                                      *)
(*   Call(t, cring)            thread t enters parallel_for with parameters P      *)
(*   BodyBegin(t, st, b, e)    thread t enters f(states[st], start+b, start+e)     *)
(*   BodyEnd(t, st, b, e)      ... and leaves it                                   *)
(*   Return(t, sz)             parallel_for returns; the container has sz elements *)
(*   SetWait(t), SetWaitReturn(t)   the caller's taskSet.wait() after a no-wait call*)
(*                                                                                *)
(* What is modelled: the decision logic of parallel_for (serial / static /        *)
(* dynamic / stripe), how many tasks it hands to the pool, which element of the   *)
(* container every participant (task or the caller) is bound to, which chunks a   *)
(* participant may execute, who runs the granularity tail and when.  The pool is  *)
(* abstract: a scheduled task may be started by any pool thread, by the caller    *)
(* while it is inside parallel_for (inline execution in scheduleBulk, stealing in *)
(* TaskSet::wait) or inside its own taskSet.wait(); a thread runs one task at a   *)
(* time.  Positions are offsets from range.start.                                 *)
(*                                                                                *)
(* Threads are integers: 0 = an external caller, 1..N = the pool's threads.       *)
(*                                                                                *)
(* Parameters P (a record):                                                       *)
(*   n      range length (end - start), may be <= 0                               *)
(*   mode   "static" | "auto" | "chunk";  c = explicit chunk size ("chunk")        *)
(*   mt     ParForOptions::maxThreads;  mtneg = it exceeds INT32_MAX               *)
(*   wait, g (granularity), mi (minItemsPerChunk), reuse (reuseExistingState)      *)
(*   pre    elements in the container before the call                              *)
(*   N      taskSet.numPoolThreads()                                               *)
(*   cring  PerPoolPerThreadInfo::ringIndex of the caller (-1: not a pool thread)  *)
(*   rec    the call is made inside a parallel_for body (isParForRecursive)        *)
(*                                                                                *)
(* Orig \subseteq {"tail", "clamp"} selects the ORIGINAL (defective) form of two   *)
(* mechanisms; Orig = {} is the code with the fix: commits.                        *)
(*   "tail"   static chunking, wait = false, granularity tail: runTail() runs on   *)
(*            the caller, on states[0], right after the chunks were scheduled      *)
(*            (fixed: the task of chunk 0 runs the tail after its chunk)           *)
(*   "clamp"  adjustChunkSizing(): explicit chunk size and size <= N + wait sets   *)
(*            maxThreads = size - wait, discarding the user's maxThreads           *)
(*            (fixed: min(maxThreads, size - wait))                                *)
EXTENDS Integers, Sequences, FiniteSets, TLC

CONSTANT Orig

VARIABLES P,        \* parameters of the call
          pl,       \* the plan derived from P at Call
          cal,      \* the calling thread
          cph,      \* caller phase: "idle" "in" "ret" "swait" "done"
          pst,      \* participant -> "q" (not started) | "run" | "x" (finished)
          pth,      \* participant -> thread (-1: none yet)
          active,   \* set of body invocations in progress
          covered,  \* offsets whose body invocation has begun
          tailSt,   \* "no" | "run" | "done"
          nst,      \* elements in the states container
          peak      \* ghost: maximum of Cardinality(active)
vars == <<P, pl, cal, cph, pst, pth, active, covered, tailSt, nst, peak>>

Min(a, b) == IF a < b THEN a ELSE b
Max(a, b) == IF a > b THEN a ELSE b
CeilDiv(a, b) == (a + b - 1) \div b
W(p) == IF p.wait THEN 1 ELSE 0

\* ------------------------------------------------------------------ decision logic
\* size_type maxThreads = std::max<int32_t>(options.maxThreads, 1)
MaxT0(p) == IF p.mtneg THEN 1 ELSE Max(p.mt, 1)
\* the user's bound (C48): "zero or one will result in serial operation"
UserBound(p) == IF p.mtneg THEN 2147483647 ELSE Max(p.mt, 1)

\* computeGranularity
Gran(p) == IF p.mode \in {"static", "auto"} THEN Max(1, p.g) ELSE 1
TrimLen(p) == p.n - (p.n % Gran(p))
HasTail(p) == Gran(p) > 1 /\ (p.n % Gran(p)) > 0

\* adjustChunkSizing(parRange, maxThreads, isStatic, minItemsPerChunk, N, wait)
Adjust(p) ==
  LET tn == TrimLen(p)
      mi == Max(1, p.mi)
      m1 == Min(MaxT0(p), p.N + 1)
  IN  IF mi > 1
      THEN LET mw == tn \div mi
               m2 == IF mw < m1 THEN mw ELSE m1
           IN  [mt |-> m2,
                st |-> p.mode = "static" \/ (m2 > 0 /\ (tn \div (m2 + W(p))) < mi /\ p.mode = "auto")]
      ELSE IF tn <= p.N + W(p)
           THEN IF p.mode = "auto" THEN [mt |-> m1, st |-> TRUE]
                ELSE IF p.mode = "chunk"
                     THEN [mt |-> (IF "clamp" \in Orig THEN tn - W(p) ELSE Min(m1, tn - W(p))), st |-> FALSE]
                     ELSE [mt |-> m1, st |-> TRUE]
           ELSE [mt |-> m1, st |-> p.mode = "static"]

\* parallel_for_staticImpl: number of chunks and their bounds (platform.h staticChunkSize[Granular])
StaticNt(p, mt) ==
  LET tn  == TrimLen(p)
      g   == Gran(p)
      nt0 == Min(Min(p.N + 1, mt), tn)
  IN  IF g > 1 /\ (tn \div g) < nt0 THEN Max(1, tn \div g) ELSE nt0

StaticBounds(p, nt) ==
  LET tn   == TrimLen(p)
      g    == Gran(p)
      u    == tn \div g                      \* items in granularity units (g = 1: items)
      cg   == CeilDiv(u, nt)
      left == cg * nt - u
      ceil == cg * g
      trans == nt - left
      small == ceil - (IF trans = nt THEN 0 ELSE g)
  IN  [i \in 0 .. (nt - 1) |->
         LET s == IF i < trans THEN i * ceil ELSE trans * ceil + (i - trans) * small
             e == IF i + 1 = nt THEN tn ELSE s + (IF i < trans THEN ceil ELSE small)
         IN  <<s, e>>]

\* ChunkedRange::calcChunkSize for Auto chunking (only reached with wait = false here)
RECURSIVE AutoChunk(_, _, _, _, _)
AutoChunk(tn, wt, mi, g, df) ==
  LET rough == df * wt
      c0 == CeilDiv(tn, rough)
      c  == IF g > 1 THEN CeilDiv(c0, g) * g ELSE c0
  IN  IF c < mi /\ df > 1 THEN AutoChunk(tn, wt, mi, g, df - 1) ELSE c

DynChunk(p, nl) ==
  IF p.mode = "chunk" THEN p.c
  ELSE LET wt == nl + W(p) IN AutoChunk(TrimLen(p), wt, Max(1, p.mi), Gran(p), Min(16, TrimLen(p) \div wt))

NoPlan == [kind |-> "none", np |-> 0, cpart |-> -1, ns |-> 0, tn |-> 0, hasTail |-> FALSE,
           tailBy |-> "none", bounds |-> <<>>, cs |-> 1]

SerialPlan(p) == [kind |-> "serial", np |-> 1, cpart |-> 0, ns |-> 1, tn |-> p.n, hasTail |-> FALSE,
                  tailBy |-> "none", bounds |-> [i \in {0} |-> <<0, p.n>>], cs |-> 1]

Plan(p) ==
  IF p.n <= 0 THEN [NoPlan EXCEPT !.kind = "empty"]
  ELSE
  LET tn == TrimLen(p)
      ht == HasTail(p)
  IN
  IF tn <= 0 \/ p.N = 0 \/ p.rec THEN SerialPlan(p)
  ELSE
  LET adj == Adjust(p) IN
  IF adj.mt < 2 THEN SerialPlan(p)
  ELSE IF adj.st
  THEN LET nt == StaticNt(p, adj.mt) IN
       [kind |-> "static", np |-> nt,
        cpart |-> (IF ~p.wait THEN -1 ELSE IF p.cring >= 0 /\ p.cring < nt THEN p.cring ELSE nt - 1),
        ns |-> nt, tn |-> tn, hasTail |-> ht,
        tailBy |-> (IF ~ht THEN "none" ELSE IF p.wait THEN "caller_end"
                    ELSE IF "tail" \in Orig THEN "caller_now" ELSE "part0"),
        bounds |-> StaticBounds(p, nt), cs |-> 1]
  ELSE LET nl == Min(adj.mt - W(p), p.N) IN
       IF p.mode = "auto" /\ p.wait
       THEN [kind |-> "stripe", np |-> nl + 1, cpart |-> nl, ns |-> nl + 1, tn |-> tn, hasTail |-> ht,
             tailBy |-> (IF ht THEN "caller_end" ELSE "none"), bounds |-> <<>>, cs |-> 1]
       ELSE [kind |-> "dyn", np |-> nl + W(p), cpart |-> (IF p.wait THEN nl ELSE -1), ns |-> nl + W(p),
             tn |-> tn, hasTail |-> ht,
             tailBy |-> (IF ~ht THEN "none" ELSE IF p.wait THEN "caller_end" ELSE "last"),
             bounds |-> <<>>, cs |-> DynChunk(p, nl)]

\* which element of the container participant q uses: chunk i -> states[i] (static), worker i ->
\* states[i] and the caller -> states[numToLaunch] (dynamic, stripe); the tail uses states[0]
Slot(q) == q

\* ------------------------------------------------------------------ state
Parts == 0 .. (pl.np - 1)
Range(lo, hi) == lo .. (hi - 1)
Target == Range(0, pl.tn)                       \* what the participants have to cover
AllClaimed == Target \subseteq covered
Multi == pl.kind \in {"dyn", "stripe"}          \* participants that loop over claimed chunks

BodiesOf(q) == {a \in active : a.p = q}
NoBodyOn(t) == \A a \in active : a.th # t
\* participant q has returned, or (looping workers, whose start and exit are not observable) can do
\* nothing more than find that nothing is left to claim
Finished(q) == pst[q] = "x" \/ (Multi /\ AllClaimed /\ BodiesOf(q) = {})
Free(t) == NoBodyOn(t) /\ \A q \in Parts : pth[q] = t => Finished(q)
CallerCanRun == cph \in {"in", "swait"}
ThreadAllowed(t) == (t = cal /\ CallerCanRun) \/ (t # cal /\ t \in 1 .. P.N)
AllWorkDone == active = {} /\ covered = Range(0, Max(P.n, 0)) /\ \A q \in Parts : Finished(q)

InitWith(p) ==
  /\ P = p /\ pl = NoPlan /\ cal = -1 /\ cph = "idle"
  /\ pst = <<>> /\ pth = <<>> /\ active = {} /\ covered = {} /\ tailSt = "no"
  /\ nst = p.pre /\ peak = 0

\* ------------------------------------------------------------------ actions
\* cr: PerPoolPerThreadInfo::ringIndex of the calling thread (known when the call is made)
Call(t, cr) ==
  /\ cph = "idle"
  /\ P' = [P EXCEPT !.cring = cr]
  /\ LET np == Plan(P') IN
       /\ pl' = np
       /\ pst' = [q \in 0 .. (np.np - 1) |-> "q"]
       /\ pth' = [q \in 0 .. (np.np - 1) |-> -1]
       \* detail::initStates(states, defaultState, numNeeded, reuseExistingState)
       /\ nst' = IF np.kind = "empty" THEN P.pre ELSE IF P.reuse THEN Max(P.pre, np.ns) ELSE np.ns
  /\ cal' = t /\ cph' = "in"
  /\ UNCHANGED <<active, covered, tailSt, peak>>

ChunkOK(q, b, e) ==
  CASE pl.kind \in {"static", "serial"} -> (pst[q] = "q" /\ <<b, e>> = pl.bounds[q])
    [] pl.kind = "dyn"    -> (b >= 0 /\ b < pl.tn /\ b % pl.cs = 0 /\ e = Min(pl.tn, b + pl.cs))
    [] pl.kind = "stripe" -> (b >= 0 /\ b < e /\ e <= pl.tn)
    [] OTHER -> FALSE

\* who may execute participant q (a scheduled task, or the caller's own share) and when
RunnerOK(t, q) ==
  /\ ThreadAllowed(t)
  /\ (CASE pst[q] = "q"   -> (Free(t) /\ (q = pl.cpart => (t = cal /\ cph = "in")))
        [] pst[q] = "run" -> (pth[q] = t /\ NoBodyOn(t) /\ Multi)
        [] OTHER          -> FALSE)

ChunkBegin(t, st, b, e) ==
  \E q \in Parts :
    /\ st = Slot(q)
    /\ RunnerOK(t, q)
    /\ ChunkOK(q, b, e)
    /\ Range(b, e) \cap covered = {}
    /\ active' = active \cup {[p |-> q, th |-> t, st |-> st, b |-> b, e |-> e, tail |-> FALSE]}
    /\ covered' = covered \cup Range(b, e)
    /\ pst' = [pst EXCEPT ![q] = "run"]
    /\ pth' = [pth EXCEPT ![q] = t]
    /\ UNCHANGED tailSt

\* the sub-granularity tail f(*states.begin(), trimmedEnd, range.end)
TailBegin(t, st, b, e) ==
  /\ pl.hasTail /\ tailSt = "no"
  /\ b = pl.tn /\ e = P.n /\ st = 0
  /\ NoBodyOn(t)
  /\ (CASE pl.tailBy = "caller_end" ->      \* after the parallel part and taskSet.wait()
             (t = cal /\ cph = "in" /\ active = {} /\ AllClaimed /\ (\A q \in Parts : Finished(q)))
        [] pl.tailBy = "caller_now" ->      \* ORIGINAL static no-wait: right after scheduleBulk
             (t = cal /\ cph = "in" /\ Free(cal))
        [] pl.tailBy = "part0" ->           \* fixed static no-wait: the task of chunk 0, after its chunk
             (pst[0] = "run" /\ pth[0] = t /\ BodiesOf(0) = {})
        [] pl.tailBy = "last" ->            \* dynamic no-wait: the last worker to leave the loop
             (ThreadAllowed(t) /\ active = {} /\ AllClaimed)
        [] OTHER -> FALSE)
  /\ active' = active \cup {[p |-> (IF pl.tailBy = "part0" THEN 0 ELSE -1), th |-> t, st |-> st,
                             b |-> b, e |-> e, tail |-> TRUE]}
  /\ covered' = covered \cup Range(b, e)
  /\ tailSt' = "run"
  /\ UNCHANGED <<pst, pth>>

BodyBegin(t, st, b, e) ==
  /\ cph \in {"in", "ret", "swait"}
  /\ st >= 0 /\ st < nst
  /\ (ChunkBegin(t, st, b, e) \/ TailBegin(t, st, b, e))
  /\ peak' = Max(peak, Cardinality(active'))
  /\ UNCHANGED <<P, pl, cal, cph, nst>>

BodyEnd(t, st, b, e) ==
  /\ \E a \in active :
       /\ a.th = t /\ a.st = st /\ a.b = b /\ a.e = e
       /\ active' = active \ {a}
       /\ IF a.tail
          THEN /\ tailSt' = "done"
               /\ pst' = IF pl.tailBy = "part0" THEN [pst EXCEPT ![0] = "x"] ELSE pst
          ELSE /\ tailSt' = tailSt
               /\ pst' = IF ~Multi /\ ~(pl.tailBy = "part0" /\ a.p = 0)
                         THEN [pst EXCEPT ![a.p] = "x"] ELSE pst
  /\ UNCHANGED <<P, pl, cal, cph, pth, covered, nst, peak>>

Return(t, sz) ==
  /\ cph = "in" /\ t = cal
  /\ Free(cal)
  /\ sz = nst
  /\ (P.wait => AllWorkDone)
  \* wait = false: everything is scheduled, the caller's own work (ORIGINAL: the tail) is done
  /\ (~P.wait /\ pl.tailBy = "caller_now" => tailSt = "done")
  /\ (pl.kind = "serial" => AllWorkDone)
  /\ cph' = "ret"
  /\ UNCHANGED <<P, pl, cal, pst, pth, active, covered, tailSt, nst, peak>>

SetWait(t) ==
  /\ cph = "ret" /\ t = cal
  /\ cph' = "swait"
  /\ UNCHANGED <<P, pl, cal, pst, pth, active, covered, tailSt, nst, peak>>

SetWaitReturn(t) ==
  /\ cph = "swait" /\ t = cal
  /\ AllWorkDone
  /\ cph' = "done"
  /\ UNCHANGED <<P, pl, cal, pst, pth, active, covered, tailSt, nst, peak>>

\* ------------------------------------------------------------------ properties
\* C14: every element of the states container is used by at most one body invocation at a time
OneBodyPerState == \A a1, a2 \in active : a1.st = a2.st => a1 = a2
StateExists == \A a \in active : a.st >= 0 /\ a.st < nst
\* C14: the container ends up with at least one element (a call with an empty range runs no body
\* and leaves the container untouched)
StatesNonEmptyAfterReturn == cph \in {"ret", "swait", "done"} /\ pl.kind # "empty" => nst >= 1
\* C48: never more than max(1, maxThreads) bodies at a time
ConcurrencyBound == Cardinality(active) <= UserBound(P)
PeakBound == peak <= UserBound(P)
\* C48, plan level: scheduled tasks + the caller's participation (+ a tail the caller runs while the
\* tasks are in flight) never exceed the user's maxThreads, for every option combination
PlanBound == cph # "idle" =>
               pl.np + (IF pl.tailBy = "caller_now" THEN 1 ELSE 0) <= UserBound(P)
\* each participant has its own element, and the container holds one for each
SlotsDistinct == cph # "idle" =>
                   /\ \A q1, q2 \in Parts : Slot(q1) = Slot(q2) => q1 = q2
                   /\ \A q \in Parts : Slot(q) < nst
\* a thread executes one body at a time (sanity of the model / of the recorded thread ids)
OneBodyPerThread == \A a1, a2 \in active : a1.th = a2.th => a1 = a2
\* completion: nothing is running once the call (wait) / the task set's wait() has returned
QuietAfterCompletion == (cph = "done" \/ (cph \in {"ret", "swait"} /\ P.wait)) => AllWorkDone
=============================================================================
