CONSTANTS
  OrigAlign = FALSE
  OrigCursor = FALSE
  W = 6
  Signs = {TRUE, FALSE}
  WideSame = {TRUE, FALSE}
  Starts <- AllOffsets
  Lens <- AllLens
  Modes = {"static", "auto", "chunk"}
  Chunks = {1, 3, 31}
  Pools <- PoolsSmall
  Waits = {TRUE, FALSE}
  MinItems = {1, 3}
  Grans = {1, 3}
  Props = {"c12"}
  L3 = 1
  GSpan = 2
INIT Init
NEXT Next
CHECK_DEADLOCK FALSE
INVARIANTS NoArithmeticError NoLateClaim C12Partition
