CONSTANTS
  OrigAlign = FALSE
  OrigCursor = FALSE
  W = 5
  Signs = {TRUE, FALSE}
  WideSame = {FALSE}
  Starts <- AllOffsets
  Lens <- AllLens
  Modes = {"static", "auto"}
  Chunks = {1}
  Pools <- PoolsSmall
  Waits = {TRUE, FALSE}
  MinItems = {1}
  Grans = {2, 3, 4, 8}
  Props = {"c13"}
  L3 = 1
  GSpan = 2
INIT Init
NEXT Next
CHECK_DEADLOCK FALSE
INVARIANTS NoArithmeticError C13Granularity
