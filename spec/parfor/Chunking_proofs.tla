-------------------------- MODULE Chunking_proofs --------------------------
(* Unbounded (all naturals) proofs of the static chunking arithmetic, checked by   *)
(* tlapm.  The definitions are those of Chunking.tla restated on Integers only     *)
(* (checks/C17.py compares the texts).                                             *)
EXTENDS Integers, TLAPS

StaticChunkSize(items, chunks) ==
  LET c    == (items + chunks - 1) \div chunks
      left == c * chunks - items
  IN  [ceil |-> c, trans |-> chunks - left]

StaticChunkSizeGranular(items, chunks, g) ==
  IF g <= 1 THEN StaticChunkSize(items, chunks)
  ELSE LET u    == items \div g
           cg   == (u + chunks - 1) \div chunks
           left == cg * chunks - u
       IN  [ceil |-> cg * g, trans |-> chunks - left]

\* Euclidean division facts for the ceiling quotient
LEMMA CeilFacts ==
  ASSUME NEW items \in Nat, NEW chunks \in Nat \ {0}
  PROVE  LET c == (items + chunks - 1) \div chunks
         IN  /\ c \in Nat
             /\ c * chunks >= items
             /\ (c - 1) * chunks < items
  OBVIOUS

THEOREM SumExact ==
  ASSUME NEW items \in Nat, NEW chunks \in Nat \ {0}
  PROVE  LET r == StaticChunkSize(items, chunks)
         IN  /\ r.trans * r.ceil + (chunks - r.trans) * (r.ceil - 1) = items
             /\ 1 <= r.trans /\ r.trans <= chunks
             /\ r.ceil >= 0
             /\ (r.trans < chunks => r.ceil - 1 >= 0)
             /\ r.ceil * chunks >= items /\ (r.ceil - 1) * chunks < items
<1> DEFINE c == (items + chunks - 1) \div chunks
<1> DEFINE left == c * chunks - items
<1> DEFINE tr == chunks - left
<1>1. c \in Nat /\ c * chunks >= items /\ (c - 1) * chunks < items
  BY CeilFacts
<1>2. (c - 1) * chunks = c * chunks - chunks
  BY <1>1
<1>3. 0 <= left /\ left < chunks /\ left \in Int
  BY <1>1, <1>2
<1>4. 1 <= tr /\ tr <= chunks /\ tr \in Int
  BY <1>3
<1>5. tr * c + (chunks - tr) * (c - 1) = items
  <2>1. chunks - tr = left
    BY <1>3
  <2>2. tr * c = chunks * c - left * c
    BY <1>1, <1>3
  <2>3. left * (c - 1) = left * c - left
    BY <1>1, <1>3
  <2>4. chunks * c = c * chunks
    BY <1>1
  <2> QED BY <2>1, <2>2, <2>3, <2>4, <1>1, <1>3
<1>6. tr < chunks => c - 1 >= 0
  <2> SUFFICES ASSUME tr < chunks PROVE c >= 1
    BY <1>1
  <2>1. left > 0
    BY <1>3
  <2>2. c * chunks > items
    BY <2>1, <1>1
  <2>3. c # 0
    BY <2>2
  <2> QED BY <2>3, <1>1
<1>7. StaticChunkSize(items, chunks) = [ceil |-> c, trans |-> tr]
  BY DEF StaticChunkSize
<1> QED BY <1>1, <1>4, <1>5, <1>6, <1>7

\* ------------------------------------------------------------ granularity-aware variant
LEMMA DivMul ==
  ASSUME NEW u \in Nat, NEW g \in Nat \ {0}
  PROVE  (u * g) \div g = u
  OBVIOUS

THEOREM GranularSumExact ==
  ASSUME NEW u \in Nat, NEW chunks \in Nat \ {0}, NEW g \in Nat, g >= 2
  PROVE  LET r == StaticChunkSizeGranular(u * g, chunks, g)
         IN  /\ r.trans * r.ceil + (chunks - r.trans) * (r.ceil - g) = u * g
             /\ 1 <= r.trans /\ r.trans <= chunks
             /\ r.ceil >= 0
             /\ (r.trans < chunks => r.ceil - g >= 0)
             /\ \E k \in Nat : r.ceil = k * g
<1> DEFINE cg == (u + chunks - 1) \div chunks
<1> DEFINE left == cg * chunks - u
<1> DEFINE tr == chunks - left
<1>0. StaticChunkSize(u, chunks) = [ceil |-> cg, trans |-> tr]
  BY DEF StaticChunkSize
<1>1. /\ tr * cg + (chunks - tr) * (cg - 1) = u
      /\ 1 <= tr /\ tr <= chunks
      /\ cg >= 0
      /\ (tr < chunks => cg - 1 >= 0)
  BY SumExact, <1>0
<1>2. cg \in Nat /\ tr \in Int /\ chunks - tr \in Nat
  BY CeilFacts, <1>1
<1>3. (u * g) \div g = u
  BY DivMul
<1>4. StaticChunkSizeGranular(u * g, chunks, g) = [ceil |-> cg * g, trans |-> tr]
  BY <1>3 DEF StaticChunkSizeGranular
<1>5. tr * (cg * g) + (chunks - tr) * (cg * g - g) = u * g
  <2>1. cg * g - g = (cg - 1) * g
    BY <1>2
  <2>2. tr * (cg * g) = (tr * cg) * g
    BY <1>2
  <2>3. (chunks - tr) * ((cg - 1) * g) = ((chunks - tr) * (cg - 1)) * g
    BY <1>2
  <2>4. (tr * cg) * g + ((chunks - tr) * (cg - 1)) * g = (tr * cg + (chunks - tr) * (cg - 1)) * g
    BY <1>2
  <2> QED BY <2>1, <2>2, <2>3, <2>4, <1>1
<1>6. tr < chunks => cg * g - g >= 0
  <2> SUFFICES ASSUME tr < chunks PROVE cg * g - g >= 0
    OBVIOUS
  <2>1. cg - 1 \in Nat
    BY <1>1, <1>2
  <2>2. cg * g - g = (cg - 1) * g
    BY <1>2
  <2>3. (cg - 1) * g >= 0
    BY <2>1
  <2> QED BY <2>2, <2>3
<1>7. cg * g >= 0 /\ \E k \in Nat : cg * g = k * g
  BY <1>2
<1> QED BY <1>1, <1>4, <1>5, <1>6, <1>7

\* ------------------------------------------------------------ quotient / remainder form
\* (the form in which the compiled functions are validated on inputs up to 2^62)
LEMMA MulLt ==
  ASSUME NEW a \in Int, NEW b \in Int, NEW k \in Nat \ {0}
  PROVE  (a < b) <=> (a * k < b * k)
<1>1. ASSUME a < b PROVE a * k < b * k
  <2>1. b - a \in Nat \ {0}
    BY <1>1
  <2>2. (b - a) * k >= k
    BY <2>1
  <2>3. (b - a) * k = b * k - a * k
    OBVIOUS
  <2> QED BY <2>2, <2>3
<1>2. ASSUME ~(a < b) PROVE ~(a * k < b * k)
  <2>1. a - b \in Nat
    BY <1>2
  <2>2. (a - b) * k >= 0
    BY <2>1
  <2>3. (a - b) * k = a * k - b * k
    OBVIOUS
  <2> QED BY <2>2, <2>3
<1> QED BY <1>1, <1>2

THEOREM QuotRemForm ==
  ASSUME NEW q \in Nat, NEW chunks \in Nat \ {0}, NEW m \in 0 .. (chunks - 1)
  PROVE  LET r == StaticChunkSize(q * chunks + m, chunks)
         IN  /\ r.ceil = q + (IF m > 0 THEN 1 ELSE 0)
             /\ r.trans = (IF m = 0 THEN chunks ELSE m)
<1> DEFINE items == q * chunks + m
<1> DEFINE c == (items + chunks - 1) \div chunks
<1>1. items \in Nat
  OBVIOUS
<1>2. c \in Nat /\ c * chunks >= items /\ (c - 1) * chunks < items
  BY <1>1, CeilFacts
<1>3. c = q + (IF m > 0 THEN 1 ELSE 0)
  <2>1. CASE m = 0
    <3>1. (c - 1) * chunks < q * chunks /\ ~(c * chunks < q * chunks)
      BY <2>1, <1>2
    <3>2. c - 1 < q /\ ~(c < q)
      BY <3>1, <1>2, MulLt
    <3> QED BY <2>1, <1>2, <3>2
  <2>2. CASE m > 0
    <3>1. (q + 1) * chunks = q * chunks + chunks
      OBVIOUS
    <3>3. q * chunks < c * chunks
      BY <2>2, <1>2
    <3>4. q < c
      BY <3>3, <1>2, MulLt
    <3>5. (c - 1) * chunks < (q + 1) * chunks
      BY <2>2, <1>2, <3>1
    <3>6. c - 1 < q + 1
      BY <3>5, <1>2, MulLt
    <3> QED BY <2>2, <1>2, <3>4, <3>6
  <2> QED BY <2>1, <2>2
<1>4. c * chunks - items = (IF m = 0 THEN 0 ELSE chunks - m)
  <2>1. (q + 1) * chunks = q * chunks + chunks
    OBVIOUS
  <2> QED BY <1>3, <2>1
<1> QED BY <1>3, <1>4 DEF StaticChunkSize

\* ------------------------------------------------------------ StaticChunkMapper (no wrap)
Start(rs, chunk, small, trans, i) ==
  IF i < trans THEN rs + i * chunk ELSE rs + trans * chunk + (i - trans) * small
End(rs, re, chunk, small, trans, nt, i) ==
  IF i + 1 = nt THEN re
  ELSE IF i < trans THEN Start(rs, chunk, small, trans, i) + chunk
  ELSE Start(rs, chunk, small, trans, i) + small

THEOREM MapperContiguous ==
  ASSUME NEW rs \in Int, NEW chunk \in Nat, NEW small \in Nat, NEW nt \in Nat \ {0},
         NEW trans \in 1 .. nt, NEW re \in Int,
         re = rs + trans * chunk + (nt - trans) * small,
         NEW i \in 0 .. (nt - 1)
  PROVE  /\ Start(rs, chunk, small, trans, 0) = rs
         /\ i + 1 < nt => End(rs, re, chunk, small, trans, nt, i) = Start(rs, chunk, small, trans, i + 1)
         /\ End(rs, re, chunk, small, trans, nt, i) - Start(rs, chunk, small, trans, i)
              = (IF i < trans THEN chunk ELSE small)
<1>1. Start(rs, chunk, small, trans, 0) = rs
  BY DEF Start
<1>2. (i + 1) * chunk = i * chunk + chunk /\ (i + 1 - trans) * small = (i - trans) * small + small
  OBVIOUS
<1>3. i + 1 < nt => End(rs, re, chunk, small, trans, nt, i) = Start(rs, chunk, small, trans, i + 1)
  <2> SUFFICES ASSUME i + 1 < nt PROVE End(rs, re, chunk, small, trans, nt, i) = Start(rs, chunk, small, trans, i + 1)
    OBVIOUS
  <2>1. CASE i + 1 < trans
    BY <2>1, <1>2 DEF Start, End
  <2>2. CASE i + 1 = trans
    <3>1. (i + 1 - trans) * small = 0
      BY <2>2
    <3>2. trans * chunk = i * chunk + chunk
      BY <2>2, <1>2
    <3>3. End(rs, re, chunk, small, trans, nt, i) = rs + i * chunk + chunk
      BY <2>2 DEF Start, End
    <3>4. Start(rs, chunk, small, trans, i + 1) = rs + trans * chunk + (i + 1 - trans) * small
      BY <2>2 DEF Start
    <3> QED BY <3>1, <3>2, <3>3, <3>4
  <2>3. CASE i + 1 > trans
    BY <2>3, <1>2 DEF Start, End
  <2> QED BY <2>1, <2>2, <2>3
<1>4. End(rs, re, chunk, small, trans, nt, i) - Start(rs, chunk, small, trans, i) = (IF i < trans THEN chunk ELSE small)
  <2>1. CASE i + 1 < nt
    BY <2>1 DEF Start, End
  <2>2. CASE i + 1 = nt
    <3>1. CASE i < trans
      <4>1. trans = nt /\ (nt - trans) * small = 0
        BY <2>2, <3>1
      <4>2. trans * chunk = i * chunk + chunk
        BY <2>2, <4>1, <1>2
      <4> QED BY <2>2, <3>1, <4>1, <4>2 DEF Start, End
    <3>2. CASE i >= trans
      <4>1. (nt - trans) * small = (i - trans) * small + small
        BY <2>2, <1>2
      <4> QED BY <2>2, <3>2, <4>1 DEF Start, End
    <3> QED BY <3>1, <3>2
  <2> QED BY <2>1, <2>2
<1> QED BY <1>1, <1>3, <1>4
=============================================================================
