---------------------------- MODULE StripeWorkers ----------------------------
(* The concurrent part of dispenso/detail/par_for_stripe.h: numWorkers threads run *)
(* runStripeWorker on one StripeState.  One action per atomic access (group):       *)
(*   ClaimOwn / ClaimLast / ClaimVictim   stripeClaim on the own stripe / the last  *)
(*              successful victim / the victim picked from the has-work masks: the  *)
(*              cursor RMW (fetch_add, or the successful CAS of the bounded claim)  *)
(*   Retire     the retired-CAS of a failed claim, with the has-work bit clear and  *)
(*              the activeStripes decrement of its winner                           *)
(*   Top        activeStripes.load at the top of the steal loop                     *)
(*   Pick       the mask loads of pickStripeFromMasks; ANY stripe whose bit is set  *)
(*              may be chosen (over-approximates the L3-first / lowest-bit order)   *)
(* Every interleaving of the workers is explored.                                   *)
EXTENDS Stripe

CONSTANTS W, Signs, WideSame, SStarts, SLens, NWs, ChunkSizes, SGrans,
          MaxOver      \* OrigCursor only: bound on the cursor overshoot, in chunks (state constraint)

VARIABLES cfg,       \* [ty, wty, start, end, nw, cw, s]  immutable after initStripeState
          next,      \* next[i]: cursor of stripe i (Wide)
          retired,   \* retired[i]  (the has-work bit of stripe i is its negation)
          active,    \* activeStripes
          pc, lv, tgt, after,   \* per worker: control point, lastVictim (0 = none), claim target, pc after Retire
          bodies,    \* ghost: set of <<b, e>> passed to f
          dup        \* ghost: some <<b, e>> was passed to f twice
vars == <<cfg, next, retired, active, pc, lv, tgt, after, bodies, dup>>

TMin(sg) == IF sg THEN -(2 ^ (W - 1)) ELSE 0
TMax(sg) == IF sg THEN 2 ^ (W - 1) - 1 ELSE 2 ^ W - 1
Big == 2 ^ 24
Workers == 1 .. cfg.nw

InitFor(sg, ws, start, end, nw, chunk, g) ==
  LET ty  == Ty(TMin(sg), TMax(sg))
      wty == IF ws THEN ty ELSE Ty(IF sg THEN -Big ELSE 0, Big)
      ini == InitStripes(ty, wty, sg, start, end, nw, Cast(chunk, ty), g)
  IN  /\ ~ini.err
      /\ cfg = [ty |-> ty, wty |-> wty, start |-> start, end |-> end, nw |-> nw,
                cw |-> ChunkWide(ini.chunk, ty, wty), s |-> ini.s]
      /\ next = [i \in 1 .. nw |-> Cast(ini.s[i][1], wty)]
      /\ retired = [i \in 1 .. nw |-> ~(ini.s[i][2] > ini.s[i][1])]
      /\ active = Cardinality({i \in 1 .. nw : ini.s[i][2] > ini.s[i][1]})
      /\ pc = [w \in 1 .. nw |-> "own"]
      /\ lv = [w \in 1 .. nw |-> 0] /\ tgt = [w \in 1 .. nw |-> w] /\ after = [w \in 1 .. nw |-> "top"]
      /\ bodies = {} /\ dup = FALSE

Init ==
  \E sg \in Signs, ws \in WideSame, d \in SStarts, len \in SLens, nw \in NWs, chunk \in ChunkSizes, g \in SGrans :
    /\ d <= 2 ^ W - 1 /\ TMin(sg) + d + len <= TMax(sg)
    /\ (ws /\ sg) => len <= TMax(TRUE)
    /\ len % g = 0 /\ chunk % g = 0          \* as computeGranularity / calcChunkSize guarantee
    /\ InitFor(sg, ws, TMin(sg) + d, TMin(sg) + d + len, nw, chunk, g)

EndW(i) == Cast(cfg.s[i][2], cfg.wty)
DoClaim(i) == Claim(next[i], EndW(i), cfg.cw, cfg.ty, cfg.wty)
Record(c) == /\ bodies' = bodies \cup {<<c.b, c.e>>}
             /\ dup' = (dup \/ <<c.b, c.e>> \in bodies)

ClaimOwn(w) ==
  /\ w \in Workers
  /\ pc[w] = "own"
  /\ LET c == DoClaim(w) IN
       /\ next' = [next EXCEPT ![w] = c.next]
       /\ IF c.ok THEN Record(c) /\ UNCHANGED <<pc, tgt, after>>
          ELSE /\ pc' = [pc EXCEPT ![w] = "ret"] /\ tgt' = [tgt EXCEPT ![w] = w]
               /\ after' = [after EXCEPT ![w] = "top"] /\ UNCHANGED <<bodies, dup>>
  /\ UNCHANGED <<cfg, retired, active, lv>>

Retire(w) ==
  /\ w \in Workers
  /\ pc[w] = "ret"
  /\ IF retired[tgt[w]] THEN UNCHANGED <<retired, active>>
     ELSE retired' = [retired EXCEPT ![tgt[w]] = TRUE] /\ active' = active - 1
  /\ pc' = [pc EXCEPT ![w] = after[w]]
  /\ UNCHANGED <<cfg, next, lv, tgt, after, bodies, dup>>

Top(w) ==
  /\ w \in Workers
  /\ pc[w] = "top"
  /\ pc' = [pc EXCEPT ![w] = IF active = 0 THEN "done" ELSE IF lv[w] # 0 THEN "last" ELSE "pick"]
  /\ UNCHANGED <<cfg, next, retired, active, lv, tgt, after, bodies, dup>>

ClaimLast(w) ==
  /\ w \in Workers
  /\ pc[w] = "last"
  /\ LET c == DoClaim(lv[w]) IN
       /\ next' = [next EXCEPT ![lv[w]] = c.next]
       /\ IF c.ok THEN Record(c) /\ pc' = [pc EXCEPT ![w] = "top"] /\ UNCHANGED <<lv, tgt, after>>
          ELSE /\ pc' = [pc EXCEPT ![w] = "ret"] /\ tgt' = [tgt EXCEPT ![w] = lv[w]]
               /\ after' = [after EXCEPT ![w] = "pick"] /\ lv' = [lv EXCEPT ![w] = 0]
               /\ UNCHANGED <<bodies, dup>>
  /\ UNCHANGED <<cfg, retired, active>>

Pick(w) ==
  /\ w \in Workers
  /\ pc[w] = "pick"
  /\ LET cand == {v \in Workers : v # w /\ ~retired[v]} IN
       IF cand = {} THEN pc' = [pc EXCEPT ![w] = "top"] /\ UNCHANGED tgt
       ELSE \E v \in cand : tgt' = [tgt EXCEPT ![w] = v] /\ pc' = [pc EXCEPT ![w] = "cv"]
  /\ UNCHANGED <<cfg, next, retired, active, lv, after, bodies, dup>>

ClaimVictim(w) ==
  /\ w \in Workers
  /\ pc[w] = "cv"
  /\ LET c == DoClaim(tgt[w]) IN
       /\ next' = [next EXCEPT ![tgt[w]] = c.next]
       /\ IF c.ok THEN /\ Record(c) /\ lv' = [lv EXCEPT ![w] = tgt[w]]
                       /\ pc' = [pc EXCEPT ![w] = "top"] /\ UNCHANGED after
          ELSE /\ pc' = [pc EXCEPT ![w] = "ret"] /\ after' = [after EXCEPT ![w] = "top"]
               /\ UNCHANGED <<lv, bodies, dup>>
  /\ UNCHANGED <<cfg, retired, active, tgt>>

Next ==
  \E w \in 1 .. 4 :
    \/ ClaimOwn(w) \/ Retire(w) \/ Top(w) \/ ClaimLast(w) \/ Pick(w) \/ ClaimVictim(w)

Spec == Init /\ [][Next]_vars

\* OrigCursor: failing claims move the cursor without bound; explore a bounded overshoot
OverBound == \A i \in Workers : OrigCursor => next[i] <= EndW(i) + MaxOver * Abs(cfg.cw) + Abs(cfg.cw)

\* ---------------------------------------------------------------- properties
AllDone == \A w \in Workers : pc[w] = "done"
\* no index handed out twice, none outside the range, in every state
Disjoint ==
  /\ ~dup
  /\ \A x \in bodies : cfg.start <= x[1] /\ x[1] < x[2] /\ x[2] <= cfg.end
  /\ \A x, y \in bodies : x = y \/ x[2] <= y[1] \/ y[2] <= x[1]
RECURSIVE SetSum(_)
SetSum(S) == IF S = {} THEN 0 ELSE LET x == CHOOSE x \in S : TRUE IN (x[2] - x[1]) + SetSum(S \ {x})
\* when every worker has returned, the bodies are an exact partition of [start, end)
CompleteAtExit == AllDone => SetSum(bodies) = cfg.end - cfg.start
\* a worker returns only when every stripe is exhausted
ExitOnlyWhenExhausted == \A w \in Workers : pc[w] = "done" => \A i \in Workers : next[i] >= EndW(i)
\* the interleaved runs hand out exactly the bodies of the sequential closure (reduction used by
\* ParFor.tla / MCParFor.tla)
AgreesWithClosure ==
  AllDone => bodies = LET sb == StripeBodiesW(cfg.s, cfg.cw, cfg.ty, cfg.wty, 0, cfg.end - cfg.start + 2)
                      IN  {sb.bodies[i] : i \in DOMAIN sb.bodies}
=============================================================================
