--------------------------- MODULE ParForApiTrace ---------------------------
(* Trace validation for ParForApi.tla.  A trace is the ndjson log of executions of *)
(* the REAL dispenso::parallel_for on the REAL ThreadPool recorded by              *)
(* harness/drv/drv_loops.cpp:                                                      *)
(*  * controlled executions: one line per step of the controlled scheduler         *)
(*    {"e":site,"t":thread,"r":[notes],"s":{"act":k,"use":[per-state in-use]}}.    *)
(*    A step that carries one of the driver's notes (call / bb / be / ret / sw /    *)
(*    swr) must be the corresponding action of the specification taken by that      *)
(*    thread; every other step (pool-internal) must leave the specification state   *)
(*    unchanged.  After EVERY step the in-use counters the bodies maintain in the   *)
(*    State objects must equal the specification's (so a body the notes do not      *)
(*    account for is a rejection).                                                  *)
(*  * free-running executions: {"e":"F","th":tid,"r":[[note]]} lines written under  *)
(*    the trace lock from inside the body (API-level events only, rule R3).         *)
(* All invariants of ParForApi.tla are evaluated in every state.                    *)
EXTENDS ParForApi, Json, IOUtils

TraceLog == ndJsonDeserialize(IOEnv.TRACE)

VARIABLE l
tvars == <<vars, l>>

TidOf == [main |-> 0, w0 |-> 1, w1 |-> 2, w2 |-> 3, w3 |-> 4, w4 |-> 5, w5 |-> 6, w6 |-> 7, w7 |-> 8,
          w8 |-> 9, w9 |-> 10, w10 |-> 11, w11 |-> 12, w12 |-> 13, w13 |-> 14, w14 |-> 15, w15 |-> 16]
Tid(ev) == IF "th" \in DOMAIN ev THEN ev.th ELSE TidOf[ev.t]

ParamsOf(r) ==
  [n |-> r.n, mode |-> r.mode, c |-> r.c, mt |-> r.mt, mtneg |-> r.mtneg = 1, wait |-> r.wait = 1,
   g |-> r.g, mi |-> r.mi, reuse |-> r.reuse = 1, pre |-> r.pre, N |-> r.N, cring |-> -1, rec |-> FALSE]

Tags == {"call", "bb", "be", "ret", "sw", "swr"}
\* steps whose "r" holds plain numbers (results of the modelled futex); they run no driver code
NumericSites == {"FutexWait", "FutexRet"}
Control == {"Reset", "End", "Stalled", "Deadlock", "Diverged"}
Notes(ev) == IF "r" \notin DOMAIN ev \/ ev.e \in NumericSites THEN <<>>
             ELSE SelectSeq(ev.r, LAMBDA x : x[1] \in Tags)

TraceInit ==
  /\ l = 2
  /\ TraceLog[1].e = "Reset"
  /\ InitWith(ParamsOf(TraceLog[1]))

ResetTo(p) ==
  /\ P' = p /\ pl' = NoPlan /\ cal' = -1 /\ cph' = "idle"
  /\ pst' = <<>> /\ pth' = <<>> /\ active' = {} /\ covered' = {} /\ tailSt' = "no"
  /\ nst' = p.pre /\ peak' = 0

Dispatch(nt, t) ==
  CASE nt[1] = "call" -> Call(t, nt[2])
    [] nt[1] = "bb"   -> BodyBegin(t, nt[3], nt[2] \div 1024, nt[2] % 1024)
    [] nt[1] = "be"   -> BodyEnd(t, nt[3], nt[2] \div 1024, nt[2] % 1024)
    [] nt[1] = "ret"  -> Return(t, nt[2])
    [] nt[1] = "sw"   -> SetWait(t)
    [] nt[1] = "swr"  -> SetWaitReturn(t)
    [] OTHER -> FALSE

\* the counters the bodies maintain in the State objects / in the driver
ProjOK(ev) ==
  ("s" \in DOMAIN ev /\ "use" \in DOMAIN ev.s) =>
     /\ ev.s.act = Cardinality(active')
     /\ \A i \in 1 .. Len(ev.s.use) : ev.s.use[i] = Cardinality({a \in active' : a.st = i - 1})

Complete == cph = "done" \/ (cph = "ret" /\ P.wait)

TraceStep ==
  /\ l <= Len(TraceLog)
  /\ LET ev == TraceLog[l] IN
       \/ /\ ev.e = "Reset"
          /\ ResetTo(ParamsOf(ev))
       \/ /\ ev.e = "End"               \* the execution is over: the call completed
          /\ Complete
          /\ UNCHANGED vars
       \/ /\ ev.e \in {"Stalled", "Deadlock", "Diverged"}   \* cut short by the step bound: judged by the check
          /\ UNCHANGED vars
       \/ /\ ev.e \notin Control
          /\ LET ns == Notes(ev) IN
               \/ /\ ns = <<>>
                  /\ UNCHANGED vars
               \/ /\ Len(ns) = 1
                  /\ Dispatch(ns[1], Tid(ev))
          /\ ProjOK(ev)
  /\ l' = l + 1

TraceSpec == TraceInit /\ [][TraceStep]_tvars

TraceAccepted ==
  LET d == TLCGet("stats").diameter IN
  IF d = Len(TraceLog) THEN TRUE
  ELSE /\ PrintT(<<"TRACE_REJECTED_AT_LINE", d + 1, "OF", Len(TraceLog)>>)
       /\ PrintT(<<"OFFENDING", TraceLog[d + 1]>>)
       /\ FALSE
=============================================================================
