\* trace validation against the model of the ORIGINAL code (static no-wait tail on the caller,
\* adjustChunkSizing without the clamp): used to show that the defects are real - the recorded
\* executions of the unfixed code are behaviours of this model and violate the invariants
CONSTANTS
  Orig = {"tail", "clamp"}
SPECIFICATION TraceSpec
CHECK_DEADLOCK FALSE
POSTCONDITION TraceAccepted
INVARIANTS OneBodyPerState StateExists StatesNonEmptyAfterReturn ConcurrencyBound
