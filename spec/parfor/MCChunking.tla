----------------------------- MODULE MCChunking -----------------------------
(* E1 for C17: the static chunking arithmetic on a grid of (items, chunks, g).     *)
(* One initial state per (chunks, g); Eval picks items (a multiple of g) and       *)
(* stores the verdicts.                                                            *)
EXTENDS Chunking

CONSTANTS MaxItems, MaxChunks, MaxG

VARIABLES seed, pt, out
vars == <<seed, pt, out>>

BigTy == Ty(-(2 ^ 24), 2 ^ 24)

RECURSIVE SumSeq(_)
SumSeq(s) == IF s = <<>> THEN 0 ELSE s[1] + SumSeq(Tail(s))
NonIncreasing(s) == \A i \in 1 .. (Len(s) - 1) : s[i] >= s[i + 1]

\* ---- staticChunkSize / staticChunkSizeGranular ------------------------------------------------
SizesOf(r, chunks, g) == [i \in 1 .. chunks |-> IF (i - 1) < r.trans THEN r.ceil ELSE r.ceil - g]
\* sizes sum to items
SumExact(items, chunks, g, r) == r.trans * r.ceil + (chunks - r.trans) * (r.ceil - g) = items
TransInRange(chunks, r) == 1 <= r.trans /\ r.trans <= chunks
\* sizes are {ceil, ceil - g}: non-negative multiples of g that differ by at most one unit, and
\* ceil really is the ceiling (so the split is the balanced one)
UnitSizes(items, chunks, g, r) ==
  /\ r.ceil >= 0 /\ r.ceil % g = 0
  /\ r.trans < chunks => r.ceil - g >= 0
  /\ r.ceil * chunks >= items /\ (items > 0 => (r.ceil - g) * chunks < items)
\* quotient / remainder characterisation (used to validate the compiled functions on 62-bit inputs)
QuotRem(items, chunks, g, r) ==
  LET u == items \div g
      q == u \div chunks
      m == u % chunks
  IN  r.ceil = (q + (IF m > 0 THEN 1 ELSE 0)) * g /\ r.trans = (IF m = 0 THEN chunks ELSE m)

\* ---- StaticChunkMapper as parallel_for_staticImpl builds it -------------------------------------
MapperOK(items, chunks, g, rs) ==
  items = 0 \/
  LET m  == StaticMapper(BigTy, rs, rs + items, chunks, chunks - 1, g)
      B  == MapperBodies(m)
      sz == [i \in 1 .. Len(B) |-> B[i][2] - B[i][1]]
  IN  /\ IsChain(B, rs, rs + items)                       \* contiguous, covers [rs, rs + items)
      /\ NonIncreasing(sz)                                \* larger chunks first
      /\ \A i \in 1 .. Len(sz) : sz[i] % g = 0 /\ sz[i] \in {m.chunk, m.small}
      /\ \A i, j \in 1 .. Len(sz) : sz[i] - sz[j] <= g    \* differ by at most one unit
      /\ m.nt = Min(chunks, items \div g)                 \* as many chunks as requested, if possible
      /\ 1 <= m.trans /\ m.trans <= m.nt

\* ---- for_each_n boundaries ------------------------------------------------------------------------
ForEachOK(n, chunks) ==
  n = 0 \/
  LET nt == Min(chunks, n)
      sz == ForEachSizes(n, nt)
  IN  /\ SumSeq(sz) = n /\ NonIncreasing(sz)
      /\ \A i, j \in 1 .. nt : sz[i] - sz[j] <= 1
      /\ \A i \in 1 .. nt : sz[i] >= 1
      \* the random-access offset formula agrees with the accumulated boundaries
      /\ \A i \in 0 .. (nt - 1) : ForEachOffset(n, nt, i) = SumSeq(SubSeq(sz, 1, i))

Init ==
  /\ seed \in {[chunks |-> c, g |-> g] : c \in 1 .. MaxChunks, g \in 1 .. MaxG}
  /\ pt = <<>> /\ out = <<>>

Eval ==
  /\ pt = <<>>
  /\ \E u \in 0 .. (MaxItems \div seed.g) :
       \E items \in {u * seed.g} :
       \E r \in {StaticChunkSizeGranular(items, seed.chunks, seed.g)} :
         /\ pt' = [items |-> items, chunks |-> seed.chunks, g |-> seed.g]
         /\ out' = [r |-> r,
                    sum |-> SumExact(items, seed.chunks, seed.g, r),
                    trans |-> TransInRange(seed.chunks, r),
                    unit |-> UnitSizes(items, seed.chunks, seed.g, r),
                    qr |-> QuotRem(items, seed.chunks, seed.g, r),
                    plain |-> (seed.g = 1 => r = StaticChunkSize(items, seed.chunks)),
                    mapper |-> MapperOK(items, seed.chunks, seed.g, 0) /\ MapperOK(items, seed.chunks, seed.g, -7),
                    foreach |-> (seed.g > 1 \/ ForEachOK(items, seed.chunks))]
  /\ UNCHANGED seed

Next == Eval
Spec == Init /\ [][Next]_vars

SizesSumToItems      == out # <<>> => out.sum
TransitionInRange    == out # <<>> => out.trans
SizesDifferByOneUnit == out # <<>> => out.unit
QuotRemForm          == out # <<>> => out.qr
GranularOneIsPlain   == out # <<>> => out.plain
MapperContiguous     == out # <<>> => out.mapper
ForEachBoundaries    == out # <<>> => out.foreach
=============================================================================
