CONSTANTS
  Orig = {}
SPECIFICATION TraceSpec
CHECK_DEADLOCK FALSE
POSTCONDITION TraceAccepted
INVARIANTS NoDivZero PlanPartition AtMostOnce ExactlyOnceAtCompletion ConcurrencyBound PeakBound PlanBound OneBodyPerThread
