---- MODULE ChunkingTrace_TTrace_1790041737 ----
EXTENDS Sequences, TLCExt, ChunkingTrace, Toolbox, Naturals, TLC

_expression ==
    LET ChunkingTrace_TEExpression == INSTANCE ChunkingTrace_TEExpression
    IN ChunkingTrace_TEExpression!expression
----

_trace ==
    LET ChunkingTrace_TETrace == INSTANCE ChunkingTrace_TETrace
    IN ChunkingTrace_TETrace!trace
----

_inv ==
    ~(
        TLCGet("level") = Len(_TETrace)
        /\
        v = ([line |-> 1, conforms |-> FALSE, trans |-> FALSE, sum |-> TRUE, unit |-> TRUE])
        /\
        l = (2)
    )
----

_init ==
    /\ l = _TETrace[1].l
    /\ v = _TETrace[1].v
----

_next ==
    /\ \E i,j \in DOMAIN _TETrace:
        /\ \/ /\ j = i + 1
              /\ i = TLCGet("level")
        /\ l  = _TETrace[i].l
        /\ l' = _TETrace[j].l
        /\ v  = _TETrace[i].v
        /\ v' = _TETrace[j].v

\* Uncomment the ASSUME below to write the states of the error trace
\* to the given file in Json format. Note that you can pass any tuple
\* to `JsonSerialize`. For example, a sub-sequence of _TETrace.
    \* ASSUME
    \*     LET J == INSTANCE Json
    \*         IN J!JsonSerialize("ChunkingTrace_TTrace_1790041737.json", _TETrace)

=============================================================================

 Note that you can extract this module `ChunkingTrace_TEExpression`
  to a dedicated file to reuse `expression` (the module in the 
  dedicated `ChunkingTrace_TEExpression.tla` file takes precedence 
  over the module `ChunkingTrace_TEExpression` below).

---- MODULE ChunkingTrace_TEExpression ----
EXTENDS Sequences, TLCExt, ChunkingTrace, Toolbox, Naturals, TLC

expression == 
    [
        \* To hide variables of the `ChunkingTrace` spec from the error trace,
        \* remove the variables below.  The trace will be written in the order
        \* of the fields of this record.
        l |-> l
        ,v |-> v
        
        \* Put additional constant-, state-, and action-level expressions here:
        \* ,_stateNumber |-> _TEPosition
        \* ,_lUnchanged |-> l = l'
        
        \* Format the `l` variable as Json value.
        \* ,_lJson |->
        \*     LET J == INSTANCE Json
        \*     IN J!ToJson(l)
        
        \* Lastly, you may build expressions over arbitrary sets of states by
        \* leveraging the _TETrace operator.  For example, this is how to
        \* count the number of times a spec variable changed up to the current
        \* state in the trace.
        \* ,_lModCount |->
        \*     LET F[s \in DOMAIN _TETrace] ==
        \*         IF s = 1 THEN 0
        \*         ELSE IF _TETrace[s].l # _TETrace[s-1].l
        \*             THEN 1 + F[s-1] ELSE F[s-1]
        \*     IN F[_TEPosition - 1]
    ]

=============================================================================



Parsing and semantic processing can take forever if the trace below is long.
 In this case, it is advised to uncomment the module below to deserialize the
 trace from a generated binary file.

\*
\*---- MODULE ChunkingTrace_TETrace ----
\*EXTENDS IOUtils, ChunkingTrace, TLC
\*
\*trace == IODeserialize("ChunkingTrace_TTrace_1790041737.bin", TRUE)
\*
\*=============================================================================
\*

---- MODULE ChunkingTrace_TETrace ----
EXTENDS ChunkingTrace, TLC

trace == 
    <<
    ([v |-> <<>>,l |-> 1]),
    ([v |-> [line |-> 1, conforms |-> FALSE, trans |-> FALSE, sum |-> TRUE, unit |-> TRUE],l |-> 2])
    >>
----


=============================================================================

---- CONFIG ChunkingTrace_TTrace_1790041737 ----

INVARIANT
    _inv

CHECK_DEADLOCK
    \* CHECK_DEADLOCK off because of PROPERTY or INVARIANT above.
    FALSE

INIT
    _init

NEXT
    _next

CONSTANT
    _TETrace <- _trace

ALIAS
    _expression
=============================================================================
\* Generated on Tue Sep 22 01:49:11 UTC 2026