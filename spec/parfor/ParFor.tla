------------------------------- MODULE ParFor -------------------------------
(* dispenso::parallel_for(taskSet, states, defaultState, ChunkedRange, f, options) *)
(* (dispenso/parallel_for.h:555) as a function from the call's inputs to the list  *)
(* of body invocations [b, e) it makes.                                            *)
(*                                                                                 *)
(* Input record `in`:                                                              *)
(*   sg            IntegerT is a signed type                                       *)
(*   tmin, tmax    IntegerT (or the window of it around the range, see Chunking)   *)
(*   wmin, wmax    the 64-bit "Wide"/size_type used for cursors (= IntegerT for    *)
(*                 64-bit index types, otherwise so wide that it never wraps)      *)
(*   start, end    the range                                                       *)
(*   mode, c       "static" | "auto" | "chunk" (explicit chunk size c)             *)
(*   mt, wait, mi, g   ParForOptions maxThreads (already clamped by                *)
(*                 max<int32_t>(maxThreads,1)), wait, minItemsPerChunk, granularity*)
(*   N             taskSet.numPoolThreads()                                        *)
(*   l3, gspan     number of L3 groups of the machine; threads per index group (16)*)
(*   clamp         which of the two allowed thread-count rules adjustChunkSizing    *)
(*                 uses for tiny explicit-chunk ranges (see Chunking.tla)          *)
(*   rec           the call is made inside a parallel_for body on the same pool    *)
(*                 (PerPoolPerThreadInfo::isParForRecursive)                       *)
(*                                                                                 *)
(* Outcome: [kind, err, bodies, late, runaway, nw, g]                              *)
(*   kind    "empty" | "serial" | "static" | "stripe" | "dynamic"                  *)
(*   err     the code divides by zero on this input                                *)
(*   bodies  sequence of <<b, e>>; for "stripe"/"dynamic" the order is the order   *)
(*           of the claims on each cursor, the SET is what every schedule produces *)
(*   late    stripe only: a claim succeeds after the stripe was seen exhausted     *)
(*           (cursor wrapped) within the allowed number of racing claims           *)
(*   runaway stripe only: a stripe hands out more bodies than it has items         *)
EXTENDS Stripe

Outcome(kind, err, bodies, late, runaway, nw, g) ==
  [kind |-> kind, err |-> err, bodies |-> bodies, late |-> late, runaway |-> runaway, nw |-> nw, g |-> g]

\* racing failing claims allowed per stripe: every worker can fail once on its own visit and once
\* more while the retiring worker has not yet cleared the has-work bit (ASSUMPTION for OrigCursor;
\* irrelevant for the bounded claim, whose failing claims leave the cursor unchanged)
ExtraClaims(nw) == IF OrigCursor THEN 2 * nw ELSE 0

ParForOutcome(in) ==
  LET ty  == Ty(in.tmin, in.tmax)
      wty == Ty(in.wmin, in.wmax)
      isStaticRange == in.mode = "static" \/ (in.mode = "chunk" /\ in.c = ty.max)
      isAuto == in.mode = "auto"
      chunk == IF isAuto THEN 0 ELSE in.c
      whole == << <<in.start, in.end>> >>
  IN
  IF in.end <= in.start THEN Outcome("empty", FALSE, <<>>, FALSE, FALSE, 0, 1)
  ELSE
  LET gi == ComputeGranularity(ty, in.start, in.end, isAuto \/ isStaticRange, in.g)
      g  == gi.g
      te == gi.trimmedEnd
      tail == IF gi.hasTail THEN << <<te, in.end>> >> ELSE <<>>
      minItems == Max(1, in.mi)
      maxThreads0 == Max(in.mt, 1)
      psize == te - in.start
  IN
  IF te <= in.start \/ in.N = 0 \/ in.rec THEN Outcome("serial", FALSE, whole, FALSE, FALSE, 1, g)
  ELSE
  LET adj == AdjustChunkSizing(psize, maxThreads0, isStaticRange, isAuto, isStaticRange,
                               minItems, in.N, in.wait, in.clamp)
      maxThreads == adj.maxThreads
  IN
  IF maxThreads < 2 THEN Outcome("serial", FALSE, whole, FALSE, FALSE, 1, g)
  ELSE IF adj.isStatic
  THEN LET m == StaticMapper(ty, in.start, te, maxThreads, in.N, g)
       IN  Outcome("static", FALSE, MapperBodies(m) \o tail,
                   FALSE, FALSE, m.nt, g)
  ELSE
  LET w == IF in.wait THEN 1 ELSE 0
      numToLaunch == Min(maxThreads - w, in.N)
      \* parallel_for.h:642 computes this also when the adaptive path below discards it
      ci0 == CalcChunkSize(psize, chunk, numToLaunch, in.wait, minItems, g, 16)
  IN
  IF isAuto /\ in.wait
  THEN \* parallel_for_adaptiveWaitDispatch
       LET nw == numToLaunch + 1
           ci == CalcChunkSize(psize, 0, numToLaunch, TRUE, minItems, g, 64)
           init == InitStripes(ty, wty, in.sg, in.start, te, nw, Cast(ci.cs, ty), g)
           sb == StripeBodies(init, ty, wty, ExtraClaims(nw), psize + 2)
       IN  Outcome("stripe", ci0.err \/ ci.err \/ init.err, sb.bodies \o tail, sb.late, sb.runaway, nw, g)
  ELSE \* parallel_for_dynamicImpl (wait) / parallel_for_dynamicNoWaitDispatch
       \* every index group hands out its chunks startChunk .. startChunk + count - 1 once each
       LET ci == ci0
           groups == DynGroups(numToLaunch + w, in.l3, in.gspan)
           order == ConcatAll([k \in 1 .. groups |->
                      LET gr == DynGroupRange(ci.n, groups, k - 1)
                      IN  [j \in 1 .. gr.count |-> gr.startChunk + j - 1]])
           bodies == IF ci.err THEN <<>>
                     ELSE [k \in 1 .. Len(order) |-> DynChunk(ty, in.start, te, ci.cs, ci.n, order[k])]
       IN  Outcome("dynamic", ci.err, bodies \o tail, FALSE, FALSE, numToLaunch + w, g)

\* ---------------------------------------------------------------- the properties
\* C12: the body invocations partition [start, end) exactly
C12Holds(in, out) ==
  /\ ~out.err /\ ~out.late /\ ~out.runaway
  /\ IsPartition(out.bodies, in.start, Max(in.start, in.end))
\* C13: granularity contract (explicit chunk sizes are exempt: ComputeGranularity gives g = 1)
C13Holds(in, out) == out.err \/ GranularityOK(out.bodies, out.g, in.end)
=============================================================================
