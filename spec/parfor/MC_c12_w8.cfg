CONSTANTS
  OrigAlign = FALSE
  OrigCursor = FALSE
  W = 8
  Signs = {TRUE, FALSE}
  WideSame = {TRUE}
  Starts <- AllOffsets
  Lens <- AllLens
  Modes = {"static", "auto"}
  Chunks = {7}
  Pools <- PoolsOne
  Waits = {TRUE}
  MinItems = {1}
  Grans = {1, 3}
  Props = {"c12"}
  L3 = 1
  GSpan = 16
INIT Init
NEXT Next
CHECK_DEADLOCK FALSE
INVARIANTS NoArithmeticError NoLateClaim C12Partition
