---------------------------- MODULE ChunkingTrace ----------------------------
(* E5 trace validation for the static chunking helpers: one step per record of     *)
(* harness/drv/drv_chunking.cpp.  "scs" records carry the arguments and the result  *)
(* of one call of the compiled function; "big" records carry a call with items up   *)
(* to 2^62 in quotient / remainder form (theorem QuotRemForm of Chunking_proofs).   *)
(* "wide" records are calls next to a width boundary 2^K (K up to 63) where also     *)
(* the chunk count / granularity may exceed 31 bits: 63-bit quantities come as      *)
(* three 21-bit limbs <<hi, mid, lo>> (TLC integers are 32-bit), compared limb-wise. *)
(* "pfw" records are real static parallel_for calls over ranges whose size is next   *)
(* to such a boundary: the chunk boundaries relative to the quotient (see the        *)
(* driver), judged by QuotRemForm + MapperContiguous and by the C17 predicates.      *)
EXTENDS Chunking, Json, IOUtils

TraceLog == ndJsonDeserialize(IOEnv.TRACE)

VARIABLES l, v
tvars == <<l, v>>

SpecOf(r) == IF r.api = "granular" THEN StaticChunkSizeGranular(r.items, r.chunks, r.g)
             ELSE StaticChunkSize(r.items, r.chunks)

\* ---- 63-bit quantities as limbs <<hi, mid, lo>>, 0 <= limb < 2^21
Limb == 2 ^ 21
IsWide(a) == Len(a) = 3 /\ \A i \in 1 .. 3 : 0 <= a[i] /\ a[i] < Limb
WideZero == <<0, 0, 0>>
WideLe(a, b) == \/ a[1] < b[1]
                \/ a[1] = b[1] /\ a[2] < b[2]
                \/ a[1] = b[1] /\ a[2] = b[2] /\ a[3] <= b[3]
WideLt(a, b) == WideLe(a, b) /\ a # b
\* a + b (the top limb of the sum may exceed 2^21: then it equals no limb value)
WideAdd(a, b) == LET lo == a[3] + b[3]
                     mi == a[2] + b[2] + (lo \div Limb)
                 IN  <<a[1] + b[1] + (mi \div Limb), mi % Limb, lo % Limb>>

\* items = (q*chunks + m)*g, 0 <= m < chunks: QuotRemForm gives ceil = (q + [m > 0])*g and
\* trans = IF m = 0 THEN chunks ELSE m, hence 1 <= trans <= chunks; SumExact / CeilFacts (same module
\* of proofs) make these values the ones with exact sum and sizes one unit apart.
WideVerdicts(r) ==
  LET ok == IsWide(r.trans) IN
  [line |-> l,
   conforms |-> /\ r.dq = (IF r.m # WideZero THEN 1 ELSE 0) /\ r.cr = 0
                /\ r.trans = (IF r.m = WideZero THEN r.chunks ELSE r.m),
   \* trans*ceil + (chunks - trans)*(ceil - g) = items  <=>  chunks*(dq*g + cr) + trans*g = (chunks + m)*g:
   \* decided here for results whose ceil is within one unit of q*g (anything else violates `unit`)
   sum   |-> (r.cr = 0 /\ r.dq \in {0, 1}) =>
             r.trans = (IF r.dq = 1 THEN r.m ELSE WideAdd(r.m, r.chunks)),
   trans |-> ok /\ WideLe(<<0, 0, 1>>, r.trans) /\ WideLe(r.trans, r.chunks),
   unit  |-> r.cr = 0 /\ r.dq \in {0, 1}]

\* the real static parallel_for: size = (q*nt + m)*g, nt = min(N + 1, maxThreads) chunks (the range has
\* at least 4*nt units), chunk i (0-based, sorted by begin) starts at unit i*q + min(i, m) and has
\* q + [i < m] units.  b[i] = <<do, orem, ds, lrem, gap>>, see the driver.
PfwVerdicts(r) ==
  LET nt == Min(r.N + 1, r.mt)
      n  == Len(r.b)
  IN
  [line |-> l,
   conforms |-> /\ r.nb = nt /\ n = nt
                /\ \A i \in 1 .. n : r.b[i] = <<Min(i - 1, r.m), 0, IF i - 1 < r.m THEN 1 ELSE 0, 0, 0>>
                /\ r.tail = 0,
   \* C17 on the observed boundaries: the chunks are a contiguous chain from the start of the range to
   \* its end (b[i][5] = begin of chunk i - end of chunk i-1 resp. - start; tail = end of range - end of
   \* the last chunk) ...
   sum   |-> /\ r.nb = n /\ n >= 1 /\ r.tail = 0
             /\ \A i \in 1 .. n : r.b[i][5] = 0,
   trans |-> TRUE,
   \* ... of non-empty sizes that are multiples of g, at most one unit apart, larger first
   unit  |-> /\ \A i \in 1 .. n : r.b[i][3] \in {0, 1} /\ r.b[i][4] = 0
             /\ \A i \in 1 .. (n - 1) : r.b[i][3] >= r.b[i + 1][3]]

\* well-formed input part of a record (the driver's side of the contract)
WellFormed(r) ==
  CASE r.e = "wide" -> /\ IsWide(r.q) /\ IsWide(r.m) /\ IsWide(r.chunks) /\ IsWide(r.g) /\ IsWide(r.items)
                       /\ WideLt(r.m, r.chunks) /\ r.g # WideZero
    [] r.e = "pfw"  -> /\ IsWide(r.q) /\ IsWide(r.size) /\ r.g >= 1 /\ r.N >= 1 /\ r.mt >= 2
                       /\ 0 <= r.m /\ r.m < Min(r.N + 1, r.mt)
                       /\ WideLe(<<0, 0, 4>>, r.q)
    [] OTHER        -> TRUE

Verdicts(r) ==
  IF r.e = "wide" THEN WideVerdicts(r)
  ELSE IF r.e = "pfw" THEN PfwVerdicts(r)
  ELSE IF r.e = "scs"
  THEN LET s == SpecOf(r) IN
       [line |-> l,
        conforms |-> r.ceil = s.ceil /\ r.trans = s.trans,
        \* C17 on the observed values
        sum   |-> r.trans * r.ceil + (r.chunks - r.trans) * (r.ceil - r.g) = r.items,
        trans |-> 1 <= r.trans /\ r.trans <= r.chunks,
        unit  |-> /\ r.ceil >= 0 /\ r.ceil % r.g = 0 /\ (r.trans < r.chunks => r.ceil - r.g >= 0)
                  /\ r.ceil * r.chunks >= r.items /\ (r.items > 0 => (r.ceil - r.g) * r.chunks < r.items)]
  ELSE [line |-> l,
        conforms |-> /\ r.dq = (IF r.m > 0 THEN 1 ELSE 0) /\ r.cr = 0
                     /\ r.trans = (IF r.m = 0 THEN r.chunks ELSE r.m),
        sum |-> TRUE, trans |-> 1 <= r.trans /\ r.trans <= r.chunks, unit |-> TRUE]

\* line 1 is the driver's header record (so that the depth TLC reports is the line number)
TraceInit == l = 2 /\ v = <<>> /\ TraceLog[1].e = "hdr"
TraceStep ==
  /\ l <= Len(TraceLog)
  /\ \E r \in {TraceLog[l]} : WellFormed(r) /\ v' = Verdicts(r)
  /\ l' = l + 1
TraceSpec == TraceInit /\ [][TraceStep]_tvars

Conforms             == v # <<>> => v.conforms
SizesSumToItems      == v # <<>> => v.sum
TransitionInRange    == v # <<>> => v.trans
SizesDifferByOneUnit == v # <<>> => v.unit

TraceAccepted ==
  LET d == TLCGet("stats").diameter IN
  IF d = Len(TraceLog) THEN TRUE
  ELSE /\ PrintT(<<"TRACE_REJECTED_AT_LINE", d + 1, "OF", Len(TraceLog)>>)
       /\ PrintT(<<"OFFENDING", TraceLog[d + 1]>>)
       /\ FALSE
==========================================================================
