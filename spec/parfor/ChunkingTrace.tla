---------------------------- MODULE ChunkingTrace ----------------------------
(* E5 trace validation for the static chunking helpers: one step per record of     *)
(* harness/drv/drv_chunking.cpp.  "scs" records carry the arguments and the result  *)
(* of one call of the compiled function; "big" records carry a call with items up   *)
(* to 2^62 in quotient / remainder form (theorem QuotRemForm of Chunking_proofs).   *)
EXTENDS Chunking, Json, IOUtils

TraceLog == ndJsonDeserialize(IOEnv.TRACE)

VARIABLES l, v
tvars == <<l, v>>

SpecOf(r) == IF r.api = "granular" THEN StaticChunkSizeGranular(r.items, r.chunks, r.g)
             ELSE StaticChunkSize(r.items, r.chunks)

Verdicts(r) ==
  IF r.e = "scs"
  THEN LET s == SpecOf(r) IN
       [line |-> l,
        conforms |-> r.ceil = s.ceil /\ r.trans = s.trans,
        \* C17 on the observed values
        sum   |-> r.trans * r.ceil + (r.chunks - r.trans) * (r.ceil - r.g) = r.items,
        trans |-> 1 <= r.trans /\ r.trans <= r.chunks,
        unit  |-> /\ r.ceil >= 0 /\ r.ceil % r.g = 0 /\ (r.trans < r.chunks => r.ceil - r.g >= 0)
                  /\ r.ceil * r.chunks >= r.items /\ (r.items > 0 => (r.ceil - r.g) * r.chunks < r.items)]
  ELSE [line |-> l,
        conforms |-> /\ r.dq = (IF r.m > 0 THEN 1 ELSE 0) /\ r.cr = 0
                     /\ r.trans = (IF r.m = 0 THEN r.chunks ELSE r.m),
        sum |-> TRUE, trans |-> 1 <= r.trans /\ r.trans <= r.chunks, unit |-> TRUE]

\* line 1 is the driver's header record (so that the depth TLC reports is the line number)
TraceInit == l = 2 /\ v = <<>> /\ TraceLog[1].e = "hdr"
TraceStep ==
  /\ l <= Len(TraceLog)
  /\ \E r \in {TraceLog[l]} : v' = Verdicts(r)
  /\ l' = l + 1
TraceSpec == TraceInit /\ [][TraceStep]_tvars

Conforms             == v # <<>> => v.conforms
SizesSumToItems      == v # <<>> => v.sum
TransitionInRange    == v # <<>> => v.trans
SizesDifferByOneUnit == v # <<>> => v.unit

TraceAccepted ==
  LET d == TLCGet("stats").diameter IN
  IF d = Len(TraceLog) THEN TRUE
  ELSE /\ PrintT(<<"TRACE_REJECTED_AT_LINE", d + 1, "OF", Len(TraceLog)>>)
       /\ PrintT(<<"OFFENDING", TraceLog[d + 1]>>)
       /\ FALSE
==========================================================================
