\* C14/C48 E1 (thorough): every interleaving, larger domain
CONSTANTS
  Orig = {}
  PoolSizes = {1, 2, 3}
  Lens = {3, 7, 8}
  Modes = {"static", "auto", "chunk"}
  Chunks = {1, 2}
  MaxThreads = {1, 2, 3, 5}
  Waits = {TRUE, FALSE}
  Grans = {1, 3}
  MinItems = {1, 2}
  Reuses <- ReuseOne
  InPool = TRUE
  SeqOnly = FALSE
SPECIFICATION Spec
CHECK_DEADLOCK TRUE
INVARIANTS OneBodyPerState StateExists StatesNonEmptyAfterReturn ConcurrencyBound PeakBound PlanBound SlotsDistinct OneBodyPerThread QuietAfterCompletion
