------------------------------ MODULE ForEach ------------------------------
(* API-level specification of one dispenso::for_each_n call (dispenso/for_each.h  *)
(* :180, detail::for_each_n_schedule, platform.h staticChunkSize) over an         *)
(* abstract pool, for                                                              *)
(*   C15  the function is applied exactly once to each of the first n elements,   *)
(*        for every iterator category, n, maxThreads, wait mode and pool size     *)
(*        (including zero-thread pools); all applications have finished when the  *)
(*        call (wait) / the task set's wait() returns                             *)
(*   C48  never more than max(1, maxThreads) applications at a time               *)
(*                                                                                *)
(* Actions: Call(t), ApplyBegin(t, el), ApplyEnd(t, el), Return(t), SetWait(t),   *)
(* SetWaitReturn(t).  Elements are numbered 0 .. n-1 from `start`.                *)
(* Threads: 0 = external caller, 1..N = pool threads (abstract pool: a scheduled  *)
(* chunk may be executed by any pool thread, or by the caller while it is inside  *)
(* for_each_n or inside its own taskSet.wait(); one task per thread at a time).   *)
(*                                                                                *)
(* P = [n, N, mt, mtneg, wait, cat, rec]                                          *)
(*   cat   "ra" (random access: chunk offsets computed arithmetically) |          *)
(*         "bidi" | "fwd" (boundary iterators pre-computed by std::advance)       *)
(*                                                                                *)
(* Orig \subseteq {"fe0"}: "fe0" = the ORIGINAL thread-count computation, which    *)
(* reaches staticChunkSize(n, 0) (division by zero) for a zero-thread pool with   *)
(* wait = false; fixed: serial execution on the caller when numThreads <= 0.      *)
EXTENDS Integers, Sequences, FiniteSets, TLC

CONSTANT Orig

VARIABLES P, pl, cal, cph, pst, pth,
          nxt,      \* participant -> number of its elements whose application has begun
          active,   \* applications in progress: [p, th, el]
          cnt,      \* element -> number of applications begun
          err,      \* the code divided by zero
          peak
vars == <<P, pl, cal, cph, pst, pth, nxt, active, cnt, err, peak>>

Min(a, b) == IF a < b THEN a ELSE b
Max(a, b) == IF a > b THEN a ELSE b
W(p) == IF p.wait THEN 1 ELSE 0
\* int32_t maxThreads = std::max<int32_t>(options.maxThreads, 1)
MaxT0(p) == IF p.mtneg THEN 1 ELSE Max(p.mt, 1)
UserBound(p) == IF p.mtneg THEN 2147483647 ELSE Max(p.mt, 1)

\* detail::staticChunkSize(items, chunks), chunks > 0
StaticChunk(items, chunks) ==
  LET c == (items + chunks - 1) \div chunks
      left == c * chunks - items
  IN  [ceil |-> c, trans |-> chunks - left]

\* random-access for_each_n_schedule: offsets by multiplication
BoundsRA(n, nt) ==
  LET ch == StaticChunk(n, nt)
      small == ch.ceil - (IF ch.trans = nt THEN 0 ELSE 1)
  IN  [i \in 0 .. (nt - 1) |->
         LET off == IF i < ch.trans THEN i * ch.ceil ELSE ch.trans * ch.ceil + (i - ch.trans) * small
             sz  == IF i < ch.trans THEN ch.ceil ELSE small
         IN  <<off, off + sz>>]

\* other iterator categories: boundaries[t + 1] = advance(boundaries[t], size of chunk t)
RECURSIVE Boundary(_, _, _, _)
Boundary(t, ceil, small, trans) ==
  IF t = 0 THEN 0 ELSE Boundary(t - 1, ceil, small, trans) + (IF t - 1 < trans THEN ceil ELSE small)
BoundsAdv(n, nt) ==
  LET ch == StaticChunk(n, nt)
      small == ch.ceil - (IF ch.trans = nt THEN 0 ELSE 1)
  IN  [i \in 0 .. (nt - 1) |-> <<Boundary(i, ch.ceil, small, ch.trans), Boundary(i + 1, ch.ceil, small, ch.trans)>>]

SerialPlan(p) == [kind |-> "serial", np |-> 1, cpart |-> 0, chunks |-> [i \in {0} |-> <<0, p.n>>]]
NoPlan == [kind |-> "none", np |-> 0, cpart |-> -1, chunks |-> <<>>]

Plan(p) ==
  IF p.n = 0 \/ p.mt = 0 \/ p.rec THEN SerialPlan(p)
  ELSE LET nt == Min(Min(p.N + W(p), MaxT0(p)), p.n) IN
       IF nt <= 0
       THEN (IF "fe0" \in Orig THEN [NoPlan EXCEPT !.kind = "divzero"] ELSE SerialPlan(p))
       ELSE [kind |-> "par", np |-> nt, cpart |-> (IF p.wait THEN nt - 1 ELSE -1),
             chunks |-> (IF p.cat = "ra" THEN BoundsRA(p.n, nt) ELSE BoundsAdv(p.n, nt))]

Parts == 0 .. (pl.np - 1)
Lo(q) == pl.chunks[q][1]
Hi(q) == pl.chunks[q][2]
NoBodyOn(t) == \A a \in active : a.th # t
Finished(q) == pst[q] = "x" \/ Lo(q) >= Hi(q)
Free(t) == NoBodyOn(t) /\ \A q \in Parts : pth[q] = t => Finished(q)
ThreadAllowed(t) == (t = cal /\ cph \in {"in", "swait"}) \/ (t # cal /\ t \in 1 .. P.N)
AllDone == active = {} /\ \A q \in Parts : Finished(q)

InitWith(p) ==
  /\ P = p /\ pl = NoPlan /\ cal = -1 /\ cph = "idle"
  /\ pst = <<>> /\ pth = <<>> /\ nxt = <<>> /\ active = {}
  /\ cnt = [el \in 0 .. (p.n - 1) |-> 0]
  /\ err = FALSE /\ peak = 0

Call(t) ==
  /\ cph = "idle"
  /\ LET np == Plan(P) IN
       /\ pl' = np
       /\ pst' = [q \in 0 .. (np.np - 1) |-> "q"]
       /\ pth' = [q \in 0 .. (np.np - 1) |-> -1]
       /\ nxt' = [q \in 0 .. (np.np - 1) |-> 0]
       /\ err' = (np.kind = "divzero")
       /\ cph' = IF np.kind = "divzero" THEN "crash" ELSE "in"
  /\ cal' = t
  /\ UNCHANGED <<P, active, cnt, peak>>

ApplyBegin(t, el) ==
  /\ cph \in {"in", "ret", "swait"}
  /\ \E q \in Parts :
       /\ el = Lo(q) + nxt[q] /\ el < Hi(q)            \* a chunk is walked front to back
       /\ ThreadAllowed(t)
       /\ (CASE pst[q] = "q"   -> (Free(t) /\ (q = pl.cpart => (t = cal /\ cph = "in")))
             [] pst[q] = "run" -> (pth[q] = t /\ NoBodyOn(t))
             [] OTHER          -> FALSE)
       /\ active' = active \cup {[p |-> q, th |-> t, el |-> el]}
       /\ nxt' = [nxt EXCEPT ![q] = @ + 1]
       /\ pst' = [pst EXCEPT ![q] = "run"]
       /\ pth' = [pth EXCEPT ![q] = t]
  /\ el \in DOMAIN cnt
  /\ cnt' = [cnt EXCEPT ![el] = @ + 1]
  /\ peak' = Max(peak, Cardinality(active'))
  /\ UNCHANGED <<P, pl, cal, cph, err>>

ApplyEnd(t, el) ==
  /\ \E a \in active :
       /\ a.th = t /\ a.el = el
       /\ active' = active \ {a}
       /\ pst' = IF Lo(a.p) + nxt[a.p] >= Hi(a.p) THEN [pst EXCEPT ![a.p] = "x"] ELSE pst
  /\ UNCHANGED <<P, pl, cal, cph, pth, nxt, cnt, err, peak>>

Return(t) ==
  /\ cph = "in" /\ t = cal
  /\ Free(cal)
  /\ (P.wait \/ pl.kind = "serial" => AllDone)
  /\ cph' = "ret"
  /\ UNCHANGED <<P, pl, cal, pst, pth, nxt, active, cnt, err, peak>>

SetWait(t) ==
  /\ cph = "ret" /\ t = cal
  /\ cph' = "swait"
  /\ UNCHANGED <<P, pl, cal, pst, pth, nxt, active, cnt, err, peak>>

SetWaitReturn(t) ==
  /\ cph = "swait" /\ t = cal
  /\ AllDone
  /\ cph' = "done"
  /\ UNCHANGED <<P, pl, cal, pst, pth, nxt, active, cnt, err, peak>>

\* ------------------------------------------------------------------ properties
\* C15: the thread-count computation never divides by zero
NoDivZero == ~err
\* C15: the chunk boundaries partition [0, n)
PlanPartition ==
  cph \notin {"idle", "crash"} =>
    /\ pl.np >= 1
    /\ Lo(0) = 0 /\ Hi(pl.np - 1) = P.n
    /\ \A q \in Parts : Lo(q) <= Hi(q) /\ (q + 1 < pl.np => Hi(q) = Lo(q + 1))
\* C15: never twice ...
AtMostOnce == \A el \in DOMAIN cnt : cnt[el] <= 1
\* ... and exactly once, all finished, when the call (wait) / the task set's wait() has returned
Completed == cph = "done" \/ (cph \in {"ret", "swait"} /\ (P.wait \/ pl.kind = "serial"))
ExactlyOnceAtCompletion == Completed => (active = {} /\ \A el \in DOMAIN cnt : cnt[el] = 1)
\* C48
ConcurrencyBound == Cardinality(active) <= UserBound(P)
PeakBound == peak <= UserBound(P)
PlanBound == cph \notin {"idle", "crash"} => pl.np <= UserBound(P)
OneBodyPerThread == \A a1, a2 \in active : a1.th = a2.th => a1 = a2
=============================================================================
