CONSTANTS
  OrigAlign = FALSE
  OrigCursor = TRUE
  W = 6
  Signs = {TRUE}
  WideSame = {FALSE}
  Starts <- EdgeOffsets
  Lens <- EdgeLens
  Modes = {"auto"}
  Chunks = {1}
  Pools <- PoolsSmall
  Waits = {TRUE}
  MinItems = {1, 17}
  Grans = {1, 32}
  Props = {"c12"}
  L3 = 1
  GSpan = 2
INIT Init
NEXT Next
CHECK_DEADLOCK FALSE
INVARIANTS NoArithmeticError NoLateClaim C12Partition
