\* negative control (C48): ORIGINAL adjustChunkSizing - explicit chunk size and size <= N + wait discards maxThreads
CONSTANTS
  Orig = {"clamp"}
  PoolSizes = {3}
  Lens = {3}
  Modes = {"chunk"}
  Chunks = {1}
  MaxThreads = {1, 2}
  Waits = {TRUE, FALSE}
  Grans = {1}
  MinItems = {1}
  Reuses <- ReuseOne
  InPool = FALSE
  SeqOnly = FALSE
SPECIFICATION Spec
CHECK_DEADLOCK TRUE
INVARIANTS ConcurrencyBound
