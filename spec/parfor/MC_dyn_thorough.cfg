CONSTANTS
  W = 5
  Signs = {TRUE, FALSE}
  DStarts = {0, 3, 20, 31}
  DLens = {1, 2, 3, 5, 8, 11, 12}
  DChunks = {1, 2, 3, 4, 5}
  DWorkers = {1, 2, 3, 4, 5}
  DWaits = {TRUE, FALSE}
  L3s = {1, 2, 3}
  GSpan = 2
INIT Init
NEXT Next
CHECK_DEADLOCK FALSE
INVARIANTS Disjoint CompleteAtExit
