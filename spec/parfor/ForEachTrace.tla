----------------------------- MODULE ForEachTrace -----------------------------
(* Trace validation for ForEach.tla: executions of the REAL dispenso::for_each_n *)
(* on the REAL ThreadPool recorded by harness/drv/drv_loops.cpp (controlled       *)
(* scheduler steps with notes call / fb / fe / ret / sw / swr and, after every    *)
(* step, the per-element application counters; or free-running API-level event    *)
(* lines).  See ParForApiTrace.tla for the conventions.                           *)
EXTENDS ForEach, Json, IOUtils

TraceLog == ndJsonDeserialize(IOEnv.TRACE)

VARIABLE l
tvars == <<vars, l>>

TidOf == [main |-> 0, w0 |-> 1, w1 |-> 2, w2 |-> 3, w3 |-> 4, w4 |-> 5, w5 |-> 6, w6 |-> 7, w7 |-> 8,
          w8 |-> 9, w9 |-> 10, w10 |-> 11, w11 |-> 12, w12 |-> 13, w13 |-> 14, w14 |-> 15, w15 |-> 16]
Tid(ev) == IF "th" \in DOMAIN ev THEN ev.th ELSE TidOf[ev.t]

ParamsOf(r) == [n |-> r.n, N |-> r.N, mt |-> r.mt, mtneg |-> r.mtneg = 1, wait |-> r.wait = 1,
                cat |-> r.cat, rec |-> FALSE]

Tags == {"call", "fb", "fe", "ret", "sw", "swr"}
NumericSites == {"FutexWait", "FutexRet"}
Control == {"Reset", "End", "Stalled", "Deadlock", "Diverged"}
Notes(ev) == IF "r" \notin DOMAIN ev \/ ev.e \in NumericSites THEN <<>>
             ELSE SelectSeq(ev.r, LAMBDA x : x[1] \in Tags)

TraceInit ==
  /\ l = 2
  /\ TraceLog[1].e = "Reset"
  /\ InitWith(ParamsOf(TraceLog[1]))

ResetTo(p) ==
  /\ P' = p /\ pl' = NoPlan /\ cal' = -1 /\ cph' = "idle"
  /\ pst' = <<>> /\ pth' = <<>> /\ nxt' = <<>> /\ active' = {}
  /\ cnt' = [el \in 0 .. (p.n - 1) |-> 0]
  /\ err' = FALSE /\ peak' = 0

Dispatch(nt, t) ==
  CASE nt[1] = "call" -> Call(t)
    [] nt[1] = "fb"   -> ApplyBegin(t, nt[2])
    [] nt[1] = "fe"   -> ApplyEnd(t, nt[2])
    [] nt[1] = "ret"  -> Return(t)
    [] nt[1] = "sw"   -> SetWait(t)
    [] nt[1] = "swr"  -> SetWaitReturn(t)
    [] OTHER -> FALSE

\* the driver's container holds n + 2 elements; the two extra ones must stay untouched
ProjOK(ev) ==
  ("s" \in DOMAIN ev /\ "cnt" \in DOMAIN ev.s) =>
     /\ ev.s.act = Cardinality(active')
     /\ \A i \in 1 .. Len(ev.s.cnt) : ev.s.cnt[i] = (IF i - 1 \in DOMAIN cnt' THEN cnt'[i - 1] ELSE 0)

Complete == cph = "done" \/ (cph = "ret" /\ (P.wait \/ pl.kind = "serial"))

TraceStep ==
  /\ l <= Len(TraceLog)
  /\ LET ev == TraceLog[l] IN
       \/ /\ ev.e = "Reset"
          /\ ResetTo(ParamsOf(ev))
       \/ /\ ev.e = "End"
          /\ Complete
          /\ UNCHANGED vars
       \/ /\ ev.e \in {"Stalled", "Deadlock", "Diverged"}
          /\ UNCHANGED vars
       \/ /\ ev.e \notin Control
          /\ LET ns == Notes(ev) IN
               \/ /\ ns = <<>>
                  /\ UNCHANGED vars
               \/ /\ Len(ns) = 1
                  /\ Dispatch(ns[1], Tid(ev))
          /\ ProjOK(ev)
  /\ l' = l + 1

TraceSpec == TraceInit /\ [][TraceStep]_tvars

TraceAccepted ==
  LET d == TLCGet("stats").diameter IN
  IF d = Len(TraceLog) THEN TRUE
  ELSE /\ PrintT(<<"TRACE_REJECTED_AT_LINE", d + 1, "OF", Len(TraceLog)>>)
       /\ PrintT(<<"OFFENDING", TraceLog[d + 1]>>)
       /\ FALSE
=============================================================================
