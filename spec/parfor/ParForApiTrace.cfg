\* trace validation against the code with the fix: commits
CONSTANTS
  Orig = {}
SPECIFICATION TraceSpec
CHECK_DEADLOCK FALSE
POSTCONDITION TraceAccepted
INVARIANTS OneBodyPerState StateExists StatesNonEmptyAfterReturn ConcurrencyBound PeakBound PlanBound SlotsDistinct OneBodyPerThread QuietAfterCompletion
