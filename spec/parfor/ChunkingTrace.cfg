SPECIFICATION TraceSpec
CHECK_DEADLOCK FALSE
POSTCONDITION TraceAccepted
INVARIANTS SizesSumToItems TransitionInRange SizesDifferByOneUnit Conforms
