SPECIFICATION TraceSpec
CHECK_DEADLOCK FALSE
POSTCONDITION TraceAccepted
INVARIANTS Conforms SizesSumToItems TransitionInRange SizesDifferByOneUnit
