\* model of the ORIGINAL for_each_n (numThreads may be 0)
CONSTANTS
  Orig = {"fe0"}
SPECIFICATION TraceSpec
CHECK_DEADLOCK FALSE
POSTCONDITION TraceAccepted
INVARIANTS NoDivZero PlanPartition AtMostOnce ExactlyOnceAtCompletion ConcurrencyBound
