\* C48/C14 E1, plan level: scheduled tasks + caller participation <= maxThreads, distinct state slots, for every option combination (state space cut after Call)
CONSTANTS
  Orig = {}
  PoolSizes = {0, 1, 2, 3}
  Lens = {0, 1, 3, 8}
  Modes = {"static", "auto", "chunk"}
  Chunks = {1, 2, 3}
  MaxThreads = {0, 1, 2, 3}
  Waits = {TRUE, FALSE}
  Grans = {1, 2, 3}
  MinItems = {1, 2}
  Reuses <- ReuseTwo
  InPool = FALSE
  SeqOnly = TRUE
SPECIFICATION Spec
CHECK_DEADLOCK FALSE
CONSTRAINT PlanOnly
INVARIANTS OneBodyPerState StateExists StatesNonEmptyAfterReturn ConcurrencyBound PeakBound PlanBound SlotsDistinct OneBodyPerThread QuietAfterCompletion
