CONSTANTS
  OrigAlign = FALSE
  OrigCursor = FALSE
SPECIFICATION TraceSpec
CHECK_DEADLOCK FALSE
POSTCONDITION TraceAccepted
INVARIANTS C13Granularity Conforms SpecC13
