CONSTANTS
  OrigAlign = FALSE
  OrigCursor = FALSE
SPECIFICATION TraceSpec
CHECK_DEADLOCK FALSE
POSTCONDITION TraceAccepted
INVARIANTS Conforms C13Granularity SpecC13
