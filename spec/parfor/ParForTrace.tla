----------------------------- MODULE ParForTrace -----------------------------
(* E5 trace validation for parallel_for: one step per observation record written  *)
(* by harness/drv/drv_parfor.cpp.  A record is the input of one real              *)
(* dispenso::parallel_for call (index type window, range, chunking, options, pool  *)
(* size) and the sorted list of [begin, end) the loop body was invoked with.       *)
(* The step evaluates ParForOutcome(input); the invariants compare.                *)
EXTENDS ParFor, Json, IOUtils

TraceLog == ndJsonDeserialize(IOEnv.TRACE)

VARIABLES l,    \* next line to consume
          v     \* verdicts for the line consumed last
tvars == <<l, v>>

BigW == 2 ^ 28
InOf(r, clamp) ==
  [sg |-> r.sg = 1, tmin |-> r.tmin, tmax |-> r.tmax,
   wmin |-> IF r.ws = 1 THEN r.tmin ELSE (IF r.sg = 1 THEN -BigW ELSE 0),
   wmax |-> IF r.ws = 1 THEN r.tmax ELSE BigW,
   start |-> r.s, end |-> r.en, mode |-> r.mode, c |-> r.c, mt |-> r.mt, wait |-> r.wait = 1,
   mi |-> r.mi, g |-> r.g, N |-> r.N, l3 |-> r.l3, gspan |-> 16, rec |-> r.rec = 1, clamp |-> clamp]

IsIx(r) == "ix" \in DOMAIN r /\ r.ix = 1

Verdicts(r, in, o) ==
  [line |-> l, kind |-> o.kind,
   \* the real call made exactly the invocations the specification computes
   \* (records of the index-form overloads f(i), "ix" = 1, carry the visits as maximal runs of indices per
   \*  multiplicity layer - the chunk boundaries are not observable there; c12 below decides on them)
   conforms |-> /\ r.trunc = 0 /\ r.nb = Len(r.b)
                /\ (IsIx(r) \/ r.b = o.bodies \/ SeqToBag(r.b) = SeqToBag(o.bodies)),
   \* C12 on what was observed: the invocations partition [start, end) ...
   c12 |-> r.trunc = 0 /\ IsPartition(r.b, in.start, Max(in.start, in.end)),
   \* ... and all of them had returned when parallel_for / TaskSet::wait returned
   returned |-> r.inflight = 0 /\ r.late = 0,
   \* C13 on what was observed
   c13 |-> r.trunc = 0 /\ GranularityOK(r.b, o.g, in.end),
   \* C17 on what was observed (static chunking): the invocations of the trimmed range come with
   \* the larger sizes first and differ by at most one unit of granularity
   shape |-> (o.kind # "static" \/
              LET te == in.start + ((in.end - in.start) \div o.g) * o.g
                  main == SelectSeq(r.b, LAMBDA x : x[2] <= te)
                  sz == [i \in 1 .. Len(main) |-> main[i][2] - main[i][1]]
              IN  /\ \A i \in 1 .. (Len(sz) - 1) : sz[i] >= sz[i + 1]
                  /\ \A i, j \in 1 .. Len(sz) : sz[i] - sz[j] <= o.g
                  /\ \A i \in 1 .. Len(sz) : sz[i] % o.g = 0 /\ sz[i] > 0),
   specC12 |-> C12Holds(in, o), specC13 |-> C13Holds(in, o)]

\* line 1 is the driver's header record (so that the depth TLC reports is the line number); header
\* records also separate concatenated suites
TraceInit == l = 2 /\ v = <<>> /\ TraceLog[1].e = "hdr"

TraceStep ==
  /\ l <= Len(TraceLog)
  /\ \E r \in {TraceLog[l]} :
     IF r.e = "hdr" THEN v' = <<>> ELSE
     \E in \in {InOf(r, FALSE)} : \E o \in {ParForOutcome(in)} :
       \* the specification allows two thread-count rules for tiny explicit-chunk ranges (clamp)
       IF r.mode = "chunk" /\ r.b # o.bodies
       THEN \E in2 \in {InOf(r, TRUE)} : \E o2 \in {ParForOutcome(in2)} : v' = Verdicts(r, in2, o2)
       ELSE v' = Verdicts(r, in, o)
  /\ l' = l + 1

TraceSpec == TraceInit /\ [][TraceStep]_tvars

Conforms       == v # <<>> => v.conforms
C12Partition   == v # <<>> => v.c12
C12AllReturned == v # <<>> => v.returned
C13Granularity == v # <<>> => v.c13
C17StaticShape == v # <<>> => v.shape
SpecC12        == v # <<>> => v.specC12
SpecC13        == v # <<>> => v.specC13

TraceAccepted ==
  LET d == TLCGet("stats").diameter IN
  IF d = Len(TraceLog) THEN TRUE
  ELSE /\ PrintT(<<"TRACE_REJECTED_AT_LINE", d + 1, "OF", Len(TraceLog)>>)
       /\ PrintT(<<"OFFENDING", TraceLog[d + 1]>>)
       /\ FALSE
==========================================================================
