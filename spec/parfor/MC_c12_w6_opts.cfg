CONSTANTS
  OrigAlign = FALSE
  OrigCursor = FALSE
  W = 6
  Signs = {TRUE, FALSE}
  WideSame = {TRUE, FALSE}
  Starts <- EdgeOffsets
  Lens <- EdgeLens
  Modes = {"static", "auto", "chunk"}
  Chunks = {1, 3, 31, 63}
  Pools <- PoolsQ
  Waits = {TRUE, FALSE}
  MinItems = {0, 1, 2, 5, 17, 33}
  Grans = {0, 1, 2, 3, 5, 32}
  Props = {"c12"}
  L3 = 3
  GSpan = 2
INIT Init
NEXT Next
CHECK_DEADLOCK FALSE
INVARIANTS NoArithmeticError NoLateClaim C12Partition
