\* negative control (C48): ORIGINAL static no-wait granularity tail - maxThreads chunks + the tail on the caller
CONSTANTS
  Orig = {"tail"}
  PoolSizes = {2}
  Lens = {7}
  Modes = {"static"}
  Chunks = {2}
  MaxThreads = {2}
  Waits = {FALSE}
  Grans = {3}
  MinItems = {1}
  Reuses <- ReuseOne
  InPool = FALSE
  SeqOnly = FALSE
SPECIFICATION Spec
CHECK_DEADLOCK TRUE
INVARIANTS ConcurrencyBound
