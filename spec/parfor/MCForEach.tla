------------------------------ MODULE MCForEach ------------------------------
(* E1 for C15 (and the for_each part of C48): all parameter combinations of the  *)
(* sets below; every interleaving of the element applications (SeqOnly = FALSE)   *)
(* or the overlap-free schedules only (SeqOnly = TRUE, large domains).            *)
EXTENDS ForEach

CONSTANTS PoolSizes, Lens, MaxThreads, Waits, Cats, SeqOnly

Params == [n : Lens, N : PoolSizes, mt : MaxThreads, mtneg : {FALSE}, wait : Waits, cat : Cats, rec : {FALSE}]

Used == {pth[q] : q \in Parts} \ {-1}
Fresh == {t \in 1 .. P.N : t # cal /\ t \notin Used}
TCands == {cal} \cup Used \cup (IF Fresh = {} THEN {} ELSE {CHOOSE t \in Fresh : \A u \in Fresh : t <= u})

\* overlap-free schedules: participants in index order, each on a canonical thread
MinFresh == IF Fresh = {} THEN cal ELSE CHOOSE t \in Fresh : \A u \in Fresh : t <= u
SeqThread(q) == IF q = pl.cpart THEN cal ELSE IF pth[q] # -1 THEN pth[q] ELSE MinFresh
SeqPart(q) == \A r \in Parts : r < q => Finished(r)

Init == \E p \in Params : InitWith(p)

Next ==
  \/ Call(0)
  \/ \E t \in TCands, q \in Parts :
       /\ (SeqOnly => active = {} /\ SeqPart(q) /\ t = SeqThread(q))
       /\ ApplyBegin(t, Lo(q) + nxt[q])
  \/ \E a \in active : ApplyEnd(a.th, a.el)
  \/ Return(cal)
  \/ SetWait(cal)
  \/ SetWaitReturn(cal)
  \/ (cph \in {"done", "crash"} /\ UNCHANGED vars)

Spec == Init /\ [][Next]_vars
=============================================================================
