\* negative control (C14): ORIGINAL static no-wait granularity tail - runTail() on the caller uses states[0] while chunk 0 runs
CONSTANTS
  Orig = {"tail"}
  PoolSizes = {2}
  Lens = {7}
  Modes = {"static"}
  Chunks = {2}
  MaxThreads = {2}
  Waits = {FALSE}
  Grans = {3}
  MinItems = {1}
  Reuses <- ReuseOne
  InPool = FALSE
  SeqOnly = FALSE
SPECIFICATION Spec
CHECK_DEADLOCK TRUE
INVARIANTS OneBodyPerState
