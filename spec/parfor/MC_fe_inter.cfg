\* C15/C48 E1: every interleaving of the element applications, reduced domain
CONSTANTS
  Orig = {}
  PoolSizes = {0, 2, 3}
  Lens = {0, 1, 4, 5}
  MaxThreads = {0, 1, 2, 4}
  Waits = {TRUE, FALSE}
  Cats = {"ra", "fwd"}
  SeqOnly = FALSE
SPECIFICATION Spec
CHECK_DEADLOCK TRUE
INVARIANTS NoDivZero PlanPartition AtMostOnce ExactlyOnceAtCompletion ConcurrencyBound PeakBound PlanBound OneBodyPerThread
