CONSTANTS
  OrigAlign = FALSE
  OrigCursor = FALSE
SPECIFICATION TraceSpec
CHECK_DEADLOCK FALSE
POSTCONDITION TraceAccepted
INVARIANTS C12Partition C17StaticShape Conforms
