CONSTANTS
  OrigAlign = FALSE
  OrigCursor = TRUE
  W = 4
  Signs = {TRUE, FALSE}
  WideSame = {TRUE}
  SStarts = {0, 7, 10}
  SLens = {2, 5}
  NWs = {1, 2, 3}
  ChunkSizes = {1, 2}
  SGrans = {1, 2}
  MaxOver = 2
INIT Init
NEXT Next
CONSTRAINT OverBound
CHECK_DEADLOCK FALSE
INVARIANTS Disjoint CompleteAtExit ExitOnlyWhenExhausted AgreesWithClosure
