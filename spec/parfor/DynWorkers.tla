----------------------------- MODULE DynWorkers -----------------------------
(* dispenso/detail/par_for_dynamic.h: the shared chunk index of the dynamic        *)
(* (explicit chunk size / adaptive no-wait) parallel_for, with its workers as       *)
(* interleaved actions.  Fetch(w) is the index.fetch_add(1) of worker w on the      *)
(* index of its group together with the body call it leads to (or the worker's      *)
(* exit when the value is past the group's chunks).  Single-group and multi-group   *)
(* (parallel_for_dynamicMultiGroupImpl) paths; GSpan = 16 in the code.              *)
EXTENDS Chunking

CONSTANTS W, Signs, DStarts, DLens, DChunks, DWorkers, DWaits, L3s, GSpan

VARIABLES cfg,     \* [ty, start, end, cs, n, groups, tw (total workers), launched]
          idx,     \* idx[g]: the atomic index of group g (1-based groups)
          pc,      \* pc[w] = "run" | "done"
          bodies, dup
vars == <<cfg, idx, pc, bodies, dup>>

TMin(sg) == IF sg THEN -(2 ^ (W - 1)) ELSE 0
TMax(sg) == IF sg THEN 2 ^ (W - 1) - 1 ELSE 2 ^ W - 1

Init ==
  \E sg \in Signs, d \in DStarts, len \in DLens, cs \in DChunks, nl \in DWorkers, wait \in DWaits, l3 \in L3s :
    LET tw == nl + (IF wait THEN 1 ELSE 0)
        start == TMin(sg) + d
    IN  /\ len >= 1 /\ start + len <= TMax(sg)
        /\ cfg = [ty |-> Ty(TMin(sg), TMax(sg)), start |-> start, end |-> start + len, cs |-> cs,
                  n |-> (len + cs - 1) \div cs, groups |-> DynGroups(tw, l3, GSpan), tw |-> tw, launched |-> nl]
        /\ idx = [g \in 1 .. DynGroups(tw, l3, GSpan) |-> 0]
        /\ pc = [w \in 1 .. tw |-> "run"]
        /\ bodies = {} /\ dup = FALSE

\* group (0-based) of worker w (1-based; scheduled workers are i = w - 1 < launched, the caller is last)
GroupOf(w) ==
  LET g == ((w - 1) * cfg.groups) \div cfg.tw
  IN  IF g >= cfg.groups THEN cfg.groups - 1 ELSE g

Fetch(w) ==
  /\ w \in DOMAIN pc /\ pc[w] = "run"
  /\ LET g   == GroupOf(w)
         gr  == IF cfg.groups = 1 THEN [startChunk |-> 0, count |-> cfg.n]
                ELSE DynGroupRange(cfg.n, cfg.groups, g)
         cur == idx[g + 1]
     IN  /\ idx' = [idx EXCEPT ![g + 1] = cur + 1]
         /\ IF cur >= gr.count THEN pc' = [pc EXCEPT ![w] = "done"] /\ UNCHANGED <<bodies, dup>>
            ELSE LET b == DynChunk(cfg.ty, cfg.start, cfg.end, cfg.cs, cfg.n, gr.startChunk + cur)
                 IN  /\ bodies' = bodies \cup {b} /\ dup' = (dup \/ b \in bodies)
                     /\ UNCHANGED pc
  /\ UNCHANGED cfg

Next == \E w \in 1 .. 6 : Fetch(w)
Spec == Init /\ [][Next]_vars

AllDone == \A w \in DOMAIN pc : pc[w] = "done"
Disjoint ==
  /\ ~dup
  /\ \A x \in bodies : cfg.start <= x[1] /\ x[1] < x[2] /\ x[2] <= cfg.end
  /\ \A x, y \in bodies : x = y \/ x[2] <= y[1] \/ y[2] <= x[1]
RECURSIVE SetSum(_)
SetSum(S) == IF S = {} THEN 0 ELSE LET x == CHOOSE x \in S : TRUE IN (x[2] - x[1]) + SetSum(S \ {x})
CompleteAtExit == AllDone => SetSum(bodies) = cfg.end - cfg.start
=============================================================================
