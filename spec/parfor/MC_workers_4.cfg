CONSTANTS
  OrigAlign = FALSE
  OrigCursor = FALSE
  W = 4
  Signs = {FALSE}
  WideSame = {TRUE}
  SStarts = {10}
  SLens = {4, 5}
  NWs = {4}
  ChunkSizes = {1, 2}
  SGrans = {1}
  MaxOver = 2
INIT Init
NEXT Next
CONSTRAINT OverBound
CHECK_DEADLOCK FALSE
INVARIANTS Disjoint CompleteAtExit ExitOnlyWhenExhausted AgreesWithClosure
