---------------------------- MODULE MCParForApi ----------------------------
(* E1 for C14 / C48: every interleaving of the body invocations of one          *)
(* parallel_for call over the abstract pool, for every combination of the        *)
(* parameter sets below.  Workers are interchangeable: a task that is started by  *)
(* a pool thread that has not run anything yet is started by the lowest such      *)
(* thread (symmetry reduction by construction).                                   *)
EXTENDS ParForApi

CONSTANTS PoolSizes, Lens, Modes, Chunks, MaxThreads, Waits, Grans, MinItems,
          Reuses,     \* set of <<reuseExistingState, elements before the call>>
          InPool,     \* TRUE: also calls made from a pool thread (caller ring index 0 .. N-1)
          SeqOnly         \* TRUE: only the schedules without overlap (plan-level invariants on big domains)

Params ==
  {p \in [n : Lens, mode : Modes, c : Chunks \cup {0}, mt : MaxThreads, mtneg : {FALSE}, wait : Waits,
          g : Grans, mi : MinItems, reuse : {r[1] : r \in Reuses}, pre : {r[2] : r \in Reuses},
          N : PoolSizes, cring : (IF InPool THEN -1 .. 2 ELSE {-1}), rec : {FALSE}] :
     /\ (p.mode = "chunk") = (p.c > 0)
     /\ (p.mode = "chunk" => p.g = 1)
     /\ <<p.reuse, p.pre>> \in Reuses
     /\ p.cring < p.N}

ReuseAll == {<<FALSE, 0>>, <<FALSE, 5>>, <<TRUE, 0>>, <<TRUE, 1>>, <<TRUE, 5>>}
ReuseTwo == {<<FALSE, 0>>, <<TRUE, 5>>}
ReuseOne == {<<FALSE, 0>>}

Cal0 == IF P.cring >= 0 THEN P.cring + 1 ELSE 0

Grid(cs, tn) == {<<i * cs, Min(tn, (i + 1) * cs)>> : i \in 0 .. (CeilDiv(tn, cs) - 1)}
\* stripes hand out sub-ranges of any size; the model checker uses np + 1 of them
StripeCs == Max(Gran(P), CeilDiv(pl.tn, pl.np + 1))
\* looping workers claim the chunks in increasing order (the shared index / stripe cursors do)
LowestFree(grid) == {c \in grid : c[1] \notin covered /\ \A d \in grid : d[1] \notin covered => c[1] <= d[1]}
CandsFor(q) ==
  CASE pl.kind \in {"static", "serial"} -> {pl.bounds[q]}
    [] pl.kind = "dyn"    -> LowestFree(Grid(pl.cs, pl.tn))
    [] pl.kind = "stripe" -> LowestFree(Grid(StripeCs, pl.tn))
    [] OTHER -> {}

Used == {pth[q] : q \in Parts} \ {-1}
Fresh == {t \in 1 .. P.N : t # cal /\ t \notin Used}
TCands == {cal} \cup Used \cup (IF Fresh = {} THEN {} ELSE {CHOOSE t \in Fresh : \A u \in Fresh : t <= u})

\* overlap-free schedules: each participant on a canonical thread
MinFresh == IF Fresh = {} THEN cal ELSE CHOOSE t \in Fresh : \A u \in Fresh : t <= u
SeqThread(q) == IF q = pl.cpart THEN cal ELSE IF pth[q] # -1 THEN pth[q] ELSE MinFresh

Init == \E p \in Params : InitWith(p)

Next ==
  \/ Call(Cal0, P.cring)
  \/ \E t \in TCands, q \in Parts :
       /\ (SeqOnly => active = {} /\ t = SeqThread(q))
       /\ \E c \in CandsFor(q) : BodyBegin(t, Slot(q), c[1], c[2])
  \/ \E t \in TCands :
       /\ (SeqOnly => active = {})
       /\ pl.hasTail
       /\ BodyBegin(t, 0, pl.tn, P.n)
  \/ \E a \in active : BodyEnd(a.th, a.st, a.b, a.e)
  \/ Return(cal, nst)
  \/ SetWait(cal)
  \/ SetWaitReturn(cal)
  \/ (cph = "done" /\ UNCHANGED vars)      \* so that TLC's deadlock check finds calls that cannot complete

\* plan-level configurations: the state space is cut right after Call
PlanOnly == covered = {}

Spec == Init /\ [][Next]_vars
=============================================================================
