CONSTANTS
  MaxItems = 100
  MaxChunks = 12
  MaxG = 4
INIT Init
NEXT Next
CHECK_DEADLOCK FALSE
INVARIANTS SizesSumToItems TransitionInRange SizesDifferByOneUnit QuotRemForm GranularOneIsPlain MapperContiguous ForEachBoundaries
