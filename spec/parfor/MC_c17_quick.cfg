CONSTANTS
  MaxItems = 120
  MaxChunks = 16
  MaxG = 4
INIT Init
NEXT Next
CHECK_DEADLOCK FALSE
INVARIANTS SizesSumToItems TransitionInRange SizesDifferByOneUnit QuotRemForm GranularOneIsPlain MapperContiguous ForEachBoundaries
