---- MODULE ParForTrace_TTrace_1790042920 ----
EXTENDS Sequences, TLCExt, ParForTrace, Toolbox, Naturals, TLC

_expression ==
    LET ParForTrace_TEExpression == INSTANCE ParForTrace_TEExpression
    IN ParForTrace_TEExpression!expression
----

_trace ==
    LET ParForTrace_TETrace == INSTANCE ParForTrace_TETrace
    IN ParForTrace_TETrace!trace
----

_inv ==
    ~(
        TLCGet("level") = Len(_TETrace)
        /\
        v = ([line |-> 12, kind |-> "static", conforms |-> FALSE, c12 |-> TRUE, returned |-> TRUE, c13 |-> FALSE, shape |-> FALSE, specC12 |-> TRUE, specC13 |-> TRUE])
        /\
        l = (13)
    )
----

_init ==
    /\ l = _TETrace[1].l
    /\ v = _TETrace[1].v
----

_next ==
    /\ \E i,j \in DOMAIN _TETrace:
        /\ \/ /\ j = i + 1
              /\ i = TLCGet("level")
        /\ l  = _TETrace[i].l
        /\ l' = _TETrace[j].l
        /\ v  = _TETrace[i].v
        /\ v' = _TETrace[j].v

\* Uncomment the ASSUME below to write the states of the error trace
\* to the given file in Json format. Note that you can pass any tuple
\* to `JsonSerialize`. For example, a sub-sequence of _TETrace.
    \* ASSUME
    \*     LET J == INSTANCE Json
    \*         IN J!JsonSerialize("ParForTrace_TTrace_1790042920.json", _TETrace)

=============================================================================

 Note that you can extract this module `ParForTrace_TEExpression`
  to a dedicated file to reuse `expression` (the module in the 
  dedicated `ParForTrace_TEExpression.tla` file takes precedence 
  over the module `ParForTrace_TEExpression` below).

---- MODULE ParForTrace_TEExpression ----
EXTENDS Sequences, TLCExt, ParForTrace, Toolbox, Naturals, TLC

expression == 
    [
        \* To hide variables of the `ParForTrace` spec from the error trace,
        \* remove the variables below.  The trace will be written in the order
        \* of the fields of this record.
        l |-> l
        ,v |-> v
        
        \* Put additional constant-, state-, and action-level expressions here:
        \* ,_stateNumber |-> _TEPosition
        \* ,_lUnchanged |-> l = l'
        
        \* Format the `l` variable as Json value.
        \* ,_lJson |->
        \*     LET J == INSTANCE Json
        \*     IN J!ToJson(l)
        
        \* Lastly, you may build expressions over arbitrary sets of states by
        \* leveraging the _TETrace operator.  For example, this is how to
        \* count the number of times a spec variable changed up to the current
        \* state in the trace.
        \* ,_lModCount |->
        \*     LET F[s \in DOMAIN _TETrace] ==
        \*         IF s = 1 THEN 0
        \*         ELSE IF _TETrace[s].l # _TETrace[s-1].l
        \*             THEN 1 + F[s-1] ELSE F[s-1]
        \*     IN F[_TEPosition - 1]
    ]

=============================================================================



Parsing and semantic processing can take forever if the trace below is long.
 In this case, it is advised to uncomment the module below to deserialize the
 trace from a generated binary file.

\*
\*---- MODULE ParForTrace_TETrace ----
\*EXTENDS IOUtils, ParForTrace, TLC
\*
\*trace == IODeserialize("ParForTrace_TTrace_1790042920.bin", TRUE)
\*
\*=============================================================================
\*

---- MODULE ParForTrace_TETrace ----
EXTENDS ParForTrace, TLC

trace == 
    <<
    ([v |-> <<>>,l |-> 1]),
    ([v |-> [line |-> 1, kind |-> "static", conforms |-> TRUE, c12 |-> TRUE, returned |-> TRUE, c13 |-> TRUE, shape |-> TRUE, specC12 |-> TRUE, specC13 |-> TRUE],l |-> 2]),
    ([v |-> [line |-> 2, kind |-> "static", conforms |-> TRUE, c12 |-> TRUE, returned |-> TRUE, c13 |-> TRUE, shape |-> TRUE, specC12 |-> TRUE, specC13 |-> TRUE],l |-> 3]),
    ([v |-> [line |-> 3, kind |-> "static", conforms |-> TRUE, c12 |-> TRUE, returned |-> TRUE, c13 |-> TRUE, shape |-> TRUE, specC12 |-> TRUE, specC13 |-> TRUE],l |-> 4]),
    ([v |-> [line |-> 4, kind |-> "static", conforms |-> TRUE, c12 |-> TRUE, returned |-> TRUE, c13 |-> TRUE, shape |-> TRUE, specC12 |-> TRUE, specC13 |-> TRUE],l |-> 5]),
    ([v |-> [line |-> 5, kind |-> "static", conforms |-> TRUE, c12 |-> TRUE, returned |-> TRUE, c13 |-> TRUE, shape |-> TRUE, specC12 |-> TRUE, specC13 |-> TRUE],l |-> 6]),
    ([v |-> [line |-> 6, kind |-> "static", conforms |-> TRUE, c12 |-> TRUE, returned |-> TRUE, c13 |-> TRUE, shape |-> TRUE, specC12 |-> TRUE, specC13 |-> TRUE],l |-> 7]),
    ([v |-> [line |-> 7, kind |-> "static", conforms |-> TRUE, c12 |-> TRUE, returned |-> TRUE, c13 |-> TRUE, shape |-> TRUE, specC12 |-> TRUE, specC13 |-> TRUE],l |-> 8]),
    ([v |-> [line |-> 8, kind |-> "static", conforms |-> TRUE, c12 |-> TRUE, returned |-> TRUE, c13 |-> TRUE, shape |-> TRUE, specC12 |-> TRUE, specC13 |-> TRUE],l |-> 9]),
    ([v |-> [line |-> 9, kind |-> "serial", conforms |-> TRUE, c12 |-> TRUE, returned |-> TRUE, c13 |-> TRUE, shape |-> TRUE, specC12 |-> TRUE, specC13 |-> TRUE],l |-> 10]),
    ([v |-> [line |-> 10, kind |-> "static", conforms |-> TRUE, c12 |-> TRUE, returned |-> TRUE, c13 |-> TRUE, shape |-> TRUE, specC12 |-> TRUE, specC13 |-> TRUE],l |-> 11]),
    ([v |-> [line |-> 11, kind |-> "static", conforms |-> TRUE, c12 |-> TRUE, returned |-> TRUE, c13 |-> TRUE, shape |-> TRUE, specC12 |-> TRUE, specC13 |-> TRUE],l |-> 12]),
    ([v |-> [line |-> 12, kind |-> "static", conforms |-> FALSE, c12 |-> TRUE, returned |-> TRUE, c13 |-> FALSE, shape |-> FALSE, specC12 |-> TRUE, specC13 |-> TRUE],l |-> 13])
    >>
----


=============================================================================

---- CONFIG ParForTrace_TTrace_1790042920 ----
CONSTANTS
    OrigAlign = FALSE
    OrigCursor = FALSE

INVARIANT
    _inv

CHECK_DEADLOCK
    \* CHECK_DEADLOCK off because of PROPERTY or INVARIANT above.
    FALSE

INIT
    _init

NEXT
    _next

CONSTANT
    _TETrace <- _trace

ALIAS
    _expression
=============================================================================
\* Generated on Tue Sep 22 02:08:48 UTC 2026