\* C14/C48 E1: overlap-free schedules (completion, container size, plan invariants), medium domain
CONSTANTS
  Orig = {}
  PoolSizes = {0, 1, 3}
  Lens = {0, 1, 6}
  Modes = {"static", "auto", "chunk"}
  Chunks = {1, 3}
  MaxThreads = {0, 2, 5}
  Waits = {TRUE, FALSE}
  Grans = {1, 2}
  MinItems = {1}
  Reuses <- ReuseTwo
  InPool = TRUE
  SeqOnly = TRUE
SPECIFICATION Spec
CHECK_DEADLOCK TRUE
INVARIANTS OneBodyPerState StateExists StatesNonEmptyAfterReturn ConcurrencyBound PeakBound PlanBound SlotsDistinct OneBodyPerThread QuietAfterCompletion
