CONSTANTS
  OrigAlign = FALSE
  OrigCursor = FALSE
  W = 4
  Signs = {TRUE, FALSE}
  WideSame = {TRUE, FALSE}
  SStarts = {0, 1, 5, 7, 8, 9, 10}
  SLens = {0, 1, 2, 3, 4, 5, 6, 8}
  NWs = {1, 2, 3, 4}
  ChunkSizes = {1, 2, 3, 4}
  SGrans = {1, 2}
  MaxOver = 2
INIT Init
NEXT Next
CONSTRAINT OverBound
CHECK_DEADLOCK FALSE
INVARIANTS Disjoint CompleteAtExit ExitOnlyWhenExhausted AgreesWithClosure
