CONSTANTS
  OrigAlign = FALSE
  OrigCursor = FALSE
  W = 5
  Signs = {TRUE, FALSE}
  WideSame = {TRUE, FALSE}
  Starts <- AllOffsets
  Lens <- AllLens
  Modes = {"static", "auto", "chunk"}
  Chunks = {3}
  Pools <- PoolsSmall
  Waits = {TRUE, FALSE}
  MinItems = {1}
  Grans = {1, 3}
  Props = {"c12"}
  L3 = 1
  GSpan = 2
INIT Init
NEXT Next
CHECK_DEADLOCK FALSE
INVARIANTS NoArithmeticError NoLateClaim C12Partition
