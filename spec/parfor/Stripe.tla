------------------------------- MODULE Stripe -------------------------------
(* dispenso/detail/par_for_stripe.h: the adaptive ("stripe") work distribution of *)
(* parallel_for.                                                                   *)
(*                                                                                 *)
(* This module: alignDownStripe, initStripeState, stripeClaim as functions of the  *)
(*   cursor value, and the closure of one stripe under a sequence of claims        *)
(*   (claims on one cursor are totally ordered by its modification order, so the   *)
(*   bodies a stripe hands out are a function of the NUMBER of claims made).       *)
(* StripeWorkers.tla: the state machine of numWorkers concurrent runStripeWorker   *)
(*   loops over these operators, every interleaving.                               *)
(*                                                                                 *)
(* Variant switches (the repaired code is the default, FALSE/FALSE):               *)
(*   OrigAlign  = TRUE  stripe ends aligned to ABSOLUTE multiples of g             *)
(*                      (code before "fix: align stripe ends relative to start")   *)
(*   OrigCursor = TRUE  claim = unconditional fetch_add(chunkSize) on the cursor,  *)
(*                      chunk converted IntegerT -> Wide with sign extension       *)
(*                      (code before "fix: bounded stripe claims")                 *)
EXTENDS Chunking

CONSTANTS OrigAlign, OrigCursor

\* ---------------------------------------------------------------- alignDownStripe
\* value, result of type ty (sg: ty is a signed type).  [err, v]; err = division by zero.
AlignDownStripe(value, granularity, ty, sg) ==
  IF granularity <= 1 THEN [err |-> FALSE, v |-> value]
  ELSE LET g == Cast(granularity, ty)
       IN  IF g = 0 THEN [err |-> TRUE, v |-> value]
           ELSE LET d0 == Cast(TruncDiv(value, g), ty)
                    d  == IF sg /\ Cast(d0 * g, ty) # value /\ value < 0 THEN Cast(d0 - 1, ty) ELSE d0
                IN  [err |-> FALSE, v |-> Cast(d * g, ty)]

\* ---------------------------------------------------------------- initStripeState
\* p = [ty, wty, sg, start, end, nw, g, per]; stripe i (0-based) begins at `cursor`
StripeEndOf(p, i, cursor) ==
  IF i + 1 = p.nw THEN [err |-> FALSE, v |-> p.end]
  ELSE LET rel == Cast(Cast(i + 1, p.wty) * p.per, p.wty)
           a   == IF OrigAlign
                  THEN AlignDownStripe(Cast(Cast(Cast(p.start, p.wty) + rel, p.wty), p.ty), p.g, p.ty, p.sg)
                  ELSE LET r == AlignDownStripe(rel, p.g, p.wty, p.sg)
                       IN  [err |-> r.err, v |-> Cast(Cast(Cast(p.start, p.wty) + r.v, p.wty), p.ty)]
           se1 == IF a.v <= cursor THEN cursor ELSE a.v
           se2 == IF se1 >= p.end THEN p.end ELSE se1
       IN  [err |-> a.err, v |-> se2]

RECURSIVE StripeList(_, _, _, _)
StripeList(p, i, cursor, acc) ==
  IF i = p.nw THEN acc
  ELSE LET se == StripeEndOf(p, i, cursor)
       IN  StripeList(p, i + 1, se.v,
                      [err |-> acc.err \/ se.err, s |-> Append(acc.s, <<cursor, se.v>>)])

\* [err, s (sequence of <<begin, end>> per stripe), chunk (state.chunkSize, an IntegerT)]
InitStripes(ty, wty, sg, start, end, nw, chunkSize, g0) ==
  LET g   == Max(1, g0)
      tot == Cast(Cast(end, wty) - Cast(start, wty), wty)
      per == TruncDiv(tot, Cast(nw, wty))
      l   == StripeList([ty |-> ty, wty |-> wty, sg |-> sg, start |-> start, end |-> end,
                         nw |-> nw, g |-> g, per |-> per], 0, start, [err |-> FALSE, s |-> <<>>])
  IN  [err |-> l.err, s |-> l.s, chunk |-> chunkSize]

\* ---------------------------------------------------------------- stripeClaim
\* the chunk as the Wide value added to / compared with the cursor
ChunkWide(chunkSize, ty, wty) ==
  IF OrigCursor THEN Cast(chunkSize, wty)                 \* static_cast<Wide>(IntegerT): sign extension
  ELSE Cast(chunkSize % Card(ty), wty)    \* static_cast<Wide>(make_unsigned<IntegerT>(chunkSize))
\* one claim on a cursor whose value is `next`; stripe end `end` (both Wide).
\* [ok, next (new cursor), b, e]
Claim(next, end, cw, ty, wty) ==
  IF OrigCursor
  THEN LET nx == Cast(next + cw, wty)                      \* fetch_add, wraps in Wide
       IN  IF next >= end THEN [ok |-> FALSE, next |-> nx, b |-> 0, e |-> 0]
           ELSE [ok |-> TRUE, next |-> nx, b |-> Cast(next, ty),
                 e |-> Cast(IF nx > end THEN end ELSE nx, ty)]
  ELSE IF next >= end THEN [ok |-> FALSE, next |-> next, b |-> 0, e |-> 0]
       ELSE LET nx == IF Cast(end - next, wty) > cw THEN Cast(next + cw, wty) ELSE end
            IN  [ok |-> TRUE, next |-> nx, b |-> Cast(next, ty), e |-> Cast(nx, ty)]

\* Closure of one stripe: claims are made one after the other until (1 + extra) of them have
\* failed (extra = failing claims of other workers racing with the one that retires the stripe)
\* or more than cap bodies were handed out (runaway).  [bodies, fails, late]; late = a claim
\* succeeded after one had failed.
RECURSIVE SeqClaims(_, _, _, _, _)
SeqClaims(s, next, acc, fails, late) ==
  IF fails > s.extra \/ Len(acc) > s.cap THEN [bodies |-> acc, fails |-> fails, late |-> late]
  ELSE LET c == Claim(next, s.end, s.cw, s.ty, s.wty)
       IN  IF c.ok THEN SeqClaims(s, c.next, Append(acc, <<c.b, c.e>>), fails, late \/ fails > 0)
           ELSE SeqClaims(s, c.next, acc, fails + 1, late)

RECURSIVE ConcatAll(_)
ConcatAll(ss) == IF ss = <<>> THEN <<>> ELSE ss[1] \o ConcatAll(Tail(ss))

\* all stripes s (sequence of <<begin, end>>) with Wide chunk cw; extra failing claims per stripe
StripeBodiesW(s, cw, ty, wty, extra, cap) ==
  LET per == [i \in 1 .. Len(s) |->
                IF s[i][2] > s[i][1]      \* empty stripes are pre-retired, never claimed successfully
                THEN SeqClaims([end |-> Cast(s[i][2], wty), cw |-> cw, ty |-> ty, wty |-> wty,
                                extra |-> extra, cap |-> cap],
                               Cast(s[i][1], wty), <<>>, 0, FALSE)
                ELSE [bodies |-> <<>>, fails |-> 0, late |-> FALSE]]
  IN  [bodies |-> ConcatAll([i \in 1 .. Len(per) |-> per[i].bodies]),
       late |-> \E i \in 1 .. Len(per) : per[i].late,
       runaway |-> \E i \in 1 .. Len(per) : Len(per[i].bodies) > cap]
StripeBodies(init, ty, wty, extra, cap) ==
  StripeBodiesW(init.s, ChunkWide(init.chunk, ty, wty), ty, wty, extra, cap)
=============================================================================
