\* C15/C48 E1 (thorough): every interleaving
CONSTANTS
  Orig = {}
  PoolSizes = {0, 1, 2, 3}
  Lens = {0, 1, 2, 3, 5, 7}
  MaxThreads = {0, 1, 2, 3, 4}
  Waits = {TRUE, FALSE}
  Cats = {"ra", "bidi", "fwd"}
  SeqOnly = FALSE
SPECIFICATION Spec
CHECK_DEADLOCK TRUE
INVARIANTS NoDivZero PlanPartition AtMostOnce ExactlyOnceAtCompletion ConcurrencyBound PeakBound PlanBound OneBodyPerThread
