---------------------------- MODULE PipelineTrace ----------------------------
(* Trace validation for Pipeline.tla / Gate.tla.  Every step recorded from REAL pipelines running on   *)
(* the REAL ThreadPool under the controlled scheduler must be explained by the specification:          *)
(*  - an event whose site is the pc of the acting thread's top frame (Pl* hook sites, the driver's     *)
(*    DrOp / DrBody / DrGen / DrRet points, the completion event's FutexWait / FutexRet / FutexWake)   *)
(*    must be that action of Gate.tla / Pipeline.tla;                                                  *)
(*  - an event of any other site (pool internals, task-set internals) is a stuttering step, or the     *)
(*    start of a wrapped task on that thread (the step carries the lambda's PlRun* note and, for a     *)
(*    limited gate, the stage body's begin note), or the skipping of a wrapped task by a cancelled     *)
(*    set (outstandingTaskCount_ drops);                                                               *)
(*  - after EVERY event the projected words (per gate resources_, outstanding_, queue size; the task   *)
(*    set's outstandingTaskCount_, canceled_, has-exception; the completion status) must equal the     *)
(*    specification's;                                                                                 *)
(*  - the (item, stage) begin / end / throw notes logged INSIDE the stage bodies, the generator's      *)
(*    notes and the driver's return note (rethrown code, live payloads) must be the spec's.            *)
(* All invariants of C27 / C28 / C29 are evaluated in every state of every recorded execution.         *)
EXTENDS Pipeline, Json, IOUtils

TraceLog == ndJsonDeserialize(IOEnv.TRACE)
VARIABLE l
tvars == <<vars, l>>

PairSet(s) == {<<s[i][1], s[i][2]>> : i \in 1 .. Len(s)}
CfgOf(ev) == [n |-> ev.n, lim |-> ev.lim, p |-> ev.p, k |-> ev.k, filt |-> PairSet(ev.filt), thr |-> PairSet(ev.thr),
              maxd |-> ev.maxd, inl |-> TRUE, fix |-> (ev.fix = 1)]

TraceInit == l = 2 /\ TraceLog[1].e = "Reset" /\ InitWith(CfgOf(TraceLog[1]))

ResetTo(c) ==
  /\ cfg' = c
  /\ gate' = [g \in 1 .. c.n |-> [res |-> c.lim[g + 1], out |-> 0, q |-> {}]]
  /\ poolq' = {} /\ otc' = 0 /\ canceled' = FALSE /\ exc' = 0 /\ genLeft' = 0 /\ nextItem' = 0
  /\ stk' = [t \in Threads |-> IF t = "main" THEN <<Frame("main", "DrOp", 0, 0)>> ELSE <<>>]
  /\ depth' = [t \in Threads |-> 0]
  /\ runs' = [x \in (0 .. c.n) \X (1 .. c.k) |-> 0]
  /\ infl' = [s \in 0 .. c.n |-> 0]
  /\ done' = {} /\ thrown' = {} /\ leaked' = {} /\ result' = -2
  /\ bad' = bad \ {"input"}         \* (observed deadlocks / payload errors stay recorded)

\* the event a thread's next own step must carry
ExpectedSite(t) == IF stk[t] = <<>> THEN "idle" ELSE IF Top(t).pc = "CtsLoop" THEN "DrRet" ELSE Top(t).pc

Dispatch(e, t) ==
  CASE e = "DrOp" -> DrOp(t) [] e = "PlGenSubmit" -> PlGenSubmit(t) [] e = "PlWaitGen" -> PlWaitGen(t)
    [] e = "FutexWait" -> FutexWait(t) [] e = "FutexRet" -> FutexRet(t) [] e = "PlWaitCts" -> PlWaitCts(t)
    [] e = "DrRet" -> DrRet(t)
    [] e = "PlGenHasExc" -> PlGenHasExc(t) [] e = "DrGen" -> DrGen(t) [] e = "PlGenDone" -> PlGenDone(t)
    [] e = "FutexWake" -> FutexWake(t)
    [] e = "PlSchIncOut" -> PlSchIncOut(t) [] e = "PlSchUnl" -> PlSchUnl(t) [] e = "PlSchEnq" -> PlSchEnq(t)
    [] e = "PlSchAcq" -> PlSchAcq(t) [] e = "PlSchDeq" -> PlSchDeq(t) [] e = "PlSchSubmit" -> PlSchSubmit(t)
    [] e = "PlSchRel" -> PlSchRel(t)
    [] e = "PlUnlHasExc" -> PlUnlHasExc(t) [] e = "DrBody" -> DrBody(t) [] e = "PlCbDeq" -> PlCbDeq(t)
    [] e = "PlCbSubmit" -> PlCbSubmit(t) [] e = "PlCbRel" -> PlCbRel(t) [] e = "PlCatch" -> PlCatch(t)
    [] e = "PlGuardRel" -> PlGuardRel(t) [] e = "PlDecOut" -> PlDecOut(t)
    [] e = "PlWtLoadOut" -> PlWtLoadOut(t) [] e = "PlWtHasExc" -> PlWtHasExc(t) [] e = "PlWtDiscDeq" -> PlWtDiscDeq(t)
    [] e = "PlWtDiscDec" -> PlWtDiscDec(t) [] e = "PlWtDeq" -> PlWtDeq(t) [] e = "PlWtAcq" -> PlWtAcq(t)
    [] e = "PlWtAcqUndo" -> PlWtAcqUndo(t) [] e = "PlWtAcqExc" -> PlWtAcqExc(t) [] e = "PlWtAcqDec" -> PlWtAcqDec(t)
    [] e = "PlWtSubmit" -> PlWtSubmit(t)
    [] e = "PlWuLoadOut" -> PlWuLoadOut(t) [] e = "PlWuHasExc" -> PlWuHasExc(t) [] e = "PlWuDeq" -> PlWuDeq(t)
    [] OTHER -> FALSE

\* ------------------------------------------------------------------ notes
\* (futex events of pool workers carry plain numbers; they never carry notes of ours)
Notes(ev) == IF ev.e \in {"FutexWait", "FutexRet", "FutexTimeout", "FutexSpurious"} THEN <<>> ELSE ev.r
Tagged(ev, tag) == {i \in 1 .. Len(Notes(ev)) : Notes(ev)[i][1] = tag}
NT(s) == Cardinality({i \in 1 .. Len(s) : s[i].k \in {"task", "gen"}})

NotesOK(ev, t) ==
  LET ns == Notes(ev)
      begins == {<<ns[i][3] \div 10, ns[i][2]>> : i \in Tagged(ev, "begin")}
      ends == {<<ns[i][3], ns[i][2]>> : i \in Tagged(ev, "end")}
      throws == {<<ns[i][3], ns[i][2]>> : i \in Tagged(ev, "throw")}
      gens == {ns[i][2] : i \in Tagged(ev, "gen")}
      gthrows == {ns[i][2] : i \in Tagged(ev, "gthrow")}
      runNotes == Cardinality(Tagged(ev, "PlRunL") \cup Tagged(ev, "PlRunU") \cup Tagged(ev, "PlRunG"))
      body == ev.e = "DrBody" /\ ExpectedSite(t) = "DrBody"
      f == Top(t)
  IN
  \* the bodies that began in this step are the ones the specification starts, each fed its predecessor's output
  /\ begins = {x \in DOMAIN runs : x[1] >= 1 /\ runs'[x] > runs[x]}
  /\ \A i \in Tagged(ev, "begin") : ns[i][3] % 10 = (ns[i][3] \div 10) - 1
  /\ gens = {x[2] : x \in {y \in DOMAIN runs : y[1] = 0 /\ runs'[y] > runs[y]}}
  \* the body that ended / threw in this step is the one the specification ends
  /\ ends = (IF body /\ <<f.g, f.it>> \notin cfg.thr THEN {<<f.g, f.it>>} ELSE {})
  /\ throws = (IF body /\ <<f.g, f.it>> \in cfg.thr THEN {<<f.g, f.it>>} ELSE {})
  /\ gthrows = (thrown' \ thrown) \cap (1 .. 9)
  /\ Cardinality(Tagged(ev, "gbegin")) = (IF infl'[0] > infl[0] THEN 1 ELSE 0)
  \* a queued lambda started in this step iff the specification pushed a task / generator frame
  /\ runNotes = (IF NT(stk'[t]) > NT(stk[t]) THEN 1 ELSE 0)
  \* return of pipeline(): rethrown code and the number of item ids that still have live payload objects
  /\ (Tagged(ev, "ret") # {} <=> (result' # -2 /\ result = -2))
  /\ \A i \in Tagged(ev, "ret") : ns[i][2] = result' /\ ns[i][3] = Cardinality(leaked')
  /\ \A i \in Tagged(ev, "live") : ns[i][3] = 0 /\ ns[i][2] = Cardinality(leaked')

\* ------------------------------------------------------------------ projection
ProjOK(ev) ==
  ev.s.alive = 1 =>
    /\ ev.s.otc = otc'
    /\ ev.s.can = (IF canceled' THEN 1 ELSE 0)
    /\ ev.s.exc = (IF exc' # 0 THEN 1 ELSE 0)
    /\ (cfg.n > 0 => ev.s.gl = genLeft')
    /\ Len(ev.s.g) = cfg.n
    /\ \A g \in 1 .. cfg.n : /\ ev.s.g[g][1] = gate'[g].res
                             /\ ev.s.g[g][2] = gate'[g].out
                             /\ ev.s.g[g][3] = Cardinality(gate'[g].q)

TraceStep ==
  /\ l <= Len(TraceLog)
  /\ LET ev == TraceLog[l] IN
       \/ /\ ev.e = "Reset"
          /\ ResetTo(CfgOf(ev))
       \/ /\ ev.e = "Deadlock"
          \* (a report that lists a thread parked at a point (state 2) is an artefact of the controller's
          \*  two-scan deadlock detection racing with a thread leaving a real join: not a deadlock)
          /\ bad' = (IF \E i \in 1 .. Len(ev.threads) : ev.threads[i][2] = 2 THEN bad ELSE bad \cup {"Deadlock"})
          /\ UNCHANGED <<gvars, runs, infl, done, thrown, leaked, result>>
       \/ /\ ev.e \notin {"Reset", "Deadlock", "Diverged"}
          /\ ev.t \in Threads
          /\ IF ev.e = ExpectedSite(ev.t)
               THEN Dispatch(ev.e, ev.t)
               ELSE \/ Notes(ev) = <<>> /\ UNCHANGED vars
                    \/ \E task \in poolq : Notes(ev) # <<>> /\ TaskStart(ev.t, task)
                    \/ \E task \in poolq : Notes(ev) = <<>> /\ TaskSkip(ev.t, task)
          /\ NotesOK(ev, ev.t)
          /\ ProjOK(ev)
  /\ l' = l + 1

TraceSpec == TraceInit /\ [][TraceStep]_tvars

NoDeadlockObserved == "Deadlock" \notin bad

TraceAccepted ==
  LET d == TLCGet("stats").diameter IN
  IF d = Len(TraceLog) THEN TRUE
  ELSE /\ PrintT(<<"TRACE_REJECTED_AT_LINE", d + 1, "OF", Len(TraceLog)>>)
       /\ PrintT(<<"OFFENDING", TraceLog[d + 1]>>)
       /\ FALSE
=============================================================================
