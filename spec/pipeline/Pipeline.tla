------------------------------ MODULE Pipeline ------------------------------
(* dispenso::pipeline(): generator instances, chained LimitGatedSchedulers (Gate.tla), the caller's  *)
(* chain of waits, the ConcurrentTaskSet (packageTask, cancellation on exception, wait + rethrow)     *)
(* over an abstract pool.  Sites of this module:                                                      *)
(*   DrOp         the driver calls pipeline(): makePipes, pipes.execute()                             *)
(*   PlGenSubmit  tasks_.schedule(generator instance)                                                 *)
(*   PlGenHasExc  generator loop: tasks_.hasException()                                               *)
(*   DrGen        inside the generator functor (claims the next item, ends, or throws)                *)
(*   PlGenDone    CompletionGuard: completion status fetch_sub; last one: notify -> FutexWake         *)
(*   PlWaitGen    completion_->wait(0): status load; FutexWait / FutexRet (modelled futex)            *)
(*   PlWaitCts    tasks_.wait(): help until otc = 0 (pc CtsLoop), rethrow; DrRet = back in the driver *)
(* A one-stage pipeline (cfg.n = 0) has only "generator" instances calling the single stage.          *)
EXTENDS Gate

Workers == {t \in Threads : t # "main"}
WIdx(t) == CASE t = "w0" -> 0 [] t = "w1" -> 1 [] t = "w2" -> 2 [] t = "w3" -> 3 [] OTHER -> 99
Active(t) == t = "main" \/ WIdx(t) < cfg.p

GenTask(i, t) == [k |-> "gen", g |-> 0, it |-> i, by |-> (IF cfg.p = 0 THEN t ELSE "any")]

InitWith(c) ==
  /\ cfg = c
  /\ gate = [g \in 1 .. c.n |-> [res |-> c.lim[g + 1], out |-> 0, q |-> {}]]
  /\ poolq = {} /\ otc = 0 /\ canceled = FALSE /\ exc = 0 /\ genLeft = 0 /\ nextItem = 0
  /\ stk = [t \in Threads |-> IF t = "main" THEN <<Frame("main", "DrOp", 0, 0)>> ELSE <<>>]
  /\ depth = [t \in Threads |-> 0]
  /\ runs = [x \in (0 .. c.n) \X (1 .. c.k) |-> 0]
  /\ infl = [s \in 0 .. c.n |-> 0]
  /\ done = {} /\ thrown = {} /\ leaked = {} /\ bad = {} /\ result = -2

\* ================================================================== the caller (thread main)
DrOp(t) ==
  /\ MainStep(t, "DrOp")
  /\ LET f == Top(t) IN
       /\ genLeft' = (IF Single THEN 0 ELSE NGen)
       /\ stk' = [stk EXCEPT ![t] = SetTop(@, [f EXCEPT !.pc = IF NGen = 0 THEN "PlWaitCts" ELSE "PlGenSubmit", !.it = 0])]
  /\ UNCHANGED <<cfg, gate, poolq, otc, canceled, exc, nextItem, depth>> /\ NoGhost

PlGenSubmit(t) ==        \* generator instances are always wrapped (the pool is not overloaded at this point)
  /\ MainStep(t, "PlGenSubmit")
  /\ LET f == Top(t) IN
       /\ otc' = otc + 1
       /\ poolq' = poolq \cup {GenTask(f.it, t)}
       /\ stk' = [stk EXCEPT ![t] = SetTop(@, [f EXCEPT !.it = f.it + 1,
                     !.pc = IF f.it + 1 < NGen THEN "PlGenSubmit" ELSE IF Single THEN "PlWaitCts" ELSE "PlWaitGen"])]
  /\ UNCHANGED <<cfg, gate, canceled, exc, genLeft, nextItem, depth>> /\ NoGhost

\* status reload of CompletionEventImpl::wait(0): done -> first gate's wait, else futex wait on the value seen
Reload(t, f) ==
  IF genLeft = 0 THEN GotoWait(t, f, 1)
  ELSE stk' = [stk EXCEPT ![t] = SetTop(@, [f EXCEPT !.pc = "FutexWait", !.d = genLeft])]

PlWaitGen(t) ==
  /\ MainStep(t, "PlWaitGen")
  /\ Reload(t, Top(t))
  /\ UNCHANGED <<cfg, gate, poolq, otc, canceled, exc, genLeft, nextItem, depth>> /\ NoGhost

FutexWait(t) ==          \* blocks iff the word still has the value seen
  /\ MainStep(t, "FutexWait")
  /\ LET f == Top(t) IN IF genLeft = f.d THEN Goto(t, f, "FutexBlocked") ELSE Reload(t, f)
  /\ UNCHANGED <<cfg, gate, poolq, otc, canceled, exc, genLeft, nextItem, depth>> /\ NoGhost

FutexRet(t) ==
  /\ MainStep(t, "FutexRet")
  /\ Reload(t, Top(t))
  /\ UNCHANGED <<cfg, gate, poolq, otc, canceled, exc, genLeft, nextItem, depth>> /\ NoGhost

PlWaitCts(t) ==          \* ConcurrentTaskSet::wait(): steal and run until otc = 0
  /\ MainStep(t, "PlWaitCts")
  /\ stk' = [stk EXCEPT ![t] = SetTop(@, [Top(t) EXCEPT !.pc = "CtsLoop", !.h = TRUE])]
  /\ UNCHANGED <<cfg, gate, poolq, otc, canceled, exc, genLeft, nextItem, depth>> /\ NoGhost

\* wait() saw otc = 0: testAndResetException rethrows the first exception; ~pipes, ~ConcurrentTaskSet;
\* the driver is back in control.  Without the fix, OnceFunctions still in a gate's queue_ are never destroyed.
DrRet(t) ==
  /\ MainStep(t, "CtsLoop")
  /\ otc = 0
  /\ result' = (IF exc # 0 THEN exc ELSE -1)
  /\ leaked' = (IF cfg.fix THEN leaked ELSE leaked \cup UNION {gate[g].q : g \in Gates})
  /\ stk' = [stk EXCEPT ![t] = SetTop(@, [Top(t) EXCEPT !.pc = "Done", !.h = FALSE])]
  /\ UNCHANGED <<cfg, gate, poolq, otc, canceled, exc, genLeft, nextItem, depth, runs, infl, done, thrown, bad>>

\* ================================================================== generator instances (frame "gen")
\* the loop ends: multi-stage -> CompletionGuard (PlGenDone); single stage -> the lambda returns at once
GenEnd(t, f, x) ==
  IF Single THEN Finish(t, [f EXCEPT !.x = x])
  ELSE IF cfg.fix THEN
       \* fixed: the lambda returns / throws into the packageTask wrapper first (catch, otc-1); the
       \* CompletionSignal captured by the closure fires when the closure is destroyed (PlGenDone)
       /\ (IF x # 0 THEN TrySet(x) ELSE UNCHANGED <<exc, canceled>>)
       /\ otc' = otc - 1
       /\ stk' = [stk EXCEPT ![t] = SetTop(@, [f EXCEPT !.pc = "PlGenDone", !.x = 0, !.w = FALSE])]
       /\ UNCHANGED depth
  ELSE /\ stk' = [stk EXCEPT ![t] = SetTop(@, [f EXCEPT !.pc = "PlGenDone", !.x = x])]
       /\ UNCHANGED <<exc, canceled, otc, depth>>

\* end of a generator frame at / after its completion signal: the wrapper's end, unless already done
GenFinish(t, f) ==
  /\ (IF f.w /\ f.x # 0 THEN TrySet(f.x) ELSE UNCHANGED <<exc, canceled>>)
  /\ otc' = (IF f.w THEN otc - 1 ELSE otc)
  /\ UNCHANGED depth

AtGen(t, pc) == stk[t] # <<>> /\ Top(t).k \in {"gen", "gsig"} /\ Top(t).pc = pc

PlGenHasExc(t) ==
  /\ At(t, "gen", "PlGenHasExc") /\ ~Pending(t)
  /\ LET f == Top(t) IN
       IF exc # 0 THEN GenEnd(t, f, 0) /\ UNCHANGED infl
       ELSE /\ stk' = [stk EXCEPT ![t] = SetTop(@, [f EXCEPT !.pc = "DrGen"])]
            /\ infl' = [infl EXCEPT ![0] = @ + 1]
            /\ UNCHANGED <<exc, canceled, otc, depth>>
  /\ UNCHANGED <<cfg, gate, poolq, genLeft, nextItem, runs, done, thrown, leaked, bad, result>>

DrGen(t) ==
  /\ At(t, "gen", "DrGen") /\ ~Pending(t)
  /\ infl' = [infl EXCEPT ![0] = @ - 1]
  /\ LET f == Top(t) it == nextItem + 1 IN
       IF nextItem >= cfg.k THEN GenEnd(t, f, 0) /\ UNCHANGED <<nextItem, runs, done, thrown>>
       ELSE
         /\ nextItem' = it
         /\ IF <<0, it>> \in cfg.thr THEN
              /\ thrown' = thrown \cup {Code(0, it)}
              /\ GenEnd(t, f, Code(0, it))
              /\ UNCHANGED <<runs, done>>
            ELSE
              /\ runs' = [runs EXCEPT ![<<0, it>>] = @ + 1]
              /\ done' = done \cup {<<0, it>>}
              /\ stk' = [stk EXCEPT ![t] = IF Single THEN SetTop(@, [f EXCEPT !.pc = "PlGenHasExc"])
                                           ELSE Append(SetTop(@, [f EXCEPT !.pc = "PlGenHasExc"]), SchFrame(1, it))]
              /\ UNCHANGED <<exc, canceled, otc, depth, thrown>>
  /\ UNCHANGED <<cfg, gate, poolq, genLeft, leaked, bad, result>>

PlGenDone(t) ==
  /\ AtGen(t, "PlGenDone") /\ ~Pending(t)
  /\ genLeft' = genLeft - 1
  /\ LET f == Top(t) IN
       IF genLeft = 1 THEN /\ stk' = [stk EXCEPT ![t] = SetTop(@, [f EXCEPT !.pc = "FutexWake"])]   \* notify(0)
                           /\ UNCHANGED <<exc, canceled, otc, depth>>
       ELSE GenFinish(t, f) /\ stk' = [stk EXCEPT ![t] = Pop(@)]
  /\ UNCHANGED <<cfg, gate, poolq, nextItem>> /\ NoGhost

FutexWake(t) ==          \* FUTEX_WAKE(INT_MAX): the caller, if blocked, resumes at FutexRet
  /\ AtGen(t, "FutexWake") /\ ~Pending(t)
  /\ LET f == Top(t)
         s1 == Pop(stk[t])
         mf == stk["main"][Len(stk["main"])]
         wake == t # "main" /\ mf.k = "main" /\ mf.pc = "FutexBlocked" IN
       /\ GenFinish(t, f)
       /\ stk' = [stk EXCEPT ![t] = s1,
                             !["main"] = IF wake THEN SetTop(@, [mf EXCEPT !.pc = "FutexRet"]) ELSE IF t = "main" THEN s1 ELSE @]
  /\ UNCHANGED <<cfg, gate, poolq, genLeft, nextItem>> /\ NoGhost

\* ================================================================== the abstract pool
\* who may take a wrapped task: the submitter itself (zero-thread pool), an idle worker, or the
\* caller while it helps (tasks_.tryExecuteNext in the gate waits: one task; ConcurrentTaskSet::wait: any number)
MayTake(t, task) ==
  /\ task \in poolq
  /\ Active(t)
  /\ \/ task.by = t
     \/ task.by = "any" /\ t # "main" /\ stk[t] = <<>>
     \/ task.by = "any" /\ stk[t] # <<>> /\ Top(t).k = "main" /\ Top(t).h
HelpUsed(t) ==           \* stack of t after one help opportunity was used
  IF stk[t] # <<>> /\ Top(t).k = "main" /\ Top(t).pc # "CtsLoop" THEN SetTop(stk[t], [Top(t) EXCEPT !.h = FALSE]) ELSE stk[t]

\* packageTask wrapper: set not cancelled -> f()
TaskStart(t, task) ==
  /\ MayTake(t, task)
  /\ ~canceled
  /\ poolq' = poolq \ {task}
  /\ IF task.k = "gen"
       THEN /\ stk' = [stk EXCEPT ![t] = Append(HelpUsed(t), [Frame("gen", "PlGenHasExc", 0, task.it) EXCEPT !.w = TRUE])]
            /\ GNoBegin
       ELSE /\ stk' = [stk EXCEPT ![t] = Append(HelpUsed(t), TaskFrame(task.g, task.it, TRUE))]
            /\ LaunchGhost(task.g, task.it)
  /\ UNCHANGED <<cfg, gate, otc, canceled, exc, genLeft, nextItem, depth, done, thrown, leaked, result>>

\* packageTask wrapper: set cancelled -> f is NOT invoked.  An f that is a OnceFunction (limited gate:
\* the dequeued func) is then never destroyed: its closure (the item) leaks.  lambdaU and the generator
\* lambda are plain closures destroyed with the wrapper.
TaskSkip(t, task) ==
  /\ MayTake(t, task)
  /\ canceled
  /\ poolq' = poolq \ {task}
  /\ otc' = otc - 1
  \* fixed: the skipped generator closure is destroyed right after the wrapper returns and its
  \* CompletionSignal fires (frame "gsig" at PlGenDone).  Unfixed: the completion count is never
  \* decremented for a skipped instance and the caller blocks in completion_->wait(0) forever.
  /\ stk' = [stk EXCEPT ![t] = IF task.k = "gen" /\ cfg.fix /\ ~Single
                                  THEN Append(HelpUsed(t), Frame("gsig", "PlGenDone", 0, task.it))
                                  ELSE HelpUsed(t)]
  /\ leaked' = (IF task.k = "item" /\ ~IsUnl(task.g) /\ ~cfg.fix THEN leaked \cup {task.it} ELSE leaked)
  /\ UNCHANGED <<cfg, gate, canceled, exc, genLeft, nextItem, depth, runs, infl, done, thrown, bad, result>>

Terminated ==            \* stutter at the end so that TLC's deadlock check flags every other dead end
  /\ result # -2 /\ \A t \in Workers : stk[t] = <<>>
  /\ UNCHANGED vars

Next ==
  \/ \E t \in Threads :
       \/ DrOp(t) \/ PlGenSubmit(t) \/ PlWaitGen(t) \/ FutexWait(t) \/ FutexRet(t) \/ PlWaitCts(t) \/ DrRet(t)
       \/ PlGenHasExc(t) \/ DrGen(t) \/ PlGenDone(t) \/ FutexWake(t)
       \/ PlSchIncOut(t) \/ PlSchUnl(t) \/ PlSchEnq(t) \/ PlSchAcq(t) \/ PlSchDeq(t) \/ PlSchSubmit(t) \/ PlSchRel(t)
       \/ PlUnlHasExc(t) \/ DrBody(t) \/ PlCbDeq(t) \/ PlCbSubmit(t) \/ PlCbRel(t) \/ PlCatch(t) \/ PlGuardRel(t) \/ PlDecOut(t)
       \/ PlWtLoadOut(t) \/ PlWtHasExc(t) \/ PlWtDiscDeq(t) \/ PlWtDiscDec(t) \/ PlWtDeq(t) \/ PlWtAcq(t)
       \/ PlWtAcqUndo(t) \/ PlWtAcqExc(t) \/ PlWtAcqDec(t) \/ PlWtSubmit(t)
       \/ PlWuLoadOut(t) \/ PlWuHasExc(t) \/ PlWuDeq(t)
       \/ \E task \in poolq : TaskStart(t, task) \/ TaskSkip(t, task)
  \/ Terminated

ThreadNext(t) ==
  \/ DrOp(t) \/ PlGenSubmit(t) \/ PlWaitGen(t) \/ FutexWait(t) \/ FutexRet(t) \/ PlWaitCts(t) \/ DrRet(t)
  \/ PlGenHasExc(t) \/ DrGen(t) \/ PlGenDone(t) \/ FutexWake(t)
  \/ PlSchIncOut(t) \/ PlSchUnl(t) \/ PlSchEnq(t) \/ PlSchAcq(t) \/ PlSchDeq(t) \/ PlSchSubmit(t) \/ PlSchRel(t)
  \/ PlUnlHasExc(t) \/ DrBody(t) \/ PlCbDeq(t) \/ PlCbSubmit(t) \/ PlCbRel(t) \/ PlCatch(t) \/ PlGuardRel(t) \/ PlDecOut(t)
  \/ PlWtLoadOut(t) \/ PlWtHasExc(t) \/ PlWtDiscDeq(t) \/ PlWtDiscDec(t) \/ PlWtDeq(t) \/ PlWtAcq(t)
  \/ PlWtAcqUndo(t) \/ PlWtAcqExc(t) \/ PlWtAcqDec(t) \/ PlWtSubmit(t)
  \/ PlWuLoadOut(t) \/ PlWuHasExc(t) \/ PlWuDeq(t)
  \/ \E task \in poolq : TaskStart(t, task) \/ TaskSkip(t, task)

\* ================================================================== properties
Returned == result # -2
Clean == Returned /\ result = -1
Reaches(s, it) == \A s2 \in 1 .. (s - 1) : <<s2, it>> \notin cfg.filt

\* ---- C27
AtMostOnce == \A x \in DOMAIN runs : runs[x] <= 1
InputIsPredecessorsOutput == "input" \notin bad
\* pipeline() returned normally => every generated item went through exactly the stages it reaches,
\* nothing is left in any queue, every counter is back at rest
AllDelivered ==
  Clean => /\ nextItem = cfg.k
           /\ \A s \in 0 .. cfg.n : \A it \in Items : runs[<<s, it>>] = (IF Reaches(s, it) THEN 1 ELSE 0)
           /\ \A s \in 0 .. cfg.n : \A it \in Items : (runs[<<s, it>>] = 1) <=> (<<s, it>> \in done)
           /\ \A g \in Gates : gate[g].q = {} /\ gate[g].out = 0 /\ gate[g].res = Lim(g)
\* a one-stage pipeline must call its stage even on a zero-thread pool
SingleRuns == (Clean /\ Single) => nextItem = cfg.k

\* ---- C28
LimitRespected ==
  /\ \A g \in Gates : infl[g] <= Lim(g)
  /\ infl[0] <= Lim(0) /\ infl[0] <= Max2(1, cfg.p)

\* ---- C29
\* rethrows iff something was thrown, and then the exception that won trySetCurrentException
RethrowsFirst == Returned => /\ (result = -1) <=> (thrown = {})
                             /\ (result # -1 => result \in thrown /\ result = exc)
NoLeak == Returned => leaked = {}
\* the pool is usable afterwards: nothing of this pipeline is left in it, no worker is still inside it
\* (with the fixed generator a worker may still be inside the last CompletionSignal's notify(): it touches
\*  only the shared completion event, nothing of the pipeline or the task set)
SignalTail(t) == Len(stk[t]) = 1 /\ Top(t).k \in {"gen", "gsig"} /\ ~Top(t).w /\ Top(t).pc = "FutexWake"
PoolClean == Returned => poolq = {} /\ otc = 0 /\ \A t \in Workers : stk[t] = <<>> \/ SignalTail(t)
\* items still in a local queue at return are destroyed by the (fixed) destructor; their count is reported
LeftInQueues == UNION {gate[g].q : g \in Gates}

TypeOK ==
  /\ otc >= 0 /\ genLeft >= 0 /\ nextItem \in 0 .. cfg.k
  /\ \A t \in Threads : depth[t] \in 0 .. cfg.maxd
  /\ \A s \in 0 .. cfg.n : infl[s] >= 0

\* ---- termination (checked with fairness in the small liveness configurations)
Fairness == \A t \in Threads : WF_vars(ThreadNext(t))
Terminates == <>Returned
=============================================================================
