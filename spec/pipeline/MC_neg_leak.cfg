CONSTANTS
  Threads = {"main", "w0", "w1"}
  MCcfg <- S_leak
INIT Init
NEXT Next
CHECK_DEADLOCK TRUE
INVARIANTS TypeOK GateSane AtMostOnce InputIsPredecessorsOutput AllDelivered SingleRuns LimitRespected RethrowsFirst NoLeak PoolClean
