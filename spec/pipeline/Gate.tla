-------------------------------- MODULE Gate --------------------------------
(* dispenso::detail::LimitGatedScheduler::Impl (dispenso/detail/pipeline_impl.h), step by step.   *)
(*                                                                                                  *)
(* One action per atomic access / queue call of the gate; the action name is the hook site          *)
(* (DISPENSO_VERIF_POINT) placed immediately before that access:                                    *)
(*   schedule():  PlSchIncOut  outstanding_.fetch_add                                               *)
(*                PlSchUnl     tasks_.schedule(lambdaU)             (unlimited gate, then return)   *)
(*                PlSchEnq     queue_.enqueue(lambdaL)                                              *)
(*                PlSchAcq     resources_.fetch_sub(1) > 0 ?        (acquire loop head)             *)
(*                PlSchDeq     queue_.try_dequeue                                                   *)
(*                PlSchSubmit  tasks_.schedule(func)                                                *)
(*                PlSchRel     resources_.fetch_add(1)              (undo of the failed acquire)    *)
(*   lambdaL:     DrBody       the user's stage function (a point inside the body)                  *)
(*                PlCbDeq      completion callback: queue_.try_dequeue (serial: inline func())      *)
(*                PlCbSubmit   tasks_.schedule(func [, ForceQueuingTag])                            *)
(*                PlCbRel      resources_.fetch_add(1)                                              *)
(*                PlCatch      tasks_.trySetCurrentException()                                      *)
(*                PlGuardRel   ~ResourceGuard (armed): resources_.fetch_add(1)                      *)
(*                PlDecOut     ~OutstandingGuard: outstanding_.fetch_sub(1)                         *)
(*   lambdaU:     PlUnlHasExc  tasks_.hasException(), DrBody, PlDecOut                              *)
(*   wait():      PlWtLoadOut PlWtHasExc PlWtDiscDeq PlWtDiscDec PlWtDeq PlWtAcq PlWtAcqUndo        *)
(*                PlWtAcqExc PlWtAcqDec PlWtSubmit  (limited)   PlWuLoadOut PlWuHasExc PlWuDeq      *)
(*                                                                                                  *)
(* Threads are C++ threads with a call STACK of frames (inline execution nests: a task that the    *)
(* ConcurrentTaskSet decides to run inline, the serial stage's inline continuation, a task stolen   *)
(* by the waiting caller).  The ConcurrentTaskSet and the pool are abstract: packageTask increments *)
(* otc (outstandingTaskCount_) and puts the wrapped task into the bag poolq; any idle worker or a   *)
(* helping waiter starts it (TaskStart) unless the set is cancelled (TaskSkip).  moodycamel's       *)
(* queue is a linearizable bag.  This module holds the variables and the gate's own actions;        *)
(* Pipeline.tla adds the generator, the chaining of waits, the abstract pool and Next.             *)
EXTENDS Integers, Sequences, FiniteSets, TLC

CONSTANT Threads          \* {"main", "w0", "w1", ...} (constant superset; workers >= cfg.p never act)

VARIABLES
  cfg,      \* configuration record (constant during a pipeline run; a variable so that one trace can hold many runs)
  gate,     \* gate[g] = [res, out, q]   resources_, outstanding_, local queue_ (bag of item ids)   g \in 1..cfg.n
  poolq,    \* bag of wrapped tasks handed to the pool
  otc,      \* ConcurrentTaskSet::outstandingTaskCount_
  canceled, \* ConcurrentTaskSet::canceled_
  exc,      \* first captured exception code (0 = none): guardException_ / exception_
  genLeft,  \* CompletionEventImpl status of the generator (instances still running)
  nextItem, \* the generator functor's item counter
  stk,      \* per thread: call stack (sequence of frames, top = last)
  depth,    \* per thread: PerThreadInfo::inlineDepth
  \* ---- ghosts
  runs,     \* runs[<<stage, item>>] = number of times the stage body began for the item
  infl,     \* infl[stage] = bodies of that stage currently executing (stage 0 = generator functor)
  done,     \* {<<stage, item>>}: the stage produced its output for the item
  thrown,   \* codes of the exceptions thrown so far
  leaked,   \* items whose payload can no longer be destroyed
  bad,      \* set of strings: protocol violations observed by ghost bookkeeping
  result    \* -2 = pipeline() not returned; -1 = returned normally; c > 0: rethrew exception c

gvars == <<cfg, gate, poolq, otc, canceled, exc, genLeft, nextItem, stk, depth>>
hvars == <<runs, infl, done, thrown, leaked, bad, result>>
vars == <<gvars, hvars>>

Unl == 99                                     \* encoding of kStageNoLimit
Lim(s) == cfg.lim[s + 1]                      \* stage limit (already max(1, limit))
IsUnl(g) == Lim(g) = Unl
Items == 1 .. cfg.k
Gates == 1 .. cfg.n
Code(s, it) == s * 10 + it                    \* exception identity
Max2(a, b) == IF a > b THEN a ELSE b
Min2(a, b) == IF a < b THEN a ELSE b
Single == cfg.n = 0                           \* one-stage pipeline (Pipe<kSingleStage>)
\* (before the fix a one-stage pipeline scheduled min(p, limit) instances: none on a zero-thread pool)
NGen == IF Single /\ ~cfg.fix THEN Min2(cfg.p, Lim(0)) ELSE Max2(1, Min2(cfg.p, Lim(0)))

Frame(k, pc, g, it) == [k |-> k, pc |-> pc, g |-> g, it |-> it, d |-> 0, w |-> FALSE, x |-> 0, h |-> FALSE, a |-> FALSE]
TaskFrame(g, it, w) ==
  [Frame("task", (IF IsUnl(g) THEN "PlUnlHasExc" ELSE "DrBody"), g, it) EXCEPT !.w = w, !.a = TRUE]
SchFrame(g, it) == Frame("sch", "PlSchIncOut", g, it)

Top(t) == stk[t][Len(stk[t])]
SetTop(s, f) == [s EXCEPT ![Len(s)] = f]
Pop(s) == SubSeq(s, 1, Len(s) - 1)
At(t, k, pc) == stk[t] # <<>> /\ Top(t).k = k /\ Top(t).pc = pc
\* forceEnqueue with numThreads == 0 runs the wrapped task on the submitting thread: such a task
\* is bound to its submitter, who can do nothing else first
Pending(t) == \E task \in poolq : task.by = t
Site(t) == IF stk[t] = <<>> THEN "idle" ELSE Top(t).pc

ItemTask(g, it, t) == [k |-> "item", g |-> g, it |-> it, by |-> (IF cfg.p = 0 THEN t ELSE "any")]

\* ------------------------------------------------------------------ ghost bookkeeping
InputOK(g, it) == <<g - 1, it>> \in done /\ <<g - 1, it>> \notin cfg.filt
GBegin(g, it) ==
  /\ runs' = [runs EXCEPT ![<<g, it>>] = @ + 1]
  /\ infl' = [infl EXCEPT ![g] = @ + 1]
  /\ bad' = (IF InputOK(g, it) THEN bad ELSE bad \cup {"input"})
GNoBegin == UNCHANGED <<runs, infl, bad>>
\* the lambda of a limited gate enters the stage body at once; lambdaU first checks hasException
LaunchGhost(g, it) == IF IsUnl(g) THEN GNoBegin ELSE GBegin(g, it)

TrySet(c) == IF exc = 0 THEN exc' = c /\ canceled' = TRUE ELSE UNCHANGED <<exc, canceled>>

\* ------------------------------------------------------------------ tasks_.schedule(f)
\* ConcurrentTaskSet::schedule either runs f() raw on the caller (InlineDepthGuard, no catch) when the set / the pool is loaded and the inline depth allows it, or wraps it
\* (packageTask: otc+1) and hands it to the pool.  The load conditions are over-approximated by a
\* free choice.  s0 = the caller's stack after the call returns.
\* Both inline branches of ConcurrentTaskSet::schedule test canceled() (the task-set level one always did,
\* the pool-overload fallback since /repo fix 48e01d4): a cancelled set never starts f inline; on the
\* overload path it DROPS f (destroyed without running: RunOrCleanup releases the item, the stage's
\* outstanding_ / resource slot stay taken, wait() leaves through its hasException() exit).
Submit(t, s0, g, it, fq) ==
  \/ /\ cfg.inl /\ ~fq /\ depth[t] < cfg.maxd /\ canceled
     /\ stk' = [stk EXCEPT ![t] = s0]
     /\ GNoBegin
     /\ UNCHANGED <<poolq, otc, depth>>
  \/ /\ cfg.inl /\ ~fq /\ depth[t] < cfg.maxd /\ ~canceled
     /\ stk' = [stk EXCEPT ![t] = Append(s0, TaskFrame(g, it, FALSE))]
     /\ depth' = [depth EXCEPT ![t] = @ + 1]
     /\ LaunchGhost(g, it)
     /\ UNCHANGED <<poolq, otc>>
  \/ /\ otc' = otc + 1
     /\ poolq' = poolq \cup {ItemTask(g, it, t)}
     /\ stk' = [stk EXCEPT ![t] = s0]
     /\ GNoBegin
     /\ UNCHANGED depth

\* ------------------------------------------------------------------ a frame returns
\* Exception x leaves a raw-inline lambdaU: it propagates through tasks_.schedule and
\* LimitGatedScheduler::schedule (already popped) into the caller: the previous stage's lambda
\* (limited: its catch; unlimited: on through ~OutstandingGuard) or the generator loop.
Unwind(s, x) ==
  LET f == s[Len(s)] IN
  IF f.k = "task" /\ ~IsUnl(f.g) THEN SetTop(s, [f EXCEPT !.pc = "PlCatch", !.x = x])
  ELSE IF f.k = "task" THEN SetTop(s, [f EXCEPT !.pc = "PlDecOut", !.x = x])
  ELSE SetTop(s, [f EXCEPT !.pc = "PlGenDone", !.x = x])

\* The top frame f of t finishes (its last shared access is part of the calling action).
\* Wrapped (packageTask): catch -> trySetCurrentException, otc-1.  Raw inline: depth-1, the caller
\* continues at its stored pc, or unwinds.
Finish(t, f) ==
  LET s1 == Pop(stk[t]) IN
  IF f.w THEN /\ (IF f.x # 0 THEN TrySet(f.x) ELSE UNCHANGED <<exc, canceled>>)
              /\ otc' = otc - 1
              /\ stk' = [stk EXCEPT ![t] = s1]
              /\ UNCHANGED depth
  ELSE /\ depth' = [depth EXCEPT ![t] = @ - 1]
       /\ IF f.x = 0 THEN stk' = [stk EXCEPT ![t] = s1] /\ UNCHANGED <<exc, canceled, otc>>
          ELSE LET s2 == Unwind(s1, f.x)
                   g == s2[Len(s2)] IN
               IF g.k = "gen" /\ cfg.fix /\ ~Single
                 \* fixed generator: the lambda exits through packageTask's catch (trySetCurrentException,
                 \* otc-1); the completion signal is given afterwards, when the closure is destroyed
                 THEN /\ TrySet(f.x) /\ otc' = otc - 1
                      /\ stk' = [stk EXCEPT ![t] = SetTop(s2, [g EXCEPT !.x = 0, !.w = FALSE])]
                 ELSE /\ stk' = [stk EXCEPT ![t] = s2] /\ UNCHANGED <<exc, canceled, otc>>

\* after the completion callback: pipeNext_.execute(result) unless sink / filtered; then the guards
PassesOn(g, it) == g < cfg.n /\ <<g, it>> \notin cfg.filt
AfterCb(s) ==
  LET f == s[Len(s)]
      s1 == SetTop(s, [f EXCEPT !.pc = "PlDecOut", !.d = 0])
  IN IF PassesOn(f.g, f.it) THEN Append(s1, SchFrame(f.g + 1, f.it)) ELSE s1

GSet(g, r) == gate' = [gate EXCEPT ![g] = r]

\* ================================================================== schedule()
PlSchIncOut(t) ==
  /\ At(t, "sch", "PlSchIncOut") /\ ~Pending(t)
  /\ LET f == Top(t) IN
       /\ GSet(f.g, [gate[f.g] EXCEPT !.out = @ + 1])
       /\ stk' = [stk EXCEPT ![t] = SetTop(@, [f EXCEPT !.pc = IF IsUnl(f.g) THEN "PlSchUnl" ELSE "PlSchEnq"])]
  /\ UNCHANGED <<cfg, poolq, otc, canceled, exc, genLeft, nextItem, depth, hvars>>

PlSchUnl(t) ==
  /\ At(t, "sch", "PlSchUnl") /\ ~Pending(t)
  /\ LET f == Top(t) IN Submit(t, Pop(stk[t]), f.g, f.it, FALSE)
  /\ UNCHANGED <<cfg, gate, canceled, exc, genLeft, nextItem, done, thrown, leaked, result>>

PlSchEnq(t) ==
  /\ At(t, "sch", "PlSchEnq") /\ ~Pending(t)
  /\ LET f == Top(t) IN
       /\ GSet(f.g, [gate[f.g] EXCEPT !.q = @ \cup {f.it}])
       /\ stk' = [stk EXCEPT ![t] = SetTop(@, [f EXCEPT !.pc = "PlSchAcq"])]
  /\ UNCHANGED <<cfg, poolq, otc, canceled, exc, genLeft, nextItem, depth, hvars>>

PlSchAcq(t) ==
  /\ At(t, "sch", "PlSchAcq") /\ ~Pending(t)
  /\ LET f == Top(t) IN
       /\ GSet(f.g, [gate[f.g] EXCEPT !.res = @ - 1])
       /\ stk' = [stk EXCEPT ![t] = SetTop(@, [f EXCEPT !.pc = IF gate[f.g].res > 0 THEN "PlSchDeq" ELSE "PlSchRel"])]
  /\ UNCHANGED <<cfg, poolq, otc, canceled, exc, genLeft, nextItem, depth, hvars>>

PlSchDeq(t) ==
  /\ At(t, "sch", "PlSchDeq") /\ ~Pending(t)
  /\ LET f == Top(t) IN
       IF gate[f.g].q = {} THEN
         /\ stk' = [stk EXCEPT ![t] = SetTop(@, [f EXCEPT !.pc = "PlSchRel"])]
         /\ UNCHANGED gate
       ELSE \E x \in gate[f.g].q :
         /\ GSet(f.g, [gate[f.g] EXCEPT !.q = @ \ {x}])
         /\ stk' = [stk EXCEPT ![t] = SetTop(@, [f EXCEPT !.pc = "PlSchSubmit", !.d = x])]
  /\ UNCHANGED <<cfg, poolq, otc, canceled, exc, genLeft, nextItem, depth, hvars>>

PlSchSubmit(t) ==
  /\ At(t, "sch", "PlSchSubmit") /\ ~Pending(t)
  /\ LET f == Top(t) IN Submit(t, SetTop(stk[t], [f EXCEPT !.pc = "PlSchAcq", !.d = 0]), f.g, f.d, FALSE)
  /\ UNCHANGED <<cfg, gate, canceled, exc, genLeft, nextItem, done, thrown, leaked, result>>

PlSchRel(t) ==
  /\ At(t, "sch", "PlSchRel") /\ ~Pending(t)
  /\ LET f == Top(t) IN
       /\ GSet(f.g, [gate[f.g] EXCEPT !.res = @ + 1])
       /\ stk' = [stk EXCEPT ![t] = Pop(@)]
  /\ UNCHANGED <<cfg, poolq, otc, canceled, exc, genLeft, nextItem, depth, hvars>>

\* ================================================================== the queued lambdas
PlUnlHasExc(t) ==
  /\ At(t, "task", "PlUnlHasExc") /\ ~Pending(t)
  /\ LET f == Top(t) IN
       IF exc # 0 THEN /\ stk' = [stk EXCEPT ![t] = SetTop(@, [f EXCEPT !.pc = "PlDecOut"])]
                       /\ GNoBegin
       ELSE /\ stk' = [stk EXCEPT ![t] = SetTop(@, [f EXCEPT !.pc = "DrBody"])]
            /\ GBegin(f.g, f.it)
  /\ UNCHANGED <<cfg, gate, poolq, otc, canceled, exc, genLeft, nextItem, depth, done, thrown, leaked, result>>

\* the stage function (point DrBody is inside the body): finishes, or throws
DrBody(t) ==
  /\ At(t, "task", "DrBody") /\ ~Pending(t)
  /\ LET f == Top(t) IN
       /\ infl' = [infl EXCEPT ![f.g] = @ - 1]
       /\ IF <<f.g, f.it>> \in cfg.thr THEN
            /\ thrown' = thrown \cup {Code(f.g, f.it)}
            /\ stk' = [stk EXCEPT ![t] = SetTop(@, [f EXCEPT !.pc = IF IsUnl(f.g) THEN "PlDecOut" ELSE "PlCatch",
                                                           !.x = Code(f.g, f.it)])]
            /\ UNCHANGED done
          ELSE
            /\ done' = done \cup {<<f.g, f.it>>}
            /\ UNCHANGED thrown
            /\ stk' = [stk EXCEPT ![t] = IF IsUnl(f.g) THEN AfterCb(stk[t])     \* callback of lambdaU is empty
                                         ELSE SetTop(@, [f EXCEPT !.pc = "PlCbDeq", !.a = FALSE])]
  /\ UNCHANGED <<cfg, gate, poolq, otc, canceled, exc, genLeft, nextItem, depth, runs, leaked, bad, result>>

\* completion callback: hand the slot to the next queued item, or release it
PlCbDeq(t) ==
  /\ At(t, "task", "PlCbDeq") /\ ~Pending(t)
  /\ LET f == Top(t) g == f.g IN
       IF gate[g].q = {} THEN
         /\ stk' = [stk EXCEPT ![t] = SetTop(@, [f EXCEPT !.pc = "PlCbRel"])]
         /\ GNoBegin /\ UNCHANGED <<gate, depth>>
       ELSE \E x \in gate[g].q :
         /\ GSet(g, [gate[g] EXCEPT !.q = @ \ {x}])
         /\ IF Lim(g) = 1 /\ depth[t] < cfg.maxd THEN     \* serial stage: inline continuation under the depth guard
              /\ stk' = [stk EXCEPT ![t] = Append(AfterCb(stk[t]), TaskFrame(g, x, FALSE))]
              /\ depth' = [depth EXCEPT ![t] = @ + 1]
              /\ GBegin(g, x)
            ELSE
              /\ stk' = [stk EXCEPT ![t] = SetTop(@, [f EXCEPT !.pc = "PlCbSubmit", !.d = x])]
              /\ GNoBegin /\ UNCHANGED depth
  /\ UNCHANGED <<cfg, poolq, otc, canceled, exc, genLeft, nextItem, done, thrown, leaked, result>>

PlCbSubmit(t) ==
  /\ At(t, "task", "PlCbSubmit") /\ ~Pending(t)
  /\ LET f == Top(t) IN Submit(t, AfterCb(stk[t]), f.g, f.d, Lim(f.g) = 1)
  /\ UNCHANGED <<cfg, gate, canceled, exc, genLeft, nextItem, done, thrown, leaked, result>>

PlCbRel(t) ==
  /\ At(t, "task", "PlCbRel") /\ ~Pending(t)
  /\ LET f == Top(t) IN
       /\ GSet(f.g, [gate[f.g] EXCEPT !.res = @ + 1])
       /\ stk' = [stk EXCEPT ![t] = AfterCb(stk[t])]
  /\ UNCHANGED <<cfg, poolq, otc, canceled, exc, genLeft, nextItem, depth, hvars>>

PlCatch(t) ==
  /\ At(t, "task", "PlCatch") /\ ~Pending(t)
  /\ LET f == Top(t) IN
       /\ TrySet(f.x)
       /\ stk' = [stk EXCEPT ![t] = SetTop(@, [f EXCEPT !.pc = IF f.a THEN "PlGuardRel" ELSE "PlDecOut", !.x = 0])]
  /\ UNCHANGED <<cfg, gate, poolq, otc, genLeft, nextItem, depth, hvars>>

PlGuardRel(t) ==
  /\ At(t, "task", "PlGuardRel") /\ ~Pending(t)
  /\ LET f == Top(t) IN
       /\ GSet(f.g, [gate[f.g] EXCEPT !.res = @ + 1])
       /\ stk' = [stk EXCEPT ![t] = SetTop(@, [f EXCEPT !.pc = "PlDecOut"])]
  /\ UNCHANGED <<cfg, poolq, otc, canceled, exc, genLeft, nextItem, depth, hvars>>

PlDecOut(t) ==
  /\ At(t, "task", "PlDecOut") /\ ~Pending(t)
  /\ LET f == Top(t) IN
       /\ GSet(f.g, [gate[f.g] EXCEPT !.out = @ - 1])
       /\ Finish(t, f)
  /\ UNCHANGED <<cfg, poolq, genLeft, nextItem, hvars>>

\* ================================================================== wait()   (frame "main", field g = the gate)
\* WaitStart(g): the pc at which the caller continues when it reaches gate g's wait (or the task set's)
WaitPc(g) == IF g > cfg.n THEN "PlWaitCts" ELSE IF IsUnl(g) THEN "PlWuLoadOut" ELSE "PlWtLoadOut"
Goto(t, f, pc) == stk' = [stk EXCEPT ![t] = SetTop(@, [f EXCEPT !.pc = pc, !.h = FALSE])]
GotoWait(t, f, g) == stk' = [stk EXCEPT ![t] = SetTop(@, [f EXCEPT !.pc = WaitPc(g), !.g = g, !.h = FALSE, !.d = 0])]
MainStep(t, pc) == At(t, "main", pc) /\ ~Pending(t)
NoGhost == UNCHANGED hvars

PlWtLoadOut(t) ==
  /\ MainStep(t, "PlWtLoadOut")
  /\ LET f == Top(t) IN IF gate[f.g].out = 0 THEN GotoWait(t, f, f.g + 1) ELSE Goto(t, f, "PlWtHasExc")
  /\ UNCHANGED <<cfg, gate, poolq, otc, canceled, exc, genLeft, nextItem, depth>> /\ NoGhost

PlWtHasExc(t) ==
  /\ MainStep(t, "PlWtHasExc")
  /\ LET f == Top(t) IN Goto(t, f, IF exc # 0 THEN "PlWtDiscDeq" ELSE "PlWtDeq")
  /\ UNCHANGED <<cfg, gate, poolq, otc, canceled, exc, genLeft, nextItem, depth>> /\ NoGhost

PlWtDiscDeq(t) ==
  /\ MainStep(t, "PlWtDiscDeq")
  /\ LET f == Top(t) IN
       IF gate[f.g].q = {} THEN GotoWait(t, f, f.g + 1) /\ UNCHANGED gate
       ELSE \E x \in gate[f.g].q :
              /\ GSet(f.g, [gate[f.g] EXCEPT !.q = @ \ {x}])
              /\ stk' = [stk EXCEPT ![t] = SetTop(@, [f EXCEPT !.pc = "PlWtDiscDec", !.d = x])]
  /\ UNCHANGED <<cfg, poolq, otc, canceled, exc, genLeft, nextItem, depth>> /\ NoGhost

PlWtDiscDec(t) ==        \* outstanding_-1; discard.cleanupNotRun() destroys the item
  /\ MainStep(t, "PlWtDiscDec")
  /\ LET f == Top(t) IN
       /\ GSet(f.g, [gate[f.g] EXCEPT !.out = @ - 1])
       /\ stk' = [stk EXCEPT ![t] = SetTop(@, [f EXCEPT !.pc = "PlWtDiscDeq", !.d = 0])]
  /\ UNCHANGED <<cfg, poolq, otc, canceled, exc, genLeft, nextItem, depth>> /\ NoGhost

PlWtDeq(t) ==
  /\ MainStep(t, "PlWtDeq")
  /\ LET f == Top(t) IN
       IF gate[f.g].q = {} THEN      \* else-branch: tasks_.tryExecuteNext() (h), yield, loop
         /\ stk' = [stk EXCEPT ![t] = SetTop(@, [f EXCEPT !.pc = "PlWtLoadOut", !.h = TRUE])]
         /\ UNCHANGED gate
       ELSE \E x \in gate[f.g].q :
         /\ GSet(f.g, [gate[f.g] EXCEPT !.q = @ \ {x}])
         /\ stk' = [stk EXCEPT ![t] = SetTop(@, [f EXCEPT !.pc = "PlWtAcq", !.d = x])]
  /\ UNCHANGED <<cfg, poolq, otc, canceled, exc, genLeft, nextItem, depth>> /\ NoGhost

PlWtAcq(t) ==
  /\ MainStep(t, "PlWtAcq")
  /\ LET f == Top(t) IN
       /\ GSet(f.g, [gate[f.g] EXCEPT !.res = @ - 1])
       /\ Goto(t, f, IF gate[f.g].res <= 0 THEN "PlWtAcqUndo" ELSE "PlWtSubmit")
  /\ UNCHANGED <<cfg, poolq, otc, canceled, exc, genLeft, nextItem, depth>> /\ NoGhost

PlWtAcqUndo(t) ==
  /\ MainStep(t, "PlWtAcqUndo")
  /\ LET f == Top(t) IN
       /\ GSet(f.g, [gate[f.g] EXCEPT !.res = @ + 1])
       /\ Goto(t, f, "PlWtAcqExc")
  /\ UNCHANGED <<cfg, poolq, otc, canceled, exc, genLeft, nextItem, depth>> /\ NoGhost

PlWtAcqExc(t) ==
  /\ MainStep(t, "PlWtAcqExc")
  /\ LET f == Top(t) IN
       IF exc # 0 THEN Goto(t, f, "PlWtAcqDec")
       ELSE stk' = [stk EXCEPT ![t] = SetTop(@, [f EXCEPT !.pc = "PlWtAcq", !.h = TRUE])]   \* tryExecuteNext / yield
  /\ UNCHANGED <<cfg, gate, poolq, otc, canceled, exc, genLeft, nextItem, depth>> /\ NoGhost

PlWtAcqDec(t) ==         \* outstanding_-1; func.cleanupNotRun(); next_item
  /\ MainStep(t, "PlWtAcqDec")
  /\ LET f == Top(t) IN
       /\ GSet(f.g, [gate[f.g] EXCEPT !.out = @ - 1])
       /\ stk' = [stk EXCEPT ![t] = SetTop(@, [f EXCEPT !.pc = "PlWtLoadOut", !.d = 0, !.h = FALSE])]
  /\ UNCHANGED <<cfg, poolq, otc, canceled, exc, genLeft, nextItem, depth>> /\ NoGhost

PlWtSubmit(t) ==
  /\ MainStep(t, "PlWtSubmit")
  /\ LET f == Top(t) IN Submit(t, SetTop(stk[t], [f EXCEPT !.pc = "PlWtLoadOut", !.d = 0, !.h = FALSE]), f.g, f.d, FALSE)
  /\ UNCHANGED <<cfg, gate, canceled, exc, genLeft, nextItem, done, thrown, leaked, result>>

PlWuLoadOut(t) ==
  /\ MainStep(t, "PlWuLoadOut")
  /\ LET f == Top(t) IN IF gate[f.g].out = 0 THEN GotoWait(t, f, f.g + 1) ELSE Goto(t, f, "PlWuHasExc")
  /\ UNCHANGED <<cfg, gate, poolq, otc, canceled, exc, genLeft, nextItem, depth>> /\ NoGhost

PlWuHasExc(t) ==
  /\ MainStep(t, "PlWuHasExc")
  /\ LET f == Top(t) IN IF exc # 0 THEN GotoWait(t, f, f.g + 1) ELSE Goto(t, f, "PlWuDeq")
  /\ UNCHANGED <<cfg, gate, poolq, otc, canceled, exc, genLeft, nextItem, depth>> /\ NoGhost

PlWuDeq(t) ==            \* an unlimited gate never uses its local queue: the dequeue fails
  /\ MainStep(t, "PlWuDeq")
  /\ LET f == Top(t) IN
       /\ gate[f.g].q = {}
       /\ stk' = [stk EXCEPT ![t] = SetTop(@, [f EXCEPT !.pc = "PlWuLoadOut", !.h = TRUE])]
  /\ UNCHANGED <<cfg, gate, poolq, otc, canceled, exc, genLeft, nextItem, depth>> /\ NoGhost

\* ================================================================== gate-local invariants
\* a limited gate never holds more slots than its limit; counters never run negative
GateSane ==
  \A g \in Gates :
    /\ gate[g].out >= 0
    /\ (~IsUnl(g) => gate[g].res <= Lim(g))
    /\ (IsUnl(g) => gate[g].q = {} /\ gate[g].res = Unl)
=============================================================================
