---- MODULE MCPipeline_TTrace_1790040841 ----
EXTENDS Sequences, TLCExt, MCPipeline, Toolbox, Naturals, TLC

_expression ==
    LET MCPipeline_TEExpression == INSTANCE MCPipeline_TEExpression
    IN MCPipeline_TEExpression!expression
----

_trace ==
    LET MCPipeline_TETrace == INSTANCE MCPipeline_TETrace
    IN MCPipeline_TETrace!trace
----

_inv ==
    ~(
        TLCGet("level") = Len(_TETrace)
        /\
        bad = ({})
        /\
        cfg = ([n |-> 0, lim |-> <<2>>, p |-> 0, k |-> 3, filt |-> {}, thr |-> {}, inl |-> TRUE, fix |-> TRUE, maxd |-> 2])
        /\
        nextItem = (0)
        /\
        thrown = ({})
        /\
        leaked = ({})
        /\
        poolq = ({})
        /\
        stk = ([main |-> <<[k |-> "main", g |-> 0, it |-> 0, x |-> 0, pc |-> "Done", d |-> 0, h |-> FALSE, w |-> FALSE, a |-> FALSE]>>, w0 |-> <<>>, w1 |-> <<>>])
        /\
        done = ({})
        /\
        result = (-1)
        /\
        exc = (0)
        /\
        canceled = (FALSE)
        /\
        depth = ([main |-> 0, w0 |-> 0, w1 |-> 0])
        /\
        genLeft = (0)
        /\
        infl = ((0 :> 0))
        /\
        gate = (<<>>)
        /\
        runs = ((<<0, 1>> :> 0 @@ <<0, 2>> :> 0 @@ <<0, 3>> :> 0))
        /\
        otc = (0)
    )
----

_init ==
    /\ bad = _TETrace[1].bad
    /\ done = _TETrace[1].done
    /\ runs = _TETrace[1].runs
    /\ poolq = _TETrace[1].poolq
    /\ thrown = _TETrace[1].thrown
    /\ otc = _TETrace[1].otc
    /\ stk = _TETrace[1].stk
    /\ exc = _TETrace[1].exc
    /\ canceled = _TETrace[1].canceled
    /\ leaked = _TETrace[1].leaked
    /\ nextItem = _TETrace[1].nextItem
    /\ gate = _TETrace[1].gate
    /\ genLeft = _TETrace[1].genLeft
    /\ infl = _TETrace[1].infl
    /\ result = _TETrace[1].result
    /\ cfg = _TETrace[1].cfg
    /\ depth = _TETrace[1].depth
----

_next ==
    /\ \E i,j \in DOMAIN _TETrace:
        /\ \/ /\ j = i + 1
              /\ i = TLCGet("level")
        /\ bad  = _TETrace[i].bad
        /\ bad' = _TETrace[j].bad
        /\ done  = _TETrace[i].done
        /\ done' = _TETrace[j].done
        /\ runs  = _TETrace[i].runs
        /\ runs' = _TETrace[j].runs
        /\ poolq  = _TETrace[i].poolq
        /\ poolq' = _TETrace[j].poolq
        /\ thrown  = _TETrace[i].thrown
        /\ thrown' = _TETrace[j].thrown
        /\ otc  = _TETrace[i].otc
        /\ otc' = _TETrace[j].otc
        /\ stk  = _TETrace[i].stk
        /\ stk' = _TETrace[j].stk
        /\ exc  = _TETrace[i].exc
        /\ exc' = _TETrace[j].exc
        /\ canceled  = _TETrace[i].canceled
        /\ canceled' = _TETrace[j].canceled
        /\ leaked  = _TETrace[i].leaked
        /\ leaked' = _TETrace[j].leaked
        /\ nextItem  = _TETrace[i].nextItem
        /\ nextItem' = _TETrace[j].nextItem
        /\ gate  = _TETrace[i].gate
        /\ gate' = _TETrace[j].gate
        /\ genLeft  = _TETrace[i].genLeft
        /\ genLeft' = _TETrace[j].genLeft
        /\ infl  = _TETrace[i].infl
        /\ infl' = _TETrace[j].infl
        /\ result  = _TETrace[i].result
        /\ result' = _TETrace[j].result
        /\ cfg  = _TETrace[i].cfg
        /\ cfg' = _TETrace[j].cfg
        /\ depth  = _TETrace[i].depth
        /\ depth' = _TETrace[j].depth

\* Uncomment the ASSUME below to write the states of the error trace
\* to the given file in Json format. Note that you can pass any tuple
\* to `JsonSerialize`. For example, a sub-sequence of _TETrace.
    \* ASSUME
    \*     LET J == INSTANCE Json
    \*         IN J!JsonSerialize("MCPipeline_TTrace_1790040841.json", _TETrace)

=============================================================================

 Note that you can extract this module `MCPipeline_TEExpression`
  to a dedicated file to reuse `expression` (the module in the 
  dedicated `MCPipeline_TEExpression.tla` file takes precedence 
  over the module `MCPipeline_TEExpression` below).

---- MODULE MCPipeline_TEExpression ----
EXTENDS Sequences, TLCExt, MCPipeline, Toolbox, Naturals, TLC

expression == 
    [
        \* To hide variables of the `MCPipeline` spec from the error trace,
        \* remove the variables below.  The trace will be written in the order
        \* of the fields of this record.
        bad |-> bad
        ,done |-> done
        ,runs |-> runs
        ,poolq |-> poolq
        ,thrown |-> thrown
        ,otc |-> otc
        ,stk |-> stk
        ,exc |-> exc
        ,canceled |-> canceled
        ,leaked |-> leaked
        ,nextItem |-> nextItem
        ,gate |-> gate
        ,genLeft |-> genLeft
        ,infl |-> infl
        ,result |-> result
        ,cfg |-> cfg
        ,depth |-> depth
        
        \* Put additional constant-, state-, and action-level expressions here:
        \* ,_stateNumber |-> _TEPosition
        \* ,_badUnchanged |-> bad = bad'
        
        \* Format the `bad` variable as Json value.
        \* ,_badJson |->
        \*     LET J == INSTANCE Json
        \*     IN J!ToJson(bad)
        
        \* Lastly, you may build expressions over arbitrary sets of states by
        \* leveraging the _TETrace operator.  For example, this is how to
        \* count the number of times a spec variable changed up to the current
        \* state in the trace.
        \* ,_badModCount |->
        \*     LET F[s \in DOMAIN _TETrace] ==
        \*         IF s = 1 THEN 0
        \*         ELSE IF _TETrace[s].bad # _TETrace[s-1].bad
        \*             THEN 1 + F[s-1] ELSE F[s-1]
        \*     IN F[_TEPosition - 1]
    ]

=============================================================================



Parsing and semantic processing can take forever if the trace below is long.
 In this case, it is advised to uncomment the module below to deserialize the
 trace from a generated binary file.

\*
\*---- MODULE MCPipeline_TETrace ----
\*EXTENDS IOUtils, MCPipeline, TLC
\*
\*trace == IODeserialize("MCPipeline_TTrace_1790040841.bin", TRUE)
\*
\*=============================================================================
\*

---- MODULE MCPipeline_TETrace ----
EXTENDS MCPipeline, TLC

trace == 
    <<
    ([bad |-> {},cfg |-> [n |-> 0, lim |-> <<2>>, p |-> 0, k |-> 3, filt |-> {}, thr |-> {}, inl |-> TRUE, fix |-> TRUE, maxd |-> 2],nextItem |-> 0,thrown |-> {},leaked |-> {},poolq |-> {},stk |-> [main |-> <<[k |-> "main", g |-> 0, it |-> 0, x |-> 0, pc |-> "DrOp", d |-> 0, h |-> FALSE, w |-> FALSE, a |-> FALSE]>>, w0 |-> <<>>, w1 |-> <<>>],done |-> {},result |-> -2,exc |-> 0,canceled |-> FALSE,depth |-> [main |-> 0, w0 |-> 0, w1 |-> 0],genLeft |-> 0,infl |-> (0 :> 0),gate |-> <<>>,runs |-> (<<0, 1>> :> 0 @@ <<0, 2>> :> 0 @@ <<0, 3>> :> 0),otc |-> 0]),
    ([bad |-> {},cfg |-> [n |-> 0, lim |-> <<2>>, p |-> 0, k |-> 3, filt |-> {}, thr |-> {}, inl |-> TRUE, fix |-> TRUE, maxd |-> 2],nextItem |-> 0,thrown |-> {},leaked |-> {},poolq |-> {},stk |-> [main |-> <<[k |-> "main", g |-> 0, it |-> 0, x |-> 0, pc |-> "PlWaitCts", d |-> 0, h |-> FALSE, w |-> FALSE, a |-> FALSE]>>, w0 |-> <<>>, w1 |-> <<>>],done |-> {},result |-> -2,exc |-> 0,canceled |-> FALSE,depth |-> [main |-> 0, w0 |-> 0, w1 |-> 0],genLeft |-> 0,infl |-> (0 :> 0),gate |-> <<>>,runs |-> (<<0, 1>> :> 0 @@ <<0, 2>> :> 0 @@ <<0, 3>> :> 0),otc |-> 0]),
    ([bad |-> {},cfg |-> [n |-> 0, lim |-> <<2>>, p |-> 0, k |-> 3, filt |-> {}, thr |-> {}, inl |-> TRUE, fix |-> TRUE, maxd |-> 2],nextItem |-> 0,thrown |-> {},leaked |-> {},poolq |-> {},stk |-> [main |-> <<[k |-> "main", g |-> 0, it |-> 0, x |-> 0, pc |-> "CtsLoop", d |-> 0, h |-> TRUE, w |-> FALSE, a |-> FALSE]>>, w0 |-> <<>>, w1 |-> <<>>],done |-> {},result |-> -2,exc |-> 0,canceled |-> FALSE,depth |-> [main |-> 0, w0 |-> 0, w1 |-> 0],genLeft |-> 0,infl |-> (0 :> 0),gate |-> <<>>,runs |-> (<<0, 1>> :> 0 @@ <<0, 2>> :> 0 @@ <<0, 3>> :> 0),otc |-> 0]),
    ([bad |-> {},cfg |-> [n |-> 0, lim |-> <<2>>, p |-> 0, k |-> 3, filt |-> {}, thr |-> {}, inl |-> TRUE, fix |-> TRUE, maxd |-> 2],nextItem |-> 0,thrown |-> {},leaked |-> {},poolq |-> {},stk |-> [main |-> <<[k |-> "main", g |-> 0, it |-> 0, x |-> 0, pc |-> "Done", d |-> 0, h |-> FALSE, w |-> FALSE, a |-> FALSE]>>, w0 |-> <<>>, w1 |-> <<>>],done |-> {},result |-> -1,exc |-> 0,canceled |-> FALSE,depth |-> [main |-> 0, w0 |-> 0, w1 |-> 0],genLeft |-> 0,infl |-> (0 :> 0),gate |-> <<>>,runs |-> (<<0, 1>> :> 0 @@ <<0, 2>> :> 0 @@ <<0, 3>> :> 0),otc |-> 0])
    >>
----


=============================================================================

---- CONFIG MCPipeline_TTrace_1790040841 ----
CONSTANTS
    Threads = { "main" , "w0" , "w1" }
    MCcfg <- C_s1_p0

INVARIANT
    _inv

CHECK_DEADLOCK
    \* CHECK_DEADLOCK off because of PROPERTY or INVARIANT above.
    FALSE

INIT
    _init

NEXT
    _next

CONSTANT
    _TETrace <- _trace

ALIAS
    _expression
=============================================================================
\* Generated on Tue Sep 22 01:34:20 UTC 2026