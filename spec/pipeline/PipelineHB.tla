------------------------------ MODULE PipelineHB ------------------------------
(* C10 for dispenso::pipeline (detail/pipeline_impl.h): Pipeline.tla + Gate.tla composed with the     *)
(* happens-before model spec/lib/MemOrder.tla.  Memory orders come from OrdersPipeline.tla             *)
(* (bin/extract_orders.py over detail/pipeline_impl.h, task_set.cpp, detail/task_set_impl.h,           *)
(* detail/completion_event_impl.h of the working tree).                                                *)
(*                                                                                                      *)
(* Atomic locations                                                                                     *)
(*   res g / out g   LimitGatedScheduler::Impl::resources_ / outstanding_ of gate g                     *)
(*   gen             CompletionEventImpl::status_ of the generator's completion event                   *)
(*   otc guard canc  ConcurrentTaskSet::outstandingTaskCount_ / guardException_ / canceled_: the real   *)
(*                   orders of the task-set sites that the pipeline's calls go through (TsPkgInc,       *)
(*                   TsPkgDec, TsPkgLoadCancel, TsHasExcLoad, TsExcCas, TsExcStoreSet, TsExcStoreCancel,*)
(*                   TsWaitLoadOut, TsTarLoadGuard, TsTarStoreUnset)                                    *)
(* Ghost atomic locations (ASSUMPTIONS about components verified elsewhere, orders fixed here):         *)
(*   q g it          the element of gate g's moodycamel queue_ that holds item it: enqueue = release    *)
(*                   store, successful try_dequeue of that element = acquire load                       *)
(*   cl g it / gcl i the closure handed to the pool by ConcurrentTaskSet::schedule (item task of gate   *)
(*                   g / generator instance i): hand-over to the pool = release store, the pool thread  *)
(*                   (or the helping waiter) that starts it = acquire load                              *)
(*   "task set wait() returns" needs no ghost: it is the acquire load TsWaitLoadOut of otc reading 0    *)
(*   from the release sequence of the TsPkgDec decrements (extracted orders).                           *)
(* Non-atomic locations                                                                                 *)
(*   item g it   the item that is the INPUT of gate g (output of stage g-1, captured by the closure):   *)
(*               written by the producing stage body (DrGen / DrBody of stage g-1), read + written      *)
(*               (moved out) by the body of stage g, written (destroyed) by whoever drops the closure   *)
(*               without running it: wait()'s cleanupNotRun paths, a skipped / dropped task of a        *)
(*               cancelled set, ~Impl at the end                                                        *)
(*   fn s        the state of stage s's functor (s = 0: the generator): written by the caller before    *)
(*               pipeline() (DrOp) and after it returns (DrRet); every invocation of a SERIAL stage     *)
(*               (limit 1; the generator when it has one instance) WRITES it, every invocation of a     *)
(*               parallel stage READS it                                                                *)
(*   exc         ConcurrentTaskSet::exception_: written by the winner of the guard CAS, moved out by    *)
(*               testAndResetException in the caller's tasks_.wait()                                    *)
(*   pipe        the Pipe / LimitGatedScheduler::Impl objects (plain members tasks_, unlimited_,        *)
(*               serial_, stage_, pipeNext_): written by the caller in DrOp (makePipes) and DrRet       *)
(*               (destruction), read by every schedule() and every stage body                           *)
(* Steps merged by the base spec stay merged: trySetCurrentException (CAS, exception_ write, two        *)
(* stores) and the end of ConcurrentTaskSet::wait (counter load, testAndResetException) are one step    *)
(* each; their interleavings are the subject of spec/taskset/TaskSetHB.tla.                             *)
(* The canceled() / load-factor tests inside ConcurrentTaskSet::schedule get no hb effect (fewer        *)
(* edges than the real acquire load of canceled_, never more).                                          *)
(* Only the current code (cfg.fix = TRUE) is composed.                                                  *)
EXTENDS Pipeline, MemOrder, OrdersPipeline

VARIABLE hb
hbvars == <<vars, hb>>

HT == Threads

ResL(g) == <<"res", g, 0>>
OutL(g) == <<"out", g, 0>>
QL(g, it) == <<"q", g, it>>
CL(g, it) == <<"cl", g, it>>
GCL(i) == <<"gcl", i, 0>>
GenL == <<"gen", 0, 0>>
OtcL == <<"otc", 0, 0>>
GuardL == <<"guard", 0, 0>>
CancL == <<"canc", 0, 0>>
ItemL(g, it) == <<"item", g, it>>
FnL(s) == <<"fn", s, 0>>
ExcL == <<"exc", 0, 0>>
PipeL == <<"pipe", 0, 0>>

ALocsOf(c) ==
  {ResL(g) : g \in 1 .. c.n} \cup {OutL(g) : g \in 1 .. c.n}
  \cup {QL(g, it) : g \in 1 .. c.n, it \in 1 .. c.k} \cup {CL(g, it) : g \in 1 .. c.n, it \in 1 .. c.k}
  \cup {GCL(i) : i \in 0 .. 3} \cup {GenL, OtcL, GuardL, CancL}
NLocsOf(c) ==
  {ItemL(g, it) : g \in 1 .. c.n, it \in 1 .. c.k} \cup {FnL(s) : s \in 0 .. c.n} \cup {ExcL, PipeL}

\* ---- extracted orders.  Every hooked atomic statement of pipeline_impl.h occurs once (the second
\* textual occurrence of a loop-head site sits in front of '}' and is skipped by the extractor);
\* the task-set sites with two occurrences: the first is ConcurrentTaskSet::wait / packageTask.
OS(site) == Ord[site][1][2]
OF(site) == Ord[site][1][3]
\* site -> the kind of atomic statement the overlay assumes behind it
Expect == [
  PlSchIncOut |-> "fetch_add", PlDecOut |-> "fetch_sub", PlSchAcq |-> "fetch_sub", PlSchRel |-> "fetch_add",
  PlCbRel |-> "fetch_add", PlGuardRel |-> "fetch_add", PlWtLoadOut |-> "load", PlWtDiscDec |-> "fetch_sub",
  PlWtAcq |-> "fetch_sub", PlWtAcqUndo |-> "fetch_add", PlWtAcqDec |-> "fetch_sub", PlWuLoadOut |-> "load",
  PlGenDone |-> "fetch_sub", CeWaitLd |-> "load", CeNotifySt |-> "store",
  TsPkgInc |-> "fetch_add", TsPkgDec |-> "fetch_sub", TsPkgLoadCancel |-> "load", TsHasExcLoad |-> "load",
  TsExcCas |-> "compare_exchange_strong", TsExcStoreSet |-> "store", TsExcStoreCancel |-> "store",
  TsWaitLoadOut |-> "load", TsTarLoadGuard |-> "load", TsTarStoreUnset |-> "store"]
\* sites of pipeline_impl.h whose hooked statement is a queue call / a task-set call / a user body: no order of
\* their own.  (PlSchEnq: the extractor reports the first atomic inside the enqueued lambda's text - the
\* ResourceGuard's fetch_add -, not an operation of the enqueue statement itself; the entry is not used.)
NoneSites == {"PlSchUnl", "PlSchDeq", "PlSchSubmit", "PlUnlHasExc", "PlCbDeq", "PlCbSubmit", "PlCatch",
              "PlWtHasExc", "PlWtDiscDeq", "PlWtDeq", "PlWtAcqExc", "PlWtSubmit", "PlWuHasExc", "PlWuDeq",
              "PlGenSubmit", "PlGenHasExc", "PlWaitGen", "PlWaitCts"}
OrdersComplete ==
  /\ \A s \in DOMAIN Expect : s \in DOMAIN Ord /\ Ord[s][1][1] = Expect[s]
  /\ \A s \in NoneSites : s \in DOMAIN Ord /\ \A i \in 1 .. Len(Ord[s]) : Ord[s][i][1] = "none"
  /\ "PlSchEnq" \in DOMAIN Ord
  /\ \A s \in DOMAIN Expect \ {"TsPkgDec", "TsPkgLoadCancel", "TsWaitLoadOut"} : Len(Ord[s]) = 1
  /\ Len(Ord["TsPkgDec"]) = 2 /\ Len(Ord["TsPkgLoadCancel"]) = 2 /\ Len(Ord["TsWaitLoadOut"]) = 2
  /\ Len(Ord["CeWaitLd"]) = 1

\* ---- helpers
Ld(h, t, a, o) == ALoad(HT, h, t, a, o)
St(h, t, a, o) == AStore(HT, h, t, a, o)
Rmw(h, t, a, o) == ARmw(HT, h, t, a, o)
NW(h, t, x) == NAWrite(HT, h, t, x)
NR(h, t, x) == NARead(HT, h, t, x)
MoveOut(h, t, x) == NW(NR(h, t, x), t, x)
\* Atomic load / read-modify-write WITHOUT the tick of the acting thread's own clock component: the same
\* synchronizes-with edges as ALoad / ARmw.  Used for the caller's wait() loops (PlWt*, PlWu*, the futex
\* loop), whose unsuccessful iterations return to the same base state: with a tick per iteration the
\* state space would be infinite.  Sound: a tick only separates a thread's earlier accesses from its
\* later ones, and NAWrite / NARead tick themselves before they record their clock, so an access after a
\* tick-less release is still strictly later than the released clock.
LdQ(h, t, a, o) == IF IsAcq(o) THEN [h EXCEPT !.vc[t] = Join(HT, @, h.rel[a])] ELSE h
RmwQ(h, t, a, o) ==
  LET h1 == LdQ(h, t, a, o)
  IN IF IsRel(o) THEN [h1 EXCEPT !.rel[a] = Join(HT, @, h1.vc[t]), !.relo[a] = IF @ = "" THEN t ELSE @] ELSE h1

RECURSIVE WriteAll(_, _, _)
WriteAll(h, t, xs) == IF xs = {} THEN h ELSE LET x == CHOOSE x \in xs : TRUE IN WriteAll(NW(h, t, x), t, xs \ {x})
\* ~Impl: try_dequeue every leftover closure and cleanupNotRun it
RECURSIVE DrainAll(_, _, _)
DrainAll(h, t, ps) ==
  IF ps = {} THEN h
  ELSE LET p == CHOOSE p \in ps : TRUE
       IN DrainAll(NW(Ld(h, t, QL(p[1], p[2]), "acquire"), t, ItemL(p[1], p[2])), t, ps \ {p})

\* the item this step took out of gate g's queue_ (try_dequeue succeeded): acquire on its element
Deq(g) == gate[g].q \ gate'[g].q
DeqHB(h, t, g) == IF Deq(g) = {} THEN h ELSE Ld(h, t, QL(g, CHOOSE x \in Deq(g) : TRUE), "acquire")
DeqHBQ(h, t, g) == IF Deq(g) = {} THEN h ELSE LdQ(h, t, QL(g, CHOOSE x \in Deq(g) : TRUE), "acquire")

\* tasks_.hasException()
HasExc(h, t) == Ld(h, t, GuardL, OS("TsHasExcLoad"))
HasExcQ(h, t) == LdQ(h, t, GuardL, OS("TsHasExcLoad"))
\* tasks_.trySetCurrentException(): CAS; the winner writes exception_, stores kSet, stores canceled_
TrySetHB(h, t) ==
  IF exc = 0
    THEN St(St(NW(Rmw(h, t, GuardL, OS("TsExcCas")), t, ExcL), t, GuardL, OS("TsExcStoreSet")), t, CancL, OS("TsExcStoreCancel"))
    ELSE Ld(h, t, GuardL, OF("TsExcCas"))
\* end of the packageTask wrapper
PkgDec(h, t) == Rmw(h, t, OtcL, OS("TsPkgDec"))
PkgDecIf(h, t) == IF otc' = otc - 1 THEN PkgDec(h, t) ELSE h

\* tasks_.schedule(closure of gate g, item it) (Submit in Gate.tla): packageTask + hand-over to the pool,
\* or run inline (no atomic access modelled), or dropped on a cancelled set (closure destroyed by t)
SubmitHB(h, t, g, it) ==
  IF otc' = otc + 1 THEN St(Rmw(h, t, OtcL, OS("TsPkgInc")), t, CL(g, it), "release")
  ELSE IF depth'[t] = depth[t] + 1 THEN h
  ELSE NW(h, t, ItemL(g, it))

\* Finish(t, f) in Gate.tla: a wrapped task ends through packageTask's catch + TsPkgDec; a raw-inline
\* task that throws into a generator lambda ends that lambda the same way
FinTry(t, f) ==
  /\ f.x # 0
  /\ \/ f.w
     \/ LET s1 == Pop(stk[t]) IN s1 # <<>> /\ s1[Len(s1)].k = "gen" /\ ~Single
FinishHB(h, t, f) == PkgDecIf(IF FinTry(t, f) THEN TrySetHB(h, t) ELSE h, t)

\* the stage body of gate g for item it
BodyHB(h, t, g, it) ==
  LET h1 == MoveOut(NR(h, t, PipeL), t, ItemL(g, it))
      h2 == IF Lim(g) = 1 THEN NW(h1, t, FnL(g)) ELSE NR(h1, t, FnL(g))
  IN IF <<g, it>> \notin cfg.thr /\ PassesOn(g, it) THEN NW(h2, t, ItemL(g + 1, it)) ELSE h2

\* one call of the generator functor
GenHB(h, t) ==
  LET it == nextItem + 1
      h1 == IF NGen = 1 THEN NW(NR(h, t, PipeL), t, FnL(0)) ELSE NR(NR(h, t, PipeL), t, FnL(0))
      h2 == IF nextItem' # nextItem /\ thrown' = thrown /\ ~Single THEN NW(h1, t, ItemL(1, it)) ELSE h1
      h3 == IF thrown' # thrown THEN TrySetHB(h2, t) ELSE h2
  IN PkgDecIf(h3, t)

\* ConcurrentTaskSet::wait() saw 0, testAndResetException, then ~pipes in the caller
RetHB(h, t) ==
  LET h1 == Ld(Ld(h, t, OtcL, OS("TsWaitLoadOut")), t, GuardL, OS("TsTarLoadGuard"))
      h2 == IF exc # 0 THEN St(MoveOut(h1, t, ExcL), t, GuardL, OS("TsTarStoreUnset")) ELSE h1
      h3 == DrainAll(h2, t, {<<g, it>> \in Gates \X Items : it \in gate[g].q})
  IN WriteAll(h3, t, {FnL(s) : s \in 0 .. cfg.n} \cup {PipeL})

TaskL(task) == IF task.k = "gen" THEN GCL(task.it) ELSE CL(task.g, task.it)
\* the pool thread (or helping waiter) takes the closure; the packageTask wrapper tests canceled_
TakeHB(h, t, task) == Ld(Ld(h, t, TaskL(task), "acquire"), t, CancL, OS("TsPkgLoadCancel"))

HInitWith(c) == c.fix /\ InitWith(c) /\ hb = HBInit(HT, ALocsOf(c), NLocsOf(c))

HStep(t) ==
  \* ---- the caller
  \/ DrOp(t) /\ hb' = WriteAll(hb, t, {FnL(s) : s \in 0 .. cfg.n} \cup {PipeL})
  \/ PlGenSubmit(t) /\ hb' = St(Rmw(hb, t, OtcL, OS("TsPkgInc")), t, GCL(Top(t).it), "release")
  \/ PlWaitGen(t) /\ hb' = LdQ(hb, t, GenL, OS("CeWaitLd"))
  \/ FutexWait(t) /\ hb' = (IF genLeft = Top(t).d THEN hb ELSE LdQ(hb, t, GenL, OS("CeWaitLd")))
  \/ FutexRet(t) /\ hb' = LdQ(hb, t, GenL, OS("CeWaitLd"))
  \/ PlWaitCts(t) /\ hb' = hb
  \/ DrRet(t) /\ hb' = RetHB(hb, t)
  \* ---- generator instances
  \/ PlGenHasExc(t) /\ hb' = PkgDecIf(HasExc(hb, t), t)
  \/ DrGen(t) /\ hb' = GenHB(hb, t)
  \/ PlGenDone(t) /\ hb' = Rmw(hb, t, GenL, OS("PlGenDone"))
  \/ FutexWake(t) /\ hb' = St(hb, t, GenL, OS("CeNotifySt"))
  \* ---- LimitGatedScheduler::schedule
  \/ PlSchIncOut(t) /\ hb' = Rmw(NR(hb, t, PipeL), t, OutL(Top(t).g), OS("PlSchIncOut"))
  \/ PlSchUnl(t) /\ hb' = SubmitHB(hb, t, Top(t).g, Top(t).it)
  \/ PlSchEnq(t) /\ hb' = St(hb, t, QL(Top(t).g, Top(t).it), "release")
  \/ PlSchAcq(t) /\ hb' = Rmw(hb, t, ResL(Top(t).g), OS("PlSchAcq"))
  \/ PlSchDeq(t) /\ hb' = DeqHB(hb, t, Top(t).g)
  \/ PlSchSubmit(t) /\ hb' = SubmitHB(hb, t, Top(t).g, Top(t).d)
  \/ PlSchRel(t) /\ hb' = Rmw(hb, t, ResL(Top(t).g), OS("PlSchRel"))
  \* ---- the queued lambdas
  \/ PlUnlHasExc(t) /\ hb' = HasExc(hb, t)
  \/ DrBody(t) /\ hb' = BodyHB(hb, t, Top(t).g, Top(t).it)
  \/ PlCbDeq(t) /\ hb' = DeqHB(hb, t, Top(t).g)
  \/ PlCbSubmit(t) /\ hb' = SubmitHB(hb, t, Top(t).g, Top(t).d)
  \/ PlCbRel(t) /\ hb' = Rmw(hb, t, ResL(Top(t).g), OS("PlCbRel"))
  \/ PlCatch(t) /\ hb' = TrySetHB(hb, t)
  \/ PlGuardRel(t) /\ hb' = Rmw(hb, t, ResL(Top(t).g), OS("PlGuardRel"))
  \/ PlDecOut(t) /\ hb' = FinishHB(Rmw(hb, t, OutL(Top(t).g), OS("PlDecOut")), t, Top(t))
  \* ---- LimitGatedScheduler::wait (tick-less: spin loops)
  \/ PlWtLoadOut(t) /\ hb' = LdQ(hb, t, OutL(Top(t).g), OS("PlWtLoadOut"))
  \/ PlWtHasExc(t) /\ hb' = HasExcQ(hb, t)
  \/ PlWtDiscDeq(t) /\ hb' = DeqHBQ(hb, t, Top(t).g)
  \/ PlWtDiscDec(t) /\ hb' = NW(RmwQ(hb, t, OutL(Top(t).g), OS("PlWtDiscDec")), t, ItemL(Top(t).g, Top(t).d))
  \/ PlWtDeq(t) /\ hb' = DeqHBQ(hb, t, Top(t).g)
  \/ PlWtAcq(t) /\ hb' = RmwQ(hb, t, ResL(Top(t).g), OS("PlWtAcq"))
  \/ PlWtAcqUndo(t) /\ hb' = RmwQ(hb, t, ResL(Top(t).g), OS("PlWtAcqUndo"))
  \/ PlWtAcqExc(t) /\ hb' = HasExcQ(hb, t)
  \/ PlWtAcqDec(t) /\ hb' = NW(RmwQ(hb, t, OutL(Top(t).g), OS("PlWtAcqDec")), t, ItemL(Top(t).g, Top(t).d))
  \/ PlWtSubmit(t) /\ hb' = SubmitHB(hb, t, Top(t).g, Top(t).d)
  \/ PlWuLoadOut(t) /\ hb' = LdQ(hb, t, OutL(Top(t).g), OS("PlWuLoadOut"))
  \/ PlWuHasExc(t) /\ hb' = HasExcQ(hb, t)
  \/ PlWuDeq(t) /\ hb' = hb
  \* ---- the abstract pool
  \/ \E task \in poolq :
       \/ TaskStart(t, task) /\ hb' = NR(TakeHB(hb, t, task), t, PipeL)
       \* skipped: TsPkgDec, then the wrapper closure is destroyed (RunOrCleanup / lambdaU: the item dies)
       \/ TaskSkip(t, task) /\ hb' = (LET h1 == PkgDec(TakeHB(hb, t, task), t)
                                      IN IF task.k = "item" THEN NW(h1, t, ItemL(task.g, task.it)) ELSE h1)

HNext ==
  \/ \E t \in Threads : HStep(t)
  \/ Terminated /\ UNCHANGED hb

RaceFree == NoRace(hb)
=============================================================================
