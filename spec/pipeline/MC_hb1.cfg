CONSTANTS
  Threads = {"main", "w0", "w1"}
  MCcfg <- S_hb1
INIT HInit
NEXT HNext
CHECK_DEADLOCK TRUE
INVARIANTS OrdersComplete RaceFree TypeOK GateSane AtMostOnce InputIsPredecessorsOutput AllDelivered LimitRespected RethrowsFirst NoLeak PoolClean
