---------------------------- MODULE MCPipeline ----------------------------
EXTENDS Pipeline
CONSTANT MCcfg
\* lim = <<generator, gate 1, ..., gate n>>; 99 = unlimited
Cfg(n, lim, p, k, filt, thr, inl, fix) ==
  [n |-> n, lim |-> lim, p |-> p, k |-> k, filt |-> filt, thr |-> thr, maxd |-> 2, inl |-> inl, fix |-> fix]
Init == \E c \in MCcfg : InitWith(c)     \* MCcfg = a SET of configurations: one TLC run covers them all
Spec == Init /\ [][Next]_vars
FairSpec == Init /\ [][Next]_vars /\ Fairness

\* ---- cover / smoke
C_cover   == Cfg(1, <<1, 1>>, 1, 2, {}, {}, TRUE, TRUE)
\* ---- C27 / C28: clean runs
C_s1_p0   == Cfg(0, <<2>>, 0, 3, {}, {}, TRUE, TRUE)            \* one stage, zero-thread pool
C_s1_p2   == Cfg(0, <<2>>, 2, 3, {}, {}, TRUE, TRUE)
C_ser_p0  == Cfg(2, <<1, 1, 1>>, 0, 3, {<<1, 2>>}, {}, TRUE, TRUE)
C_ser_p1  == Cfg(2, <<1, 1, 1>>, 1, 3, {<<1, 2>>}, {}, TRUE, TRUE)
C_ser_p2  == Cfg(1, <<1, 1>>, 2, 3, {}, {}, TRUE, TRUE)
C_lim2_p2 == Cfg(1, <<2, 2>>, 2, 3, {}, {}, FALSE, TRUE)
C_lim2i_p2 == Cfg(1, <<1, 2>>, 2, 3, {}, {}, TRUE, TRUE)
C_mix_p2  == Cfg(2, <<1, 99, 1>>, 2, 2, {}, {}, TRUE, TRUE)
C_3st_p1  == Cfg(3, <<1, 2, 99, 1>>, 1, 2, {<<2, 1>>}, {}, TRUE, TRUE)
C_4it_p1  == Cfg(1, <<1, 1>>, 1, 4, {}, {}, TRUE, TRUE)
\* ---- C29: throws (first / middle / last item; generator / transform / sink)
T_gen     == Cfg(1, <<1, 1>>, 1, 3, {}, {<<0, 2>>}, TRUE, TRUE)
T_gen2    == Cfg(1, <<2, 1>>, 2, 2, {}, {<<0, 1>>}, FALSE, TRUE)  \* two generator instances
T_sink1   == Cfg(1, <<1, 1>>, 2, 3, {}, {<<1, 1>>}, TRUE, TRUE)
T_sink3   == Cfg(1, <<1, 1>>, 1, 3, {}, {<<1, 3>>}, TRUE, TRUE)
T_mid     == Cfg(2, <<1, 1, 1>>, 1, 3, {}, {<<1, 2>>}, TRUE, TRUE)
T_mid_p2  == Cfg(2, <<1, 2, 1>>, 2, 2, {}, {<<1, 1>>}, FALSE, TRUE)
T_unl     == Cfg(2, <<1, 99, 1>>, 1, 2, {}, {<<1, 2>>}, TRUE, TRUE)
T_unl2    == Cfg(2, <<1, 1, 99>>, 1, 2, {}, {<<2, 1>>}, TRUE, TRUE)
T_two     == Cfg(2, <<1, 2, 1>>, 2, 3, {}, {<<1, 1>>, <<2, 2>>}, FALSE, TRUE)
T_p0      == Cfg(2, <<1, 1, 2>>, 0, 3, {}, {<<2, 2>>}, TRUE, TRUE)
T_s1      == Cfg(0, <<2>>, 2, 3, {}, {<<0, 2>>}, TRUE, TRUE)
\* ---- negative controls: the code before the fixes
N_leak    == [T_sink1 EXCEPT !.fix = FALSE]
N_hang    == [T_gen2 EXCEPT !.fix = FALSE]
N_single  == [C_s1_p0 EXCEPT !.fix = FALSE]
S_clean == {C_s1_p0, C_s1_p2, C_ser_p0, C_ser_p1, C_ser_p2, C_lim2_p2, C_lim2i_p2, C_mix_p2, C_3st_p1, C_4it_p1}
S_throw == {T_gen, T_gen2, T_sink1, T_sink3, T_mid, T_mid_p2, T_unl, T_unl2, T_two, T_p0, T_s1}
S_cover == {C_cover}
S_leak == {N_leak}
S_hang == {N_hang}
S_single == {N_single}
\* ---- C28
C_gen2    == Cfg(1, <<2, 1>>, 2, 3, {}, {}, FALSE, TRUE)
S_limit == {C_lim2_p2, C_lim2i_p2, C_ser_p2, C_gen2, C_mix_p2, C_s1_p2, T_sink1, T_mid_p2, T_p0}
\* ---- larger configurations (thorough; Threads has 3 workers)
B_lim2_p3 == Cfg(1, <<1, 2>>, 3, 3, {}, {}, FALSE, TRUE)
B_gen2_p3 == Cfg(1, <<2, 2>>, 3, 3, {}, {}, FALSE, TRUE)
B_4st     == Cfg(3, <<1, 1, 2, 1>>, 2, 2, {<<1, 2>>}, {}, TRUE, TRUE)
B_4it     == Cfg(2, <<1, 1, 1>>, 1, 4, {}, {}, TRUE, TRUE)
B_thr_p3  == Cfg(1, <<2, 1>>, 3, 3, {}, {<<1, 2>>}, FALSE, TRUE)
B_thr_3st == Cfg(3, <<1, 1, 99, 1>>, 1, 2, {}, {<<2, 1>>}, TRUE, TRUE)
B_thr_2   == Cfg(2, <<2, 2, 2>>, 2, 3, {}, {<<1, 2>>, <<2, 1>>}, FALSE, TRUE)
S_clean_big == {B_lim2_p3, B_4st, B_4it}
S_limit_big == {B_lim2_p3, B_gen2_p3}
S_throw_big == {B_thr_p3, B_thr_3st, B_thr_2}
\* ---- liveness
S_live == {C_cover, C_ser_p1, C_s1_p2, C_ser_p0}
S_live_throw == {T_gen2, T_sink3, T_gen, T_s1}
=============================================================================
