---------------------------- MODULE MCPipelineHB ----------------------------
EXTENDS PipelineHB
CONSTANT MCcfg
\* lim = <<generator, gate 1, ..., gate n>>; 99 = unlimited
Cfg(n, lim, p, k, filt, thr, inl) ==
  [n |-> n, lim |-> lim, p |-> p, k |-> k, filt |-> filt, thr |-> thr, maxd |-> 2, inl |-> inl, fix |-> TRUE]
HInit == \E c \in MCcfg : HInitWith(c)     \* MCcfg = a SET of configurations: one TLC run covers them all

\* ---- serial stages: functor state handed from invocation to invocation through resources_
H_ser2    == Cfg(1, <<1, 1>>, 2, 2, {}, {}, TRUE)               \* generator -> serial sink, 2 workers
H_ser3    == Cfg(1, <<1, 1>>, 2, 3, {}, {}, TRUE)               \* 3 items: backlog queue, serial inline continuation
H_ser_p1  == Cfg(2, <<1, 1, 1>>, 1, 2, {<<1, 2>>}, {}, TRUE)    \* 3 serial stages, filter, caller helps
H_ser_p0  == Cfg(2, <<1, 1, 1>>, 0, 2, {}, {}, TRUE)            \* zero-thread pool: everything on the caller
H_ser_noi == Cfg(1, <<1, 1>>, 2, 2, {}, {}, FALSE)              \* never inline: every hand-over through the pool
\* ---- parallel / unlimited stages
H_lim2    == Cfg(1, <<2, 2>>, 2, 2, {}, {}, FALSE)              \* 2 generator instances, limit-2 sink
H_lim2i   == Cfg(1, <<1, 2>>, 2, 3, {}, {}, TRUE)
H_mix     == Cfg(2, <<1, 99, 1>>, 2, 2, {}, {}, TRUE)           \* serial -> unlimited -> serial
H_unl_noi == Cfg(2, <<1, 99, 1>>, 1, 2, {}, {}, FALSE)
\* ---- throwing stages: exception slot, cancelled set, discarded / dropped / skipped items
H_tgen    == Cfg(1, <<1, 1>>, 1, 2, {}, {<<0, 2>>}, TRUE)
H_tgen2   == Cfg(1, <<2, 1>>, 2, 2, {}, {<<0, 1>>}, FALSE)      \* two generator instances, one throws
H_tsink   == Cfg(1, <<1, 1>>, 2, 3, {}, {<<1, 1>>}, TRUE)
H_tmid    == Cfg(2, <<1, 2, 1>>, 2, 2, {}, {<<1, 1>>}, FALSE)
H_tunl    == Cfg(2, <<1, 99, 1>>, 1, 2, {}, {<<1, 2>>}, TRUE)
H_ttwo    == Cfg(1, <<2, 2>>, 2, 2, {}, {<<1, 1>>, <<1, 2>>}, FALSE)   \* two racing throwers
H_tsink2  == Cfg(1, <<1, 1>>, 2, 2, {}, {<<1, 1>>}, TRUE)
H_lim2b   == Cfg(1, <<1, 2>>, 2, 2, {}, {}, FALSE)              \* one generator, limit-2 sink, never inline
H_mix1    == Cfg(2, <<1, 99, 1>>, 1, 2, {}, {}, TRUE)
H_4it     == Cfg(1, <<1, 1>>, 1, 4, {}, {}, TRUE)               \* inline depth limit reached: serial continuation force-queued
H_s1      == Cfg(0, <<2>>, 2, 2, {}, {}, TRUE)                  \* one-stage pipeline

\* H_lim2, H_mix, H_tsink, H_ttwo (2 workers, everything parallel) exceed 10^7 states with hb and are not in any set
\* quick: hb1 serial stages (~46k states), hb2 parallel / unlimited (~93k), hb3 exceptions (~11k); thorough: hb4 (~1.5M)
S_hb1 == {H_ser2, H_ser_p1, H_ser_p0, H_ser_noi, H_4it, H_s1}
S_hb2 == {H_lim2b, H_unl_noi}
S_hb3 == {H_tgen, H_tgen2, H_tsink2, H_tunl}
S_hb4 == {H_mix1, H_ser3, H_tmid, H_lim2i}
S_smoke == {H_ser2}
\* singletons (scratch runs, mutation table)
S1_ser2 == {H_ser2}
S1_ser3 == {H_ser3}
S1_ser_p1 == {H_ser_p1}
S1_ser_p0 == {H_ser_p0}
S1_ser_noi == {H_ser_noi}
S1_lim2 == {H_lim2}
S1_lim2i == {H_lim2i}
S1_mix == {H_mix}
S1_unl_noi == {H_unl_noi}
S1_tgen == {H_tgen}
S1_tgen2 == {H_tgen2}
S1_tsink == {H_tsink}
S1_tmid == {H_tmid}
S1_tunl == {H_tunl}
S1_ttwo == {H_ttwo}
S1_s1 == {H_s1}
S1_4it == {H_4it}
S1_tsink2 == {H_tsink2}
S1_lim2b == {H_lim2b}
S1_mix1 == {H_mix1}
=============================================================================
