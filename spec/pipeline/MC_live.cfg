CONSTANTS
  Threads = {"main", "w0", "w1"}
  MCcfg <- S_live
SPECIFICATION FairSpec
CHECK_DEADLOCK TRUE
INVARIANTS TypeOK
PROPERTY Terminates
