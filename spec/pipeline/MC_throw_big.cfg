CONSTANTS
  Threads = {"main", "w0", "w1", "w2"}
  MCcfg <- S_throw_big
INIT Init
NEXT Next
CHECK_DEADLOCK TRUE
INVARIANTS TypeOK GateSane AtMostOnce InputIsPredecessorsOutput AllDelivered SingleRuns LimitRespected RethrowsFirst NoLeak PoolClean
