CONSTANTS
  Threads = {"main", "w0", "w1", "w2"}
SPECIFICATION TraceSpec
CHECK_DEADLOCK FALSE
POSTCONDITION TraceAccepted
INVARIANTS GateSane AtMostOnce InputIsPredecessorsOutput AllDelivered SingleRuns LimitRespected RethrowsFirst NoLeak PoolClean NoDeadlockObserved
