---------------------------- MODULE ResPoolFree ----------------------------
(* API-level (invoke/response) validation of free-running executions of the real *)
(* ResourcePool: real threads, really blocking acquire().  Only the order of the   *)
(* logged events is meaningful (rule R3).  The driver logs                         *)
(*   AcqInv t        before calling pool.acquire()                                 *)
(*   AcqRet t r      after acquire() returned resource r                           *)
(*   Rel    t r      BEFORE the operation that returns r to the pool (~Resource,   *)
(*                   move-assignment onto a handle holding r)                      *)
(*   Get    t r id   handle.get() of a handle holding r returned the object id     *)
(*   Destroy         after ~ResourcePool()                                         *)
(* Because Rel is logged before the enqueue and AcqRet after the dequeue, a        *)
(* resource that acquire() really obtained was logged as released before its       *)
(* AcqRet line; so `r \in avail` at AcqRet is necessary for a correct pool, and a  *)
(* resource handed to two holders at once is rejected.                             *)
(* The same events come from the many-thread rounds (drv_respool --many: >= 64     *)
(* live threads u1..uN take strict turns on one pool, u0 then acquires all          *)
(* resources at once and destroys the pool).  There a resource is available         *)
(* whenever acquire() is called, so a thread that does not return from acquire()    *)
(* or ~ResourcePool() contradicts "acquire() blocks only while all resources are    *)
(* held" / "every resource is returned"; the driver logs it as                      *)
(*   Hang   t in held size releasers queued                                         *)
(* which, like the Hang of the random programs, is never accepted.  A Reset line    *)
(* of such a round carries threads/hold/churn instead of prog (not used here).      *)
EXTENDS Integers, Sequences, FiniteSets, TLC, Json, IOUtils

TraceLog == ndJsonDeserialize(IOEnv.TRACE)

VARIABLES l, size, avail, holder, waiting, alive
fvars == <<l, size, avail, holder, waiting, alive>>

All == 1 .. size
Held == {r \in All : holder[r] # ""}

FreeInit ==
  /\ l = 2
  /\ TraceLog[1].e = "Reset"
  /\ size = TraceLog[1].size
  /\ avail = 1 .. TraceLog[1].size
  /\ holder = [r \in 1 .. TraceLog[1].size |-> ""]
  /\ waiting = {}
  /\ alive = TRUE

FreeStep ==
  /\ l <= Len(TraceLog)
  /\ LET ev == TraceLog[l] IN
       \/ /\ ev.e = "Reset"
          /\ ~alive                       \* the previous pool was destroyed
          /\ size' = ev.size
          /\ avail' = 1 .. ev.size
          /\ holder' = [r \in 1 .. ev.size |-> ""]
          /\ waiting' = {}
          /\ alive' = TRUE
       \/ /\ ev.e = "AcqInv"
          /\ alive /\ ev.t \notin waiting
          /\ waiting' = waiting \cup {ev.t}
          /\ UNCHANGED <<size, avail, holder, alive>>
       \/ /\ ev.e = "AcqRet"
          /\ alive /\ ev.t \in waiting
          /\ ev.r \in avail               \* a resource of the pool that nobody holds
          /\ avail' = avail \ {ev.r}
          /\ holder' = [holder EXCEPT ![ev.r] = ev.t]
          /\ waiting' = waiting \ {ev.t}
          /\ UNCHANGED <<size, alive>>
       \/ /\ ev.e = "Rel"
          /\ alive
          /\ ev.r \in All /\ holder[ev.r] = ev.t
          /\ avail' = avail \cup {ev.r}
          /\ holder' = [holder EXCEPT ![ev.r] = ""]
          /\ UNCHANGED <<size, waiting, alive>>
       \/ /\ ev.e = "Get"
          /\ alive
          /\ ev.r \in All /\ holder[ev.r] = ev.t
          /\ ev.id = ev.r                 \* the handle dereferences to its own resource
          /\ UNCHANGED <<size, avail, holder, waiting, alive>>
       \/ /\ ev.e = "Destroy"
          /\ alive /\ waiting = {}
          /\ avail = All                  \* every resource was returned
          /\ ev.returned = size /\ ev.destroyed
          /\ ev.live = 0 /\ ev.errs = 0   \* every resource destroyed exactly once
          /\ alive' = FALSE
          /\ avail' = {}
          /\ UNCHANGED <<size, holder, waiting>>
  /\ l' = l + 1

\* (C25) bounds and exclusivity on the observed history
FreeHeldBound == Cardinality(Held) <= size
FreeConservation == alive => (avail \cup Held = All /\ avail \cap Held = {})
\* the programs cannot deadlock, so whenever every unfinished acquire() is still waiting
\* although a resource is available, the next event must not be a Hang (Hang is never accepted)

FreeAccepted ==
  LET d == TLCGet("stats").diameter IN
  IF d = Len(TraceLog) THEN TRUE
  ELSE /\ PrintT(<<"TRACE_REJECTED_AT_LINE", d + 1, "OF", Len(TraceLog)>>)
       /\ PrintT(<<"OFFENDING", TraceLog[d + 1]>>)
       /\ FALSE
==========================================================================
