CONSTANTS
  Size = 0
  Threads = {}
  Prog = 0
SPECIFICATION TraceSpec
CHECK_DEADLOCK FALSE
POSTCONDITION TraceAccepted
INVARIANTS HeldBound Exclusive Conservation BlockedOnlyIfAllHeld AllReturned Lifetime ResultsOk
