------------------------------ MODULE ResPool ------------------------------
(* Specification of dispenso::ResourcePool<T> / dispenso::Resource<T>            *)
(* (dispenso/resource_pool.h).  The pool is a moodycamel BlockingConcurrentQueue  *)
(* of `size` resource pointers (a semaphore-guarded bag); the queue is treated as *)
(* a linearizable black box, so every queue call is ONE step:                     *)
(*                                                                                *)
(*   Acquire   ResourcePool::acquire():  pool_.wait_dequeue(t)                    *)
(*             (taken only when a resource is available; while none is, the step  *)
(*              is a failed poll that changes nothing - the thread keeps waiting) *)
(*   Recycle   ResourcePool::recycle(): pool_.enqueue(t), reached from            *)
(*             ~Resource() and from Resource::operator=(Resource&&) when the      *)
(*             overwritten handle holds a resource                                *)
(*   Local     a handle operation that makes no queue call (move construction,    *)
(*             destruction / overwriting of an empty handle, self-move-assignment,*)
(*             get()); the schedule point is placed by the driver                 *)
(*   Destroy   ~ResourcePool(): dequeues and destroys all `size` resources        *)
(*                                                                                *)
(* Resources are numbered 1..size.  Each thread owns two handle slots; a slot is  *)
(*   -1  no Resource object (not constructed / destroyed)                         *)
(*    0  a live Resource object that holds nothing (moved-from)                   *)
(*    r  a live Resource object holding resource r                                *)
(* Programs (sequences of [op, a, b]):                                            *)
(*   acq a     construct slot a from pool.acquire()        (slot a must be -1)    *)
(*   rel a     destroy slot a                               (slot a must be live) *)
(*   mvc a b   move-construct slot b from slot a            (a live, b = -1)      *)
(*   mva a b   slot b = std::move(slot a)                   (both live, a # b)    *)
(*   smv a     slot a = std::move(slot a)                   (a live)              *)
(*   get a     slot a .get()                                (a holds a resource)  *)
(* Which resource the queue hands out is the queue's choice (nondeterministic).   *)
EXTENDS Integers, Sequences, FiniteSets, TLC

CONSTANTS Size,     \* number of resources
          Threads,  \* set of thread names
          Prog      \* [Threads -> Seq([op, a, b])]

VARIABLES
  size, prog,    \* configuration (variables so that a trace can re-initialise them)
  avail,         \* set of resources in the queue
  h,             \* h[t][i]: handle slot i of thread t (see above)
  res,           \* res[r] = 1 while the resource object r is alive, 0 after its destructor ran
  alive,         \* the pool has not been destroyed
  pc, ip,        \* per thread: program counter, index of current op
  hist,          \* ghost: per thread, results of completed ops
  cons, des,     \* ghost: how often resource r was constructed / destroyed
  maxHeld        \* ghost: largest number of resources ever held simultaneously

conf  == <<size, prog>>
ghost == <<hist, cons, des, maxHeld>>
vars  == <<size, prog, avail, h, res, alive, pc, ip, hist, cons, des, maxHeld>>

All == 1 .. size
SlotIds == 1 .. 2
T == DOMAIN prog

\* first schedule point of operation o for a thread whose handle slots are ht
PcFor(o, ht) ==
  CASE o.op = "acq" -> "Acquire"
    [] o.op = "rel" -> (IF ht[o.a] > 0 THEN "Recycle" ELSE "Local")
    [] o.op = "mva" -> (IF ht[o.b] > 0 THEN "Recycle" ELSE "Local")
    [] OTHER        -> "Local"

PcAt(t, i, ht) == IF i > Len(prog[t]) THEN "Done" ELSE PcFor(prog[t][i], ht)
Op(t) == prog[t][ip[t]]

HeldIn(hh) == {hh[t][i] : t \in DOMAIN hh, i \in SlotIds} \ {0, -1}
Held == HeldIn(h)
NumHolding(hh) == Cardinality({<<t, i>> \in (DOMAIN hh) \X SlotIds : hh[t][i] > 0})

InitWith(n, p) ==
  /\ size = n /\ prog = p
  /\ avail = 1 .. n
  /\ h = [t \in DOMAIN p |-> [i \in SlotIds |-> -1]]
  /\ res = [r \in 1 .. n |-> 1]
  /\ alive = TRUE
  /\ pc = [t \in DOMAIN p |-> "Start"]
  /\ ip = [t \in DOMAIN p |-> 1]
  /\ hist = [t \in DOMAIN p |-> <<>>]
  /\ cons = [r \in 1 .. n |-> 1]
  /\ des = [r \in 1 .. n |-> 0]
  /\ maxHeld = 0

Init == InitWith(Size, Prog)

\* complete the current op of t with result r; ht = t's handle slots after the step
Finish(t, r, ht) ==
  /\ hist' = [hist EXCEPT ![t] = Append(@, r)]
  /\ ip' = [ip EXCEPT ![t] = @ + 1]
  /\ pc' = [pc EXCEPT ![t] = PcAt(t, ip[t] + 1, ht)]

SetH(t, ht) ==
  /\ h' = [h EXCEPT ![t] = ht]
  /\ maxHeld' = (IF NumHolding(h') > maxHeld THEN NumHolding(h') ELSE maxHeld)

Start(t) ==
  /\ pc[t] = "Start"
  /\ pc' = [pc EXCEPT ![t] = PcAt(t, 1, h[t])]
  /\ UNCHANGED <<conf, avail, h, res, alive, ip, ghost>>

\* ----------------------------------------------------------------- ResourcePool::acquire()
Acquire(t) ==
  /\ pc[t] = "Acquire"
  /\ alive
  /\ (IF avail = {}
        THEN UNCHANGED <<avail, h, pc, ip, hist, maxHeld>>      \* would block: keep waiting
        ELSE \E r \in avail :                                   \* the queue's choice
               /\ avail' = avail \ {r}
               /\ SetH(t, [h[t] EXCEPT ![Op(t).a] = r])
               /\ Finish(t, r, [h[t] EXCEPT ![Op(t).a] = r]))
  /\ UNCHANGED <<conf, res, alive, cons, des>>

\* ------------------------------------- ResourcePool::recycle() from ~Resource / operator=
Recycle(t) ==
  /\ pc[t] = "Recycle"
  /\ alive
  /\ LET o == Op(t)
         ht == IF o.op = "rel"
                 THEN [h[t] EXCEPT ![o.a] = -1]
                 ELSE [h[t] EXCEPT ![o.b] = h[t][o.a], ![o.a] = 0]          \* mva
         back == IF o.op = "rel" THEN h[t][o.a] ELSE h[t][o.b]
     IN /\ avail' = avail \cup {back}
        /\ SetH(t, ht)
        /\ Finish(t, 0, ht)
  /\ UNCHANGED <<conf, res, alive, cons, des>>

\* ------------------------------------------------- handle operations without a queue call
Local(t) ==
  /\ pc[t] = "Local"
  /\ LET o == Op(t)
         ht == CASE o.op = "rel" -> [h[t] EXCEPT ![o.a] = -1]                    \* empty handle
                 [] o.op = "mva" -> [h[t] EXCEPT ![o.b] = h[t][o.a], ![o.a] = 0] \* onto an empty one
                 [] o.op = "mvc" -> [h[t] EXCEPT ![o.b] = h[t][o.a], ![o.a] = 0]
                 [] OTHER        -> h[t]                                         \* smv, get
         r == IF o.op = "get" THEN h[t][o.a] ELSE 0
     IN /\ SetH(t, ht)
        /\ Finish(t, r, ht)
  /\ UNCHANGED <<conf, avail, res, alive, cons, des>>

\* ------------------------------------------------------------------------- ~ResourcePool()
AllDone == \A t \in T : pc[t] = "Done"

\* documented precondition: all resources have been returned to the pool
Destroy ==
  /\ alive /\ AllDone
  /\ avail = All
  /\ alive' = FALSE
  /\ avail' = {}
  /\ res' = [r \in All |-> 0]
  /\ des' = [r \in All |-> des[r] + 1]
  /\ UNCHANGED <<conf, h, pc, ip, hist, cons, maxHeld>>

Next ==
  \/ \E t \in Threads : Start(t) \/ Acquire(t) \/ Recycle(t) \/ Local(t)
  \/ Destroy

\* the same relation with the threads taken from the configuration (multi-configuration runs)
NextDyn ==
  \/ \E t \in DOMAIN prog : Start(t) \/ Acquire(t) \/ Recycle(t) \/ Local(t)
  \/ Destroy

Spec == Init /\ [][Next]_vars

\* ============================================================================ properties
\* (C25) at most `size` resources are held at any time
HeldBound == NumHolding(h) <= size /\ maxHeld <= size
\* (C25) each resource is held by at most one Resource handle at a time (and a held resource is
\* not simultaneously available in the queue)
Exclusive ==
  /\ NumHolding(h) = Cardinality(Held)
  /\ Held \cap avail = {}
\* (C25) no resource is ever lost: it is in the queue or in exactly one handle
Conservation == alive => (avail \cup Held = All)
\* (C25) acquire() blocks only while all resources are held: a thread that still waits in
\* acquire() while a resource is available can always take it (the step is enabled and succeeds);
\* the failed poll is possible only with every resource held
BlockedOnlyIfAllHeld ==
  \A t \in T : (pc[t] = "Acquire" /\ avail = {}) => NumHolding(h) = size
\* (C25) every handle that held a resource returned it when the program is over
AllReturned == (AllDone /\ alive) => (avail = All /\ Held = {})
\* (C25) every resource is constructed exactly once and destroyed exactly once, by the pool's
\* destructor
Lifetime ==
  /\ \A r \in All : cons[r] = 1 /\ des[r] = (IF alive THEN 0 ELSE 1)
  /\ \A r \in All : res[r] = (IF alive THEN 1 ELSE 0)
\* results: what acquire()/get() returned are resources of the pool
ResultsOk ==
  \A t \in T : \A i \in 1 .. Len(hist[t]) :
     (prog[t][i].op \in {"acq", "get"}) => hist[t][i] \in All

TypeOK ==
  /\ avail \subseteq All
  /\ \A t \in T : \A i \in SlotIds : h[t][i] \in (All \cup {0, -1})
  /\ \A t \in T : ip[t] \in 1 .. (Len(prog[t]) + 1)
==========================================================================
