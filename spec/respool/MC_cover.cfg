CONSTANTS
  Size = 2
  Threads = {"t1", "t2"}
  Prog <- Prog_cover
INIT Init
NEXT Next
CHECK_DEADLOCK FALSE
INVARIANTS TypeOK HeldBound Exclusive Conservation BlockedOnlyIfAllHeld AllReturned Lifetime ResultsOk ProgressPossible
