INIT FreeInit
NEXT FreeStep
CHECK_DEADLOCK FALSE
POSTCONDITION FreeAccepted
INVARIANTS FreeHeldBound FreeConservation
