----------------------------- MODULE MCResPool -----------------------------
EXTENDS ResPool
O(op, a, b) == [op |-> op, a |-> a, b |-> b]
\* the programs used here cannot deadlock (sum over threads of (max handles held - 1) < size)
ProgressPossible == AllDone \/ \E t \in T : pc[t] # "Done" /\ ~(pc[t] = "Acquire" /\ avail = {})

\* cover configuration (size 2): every operation, move-assignment onto a holding and onto an
\* empty handle, destruction of holding and of empty handles, waiting in acquire
Prog_cover == [t1 |-> <<O("acq", 1, 0), O("acq", 2, 0), O("mva", 1, 2), O("rel", 1, 0), O("rel", 2, 0)>>,
               t2 |-> <<O("acq", 1, 0), O("mvc", 1, 2), O("mva", 2, 1), O("smv", 1, 0), O("get", 1, 0),
                        O("rel", 2, 0), O("rel", 1, 0)>>]
\* size 1: three threads compete for the only resource, twice each
Prog_s1 == [t1 |-> <<O("acq", 1, 0), O("get", 1, 0), O("rel", 1, 0), O("acq", 2, 0), O("rel", 2, 0)>>,
            t2 |-> <<O("acq", 1, 0), O("mvc", 1, 2), O("rel", 1, 0), O("rel", 2, 0), O("acq", 1, 0), O("rel", 1, 0)>>,
            t3 |-> <<O("acq", 2, 0), O("smv", 2, 0), O("rel", 2, 0)>>]
\* size 2: one thread holds two handles and move-assigns one onto the other
Prog_s2 == [t1 |-> <<O("acq", 1, 0), O("acq", 2, 0), O("mva", 1, 2), O("rel", 2, 0), O("rel", 1, 0)>>,
            t2 |-> <<O("acq", 1, 0), O("rel", 1, 0), O("acq", 2, 0), O("get", 2, 0), O("rel", 2, 0)>>,
            t3 |-> <<O("acq", 1, 0), O("mvc", 1, 2), O("mva", 2, 1), O("rel", 1, 0), O("rel", 2, 0)>>]
\* size 3: two threads hold two handles each
Prog_s3 == [t1 |-> <<O("acq", 1, 0), O("acq", 2, 0), O("mva", 2, 1), O("rel", 1, 0), O("rel", 2, 0)>>,
            t2 |-> <<O("acq", 2, 0), O("acq", 1, 0), O("rel", 2, 0), O("mva", 1, 2), O("rel", 1, 0), O("rel", 2, 0)>>,
            t3 |-> <<O("acq", 1, 0), O("get", 1, 0), O("rel", 1, 0), O("acq", 1, 0), O("rel", 1, 0)>>]
\* size 4: four threads, three of them hold two handles
Prog_s4 == [t1 |-> <<O("acq", 1, 0), O("acq", 2, 0), O("mva", 1, 2), O("rel", 1, 0), O("rel", 2, 0)>>,
            t2 |-> <<O("acq", 1, 0), O("acq", 2, 0), O("rel", 1, 0), O("rel", 2, 0)>>,
            t3 |-> <<O("acq", 2, 0), O("acq", 1, 0), O("rel", 1, 0), O("rel", 2, 0)>>,
            t4 |-> <<O("acq", 1, 0), O("rel", 1, 0), O("acq", 1, 0), O("rel", 1, 0)>>]

C(n, p) == [n |-> n, p |-> p]
CfgsQuick == << C(1, Prog_s1), C(2, Prog_s2), C(3, Prog_s3), C(3, Prog_cover) >>
CfgsThorough == << C(4, Prog_s4), C(3, Prog_s2), C(4, Prog_s3), C(4, Prog_s1), C(2, Prog_s1) >>
InitQuick == \E i \in 1 .. Len(CfgsQuick) : InitWith(CfgsQuick[i].n, CfgsQuick[i].p)
InitThorough == \E i \in 1 .. Len(CfgsThorough) : InitWith(CfgsThorough[i].n, CfgsThorough[i].p)
==========================================================================
