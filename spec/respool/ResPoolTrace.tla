--------------------------- MODULE ResPoolTrace ---------------------------
(* Trace validation for ResPool.tla: controlled (serialised) executions of the   *)
(* real ResourcePool / Resource.  Every line must be explained by the action of   *)
(* the same name taken by the same thread; the projected state (number of         *)
(* resources in the queue, content of every handle slot, identity of the live     *)
(* object at every resource address, lifetime errors) and the value returned to   *)
(* the caller must equal the specification's.  Which resource acquire() returns   *)
(* is the queue's choice: the specification accepts any available one.            *)
EXTENDS ResPool, Json, IOUtils

TraceLog == ndJsonDeserialize(IOEnv.TRACE)

VARIABLE l   \* next line to consume
tvars == <<vars, l>>

TraceInit ==
  /\ l = 2
  /\ TraceLog[1].e = "Reset"
  /\ InitWith(TraceLog[1].size, TraceLog[1].prog)

ResetTo(n, p) ==
  /\ size' = n /\ prog' = p
  /\ avail' = 1 .. n
  /\ h' = [t \in DOMAIN p |-> [i \in SlotIds |-> -1]]
  /\ res' = [r \in 1 .. n |-> 1]
  /\ alive' = TRUE
  /\ pc' = [t \in DOMAIN p |-> "Start"]
  /\ ip' = [t \in DOMAIN p |-> 1]
  /\ hist' = [t \in DOMAIN p |-> <<>>]
  /\ cons' = [r \in 1 .. n |-> 1]
  /\ des' = [r \in 1 .. n |-> 0]
  /\ maxHeld' = 0

Dispatch(e, t) ==
  CASE e = "Start"   -> Start(t)
    [] e = "Acquire" -> Acquire(t)
    [] e = "Recycle" -> Recycle(t)
    [] e = "Local"   -> Local(t)
    [] OTHER         -> FALSE

ProjOK(ev) ==
  /\ Cardinality(avail') = ev.s.avail
  /\ \A t \in T : \A i \in SlotIds : h'[t][i] = ev.s.h[t][i]
  /\ \A r \in All : ev.s.ids[r] = (IF res'[r] = 1 THEN r ELSE 0)
  /\ ev.s.errs = 0

TraceStep ==
  /\ l <= Len(TraceLog)
  /\ LET ev == TraceLog[l] IN
       \/ /\ ev.e = "Reset"
          /\ ResetTo(ev.size, ev.prog)
       \/ /\ ev.e = "Destroy"
          /\ Destroy
          /\ ev.returned = size      \* everything was back in the queue ...
          /\ ev.destroyed            \* ... so the destructor ran ...
          /\ ev.live = 0             \* ... and destroyed every resource, each exactly once
          /\ ev.errs = 0
       \/ /\ ev.e \notin {"Reset", "Destroy"}
          /\ ev.t \in T
          /\ Dispatch(ev.e, ev.t)
          /\ ProjOK(ev)
          /\ ev.r = (IF ip'[ev.t] > ip[ev.t] THEN <<hist'[ev.t][Len(hist'[ev.t])]>> ELSE <<>>)
  /\ l' = l + 1

TraceSpec == TraceInit /\ [][TraceStep]_tvars

TraceAccepted ==
  LET d == TLCGet("stats").diameter IN
  IF d = Len(TraceLog) THEN TRUE
  ELSE /\ PrintT(<<"TRACE_REJECTED_AT_LINE", d + 1, "OF", Len(TraceLog)>>)
       /\ PrintT(<<"OFFENDING", TraceLog[d + 1]>>)
       /\ FALSE
==========================================================================
