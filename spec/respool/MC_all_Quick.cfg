CONSTANTS
  Size = 0
  Threads = {}
  Prog = 0
INIT InitQuick
NEXT NextDyn
CHECK_DEADLOCK FALSE
INVARIANTS TypeOK HeldBound Exclusive Conservation BlockedOnlyIfAllHeld AllReturned Lifetime ResultsOk ProgressPossible
