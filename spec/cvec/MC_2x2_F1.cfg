CONSTANTS
  Threads = {"g1", "g2"}
  NB = 8
  LogN = 16
  Fs = {1}
  Strats = {0, 1, 2}
  N0s = {0, 1, 2, 3}
  Amts = {1, 2, 3}
  N0s2 = {}
  Amts2 = {}
SPECIFICATION Spec2x2
CHECK_DEADLOCK FALSE
INVARIANTS TypeOK DistinctIndices NoLostNoOverwrite FinalSize AssignedOnce AddrStable StorageSound ConstructedInStorage QuiescentBacked AllocBalance NoLeakAfterDestroy

