CONSTANTS
  Threads = {"g1", "g2"}
  NB = 8
  LogN = 16
  Fs = {2}
  Strats = {0, 1, 2}
  N0s = {1, 3}
  Amts = {1, 2, 3}
  N0s2 = {3}
  Amts2 = {3}
SPECIFICATION Spec2q
CHECK_DEADLOCK FALSE
INVARIANTS TypeOK DistinctIndices NoLostNoOverwrite FinalSize AssignedOnce AddrStable StorageSound ConstructedInStorage QuiescentBacked AllocBalance NoLeakAfterDestroy

