------------------------------ MODULE MCCVecHB ------------------------------
(* Model-checking configurations of CVecHB.tla (property C10, ConcurrentVector).   *)
(*                                                                                 *)
(* Bucket layout: F = 2: b0 = {0,1} b1 = {2,3} b2 = {4..7} b3 = {8..15};            *)
(*                F = 1: b0 = {0} b1 = {1} b2 = {2,3} b3 = {4..7} b4 = {8..15}.     *)
(* The index that allocates bucket b + 1 ("trigger") is sub-index 0 / cap/2 /       *)
(* cap-1 of bucket b for strat 0 / 1 / 2.  Every <<F, strat, n0, programs>> below    *)
(* puts the concurrent operations around a trigger index AND the first index of the *)
(* bucket it allocates, so that allocation, publication, spinning and construction  *)
(* in the new bucket all happen concurrently.                                       *)
(*                                                                                 *)
(* FINDING (MC_hbx_iterend.cfg, invariant RaceFreeIterEnd, unchanged sources):       *)
(* ConcurrentVectorIterator::operator++ reads the PLAIN cachedPtrs_[b + 1] when it   *)
(* steps off the last element of bucket b.  With kFullBufferAhead / kHalfBufferAhead *)
(* bucket b + 1 is allocated by the owner of an EARLIER index of bucket b, and       *)
(* emplace_back / push_back only wait for their own bucket; a reader that was handed *)
(* the last element of bucket b (and its iterator) and runs                          *)
(* for (it = first; it != last; ++it) races with the allocating thread's             *)
(* cachedPtrs[b + 1] = p.  Not reachable with kAsNeeded (the owner of the last index *)
(* of a bucket allocates the next one before it constructs) nor for ranges added by  *)
(* grow_by* (the range path also waits for the bucket of index + delta): MC_hb4.cfg. *)
EXTENDS CVecHB

O(op, n, v) == [op |-> op, n |-> n, v |-> v]

OptsAll == {[cache |-> c, fast |-> f] : c \in BOOLEAN, f \in BOOLEAN}
OptsCacheFast == {[cache |-> TRUE, fast |-> TRUE]}
\* every build variant but cachedPtrs_ + ConcurrentVectorIterator (= the variants in which operator++ performs no plain
\* read of the next bucket's pointer; also what the model looks like once operator++ loads buffers_[bucket] relaxed)
OptsNotCacheFast == OptsAll \ OptsCacheFast

\* ---- hb1: single path (emplace_back / push_back), 2 growers x 2 pushes, one ghost reader
Prog_push == [g1 |-> <<O("push", 1, 100), O("emplace", 1, 110)>>,
              g2 |-> <<O("pushm", 1, 200), O("push", 1, 210)>>]
\* as-needed: 6, 7 (trigger -> b3), 8 (first of b3), 9;  half: 5, 6 (trigger), 7, 8;
\* full (F = 1): 2 (trigger -> b3), 3, 4 (first of b3, trigger -> b4), 5
\* half, n0 = 0: index 1 is a trigger whose bucket (b1) the constructor already allocated (SaLdNext reads non-null),
\* index 3 (trigger) allocates b2
Cfgs_push0 == {<<2, 1, 0, Prog_push>>}
Cfgs_push == {<<2, 2, 6, Prog_push>>, <<2, 1, 5, Prog_push>>, <<1, 0, 2, Prog_push>>} \cup Cfgs_push0

\* ---- hb2: range path (grow_by variants, grow_to_at_least) mixed with a push, 2 growers, one ghost reader
Prog_range == [g1 |-> <<O("growr", 3, 100), O("push", 1, 110)>>,
               g2 |-> <<O("growv", 2, 200), O("gtalv", 9, 210)>>]
\* half, n0 = 0: the first range counts / tries to assign b1, which the constructor already allocated (RaLdCnt and
\* RaLdAsg read non-null)
Cfgs_range0 == {<<2, 1, 0, Prog_range>>}
Cfgs_range == {<<2, s, 3, Prog_range>> : s \in {0, 1, 2}} \cup Cfgs_range0

\* ---- hb3: 3 growers (single, range, grow_to_at_least) + the library-side observers of the base spec
Prog_mix == [g1 |-> <<O("push", 1, 100)>>,
             g2 |-> <<O("gen", 3, 200)>>,
             g3 |-> <<O("gtal", 6, 0)>>,
             o  |-> <<O("size", 0, 0), O("end", 0, 0), O("rd", 1, 0)>>]
Cfgs_mix == {<<2, 0, 3, Prog_mix>>, <<2, 1, 2, Prog_mix>>, <<2, 2, 3, Prog_mix>>, <<1, 2, 3, Prog_mix>>}

\* ---- hbx_iterend: the finding.  full-ahead, n0 = 4: g1 owns index 4 (trigger -> b3), g2 owns 5, 6, 7;
\* half-ahead, n0 = 6: g1 owns index 6 (trigger -> b3), g2 owns 7 (last of b2), 8, 9
Prog_iterend == [g1 |-> <<O("push", 1, 100)>>,
                 g2 |-> <<O("push", 1, 200), O("push", 1, 210), O("push", 1, 220)>>]
Cfgs_iterend == {<<2, 0, 4, Prog_iterend>>, <<2, 1, 6, Prog_iterend>>}

\* ---- hb4: readers that step off the end of a handed-over range where that IS ordered: the default strategy
\* (kAsNeeded) with single-path growth, and every strategy when all ranges come from the range path
Prog_rangeonly == [g1 |-> <<O("growr", 3, 100), O("growd", 2, 0)>>,
                   g2 |-> <<O("growv", 2, 200), O("gtalv", 9, 210)>>]
Cfgs_iterend_ok == {<<2, 2, 4, Prog_iterend>>, <<2, 2, 6, Prog_iterend>>, <<1, 2, 2, Prog_iterend>>}
                     \cup {<<2, s, 3, Prog_rangeonly>> : s \in {0, 1, 2}}
==========================================================================
