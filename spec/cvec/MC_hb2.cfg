CONSTANTS
  PreFixIter = FALSE
  Threads = {"g1", "g2"}
  Readers = {"r"}
  RModes = {"idx", "iter"}
  MaxClaims = 4
  NB = 6
  LogN = 16
  Opts <- OptsAll
  Cfgs <- Cfgs_range
INIT HInit
NEXT HNext
CHECK_DEADLOCK FALSE
INVARIANTS OrdersComplete RaceFree HTypeOK TypeOK AssignedOnce NoLostNoOverwrite
