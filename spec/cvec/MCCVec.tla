------------------------------- MODULE MCCVec -------------------------------
(* Model-checking configurations of CVec.tla.                                      *)
EXTENDS CVec

O(op, n, v) == [op |-> op, n |-> n, v |-> v]

CONSTANTS Fs,       \* first bucket lengths
          Strats,   \* reallocation strategies
          N0s,      \* initial sizes
          Amts,     \* growth amounts of the range operations
          N0s2, Amts2   \* the same for the second shape of a combined configuration

\* ---- cover configuration (one initial state per strategy; the graph is dumped and replayed) ----
\* g1 takes an index with the single path (allocating when it is the trigger index) and then grows
\* to at least 7; g2 grows by 3 across a bucket boundary with the range path; r reads element 1 while
\* they grow (size(): see the random programs).
Prog_cover == [g1 |-> <<O("push", 1, 10), O("gtal", 7, 0)>>,
               g2 |-> <<O("growr", 3, 20)>>,
               r  |-> <<O("rd", 1, 0)>>]
CoverInit == \E f \in Fs, s \in Strats, n \in N0s : InitWith(f, s, n, Prog_cover)

\* ---- exhaustive configurations: ALL programs of a shape ---------------------------------------
\* Every operation of a grower is a push, a range growth by an amount in Amts, or (last operation)
\* a grow_to_at_least(5, v).
Choices(base) == {O("push", 1, base)} \cup {O("growr", n, base) : n \in Amts}
Choices2(base) == Choices(base) \cup {O("gtalv", 5, base)}
Progs1(base) == {<<o>> : o \in Choices2(base)}
Progs2(base) == {<<o1, o2>> : o1 \in Choices(base), o2 \in Choices2(base + 10)}

Init2x1 ==
  \E f \in Fs, s \in Strats, n \in N0s :
    \E p1 \in Progs1(100), p2 \in Progs1(200) :
       InitWith(f, s, n, [g1 |-> p1, g2 |-> p2])
Init2x2 ==
  \E f \in Fs, s \in Strats, n \in N0s :
    \E p1 \in Progs2(100), p2 \in Progs2(200) :
       InitWith(f, s, n, [g1 |-> p1, g2 |-> p2])
Init3x1 ==
  \E f \in Fs, s \in Strats, n \in N0s :
    \E p1 \in Progs1(100), p2 \in Progs1(200), p3 \in Progs1(300) :
       InitWith(f, s, n, [g1 |-> p1, g2 |-> p2, g3 |-> p3])

\* quick tier: both two-grower shapes in one run
Choices_b(base) == {O("push", 1, base)} \cup {O("growr", n, base) : n \in Amts2}
Progs2_b(base) == {<<o1, o2>> : o1 \in Choices_b(base),
                                 o2 \in Choices_b(base + 10) \cup {O("gtalv", 5, base + 10)}}
Init2q ==
  \/ Init2x1
  \/ \E f \in Fs, s \in Strats, n \in N0s2 :
       \E p1 \in Progs2_b(100), p2 \in Progs2_b(200) :
          InitWith(f, s, n, [g1 |-> p1, g2 |-> p2])
Spec2q == Init2q /\ [][Next]_vars /\ Fairness

CoverSpec == CoverInit /\ [][Next]_vars /\ Fairness
Spec2x1 == Init2x1 /\ [][Next]_vars /\ Fairness
Spec2x2 == Init2x2 /\ [][Next]_vars /\ Fairness
Spec3x1 == Init3x1 /\ [][Next]_vars /\ Fairness
==========================================================================
