CONSTANTS
  PreFixIter = FALSE
  Threads = {"g1", "g2", "g3", "o"}
  Readers = {"r"}
  RModes = {"idx", "iter"}
  MaxClaims = 3
  NB = 6
  LogN = 16
  Opts <- OptsAll
  Cfgs <- Cfgs_mix
INIT HInit
NEXT HNext
CHECK_DEADLOCK FALSE
INVARIANTS OrdersComplete RaceFree HTypeOK TypeOK AssignedOnce NoLostNoOverwrite
