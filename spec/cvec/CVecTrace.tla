----------------------------- MODULE CVecTrace -----------------------------
(* Trace validation for CVec.tla: every line of the ndjson trace recorded from the  *)
(* real ConcurrentVector under the controlled scheduler (harness/drv/drv_cvec.cpp)    *)
(* must be explained by the specification action of the same name taken by the same   *)
(* thread, and after every step                                                        *)
(*   size_, buffers_[b] (as <<first bucket of its contiguous run, element offset>>),   *)
(*   shouldDealloc_[b], cachedPtrs_[b] (null / consistent), the id of the element      *)
(*   object alive in every slot (address registry), the lifetime error count,          *)
(*   the cv::alloc / cv::dealloc calls made during the step and the value returned     *)
(*   to the caller                                                                     *)
(* must equal the specification's.  All invariants of CVec.tla are evaluated in every   *)
(* state of the validated behaviour.  The destructor runs as logical thread "dtor".    *)
EXTENDS CVec, Json, IOUtils

TraceLog == ndJsonDeserialize(IOEnv.TRACE)

VARIABLES l,     \* next line to consume
          inl    \* trace only: 1 = buffers_ array inside the vector object, 0 = separately allocated

tvars == <<vars, l, inl>>

TraceInit ==
  /\ l = 2
  /\ TraceLog[1].e = "Reset"
  /\ inl = TraceLog[1].inl
  /\ InitWith(TraceLog[1].F, TraceLog[1].strat, TraceLog[1].n0, TraceLog[1].prog)

ResetTo(f, s, n, p) ==
  /\ F' = f /\ strat' = s /\ n0' = n /\ prog' = p
  /\ size' = n
  /\ buf' = InitBuf(f, s, n)
  /\ cached' = InitBuf(f, s, n)
  /\ dl' = [b \in Buckets |-> b >= 2 /\ b \in InitAllocated(f, s, n)]
  /\ data' = [i \in Slots |-> IF i < n THEN i + 1 ELSE 0]
  /\ alive' = TRUE
  /\ pc' = [t \in DOMAIN p |-> "Start"]
  /\ ip' = [t \in DOMAIN p |-> 1]
  /\ loc' = [t \in DOMAIN p |-> EmptyLoc]
  /\ emit' = <<>>
  /\ nblk' = InitNblk(f, s, n)
  /\ blen' = InitBlen(f, s, n)
  /\ stores' = [b \in Buckets |-> IF b \in InitAllocated(f, s, n) THEN 1 ELSE 0]
  /\ first' = InitBuf(f, s, n)
  /\ claims' = <<>>
  /\ nfree' = 0

Dispatch(e, t) ==
  CASE e = "Start"     -> Start(t)
    [] e = "EbFaa"     -> EbFaa(t)
    [] e = "SaLdNext"  -> SaLdNext(t)
    [] e = "SaStNext"  -> SaStNext(t)
    [] e = "SaSpinLd"  -> SaSpinLd(t)
    [] e = "GtLd"      -> GtLd(t)
    [] e = "GbFaa"     -> GbFaa(t)
    [] e = "RaLdCnt"   -> RaLdCnt(t)
    [] e = "RaLdCntX"  -> RaLdCntX(t)
    [] e = "RaLdAsg"   -> RaLdAsg(t)
    [] e = "RaStAsg"   -> RaStAsg(t)
    [] e = "RaSpinLd"  -> RaSpinLd(t)
    [] e = "SzLd"      -> SzLd(t)
    [] e = "EndLdSize" -> EndLdSize(t)
    [] e = "RdElem"    -> RdElem(t)
    [] OTHER           -> FALSE

\* the specification's buffers_[b] in the form the driver can observe: the smallest bucket whose
\* pointer lies in the same block, and the element offset from that bucket's pointer
CanonBuf(bf, b) ==
  IF bf[b] = Null THEN <<>>
  ELSE LET fb == CHOOSE x \in Buckets :
                    /\ bf[x] # Null /\ bf[x][1] = bf[b][1]
                    /\ \A y \in Buckets : (bf[y] # Null /\ bf[y][1] = bf[b][1]) => x <= y
       IN <<fb, bf[b][2] - bf[fb][2]>>

ProjOK(ev) ==
  /\ size' = ev.s.size
  /\ \A b \in Buckets :
        /\ CanonBuf(buf', b) = ev.s.buf[b + 1]
        /\ dl'[b] = (ev.s.dl[b + 1] = 1)
        /\ ev.s.cs[b + 1] = (IF cached'[b] = Null THEN 0 ELSE 1)
  /\ \A i \in Slots : data'[i] = ev.s.data[i + 1]
  /\ ev.s.errs = 0
  /\ ev.r = emit'

TraceStep ==
  /\ l <= Len(TraceLog)
  /\ LET ev == TraceLog[l] IN
       \/ /\ ev.e = "Reset"
          /\ ResetTo(ev.F, ev.strat, ev.n0, ev.prog)
          /\ inl' = ev.inl
       \/ /\ ev.e = "Start" /\ ev.t = "dtor"        \* ~ConcurrentVector()
          /\ Destroy
          \* one cv::dealloc per owned block (+ the heap-allocated buffers_ array, which the
          \* constructor allocated before the run)
          /\ ev.r = emit' \o (IF inl = 0 THEN <<<<"CvFree", 0, 0>>>> ELSE <<>>)
          /\ ev.s.live = 0 /\ ev.s.bal = 0 /\ ev.s.errs = 0
          /\ UNCHANGED inl
       \/ /\ ev.e # "Reset" /\ ev.t # "dtor"
          /\ ev.t \in T
          /\ Dispatch(ev.e, ev.t)
          /\ ProjOK(ev)
          /\ UNCHANGED inl
  /\ l' = l + 1

TraceSpec == TraceInit /\ [][TraceStep]_tvars

\* One state per consumed line (TraceInit consumes line 1).
TraceAccepted ==
  LET d == TLCGet("stats").diameter IN
  IF d = Len(TraceLog) THEN TRUE
  ELSE /\ PrintT(<<"TRACE_REJECTED_AT_LINE", d + 1, "OF", Len(TraceLog)>>)
       /\ PrintT(<<"OFFENDING", TraceLog[d + 1]>>)
       /\ FALSE
==========================================================================
