------------------------------ MODULE CVecObs ------------------------------
(* E5 record validator for C33 (ConcurrentVector concurrent growth is exact).             *)
(*                                                                                         *)
(* Every line is ONE free-running round of harness/drv/drv_cvec.cpp --stress: 2-4 real     *)
(* threads grow one fresh ConcurrentVector truly concurrently (no controller, the hook      *)
(* points are inert), sometimes while a reader thread reads the elements published before  *)
(* the round through references and iterators taken before anything grew.  The record      *)
(* holds what a user of the public API can observe:                                        *)
(*   {"e":"CVec","round":r,"stuck":0|1,"F":first bucket,"strat":..,"inl":..,"fast":..,    *)
(*    "n0": elements 1 .. n0 pushed by the constructing thread before the round,           *)
(*    "thr":[ per grower {"mis": m, "ops":[ in program order                                *)
(*        [operation, n = growth amount / grow_to_at_least target, v = value tag,           *)
(*         p = returned iterator - begin(), s = size() read right after the call] ]} ],     *)
(*    "rd":{"on":0|1,"mis":m,"passes":..},                                                  *)
(*    after all threads were joined: "size": size(), "enddist": end() - begin(),            *)
(*    "data": [ value of element 0 .. size-1 through operator[] ], "itmis": positions at    *)
(*    which a traversal with iterators disagrees with operator[], and - after the vector    *)
(*    was destroyed - "dbl": constructions over a live element, "baddtor": destructions of *)
(*    a dead element, "bal": constructions - destructions}                                  *)
(* Values: operation k (0-based) of grower t writes the tag v = t*100000 + k*100 into every *)
(* element it adds (push*, emplace, growv, gtalv: v; growr, growi, gen: v + j for the j-th   *)
(* element; growd, gtal: the element type's default constructor takes the tag of the        *)
(* operation its thread is executing).  So the owner of every slot is visible in "data".    *)
(*                                                                                         *)
(* There are no timestamps and no cross-thread order in a record: RecordsOK is the part of  *)
(* C33 (CVec.tla: DistinctIndices, NoLostNoOverwrite, FinalSize, AddrStable,                *)
(* NoLeakAfterDestroy, Termination) that holds for EVERY interleaving of the growth         *)
(* operations - also for interleavings inside what CVec.tla treats as one step - because it *)
(* only uses: size_ is modified by fetch_add of non-negative amounts only (so every load    *)
(* and every fetch_add result of one thread is non-decreasing in its program order, and the *)
(* ranges [result, result + amount) of all fetch_adds tile [n0, final size)), and an        *)
(* element is written by the owner of its index only.                                       *)
EXTENDS Integers, Sequences, FiniteSets, TLC, Json, IOUtils

ObsLog == ndJsonDeserialize(IOEnv.TRACE)

VARIABLE l
ObsInit == l = 1
ObsNext == l <= Len(ObsLog) /\ l' = l + 1
ObsSpec == ObsInit /\ [][ObsNext]_l

\* an operation is the tuple <<name, n, v, p, s>> (see above)
OpK(o) == o[1]
OpN(o) == o[2]
OpV(o) == o[3]
OpP(o) == o[4]
OpS(o) == o[5]
IsGtal(k) == k \in {"gtal", "gtalv"}
\* element j of the operation holds v + j (growr, growi, gen) or v (all others)
Inc(k) == IF k \in {"growr", "growi", "gen"} THEN 1 ELSE 0

\* number of elements the operation added: its argument, except for grow_to_at_least, whose
\* amount (target - the size it loaded) is not returned to the caller: it is the number of slots
\* that hold its tag (tags are unique per operation, TagsOK)
Added(rec, o) ==
  IF IsGtal(OpK(o)) THEN Cardinality({i \in 1 .. Len(rec.data) : rec.data[i] = OpV(o)}) ELSE OpN(o)

\* sum of D[t][i] over the operations from <<t, i>> on (program order, grower by grower)
RECURSIVE SumFrom(_, _, _)
SumFrom(D, t, i) ==
  IF t > Len(D) THEN 0
  ELSE IF i > Len(D[t]) THEN SumFrom(D, t + 1, 1)
  ELSE D[t][i] + SumFrom(D, t, i + 1)

\* (a) Termination: every growth call returns (every spin on a bucket pointer ends, because the
\*     owner of the bucket's trigger index publishes it).  The driver writes stuck = 1 if a round
\*     did not finish within 10 s of wall-clock time.
Finished(rec) == rec.stuck = 0

\* (b) after the threads were joined the three views of the vector agree: size(), end() - begin(),
\*     and a traversal with iterators visits exactly the elements operator[] returns
\*     (QuiescentBacked: every slot below size is backed by its bucket).
ViewsAgree(rec) ==
  /\ rec.size >= 0
  /\ Len(rec.data) = rec.size
  /\ rec.enddist = rec.size
  /\ rec.itmis = 0

\* (c) NoLostNoOverwrite for the initial elements: nobody's index range contains a slot below n0.
InitialKept(rec) ==
  /\ rec.n0 <= rec.size
  /\ \A i \in 1 .. rec.n0 : rec.data[i] = i

\* (input) the driver's value tags: operation i of grower t uses the values t*100000 + (i-1)*100 + j,
\*     j < 100, so no value is written by two operations (and none is an initial element's value).
\*     This is a fact about the program the driver issued, not about the library.
TagsOK(rec) ==
  \A t \in 1 .. Len(rec.thr) : \A i \in 1 .. Len(rec.thr[t].ops) :
    LET o == rec.thr[t].ops[i] IN
    /\ OpV(o) = t * 100000 + (i - 1) * 100
    /\ OpN(o) >= 0
    /\ (~IsGtal(OpK(o)) => OpN(o) < 100)

\* (d) DistinctIndices + NoLostNoOverwrite: the iterator a growth call returns designates the first
\*     of the slots that call reserved (its fetch_add result), the reserved range lies inside
\*     [n0, final size) (size_ never decreases and the final size is the value after the last
\*     fetch_add), and after the join every slot of the range holds what its owner put there.  A
\*     grow_by(0) reserves nothing and returns the size at its fetch_add.
\*     Because no value is written by two operations (TagsOK), this also says that the ranges of two
\*     operations are DISJOINT (results of fetch_adds on one atomic word): a slot in two ranges would
\*     have to hold two different values.
RangeOK(rec, o, d) ==
  IF d = 0 THEN (IsGtal(OpK(o)) \/ (rec.n0 <= OpP(o) /\ OpP(o) <= rec.size))
  ELSE /\ rec.n0 <= OpP(o)
       /\ OpP(o) + d <= rec.size
       /\ \A j \in 0 .. (d - 1) : rec.data[OpP(o) + j + 1] = OpV(o) + Inc(OpK(o)) * j

\* (g) grow_to_at_least(n): size_t cur = size_.load(); cur < n ? grow_by(n - cur) : iterator to n - 1.
\*     If it grew by d > 0: cur = n - d is an earlier value of size_ (n0 <= cur) and the fetch_add
\*     result p is a later one (cur <= p), hence d <= n - n0 and p + d >= n.  If it did not grow it
\*     returns the iterator to element n - 1.  Either way size() >= n afterwards.
GtalOK(rec, o, d) ==
  IsGtal(OpK(o)) =>
    /\ OpS(o) >= OpN(o)
    /\ (IF d = 0 THEN OpP(o) = OpN(o) - 1 ELSE (d <= OpN(o) - rec.n0 /\ OpP(o) + d >= OpN(o)))

\* (h) per-thread program order: the loads and fetch_add results of ONE thread on size_ are
\*     non-decreasing (coherence; size_ only grows): size() after a call that grew is at least the
\*     end of the reserved range, never more than the final size, never less than size() after the
\*     previous call, and a later fetch_add result is at least the size() read before it.
Grew(o, d) == ~IsGtal(OpK(o)) \/ d > 0
ProgramOrderOK(rec, D) ==
  \A t \in 1 .. Len(rec.thr) :
    LET ops == rec.thr[t].ops IN
    \A i \in 1 .. Len(ops) :
      /\ OpS(ops[i]) <= rec.size
      /\ OpS(ops[i]) >= rec.n0
      /\ (Grew(ops[i], D[t][i]) => OpS(ops[i]) >= OpP(ops[i]) + D[t][i])
      /\ (i > 1 => /\ OpS(ops[i]) >= OpS(ops[i - 1])
                   /\ (Grew(ops[i], D[t][i]) => OpP(ops[i]) >= OpS(ops[i - 1])))

\* (i) AddrStable + NoLostNoOverwrite: every reference and every iterator taken earlier (by a grower
\*     to the first and last element of each of its own completed ranges, by the reader to the
\*     initial elements) still designates the same object holding the same value, and agrees with
\*     operator[] and with iterator arithmetic, whenever it is used again during the round; the
\*     reader also sees size() never shrink.  The counters count the uses that did not.
RefsValid(rec) ==
  /\ \A t \in 1 .. Len(rec.thr) : rec.thr[t].mis = 0
  /\ rec.rd.mis = 0

\* (j) element lifetimes (NoLostNoOverwrite / NoLeakAfterDestroy): no element was constructed over a
\*     live one, the destructor of the vector destroyed live elements only, and after it every
\*     element ever constructed (temporaries of the driver included) has been destroyed.
LifetimesOK(rec) == rec.dbl = 0 /\ rec.baddtor = 0 /\ rec.bal = 0

\* (f) FinalSize: the final size is n0 + the total growth (so, with (d), the ranges tile [n0, size):
\*     no index is handed out twice and none is lost).
RecOK(rec) ==
  rec.e = "CVec" =>
    /\ Finished(rec)
    /\ ViewsAgree(rec)
    /\ InitialKept(rec)
    /\ TagsOK(rec)
    /\ LET D == [t \in 1 .. Len(rec.thr) |->
                  [i \in 1 .. Len(rec.thr[t].ops) |-> Added(rec, rec.thr[t].ops[i])]]
       IN /\ \A t \in 1 .. Len(rec.thr) : \A i \in 1 .. Len(rec.thr[t].ops) :
               /\ RangeOK(rec, rec.thr[t].ops[i], D[t][i])
               /\ GtalOK(rec, rec.thr[t].ops[i], D[t][i])
          /\ rec.size = rec.n0 + SumFrom(D, 1, 1)
          /\ ProgramOrderOK(rec, D)
    /\ RefsValid(rec)
    /\ LifetimesOK(rec)

RecordsOK == l > Len(ObsLog) \/ RecOK(ObsLog[l])

ObsAccepted ==
  LET d == TLCGet("stats").diameter IN
  IF d = Len(ObsLog) + 1 THEN TRUE
  ELSE /\ PrintT(<<"TRACE_REJECTED_AT_LINE", d, "OF", Len(ObsLog)>>)
       /\ FALSE
=============================================================================
