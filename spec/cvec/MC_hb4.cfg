CONSTANTS
  PreFixIter = FALSE
  Threads = {"g1", "g2"}
  Readers = {"r"}
  RModes = {"iterend"}
  MaxClaims = 4
  NB = 6
  LogN = 16
  Opts <- OptsCacheFast
  Cfgs <- Cfgs_iterend_ok
INIT HInit
NEXT HNext
CHECK_DEADLOCK FALSE
INVARIANTS OrdersComplete RaceFree HTypeOK TypeOK AssignedOnce NoLostNoOverwrite
