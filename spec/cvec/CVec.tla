-------------------------------- MODULE CVec --------------------------------
(* Implementation-level specification of CONCURRENT GROWTH of                      *)
(* dispenso::ConcurrentVector (dispenso/concurrent_vector.h,                       *)
(* dispenso/detail/concurrent_vector_impl.h), property C33.                        *)
(*                                                                                 *)
(* One action per atomic access of the code; the action name is the                *)
(* DISPENSO_VERIF_POINT site placed immediately before that access.  Non-atomic    *)
(* work between two points (cv::alloc, the write of cachedPtrs_[b], the write of    *)
(* shouldDealloc_[b], the construction of the new elements) belongs to the step     *)
(* that begins at the earlier point.                                               *)
(*                                                                                 *)
(*   emplace_back / push_back        EbFaa  [SaLdNext [SaStNext]]  SaSpinLd+        *)
(*   grow_by* / grow_by_generator    GbFaa  RaLdCnt* [RaLdCntX]                     *)
(*                                          (RaLdAsg [RaStAsg])*  RaSpinLd+          *)
(*   grow_to_at_least                GtLd   then the grow_by path if shorter        *)
(*   size() / end() / element reads  SzLd / EndLdSize / RdElem (reader threads)     *)
(*                                                                                 *)
(* Shared words: size (size_), buf[b] (buffers_[b]: 0 = nullptr, else <<block,       *)
(* offset>> - the element offset inside the cv::alloc'ed block, never an address),  *)
(* cached[b] (cachedPtrs_[b], written before the store to buffers_[b]), dl[b]        *)
(* (shouldDealloc_[b], written after it), data[i] (id of the element object living  *)
(* in slot i, 0 = none).                                                            *)
(*                                                                                 *)
(* Loads of buffers_[b] that happen after the same thread has already seen that     *)
(* word non-null (the iterator constructor, emplace_back's address computation)     *)
(* are folded into the step that saw it: the word is write-once (invariants          *)
(* AssignedOnce / AddrStable), so they cannot observe anything else.                 *)
(*                                                                                 *)
(* Configuration (variables, so that a trace can re-initialise them): F = length of *)
(* the first bucket, strat = 0 kFullBufferAhead | 1 kHalfBufferAhead | 2 kAsNeeded, *)
(* n0 = elements 1 .. n0 pushed one at a time by the constructing thread before the  *)
(* logical threads start, prog = the programs.                                       *)
EXTENDS Integers, Sequences, FiniteSets, TLC

CONSTANTS Threads,    \* set of thread names - model checking only (quantifier domain of Next)
          NB,         \* number of buffers_ slots modelled
          LogN        \* number of element slots modelled (indices 0 .. LogN - 1)

VARIABLES
  F, strat, n0, prog,             \* configuration
  size, buf, cached, dl, data,    \* shared state
  alive,                          \* vector not yet destroyed
  pc, ip, loc,                    \* per thread: program counter, current op, locals
  emit,                           \* what the last step handed to the harness: notes and results
  \* ghosts
  nblk,                           \* blocks allocated so far (block ids 0 .. nblk - 1)
  blen,                           \* blen[k] = length (elements) of block k
  stores,                         \* stores[b] = number of stores to buffers_[b] (initial ones included)
  first,                          \* first[b] = the first value stored to buffers_[b]
  claims,                         \* sequence of [t, k, from, n]: index ranges reserved by fetch_add
  nfree                           \* blocks freed by the destructor

cfgv   == <<F, strat, n0, prog>>
shared == <<size, buf, cached, dl, data, alive>>
ghost  == <<nblk, blen, stores, first, claims, nfree>>
vars   == <<F, strat, n0, prog, size, buf, cached, dl, data, alive, pc, ip, loc, emit,
            nblk, blen, stores, first, claims, nfree>>

DefaultId == 99
Null == <<>>
Ptr(k, o) == <<k, o>>

\* ------------------------------------------------------------------ bucket arithmetic
RECURSIVE Log2(_)
Log2(n) == IF n <= 1 THEN 0 ELSE 1 + Log2(n \div 2)
RECURSIVE Pow2(_)
Pow2(k) == IF k = 0 THEN 1 ELSE 2 * Pow2(k - 1)

\* bucketAndSubIndex(index)
BktF(f, i) == IF i < f THEN 0 ELSE Log2(i) + 1 - Log2(f)
SubF(f, i) == IF i < f THEN i ELSE i - Pow2(Log2(i))
CapF(f, i) == IF i < f THEN f ELSE Pow2(Log2(i))
Bkt(i) == BktF(F, i)
Sub(i) == SubF(F, i)
CapAt(i) == CapF(F, i)
\* capacity of bucket b
BCapF(f, b) == IF b = 0 THEN f ELSE f * Pow2(b - 1)
BCap(b) == BCapF(F, b)
\* allocCheckIndex(bucketCapacity)
TrigS(s, c) == CASE s = 0 -> 0 [] s = 1 -> c \div 2 [] OTHER -> c - 1
Trig(c) == TrigS(strat, c)

Buckets == 0 .. (NB - 1)
Slots == 0 .. (LogN - 1)

\* ------------------------------------------------------------------ programs
SingleOps == {"push", "pushm", "emplace"}              \* emplace_back path
RangeOps == {"growd", "growv", "growr", "growi", "gen"}  \* growByUninitialized path
GtalOps == {"gtal", "gtalv"}                             \* grow_to_at_least(n [, v])
ReadOps == {"size", "end", "rd"}

\* id of the j-th (0-based) element constructed by operation o
Val(o, j) ==
  CASE o.op \in {"growd", "gtal"} -> DefaultId
    [] o.op \in {"growv", "gtalv"} -> o.v
    [] OTHER -> o.v + j

FirstPcOf(o) ==
  CASE o.op \in SingleOps -> "EbFaa"
    [] o.op \in RangeOps -> "GbFaa"
    [] o.op \in GtalOps -> "GtLd"
    [] o.op = "size" -> "SzLd"
    [] o.op = "end" -> "EndLdSize"
    [] o.op = "rd" -> "RdElem"

FirstPc(t, i) == IF i > Len(prog[t]) THEN "Done" ELSE FirstPcOf(prog[t][i])
Op(t) == prog[t][ip[t]]
T == DOMAIN prog

EmptyLoc == [idx |-> 0, d |-> 0, lb |-> 0, cap |-> 0, sz |-> 0, ab |-> Null, fa |-> FALSE,
             ph |-> "loop", sb |-> 0, nb |-> Null]

\* ------------------------------------------------------------------ initial state
\* The constructor allocates buckets 0 and 1 as ONE block (block 0); the n0 sequential push_backs
\* allocate bucket b + 1 (own block) when they take the trigger index of bucket b.
InitAllocated(f, s, n) ==
  {0, 1} \cup {BktF(f, i) + 1 : i \in {j \in 0 .. (n - 1) : SubF(f, j) = TrigS(s, CapF(f, j))}}
\* blocks are numbered in allocation order = bucket order
InitBlockOf(f, s, n, b) == IF b <= 1 THEN 0 ELSE Cardinality({x \in InitAllocated(f, s, n) : x >= 2 /\ x < b}) + 1
InitBuf(f, s, n) ==
  [b \in Buckets |->
     IF b \notin InitAllocated(f, s, n) THEN Null
     ELSE IF b = 0 THEN Ptr(0, 0)
     ELSE IF b = 1 THEN Ptr(0, f)
     ELSE Ptr(InitBlockOf(f, s, n, b), 0)]
InitNblk(f, s, n) == 1 + Cardinality({x \in InitAllocated(f, s, n) : x >= 2})
InitBlen(f, s, n) ==
  [k \in 0 .. (InitNblk(f, s, n) - 1) |->
     IF k = 0 THEN 2 * f
     ELSE BCapF(f, CHOOSE b \in InitAllocated(f, s, n) : b >= 2 /\ InitBlockOf(f, s, n, b) = k)]

InitWith(f, s, n, p) ==
  /\ F = f /\ strat = s /\ n0 = n /\ prog = p
  /\ size = n
  /\ buf = InitBuf(f, s, n)
  /\ cached = InitBuf(f, s, n)
  /\ dl = [b \in Buckets |-> b >= 2 /\ b \in InitAllocated(f, s, n)]
  /\ data = [i \in Slots |-> IF i < n THEN i + 1 ELSE 0]
  /\ alive = TRUE
  /\ pc = [t \in DOMAIN p |-> "Start"]
  /\ ip = [t \in DOMAIN p |-> 1]
  /\ loc = [t \in DOMAIN p |-> EmptyLoc]
  /\ emit = <<>>
  /\ nblk = InitNblk(f, s, n)
  /\ blen = InitBlen(f, s, n)
  /\ stores = [b \in Buckets |-> IF b \in InitAllocated(f, s, n) THEN 1 ELSE 0]
  /\ first = InitBuf(f, s, n)
  /\ claims = <<>>
  /\ nfree = 0

\* ------------------------------------------------------------------ helpers
Goto(t, l) == pc' = [pc EXCEPT ![t] = l]
\* finish the current operation of t, handing result r (a sequence) to the caller
Finish(t, r) ==
  /\ ip' = [ip EXCEPT ![t] = @ + 1]
  /\ Goto(t, FirstPc(t, ip[t] + 1))
  /\ emit' = r
AllocNote(n) == <<<<"CvAlloc", n, 0>>>>
\* cv::alloc<T>(n): a new block
NewBlock(n) ==
  /\ nblk' = nblk + 1
  /\ blen' = [k \in 0 .. nblk |-> IF k = nblk THEN n ELSE blen[k]]
\* the store to buffers_[b]
StoreBuf(b, p) ==
  /\ buf' = [buf EXCEPT ![b] = p]
  /\ stores' = [stores EXCEPT ![b] = @ + 1]
  /\ first' = [first EXCEPT ![b] = IF @ = Null THEN p ELSE @]
\* construct the n elements of operation o at slots from .. from + n - 1
Construct(o, from, n) ==
  data' = [i \in Slots |-> IF i >= from /\ i < from + n THEN Val(o, i - from) ELSE data[i]]

Start(t) ==
  /\ pc[t] = "Start"
  /\ Goto(t, FirstPc(t, 1))
  /\ emit' = <<>>
  /\ UNCHANGED <<cfgv, shared, ip, loc, ghost>>

\* ------------------------------------------------------------------ emplace_back / push_back
\* auto index = size_.fetch_add(1); binfo = bucketAndSubIndex(index);
EbFaa(t) ==
  /\ pc[t] = "EbFaa"
  /\ size' = size + 1
  /\ claims' = Append(claims, [t |-> t, k |-> ip[t], from |-> size, n |-> 1])
  /\ loc' = [loc EXCEPT ![t] = [EmptyLoc EXCEPT !.idx = size, !.d = 1]]
  /\ Goto(t, IF Sub(size) = Trig(CapAt(size)) THEN "SaLdNext" ELSE "SaSpinLd")
  /\ emit' = <<>>
  /\ UNCHANGED <<cfgv, buf, cached, dl, data, alive, ip, nblk, blen, stores, first, nfree>>

\* if (!buffers_[bucket + 1].load()) { newBuf = cv::alloc(cap << 1); cacheUpdate(bucket + 1, newBuf);
SaLdNext(t) ==
  /\ pc[t] = "SaLdNext"
  /\ LET b == Bkt(loc[t].idx) + 1
         n == 2 * CapAt(loc[t].idx)
     IN IF buf[b] = Null
          THEN /\ NewBlock(n)
               /\ loc' = [loc EXCEPT ![t].nb = Ptr(nblk, 0)]
               /\ cached' = [cached EXCEPT ![b] = Ptr(nblk, 0)]
               /\ Goto(t, "SaStNext")
               /\ emit' = AllocNote(n)
          ELSE /\ Goto(t, "SaSpinLd")
               /\ emit' = <<>>
               /\ UNCHANGED <<loc, cached, nblk, blen>>
  /\ UNCHANGED <<cfgv, size, buf, dl, data, alive, ip, stores, first, claims, nfree>>

\* buffers_[bucket + 1].store(newBuf); shouldDealloc_[bucket + 1] = true; }
SaStNext(t) ==
  /\ pc[t] = "SaStNext"
  /\ LET b == Bkt(loc[t].idx) + 1 IN
       /\ StoreBuf(b, loc[t].nb)
       /\ dl' = [dl EXCEPT ![b] = TRUE]
  /\ Goto(t, "SaSpinLd")
  /\ emit' = <<>>
  /\ UNCHANGED <<cfgv, size, cached, data, alive, ip, loc, nblk, blen, claims, nfree>>

\* while (!buffers_[binfo.bucket].load()) {}   then: construct the element, return the iterator
SaSpinLd(t) ==
  /\ pc[t] = "SaSpinLd"
  /\ (IF buf[Bkt(loc[t].idx)] # Null
        THEN /\ Construct(Op(t), loc[t].idx, 1)
             /\ Finish(t, <<loc[t].idx>>)
        ELSE emit' = <<>> /\ UNCHANGED <<data, ip, pc>>)
  /\ UNCHANGED <<cfgv, size, buf, cached, dl, alive, loc, ghost>>

\* ------------------------------------------------------------------ grow_to_at_least
\* size_t curSize = size_.load(); if (curSize < n) return grow_by(n - curSize ...);
GtLd(t) ==
  /\ pc[t] = "GtLd"
  /\ (IF size < Op(t).n
        THEN /\ loc' = [loc EXCEPT ![t] = [EmptyLoc EXCEPT !.d = Op(t).n - size]]
             /\ Goto(t, "GbFaa")
             /\ emit' = <<>>
             /\ UNCHANGED ip
        ELSE /\ Finish(t, <<Op(t).n - 1>>)
             /\ UNCHANGED loc)
  /\ UNCHANGED <<cfgv, shared, ghost>>

\* ------------------------------------------------------------------ growByUninitialized(delta)
Delta(t) == IF Op(t).op \in GtalOps THEN loc[t].d ELSE Op(t).n

\* after the counting loop: allocate, then start the assignment loop (same first bucket / cap)
RangeFirstLb(idx, d) ==
  LET ac == Sub(idx) <= Trig(CapAt(idx)) /\ Sub(idx) + d > Trig(CapAt(idx))
  IN Bkt(idx) + 1 + (IF ac THEN 0 ELSE 1)
RangeFirstCap(idx, d) ==
  LET ac == Sub(idx) <= Trig(CapAt(idx)) /\ Sub(idx) + d > Trig(CapAt(idx))
      sh == (IF Bkt(idx) > 0 THEN 1 ELSE 0) + (IF ac THEN 0 ELSE 1)
  IN CapAt(idx) * Pow2(sh)
\* does the range own the allocation of the bucket after bend.bucket?
RangeExtra(idx, d) == Sub(idx + d) > Trig(CapAt(idx + d))
EndBkt(idx, d) == Bkt(idx + d)

\* auto index = size_.fetch_add(delta); binfo, bend; the decision whether anything may have to be
\* allocated is local
GbFaa(t) ==
  /\ pc[t] = "GbFaa"
  /\ LET d == Delta(t)
         idx == size
         ac == Sub(idx) <= Trig(CapAt(idx)) /\ Sub(idx) + d > Trig(CapAt(idx))
         need == ac \/ Bkt(idx) < EndBkt(idx, d)
         lb0 == RangeFirstLb(idx, d)
     IN /\ size' = size + d
        /\ claims' = Append(claims, [t |-> t, k |-> ip[t], from |-> idx, n |-> d])
        /\ loc' = [loc EXCEPT ![t] = [EmptyLoc EXCEPT !.idx = idx, !.d = d, !.lb = lb0,
                                                       !.cap = RangeFirstCap(idx, d), !.sb = Bkt(idx)]]
        /\ Goto(t, IF ~need THEN "RaSpinLd"
                   ELSE IF lb0 <= EndBkt(idx, d) THEN "RaLdCnt"
                   ELSE IF RangeExtra(idx, d) THEN "RaLdCntX"
                   ELSE "RaSpinLd")     \* nothing counted, nothing to assign
  /\ emit' = <<>>
  /\ UNCHANGED <<cfgv, buf, cached, dl, data, alive, ip, nblk, blen, stores, first, nfree>>

\* End of the counting phase with total sz: allocate if sz > 0 and enter the assignment phase.
\* (primed variables: loc, nblk, blen, pc, emit)
AfterCount(t, sz) ==
  LET idx == loc[t].idx
      d == loc[t].d
      lb0 == RangeFirstLb(idx, d)
      hasLoop == lb0 <= EndBkt(idx, d)
      np == IF sz > 0 THEN Ptr(nblk, 0) ELSE Null
  IN /\ (IF sz > 0 THEN NewBlock(sz) /\ emit' = AllocNote(sz)
                   ELSE UNCHANGED <<nblk, blen>> /\ emit' = <<>>)
     /\ loc' = [loc EXCEPT ![t].sz = sz, ![t].ab = np, ![t].fa = FALSE,
                           ![t].lb = IF hasLoop THEN lb0 ELSE EndBkt(idx, d) + 1,
                           ![t].cap = RangeFirstCap(idx, d),
                           ![t].ph = IF hasLoop THEN "loop" ELSE "x"]
     /\ Goto(t, IF hasLoop \/ RangeExtra(idx, d) THEN "RaLdAsg" ELSE "RaSpinLd")

\* for (; bucket <= bend.bucket; ++bucket, cap <<= 1) if (!buffers_[bucket].load()) sizeToAlloc += cap;
RaLdCnt(t) ==
  /\ pc[t] = "RaLdCnt"
  /\ LET l == loc[t]
         sz2 == l.sz + (IF buf[l.lb] = Null THEN l.cap ELSE 0)
         more == l.lb + 1 <= EndBkt(l.idx, l.d)
     IN IF more
          THEN /\ loc' = [loc EXCEPT ![t].sz = sz2, ![t].lb = l.lb + 1, ![t].cap = 2 * l.cap]
               /\ emit' = <<>>
               /\ UNCHANGED <<pc, nblk, blen>>
          ELSE IF RangeExtra(l.idx, l.d)
                 THEN /\ loc' = [loc EXCEPT ![t].sz = sz2, ![t].lb = l.lb + 1, ![t].cap = 2 * l.cap]
                      /\ Goto(t, "RaLdCntX")
                      /\ emit' = <<>>
                      /\ UNCHANGED <<nblk, blen>>
                 ELSE AfterCount(t, sz2)
  /\ UNCHANGED <<cfgv, shared, ip, stores, first, claims, nfree>>

\* if (bend.bucketIndex > endToCheck) if (!buffers_[bucket].load()) sizeToAlloc += cap;
\* (bucket = bend.bucket + 1 and cap as the loop left them)
RaLdCntX(t) ==
  /\ pc[t] = "RaLdCntX"
  /\ LET l == loc[t]
     IN AfterCount(t, l.sz + (IF buf[l.lb] = Null THEN l.cap ELSE 0))
  /\ UNCHANGED <<cfgv, shared, ip, stores, first, claims, nfree>>

\* next tryAssignBuffer call after the one for bucket loc.lb, or the spin phase
\* (primed: loc (lb, cap, ph), pc)
AdvanceAsg(t, l2) ==
  LET idx == l2.idx
      d == l2.d
  IN IF l2.ph = "loop"
       THEN IF l2.lb + 1 <= EndBkt(idx, d)
              THEN /\ loc' = [loc EXCEPT ![t] = [l2 EXCEPT !.lb = l2.lb + 1, !.cap = 2 * l2.cap]]
                   /\ Goto(t, "RaLdAsg")
              ELSE IF RangeExtra(idx, d)
                     THEN /\ loc' = [loc EXCEPT ![t] = [l2 EXCEPT !.lb = l2.lb + 1, !.cap = 2 * l2.cap,
                                                                  !.ph = "x"]]
                          /\ Goto(t, "RaLdAsg")
                     ELSE /\ loc' = [loc EXCEPT ![t] = l2]
                          /\ Goto(t, "RaSpinLd")
       ELSE /\ loc' = [loc EXCEPT ![t] = l2]
            /\ Goto(t, "RaSpinLd")

\* tryAssignBuffer: if (!buffers_[bucket].load()) { cacheUpdate(bucket, allocBufs);
RaLdAsg(t) ==
  /\ pc[t] = "RaLdAsg"
  /\ LET l == loc[t] IN
       IF buf[l.lb] = Null
         THEN /\ cached' = [cached EXCEPT ![l.lb] = l.ab]
              /\ Goto(t, "RaStAsg")
              /\ UNCHANGED loc
         ELSE /\ AdvanceAsg(t, l)
              /\ UNCHANGED cached
  /\ emit' = <<>>
  /\ UNCHANGED <<cfgv, size, buf, dl, data, alive, ip, ghost>>

\* buffers_[bucket].store(allocBufs); allocBufs += cap; shouldDealloc_[bucket] = !firstAccounted; }
RaStAsg(t) ==
  /\ pc[t] = "RaStAsg"
  /\ LET l == loc[t] IN
       /\ StoreBuf(l.lb, l.ab)
       /\ dl' = [dl EXCEPT ![l.lb] = ~l.fa]
       /\ AdvanceAsg(t, [l EXCEPT !.ab = IF l.ab = Null THEN Null ELSE Ptr(l.ab[1], l.ab[2] + l.cap),
                                  !.fa = TRUE])
  /\ emit' = <<>>
  /\ UNCHANGED <<cfgv, size, cached, data, alive, ip, nblk, blen, claims, nfree>>

\* for (bucket = binfo.bucket; bucket <= bend.bucket; ++bucket) while (!buffers_[bucket].load()) {}
\* then: construct the delta elements, return the iterator
RaSpinLd(t) ==
  /\ pc[t] = "RaSpinLd"
  /\ LET l == loc[t] IN
       IF buf[l.sb] # Null
         THEN IF l.sb + 1 <= EndBkt(l.idx, l.d)
                THEN /\ loc' = [loc EXCEPT ![t].sb = l.sb + 1]
                     /\ emit' = <<>>
                     /\ UNCHANGED <<data, ip, pc>>
                ELSE /\ Construct(Op(t), l.idx, l.d)
                     /\ Finish(t, <<l.idx>>)
                     /\ UNCHANGED loc
         ELSE emit' = <<>> /\ UNCHANGED <<data, ip, pc, loc>>
  /\ UNCHANGED <<cfgv, size, buf, cached, dl, alive, ghost>>

\* ------------------------------------------------------------------ readers
SzLd(t) ==                      \* size()
  /\ pc[t] = "SzLd"
  /\ Finish(t, <<size>>)
  /\ UNCHANGED <<cfgv, shared, loc, ghost>>
EndLdSize(t) ==                 \* end() - begin()
  /\ pc[t] = "EndLdSize"
  /\ Finish(t, <<size>>)
  /\ UNCHANGED <<cfgv, shared, loc, ghost>>
\* element i < n0, published before the threads started: through a reference and an iterator taken
\* when the thread started, and through operator[] now
RdElem(t) ==
  /\ pc[t] = "RdElem"
  /\ Op(t).n < n0
  /\ Finish(t, <<data[Op(t).n], data[Op(t).n], data[Op(t).n]>>)
  /\ UNCHANGED <<cfgv, shared, loc, ghost>>

\* ------------------------------------------------------------------ destructor
AllDone == \A t \in T : pc[t] = "Done"
OwnedBuckets == {b \in Buckets : buf[b] # Null /\ (b = 0 \/ (b >= 2 /\ dl[b]))}

Destroy ==
  /\ alive /\ AllDone
  /\ alive' = FALSE
  /\ data' = [i \in Slots |-> IF i < size THEN 0 ELSE data[i]]
  /\ nfree' = Cardinality(OwnedBuckets)
  /\ emit' = [i \in 1 .. Cardinality(OwnedBuckets) |-> <<"CvFree", 0, 0>>]
  /\ UNCHANGED <<cfgv, size, buf, cached, dl, pc, ip, loc, nblk, blen, stores, first, claims>>

Next ==
  \/ \E t \in Threads :
        \/ Start(t)
        \/ EbFaa(t) \/ SaLdNext(t) \/ SaStNext(t) \/ SaSpinLd(t)
        \/ GtLd(t)
        \/ GbFaa(t) \/ RaLdCnt(t) \/ RaLdCntX(t) \/ RaLdAsg(t) \/ RaStAsg(t) \/ RaSpinLd(t)
        \/ SzLd(t) \/ EndLdSize(t) \/ RdElem(t)
  \/ Destroy

ThreadNext(t) ==
  \/ Start(t)
  \/ EbFaa(t) \/ SaLdNext(t) \/ SaStNext(t) \/ SaSpinLd(t)
  \/ GtLd(t)
  \/ GbFaa(t) \/ RaLdCnt(t) \/ RaLdCntX(t) \/ RaLdAsg(t) \/ RaStAsg(t) \/ RaSpinLd(t)
  \/ SzLd(t) \/ EndLdSize(t) \/ RdElem(t)

\* ============================================================================ properties
\* (C33) each added element gets a distinct index: the reserved ranges are pairwise disjoint and,
\* together with the initial elements, tile 0 .. size - 1
ClaimedBy(i) == {c \in 1 .. Len(claims) : claims[c].from <= i /\ i < claims[c].from + claims[c].n}
DistinctIndices ==
  /\ \A i \in 0 .. (size - 1) : IF i < n0 THEN ClaimedBy(i) = {} ELSE Cardinality(ClaimedBy(i)) = 1
  /\ \A c \in 1 .. Len(claims) : claims[c].from >= n0 /\ claims[c].from + claims[c].n <= size

\* what slot i must hold once its owner has constructed it
Expected(i) ==
  IF i < n0 THEN i + 1
  ELSE LET c == claims[CHOOSE x \in ClaimedBy(i) : TRUE]
       IN Val(prog[c.t][c.k], i - c.from)
OpDone(c) == ip[claims[c].t] > claims[c].k
\* (C33) no element is lost or overwritten: a slot holds nothing or what its owner put there, and
\* the slots of every completed operation hold their values
NoLostNoOverwrite ==
  alive =>
    /\ \A i \in Slots : data[i] # 0 => (i < size /\ data[i] = Expected(i))
    /\ \A c \in 1 .. Len(claims) : OpDone(c) =>
         \A i \in claims[c].from .. (claims[c].from + claims[c].n - 1) : i \in Slots => data[i] = Expected(i)
    /\ \A i \in 0 .. (n0 - 1) : i \in Slots => data[i] = i + 1

\* (C33) the final size equals the total growth
RECURSIVE SumN(_, _)
SumN(s, i) == IF i = 0 THEN 0 ELSE s[i].n + SumN(s, i - 1)
FinalSize == size = n0 + SumN(claims, Len(claims))

\* (C33) each bucket is assigned exactly once: never two stores to one buffers_[b]
AssignedOnce == \A b \in Buckets : stores[b] <= 1 /\ (buf[b] # Null <=> stores[b] = 1)
\* (C33) references and iterators stay valid: a published buffer pointer never changes
AddrStable == \A b \in Buckets : buf[b] # Null => buf[b] = first[b]
\* the storage of different buckets does not overlap and lies inside its block; cachedPtrs_ agrees
StorageSound ==
  /\ \A b \in Buckets : buf[b] # Null =>
        /\ buf[b][1] \in 0 .. (nblk - 1)
        /\ buf[b][2] + BCap(b) <= blen[buf[b][1]]
        /\ cached[b] = buf[b]
  /\ \A b1, b2 \in Buckets : (b1 < b2 /\ buf[b1] # Null /\ buf[b2] # Null /\ buf[b1][1] = buf[b2][1]) =>
        (buf[b1][2] + BCap(b1) <= buf[b2][2] \/ buf[b2][2] + BCap(b2) <= buf[b1][2])
\* an element is only constructed into an allocated bucket
ConstructedInStorage == alive => \A i \in Slots : data[i] # 0 => buf[Bkt(i)] # Null
\* at quiescence every slot below size is backed by storage and so is the slot at size (end())
QuiescentBacked == (AllDone /\ alive) => \A i \in 0 .. size : buf[Bkt(i)] # Null
\* (C33) allocation / free balance: at quiescence every block ever allocated is owned by exactly
\* one bucket whose pointer is the block start and which is flagged for deallocation (block 0:
\* bucket 0), no other bucket is flagged; the destructor frees exactly the allocated blocks
AllocBalance ==
  AllDone =>
    /\ \A k \in 0 .. (nblk - 1) :
          Cardinality({b \in OwnedBuckets : buf[b] = Ptr(k, 0)}) = 1
    /\ \A b \in Buckets : (b >= 2 /\ dl[b]) => (buf[b] # Null /\ buf[b][2] = 0)
    /\ (~alive => nfree = nblk)
NoLeakAfterDestroy == ~alive => \A i \in Slots : data[i] = 0

TypeOK ==
  /\ size \in Nat /\ size <= LogN
  /\ \A t \in T : ip[t] \in 1 .. (Len(prog[t]) + 1)
  /\ nblk \in Nat

\* (C33) every spin ends: with fair scheduling all operations complete
Fairness == \A t \in Threads : WF_vars(ThreadNext(t))
Termination == <>AllDone
==========================================================================
