CONSTANTS
  PreFixIter = FALSE
  Threads = {"g1", "g2"}
  Readers = {"r"}
  RModes = {"nosync"}
  MaxClaims = 4
  NB = 6
  LogN = 16
  Opts <- OptsCacheFast
  Cfgs <- Cfgs_push
INIT HInit
NEXT HNext
CHECK_DEADLOCK FALSE
INVARIANTS OrdersComplete RaceFreeNoSync HTypeOK TypeOK AssignedOnce NoLostNoOverwrite
