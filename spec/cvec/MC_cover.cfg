CONSTANTS
  Threads = {"g1", "g2", "r"}
  NB = 8
  LogN = 16
  Fs = {2}
  Strats = {0, 1, 2}
  N0s = {3}
  Amts = {1}
  N0s2 = {}
  Amts2 = {}
SPECIFICATION CoverSpec
CHECK_DEADLOCK FALSE
INVARIANTS TypeOK DistinctIndices NoLostNoOverwrite FinalSize AssignedOnce AddrStable StorageSound ConstructedInStorage QuiescentBacked AllocBalance NoLeakAfterDestroy
PROPERTIES Termination
