------------------------------ MODULE CVecHB ------------------------------
(* C10 for dispenso::ConcurrentVector (concurrent growth): CVec.tla composed with *)
(* the happens-before model spec/lib/MemOrder.tla (no std::atomic_thread_fence in  *)
(* concurrent_vector.h / detail/concurrent_vector_impl*.h).  Memory orders come    *)
(* from OrdersCVec.tla (bin/extract_orders.py, working tree).                      *)
(*                                                                                 *)
(* Atomic locations: size_ ("size"), buffers_[b] ("buf", b), and one GHOST flag    *)
(* per reserved index range ("flag", c): the header says "Callers must establish   *)
(* their own happens-before relationship (e.g. via a mutex, atomic flag, or task   *)
(* completion) between the writer finishing construction and the reader accessing  *)
(* the element" - the grower release-stores flag c after it has constructed the     *)
(* elements of its c-th range, a reader acquire-loads it before it touches them.    *)
(* These two orders are the USER's, they are fixed (release / acquire).             *)
(*                                                                                 *)
(* Non-atomic locations:                                                           *)
(*   elem i   the storage of element i: written by the thread that obtained index  *)
(*            i from size_.fetch_add (placement new), read by readers after the    *)
(*            hand-over, destroyed by the owner of the vector after the join.      *)
(*   cache b  cachedPtrs_[b] (only when opt.cache, DISPENSO_HAS_CACHED_PTRS = 1:   *)
(*            every build but AArch64): a PLAIN T*, written by the thread that     *)
(*            allocates bucket b just before its release store to buffers_[b];     *)
(*            read by operator[] / at(), by CompactCVecIterator::operator*, and by *)
(*            ConcurrentVectorIterator::operator++ / -- / += / [] when they leave   *)
(*            the current bucket.  With opt.cache = FALSE cachedBuffer() is a        *)
(*            relaxed atomic load of buffers_[b]: no plain access.                  *)
(*   blk b    GHOST: the allocation of bucket b's storage (cv::alloc: malloc and   *)
(*            the write of the recovery word in front of the block; cv::dealloc     *)
(*            reads it).  Written when the bucket is allocated and when it is      *)
(*            freed, "read" by every construction / read of an element that lives  *)
(*            in the bucket: using storage must be ordered after its allocation.   *)
(*            This is what the published pointer protects when there is no         *)
(*            cachedPtrs_ array.                                                   *)
(*   dl b     shouldDealloc_[b]: plain bool, memset by the constructor, written    *)
(*            AFTER the release store by the allocating thread, read by             *)
(*            shrink_to_fit() / the destructor (documented as not concurrency safe: *)
(*            only after the join).                                                *)
(*                                                                                 *)
(* opt = [cache, fast] is chosen in the initial state: fast = Traits::              *)
(* kIteratorPreferSpeed (ConcurrentVectorIterator: the constructor loads             *)
(* buffers_[bucket] RELAXED, operator++ reads cachedPtrs_ only at a bucket end)     *)
(* or CompactCVecIterator (every dereference is operator[]; emplace_back computes   *)
(* the address with the implicit, seq_cst, conversion of buffers_[bucket]).         *)
(*                                                                                 *)
(* Contract (header): push_back / emplace_back / grow_by* / grow_to_at_least /      *)
(* begin / end / size / empty / operator[] / at / front / back are concurrency      *)
(* safe, "it is safe to iterate ranges of the vector that have already been         *)
(* inserted"; reading an element without an external happens-before edge from its   *)
(* construction is a race of the CALLER (size() is relaxed on purpose).  Everything  *)
(* else (pop_back, clear, shrink_to_fit, reserve, resize, insert, erase, swap,      *)
(* assignment, destruction) is not concurrency safe: here only construction before  *)
(* the threads start and destruction after they were joined.                        *)
(*                                                                                 *)
(* Ghost readers (threads in Readers, not in prog) consume completed ranges:         *)
(*   "idx"      v[i] / v.at(i) for every i of the range                            *)
(*   "iter"     walk the range with the iterator the growth operation returned (or  *)
(*              begin() + from): *it, ++it up to the LAST element of the range       *)
(*   "iterend"  the same, but ++it also after the last element (the usual            *)
(*              for (it = first; it != last; ++it)): when the range ends at a        *)
(*              bucket end this reads cachedPtrs_ of the NEXT bucket                 *)
(*   "nosync"   OUT OF CONTRACT, for non-vacuity only: read the elements below a     *)
(*              size() value without any hand-over                                   *)
EXTENDS CVec, MemOrder, OrdersCVec

CONSTANTS Readers,     \* ghost reader threads
          RModes,      \* access modes the ghost readers may use
          MaxClaims,   \* number of ghost flags (>= number of growth operations of prog)
          Opts,        \* set of [cache |-> BOOLEAN, fast |-> BOOLEAN]
          Cfgs,        \* set of <<F, strat, n0, programs>>
          PreFixIter   \* TRUE: iterator ++ as before /repo fix 84af4de (plain cachedPtrs_ read)

VARIABLES hb, opt, seen
hvars == <<vars, hb, opt, seen>>

HT == Threads \cup Readers \cup {"main"}

Sz == <<"size", 0>>
BufL(b) == <<"buf", b>>
FlagL(c) == <<"flag", c>>
ElemL(i) == <<"elem", i>>
CacheL(b) == <<"cache", b>>
BlkL(b) == <<"blk", b>>
DlL(b) == <<"dl", b>>

ALocs == {Sz} \cup {BufL(b) : b \in Buckets} \cup {FlagL(c) : c \in 1 .. MaxClaims}
NLocs == {ElemL(i) : i \in Slots} \cup {CacheL(b) : b \in Buckets} \cup {BlkL(b) : b \in Buckets}
           \cup {DlL(b) : b \in Buckets}

\* GtLd occurs twice (grow_to_at_least(n), grow_to_at_least(n, t)); RaSpinLd's second hook (inside the
\* spin loop, followed by the TSAN-only sleep) has no statement of its own: the access is the loop
\* condition = occurrence 1
Occ(site, t) == IF site = "GtLd" /\ Op(t).op = "gtalv" THEN 2 ELSE 1
OS(site, t) == Ord[site][Occ(site, t)][2]
OrdersComplete ==
  /\ \A s \in DOMAIN Ord : \A i \in 1 .. Len(Ord[s]) : <<s, i>> # <<"RaSpinLd", 2>> => Ord[s][i][1] # "none"
  /\ Len(Ord["GtLd"]) = 2
  \* the kind of operation the overlay assumes at every site
  /\ \A s \in {"EbFaa", "GbFaa"} : Ord[s][1][1] = "fetch_add"
  /\ \A s \in {"SaStNext", "RaStAsg"} : Ord[s][1][1] = "store"
  /\ \A s \in {"SaLdNext", "SaSpinLd", "RaLdCnt", "RaLdCntX", "RaLdAsg", "RaSpinLd", "SzLd", "EndLdSize"} :
        Ord[s][1][1] = "load"
  /\ Ord["GtLd"][1][1] = "load" /\ Ord["GtLd"][2][1] = "load"

RECURSIVE NAReads(_, _, _)
NAReads(h, t, xs) ==
  IF xs = {} THEN h ELSE LET x == CHOOSE x \in xs : TRUE IN NAReads(NARead(HT, h, t, x), t, xs \ {x})
RECURSIVE NAWrites(_, _, _)
NAWrites(h, t, xs) ==
  IF xs = {} THEN h ELSE LET x == CHOOSE x \in xs : TRUE IN NAWrites(NAWrite(HT, h, t, x), t, xs \ {x})
RECURSIVE SpawnAll(_, _)
SpawnAll(h, ts) == IF ts = {} THEN h ELSE LET u == CHOOSE u \in ts : TRUE IN SpawnAll(HBSpawn(HT, h, "main", u), ts \ {u})
RECURSIVE JoinAll(_, _)
JoinAll(h, ts) == IF ts = {} THEN h ELSE LET u == CHOOSE u \in ts : TRUE IN JoinAll(HBJoin(HT, h, "main", u), ts \ {u})

\* ---- initial state: the constructing thread ("main") ran the constructor (memset of shouldDealloc_,
\* initCachedPtrs, cv::alloc of buckets 0+1) and n0 sequential push_backs, then created the threads
InitHB ==
  LET wr == {CacheL(b) : b \in Buckets} \cup {DlL(b) : b \in Buckets}
              \cup {BlkL(b) : b \in {x \in Buckets : buf[x] # Null}}
              \cup {ElemL(i) : i \in {j \in Slots : j < n0}}
  IN SpawnAll(NAWrites(HBInit(HT, ALocs, NLocs), "main", wr), Readers)

HInit ==
  /\ \E cf \in Cfgs : InitWith(cf[1], cf[2], cf[3], cf[4])
  /\ \E o \in Opts : opt = o
  /\ seen = [r \in Readers |-> {}]
  /\ hb = InitHB

\* ---- locations touched when a range of elements is accessed
Range(from, n) == from .. (from + n - 1)
ElemLocs(from, n) == {ElemL(i) : i \in Range(from, n)}
BlkLocs(from, n) == {BlkL(Bkt(i)) : i \in Range(from, n)}
\* operator[] / CompactCVecIterator::operator* : cachedBuffer(bucket of i) for every i
CacheIdx(from, n) == IF opt.cache THEN {CacheL(Bkt(i)) : i \in Range(from, n)} ELSE {}
\* ConcurrentVectorIterator::operator++ : cachedBuffer(next bucket) when the increment that arrives at
\* index j leaves the bucket of j - 1; increments arrive at from + 1 .. last
\* Since /repo fix 84af4de the increment loads buffers_[next bucket] (relaxed atomic) instead of the plain
\* cachedPtrs_ entry, so a crossing touches no non-atomic location (before the fix: CacheCrossOld, the race
\* found by MC_hbx_iterend.cfg).  There is no hook in operator++; PreFixIter = TRUE selects the old reading
\* (used to re-create the finding).
CacheCrossOld(from, last) ==
  IF opt.cache THEN {CacheL(Bkt(j)) : j \in {k \in (from + 1) .. last : Bkt(k) # Bkt(k - 1)}} ELSE {}
CacheCross(from, last) == IF PreFixIter THEN CacheCrossOld(from, last) ELSE {}
\* the accesses of a walk over the range with the vector's iterator type
CacheWalk(from, n, last) == IF opt.fast THEN CacheCross(from, last) ELSE CacheIdx(from, n)

\* the claim (reserved range) of the operation t is executing
ClaimOf(t) == CHOOSE c \in 1 .. Len(claims) : claims[c].t = t /\ claims[c].k = ip[t]
\* hand-over by the grower: its elements are constructed, it raises the ghost flag of the claim
Publish(h, t) == AStore(HT, h, t, FlagL(ClaimOf(t)), "release")

\* bucket allocated by t: cv::alloc (ghost blk), then cacheUpdate(bucket, ptr)
AllocWrites(h, t, b) == NAWrites(h, t, {BlkL(b)} \cup (IF opt.cache THEN {CacheL(b)} ELSE {}))

HStep(t) ==
  /\ UNCHANGED <<opt, seen>>
  /\ \/ Start(t) /\ hb' = HBSpawn(HT, hb, "main", t)
     \/ EbFaa(t) /\ hb' = ARmw(HT, hb, t, Sz, OS("EbFaa", t))
     \/ SaLdNext(t) /\
          LET b == Bkt(loc[t].idx) + 1
              h1 == ALoad(HT, hb, t, BufL(b), OS("SaLdNext", t))
          IN hb' = IF buf[b] = Null THEN AllocWrites(h1, t, b) ELSE h1
     \/ SaStNext(t) /\
          LET b == Bkt(loc[t].idx) + 1
          IN hb' = NAWrites(AStore(HT, hb, t, BufL(b), OS("SaStNext", t)), t, {DlL(b)})
     \/ SaSpinLd(t) /\
          LET i == loc[t].idx
              b == Bkt(i)
              h1 == ALoad(HT, hb, t, BufL(b), OS("SaSpinLd", t))
              \* iterator ret{this, index, binfo}: relaxed load; compact iterator: buffers_[bucket] + ... = seq_cst load
              h2 == ALoad(HT, h1, t, BufL(b), IF opt.fast THEN "relaxed" ELSE "seq_cst")
              h3 == NAWrites(NAReads(h2, t, {BlkL(b)}), t, {ElemL(i)})
          IN \* a failing iteration of the spin reads the initial nullptr: nothing to synchronize with (and no
             \* clock tick, so that spinning does not create new states)
             hb' = IF buf[b] = Null THEN hb ELSE Publish(h3, t)
     \/ GtLd(t) /\ hb' = ALoad(HT, hb, t, Sz, OS("GtLd", t))
     \/ GbFaa(t) /\ hb' = ARmw(HT, hb, t, Sz, OS("GbFaa", t))
     \/ RaLdCnt(t) /\ hb' = ALoad(HT, hb, t, BufL(loc[t].lb), OS("RaLdCnt", t))
     \/ RaLdCntX(t) /\ hb' = ALoad(HT, hb, t, BufL(loc[t].lb), OS("RaLdCntX", t))
     \/ RaLdAsg(t) /\
          LET b == loc[t].lb
              h1 == ALoad(HT, hb, t, BufL(b), OS("RaLdAsg", t))
          IN hb' = IF buf[b] = Null THEN AllocWrites(h1, t, b) ELSE h1
     \/ RaStAsg(t) /\
          LET b == loc[t].lb
          IN hb' = NAWrites(AStore(HT, hb, t, BufL(b), OS("RaStAsg", t)), t, {DlL(b)})
     \/ RaSpinLd(t) /\
          LET l == loc[t]
              h1 == ALoad(HT, hb, t, BufL(l.sb), OS("RaSpinLd", t))
              \* return {this, index, binfo}: the fast iterator's constructor loads buffers_[binfo.bucket] relaxed
              h2 == IF opt.fast THEN ALoad(HT, h1, t, BufL(Bkt(l.idx)), "relaxed") ELSE h1
              \* internalFillN / internalInit / grow_by_generator: new (&*it) T(...); ++it  - delta times, i.e. the
              \* last increment arrives at index + delta
              h3 == NAReads(h2, t, BlkLocs(l.idx, l.d) \cup CacheWalk(l.idx, l.d, l.idx + l.d))
              h4 == NAWrites(h3, t, ElemLocs(l.idx, l.d))
          IN hb' = IF buf[l.sb] = Null THEN hb
                   ELSE IF ip'[t] # ip[t] THEN Publish(h4, t)
                   ELSE h1
     \/ SzLd(t) /\ hb' = ALoad(HT, hb, t, Sz, OS("SzLd", t))
     \/ EndLdSize(t) /\
          LET h1 == ALoad(HT, hb, t, Sz, OS("EndLdSize", t))
          IN hb' = IF opt.fast /\ Bkt(size) \in Buckets THEN ALoad(HT, h1, t, BufL(Bkt(size)), "relaxed") ELSE h1
     \/ RdElem(t) /\
          hb' = NAReads(hb, t, {ElemL(Op(t).n), BlkL(Bkt(Op(t).n))} \cup CacheIdx(Op(t).n, 1))

\* ---- ghost readers
HRead(r, c, m) ==
  /\ alive
  /\ c \in 1 .. Len(claims)
  /\ c \notin seen[r]
  /\ m \in RModes
  /\ m # "nosync" => OpDone(c)
  /\ LET from == claims[c].from
         n == claims[c].n
         h1 == IF m = "nosync" THEN ALoad(HT, hb, r, Sz, "relaxed") ELSE ALoad(HT, hb, r, FlagL(c), "acquire")
         cl == CASE m = "iter" -> CacheWalk(from, n, from + n - 1)
                 [] m = "iterend" -> CacheWalk(from, n, from + n)
                 [] OTHER -> CacheIdx(from, n)
     IN hb' = NAReads(h1, r, ElemLocs(from, n) \cup BlkLocs(from, n) \cup cl)
  /\ seen' = [seen EXCEPT ![r] = @ \cup {c}]
  /\ UNCHANGED <<vars, opt>>

\* ---- destructor, after the owner joined every thread: clear() destroys the elements, shrink_to_fit()
\* reads shouldDealloc_, frees the blocks and clears cachedPtrs_
HDestroy ==
  /\ Destroy
  /\ LET h1 == JoinAll(hb, Threads \cup Readers)
         h2 == NAReads(h1, "main", {DlL(b) : b \in Buckets})
         al == {b \in Buckets : buf[b] # Null}
     IN hb' = NAWrites(h2, "main", {ElemL(i) : i \in {j \in Slots : j < size}} \cup {BlkL(b) : b \in al}
                                    \cup (IF opt.cache THEN {CacheL(b) : b \in {x \in al : x >= 2}} ELSE {}))
  /\ UNCHANGED <<opt, seen>>

HNext ==
  \/ \E t \in Threads : HStep(t)
  \/ \E r \in Readers : \E c \in 1 .. MaxClaims : \E m \in RModes : HRead(r, c, m)
  \/ HDestroy

RaceFree == NoRace(hb)
\* the same predicate under another name: used by the configurations whose readers increment an iterator
\* past the last element of a handed-over range (mode "iterend"), see the finding in the module comment of
\* MCCVecHB.tla; kept apart from RaceFree so that the passing configurations can be enabled on their own
RaceFreeIterEnd == NoRace(hb)
\* out-of-contract readers (mode "nosync"): expected to be violated
RaceFreeNoSync == NoRace(hb)
\* races on locations that exist in the code (everything but the ghost allocation cells blk): implied by
\* RaceFree; used in the mutation runs to show that a weakened order is also caught without the ghost cells
RaceFreeNoGhost == \A x \in hb.race : x[1] = "blk"

HTypeOK ==
  /\ Len(claims) <= MaxClaims
  /\ \A i \in 0 .. size : Bkt(i) \in Buckets
  /\ \A r \in Readers : seen[r] \subseteq 1 .. Len(claims)
==========================================================================
