CONSTANTS
  Threads = {"g1", "g2", "g3"}
  NB = 8
  LogN = 16
  Fs = {2}
  Strats = {0, 1, 2}
  N0s = {1, 3}
  Amts = {1, 2, 3}
  N0s2 = {}
  Amts2 = {}
SPECIFICATION Spec3x1
CHECK_DEADLOCK FALSE
INVARIANTS TypeOK DistinctIndices NoLostNoOverwrite FinalSize AssignedOnce AddrStable StorageSound ConstructedInStorage QuiescentBacked AllocBalance NoLeakAfterDestroy

