CONSTANTS
  Threads = {}
  NB = 8
  LogN = 24
SPECIFICATION TraceSpec
CHECK_DEADLOCK FALSE
POSTCONDITION TraceAccepted
INVARIANTS TypeOK DistinctIndices NoLostNoOverwrite FinalSize AssignedOnce AddrStable StorageSound ConstructedInStorage QuiescentBacked AllocBalance NoLeakAfterDestroy
