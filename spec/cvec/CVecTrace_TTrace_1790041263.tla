---- MODULE CVecTrace_TTrace_1790041263 ----
EXTENDS Sequences, TLCExt, Toolbox, Naturals, TLC, CVecTrace

_expression ==
    LET CVecTrace_TEExpression == INSTANCE CVecTrace_TEExpression
    IN CVecTrace_TEExpression!expression
----

_trace ==
    LET CVecTrace_TETrace == INSTANCE CVecTrace_TETrace
    IN CVecTrace_TETrace!trace
----

_inv ==
    ~(
        TLCGet("level") = Len(_TETrace)
        /\
        nblk = (2)
        /\
        loc = ([r |-> [d |-> 0, idx |-> 0, lb |-> 0, cap |-> 0, sz |-> 0, ab |-> <<>>, fa |-> FALSE, ph |-> "loop", sb |-> 0, nb |-> <<>>], g1 |-> [d |-> 3, idx |-> 4, lb |-> 3, cap |-> 8, sz |-> 0, ab |-> <<>>, fa |-> FALSE, ph |-> "loop", sb |-> 2, nb |-> <<>>], g2 |-> [d |-> 0, idx |-> 0, lb |-> 0, cap |-> 0, sz |-> 0, ab |-> <<>>, fa |-> FALSE, ph |-> "loop", sb |-> 0, nb |-> <<>>]])
        /\
        n0 = (3)
        /\
        alive = (TRUE)
        /\
        data = ((0 :> 1 @@ 1 :> 2 @@ 2 :> 3 @@ 3 :> 10 @@ 4 :> 0 @@ 5 :> 0 @@ 6 :> 0 @@ 7 :> 0 @@ 8 :> 0 @@ 9 :> 0 @@ 10 :> 0 @@ 11 :> 0 @@ 12 :> 0 @@ 13 :> 0 @@ 14 :> 0 @@ 15 :> 0 @@ 16 :> 0 @@ 17 :> 0 @@ 18 :> 0 @@ 19 :> 0 @@ 20 :> 0 @@ 21 :> 0 @@ 22 :> 0 @@ 23 :> 0))
        /\
        nfree = (0)
        /\
        F = (2)
        /\
        stores = ((0 :> 1 @@ 1 :> 1 @@ 2 :> 1 @@ 3 :> 0 @@ 4 :> 0 @@ 5 :> 0 @@ 6 :> 0 @@ 7 :> 0))
        /\
        inl = (1)
        /\
        ip = ([r |-> 1, g1 |-> 2, g2 |-> 1])
        /\
        dl = ((0 :> FALSE @@ 1 :> FALSE @@ 2 :> TRUE @@ 3 :> FALSE @@ 4 :> FALSE @@ 5 :> FALSE @@ 6 :> FALSE @@ 7 :> FALSE))
        /\
        l = (7)
        /\
        prog = ([r |-> <<[n |-> 1, op |-> "rd", v |-> 0]>>, g1 |-> <<[n |-> 1, op |-> "push", v |-> 10], [n |-> 7, op |-> "gtal", v |-> 0]>>, g2 |-> <<[n |-> 3, op |-> "growr", v |-> 20]>>])
        /\
        strat = (0)
        /\
        buf = ((0 :> <<0, 0>> @@ 1 :> <<0, 2>> @@ 2 :> <<1, 0>> @@ 3 :> <<>> @@ 4 :> <<>> @@ 5 :> <<>> @@ 6 :> <<>> @@ 7 :> <<>>))
        /\
        pc = ([r |-> "Start", g1 |-> "RaLdCntX", g2 |-> "Start"])
        /\
        size = (7)
        /\
        cached = ((0 :> <<0, 0>> @@ 1 :> <<0, 2>> @@ 2 :> <<1, 0>> @@ 3 :> <<>> @@ 4 :> <<>> @@ 5 :> <<>> @@ 6 :> <<>> @@ 7 :> <<>>))
        /\
        claims = (<<[n |-> 1, t |-> "g1", k |-> 1, from |-> 3], [n |-> 3, t |-> "g1", k |-> 2, from |-> 4]>>)
        /\
        emit = (<<>>)
        /\
        blen = ((0 :> 4 @@ 1 :> 4))
        /\
        first = ((0 :> <<0, 0>> @@ 1 :> <<0, 2>> @@ 2 :> <<1, 0>> @@ 3 :> <<>> @@ 4 :> <<>> @@ 5 :> <<>> @@ 6 :> <<>> @@ 7 :> <<>>))
    )
----

_init ==
    /\ prog = _TETrace[1].prog
    /\ n0 = _TETrace[1].n0
    /\ nblk = _TETrace[1].nblk
    /\ F = _TETrace[1].F
    /\ blen = _TETrace[1].blen
    /\ alive = _TETrace[1].alive
    /\ loc = _TETrace[1].loc
    /\ l = _TETrace[1].l
    /\ pc = _TETrace[1].pc
    /\ data = _TETrace[1].data
    /\ dl = _TETrace[1].dl
    /\ nfree = _TETrace[1].nfree
    /\ emit = _TETrace[1].emit
    /\ strat = _TETrace[1].strat
    /\ claims = _TETrace[1].claims
    /\ stores = _TETrace[1].stores
    /\ buf = _TETrace[1].buf
    /\ inl = _TETrace[1].inl
    /\ first = _TETrace[1].first
    /\ size = _TETrace[1].size
    /\ cached = _TETrace[1].cached
    /\ ip = _TETrace[1].ip
----

_next ==
    /\ \E i,j \in DOMAIN _TETrace:
        /\ \/ /\ j = i + 1
              /\ i = TLCGet("level")
        /\ prog  = _TETrace[i].prog
        /\ prog' = _TETrace[j].prog
        /\ n0  = _TETrace[i].n0
        /\ n0' = _TETrace[j].n0
        /\ nblk  = _TETrace[i].nblk
        /\ nblk' = _TETrace[j].nblk
        /\ F  = _TETrace[i].F
        /\ F' = _TETrace[j].F
        /\ blen  = _TETrace[i].blen
        /\ blen' = _TETrace[j].blen
        /\ alive  = _TETrace[i].alive
        /\ alive' = _TETrace[j].alive
        /\ loc  = _TETrace[i].loc
        /\ loc' = _TETrace[j].loc
        /\ l  = _TETrace[i].l
        /\ l' = _TETrace[j].l
        /\ pc  = _TETrace[i].pc
        /\ pc' = _TETrace[j].pc
        /\ data  = _TETrace[i].data
        /\ data' = _TETrace[j].data
        /\ dl  = _TETrace[i].dl
        /\ dl' = _TETrace[j].dl
        /\ nfree  = _TETrace[i].nfree
        /\ nfree' = _TETrace[j].nfree
        /\ emit  = _TETrace[i].emit
        /\ emit' = _TETrace[j].emit
        /\ strat  = _TETrace[i].strat
        /\ strat' = _TETrace[j].strat
        /\ claims  = _TETrace[i].claims
        /\ claims' = _TETrace[j].claims
        /\ stores  = _TETrace[i].stores
        /\ stores' = _TETrace[j].stores
        /\ buf  = _TETrace[i].buf
        /\ buf' = _TETrace[j].buf
        /\ inl  = _TETrace[i].inl
        /\ inl' = _TETrace[j].inl
        /\ first  = _TETrace[i].first
        /\ first' = _TETrace[j].first
        /\ size  = _TETrace[i].size
        /\ size' = _TETrace[j].size
        /\ cached  = _TETrace[i].cached
        /\ cached' = _TETrace[j].cached
        /\ ip  = _TETrace[i].ip
        /\ ip' = _TETrace[j].ip

\* Uncomment the ASSUME below to write the states of the error trace
\* to the given file in Json format. Note that you can pass any tuple
\* to `JsonSerialize`. For example, a sub-sequence of _TETrace.
    \* ASSUME
    \*     LET J == INSTANCE Json
    \*         IN J!JsonSerialize("CVecTrace_TTrace_1790041263.json", _TETrace)

=============================================================================

 Note that you can extract this module `CVecTrace_TEExpression`
  to a dedicated file to reuse `expression` (the module in the 
  dedicated `CVecTrace_TEExpression.tla` file takes precedence 
  over the module `CVecTrace_TEExpression` below).

---- MODULE CVecTrace_TEExpression ----
EXTENDS Sequences, TLCExt, Toolbox, Naturals, TLC, CVecTrace

expression == 
    [
        \* To hide variables of the `CVecTrace` spec from the error trace,
        \* remove the variables below.  The trace will be written in the order
        \* of the fields of this record.
        prog |-> prog
        ,n0 |-> n0
        ,nblk |-> nblk
        ,F |-> F
        ,blen |-> blen
        ,alive |-> alive
        ,loc |-> loc
        ,l |-> l
        ,pc |-> pc
        ,data |-> data
        ,dl |-> dl
        ,nfree |-> nfree
        ,emit |-> emit
        ,strat |-> strat
        ,claims |-> claims
        ,stores |-> stores
        ,buf |-> buf
        ,inl |-> inl
        ,first |-> first
        ,size |-> size
        ,cached |-> cached
        ,ip |-> ip
        
        \* Put additional constant-, state-, and action-level expressions here:
        \* ,_stateNumber |-> _TEPosition
        \* ,_progUnchanged |-> prog = prog'
        
        \* Format the `prog` variable as Json value.
        \* ,_progJson |->
        \*     LET J == INSTANCE Json
        \*     IN J!ToJson(prog)
        
        \* Lastly, you may build expressions over arbitrary sets of states by
        \* leveraging the _TETrace operator.  For example, this is how to
        \* count the number of times a spec variable changed up to the current
        \* state in the trace.
        \* ,_progModCount |->
        \*     LET F[s \in DOMAIN _TETrace] ==
        \*         IF s = 1 THEN 0
        \*         ELSE IF _TETrace[s].prog # _TETrace[s-1].prog
        \*             THEN 1 + F[s-1] ELSE F[s-1]
        \*     IN F[_TEPosition - 1]
    ]

=============================================================================



Parsing and semantic processing can take forever if the trace below is long.
 In this case, it is advised to uncomment the module below to deserialize the
 trace from a generated binary file.

\*
\*---- MODULE CVecTrace_TETrace ----
\*EXTENDS IOUtils, TLC, CVecTrace
\*
\*trace == IODeserialize("CVecTrace_TTrace_1790041263.bin", TRUE)
\*
\*=============================================================================
\*

---- MODULE CVecTrace_TETrace ----
EXTENDS TLC, CVecTrace

trace == 
    <<
    ([nblk |-> 2,loc |-> [r |-> [d |-> 0, idx |-> 0, lb |-> 0, cap |-> 0, sz |-> 0, ab |-> <<>>, fa |-> FALSE, ph |-> "loop", sb |-> 0, nb |-> <<>>], g1 |-> [d |-> 0, idx |-> 0, lb |-> 0, cap |-> 0, sz |-> 0, ab |-> <<>>, fa |-> FALSE, ph |-> "loop", sb |-> 0, nb |-> <<>>], g2 |-> [d |-> 0, idx |-> 0, lb |-> 0, cap |-> 0, sz |-> 0, ab |-> <<>>, fa |-> FALSE, ph |-> "loop", sb |-> 0, nb |-> <<>>]],n0 |-> 3,alive |-> TRUE,data |-> (0 :> 1 @@ 1 :> 2 @@ 2 :> 3 @@ 3 :> 0 @@ 4 :> 0 @@ 5 :> 0 @@ 6 :> 0 @@ 7 :> 0 @@ 8 :> 0 @@ 9 :> 0 @@ 10 :> 0 @@ 11 :> 0 @@ 12 :> 0 @@ 13 :> 0 @@ 14 :> 0 @@ 15 :> 0 @@ 16 :> 0 @@ 17 :> 0 @@ 18 :> 0 @@ 19 :> 0 @@ 20 :> 0 @@ 21 :> 0 @@ 22 :> 0 @@ 23 :> 0),nfree |-> 0,F |-> 2,stores |-> (0 :> 1 @@ 1 :> 1 @@ 2 :> 1 @@ 3 :> 0 @@ 4 :> 0 @@ 5 :> 0 @@ 6 :> 0 @@ 7 :> 0),inl |-> 1,ip |-> [r |-> 1, g1 |-> 1, g2 |-> 1],dl |-> (0 :> FALSE @@ 1 :> FALSE @@ 2 :> TRUE @@ 3 :> FALSE @@ 4 :> FALSE @@ 5 :> FALSE @@ 6 :> FALSE @@ 7 :> FALSE),l |-> 2,prog |-> [r |-> <<[n |-> 1, op |-> "rd", v |-> 0]>>, g1 |-> <<[n |-> 1, op |-> "push", v |-> 10], [n |-> 7, op |-> "gtal", v |-> 0]>>, g2 |-> <<[n |-> 3, op |-> "growr", v |-> 20]>>],strat |-> 0,buf |-> (0 :> <<0, 0>> @@ 1 :> <<0, 2>> @@ 2 :> <<1, 0>> @@ 3 :> <<>> @@ 4 :> <<>> @@ 5 :> <<>> @@ 6 :> <<>> @@ 7 :> <<>>),pc |-> [r |-> "Start", g1 |-> "Start", g2 |-> "Start"],size |-> 3,cached |-> (0 :> <<0, 0>> @@ 1 :> <<0, 2>> @@ 2 :> <<1, 0>> @@ 3 :> <<>> @@ 4 :> <<>> @@ 5 :> <<>> @@ 6 :> <<>> @@ 7 :> <<>>),claims |-> <<>>,emit |-> <<>>,blen |-> (0 :> 4 @@ 1 :> 4),first |-> (0 :> <<0, 0>> @@ 1 :> <<0, 2>> @@ 2 :> <<1, 0>> @@ 3 :> <<>> @@ 4 :> <<>> @@ 5 :> <<>> @@ 6 :> <<>> @@ 7 :> <<>>)]),
    ([nblk |-> 2,loc |-> [r |-> [d |-> 0, idx |-> 0, lb |-> 0, cap |-> 0, sz |-> 0, ab |-> <<>>, fa |-> FALSE, ph |-> "loop", sb |-> 0, nb |-> <<>>], g1 |-> [d |-> 0, idx |-> 0, lb |-> 0, cap |-> 0, sz |-> 0, ab |-> <<>>, fa |-> FALSE, ph |-> "loop", sb |-> 0, nb |-> <<>>], g2 |-> [d |-> 0, idx |-> 0, lb |-> 0, cap |-> 0, sz |-> 0, ab |-> <<>>, fa |-> FALSE, ph |-> "loop", sb |-> 0, nb |-> <<>>]],n0 |-> 3,alive |-> TRUE,data |-> (0 :> 1 @@ 1 :> 2 @@ 2 :> 3 @@ 3 :> 0 @@ 4 :> 0 @@ 5 :> 0 @@ 6 :> 0 @@ 7 :> 0 @@ 8 :> 0 @@ 9 :> 0 @@ 10 :> 0 @@ 11 :> 0 @@ 12 :> 0 @@ 13 :> 0 @@ 14 :> 0 @@ 15 :> 0 @@ 16 :> 0 @@ 17 :> 0 @@ 18 :> 0 @@ 19 :> 0 @@ 20 :> 0 @@ 21 :> 0 @@ 22 :> 0 @@ 23 :> 0),nfree |-> 0,F |-> 2,stores |-> (0 :> 1 @@ 1 :> 1 @@ 2 :> 1 @@ 3 :> 0 @@ 4 :> 0 @@ 5 :> 0 @@ 6 :> 0 @@ 7 :> 0),inl |-> 1,ip |-> [r |-> 1, g1 |-> 1, g2 |-> 1],dl |-> (0 :> FALSE @@ 1 :> FALSE @@ 2 :> TRUE @@ 3 :> FALSE @@ 4 :> FALSE @@ 5 :> FALSE @@ 6 :> FALSE @@ 7 :> FALSE),l |-> 3,prog |-> [r |-> <<[n |-> 1, op |-> "rd", v |-> 0]>>, g1 |-> <<[n |-> 1, op |-> "push", v |-> 10], [n |-> 7, op |-> "gtal", v |-> 0]>>, g2 |-> <<[n |-> 3, op |-> "growr", v |-> 20]>>],strat |-> 0,buf |-> (0 :> <<0, 0>> @@ 1 :> <<0, 2>> @@ 2 :> <<1, 0>> @@ 3 :> <<>> @@ 4 :> <<>> @@ 5 :> <<>> @@ 6 :> <<>> @@ 7 :> <<>>),pc |-> [r |-> "Start", g1 |-> "EbFaa", g2 |-> "Start"],size |-> 3,cached |-> (0 :> <<0, 0>> @@ 1 :> <<0, 2>> @@ 2 :> <<1, 0>> @@ 3 :> <<>> @@ 4 :> <<>> @@ 5 :> <<>> @@ 6 :> <<>> @@ 7 :> <<>>),claims |-> <<>>,emit |-> <<>>,blen |-> (0 :> 4 @@ 1 :> 4),first |-> (0 :> <<0, 0>> @@ 1 :> <<0, 2>> @@ 2 :> <<1, 0>> @@ 3 :> <<>> @@ 4 :> <<>> @@ 5 :> <<>> @@ 6 :> <<>> @@ 7 :> <<>>)]),
    ([nblk |-> 2,loc |-> [r |-> [d |-> 0, idx |-> 0, lb |-> 0, cap |-> 0, sz |-> 0, ab |-> <<>>, fa |-> FALSE, ph |-> "loop", sb |-> 0, nb |-> <<>>], g1 |-> [d |-> 1, idx |-> 3, lb |-> 0, cap |-> 0, sz |-> 0, ab |-> <<>>, fa |-> FALSE, ph |-> "loop", sb |-> 0, nb |-> <<>>], g2 |-> [d |-> 0, idx |-> 0, lb |-> 0, cap |-> 0, sz |-> 0, ab |-> <<>>, fa |-> FALSE, ph |-> "loop", sb |-> 0, nb |-> <<>>]],n0 |-> 3,alive |-> TRUE,data |-> (0 :> 1 @@ 1 :> 2 @@ 2 :> 3 @@ 3 :> 0 @@ 4 :> 0 @@ 5 :> 0 @@ 6 :> 0 @@ 7 :> 0 @@ 8 :> 0 @@ 9 :> 0 @@ 10 :> 0 @@ 11 :> 0 @@ 12 :> 0 @@ 13 :> 0 @@ 14 :> 0 @@ 15 :> 0 @@ 16 :> 0 @@ 17 :> 0 @@ 18 :> 0 @@ 19 :> 0 @@ 20 :> 0 @@ 21 :> 0 @@ 22 :> 0 @@ 23 :> 0),nfree |-> 0,F |-> 2,stores |-> (0 :> 1 @@ 1 :> 1 @@ 2 :> 1 @@ 3 :> 0 @@ 4 :> 0 @@ 5 :> 0 @@ 6 :> 0 @@ 7 :> 0),inl |-> 1,ip |-> [r |-> 1, g1 |-> 1, g2 |-> 1],dl |-> (0 :> FALSE @@ 1 :> FALSE @@ 2 :> TRUE @@ 3 :> FALSE @@ 4 :> FALSE @@ 5 :> FALSE @@ 6 :> FALSE @@ 7 :> FALSE),l |-> 4,prog |-> [r |-> <<[n |-> 1, op |-> "rd", v |-> 0]>>, g1 |-> <<[n |-> 1, op |-> "push", v |-> 10], [n |-> 7, op |-> "gtal", v |-> 0]>>, g2 |-> <<[n |-> 3, op |-> "growr", v |-> 20]>>],strat |-> 0,buf |-> (0 :> <<0, 0>> @@ 1 :> <<0, 2>> @@ 2 :> <<1, 0>> @@ 3 :> <<>> @@ 4 :> <<>> @@ 5 :> <<>> @@ 6 :> <<>> @@ 7 :> <<>>),pc |-> [r |-> "Start", g1 |-> "SaSpinLd", g2 |-> "Start"],size |-> 4,cached |-> (0 :> <<0, 0>> @@ 1 :> <<0, 2>> @@ 2 :> <<1, 0>> @@ 3 :> <<>> @@ 4 :> <<>> @@ 5 :> <<>> @@ 6 :> <<>> @@ 7 :> <<>>),claims |-> <<[n |-> 1, t |-> "g1", k |-> 1, from |-> 3]>>,emit |-> <<>>,blen |-> (0 :> 4 @@ 1 :> 4),first |-> (0 :> <<0, 0>> @@ 1 :> <<0, 2>> @@ 2 :> <<1, 0>> @@ 3 :> <<>> @@ 4 :> <<>> @@ 5 :> <<>> @@ 6 :> <<>> @@ 7 :> <<>>)]),
    ([nblk |-> 2,loc |-> [r |-> [d |-> 0, idx |-> 0, lb |-> 0, cap |-> 0, sz |-> 0, ab |-> <<>>, fa |-> FALSE, ph |-> "loop", sb |-> 0, nb |-> <<>>], g1 |-> [d |-> 1, idx |-> 3, lb |-> 0, cap |-> 0, sz |-> 0, ab |-> <<>>, fa |-> FALSE, ph |-> "loop", sb |-> 0, nb |-> <<>>], g2 |-> [d |-> 0, idx |-> 0, lb |-> 0, cap |-> 0, sz |-> 0, ab |-> <<>>, fa |-> FALSE, ph |-> "loop", sb |-> 0, nb |-> <<>>]],n0 |-> 3,alive |-> TRUE,data |-> (0 :> 1 @@ 1 :> 2 @@ 2 :> 3 @@ 3 :> 10 @@ 4 :> 0 @@ 5 :> 0 @@ 6 :> 0 @@ 7 :> 0 @@ 8 :> 0 @@ 9 :> 0 @@ 10 :> 0 @@ 11 :> 0 @@ 12 :> 0 @@ 13 :> 0 @@ 14 :> 0 @@ 15 :> 0 @@ 16 :> 0 @@ 17 :> 0 @@ 18 :> 0 @@ 19 :> 0 @@ 20 :> 0 @@ 21 :> 0 @@ 22 :> 0 @@ 23 :> 0),nfree |-> 0,F |-> 2,stores |-> (0 :> 1 @@ 1 :> 1 @@ 2 :> 1 @@ 3 :> 0 @@ 4 :> 0 @@ 5 :> 0 @@ 6 :> 0 @@ 7 :> 0),inl |-> 1,ip |-> [r |-> 1, g1 |-> 2, g2 |-> 1],dl |-> (0 :> FALSE @@ 1 :> FALSE @@ 2 :> TRUE @@ 3 :> FALSE @@ 4 :> FALSE @@ 5 :> FALSE @@ 6 :> FALSE @@ 7 :> FALSE),l |-> 5,prog |-> [r |-> <<[n |-> 1, op |-> "rd", v |-> 0]>>, g1 |-> <<[n |-> 1, op |-> "push", v |-> 10], [n |-> 7, op |-> "gtal", v |-> 0]>>, g2 |-> <<[n |-> 3, op |-> "growr", v |-> 20]>>],strat |-> 0,buf |-> (0 :> <<0, 0>> @@ 1 :> <<0, 2>> @@ 2 :> <<1, 0>> @@ 3 :> <<>> @@ 4 :> <<>> @@ 5 :> <<>> @@ 6 :> <<>> @@ 7 :> <<>>),pc |-> [r |-> "Start", g1 |-> "GtLd", g2 |-> "Start"],size |-> 4,cached |-> (0 :> <<0, 0>> @@ 1 :> <<0, 2>> @@ 2 :> <<1, 0>> @@ 3 :> <<>> @@ 4 :> <<>> @@ 5 :> <<>> @@ 6 :> <<>> @@ 7 :> <<>>),claims |-> <<[n |-> 1, t |-> "g1", k |-> 1, from |-> 3]>>,emit |-> <<3>>,blen |-> (0 :> 4 @@ 1 :> 4),first |-> (0 :> <<0, 0>> @@ 1 :> <<0, 2>> @@ 2 :> <<1, 0>> @@ 3 :> <<>> @@ 4 :> <<>> @@ 5 :> <<>> @@ 6 :> <<>> @@ 7 :> <<>>)]),
    ([nblk |-> 2,loc |-> [r |-> [d |-> 0, idx |-> 0, lb |-> 0, cap |-> 0, sz |-> 0, ab |-> <<>>, fa |-> FALSE, ph |-> "loop", sb |-> 0, nb |-> <<>>], g1 |-> [d |-> 3, idx |-> 0, lb |-> 0, cap |-> 0, sz |-> 0, ab |-> <<>>, fa |-> FALSE, ph |-> "loop", sb |-> 0, nb |-> <<>>], g2 |-> [d |-> 0, idx |-> 0, lb |-> 0, cap |-> 0, sz |-> 0, ab |-> <<>>, fa |-> FALSE, ph |-> "loop", sb |-> 0, nb |-> <<>>]],n0 |-> 3,alive |-> TRUE,data |-> (0 :> 1 @@ 1 :> 2 @@ 2 :> 3 @@ 3 :> 10 @@ 4 :> 0 @@ 5 :> 0 @@ 6 :> 0 @@ 7 :> 0 @@ 8 :> 0 @@ 9 :> 0 @@ 10 :> 0 @@ 11 :> 0 @@ 12 :> 0 @@ 13 :> 0 @@ 14 :> 0 @@ 15 :> 0 @@ 16 :> 0 @@ 17 :> 0 @@ 18 :> 0 @@ 19 :> 0 @@ 20 :> 0 @@ 21 :> 0 @@ 22 :> 0 @@ 23 :> 0),nfree |-> 0,F |-> 2,stores |-> (0 :> 1 @@ 1 :> 1 @@ 2 :> 1 @@ 3 :> 0 @@ 4 :> 0 @@ 5 :> 0 @@ 6 :> 0 @@ 7 :> 0),inl |-> 1,ip |-> [r |-> 1, g1 |-> 2, g2 |-> 1],dl |-> (0 :> FALSE @@ 1 :> FALSE @@ 2 :> TRUE @@ 3 :> FALSE @@ 4 :> FALSE @@ 5 :> FALSE @@ 6 :> FALSE @@ 7 :> FALSE),l |-> 6,prog |-> [r |-> <<[n |-> 1, op |-> "rd", v |-> 0]>>, g1 |-> <<[n |-> 1, op |-> "push", v |-> 10], [n |-> 7, op |-> "gtal", v |-> 0]>>, g2 |-> <<[n |-> 3, op |-> "growr", v |-> 20]>>],strat |-> 0,buf |-> (0 :> <<0, 0>> @@ 1 :> <<0, 2>> @@ 2 :> <<1, 0>> @@ 3 :> <<>> @@ 4 :> <<>> @@ 5 :> <<>> @@ 6 :> <<>> @@ 7 :> <<>>),pc |-> [r |-> "Start", g1 |-> "GbFaa", g2 |-> "Start"],size |-> 4,cached |-> (0 :> <<0, 0>> @@ 1 :> <<0, 2>> @@ 2 :> <<1, 0>> @@ 3 :> <<>> @@ 4 :> <<>> @@ 5 :> <<>> @@ 6 :> <<>> @@ 7 :> <<>>),claims |-> <<[n |-> 1, t |-> "g1", k |-> 1, from |-> 3]>>,emit |-> <<>>,blen |-> (0 :> 4 @@ 1 :> 4),first |-> (0 :> <<0, 0>> @@ 1 :> <<0, 2>> @@ 2 :> <<1, 0>> @@ 3 :> <<>> @@ 4 :> <<>> @@ 5 :> <<>> @@ 6 :> <<>> @@ 7 :> <<>>)]),
    ([nblk |-> 2,loc |-> [r |-> [d |-> 0, idx |-> 0, lb |-> 0, cap |-> 0, sz |-> 0, ab |-> <<>>, fa |-> FALSE, ph |-> "loop", sb |-> 0, nb |-> <<>>], g1 |-> [d |-> 3, idx |-> 4, lb |-> 3, cap |-> 8, sz |-> 0, ab |-> <<>>, fa |-> FALSE, ph |-> "loop", sb |-> 2, nb |-> <<>>], g2 |-> [d |-> 0, idx |-> 0, lb |-> 0, cap |-> 0, sz |-> 0, ab |-> <<>>, fa |-> FALSE, ph |-> "loop", sb |-> 0, nb |-> <<>>]],n0 |-> 3,alive |-> TRUE,data |-> (0 :> 1 @@ 1 :> 2 @@ 2 :> 3 @@ 3 :> 10 @@ 4 :> 0 @@ 5 :> 0 @@ 6 :> 0 @@ 7 :> 0 @@ 8 :> 0 @@ 9 :> 0 @@ 10 :> 0 @@ 11 :> 0 @@ 12 :> 0 @@ 13 :> 0 @@ 14 :> 0 @@ 15 :> 0 @@ 16 :> 0 @@ 17 :> 0 @@ 18 :> 0 @@ 19 :> 0 @@ 20 :> 0 @@ 21 :> 0 @@ 22 :> 0 @@ 23 :> 0),nfree |-> 0,F |-> 2,stores |-> (0 :> 1 @@ 1 :> 1 @@ 2 :> 1 @@ 3 :> 0 @@ 4 :> 0 @@ 5 :> 0 @@ 6 :> 0 @@ 7 :> 0),inl |-> 1,ip |-> [r |-> 1, g1 |-> 2, g2 |-> 1],dl |-> (0 :> FALSE @@ 1 :> FALSE @@ 2 :> TRUE @@ 3 :> FALSE @@ 4 :> FALSE @@ 5 :> FALSE @@ 6 :> FALSE @@ 7 :> FALSE),l |-> 7,prog |-> [r |-> <<[n |-> 1, op |-> "rd", v |-> 0]>>, g1 |-> <<[n |-> 1, op |-> "push", v |-> 10], [n |-> 7, op |-> "gtal", v |-> 0]>>, g2 |-> <<[n |-> 3, op |-> "growr", v |-> 20]>>],strat |-> 0,buf |-> (0 :> <<0, 0>> @@ 1 :> <<0, 2>> @@ 2 :> <<1, 0>> @@ 3 :> <<>> @@ 4 :> <<>> @@ 5 :> <<>> @@ 6 :> <<>> @@ 7 :> <<>>),pc |-> [r |-> "Start", g1 |-> "RaLdCntX", g2 |-> "Start"],size |-> 7,cached |-> (0 :> <<0, 0>> @@ 1 :> <<0, 2>> @@ 2 :> <<1, 0>> @@ 3 :> <<>> @@ 4 :> <<>> @@ 5 :> <<>> @@ 6 :> <<>> @@ 7 :> <<>>),claims |-> <<[n |-> 1, t |-> "g1", k |-> 1, from |-> 3], [n |-> 3, t |-> "g1", k |-> 2, from |-> 4]>>,emit |-> <<>>,blen |-> (0 :> 4 @@ 1 :> 4),first |-> (0 :> <<0, 0>> @@ 1 :> <<0, 2>> @@ 2 :> <<1, 0>> @@ 3 :> <<>> @@ 4 :> <<>> @@ 5 :> <<>> @@ 6 :> <<>> @@ 7 :> <<>>)])
    >>
----


=============================================================================

---- CONFIG CVecTrace_TTrace_1790041263 ----
CONSTANTS
    Threads = { }
    NB = 8
    LogN = 24

INVARIANT
    _inv

CHECK_DEADLOCK
    \* CHECK_DEADLOCK off because of PROPERTY or INVARIANT above.
    FALSE

INIT
    _init

NEXT
    _next

CONSTANT
    _TETrace <- _trace

ALIAS
    _expression
=============================================================================
\* Generated on Tue Sep 22 01:41:39 UTC 2026