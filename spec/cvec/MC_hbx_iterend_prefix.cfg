CONSTANTS
  PreFixIter = TRUE
  Threads = {"g1", "g2"}
  Readers = {"r"}
  RModes = {"iterend"}
  MaxClaims = 4
  NB = 6
  LogN = 16
  Opts <- OptsAll
  Cfgs <- Cfgs_iterend
INIT HInit
NEXT HNext
CHECK_DEADLOCK FALSE
INVARIANTS OrdersComplete RaceFreeIterEnd HTypeOK TypeOK AssignedOnce NoLostNoOverwrite
