CONSTANTS
  Threads = {"main", "tts0"}
  Cfg <- Cfg_once
  Prog <- Prog_del
  WorkerSet = {}
  Variant = "fixed"
INIT Init
NEXT Next
CHECK_DEADLOCK FALSE
INVARIANTS TypeOK RunCount NoneAfterFalse NoneAfterCancel NotEarly FuncLifetime DtorQuiescent DetachedKeepsFunc InProgressExact
