---------------------------- MODULE MCTimedTask ----------------------------
EXTENDS TimedTask
O(op, k) == [op |-> op, k |-> k]
C(at, per, times, steady, inl, falseAt) ==
  [at |-> at, per |-> per, times |-> times, steady |-> steady, inl |-> inl, falseAt |-> falseAt]

\* ---- one task, inline schedulable (ImmediateInvoker): scheduler thread + one driver
Cfg_once    == [k \in {1} |-> C(1, 0, 1, FALSE, TRUE, 0)]
Cfg_twice   == [k \in {1} |-> C(1, 1, 2, FALSE, TRUE, 0)]
Cfg_now2    == [k \in {1} |-> C(0, 1, 2, TRUE, TRUE, 0)]
Prog_del    == [main |-> <<O("new", 0), O("sched", 1), O("tick", 0), O("del", 1), O("stop", 0)>>]
Prog_del2   == [main |-> <<O("new", 0), O("sched", 1), O("tick", 0), O("tick", 0), O("calls", 1), O("del", 1),
                            O("stop", 0)>>]
Prog_cancel == [main |-> <<O("new", 0), O("sched", 1), O("tick", 0), O("cancel", 1), O("tick", 0), O("del", 1),
                            O("stop", 0)>>]
Prog_detach == [main |-> <<O("new", 0), O("sched", 1), O("detach", 1), O("del", 1), O("tick", 0), O("tick", 0),
                            O("stop", 0)>>]

Prog_candel == [main |-> <<O("new", 0), O("sched", 1), O("cancel", 1), O("tick", 0), O("del", 1), O("stop", 0)>>]
Cfg_det2    == [k \in {1} |-> C(1, 1, 2, TRUE, TRUE, 0)]
Prog_det    == [main |-> <<O("new", 0), O("sched", 1), O("detach", 1), O("del", 1), O("tick", 0), O("tick", 0),
                            O("stop", 0)>>]

\* ---- pool with one worker: periodic task whose function returns false on its first call
Cfg_false3  == [k \in {1} |-> C(0, 0, 3, FALSE, FALSE, 1)]
Cfg_false3i == [k \in {1} |-> C(0, 0, 3, FALSE, TRUE, 1)]
Cfg_pool3   == [k \in {1} |-> C(1, 1, 3, TRUE, FALSE, 2)]
Prog_pool   == [main |-> <<O("new", 0), O("sched", 1), O("tick", 0), O("del", 1), O("stop", 0), O("delpool", 0)>>]
Prog_pooldet == [main |-> <<O("new", 0), O("sched", 1), O("detach", 1), O("del", 1), O("tick", 0), O("tick", 0),
                             O("tick", 0), O("stop", 0), O("delpool", 0)>>]
Prog_poolcan == [main |-> <<O("new", 0), O("sched", 1), O("tick", 0), O("cancel", 1), O("tick", 0), O("calls", 1),
                             O("del", 1), O("stop", 0), O("delpool", 0)>>]

\* ---- two tasks (pool + ImmediateInvoker) on two driver threads
Cfg_two     == [k \in {1, 2} |-> IF k = 1 THEN C(1, 1, 2, TRUE, FALSE, 0) ELSE C(0, 2, 2, FALSE, TRUE, 2)]
Prog_two    == [main |-> <<O("new", 0), O("sched", 1), O("tick", 0), O("cancel", 1), O("del", 1), O("sync", 0), O("stop", 0),
                            O("delpool", 0)>>,
                p2   |-> <<O("up", 0), O("sched", 2), O("del", 2)>>]

\* ---- quick tier: three small configurations as three initial states of one TLC run
InitQuick ==
  \/ InitWith(Cfg_false3, Prog_pool, {"w0"})
  \/ InitWith(Cfg_now2, Prog_candel, {"w0"})     \* tasks on ImmediateInvoker: the worker stays idle
  \/ InitWith(Cfg_det2, Prog_det, {"w0"})
=============================================================================
