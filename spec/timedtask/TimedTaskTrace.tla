--------------------------- MODULE TimedTaskTrace ---------------------------
(* Trace validation for TimedTask.tla.  Every line of the ndjson trace recorded from the *)
(* REAL TimedTaskScheduler / TimedTask (and, when the scenario has one, the real          *)
(* ThreadPool) under the controlled scheduler must be explained by the specification:     *)
(*  - an event at one of the component's own sites (Tt.., the scheduler's own Ew.. and    *)
(*    futex calls, DrOp / DrSync / DrUp / DrBody) by the action of the same name taken by *)
(*    the same thread, on the task the hook's object belongs to (note "k");               *)
(*  - a pool-internal event (Tp.., Pw.., the pool's Ew.. / futex) is a stuttering step,   *)
(*    except that the tail of sched.schedule(wrap) (FnReturn), the end of `new` and of    *)
(*    `delpool` happen inside such steps;                                                 *)
(*  - after EVERY event the projected state (per task: timesToRun, flags, inProgress,     *)
(*    count, nextAbsTime, use count, "the stored function still owns the user's functor"; *)
(*    scheduler queue, running_, epoch; logical clock) must equal the specification's;    *)
(*  - the notes of the step (user function begin/end with its invocation index, return of *)
(*    a driver operation and the value of calls()) must be what the specification says.   *)
(* All invariants of TimedTask.tla are evaluated in every state of the behaviour.         *)
(* Lines {"e":"Rec",...} are free-running real-time records (E5): each is judged by       *)
(* RecOK (TimedRecProps.tla) and leaves the state alone.                                  *)
EXTENDS TimedTask, TimedRecProps, Json, IOUtils

TraceLog == ndJsonDeserialize(IOEnv.TRACE)

VARIABLE l   \* next line to consume

tvars == <<vars, l>>

SeqToSet(s) == {s[i] : i \in 1 .. Len(s)}

TraceInit ==
  /\ l = 2
  /\ TraceLog[1].e = "Reset"
  /\ InitWith(TraceLog[1].cfg, TraceLog[1].prog, SeqToSet(TraceLog[1].workers))

ResetTo(c, p, w) ==
  /\ cfg' = c /\ prog' = p /\ workers' = w
  /\ now' = 0
  /\ ttr' = [k \in DOMAIN c |-> 0]
  /\ cancelled' = [k \in DOMAIN c |-> FALSE]
  /\ detached' = [k \in DOMAIN c |-> FALSE]
  /\ inprog' = [k \in DOMAIN c |-> 0]
  /\ count' = [k \in DOMAIN c |-> 0]
  /\ nextAbs' = [k \in DOMAIN c |-> 0]
  /\ funcAlive' = [k \in DOMAIN c |-> FALSE]
  /\ refs' = [k \in DOMAIN c |-> 0]
  /\ queue' = {} /\ running' = FALSE /\ epoch' = 0
  /\ queued' = [k \in DOMAIN c |-> 0]
  /\ pc' = [t \in (DOMAIN p) \cup {TTS} \cup w |->
              IF t \in DOMAIN p THEN "Start" ELSE IF t = TTS THEN "unborn" ELSE "idle"]
  /\ ip' = [t \in DOMAIN p |-> 1]
  /\ loc' = [t \in (DOMAIN p) \cup {TTS} \cup w |-> EmptyLoc]
  /\ started' = [k \in DOMAIN c |-> 0]
  /\ bad' = {}
  /\ dtorDone' = [k \in DOMAIN c |-> FALSE]
  /\ cancelStored' = [k \in DOMAIN c |-> FALSE]
  /\ falseStored' = [k \in DOMAIN c |-> FALSE]

\* ------------------------------------------------------------------------------ notes
\* r holds the values noted during the step: the modelled futex notes plain integers (only in
\* FutexWait / FutexRet events), everything else is a triple <<tag, a, b>>
Tagged(ev) == "r" \in DOMAIN ev /\ ev.e \notin {"FutexWait", "FutexRet"}
HasNote(ev, tag) == Tagged(ev) /\ \E i \in 1 .. Len(ev.r) : ev.r[i][1] = tag
NoteOf(ev, tag) == ev.r[CHOOSE i \in 1 .. Len(ev.r) : ev.r[i][1] = tag]
CountNotes(ev, tag) == IF Tagged(ev) THEN Cardinality({i \in 1 .. Len(ev.r) : ev.r[i][1] = tag}) ELSE 0

OwnSites == {"DrOp", "DrSync", "DrUp", "DrBody",
             "TtAddReadClock", "TtAddPush", "TtCancelStoreTimes", "TtCancelSetFlag", "TtDetachSetFlag",
             "TtCallsLoad", "TtDtorLoadFlags", "TtDtorLoadInProgress", "TtDtorClearFunc", "TtStop", "TtJoined",
             "TtLoopTop", "TtReadClock", "TtPeek", "TtKickGuard", "TtKickLoadFlags", "TtKickFetchSub",
             "TtKickCall", "TtFnLoadFlags", "TtFnIncInProgress", "TtFnDecInProgress", "TtKickRearm",
             "TtKickUnguard", "TtWrLoadFlags", "TtWrStoreTimes", "TtWrSetCancelled", "TtWrLoadInProgress",
             "TtWrClearFunc", "TtWrIncCount", "TtWrDecInProgress"}

\* is this Ew.. / futex event one of the scheduler's own EpochWaiter (and not the pool's)?
OwnWaiter(ev) ==
  LET t == ev.t IN
  CASE ev.e \in {"EwBump", "EwLoadEpochA", "EwLoadEpochB", "EwLoadEpochC"} -> HasNote(ev, "ew")
    [] ev.e = "FutexWake"    -> pc[t] \in {"addwake", "stopwake"}
    [] ev.e = "FutexWait"    -> t = TTS /\ pc[t] = "fwait"
    [] ev.e = "FutexRet"     -> t = TTS /\ pc[t] = "fret"
    [] ev.e = "FutexTimeout" -> t = TTS /\ pc[t] = "blocked"
    [] OTHER -> FALSE

\* `new` with a real pool: the operation ends inside a pool-internal step
TraceNewBegin(t) ==
  /\ pc[t] = "op" /\ Op(t).op = "new"
  /\ Goto(t, "innew")
  /\ UNCHANGED <<confv, now, taskv, schedv, queued, ip, loc, ghost>>
TraceNewEnd(t) == pc[t] = "innew" /\ DrNew(t)

Stutter == UNCHANGED vars

Dispatch(ev) ==
  LET e == ev.e
      t == ev.t
  IN CASE e = "Start" -> (IF pc[t] = "Start" THEN Start(t) ELSE Stutter)
       [] e = "DrOp" -> (IF Op(t).op = "new" /\ ~HasNote(ev, "ret") THEN TraceNewBegin(t) ELSE DrOp(t))
       [] e = "DrSync" -> DrSync(t)
       [] e = "DrUp" -> DrUp(t)
       [] e = "DrBody" -> DrBody(t)
       [] e = "TtAddReadClock" -> TtAddReadClock(t)
       [] e = "TtAddPush" -> TtAddPush(t)
       [] e = "TtCancelStoreTimes" -> TtCancelStoreTimes(t)
       [] e = "TtCancelSetFlag" -> TtCancelSetFlag(t)
       [] e = "TtDetachSetFlag" -> TtDetachSetFlag(t)
       [] e = "TtCallsLoad" -> TtCallsLoad(t)
       [] e = "TtDtorLoadFlags" -> TtDtorLoadFlags(t)
       [] e = "TtDtorLoadInProgress" -> TtDtorLoadInProgress(t)
       [] e = "TtDtorClearFunc" -> TtDtorClearFunc(t)
       [] e = "TtStop" -> TtStop(t)
       [] e = "TtJoined" -> TtJoined(t)
       [] e = "TtLoopTop" -> TtLoopTop(t)
       [] e = "TtReadClock" -> TtReadClock(t)
       [] e = "TtPeek" -> TtPeek(t)
       [] e = "TtKickGuard" -> TtKickGuard(t)
       [] e = "TtKickLoadFlags" -> TtKickLoadFlags(t)
       [] e = "TtKickFetchSub" -> TtKickFetchSub(t)
       [] e = "TtKickCall" -> TtKickCall(t)
       [] e = "TtFnLoadFlags" -> TtFnLoadFlags(t)
       [] e = "TtFnIncInProgress" -> TtFnIncInProgress(t)
       [] e = "TtFnDecInProgress" -> TtFnDecInProgress(t)
       [] e = "TtKickRearm" -> TtKickRearm(t)
       [] e = "TtKickUnguard" -> TtKickUnguard(t)
       [] e = "TtWrLoadFlags" -> TtWrLoadFlags(t)
       [] e = "TtWrStoreTimes" -> TtWrStoreTimes(t)
       [] e = "TtWrSetCancelled" -> TtWrSetCancelled(t)
       [] e = "TtWrLoadInProgress" -> TtWrLoadInProgress(t)
       [] e = "TtWrClearFunc" -> TtWrClearFunc(t)
       [] e = "TtWrIncCount" -> TtWrIncCount(t)
       [] e = "TtWrDecInProgress" -> TtWrDecInProgress(t)
       [] e = "EwBump" /\ OwnWaiter(ev) -> EwBump(t)
       [] e = "EwLoadEpochA" /\ OwnWaiter(ev) -> EwLoadEpochA(t)
       [] e = "EwLoadEpochB" /\ OwnWaiter(ev) -> EwLoadEpochB(t)
       [] e = "EwLoadEpochC" /\ OwnWaiter(ev) -> EwLoadEpochC(t)
       [] e = "FutexWake" /\ OwnWaiter(ev) -> "w" \in DOMAIN ev /\ FutexWake(t, SeqToSet(ev.w))
       [] e = "FutexWait" /\ OwnWaiter(ev) -> FutexWait(t) /\ ev.r = <<IF pc'[t] = "blocked" THEN 1 ELSE 0>>
       [] e = "FutexRet" /\ OwnWaiter(ev) -> FutexRet(t) /\ ev.r = <<loc[t].wr>>
       [] e = "FutexTimeout" /\ OwnWaiter(ev) ->
            FutexTimeout(t) /\ ev.us >= loc[t].us - 1 /\ ev.us <= loc[t].us + 1
       [] OTHER ->
            \* pool-internal step of some thread
            IF t \notin AllT THEN Stutter
            ELSE CASE pc[t] = "innew" /\ HasNote(ev, "ret") -> TraceNewEnd(t)
                   [] pc[t] = "delpool" /\ HasNote(ev, "ret") -> PoolDrained(t)
                   [] pc[t] = "fnsched" -> (Stutter \/ FnEnqueue(t))
                   [] pc[t] = "fnsched2" -> (Stutter \/ FnReturn(t))
                   [] OTHER -> Stutter

\* ------------------------------------------------------------------- what the step noted
NotesOK(ev) ==
  LET t == ev.t IN
  /\ ~HasNote(ev, "uaf")          \* the harness functor was used after its destruction
  \* the operation of a driver thread returns exactly in the step the specification says
  /\ (t \in Drivers => (HasNote(ev, "ret") <=> ip'[t] > ip[t]))
  /\ (t \notin Drivers => ~HasNote(ev, "ret"))
  \* calls() returned the count the specification read
  /\ (ev.e = "TtCallsLoad" => NoteOf(ev, "ret")[3] = loc'[t].rem)
  \* the hook's object is the task the specification's thread is working on
  /\ ((HasNote(ev, "k") /\ NoteOf(ev, "k")[2] # 0) => (t \in AllT /\ loc'[t].k = NoteOf(ev, "k")[2]))
  \* the user's function begins exactly where the specification says (after the cancelled check
  \* of the wrapper), with the invocation index the specification counts, and ends in DrBody
  /\ CountNotes(ev, "begin") = (IF ev.e = "TtWrLoadFlags" /\ pc'[t] = "body" THEN 1 ELSE 0)
  /\ (HasNote(ev, "begin") => NoteOf(ev, "begin") = <<"begin", loc'[t].k, started'[loc'[t].k]>>)
  /\ CountNotes(ev, "end") = (IF ev.e = "DrBody" THEN 1 ELSE 0)

\* ------------------------------------------------------------------- projected state
TaskProjOK(k, p) ==
  /\ p.fa = (IF funcAlive'[k] THEN 1 ELSE 0)
  /\ p.al = (IF refs'[k] > 0 THEN 1 ELSE 0)
  /\ (p.rc >= 0 => p.rc = refs'[k])
  /\ (refs'[k] > 0 =>
        /\ p.tr = ttr'[k]
        /\ p.fl = (IF detached'[k] THEN 1 ELSE 0) + (IF cancelled'[k] THEN 2 ELSE 0)
        /\ p.ip = inprog'[k]
        /\ p.cnt = count'[k]
        /\ p.nx = nextAbs'[k])

\* the TimedTaskScheduler object exists: from the end of `new` to the end of `stop`
SchedUpNext ==
  /\ pc'[TTS] # "unborn"
  /\ ~(pc'[TTS] = "done" /\ \A t \in Drivers : pc'[t] \notin {"stopbump", "stopwake", "joining"})

ProjOK(ev) ==
  /\ ev.s.now = now'
  /\ Len(ev.s.tk) = Cardinality(Tasks)
  /\ \A k \in Tasks : TaskProjOK(k, ev.s.tk[k])
  /\ ev.s.up = (IF SchedUpNext THEN 1 ELSE 0)
  /\ (ev.s.up = 1 =>
        /\ SeqToSet(ev.s.q) = queue' /\ Len(ev.s.q) = Cardinality(queue')
        /\ ev.s.run = (IF running' THEN 1 ELSE 0)
        /\ ev.s.ep = epoch' % 65536)

EnvEvents  == {"FutexTimeout", "FutexSpurious"}
MetaEvents == {"Reset", "End", "Rec"}

TraceStep ==
  /\ l <= Len(TraceLog)
  /\ LET ev == TraceLog[l] IN
       \/ /\ ev.e = "Reset"
          /\ ResetTo(ev.cfg, ev.prog, SeqToSet(ev.workers))
       \/ /\ ev.e = "End"                      \* the real program ran to completion
          /\ AllDone
          /\ \A k \in Tasks : queued[k] = 0
          /\ UNCHANGED vars
       \/ /\ ev.e = "Rec"                      \* a free-running real-time record (E5), judged on its own
          /\ RecOK(ev)
          /\ UNCHANGED vars
       \/ /\ ev.e \notin MetaEvents
          /\ ev.e \notin {"Deadlock", "Crash", "Diverged", "FutexSpurious"}
          /\ Dispatch(ev)
          /\ (ev.e \notin EnvEvents => NotesOK(ev))
          /\ ProjOK(ev)
  /\ l' = l + 1

TraceSpec == TraceInit /\ [][TraceStep]_tvars

\* One state per consumed line (TraceInit consumes line 1).
TraceAccepted ==
  LET d == TLCGet("stats").diameter IN
  IF d = Len(TraceLog) THEN TRUE
  ELSE /\ PrintT(<<"TRACE_REJECTED_AT_LINE", d + 1, "OF", Len(TraceLog)>>)
       /\ PrintT(<<"OFFENDING", TraceLog[d + 1]>>)
       /\ FALSE
=============================================================================
