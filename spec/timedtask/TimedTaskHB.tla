---------------------------- MODULE TimedTaskHB ----------------------------
(* C10 (no data race under the declared memory orders) for dispenso::TimedTask /         *)
(* TimedTaskScheduler: TimedTask.tla (one action per DISPENSO_VERIF_POINT site of         *)
(* timed_task.h, timed_task.cpp, detail/timed_task_impl.h, detail/epoch_waiter.h)         *)
(* composed with the vector-clock model MemOrder.tla.  The order of every atomic access   *)
(* comes from the generated module OrdersTimedTask (bin/extract_orders.py on the four     *)
(* files above).  Only the protocol of the sources is overlaid: Variant = "fixed".        *)
(*                                                                                         *)
(* Atomic locations (per task k = one TimedTaskImpl): count, ttr (timesToRun), flags,     *)
(* inprog (inProgress); the scheduler's epoch_; ghost atomics: own[k] = use count of the   *)
(* shared_ptr control block (increment relaxed, decrement OwnOrd = acq_rel: the standard   *)
(* library's contract), mtx = queueMutex_ (lock = acquire RMW, unlock = release store),    *)
(* pq[k] = the hand-over of a wrapper through the pool's queue (schedule = release RMW,    *)
(* the thread that starts the wrapper = acquire load; the pool has its own overlay), gate  *)
(* = the driver's `up` gate (a thread may use the scheduler once it has been built).       *)
(*                                                                                         *)
(* Non-atomic locations:                                                                   *)
(*   func[k]   the member std::function `func` of the impl = the closure that owns the     *)
(*             user's functor f.  Written: construction (DrSched), `func = {}`             *)
(*             (TtDtorClearFunc, TtWrClearFunc), destruction of the impl by the last owner *)
(*             (any step that takes own[k] to 0).  Read: the invocation next->func(next)   *)
(*             (TtKickCall), every step that executes inside the closure (TtFnLoadFlags,   *)
(*             TtFnIncInProgress, FnEnqueue), the return out of the closure (FnReturn, the *)
(*             return of an inline wrapper, the early return when cancelled), and the      *)
(*             user's functor running (DrBody: the wrapper calls f through a reference     *)
(*             into func).                                                                 *)
(*   eff[k][i] what the i-th run of the functor wrote (one cell per run: overlapping runs  *)
(*             of a periodic task on a pool are the user's business).  Written by DrBody,  *)
(*             read by the thread that returns from ~TimedTask() (all runs that started)   *)
(*             and by a thread that calls calls() (the runs whose wrapper has incremented  *)
(*             count: that is what the acquire load of count can cover).                   *)
(*   nat[k]    nextAbsTime/period/steady of the impl: written at construction and by       *)
(*             TtKickRearm (outside the mutex, the task is in no queue), read by           *)
(*             addTimedTask and by the comparator of tasks_ (push/top/pop, under the       *)
(*             mutex; modelled as reading every member of the queue).                      *)
(*   q, run    tasks_ and running_ of the scheduler (under queueMutex_; constructed before *)
(*             the thread is spawned, destroyed after it was joined).                      *)
(*                                                                                         *)
(* Clock ticks: MemOrder's atomic operators tick the clock of the acting thread.  That is  *)
(* not needed for exactness (a thread's clock has to advance only between a release and    *)
(* its next non-atomic access, and NAWrite / NARead tick themselves before they record     *)
(* the access), and it would make the state space infinite: ~TimedTask() spins on          *)
(* inProgress.  Every atomic operation is therefore applied to Pre(hb, t) (own component   *)
(* decremented, so that the operator's tick restores it): same joins, same release         *)
(* clocks, no net tick.  The scheduler's loop does non-atomic reads under the mutex in     *)
(* every iteration; its iterations are bounded by the bumps, the runs and the timeouts of  *)
(* the timed futex wait; the latter are bounded by MaxTimeouts (ghost counter nto).        *)
EXTENDS TimedTask, MemOrder, OrdersTimedTask

CONSTANTS HTasks,       \* task ids that may occur (constant superset of DOMAIN cfg)
          MaxRun,       \* eff cells per task (>= number of runs of any task)
          MaxTimeouts,  \* bound on FutexTimeout steps (time-outs of epoch_.waitFor)
          OwnOrd        \* order of the decrement of the shared_ptr use count: "acq_rel"

ASSUME Variant = "fixed"

VARIABLES hb,
          nto,       \* number of FutexTimeout steps so far
          myrun,     \* thread -> index of the run it is executing
          counted    \* task -> runs whose wrapper has incremented count

hvars == <<vars, hb, nto, myrun, counted>>

HT == Threads

Flags(k) == <<"flags", k>>
Ttr(k)   == <<"ttr", k>>
Cnt(k)   == <<"count", k>>
Inp(k)   == <<"inprog", k>>
Own(k)   == <<"own", k>>
Pq(k)    == <<"pq", k>>
Epoch    == <<"epoch", 0>>
Mtx      == <<"mtx", 0>>
Gate     == <<"gate", 0>>
ALocs == {<<n, k>> : n \in {"flags", "ttr", "count", "inprog", "own", "pq"}, k \in HTasks} \cup {Epoch, Mtx, Gate}

Func(k)   == <<"func", k, 0>>
NatL(k)    == <<"nat", k, 0>>
Eff(k, i) == <<"eff", k, i>>
Q         == <<"q", 0, 0>>
Run       == <<"run", 0, 0>>
NLocs == {Func(k) : k \in HTasks} \cup {NatL(k) : k \in HTasks}
         \cup {Eff(k, i) : k \in HTasks, i \in 1..MaxRun} \cup {Q, Run}

\* ------------------------------------------------------------------ orders
OS(site, i) == Ord[site][i][2]
\* hooks whose statement is not an atomic operation (mutex critical sections, clock reads, the call of
\* func, the assignments func = {}): modelled for what they are
NoneSites == {"TtAddPush", "TtAddReadClock", "TtDtorClearFunc", "TtKickCall", "TtKickRearm", "TtLoopTop",
              "TtPeek", "TtReadClock", "TtStop", "TtWrClearFunc"}
\* number of textual occurrences the occurrence maps below rely on
Occs == [EwBump |-> 4, EwLoadEpochA |-> 1, EwLoadEpochB |-> 2, EwLoadEpochC |-> 3, TtKickCall |-> 2]
OrdersComplete ==
  /\ \A s \in DOMAIN Ord \ NoneSites : \A i \in 1..Len(Ord[s]) : Ord[s][i][1] # "none"
  /\ \A s \in NoneSites : s \in DOMAIN Ord /\ \A i \in 1..Len(Ord[s]) : Ord[s][i][1] = "none"
  /\ \A s \in DOMAIN Ord : Len(Ord[s]) = (IF s \in DOMAIN Occs THEN Occs[s] ELSE 1)

\* --------------------------------------------------------------- operators
Pre(h, t) == [h EXCEPT !.vc[t][t] = @ - 1]
Ld(h, t, a, o)  == ALoad(HT, Pre(h, t), t, a, o)
St(h, t, a, o)  == AStore(HT, Pre(h, t), t, a, o)
Rmw(h, t, a, o) == ARmw(HT, Pre(h, t), t, a, o)
Wr(h, t, x) == NAWrite(HT, h, t, x)
Rd(h, t, x) == NARead(HT, h, t, x)
Lock(h, t)   == Rmw(h, t, Mtx, "acquire")
Unlock(h, t) == St(h, t, Mtx, "release")

\* fold of a per-element update over a finite set
RECURSIVE Fold(_, _, _)
Fold(F(_, _), h, S) == IF S = {} THEN h ELSE LET e == CHOOSE e \in S : TRUE IN Fold(F, F(h, e), S \ {e})

RdNats(h, t, S) == LET F(g, k) == Rd(g, t, NatL(k)) IN Fold(F, h, S)
RdEffs(h, t, k, I) == LET F(g, i) == Rd(g, t, Eff(k, i)) IN Fold(F, h, I)
JoinFrom(h, t, S) == LET F(g, u) == HBJoin(HT, g, t, u) IN Fold(F, h, S)
SpawnAll(h, t, S) == LET F(g, u) == HBSpawn(HT, g, t, u) IN Fold(F, h, S)

\* shared_ptr copies made / dropped in this step (difference of the use counts): a copy is a relaxed
\* increment, a drop is a decrement with OwnOrd; the drop that reaches zero destroys the impl (func with it)
RefOne(h, t, k) ==
  IF k \notin Tasks \/ refs'[k] = refs[k] THEN h
  ELSE IF refs'[k] > refs[k] THEN Rmw(h, t, Own(k), "relaxed")
  ELSE LET h1 == Rmw(h, t, Own(k), OwnOrd) IN
       IF refs'[k] = 0 THEN Wr(Wr(h1, t, Func(k)), t, NatL(k)) ELSE h1
HRef(h, t) == LET F(g, k) == RefOne(g, t, k) IN Fold(F, h, HTasks)

\* ------------------------------------------------------------------- init
HBStart == /\ hb = HBInit(HT, ALocs, NLocs)
           /\ nto = 0
           /\ myrun = [t \in HT |-> 0]
           /\ counted = [k \in HTasks |-> {}]
HInit == Init /\ HBStart

Keep == UNCHANGED <<nto, myrun, counted>>

\* ------------------------------------------------------------------- steps
HDrOp(t) ==
  /\ DrOp(t)
  /\ LET o == Op(t) IN
       hb' = CASE o.op = "new" ->
                    \* the scheduler (tasks_, running_) and the pool are built, their threads are spawned
                    SpawnAll(St(Wr(Wr(hb, t, Q), t, Run), t, Gate, "release"), t, {TTS} \cup workers)
               [] o.op = "sched" ->
                    \* make_shared<TimedTaskImpl>: func (closure with the functor), nextAbsTime ...
                    Wr(Wr(hb, t, Func(o.k)), t, NatL(o.k))
               [] OTHER -> hb
  /\ Keep

HStep(t) ==
  \/ HDrOp(t)
  \/ /\ (Start(t) \/ TtReadClock(t) \/ FutexWait(t) \/ FutexRet(t) \/ (\E W \in SUBSET {TTS} : FutexWake(t, W)))
     /\ hb' = hb /\ Keep
  \/ /\ FutexTimeout(t) /\ nto < MaxTimeouts
     /\ nto' = nto + 1 /\ hb' = hb /\ UNCHANGED <<myrun, counted>>
  \* driver gates: `sync` = the other driver threads have been joined; `up` = the scheduler is published
  \/ /\ DrSync(t) /\ hb' = JoinFrom(hb, t, Drivers \ {t}) /\ Keep
  \/ /\ DrUp(t) /\ hb' = Ld(hb, t, Gate, "acquire") /\ Keep
  \* the user's functor (called through a reference into func) has run: its effects
  \/ /\ DrBody(t)
     /\ hb' = Wr(Rd(hb, t, Func(K(t))), t, Eff(K(t), myrun[t]))
     /\ Keep
  \* ---------------------------------------------------------------- addTimedTask
  \/ /\ TtAddReadClock(t) /\ hb' = Rd(hb, t, NatL(K(t))) /\ Keep
  \/ /\ TtAddPush(t)
     /\ hb' = Unlock(Wr(RdNats(Lock(hb, t), t, queue \cup {K(t)}), t, Q), t)
     /\ Keep
  \/ /\ EwBump(t) /\ hb' = Rmw(hb, t, Epoch, OS("EwBump", 1)) /\ Keep
  \* ------------------------------------------------- cancel / detach / calls / ~TimedTask
  \/ /\ TtCancelStoreTimes(t) /\ hb' = St(hb, t, Ttr(K(t)), OS("TtCancelStoreTimes", 1)) /\ Keep
  \/ /\ TtCancelSetFlag(t) /\ hb' = Rmw(hb, t, Flags(K(t)), OS("TtCancelSetFlag", 1)) /\ Keep
  \/ /\ TtDetachSetFlag(t) /\ hb' = Rmw(hb, t, Flags(K(t)), OS("TtDetachSetFlag", 1)) /\ Keep
  \* calls() = n: the caller may look at what the counted runs wrote
  \/ /\ TtCallsLoad(t)
     /\ hb' = RdEffs(Ld(hb, t, Cnt(K(t)), OS("TtCallsLoad", 1)), t, K(t), counted[K(t)])
     /\ Keep
  \/ /\ TtDtorLoadFlags(t)
     /\ hb' = HRef(Ld(hb, t, Flags(K(t)), OS("TtDtorLoadFlags", 1)), t)
     /\ Keep
  \/ /\ TtDtorLoadInProgress(t) /\ hb' = Ld(hb, t, Inp(K(t)), OS("TtDtorLoadInProgress", 1)) /\ Keep
  \* func = {}; the handle lets go; ~TimedTask() returns: the caller looks at what every run wrote
  \/ /\ TtDtorClearFunc(t)
     /\ hb' = RdEffs(HRef(Wr(hb, t, Func(K(t))), t), t, K(t), 1..started[K(t)])
     /\ Keep
  \* ------------------------------------------------------------ ~TimedTaskScheduler
  \/ /\ TtStop(t) /\ hb' = Unlock(Wr(Lock(hb, t), t, Run), t) /\ Keep
  \/ /\ TtJoined(t)
     /\ hb' = HRef(Wr(Wr(HBJoin(HT, hb, t, TTS), t, Q), t, Run), t)
     /\ Keep
  \* --------------------------------------------------------------- scheduler thread
  \/ /\ EwLoadEpochC(t)
     /\ hb' = Ld(hb, t, Epoch, OS("EwLoadEpochC", IF pc[t] = "cur0" THEN 2 ELSE IF loc[t].timed THEN 3 ELSE 1))
     /\ Keep
  \/ /\ TtLoopTop(t) /\ hb' = Unlock(Rd(Rd(Lock(hb, t), t, Run), t, Q), t) /\ Keep
  \/ /\ TtPeek(t)
     /\ hb' = LET h1 == RdNats(Rd(Lock(hb, t), t, Q), t, queue) IN
              Unlock(IF queue' # queue THEN Wr(h1, t, Q) ELSE h1, t)
     /\ Keep
  \/ /\ EwLoadEpochA(t) /\ hb' = Ld(hb, t, Epoch, OS("EwLoadEpochA", 1)) /\ Keep
  \/ /\ EwLoadEpochB(t)
     /\ hb' = Ld(hb, t, Epoch, OS("EwLoadEpochB", IF pc[t] = "waitB" THEN 1 ELSE 2))
     /\ Keep
  \* -------------------------------------------------------------------- kickOffTask
  \/ /\ TtKickGuard(t) /\ hb' = Rmw(hb, t, Inp(K(t)), OS("TtKickGuard", 1)) /\ Keep
  \/ /\ TtKickLoadFlags(t) /\ hb' = Ld(hb, t, Flags(K(t)), OS("TtKickLoadFlags", 1)) /\ Keep
  \/ /\ TtKickFetchSub(t) /\ hb' = HRef(Rmw(hb, t, Ttr(K(t)), OS("TtKickFetchSub", 1)), t) /\ Keep
  \* next->func(next): the function object is read, `next` is copied into the call
  \/ /\ TtKickCall(t) /\ hb' = HRef(Rd(hb, t, Func(K(t))), t) /\ Keep
  \* inside the closure (reads its captures); when cancelled it returns at once (`me` dies)
  \/ /\ TtFnLoadFlags(t)
     /\ hb' = LET h1 == Ld(Rd(hb, t, Func(K(t))), t, Flags(K(t)), OS("TtFnLoadFlags", 1)) IN
              IF cancelled[K(t)] THEN HRef(Rd(h1, t, Func(K(t))), t) ELSE h1
     /\ Keep
  \/ /\ TtFnIncInProgress(t)
     /\ hb' = Rd(Rmw(hb, t, Inp(K(t)), OS("TtFnIncInProgress", 1)), t, Func(K(t)))
     /\ Keep
  \/ /\ TtFnDecInProgress(t) /\ hb' = hb /\ Keep        \* Variant "incfirst" only: unreachable
  \* sched.schedule(wrap): the closure's captures (sched, &f) are read, the wrapper is handed to the pool
  \/ /\ FnEnqueue(t)
     /\ hb' = Rmw(HRef(Rd(hb, t, Func(K(t))), t), t, Pq(K(t)), "release")
     /\ Keep
  \* the closure returns (the call of func ends here)
  \/ /\ FnReturn(t) /\ hb' = HRef(Rd(hb, t, Func(K(t))), t) /\ Keep
  \/ /\ TtKickRearm(t)
     /\ hb' = LET k  == K(t)
                  h1 == Wr(Rd(hb, t, NatL(k)), t, NatL(k))
              IN HRef(Unlock(Wr(RdNats(Lock(h1, t), t, queue \cup {k}), t, Q), t), t)
     /\ Keep
  \/ /\ TtKickUnguard(t) /\ hb' = HRef(Rmw(hb, t, Inp(K(t)), OS("TtKickUnguard", 1)), t) /\ Keep
  \* -------------------------------------------------------------------- the wrapper
  \/ /\ TtWrLoadFlags(t)
     /\ LET k == loc'[t].k IN
          /\ hb' = Ld(IF pc[t] = "wrflags" THEN hb ELSE Ld(hb, t, Pq(k), "acquire"), t, Flags(k),
                      OS("TtWrLoadFlags", 1))
          /\ myrun' = [myrun EXCEPT ![t] = IF pc'[t] = "body" THEN started'[k] ELSE @]
     /\ UNCHANGED <<nto, counted>>
  \/ /\ TtWrStoreTimes(t) /\ hb' = St(hb, t, Ttr(K(t)), OS("TtWrStoreTimes", 1)) /\ Keep
  \/ /\ TtWrSetCancelled(t) /\ hb' = Rmw(hb, t, Flags(K(t)), OS("TtWrSetCancelled", 1)) /\ Keep
  \/ /\ TtWrLoadInProgress(t) /\ hb' = Ld(hb, t, Inp(K(t)), OS("TtWrLoadInProgress", 1)) /\ Keep
  \/ /\ TtWrClearFunc(t) /\ hb' = Wr(hb, t, Func(K(t))) /\ Keep
  \/ /\ TtWrIncCount(t)
     /\ hb' = Rmw(hb, t, Cnt(K(t)), OS("TtWrIncCount", 1))
     /\ counted' = [counted EXCEPT ![K(t)] = @ \cup {myrun[t]}]
     /\ UNCHANGED <<nto, myrun>>
  \* inProgress.fetch_sub; me.reset(); an inline wrapper returns into the closure, which returns
  \/ /\ TtWrDecInProgress(t)
     /\ hb' = LET h1 == HRef(Rmw(hb, t, Inp(K(t)), OS("TtWrDecInProgress", 1)), t) IN
              IF loc[t].back \in {"idle", "delpool"} THEN h1 ELSE Rd(h1, t, Func(K(t)))
     /\ Keep
  \* ~ThreadPool(): the pool threads are joined
  \/ /\ PoolDrained(t) /\ hb' = JoinFrom(hb, t, workers) /\ Keep

HNext == \E t \in AllT : HStep(t)      \* AllT (the threads of this configuration) \subseteq Threads
HSpec == HInit /\ [][HNext]_hvars

RaceFree == NoRace(hb)

\* every run got a cell of its own
HTypeOK == /\ \A k \in Tasks : k \in HTasks /\ started[k] <= MaxRun
           /\ nto \in 0..MaxTimeouts
=============================================================================
