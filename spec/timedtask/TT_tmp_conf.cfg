CONSTANTS
  Threads = {}
  Cfg = 0
  Prog = 0
  WorkerSet = {}
  Variant = "orig"
SPECIFICATION TraceSpec
CHECK_DEADLOCK FALSE
POSTCONDITION TraceAccepted
INVARIANTS TypeOK
