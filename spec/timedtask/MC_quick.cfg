CONSTANTS
  Threads = {"main", "tts0", "w0"}
  Cfg = 0
  Prog = 0
  WorkerSet = {}
  Variant = "fixed"
INIT InitQuick
NEXT Next
CHECK_DEADLOCK FALSE
INVARIANTS TypeOK RunCount NoneAfterFalse NoneAfterCancel NotEarly FuncLifetime DtorQuiescent DetachedKeepsFunc InProgressExact
