CONSTANTS
  Threads = {"main", "tts0"}
  Cfg <- Cfg_twice
  Prog <- Prog_del2
  WorkerSet = {}
  Variant = "fixed"
INIT Init
NEXT Next
CHECK_DEADLOCK FALSE
INVARIANTS TypeOK RunCount NoneAfterFalse NoneAfterCancel NotEarly FuncLifetime DtorQuiescent DetachedKeepsFunc InProgressExact
