---------------------------- MODULE MCTimedTaskHB ----------------------------
(* Model-checking configurations of TimedTaskHB.tla (C10).  The task configurations and   *)
(* driver programs of MCTimedTask.tla (validated against real traces by C26) are reused;  *)
(* several small ones are merged as several initial states of one TLC run.                *)
EXTENDS TimedTaskHB, MCTimedTask

HInitWith(c, p, w) == InitWith(c, p, w) /\ HBStart

\* calls() with nothing else between the runs and the caller: only count orders the functor's effects
Prog_calls   == [main |-> <<O("new", 0), O("sched", 1), O("tick", 0), O("calls", 1), O("tick", 0), O("calls", 1),
                             O("del", 1), O("stop", 0)>>]
Prog_pcalls  == [main |-> <<O("new", 0), O("sched", 1), O("tick", 0), O("calls", 1), O("del", 1), O("stop", 0),
                             O("delpool", 0)>>]
\* the scheduler is destroyed while the handle is still alive (the queue's reference goes first)
Prog_stopdel == [main |-> <<O("new", 0), O("sched", 1), O("tick", 0), O("stop", 0), O("del", 1)>>]
Cfg_pool2    == [k \in {1} |-> C(1, 1, 2, TRUE, FALSE, 0)]
\* due at once, two runs, the first returns false: the second kick-off races with the wrapper's `func = {}`
Cfg_false2   == [k \in {1} |-> C(0, 0, 2, FALSE, FALSE, 1)]

\* ---- quick 1: ImmediateInvoker (runs on the scheduler thread / on the creating thread)
HInit1 ==
  \/ HInitWith(Cfg_now2, Prog_candel, {})       \* first run by the creator, re-armed; cancel; destructor
  \/ HInitWith(Cfg_twice, Prog_del2, {})        \* two runs on the scheduler thread, calls(), destructor
  \/ HInitWith(Cfg_det2, Prog_det, {})          \* detached: the last owner (queue / kick-off) destroys the impl
  \/ HInitWith(Cfg_twice, Prog_calls, {})       \* calls() racing with the runs
  \/ HInitWith(Cfg_false3i, Prog_del, {})       \* functor returns false (inline: func is left to the destructor)
  \/ HInitWith(Cfg_twice, Prog_stopdel, {})     \* scheduler destroyed first

\* ---- quick 2: pool with one worker
HInit2 ==
  \/ HInitWith(Cfg_false2, Prog_pool, {"w0"})   \* functor returns false on a pool thread: the wrapper clears func
  \/ HInitWith(Cfg_pool2, Prog_pcalls, {"w0"})  \* calls() and destructor racing with runs on the pool thread

\* ---- thorough: pool, three runs due at once, the first returns false (kick-offs by the creator and the scheduler
\*      thread against the wrapper's `func = {}`); detached task on a pool: the impl is destroyed by its last owner
\*      (queue, kick-off or the wrapper's me.reset() on the pool thread)
\*      (Cfg_pool3 with Prog_poolcan / Prog_pooldet of MCTimedTask.tla are too large with hb.)
Prog_pdet2 == [main |-> <<O("new", 0), O("sched", 1), O("detach", 1), O("del", 1), O("tick", 0), O("tick", 0),
                           O("stop", 0), O("delpool", 0)>>]
HInit3 ==
  \/ HInitWith(Cfg_false3, Prog_pool, {"w0"})
  \/ HInitWith(Cfg_pool2, Prog_pdet2, {"w0"})
\* ---- two tasks, two creating threads: task 2 is due at once (first run on p2, re-armed by p2 without the mutex,
\*      pushed), task 1 is queued by main at the same time: the queue holds two impls and the comparator reads both;
\*      p2 destroys its handle, then (sync) the clock advances and the scheduler thread pops both.
\*      (Two fully concurrent drivers - Cfg_two / Prog_two of MCTimedTask.tla - exceed 15 million states with hb.)
Cfg_two1  == [k \in {1, 2} |-> IF k = 1 THEN C(1, 0, 1, FALSE, TRUE, 0) ELSE C(0, 1, 2, TRUE, TRUE, 0)]
Prog_two1 == [main |-> <<O("new", 0), O("sched", 1), O("sync", 0), O("tick", 0), O("del", 1), O("stop", 0)>>,
              p2   |-> <<O("up", 0), O("sched", 2), O("del", 2)>>]
HInit4 == HInitWith(Cfg_two1, Prog_two1, {})
=============================================================================
