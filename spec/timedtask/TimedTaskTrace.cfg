CONSTANTS
  Threads = {}
  Cfg = 0
  Prog = 0
  WorkerSet = {}
  Variant = "fixed"
SPECIFICATION TraceSpec
CHECK_DEADLOCK FALSE
POSTCONDITION TraceAccepted
INVARIANTS TypeOK RunCount NoneAfterFalse NoneAfterCancel NotEarly FuncLifetime DtorQuiescent DetachedKeepsFunc InProgressExact
