------------------------------ MODULE TimedRec ------------------------------
(* E5 record validator for C26: each line is one timed task run by free-running code   *)
(* (the real TimedTaskScheduler thread, a real 2-thread pool or ImmediateInvoker, the   *)
(* real clock):                                                                          *)
(*  {"e":"Rec","delay":us,"per":us,"times":n,"steady":0|1,"kind":0 immediate|1 pool,    *)
(*   "action":0 none|1 cancel()|2 destroy early|3 detach,"falseAt":j,                    *)
(*   "n":invocations in total,"first":us to the first invocation (-1 = none),            *)
(*   "firstLib":the same on the dispenso::getTime() scale,                               *)
(*   "calls":calls() before destruction,"enteredAtCalls":invocations entered by then,    *)
(*   "atCancel":invocations entered when cancel() had returned (-1),                     *)
(*   "inprog":invocations inside the function when ~TimedTask() had returned,            *)
(*   "late":invocations that started after ~TimedTask() had returned,                    *)
(*   "fdead":the functor had been destroyed when ~TimedTask() had returned,"uaf":...}    *)
(* Times are measured OUTSIDE the library with steady_clock; `first` starts before the   *)
(* library reads its own clock, so it over-estimates the library's elapsed time (R5).    *)
(* Only upper bounds on counts and the lower bound on the first run are judged; jitter   *)
(* (late runs, fewer runs than possible) is never flagged.                               *)
EXTENDS Integers, Sequences, TLC, Json, IOUtils, TimedRecProps

RecLog == ndJsonDeserialize(IOEnv.TRACE)

VARIABLE l   \* record under judgement

RecInit == l = 1
RecNext == l <= Len(RecLog) /\ l' = l + 1
RecSpec == RecInit /\ [][RecNext]_l

RecordsOK == l > Len(RecLog) \/ RecOK(RecLog[l])

RecAccepted ==
  LET d == TLCGet("stats").diameter IN
  IF d = Len(RecLog) + 1 THEN TRUE
  ELSE /\ PrintT(<<"TRACE_REJECTED_AT_LINE", d, "OF", Len(RecLog)>>)
       /\ FALSE
=============================================================================
