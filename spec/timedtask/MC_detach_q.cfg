CONSTANTS
  Threads = {"main", "tts0"}
  Cfg <- Cfg_det2
  Prog <- Prog_det
  WorkerSet = {}
  Variant = "fixed"
INIT Init
NEXT Next
CHECK_DEADLOCK FALSE
INVARIANTS TypeOK RunCount NoneAfterFalse NoneAfterCancel NotEarly FuncLifetime DtorQuiescent DetachedKeepsFunc InProgressExact
