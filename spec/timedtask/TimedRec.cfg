SPECIFICATION RecSpec
CHECK_DEADLOCK FALSE
INVARIANT RecordsOK
POSTCONDITION RecAccepted
