CONSTANTS
  Threads = {"main", "p2", "tts0", "w0"}
  Cfg <- Cfg_two
  Prog <- Prog_two
  WorkerSet = {"w0"}
  Variant = "fixed"
INIT Init
NEXT Next
CHECK_DEADLOCK FALSE
INVARIANTS TypeOK RunCount NoneAfterFalse NoneAfterCancel NotEarly FuncLifetime DtorQuiescent DetachedKeepsFunc InProgressExact
