CONSTANTS
  Threads = {"main", "p2", "tts0"}
  Cfg = 0
  Prog = 0
  WorkerSet = {}
  Variant = "fixed"
  HTasks = {1, 2}
  MaxRun = 3
  MaxTimeouts = 1
  OwnOrd = "acq_rel"
INIT HInit4
NEXT HNext
CHECK_DEADLOCK FALSE
INVARIANTS OrdersComplete RaceFree HTypeOK TypeOK RunCount NoneAfterFalse NoneAfterCancel NotEarly FuncLifetime DtorQuiescent DetachedKeepsFunc InProgressExact
