---------------------------- MODULE TimedRecProps ----------------------------
(* What one free-running real-time record of a timed task must satisfy (C26, E5).      *)
(* Fields: see TimedRec.tla.  Only upper bounds on counts and the lower bound of the    *)
(* first run are judged (R5); constant-level module, used by TimedRec.tla (stand-alone  *)
(* record validator) and by TimedTaskTrace.tla (records appended to a trace file).      *)
EXTENDS Integers

\* kSmallTimeBuffer (10 us) + clock-rate mismatch between dispenso::getTime() and steady_clock
EarlyTol(delay) == 10 + 100 + delay \div 50
\* bodies that passed the wrapper's cancelled check before cancel()'s store may still enter (R2):
\* one per thread that executes wrappers
Executors(kind) == IF kind = 0 THEN 1 ELSE 2

RecOK(r) ==
  /\ r.n >= 0 /\ r.n <= r.times                                     \* at most timesToRun invocations
  /\ ((r.falseAt > 0 /\ r.kind = 0) => r.n <= r.falseAt)             \* none after it returned false (serial)
  \* never before its scheduled time: early only if BOTH clocks say so -- steady_clock (outside view, with
  \* tolerance) and dispenso::getTime() itself, the scale the scheduled time is expressed in (its rate is
  \* calibrated against a 50 ms sleep at start-up and can be off by more than the tolerance on a loaded machine)
  /\ (r.first >= 0 => (r.first >= r.delay - EarlyTol(r.delay) \/ r.firstLib >= r.delay - 12))
  /\ r.calls <= r.enteredAtCalls /\ r.calls <= r.times               \* calls() counts completed invocations
  /\ (r.atCancel >= 0 => r.n <= r.atCancel + Executors(r.kind))      \* none starts after cancel() (R2)
  /\ (r.action # 3 => r.inprog = 0 /\ r.late = 0 /\ r.fdead = 1)     \* ~TimedTask(): quiescent, function gone
  /\ r.uaf = 0

=============================================================================
