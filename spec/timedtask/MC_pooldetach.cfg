CONSTANTS
  Threads = {"main", "tts0", "w0"}
  Cfg <- Cfg_pool3
  Prog <- Prog_pooldet
  WorkerSet = {"w0"}
  Variant = "fixed"
INIT Init
NEXT Next
CHECK_DEADLOCK FALSE
INVARIANTS TypeOK RunCount NoneAfterFalse NoneAfterCancel NotEarly FuncLifetime DtorQuiescent DetachedKeepsFunc InProgressExact
