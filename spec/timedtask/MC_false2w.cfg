CONSTANTS
  Threads = {"main", "tts0", "w0", "w1"}
  Cfg <- Cfg_false3
  Prog <- Prog_pool
  WorkerSet = {"w0", "w1"}
  Variant = "fixed"
INIT Init
NEXT Next
CHECK_DEADLOCK FALSE
INVARIANTS TypeOK RunCount NoneAfterFalse NoneAfterCancel NotEarly FuncLifetime DtorQuiescent DetachedKeepsFunc InProgressExact
