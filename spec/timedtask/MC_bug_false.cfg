CONSTANTS
  Threads = {"main", "tts0", "w0"}
  Cfg <- Cfg_false3
  Prog <- Prog_pool
  WorkerSet = {"w0"}
  Variant = "orig"
INIT Init
NEXT Next
CHECK_DEADLOCK FALSE
INVARIANTS TypeOK RunCount NoneAfterFalse NoneAfterCancel NotEarly FuncLifetime DtorQuiescent DetachedKeepsFunc InProgressExact
