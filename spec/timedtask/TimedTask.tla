------------------------------ MODULE TimedTask ------------------------------
(* Implementation-level specification of dispenso::TimedTask / TimedTaskScheduler    *)
(* (dispenso/timed_task.h, timed_task.cpp, detail/timed_task_impl.h).                *)
(*                                                                                    *)
(* One action per atomic access / critical section of the code; the action name is   *)
(* the DISPENSO_VERIF_POINT site placed immediately before that access (sites Tt..),   *)
(* the EpochWaiter sites of the scheduler's own epoch_ (Ew..), the modelled futex     *)
(* (FutexWait / FutexWake / FutexRet, environment step FutexTimeout) and the driver's *)
(* own points (DrOp, DrSync, DrBody).  The pool is abstract: a wrapper handed to the  *)
(* pool is a token in the bag `queued`; any idle pool thread may take it.             *)
(*                                                                                    *)
(* Per task k (a TimedTaskImpl):  ttr = timesToRun (negative = the unsigned value     *)
(* wrapped below zero), cancelled / detached = the two flag bits, inprog, count,      *)
(* nextAbs (logical clock ticks), funcAlive = the stored std::function `func` still   *)
(* holds the user's functor, refs = shared_ptr use count of the impl.                 *)
(* Scheduler: queue (set of tasks, ordered by nextAbs), running, epoch.               *)
(* Logical clock `now` (ticks); it advances only by the driver's `tick` operation.    *)
(*                                                                                    *)
(* Variant selects the protocol:                                                      *)
(*   "orig"     the code as shipped: kickOffTask calls func with nothing held         *)
(*   "incfirst" the repair anticipated in DESIGN section 4 (func increments           *)
(*              inProgress before its cancelled check and backs out); insufficient    *)
(*   "fixed"    kickOffTask holds inProgress across examining and calling func and    *)
(*              checks the cancelled flag under that guard; the wrapper clears func   *)
(*              only when it is the only thing in progress                            *)
EXTENDS Integers, Sequences, FiniteSets, TLC

CONSTANTS Threads,   \* every thread name Next may move (drivers, "tts0", workers)
          Cfg,       \* [task |-> [at, per, times, steady, inl, falseAt]]
          Prog,      \* [driver thread |-> <<[op |-> ..., k |-> task]>>]
          WorkerSet, \* names of the pool workers ({} = no pool / ImmediateInvoker)
          Variant

VARIABLES
  cfg, prog, workers,                      \* configuration (variables: a trace re-initialises them)
  now,                                     \* logical clock
  ttr, cancelled, detached, inprog, count, nextAbs, funcAlive, refs,   \* per task
  queue, running, epoch,                   \* scheduler
  queued,                                  \* abstract pool: queued[k] wrappers of task k not yet started
  pc, ip, loc,                             \* per thread
  started, bad, dtorDone, cancelStored, falseStored   \* ghost

taskv  == <<ttr, cancelled, detached, inprog, count, nextAbs, funcAlive, refs>>
schedv == <<queue, running, epoch>>
ghost  == <<started, bad, dtorDone, cancelStored, falseStored>>
confv  == <<cfg, prog, workers>>
vars   == <<cfg, prog, workers, now, ttr, cancelled, detached, inprog, count, nextAbs, funcAlive, refs,
            queue, running, epoch, queued, pc, ip, loc, started, bad, dtorDone, cancelStored, falseStored>>

TTS     == "tts0"
Tasks   == DOMAIN cfg
Drivers == DOMAIN prog
AllT    == Drivers \cup {TTS} \cup workers

EmptyLoc == [k |-> 0, rem |-> 0, cur |-> 0, ce |-> 0, back |-> "none", res |-> TRUE, timed |-> FALSE,
             wr |-> 0, us |-> 0, dtor |-> FALSE]

InitWith(c, p, w) ==
  /\ cfg = c /\ prog = p /\ workers = w
  /\ now = 0
  /\ ttr = [k \in DOMAIN c |-> 0]
  /\ cancelled = [k \in DOMAIN c |-> FALSE]
  /\ detached = [k \in DOMAIN c |-> FALSE]
  /\ inprog = [k \in DOMAIN c |-> 0]
  /\ count = [k \in DOMAIN c |-> 0]
  /\ nextAbs = [k \in DOMAIN c |-> 0]
  /\ funcAlive = [k \in DOMAIN c |-> FALSE]
  /\ refs = [k \in DOMAIN c |-> 0]
  /\ queue = {} /\ running = FALSE /\ epoch = 0
  /\ queued = [k \in DOMAIN c |-> 0]
  /\ pc = [t \in (DOMAIN p) \cup {TTS} \cup w |->
             IF t \in DOMAIN p THEN "Start" ELSE IF t = TTS THEN "unborn" ELSE "idle"]
  /\ ip = [t \in DOMAIN p |-> 1]
  /\ loc = [t \in (DOMAIN p) \cup {TTS} \cup w |-> EmptyLoc]
  /\ started = [k \in DOMAIN c |-> 0]
  /\ bad = {}
  /\ dtorDone = [k \in DOMAIN c |-> FALSE]
  /\ cancelStored = [k \in DOMAIN c |-> FALSE]
  /\ falseStored = [k \in DOMAIN c |-> FALSE]

Init == InitWith(Cfg, Prog, WorkerSet)

\* ------------------------------------------------------------------------------ helpers
Op(t) == prog[t][ip[t]]
Goto(t, l) == pc' = [pc EXCEPT ![t] = l]
K(t) == loc[t].k
\* the driver operation of t is complete: next operation (or the thread ends)
NextOpPc(t) == IF ip[t] + 1 > Len(prog[t]) THEN "done" ELSE "op"
FinishOp(t) == /\ ip' = [ip EXCEPT ![t] = @ + 1]
               /\ Goto(t, NextOpPc(t))
\* where a thread continues when kickOffTask returns / when func returns into kickOffTask
KickRet(t) == IF t = TTS THEN "top" ELSE "addbump"
More(r) == r > 1 \/ r < 0         \* unsigned `remaining > 1`
AfterFunc(t, r) ==
  IF Variant = "fixed" THEN (IF More(r) THEN "rearm" ELSE "kung")
  ELSE (IF More(r) THEN "rearm" ELSE KickRet(t))
\* entry of kickOffTask
KickEntry == IF Variant = "fixed" THEN "kguard" ELSE "kfs"
\* change the use count of impl k by d; the stored function dies with the impl; fa = its value otherwise
RefStep(k, d, fa) ==
  /\ refs' = [refs EXCEPT ![k] = @ + d]
  /\ funcAlive' = [funcAlive EXCEPT ![k] = IF refs[k] + d = 0 THEN FALSE ELSE fa]
MinTasks == {k \in queue : \A j \in queue : nextAbs[k] <= nextAbs[j]}
Flag(s) == bad' = bad \cup {s}

\* ================================================================= driver threads
Start(t) ==
  /\ pc[t] = "Start"
  /\ (IF t = TTS THEN Goto(t, "cur0")
      ELSE IF t \in Drivers THEN Goto(t, IF Len(prog[t]) = 0 THEN "done" ELSE "op")
      ELSE Goto(t, "idle"))
  /\ UNCHANGED <<confv, now, taskv, schedv, queued, ip, loc, ghost>>

\* `new`: the pool (abstract) and the TimedTaskScheduler are constructed; its thread is spawned
DrNew(t) ==
  /\ running' = TRUE
  /\ pc' = [pc EXCEPT ![t] = NextOpPc(t), ![TTS] = "Start"]
  /\ ip' = [ip EXCEPT ![t] = @ + 1]
  /\ UNCHANGED <<confv, now, taskv, queue, epoch, queued, loc, ghost>>

\* `sched k`: schedule(): the impl is built (handle + addTimedTask's parameter hold it)
DrSched(t, k) ==
  /\ refs[k] = 0 /\ started[k] = 0
  /\ ttr' = [ttr EXCEPT ![k] = cfg[k].times]
  /\ nextAbs' = [nextAbs EXCEPT ![k] = cfg[k].at]
  /\ funcAlive' = [funcAlive EXCEPT ![k] = TRUE]
  /\ refs' = [refs EXCEPT ![k] = 2]
  /\ loc' = [loc EXCEPT ![t] = [EmptyLoc EXCEPT !.k = k]]
  /\ Goto(t, "addclock")
  /\ UNCHANGED <<confv, now, cancelled, detached, inprog, count, schedv, queued, ip, ghost>>

DrEnter(t, k, l, isDtor) ==
  /\ loc' = [loc EXCEPT ![t] = [EmptyLoc EXCEPT !.k = k, !.dtor = isDtor]]
  /\ Goto(t, l)
  /\ UNCHANGED <<confv, now, taskv, schedv, queued, ip, ghost>>

DrTick(t) ==
  /\ now' = now + 1
  /\ FinishOp(t)
  /\ UNCHANGED <<confv, taskv, schedv, queued, loc, ghost>>

DrOp(t) ==
  /\ t \in Drivers /\ pc[t] = "op"
  /\ LET o == Op(t) IN
       \/ o.op = "new" /\ DrNew(t)
       \/ o.op = "sched" /\ DrSched(t, o.k)
       \/ o.op = "cancel" /\ DrEnter(t, o.k, "cst", FALSE)
       \/ o.op = "detach" /\ DrEnter(t, o.k, "detach", FALSE)
       \/ o.op = "calls" /\ DrEnter(t, o.k, "calls", FALSE)
       \/ o.op = "del" /\ DrEnter(t, o.k, "dlf", TRUE)
       \/ o.op = "tick" /\ DrTick(t)
       \/ o.op = "sync" /\ DrEnter(t, 0, "sync", FALSE)
       \/ o.op = "up" /\ DrEnter(t, 0, "up", FALSE)
       \/ o.op = "stop" /\ DrEnter(t, 0, "stop", FALSE)
       \/ o.op = "delpool" /\ DrEnter(t, 0, "delpool", FALSE)

\* `sync`: gate, enabled when every other driver thread has finished its program
DrSync(t) ==
  /\ pc[t] = "sync"
  /\ \A u \in Drivers \ {t} : pc[u] = "done"
  /\ FinishOp(t)
  /\ UNCHANGED <<confv, now, taskv, schedv, queued, loc, ghost>>

\* `up`: gate, enabled once the scheduler exists (its thread has been spawned)
DrUp(t) ==
  /\ pc[t] = "up"
  /\ pc[TTS] # "unborn"
  /\ FinishOp(t)
  /\ UNCHANGED <<confv, now, taskv, schedv, queued, loc, ghost>>

\* ------------------------------------------------------------------ addTimedTask
TtAddReadClock(t) ==
  /\ pc[t] = "addclock"
  /\ loc' = [loc EXCEPT ![t].cur = now]
  /\ Goto(t, IF nextAbs[K(t)] - now <= 0 THEN KickEntry ELSE "addpush")
  /\ UNCHANGED <<confv, now, taskv, schedv, queued, ip, ghost>>

TtAddPush(t) ==
  /\ pc[t] = "addpush"
  /\ queue' = queue \cup {K(t)}
  /\ Goto(t, "addbump")
  /\ UNCHANGED <<confv, now, taskv, running, epoch, queued, ip, loc, ghost>>

\* epoch_.bumpAndWake() of the scheduler's EpochWaiter (addTimedTask, ~TimedTaskScheduler)
EwBump(t) ==
  /\ pc[t] \in {"addbump", "stopbump"}
  /\ epoch' = epoch + 1
  /\ Goto(t, IF pc[t] = "addbump" THEN "addwake" ELSE "stopwake")
  /\ UNCHANGED <<confv, now, taskv, queue, running, queued, ip, loc, ghost>>

\* FUTEX_WAKE(1) on the scheduler's word: the only possible waiter is the scheduler thread
FutexWake(t, W) ==
  /\ pc[t] \in {"addwake", "stopwake"}
  /\ W = (IF pc[TTS] = "blocked" THEN {TTS} ELSE {})
  /\ (IF pc[t] = "addwake"
        THEN /\ ip' = [ip EXCEPT ![t] = @ + 1]
             /\ pc' = [u \in DOMAIN pc |-> IF u = t THEN NextOpPc(t)
                                           ELSE IF u \in W THEN "fret" ELSE pc[u]]
        ELSE /\ ip' = ip
             /\ pc' = [u \in DOMAIN pc |-> IF u = t THEN "joining"
                                           ELSE IF u \in W THEN "fret" ELSE pc[u]])
  /\ loc' = [u \in DOMAIN loc |-> IF u \in W THEN [loc[u] EXCEPT !.wr = 1] ELSE loc[u]]
  /\ UNCHANGED <<confv, now, taskv, schedv, queued, ghost>>

\* ------------------------------------------------------------ cancel / detach / calls
TtCancelStoreTimes(t) ==
  /\ pc[t] = "cst"
  /\ ttr' = [ttr EXCEPT ![K(t)] = 0]
  /\ Goto(t, "csf")
  /\ UNCHANGED <<confv, now, cancelled, detached, inprog, count, nextAbs, funcAlive, refs, schedv, queued,
                 ip, loc, ghost>>

TtCancelSetFlag(t) ==
  /\ pc[t] = "csf"
  /\ cancelled' = [cancelled EXCEPT ![K(t)] = TRUE]
  /\ cancelStored' = [cancelStored EXCEPT ![K(t)] = TRUE]
  /\ (IF loc[t].dtor THEN Goto(t, "dlip") /\ ip' = ip ELSE FinishOp(t))
  /\ UNCHANGED <<confv, now, ttr, detached, inprog, count, nextAbs, funcAlive, refs, schedv, queued, loc,
                 started, bad, dtorDone, falseStored>>

TtDetachSetFlag(t) ==
  /\ pc[t] = "detach"
  /\ detached' = [detached EXCEPT ![K(t)] = TRUE]
  /\ FinishOp(t)
  /\ UNCHANGED <<confv, now, ttr, cancelled, inprog, count, nextAbs, funcAlive, refs, schedv, queued, loc,
                 ghost>>

TtCallsLoad(t) ==
  /\ pc[t] = "calls"
  /\ loc' = [loc EXCEPT ![t].rem = count[K(t)]]      \* the value returned to the caller
  /\ FinishOp(t)
  /\ UNCHANGED <<confv, now, taskv, schedv, queued, ghost>>

\* ------------------------------------------------------------------------ ~TimedTask
TtDtorLoadFlags(t) ==
  /\ pc[t] = "dlf"
  /\ (IF detached[K(t)]
        THEN /\ RefStep(K(t), -1, funcAlive[K(t)])      \* the handle lets go, nothing else
             /\ FinishOp(t)
        ELSE /\ Goto(t, "cst") /\ ip' = ip
             /\ UNCHANGED <<refs, funcAlive>>)
  /\ UNCHANGED <<confv, now, ttr, cancelled, detached, inprog, count, nextAbs, schedv, queued, loc, ghost>>

TtDtorLoadInProgress(t) ==
  /\ pc[t] = "dlip"
  /\ Goto(t, IF inprog[K(t)] # 0 THEN "dlip" ELSE "dclr")
  /\ UNCHANGED <<confv, now, taskv, schedv, queued, ip, loc, ghost>>

TtDtorClearFunc(t) ==
  /\ pc[t] = "dclr"
  /\ RefStep(K(t), -1, FALSE)
  /\ dtorDone' = [dtorDone EXCEPT ![K(t)] = TRUE]
  /\ FinishOp(t)
  /\ UNCHANGED <<confv, now, ttr, cancelled, detached, inprog, count, nextAbs, schedv, queued, loc,
                 started, bad, cancelStored, falseStored>>

\* ---------------------------------------------------------------- ~TimedTaskScheduler
TtStop(t) ==
  /\ pc[t] = "stop"
  /\ running' = FALSE
  /\ Goto(t, "stopbump")
  /\ UNCHANGED <<confv, now, taskv, queue, epoch, queued, ip, loc, ghost>>

\* thread_.join() returned; the members (the queue and the impls it holds) are destroyed
TtJoined(t) ==
  /\ pc[t] = "joining"
  /\ pc[TTS] = "done"
  /\ refs' = [k \in Tasks |-> IF k \in queue THEN refs[k] - 1 ELSE refs[k]]
  /\ funcAlive' = [k \in Tasks |-> IF k \in queue /\ refs[k] = 1 THEN FALSE ELSE funcAlive[k]]
  /\ queue' = {}
  /\ FinishOp(t)
  /\ UNCHANGED <<confv, now, ttr, cancelled, detached, inprog, count, nextAbs, running, epoch, queued, loc,
                 ghost>>

\* ================================================================= scheduler thread
\* epoch_.current() before the loop, and the re-load after a wait
EwLoadEpochC(t) ==
  /\ pc[t] \in {"cur0", "waitC"}
  /\ loc' = [loc EXCEPT ![t].ce = epoch]
  /\ Goto(t, "top")
  /\ UNCHANGED <<confv, now, taskv, schedv, queued, ip, ghost>>

\* first critical section of the loop: stop / wait for work / go on
TtLoopTop(t) ==
  /\ pc[t] = "top"
  /\ Goto(t, IF ~running THEN "done" ELSE IF queue = {} THEN "waitB" ELSE "readclock")
  /\ loc' = [loc EXCEPT ![t].timed = FALSE]
  /\ UNCHANGED <<confv, now, taskv, schedv, queued, ip, ghost>>

TtReadClock(t) ==
  /\ pc[t] = "readclock"
  /\ loc' = [loc EXCEPT ![t].cur = now]
  /\ Goto(t, "peek")
  /\ UNCHANGED <<confv, now, taskv, schedv, queued, ip, ghost>>

\* second critical section: pop the earliest task if it is due, else sleep until it is
TtPeek(t) ==
  /\ pc[t] = "peek"
  /\ \E m \in MinTasks :
       IF nextAbs[m] - loc[t].cur <= 0
         THEN /\ queue' = queue \ {m}
              /\ loc' = [loc EXCEPT ![t].k = m]
              /\ Goto(t, KickEntry)
         ELSE /\ queue' = queue
              /\ loc' = [loc EXCEPT ![t].timed = TRUE, ![t].us = (nextAbs[m] - loc[t].cur) * 1000 - 50]
              /\ Goto(t, "wfA")
  /\ UNCHANGED <<confv, now, taskv, running, epoch, queued, ip, ghost>>

EwLoadEpochA(t) ==
  /\ pc[t] = "wfA"
  /\ (IF epoch # loc[t].ce
        THEN loc' = [loc EXCEPT ![t].ce = epoch] /\ Goto(t, "top")
        ELSE loc' = loc /\ Goto(t, "wfB"))
  /\ UNCHANGED <<confv, now, taskv, schedv, queued, ip, ghost>>

EwLoadEpochB(t) ==
  /\ pc[t] \in {"waitB", "wfB"}
  /\ (IF epoch # loc[t].ce
        THEN loc' = [loc EXCEPT ![t].ce = epoch] /\ Goto(t, "top")
        ELSE loc' = loc /\ Goto(t, "fwait"))
  /\ UNCHANGED <<confv, now, taskv, schedv, queued, ip, ghost>>

\* FUTEX_WAIT(expected = the epoch read by EwLoadEpochB): compare and block atomically
FutexWait(t) ==
  /\ pc[t] = "fwait"
  /\ Goto(t, IF epoch = loc[t].ce THEN "blocked" ELSE "waitC")
  /\ UNCHANGED <<confv, now, taskv, schedv, queued, ip, loc, ghost>>

\* environment: the timed wait of waitFor() expires (any time: early expiry is a spurious return)
FutexTimeout(t) ==
  /\ pc[t] = "blocked" /\ loc[t].timed
  /\ loc' = [loc EXCEPT ![t].wr = 2]
  /\ Goto(t, "fret")
  /\ UNCHANGED <<confv, now, taskv, schedv, queued, ip, ghost>>

FutexRet(t) ==
  /\ pc[t] = "fret"
  /\ Goto(t, "waitC")
  /\ UNCHANGED <<confv, now, taskv, schedv, queued, ip, loc, ghost>>

\* ====================================================================== kickOffTask
\* "fixed" only: take the in-progress guard, then look at the cancelled flag under it
TtKickGuard(t) ==
  /\ pc[t] = "kguard"
  /\ inprog' = [inprog EXCEPT ![K(t)] = @ + 1]
  /\ Goto(t, "kchk")
  /\ UNCHANGED <<confv, now, ttr, cancelled, detached, count, nextAbs, funcAlive, refs, schedv, queued, ip,
                 loc, ghost>>

TtKickLoadFlags(t) ==
  /\ pc[t] = "kchk"
  /\ Goto(t, IF cancelled[K(t)] THEN "kung" ELSE "kfs")
  /\ UNCHANGED <<confv, now, taskv, schedv, queued, ip, loc, ghost>>

TtKickFetchSub(t) ==
  /\ pc[t] = "kfs"
  /\ LET k == K(t)
         r == ttr[k]
     IN /\ ttr' = [ttr EXCEPT ![k] = r - 1]
        /\ loc' = [loc EXCEPT ![t].rem = r]
        /\ (IF r = 0
              THEN IF Variant = "fixed"
                     THEN Goto(t, "kung") /\ UNCHANGED <<refs, funcAlive>>
                     ELSE Goto(t, KickRet(t)) /\ RefStep(k, -1, funcAlive[k])   \* `next` dies
              ELSE Goto(t, "kcall") /\ UNCHANGED <<refs, funcAlive>>)
        \* ghost: a kick-off before the task's scheduled time
        /\ bad' = IF r # 0 /\ now < nextAbs[k] THEN bad \cup {"early"} ELSE bad
  /\ UNCHANGED <<confv, now, cancelled, detached, inprog, count, nextAbs, schedv, queued, ip,
                 started, dtorDone, cancelStored, falseStored>>

\* next->func(next) / np->func(std::move(next)): the stored std::function is invoked
TtKickCall(t) ==
  /\ pc[t] = "kcall"
  /\ LET k == K(t) IN
       /\ (IF Variant # "fixed" /\ loc[t].rem = 1
             THEN UNCHANGED <<refs, funcAlive>>             \* moved into the call
             ELSE RefStep(k, 1, funcAlive[k]))              \* copied into the call
       /\ bad' = IF ~funcAlive[k] THEN bad \cup {"call-of-destroyed-func"} ELSE bad
       /\ Goto(t, IF Variant = "incfirst" THEN "fninc" ELSE "fnflags")
  /\ UNCHANGED <<confv, now, ttr, cancelled, detached, inprog, count, nextAbs, schedv, queued, ip, loc,
                 started, dtorDone, cancelStored, falseStored>>

\* ------------------------------------------------------ the stored function (outer lambda)
TtFnLoadFlags(t) ==
  /\ pc[t] = "fnflags"
  /\ LET k == K(t) IN
      (IF cancelled[k]
         THEN IF Variant = "incfirst"
                THEN Goto(t, "fndec") /\ UNCHANGED <<refs, funcAlive, queued, inprog, loc>>
                ELSE /\ RefStep(k, -1, funcAlive[k])            \* `me` dies with the call
                     /\ Goto(t, AfterFunc(t, loc[t].rem))
                     /\ UNCHANGED <<queued, inprog, loc>>
         ELSE IF Variant = "incfirst"
                THEN \* hand the wrapper over (inProgress was incremented before the check)
                     IF cfg[k].inl
                       THEN /\ Goto(t, "wrflags")
                            /\ loc' = [loc EXCEPT ![t].back = AfterFunc(t, loc[t].rem)]
                            /\ UNCHANGED <<refs, funcAlive, queued, inprog>>
                       ELSE /\ Goto(t, "fnsched")
                            /\ UNCHANGED <<refs, funcAlive, queued, inprog, loc>>
                ELSE Goto(t, "fninc") /\ UNCHANGED <<refs, funcAlive, queued, inprog, loc>>)
  /\ UNCHANGED <<confv, now, ttr, cancelled, detached, count, nextAbs, schedv, ip, ghost>>

TtFnIncInProgress(t) ==
  /\ pc[t] = "fninc"
  /\ LET k == K(t) IN
       /\ inprog' = [inprog EXCEPT ![k] = @ + 1]
       /\ (IF Variant = "incfirst"
             THEN Goto(t, "fnflags") /\ UNCHANGED <<refs, funcAlive, queued, loc>>
             ELSE IF cfg[k].inl
                    THEN \* ImmediateInvoker / pool without threads: the wrapper runs right here
                         /\ Goto(t, "wrflags")
                         /\ loc' = [loc EXCEPT ![t].back = AfterFunc(t, loc[t].rem)]
                         /\ UNCHANGED <<refs, funcAlive, queued>>
                    ELSE \* sched.schedule(wrap, ForceQueuingTag()) on a pool with threads
                         /\ Goto(t, "fnsched")
                         /\ UNCHANGED <<refs, funcAlive, queued, loc>>)
  /\ UNCHANGED <<confv, now, ttr, cancelled, detached, count, nextAbs, schedv, ip, ghost>>

\* "incfirst" only: back out after seeing the flag
TtFnDecInProgress(t) ==
  /\ pc[t] = "fndec"
  /\ inprog' = [inprog EXCEPT ![K(t)] = @ - 1]
  /\ RefStep(K(t), -1, funcAlive[K(t)])
  /\ Goto(t, AfterFunc(t, loc[t].rem))
  /\ UNCHANGED <<confv, now, ttr, cancelled, detached, count, nextAbs, schedv, queued, ip, loc, ghost>>

\* Inside sched.schedule(wrap): a copy of the wrapper (holding `me`) is made and handed to the pool.
\* Not a site of its own: it happens inside a pool-internal step of the scheduling thread.
FnEnqueue(t) ==
  /\ pc[t] = "fnsched"
  /\ queued' = [queued EXCEPT ![K(t)] = @ + 1]
  /\ RefStep(K(t), 1, funcAlive[K(t)])
  /\ Goto(t, "fnsched2")
  /\ UNCHANGED <<confv, now, ttr, cancelled, detached, inprog, count, nextAbs, schedv, ip, loc, ghost>>

\* sched.schedule(wrap) returned and func returns: the local wrapper (and its `me`) is destroyed.
\* Not a site of its own: it is the tail of the last pool-internal step of the scheduling thread.
FnReturn(t) ==
  /\ pc[t] = "fnsched2"
  /\ RefStep(K(t), -1, funcAlive[K(t)])
  /\ Goto(t, AfterFunc(t, loc[t].rem))
  /\ UNCHANGED <<confv, now, ttr, cancelled, detached, inprog, count, nextAbs, schedv, queued, ip, loc, ghost>>

TtKickRearm(t) ==
  /\ pc[t] = "rearm"
  /\ LET k == K(t) IN
       /\ nextAbs' = [nextAbs EXCEPT ![k] = IF cfg[k].steady THEN @ + cfg[k].per ELSE loc[t].cur + cfg[k].per]
       /\ queue' = queue \cup {k}
       /\ (IF Variant = "fixed"
             THEN RefStep(k, 1, funcAlive[k]) /\ Goto(t, "kung")     \* push(next): a copy
             ELSE UNCHANGED <<refs, funcAlive>> /\ Goto(t, KickRet(t)))  \* push(std::move(next))
  /\ UNCHANGED <<confv, now, ttr, cancelled, detached, inprog, count, running, epoch, queued, ip, loc, ghost>>

\* "fixed" only: release the guard; `next` dies when kickOffTask returns
TtKickUnguard(t) ==
  /\ pc[t] = "kung"
  /\ inprog' = [inprog EXCEPT ![K(t)] = @ - 1]
  /\ RefStep(K(t), -1, funcAlive[K(t)])
  /\ Goto(t, KickRet(t))
  /\ UNCHANGED <<confv, now, ttr, cancelled, detached, count, nextAbs, schedv, queued, ip, loc, ghost>>

\* ================================================================== the wrapper
\* Start of the wrapper: a pool thread (or the thread destroying the pool) takes it from the bag,
\* or the scheduling thread runs it inline.  The cancelled check is the start of the body (R2).
TtWrLoadFlags(t) ==
  /\ \/ /\ pc[t] = "wrflags"
        /\ UNCHANGED queued
        /\ LET k == K(t) IN
            (IF cancelled[k]
               THEN /\ Goto(t, "wrdec")
                    /\ loc' = loc
                    /\ UNCHANGED <<started, bad>>
               ELSE /\ Goto(t, "body")
                    /\ started' = [started EXCEPT ![k] = @ + 1]
                    /\ loc' = [loc EXCEPT ![t].res = (started[k] + 1 # cfg[k].falseAt)]
                    /\ bad' = bad \cup (IF ~funcAlive[k] THEN {"body-uses-destroyed-func"} ELSE {})
                                  \cup (IF cancelStored[k] THEN {"start-after-cancel"} ELSE {})
                                  \cup (IF falseStored[k] THEN {"start-after-false"} ELSE {}))
     \/ /\ pc[t] \in {"idle", "delpool"}
        /\ \E k \in Tasks :
             /\ queued[k] > 0
             /\ queued' = [queued EXCEPT ![k] = @ - 1]
             /\ (IF cancelled[k]
                   THEN /\ Goto(t, "wrdec")
                        /\ loc' = [loc EXCEPT ![t] = [EmptyLoc EXCEPT !.k = k, !.back = pc[t]]]
                        /\ UNCHANGED <<started, bad>>
                   ELSE /\ Goto(t, "body")
                        /\ started' = [started EXCEPT ![k] = @ + 1]
                        /\ loc' = [loc EXCEPT ![t] = [EmptyLoc EXCEPT !.k = k, !.back = pc[t],
                                                                       !.res = (started[k] + 1 # cfg[k].falseAt)]]
                        /\ bad' = bad \cup (IF ~funcAlive[k] THEN {"body-uses-destroyed-func"} ELSE {})
                                      \cup (IF cancelStored[k] THEN {"start-after-cancel"} ELSE {})
                                      \cup (IF falseStored[k] THEN {"start-after-false"} ELSE {}))
  /\ UNCHANGED <<confv, now, taskv, schedv, ip, dtorDone, cancelStored, falseStored>>

\* the user's function is running (the driver's functor has a schedule point inside); it returns here
DrBody(t) ==
  /\ pc[t] = "body"
  /\ Goto(t, IF loc[t].res THEN "wrcnt" ELSE "wrstore")
  /\ UNCHANGED <<confv, now, taskv, schedv, queued, ip, loc, ghost>>

TtWrStoreTimes(t) ==
  /\ pc[t] = "wrstore"
  /\ ttr' = [ttr EXCEPT ![K(t)] = 0]
  /\ Goto(t, "wrsetc")
  /\ UNCHANGED <<confv, now, cancelled, detached, inprog, count, nextAbs, funcAlive, refs, schedv, queued,
                 ip, loc, ghost>>

TtWrSetCancelled(t) ==
  /\ pc[t] = "wrsetc"
  /\ cancelled' = [cancelled EXCEPT ![K(t)] = TRUE]
  /\ falseStored' = [falseStored EXCEPT ![K(t)] = TRUE]
  /\ Goto(t, IF Variant = "fixed" THEN "wrldip" ELSE "wrclr")
  /\ UNCHANGED <<confv, now, ttr, detached, inprog, count, nextAbs, funcAlive, refs, schedv, queued, ip, loc,
                 started, bad, dtorDone, cancelStored>>

\* "fixed" only: func is cleared by the wrapper only when nothing else is in progress
TtWrLoadInProgress(t) ==
  /\ pc[t] = "wrldip"
  /\ Goto(t, IF inprog[K(t)] = 1 THEN "wrclr" ELSE "wrcnt")
  /\ UNCHANGED <<confv, now, taskv, schedv, queued, ip, loc, ghost>>

TtWrClearFunc(t) ==
  /\ pc[t] = "wrclr"
  /\ funcAlive' = [funcAlive EXCEPT ![K(t)] = FALSE]
  /\ Goto(t, "wrcnt")
  /\ UNCHANGED <<confv, now, ttr, cancelled, detached, inprog, count, nextAbs, refs, schedv, queued, ip, loc,
                 ghost>>

TtWrIncCount(t) ==
  /\ pc[t] = "wrcnt"
  /\ count' = [count EXCEPT ![K(t)] = @ + 1]
  /\ Goto(t, "wrdec")
  /\ UNCHANGED <<confv, now, ttr, cancelled, detached, inprog, nextAbs, funcAlive, refs, schedv, queued, ip,
                 loc, ghost>>

\* inProgress.fetch_sub, then me.reset()
TtWrDecInProgress(t) ==
  /\ pc[t] = "wrdec"
  /\ inprog' = [inprog EXCEPT ![K(t)] = @ - 1]
  /\ RefStep(K(t), -1, funcAlive[K(t)])
  /\ Goto(t, loc[t].back)
  /\ UNCHANGED <<confv, now, ttr, cancelled, detached, count, nextAbs, schedv, queued, ip, loc, ghost>>

\* `delpool`: ~ThreadPool() ran what was left and joined its threads (abstract pool: one step)
PoolDrained(t) ==
  /\ pc[t] = "delpool"
  /\ \A k \in Tasks : queued[k] = 0
  /\ \A w \in workers : pc[w] = "idle"
  /\ FinishOp(t)
  /\ UNCHANGED <<confv, now, taskv, schedv, queued, loc, ghost>>

\* ============================================================================ Next
Next ==
  \E t \in Threads :
     \/ Start(t) \/ DrOp(t) \/ DrSync(t) \/ DrUp(t) \/ DrBody(t)
     \/ TtAddReadClock(t) \/ TtAddPush(t) \/ EwBump(t)
     \/ (\E W \in SUBSET {TTS} : FutexWake(t, W))
     \/ TtCancelStoreTimes(t) \/ TtCancelSetFlag(t) \/ TtDetachSetFlag(t) \/ TtCallsLoad(t)
     \/ TtDtorLoadFlags(t) \/ TtDtorLoadInProgress(t) \/ TtDtorClearFunc(t)
     \/ TtStop(t) \/ TtJoined(t)
     \/ EwLoadEpochC(t) \/ TtLoopTop(t) \/ TtReadClock(t) \/ TtPeek(t)
     \/ EwLoadEpochA(t) \/ EwLoadEpochB(t) \/ FutexWait(t) \/ FutexTimeout(t) \/ FutexRet(t)
     \/ TtKickGuard(t) \/ TtKickLoadFlags(t) \/ TtKickFetchSub(t) \/ TtKickCall(t)
     \/ TtFnLoadFlags(t) \/ TtFnIncInProgress(t) \/ TtFnDecInProgress(t) \/ FnEnqueue(t) \/ FnReturn(t)
     \/ TtKickRearm(t) \/ TtKickUnguard(t)
     \/ TtWrLoadFlags(t) \/ TtWrStoreTimes(t) \/ TtWrSetCancelled(t) \/ TtWrLoadInProgress(t)
     \/ TtWrClearFunc(t) \/ TtWrIncCount(t) \/ TtWrDecInProgress(t)
     \/ PoolDrained(t)

Spec == Init /\ [][Next]_vars

\* ====================================================================== properties
\* pcs at which a thread is executing inside the stored function's closure (it will read the
\* closure's captures: `this`, `sched`), and inside the user's functor (owned by the closure)
ClosurePcs == {"fnflags", "fninc", "fndec"}
BodyPcs    == {"body"}
\* pcs at which a thread is committed to using task state that ~TimedTask() promises is quiescent
UsePcs == {"kcall", "fnflags", "fninc", "fndec", "fnsched", "fnsched2", "wrflags", "body", "wrstore", "wrsetc", "wrldip",
           "wrclr", "wrcnt", "wrdec"}

TypeOK ==
  /\ \A k \in Tasks : inprog[k] >= 0 /\ refs[k] >= 0 /\ queued[k] >= 0 /\ count[k] >= 0
  /\ \A t \in AllT : loc[t].k \in Tasks \cup {0}

\* (C26) the function is invoked at most timesToRun times; calls() never exceeds the invocations
RunCount ==
  \A k \in Tasks : /\ (cfg[k].times >= 0 => started[k] <= cfg[k].times)
                   /\ count[k] <= started[k]

\* (C26) no invocation starts after the function returned false / after cancel() took effect
\* (R2: an invocation starts at the cancelled check that guards it), never before its time
NoneAfterFalse  == "start-after-false" \notin bad
NoneAfterCancel == "start-after-cancel" \notin bad
NotEarly        == "early" \notin bad

\* (C26, lifetime) the stored function is never invoked after it was destroyed, nobody executes
\* inside its closure or inside the user's functor while it is destroyed
FuncLifetime ==
  /\ "call-of-destroyed-func" \notin bad
  /\ "body-uses-destroyed-func" \notin bad
  /\ \A t \in AllT : (pc[t] \in ClosurePcs \cup BodyPcs /\ K(t) \in Tasks) => funcAlive[K(t)]

\* (C26) ~TimedTask() of a non-detached task returned => nothing is in progress, nothing can start
\* (no wrapper queued, no thread about to call / inside func or the wrapper), func is destroyed.
\* With InProgressExact this says inProgress = 0 except for the transient guard of a kickOffTask
\* ("fixed") that finds the task cancelled and backs out without touching func.
DtorQuiescent ==
  \A k \in Tasks : dtorDone[k] =>
     /\ queued[k] = 0 /\ ~funcAlive[k]
     /\ \A t \in AllT : K(t) = k => pc[t] \notin UsePcs

\* (C26) a task keeps its function while runs are still possible: a queued or running wrapper of a
\* task whose function died was preceded by cancellation (cancel / false / destructor)
DetachedKeepsFunc ==
  \A k \in Tasks : (refs[k] > 0 /\ ~cancelled[k]) => funcAlive[k]

\* inProgress accounts for every wrapper that exists (queued, being handed over, running) and, in
\* the "fixed" protocol, for every kickOffTask that holds the guard
WrapperPcs == {"wrflags", "body", "wrstore", "wrsetc", "wrldip", "wrclr", "wrcnt", "wrdec"}
At(k, S) == Cardinality({t \in AllT : K(t) = k /\ pc[t] \in S})
InProgressExact ==
  \A k \in Tasks :
     inprog[k] = queued[k] + At(k, WrapperPcs) + At(k, {"fnsched"})
               + (IF Variant = "fixed"
                    THEN At(k, {"kchk", "kfs", "kcall", "fnflags", "fninc", "fnsched", "fnsched2", "rearm", "kung"})
                         \* an inline wrapper runs on the stack of the guarded kickOffTask
                         + Cardinality({t \in AllT : K(t) = k /\ loc[t].back \in {"rearm", "kung"} /\
                                                     pc[t] \in WrapperPcs})
                    ELSE IF Variant = "incfirst" THEN At(k, {"fnflags", "fndec"}) ELSE 0)

AllDone == \A t \in Drivers : pc[t] = "done"
=============================================================================
