----------------------------- MODULE PoolAlloc -----------------------------
(* Implementation-level specification of dispenso::PoolAllocatorT<kThreadSafe>   *)
(* (dispenso/pool_allocator.h, .cpp): PoolAllocator (spin lock) and              *)
(* NoLockPoolAllocator.  One action per atomic access of the code; the action     *)
(* name is the DISPENSO_VERIF_POINT site placed immediately before that access.   *)
(* Work done while the spin lock is held (slab carving, free-list push/pop)       *)
(* belongs to the step that took the lock.  Operations without any atomic access  *)
(* (everything of NoLockPoolAllocator, clear(), totalChunkCapacity()) are one     *)
(* step that starts at a point placed by the driver immediately before the call   *)
(* (NlAlloc, NlDealloc, Clear, Cap).                                              *)
(*                                                                                *)
(* Memory is abstract: the k-th call of allocFunc returns slab k (k = 0,1,...),   *)
(* a chunk is <<slab, byte offset in the slab>>.                                  *)
(*                                                                                *)
(* A program is a sequence of phases; all threads of a phase are joined before    *)
(* the next phase starts.  prog[ph][t] is the operation list of thread t in phase *)
(* ph (<<>> = the thread does not exist in that phase).  Operations:              *)
(*   [op |-> "alloc",   h |-> n]   p_n := alloc()     (n: program-wide unique)    *)
(*   [op |-> "dealloc", h |-> n]   dealloc(p_n)                                   *)
(*   [op |-> "clear",   h |-> 0]   clear()            (single-thread phases only) *)
(*   [op |-> "cap",     h |-> 0]   totalChunkCapacity() (single-thread phases)    *)
EXTENDS Integers, Sequences, FiniteSets, TLC

CONSTANTS Threads,  \* set of all thread names (strings)
          Cfg,      \* [cs |-> chunkSize, as |-> allocSize, safe |-> 1 (PoolAllocator) / 0 (NoLock)]
          Prog      \* Seq([Threads -> Seq(op records)])

VARIABLES
  cfg, prog,          \* configuration (variables so that a trace can re-initialise them)
  phase,              \* index of the running phase
  lock,               \* backingAllocLock_
  backing, backing2,  \* backingAllocs_, backingAllocs2_ : sequences of slab ids
  chunks,             \* chunks_ : sequence of <<slab, off>>
  nslab,              \* number of allocFunc calls so far (= id of the next slab)
  alive,              \* allocator not yet destroyed
  pc, ip, loc,        \* per thread: program counter, index of current op, chunk being returned
  hist,               \* ghost: per thread, everything reported so far (allocFunc calls, results)
  owned,              \* ghost: set of <<h, slab, off>> : chunk currently handed out for handle h
  released,           \* ghost: slabs passed to deallocFunc, in call order
  wasted,             \* ghost: allocFunc was called although some chunk of an obtained slab was free
  dbl                 \* ghost: a chunk overlapping a handed-out chunk was handed out

impl  == <<lock, backing, backing2, chunks, nslab, alive>>
ghost == <<owned, released, wasted, dbl>>
vars  == <<cfg, prog, phase, lock, backing, backing2, chunks, nslab, alive, pc, ip, loc, hist,
           owned, released, wasted, dbl>>

T == DOMAIN prog[1]
Cpa == cfg.as \div cfg.cs          \* chunksPerAlloc_
Last(s) == s[Len(s)]
Front(s) == SubSeq(s, 1, Len(s) - 1)
Range(s) == {s[i] : i \in 1 .. Len(s)}

FirstPcOf(o) ==
  CASE o.op = "alloc"   -> (IF cfg.safe = 1 THEN "AllocLock" ELSE "NlAlloc")
    [] o.op = "dealloc" -> (IF cfg.safe = 1 THEN "DeallocLock" ELSE "NlDealloc")
    [] o.op = "clear"   -> "Clear"
    [] o.op = "cap"     -> "Cap"

FirstPc(ph, t, i) == IF i > Len(prog[ph][t]) THEN "Done" ELSE FirstPcOf(prog[ph][t][i])
Op(t) == prog[phase][t][ip[t]]

NoChunk == <<-1, -1>>

InitWith(c, p) ==
  /\ cfg = c /\ prog = p /\ phase = 1
  /\ lock = 0 /\ backing = <<>> /\ backing2 = <<>> /\ chunks = <<>> /\ nslab = 0 /\ alive = TRUE
  /\ pc = [t \in DOMAIN p[1] |-> IF Len(p[1][t]) = 0 THEN "Done" ELSE "Start"]
  /\ ip = [t \in DOMAIN p[1] |-> 1]
  /\ loc = [t \in DOMAIN p[1] |-> NoChunk]
  /\ hist = [t \in DOMAIN p[1] |-> <<>>]
  /\ owned = {} /\ released = <<>> /\ wasted = FALSE /\ dbl = FALSE

Init == InitWith(Cfg, Prog)

Goto(t, l) == pc' = [pc EXCEPT ![t] = l]
Emit(t, outs) == hist' = [hist EXCEPT ![t] = @ \o outs]
Finish(t, outs) ==
  /\ Emit(t, outs)
  /\ ip' = [ip EXCEPT ![t] = @ + 1]
  /\ Goto(t, FirstPc(phase, t, ip[t] + 1))

Overlap(s1, o1, s2, o2) == s1 = s2 /\ o1 < o2 + cfg.cs /\ o2 < o1 + cfg.cs

Start(t) ==
  /\ pc[t] = "Start"
  /\ Goto(t, FirstPc(phase, t, 1))
  /\ UNCHANGED <<cfg, prog, phase, impl, ip, loc, hist, ghost>>

\* ------------------------------------------------------------- what alloc() does under the lock
AllocEff ==
  IF chunks = <<>>
    THEN LET fresh == backing2 = <<>>
             slab  == IF fresh THEN nslab ELSE Last(backing2)
         IN [res      |-> <<slab, (Cpa - 1) * cfg.cs>>,
             chunks   |-> [i \in 1 .. (Cpa - 1) |-> <<slab, (i - 1) * cfg.cs>>],
             backing  |-> Append(backing, slab),
             backing2 |-> IF fresh THEN backing2 ELSE Front(backing2),
             nslab    |-> IF fresh THEN nslab + 1 ELSE nslab,
             notes    |-> IF fresh THEN << <<"allocFunc", slab, cfg.as>> >> ELSE <<>>,
             fresh    |-> fresh]
    ELSE [res |-> Last(chunks), chunks |-> Front(chunks), backing |-> backing, backing2 |-> backing2,
          nslab |-> nslab, notes |-> <<>>, fresh |-> FALSE]

ApplyAlloc(t, e) ==
  /\ chunks' = e.chunks /\ backing' = e.backing /\ backing2' = e.backing2 /\ nslab' = e.nslab
  /\ owned' = owned \cup {<<Op(t).h, e.res[1], e.res[2]>>}
  /\ dbl' = (dbl \/ \E x \in owned : Overlap(x[2], x[3], e.res[1], e.res[2]))
  /\ wasted' = (wasted \/ (e.fresh /\ Cardinality(owned) < nslab * Cpa))

ChunkOf(h) == CHOOSE x \in owned : x[1] = h

\* ---------------------------------------------------------------------- PoolAllocator::alloc
AllocLock(t) ==                       \* backingAllocLock_.fetch_or(1)
  /\ pc[t] = "AllocLock"
  /\ IF lock = 0
       THEN LET e == AllocEff IN
            /\ lock' = 1
            /\ ApplyAlloc(t, e)
            /\ loc' = [loc EXCEPT ![t] = e.res]
            /\ Emit(t, e.notes)
            /\ Goto(t, "AllocUnlock")
            /\ UNCHANGED <<cfg, prog, phase, alive, ip, released>>
       ELSE UNCHANGED vars            \* std::this_thread::yield(), retry

AllocUnlock(t) ==                     \* backingAllocLock_.store(0); return
  /\ pc[t] = "AllocUnlock"
  /\ lock' = 0
  /\ Finish(t, << <<"ret", loc[t][1], loc[t][2]>> >>)
  /\ loc' = [loc EXCEPT ![t] = NoChunk]
  /\ UNCHANGED <<cfg, prog, phase, backing, backing2, chunks, nslab, alive, ghost>>

\* -------------------------------------------------------------------- PoolAllocator::dealloc
DeallocLock(t) ==
  /\ pc[t] = "DeallocLock"
  /\ IF lock = 0
       THEN LET c == ChunkOf(Op(t).h) IN
            /\ lock' = 1
            /\ chunks' = Append(chunks, <<c[2], c[3]>>)
            /\ owned' = owned \ {c}
            /\ Goto(t, "DeallocUnlock")
            /\ UNCHANGED <<cfg, prog, phase, backing, backing2, nslab, alive, ip, loc, hist,
                           released, wasted, dbl>>
       ELSE UNCHANGED vars

DeallocUnlock(t) ==
  /\ pc[t] = "DeallocUnlock"
  /\ lock' = 0
  /\ Finish(t, <<>>)
  /\ UNCHANGED <<cfg, prog, phase, backing, backing2, chunks, nslab, alive, loc, ghost>>

\* ------------------------------------------------------------------------ NoLockPoolAllocator
NlAlloc(t) ==
  /\ pc[t] = "NlAlloc"
  /\ LET e == AllocEff IN
       /\ ApplyAlloc(t, e)
       /\ Finish(t, e.notes \o << <<"ret", e.res[1], e.res[2]>> >>)
  /\ UNCHANGED <<cfg, prog, phase, lock, alive, loc, released>>

NlDealloc(t) ==
  /\ pc[t] = "NlDealloc"
  /\ LET c == ChunkOf(Op(t).h) IN
       /\ chunks' = Append(chunks, <<c[2], c[3]>>)
       /\ owned' = owned \ {c}
  /\ Finish(t, <<>>)
  /\ UNCHANGED <<cfg, prog, phase, lock, backing, backing2, nslab, alive, loc, released, wasted, dbl>>

\* ------------------------------------------------------------ clear(), totalChunkCapacity()
Clear(t) ==
  /\ pc[t] = "Clear"
  /\ chunks' = <<>>
  /\ backing2' = (IF Len(backing2) < Len(backing) THEN backing \o backing2 ELSE backing2 \o backing)
  /\ backing' = <<>>
  /\ owned' = {}                      \* "effectively dealloc all previously allocated chunks"
  /\ Finish(t, <<>>)
  /\ UNCHANGED <<cfg, prog, phase, lock, nslab, alive, loc, released, wasted, dbl>>

Cap(t) ==
  /\ pc[t] = "Cap"
  /\ Finish(t, << <<"cap", (Len(backing2) + Len(backing)) * Cpa, 0>> >>)
  /\ UNCHANGED <<cfg, prog, phase, impl, loc, ghost>>

\* ----------------------------------------------------------------- phases and the destructor
AllDone == \A t \in T : pc[t] = "Done"

NextPhase ==
  /\ alive /\ AllDone /\ phase < Len(prog)
  /\ phase' = phase + 1
  /\ pc' = [t \in T |-> IF Len(prog[phase + 1][t]) = 0 THEN "Done" ELSE "Start"]
  /\ ip' = [t \in T |-> 1]
  /\ UNCHANGED <<cfg, prog, impl, loc, hist, ghost>>

Destroy ==
  /\ alive /\ AllDone /\ phase = Len(prog)
  /\ alive' = FALSE
  /\ released' = backing \o backing2
  /\ UNCHANGED <<cfg, prog, phase, lock, backing, backing2, chunks, nslab, pc, ip, loc, hist,
                 owned, wasted, dbl>>

Next ==
  \/ \E t \in Threads :
        \/ Start(t)
        \/ AllocLock(t) \/ AllocUnlock(t) \/ DeallocLock(t) \/ DeallocUnlock(t)
        \/ NlAlloc(t) \/ NlDealloc(t) \/ Clear(t) \/ Cap(t)
  \/ NextPhase
  \/ Destroy

Spec == Init /\ [][Next]_vars

\* ============================================================================ properties (C42)
Slabs == 0 .. (nslab - 1)
Held == Range(backing) \cup Range(backing2)         \* slabs the allocator currently holds
OwnedChunks == {<<x[2], x[3]>> : x \in owned}
FreeChunks == Range(chunks)

InSlab(c) == c[1] \in Slabs /\ c[1] \in Held /\ c[2] >= 0 /\ c[2] + cfg.cs <= cfg.as

\* live chunks are pairwise disjoint and lie inside slabs obtained from allocFunc (and still held)
Exclusive ==
  alive =>
    /\ \A x \in owned : InSlab(<<x[2], x[3]>>)
    /\ \A x, y \in owned : x # y => ~Overlap(x[2], x[3], y[2], y[3])
\* no chunk is handed out twice without an intervening dealloc (or clear)
NoDoubleHandout == ~dbl
\* the free list is sound: free chunks lie inside carved slabs, are pairwise distinct and disjoint
\* from every chunk that is handed out (so no future double hand-out is prepared)
FreeListSound ==
  alive =>
    /\ \A c \in FreeChunks : InSlab(c) /\ c[1] \in Range(backing)
    /\ Cardinality(FreeChunks) = Len(chunks)
    /\ \A c, d \in FreeChunks : c # d => ~Overlap(c[1], c[2], d[1], d[2])
    /\ \A c \in FreeChunks : \A x \in owned : ~Overlap(c[1], c[2], x[2], x[3])
\* every slab obtained is held exactly once (in exactly one of the two lists) until destruction
SlabsHeldOnce ==
  alive => /\ Held = Slabs
           /\ Len(backing) + Len(backing2) = nslab
\* allocFunc is only called when every chunk of every slab obtained so far is handed out; in
\* particular slabs recycled by clear() are reused before allocFunc is called again
ReuseBeforeAlloc == ~wasted
\* destruction releases every slab exactly once
ReleasedOnce ==
  ~alive => /\ Len(released) = nslab
            /\ Range(released) = Slabs
\* totalChunkCapacity() = chunks per slab x slabs obtained (sequential phases)
CapExact ==
  \A t \in T : \A i \in 1 .. Len(hist[t]) : hist[t][i][1] = "cap" => hist[t][i][2] <= nslab * Cpa

TypeOK ==
  /\ lock \in {0, 1} /\ nslab \in Nat /\ phase \in 1 .. Len(prog)
  /\ \A t \in T : ip[t] \in 1 .. (Len(prog[phase][t]) + 1)
  /\ (cfg.safe = 1 /\ lock = 1) =>
        Cardinality({t \in T : pc[t] \in {"AllocUnlock", "DeallocUnlock"}}) = 1
=============================================================================
