--------------------------- MODULE PoolAllocTrace ---------------------------
(* Trace validation for PoolAlloc.tla: every line of the ndjson trace recorded    *)
(* from the real PoolAllocator / NoLockPoolAllocator must be explained by the      *)
(* specification action of the same name taken by the same thread; the projected   *)
(* state (lock word, the two slab lists, the free list as <<slab, offset>>, the    *)
(* number of allocFunc calls) and everything reported during the step (allocFunc   *)
(* calls with slab id and size, the chunk returned as <<slab, offset>>, the        *)
(* capacity) must equal the specification's.  The Destroy line carries the slabs   *)
(* passed to deallocFunc in call order.  All invariants of PoolAlloc.tla are       *)
(* evaluated in every state of the validated behaviour.                            *)
EXTENDS PoolAlloc, Json, IOUtils

TraceLog == ndJsonDeserialize(IOEnv.TRACE)

VARIABLE l   \* next line to consume

tvars == <<vars, l>>

TraceInit ==
  /\ l = 2
  /\ TraceLog[1].e = "Reset"
  /\ InitWith(TraceLog[1].cfg, TraceLog[1].prog)

ResetTo(c, p) ==
  /\ cfg' = c /\ prog' = p /\ phase' = 1
  /\ lock' = 0 /\ backing' = <<>> /\ backing2' = <<>> /\ chunks' = <<>> /\ nslab' = 0 /\ alive' = TRUE
  /\ pc' = [t \in DOMAIN p[1] |-> IF Len(p[1][t]) = 0 THEN "Done" ELSE "Start"]
  /\ ip' = [t \in DOMAIN p[1] |-> 1]
  /\ loc' = [t \in DOMAIN p[1] |-> NoChunk]
  /\ hist' = [t \in DOMAIN p[1] |-> <<>>]
  /\ owned' = {} /\ released' = <<>> /\ wasted' = FALSE /\ dbl' = FALSE

Dispatch(e, t) ==
  CASE e = "Start"         -> Start(t)
    [] e = "AllocLock"     -> AllocLock(t)
    [] e = "AllocUnlock"   -> AllocUnlock(t)
    [] e = "DeallocLock"   -> DeallocLock(t)
    [] e = "DeallocUnlock" -> DeallocUnlock(t)
    [] e = "NlAlloc"       -> NlAlloc(t)
    [] e = "NlDealloc"     -> NlDealloc(t)
    [] e = "Clear"         -> Clear(t)
    [] e = "Cap"           -> Cap(t)
    [] OTHER               -> FALSE

ProjOK(ev) ==
  /\ lock' = ev.s.lock
  /\ backing' = ev.s.backing
  /\ backing2' = ev.s.backing2
  /\ Len(chunks') = Len(ev.s.chunks)
  /\ \A i \in 1 .. Len(chunks') : chunks'[i][1] = ev.s.chunks[i][1] /\ chunks'[i][2] = ev.s.chunks[i][2]
  /\ nslab' = ev.s.nslab

\* what the step reported = what the specification appended to the thread's history
Reported(t) == SubSeq(hist'[t], Len(hist[t]) + 1, Len(hist'[t]))
SameNotes(a, b) ==
  /\ Len(a) = Len(b)
  /\ \A i \in 1 .. Len(a) : a[i][1] = b[i][1] /\ a[i][2] = b[i][2] /\ a[i][3] = b[i][3]

TraceStep ==
  /\ l <= Len(TraceLog)
  /\ LET ev == TraceLog[l] IN
       \/ /\ ev.e = "Reset"
          /\ ResetTo(ev.cfg, ev.prog)
       \/ /\ ev.e = "NextPhase"
          /\ NextPhase
       \/ /\ ev.e = "Destroy"
          /\ Destroy
          /\ released' = ev.rel
       \/ /\ ev.e \notin {"Reset", "NextPhase", "Destroy"}
          /\ {"t", "r", "s"} \subseteq DOMAIN ev      \* (Diverged / Deadlock lines are not explained)
          /\ ev.t \in T
          /\ Dispatch(ev.e, ev.t)
          /\ ProjOK(ev)
          /\ SameNotes(ev.r, Reported(ev.t))
  /\ l' = l + 1

TraceSpec == TraceInit /\ [][TraceStep]_tvars

\* One state per consumed line (TraceInit consumes line 1).
TraceAccepted ==
  LET d == TLCGet("stats").diameter IN
  IF d = Len(TraceLog) THEN TRUE
  ELSE /\ PrintT(<<"TRACE_REJECTED_AT_LINE", d + 1, "OF", Len(TraceLog)>>)
       /\ PrintT(<<"OFFENDING", TraceLog[d + 1]>>)
       /\ FALSE
=============================================================================
