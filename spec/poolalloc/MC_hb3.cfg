CONSTANTS
  Threads = {"t1", "t2", "t3", "m"}
  Cfg <- Cfg_h3
  Prog <- Prog_h3
  MaxSlabs = 4
INIT HInit
NEXT HNext
CHECK_DEADLOCK FALSE
INVARIANTS OrdersComplete KindsOK RaceFree HTypeOK SlabsCovered TypeOK Exclusive NoDoubleHandout FreeListSound SlabsHeldOnce
