---------------------------- MODULE PoolAllocHB ----------------------------
(* C10 for dispenso::PoolAllocator (= PoolAllocatorT<true>): PoolAlloc.tla composed with the     *)
(* happens-before model spec/lib/MemOrder.tla (no std::atomic_thread_fence in                    *)
(* pool_allocator.h/.cpp).                                                                       *)
(*                                                                                               *)
(* Atomic location: backingAllocLock_ (std::atomic<uint32_t>), a test-and-set spin lock:         *)
(*   alloc / dealloc   fetch_or(1, o) - the thread that reads 0 owns the lock; store(0, o)       *)
(* A fetch_or that reads 1 is still an RMW (it writes 1 again and continues the release          *)
(* sequence of the last unlock).                                                                 *)
(*                                                                                               *)
(* Non-atomic locations (the members are plain std::vector<char*>, only touched between a        *)
(* winning fetch_or and the store(0), by clear()/totalChunkCapacity() which are documented       *)
(* as not thread safe, and by the constructor / destructor):                                     *)
(*   <<"chunks",0>>    chunks_          alloc: empty() [read]; back()+pop_back() or the          *)
(*                                      carve loop's push_back [write]; dealloc: push_back       *)
(*   <<"backing",0>>   backingAllocs_   alloc (slab path): push_back [write]                     *)
(*   <<"backing2",0>>  backingAllocs2_  alloc (slab path): empty() [read], back()+pop_back()     *)
(*                                      when a recycled slab exists [write]                      *)
(*   <<"mem",c>>       the chunkSize bytes of chunk c = <<slab, offset>>: the CALLER writes      *)
(*                     them after alloc() returned (here: right after the store(0) of            *)
(*                     AllocUnlock, inside that step).  The lock is also what orders the LAST    *)
(*                     use of a chunk by its previous owner (before dealloc(): fetch_or          *)
(*                     acquire .. store release) before the FIRST use by the next owner          *)
(*                     (fetch_or acquire in alloc()) - memory reuse across threads.              *)
(* clear(): writes the three vectors; totalChunkCapacity(): reads backingAllocs_/2_;             *)
(* constructor ("main", before any thread exists): writes the three vectors                      *)
(* (chunks_.reserve); destructor ("main", after joining everything): reads and destroys          *)
(* the vectors and hands every slab to deallocFunc = a write of every location.                  *)
(*                                                                                               *)
(* Documented contract (pool_allocator.h): alloc()/dealloc() of PoolAllocator may be called      *)
(* concurrently; clear() "is not thread safe", totalChunkCapacity() takes no lock either;        *)
(* NoLockPoolAllocator is "for single-threaded use or external synchronization".  Programs       *)
(* therefore are the phase programs of PoolAlloc.tla: all threads of a phase are joined before   *)
(* the next phase starts (Start = thread creation, NextPhase = join), clear/cap only in          *)
(* single-thread phases, a chunk is deallocated by the thread that allocated it or, after a      *)
(* join, by a thread of a later phase (handing a pointer to another thread needs                 *)
(* synchronization of the caller's own).  cfg.safe = 0 (NoLock) has no atomic access: the        *)
(* actions are kept for completeness (they touch the same locations) but no cfg uses them.       *)
(*                                                                                               *)
(* Spinning: a fetch_or that reads 1 leaves the base state unchanged (self-loop of the base      *)
(* spec).  It releases nothing (declared acquire) - a vector clock only has to advance at        *)
(* release operations - so the failed attempt keeps what it acquired but not the tick: the       *)
(* step is idempotent and ANY number of failed attempts is covered without a spin bound.         *)
(* (If the extracted order of the fetch_or ever contains a release part the tick is kept and     *)
(* TLC's state space becomes unbounded for spinning threads: bound it then.)                     *)
EXTENDS PoolAlloc, MemOrder, OrdersPoolAlloc

CONSTANT MaxSlabs      \* slabs whose chunks have a "mem" location (more allocFunc calls = TLC error)

VARIABLES hb,
          path         \* per thread: textual occurrence of the AllocUnlock it is heading to
                       \* (1 = slab/carve path, 2 = free-list path; 0 = not inside alloc)
hvars == <<vars, hb, path>>

HT == Threads \cup {"main"}
Lock == <<"lock", 0>>
Ck == <<"chunks", 0>>
B1 == <<"backing", 0>>
B2 == <<"backing2", 0>>
Mem(c) == <<"mem", c>>
CpaC == Cfg.as \div Cfg.cs
MemLocs == {Mem(<<s, i * Cfg.cs>>) : s \in 0 .. (MaxSlabs - 1), i \in 0 .. (CpaC - 1)}
VecLocs == {Ck, B1, B2}
ALocs == {Lock}
NLocs == VecLocs \cup MemLocs

UsedSites == ("AllocLock" :> <<1, "fetch_or">>) @@ ("AllocUnlock" :> <<2, "store">>) @@
             ("DeallocLock" :> <<1, "fetch_or">>) @@ ("DeallocUnlock" :> <<1, "store">>)
OrdersComplete ==
  /\ \A s \in DOMAIN UsedSites :
        /\ s \in DOMAIN Ord
        /\ Len(Ord[s]) = UsedSites[s][1]
        /\ \A i \in 1 .. Len(Ord[s]) : Ord[s][i][1] # "none"
  /\ DOMAIN Ord \subseteq DOMAIN UsedSites
KindsOK == \A s \in DOMAIN UsedSites : \A i \in 1 .. Len(Ord[s]) : Ord[s][i][1] = UsedSites[s][2]

OS(site, occ) == Ord[site][occ][2]

\* failed fetch_or: drop the tick unless the declared order releases (see header)
Failed(t, o) == LET h == ARmw(HT, hb, t, Lock, o)
                IN IF IsRel(o) THEN h ELSE [h EXCEPT !.vc[t][t] = hb.vc[t][t]]

RECURSIVE WriteAll(_, _, _)
WriteAll(h, t, xs) == IF xs = {} THEN h
                      ELSE LET x == CHOOSE x \in xs : TRUE IN WriteAll(NAWrite(HT, h, t, x), t, xs \ {x})
RECURSIVE JoinAll(_, _)
JoinAll(h, ts) == IF ts = {} THEN h
                  ELSE LET u == CHOOSE u \in ts : TRUE IN JoinAll(HBJoin(HT, h, "main", u), ts \ {u})

\* the non-atomic accesses of the locked body of alloc(), in program order (evaluated in the
\* state BEFORE the step)
AllocBody(h, t) ==
  LET h1 == NARead(HT, h, t, Ck) IN                                  \* chunks_.empty()
  IF chunks = <<>>
    THEN LET h2 == NARead(HT, h1, t, B2)                               \* backingAllocs2_.empty()
             h3 == IF backing2 = <<>> THEN h2 ELSE NAWrite(HT, h2, t, B2)   \* back(), pop_back()
             h4 == NAWrite(HT, h3, t, B1)                              \* backingAllocs_.push_back
         IN IF Cpa > 1 THEN NAWrite(HT, h4, t, Ck) ELSE h4             \* carve loop push_back
    ELSE NAWrite(HT, h1, t, Ck)                                        \* back(), pop_back()

\* clear(): chunks_.clear(), swap / push_back / clear of the two slab vectors
ClearBody(h, t) == WriteAll(h, t, VecLocs)
\* totalChunkCapacity(): backingAllocs2_.size() + backingAllocs_.size()
CapBody(h, t) == NARead(HT, NARead(HT, h, t, B2), t, B1)

HInit ==
  /\ Init
  /\ hb = WriteAll(HBInit(HT, ALocs, NLocs), "main", VecLocs)
  /\ path = [t \in Threads |-> 0]

Keep == UNCHANGED path

HStep(t) ==
  \/ Start(t) /\ hb' = HBSpawn(HT, hb, "main", t) /\ Keep
  \* ---- alloc(): fetch_or(1); the winner runs the whole locked body before the next hook
  \/ /\ AllocLock(t)
     /\ IF lock = 0
          THEN /\ hb' = AllocBody(ARmw(HT, hb, t, Lock, OS("AllocLock", 1)), t)
               /\ path' = [path EXCEPT ![t] = IF chunks = <<>> THEN 1 ELSE 2]
          ELSE /\ hb' = Failed(t, OS("AllocLock", 1))
               /\ Keep
  \* store(0), return; then the caller uses the chunk it got
  \/ /\ AllocUnlock(t)
     /\ hb' = NAWrite(HT, AStore(HT, hb, t, Lock, OS("AllocUnlock", path[t])), t, Mem(loc[t]))
     /\ path' = [path EXCEPT ![t] = 0]
  \* ---- dealloc(): fetch_or(1); the winner does chunks_.push_back(ptr)
  \/ /\ DeallocLock(t)
     /\ hb' = IF lock = 0
                THEN NAWrite(HT, ARmw(HT, hb, t, Lock, OS("DeallocLock", 1)), t, Ck)
                ELSE Failed(t, OS("DeallocLock", 1))
     /\ Keep
  \/ DeallocUnlock(t) /\ hb' = AStore(HT, hb, t, Lock, OS("DeallocUnlock", 1)) /\ Keep
  \* ---- NoLockPoolAllocator: the same bodies without any atomic access
  \/ /\ NlAlloc(t)
     /\ hb' = NAWrite(HT, AllocBody(hb, t), t, Mem(AllocEff.res))
     /\ Keep
  \/ NlDealloc(t) /\ hb' = NAWrite(HT, hb, t, Ck) /\ Keep
  \* ---- not thread safe by documentation: single-thread phases only
  \/ Clear(t) /\ hb' = ClearBody(hb, t) /\ Keep
  \/ Cap(t) /\ hb' = CapBody(hb, t) /\ Keep

HNext ==
  \/ \E t \in Threads : HStep(t)
  \* main joins every thread of the phase
  \/ NextPhase /\ hb' = JoinAll(hb, Threads) /\ Keep
  \* main joins, then ~PoolAllocatorT: reads + destroys the vectors, deallocFunc frees the slabs
  \/ Destroy /\ hb' = WriteAll(JoinAll(hb, Threads), "main", NLocs) /\ Keep
HSpec == HInit /\ [][HNext]_hvars

RaceFree == NoRace(hb)
\* the two halves of RaceFree (diagnosis: which kind of location a violation is about)
VecRaceFree == hb.race \cap VecLocs = {}     \* the vectors the lock guards
MemRaceFree == hb.race \cap MemLocs = {}     \* chunk memory reused through the allocator
HTypeOK == \A t \in Threads : /\ path[t] \in 0 .. 2
                              /\ (pc[t] = "AllocUnlock") = (path[t] # 0)
\* every slab has "mem" locations (otherwise raise MaxSlabs)
SlabsCovered == nslab <= MaxSlabs
=============================================================================
