CONSTANTS
  Threads = {"t1", "t2", "t3", "m"}
  Cfg <- Cfg_nl2
  Prog <- Prog_any
  MaxOps = 7
INIT Init
NEXT NextAny
CHECK_DEADLOCK FALSE
INVARIANTS TypeOK Exclusive NoDoubleHandout FreeListSound SlabsHeldOnce ReuseBeforeAlloc ReleasedOnce CapExact
