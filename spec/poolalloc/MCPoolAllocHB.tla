--------------------------- MODULE MCPoolAllocHB ---------------------------
EXTENDS PoolAllocHB
A(h) == [op |-> "alloc", h |-> h]
D(h) == [op |-> "dealloc", h |-> h]
CL == [op |-> "clear", h |-> 0]
CP == [op |-> "cap", h |-> 0]
Ph(a, b, c, m) == [t1 |-> a, t2 |-> b, t3 |-> c, m |-> m]
N == <<>>

\* MC_hb1: 2 chunks per slab.  Phase 1: m allocates 20 (slab 0 carved).  Phase 2: t1, t2, t3 race:
\* free-list path and slab path of alloc (both AllocUnlock occurrences) by any thread, dealloc of
\* an own chunk and of a chunk from phase 1, chunk memory reused by another thread, failed
\* fetch_or in alloc and dealloc.  Phase 3: m alone: cap, clear, recycled slabs, fresh slab, cap.
\* Then the destructor.
Cfg_h1 == [cs |-> 8, as |-> 16, safe |-> 1]
Prog_h1 == << Ph(N, N, N, <<A(20)>>),
              Ph(<<A(1), D(1), A(2), D(20)>>, <<A(3), D(3), A(4), D(4)>>, <<A(10), D(10)>>, N),
              Ph(N, N, N, <<CP, CL, A(5), A(6), A(7), A(8), A(9), CP>>) >>

\* MC_hb2: 1 chunk per slab (every alloc from an empty free list takes the slab path and pushes
\* nothing on chunks_; every reuse goes through dealloc -> alloc of another thread), clear() twice.
Cfg_h2 == [cs |-> 16, as |-> 16, safe |-> 1]
Prog_h2 == << Ph(N, N, N, <<A(9)>>),
              Ph(<<A(1), D(1), A(2), D(2)>>, <<A(3), D(9), D(3), A(4)>>, <<A(10)>>, N),
              Ph(N, N, N, <<CL, A(5), CL, A(6), A(7), CP>>) >>

\* MC_hb3 (thorough): 3 threads, 3 chunks per slab (+4 slack bytes), two concurrent phases
Cfg_h3 == [cs |-> 8, as |-> 28, safe |-> 1]
Prog_h3 == << Ph(N, N, N, <<A(20), A(21)>>),
              Ph(<<A(1), D(20), A(2)>>, <<A(4), D(4), D(21)>>, <<A(6), A(7), D(6)>>, N),
              Ph(<<D(1), A(10)>>, <<D(7), A(11)>>, N, N),
              Ph(N, N, N, <<CP, CL, A(8), A(9), CP>>) >>
=============================================================================
