CONSTANTS
  Threads = {"t1", "t2", "t3", "m"}
  Cfg <- Cfg_3x4
  Prog <- Prog_3x4
  MaxOps = 0
INIT Init
NEXT Next
CHECK_DEADLOCK FALSE
INVARIANTS TypeOK Exclusive NoDoubleHandout FreeListSound SlabsHeldOnce ReuseBeforeAlloc ReleasedOnce CapExact
