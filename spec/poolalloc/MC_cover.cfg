CONSTANTS
  Threads = {"t1", "t2", "t3", "m"}
  Cfg <- Cfg_cover
  Prog <- Prog_cover
  MaxOps = 0
INIT Init
NEXT Next
CHECK_DEADLOCK FALSE
INVARIANTS TypeOK Exclusive NoDoubleHandout FreeListSound SlabsHeldOnce ReuseBeforeAlloc ReleasedOnce CapExact
