CONSTANTS
  Threads = {"t1", "t2", "t3", "m"}
  Cfg <- Cfg_h1
  Prog <- Prog_h1
  MaxSlabs = 4
INIT HInit
NEXT HNext
CHECK_DEADLOCK FALSE
INVARIANTS OrdersComplete KindsOK RaceFree HTypeOK SlabsCovered TypeOK Exclusive NoDoubleHandout FreeListSound SlabsHeldOnce
