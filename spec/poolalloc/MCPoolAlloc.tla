---------------------------- MODULE MCPoolAlloc ----------------------------
EXTENDS PoolAlloc
A(h) == [op |-> "alloc", h |-> h]
D(h) == [op |-> "dealloc", h |-> h]
CL == [op |-> "clear", h |-> 0]
CP == [op |-> "cap", h |-> 0]
Ph(a, b, c, m) == [t1 |-> a, t2 |-> b, t3 |-> c, m |-> m]
N == <<>>

\* cover configuration (E2): 2 chunks per slab, two racing threads, then clear() and reuse
Cfg_cover == [cs |-> 8, as |-> 16, safe |-> 1]
Prog_cover == << Ph(<<A(1), D(1)>>, <<A(2), A(3)>>, N, N),
                 Ph(N, N, N, <<CL, A(4), CP, A(5), A(6), A(7), A(8)>>) >>

\* 3 threads x 4 ops, 3 chunks per slab (slack of 4 bytes), cross-thread dealloc of chunks
\* allocated in an earlier phase, clear() and reuse of two slabs, fresh slab after that
Cfg_3x4 == [cs |-> 8, as |-> 28, safe |-> 1]
Prog_3x4 == << Ph(N, N, N, <<A(20), A(21)>>),
               Ph(<<A(1), A(2), D(20), A(3)>>, <<A(4), D(4), A(5), D(21)>>, <<A(6), A(7), D(7), D(6)>>, N),
               Ph(N, N, N, <<CP, CL, A(8), A(9), A(10), A(11), A(12), A(13), A(14), CP>>) >>

\* 1 chunk per slab, 2 threads x 3 ops, cross-thread dealloc of a chunk from an earlier phase
Cfg_2x3 == [cs |-> 16, as |-> 16, safe |-> 1]
Prog_2x3 == << Ph(N, N, N, <<A(9)>>),
               Ph(<<A(1), D(1), A(2)>>, <<A(3), D(9), D(3)>>, N, N),
               Ph(N, N, N, <<CL, A(5), CL, A(6), A(7), A(8), CP>>) >>

\* ---------------------------------------------------------------------------------------------
\* All sequential histories (E5 direction): one thread "m" extends its own program by any
\* operation the documentation allows, up to MaxOps operations.  Used for both allocator kinds.
CONSTANT MaxOps
Cfg_nl2 == [cs |-> 8, as |-> 16, safe |-> 0]
Cfg_nl3 == [cs |-> 8, as |-> 28, safe |-> 0]
Cfg_nl1 == [cs |-> 16, as |-> 16, safe |-> 0]
Cfg_sq2 == [cs |-> 8, as |-> 16, safe |-> 1]
Prog_any == << Ph(N, N, N, <<>>) >>

Extend ==
  /\ alive /\ pc["m"] = "Done" /\ Len(prog[1]["m"]) < MaxOps
  /\ \E o \in {A(Len(prog[1]["m"]) + 1), CL, CP} \cup {D(x[1]) : x \in owned} :
       /\ prog' = [prog EXCEPT ![1]["m"] = Append(@, o)]
       /\ pc' = [pc EXCEPT !["m"] = FirstPcOf(o)]
  /\ UNCHANGED <<cfg, phase, impl, ip, loc, hist, ghost>>

NextAny ==
  \/ \E t \in Threads :
        \/ AllocLock(t) \/ AllocUnlock(t) \/ DeallocLock(t) \/ DeallocUnlock(t)
        \/ NlAlloc(t) \/ NlDealloc(t) \/ Clear(t) \/ Cap(t)
  \/ Extend
  \/ Destroy
=============================================================================
