CONSTANTS
  Threads = {}
  Cfg = 0
  Prog = 0
SPECIFICATION TraceSpec
CHECK_DEADLOCK FALSE
POSTCONDITION TraceAccepted
INVARIANTS Exclusive NoDoubleHandout FreeListSound SlabsHeldOnce ReuseBeforeAlloc ReleasedOnce CapExact
