---- MODULE MCAsyncReq_TTrace_1790042743 ----
EXTENDS Sequences, TLCExt, Toolbox, MCAsyncReq, Naturals, TLC

_expression ==
    LET MCAsyncReq_TEExpression == INSTANCE MCAsyncReq_TEExpression
    IN MCAsyncReq_TEExpression!expression
----

_trace ==
    LET MCAsyncReq_TETrace == INSTANCE MCAsyncReq_TETrace
    IN MCAsyncReq_TETrace!trace
----

_inv ==
    ~(
        TLCGet("level") = Len(_TETrace)
        /\
        reqs = (1)
        /\
        loc = ([c1 |-> 0, c2 |-> 0, p1 |-> 0, p2 |-> 0])
        /\
        emplEp = (<<1, 0, 0, 0>>)
        /\
        alive = (TRUE)
        /\
        overwrote = (FALSE)
        /\
        ip = ([c1 |-> 2, c2 |-> 1, p1 |-> 2, p2 |-> 1])
        /\
        deliv = (<<0, 0, 0, 0>>)
        /\
        prog = ([c1 |-> <<[op |-> "req", v |-> 0], [op |-> "get", v |-> 0], [op |-> "req", v |-> 0]>>, c2 |-> <<[op |-> "get", v |-> 0], [op |-> "req", v |-> 0], [op |-> "get", v |-> 0]>>, p1 |-> <<[op |-> "emp", v |-> 1], [op |-> "chk", v |-> 0], [op |-> "emp", v |-> 2]>>, p2 |-> <<[op |-> "emp", v |-> 3], [op |-> "emp", v |-> 4], [op |-> "chk", v |-> 0]>>])
        /\
        mode = ("clear")
        /\
        hist = ([c1 |-> <<0>>, c2 |-> <<>>, p1 |-> <<1>>, p2 |-> <<>>])
        /\
        pc = ([c1 |-> "GetMove", c2 |-> "GetMove", p1 |-> "ChkLd", p2 |-> "Start"])
        /\
        stale = (FALSE)
        /\
        husk = (FALSE)
        /\
        obj = (1)
        /\
        claim = (FALSE)
        /\
        state = (3)
    )
----

_init ==
    /\ prog = _TETrace[1].prog
    /\ deliv = _TETrace[1].deliv
    /\ reqs = _TETrace[1].reqs
    /\ alive = _TETrace[1].alive
    /\ loc = _TETrace[1].loc
    /\ overwrote = _TETrace[1].overwrote
    /\ mode = _TETrace[1].mode
    /\ emplEp = _TETrace[1].emplEp
    /\ pc = _TETrace[1].pc
    /\ state = _TETrace[1].state
    /\ hist = _TETrace[1].hist
    /\ husk = _TETrace[1].husk
    /\ stale = _TETrace[1].stale
    /\ claim = _TETrace[1].claim
    /\ obj = _TETrace[1].obj
    /\ ip = _TETrace[1].ip
----

_next ==
    /\ \E i,j \in DOMAIN _TETrace:
        /\ \/ /\ j = i + 1
              /\ i = TLCGet("level")
        /\ prog  = _TETrace[i].prog
        /\ prog' = _TETrace[j].prog
        /\ deliv  = _TETrace[i].deliv
        /\ deliv' = _TETrace[j].deliv
        /\ reqs  = _TETrace[i].reqs
        /\ reqs' = _TETrace[j].reqs
        /\ alive  = _TETrace[i].alive
        /\ alive' = _TETrace[j].alive
        /\ loc  = _TETrace[i].loc
        /\ loc' = _TETrace[j].loc
        /\ overwrote  = _TETrace[i].overwrote
        /\ overwrote' = _TETrace[j].overwrote
        /\ mode  = _TETrace[i].mode
        /\ mode' = _TETrace[j].mode
        /\ emplEp  = _TETrace[i].emplEp
        /\ emplEp' = _TETrace[j].emplEp
        /\ pc  = _TETrace[i].pc
        /\ pc' = _TETrace[j].pc
        /\ state  = _TETrace[i].state
        /\ state' = _TETrace[j].state
        /\ hist  = _TETrace[i].hist
        /\ hist' = _TETrace[j].hist
        /\ husk  = _TETrace[i].husk
        /\ husk' = _TETrace[j].husk
        /\ stale  = _TETrace[i].stale
        /\ stale' = _TETrace[j].stale
        /\ claim  = _TETrace[i].claim
        /\ claim' = _TETrace[j].claim
        /\ obj  = _TETrace[i].obj
        /\ obj' = _TETrace[j].obj
        /\ ip  = _TETrace[i].ip
        /\ ip' = _TETrace[j].ip

\* Uncomment the ASSUME below to write the states of the error trace
\* to the given file in Json format. Note that you can pass any tuple
\* to `JsonSerialize`. For example, a sub-sequence of _TETrace.
    \* ASSUME
    \*     LET J == INSTANCE Json
    \*         IN J!JsonSerialize("MCAsyncReq_TTrace_1790042743.json", _TETrace)

=============================================================================

 Note that you can extract this module `MCAsyncReq_TEExpression`
  to a dedicated file to reuse `expression` (the module in the 
  dedicated `MCAsyncReq_TEExpression.tla` file takes precedence 
  over the module `MCAsyncReq_TEExpression` below).

---- MODULE MCAsyncReq_TEExpression ----
EXTENDS Sequences, TLCExt, Toolbox, MCAsyncReq, Naturals, TLC

expression == 
    [
        \* To hide variables of the `MCAsyncReq` spec from the error trace,
        \* remove the variables below.  The trace will be written in the order
        \* of the fields of this record.
        prog |-> prog
        ,deliv |-> deliv
        ,reqs |-> reqs
        ,alive |-> alive
        ,loc |-> loc
        ,overwrote |-> overwrote
        ,mode |-> mode
        ,emplEp |-> emplEp
        ,pc |-> pc
        ,state |-> state
        ,hist |-> hist
        ,husk |-> husk
        ,stale |-> stale
        ,claim |-> claim
        ,obj |-> obj
        ,ip |-> ip
        
        \* Put additional constant-, state-, and action-level expressions here:
        \* ,_stateNumber |-> _TEPosition
        \* ,_progUnchanged |-> prog = prog'
        
        \* Format the `prog` variable as Json value.
        \* ,_progJson |->
        \*     LET J == INSTANCE Json
        \*     IN J!ToJson(prog)
        
        \* Lastly, you may build expressions over arbitrary sets of states by
        \* leveraging the _TETrace operator.  For example, this is how to
        \* count the number of times a spec variable changed up to the current
        \* state in the trace.
        \* ,_progModCount |->
        \*     LET F[s \in DOMAIN _TETrace] ==
        \*         IF s = 1 THEN 0
        \*         ELSE IF _TETrace[s].prog # _TETrace[s-1].prog
        \*             THEN 1 + F[s-1] ELSE F[s-1]
        \*     IN F[_TEPosition - 1]
    ]

=============================================================================



Parsing and semantic processing can take forever if the trace below is long.
 In this case, it is advised to uncomment the module below to deserialize the
 trace from a generated binary file.

\*
\*---- MODULE MCAsyncReq_TETrace ----
\*EXTENDS IOUtils, MCAsyncReq, TLC
\*
\*trace == IODeserialize("MCAsyncReq_TTrace_1790042743.bin", TRUE)
\*
\*=============================================================================
\*

---- MODULE MCAsyncReq_TETrace ----
EXTENDS MCAsyncReq, TLC

trace == 
    <<
    ([reqs |-> 0,loc |-> [c1 |-> 0, c2 |-> 0, p1 |-> 0, p2 |-> 0],emplEp |-> <<0, 0, 0, 0>>,alive |-> TRUE,overwrote |-> FALSE,ip |-> [c1 |-> 1, c2 |-> 1, p1 |-> 1, p2 |-> 1],deliv |-> <<0, 0, 0, 0>>,prog |-> [c1 |-> <<[op |-> "req", v |-> 0], [op |-> "get", v |-> 0], [op |-> "req", v |-> 0]>>, c2 |-> <<[op |-> "get", v |-> 0], [op |-> "req", v |-> 0], [op |-> "get", v |-> 0]>>, p1 |-> <<[op |-> "emp", v |-> 1], [op |-> "chk", v |-> 0], [op |-> "emp", v |-> 2]>>, p2 |-> <<[op |-> "emp", v |-> 3], [op |-> "emp", v |-> 4], [op |-> "chk", v |-> 0]>>],mode |-> "clear",hist |-> [c1 |-> <<>>, c2 |-> <<>>, p1 |-> <<>>, p2 |-> <<>>],pc |-> [c1 |-> "Start", c2 |-> "Start", p1 |-> "Start", p2 |-> "Start"],stale |-> FALSE,husk |-> FALSE,obj |-> 0,claim |-> FALSE,state |-> 0]),
    ([reqs |-> 0,loc |-> [c1 |-> 0, c2 |-> 0, p1 |-> 0, p2 |-> 0],emplEp |-> <<0, 0, 0, 0>>,alive |-> TRUE,overwrote |-> FALSE,ip |-> [c1 |-> 1, c2 |-> 1, p1 |-> 1, p2 |-> 1],deliv |-> <<0, 0, 0, 0>>,prog |-> [c1 |-> <<[op |-> "req", v |-> 0], [op |-> "get", v |-> 0], [op |-> "req", v |-> 0]>>, c2 |-> <<[op |-> "get", v |-> 0], [op |-> "req", v |-> 0], [op |-> "get", v |-> 0]>>, p1 |-> <<[op |-> "emp", v |-> 1], [op |-> "chk", v |-> 0], [op |-> "emp", v |-> 2]>>, p2 |-> <<[op |-> "emp", v |-> 3], [op |-> "emp", v |-> 4], [op |-> "chk", v |-> 0]>>],mode |-> "clear",hist |-> [c1 |-> <<>>, c2 |-> <<>>, p1 |-> <<>>, p2 |-> <<>>],pc |-> [c1 |-> "Start", c2 |-> "Start", p1 |-> "EmplCas", p2 |-> "Start"],stale |-> FALSE,husk |-> FALSE,obj |-> 0,claim |-> FALSE,state |-> 0]),
    ([reqs |-> 0,loc |-> [c1 |-> 0, c2 |-> 0, p1 |-> 0, p2 |-> 0],emplEp |-> <<0, 0, 0, 0>>,alive |-> TRUE,overwrote |-> FALSE,ip |-> [c1 |-> 1, c2 |-> 1, p1 |-> 1, p2 |-> 1],deliv |-> <<0, 0, 0, 0>>,prog |-> [c1 |-> <<[op |-> "req", v |-> 0], [op |-> "get", v |-> 0], [op |-> "req", v |-> 0]>>, c2 |-> <<[op |-> "get", v |-> 0], [op |-> "req", v |-> 0], [op |-> "get", v |-> 0]>>, p1 |-> <<[op |-> "emp", v |-> 1], [op |-> "chk", v |-> 0], [op |-> "emp", v |-> 2]>>, p2 |-> <<[op |-> "emp", v |-> 3], [op |-> "emp", v |-> 4], [op |-> "chk", v |-> 0]>>],mode |-> "clear",hist |-> [c1 |-> <<>>, c2 |-> <<>>, p1 |-> <<>>, p2 |-> <<>>],pc |-> [c1 |-> "ReqCas", c2 |-> "Start", p1 |-> "EmplCas", p2 |-> "Start"],stale |-> FALSE,husk |-> FALSE,obj |-> 0,claim |-> FALSE,state |-> 0]),
    ([reqs |-> 1,loc |-> [c1 |-> 0, c2 |-> 0, p1 |-> 0, p2 |-> 0],emplEp |-> <<0, 0, 0, 0>>,alive |-> TRUE,overwrote |-> FALSE,ip |-> [c1 |-> 2, c2 |-> 1, p1 |-> 1, p2 |-> 1],deliv |-> <<0, 0, 0, 0>>,prog |-> [c1 |-> <<[op |-> "req", v |-> 0], [op |-> "get", v |-> 0], [op |-> "req", v |-> 0]>>, c2 |-> <<[op |-> "get", v |-> 0], [op |-> "req", v |-> 0], [op |-> "get", v |-> 0]>>, p1 |-> <<[op |-> "emp", v |-> 1], [op |-> "chk", v |-> 0], [op |-> "emp", v |-> 2]>>, p2 |-> <<[op |-> "emp", v |-> 3], [op |-> "emp", v |-> 4], [op |-> "chk", v |-> 0]>>],mode |-> "clear",hist |-> [c1 |-> <<0>>, c2 |-> <<>>, p1 |-> <<>>, p2 |-> <<>>],pc |-> [c1 |-> "GetClaim", c2 |-> "Start", p1 |-> "EmplCas", p2 |-> "Start"],stale |-> FALSE,husk |-> FALSE,obj |-> 0,claim |-> FALSE,state |-> 1]),
    ([reqs |-> 1,loc |-> [c1 |-> 0, c2 |-> 0, p1 |-> 0, p2 |-> 0],emplEp |-> <<0, 0, 0, 0>>,alive |-> TRUE,overwrote |-> FALSE,ip |-> [c1 |-> 2, c2 |-> 1, p1 |-> 1, p2 |-> 1],deliv |-> <<0, 0, 0, 0>>,prog |-> [c1 |-> <<[op |-> "req", v |-> 0], [op |-> "get", v |-> 0], [op |-> "req", v |-> 0]>>, c2 |-> <<[op |-> "get", v |-> 0], [op |-> "req", v |-> 0], [op |-> "get", v |-> 0]>>, p1 |-> <<[op |-> "emp", v |-> 1], [op |-> "chk", v |-> 0], [op |-> "emp", v |-> 2]>>, p2 |-> <<[op |-> "emp", v |-> 3], [op |-> "emp", v |-> 4], [op |-> "chk", v |-> 0]>>],mode |-> "clear",hist |-> [c1 |-> <<0>>, c2 |-> <<>>, p1 |-> <<>>, p2 |-> <<>>],pc |-> [c1 |-> "GetClaim", c2 |-> "GetClaim", p1 |-> "EmplCas", p2 |-> "Start"],stale |-> FALSE,husk |-> FALSE,obj |-> 0,claim |-> FALSE,state |-> 1]),
    ([reqs |-> 1,loc |-> [c1 |-> 0, c2 |-> 0, p1 |-> 0, p2 |-> 0],emplEp |-> <<1, 0, 0, 0>>,alive |-> TRUE,overwrote |-> FALSE,ip |-> [c1 |-> 2, c2 |-> 1, p1 |-> 1, p2 |-> 1],deliv |-> <<0, 0, 0, 0>>,prog |-> [c1 |-> <<[op |-> "req", v |-> 0], [op |-> "get", v |-> 0], [op |-> "req", v |-> 0]>>, c2 |-> <<[op |-> "get", v |-> 0], [op |-> "req", v |-> 0], [op |-> "get", v |-> 0]>>, p1 |-> <<[op |-> "emp", v |-> 1], [op |-> "chk", v |-> 0], [op |-> "emp", v |-> 2]>>, p2 |-> <<[op |-> "emp", v |-> 3], [op |-> "emp", v |-> 4], [op |-> "chk", v |-> 0]>>],mode |-> "clear",hist |-> [c1 |-> <<0>>, c2 |-> <<>>, p1 |-> <<>>, p2 |-> <<>>],pc |-> [c1 |-> "GetClaim", c2 |-> "GetClaim", p1 |-> "EmplObj", p2 |-> "Start"],stale |-> FALSE,husk |-> FALSE,obj |-> 0,claim |-> FALSE,state |-> 2]),
    ([reqs |-> 1,loc |-> [c1 |-> 0, c2 |-> 0, p1 |-> 0, p2 |-> 0],emplEp |-> <<1, 0, 0, 0>>,alive |-> TRUE,overwrote |-> FALSE,ip |-> [c1 |-> 2, c2 |-> 1, p1 |-> 1, p2 |-> 1],deliv |-> <<0, 0, 0, 0>>,prog |-> [c1 |-> <<[op |-> "req", v |-> 0], [op |-> "get", v |-> 0], [op |-> "req", v |-> 0]>>, c2 |-> <<[op |-> "get", v |-> 0], [op |-> "req", v |-> 0], [op |-> "get", v |-> 0]>>, p1 |-> <<[op |-> "emp", v |-> 1], [op |-> "chk", v |-> 0], [op |-> "emp", v |-> 2]>>, p2 |-> <<[op |-> "emp", v |-> 3], [op |-> "emp", v |-> 4], [op |-> "chk", v |-> 0]>>],mode |-> "clear",hist |-> [c1 |-> <<0>>, c2 |-> <<>>, p1 |-> <<>>, p2 |-> <<>>],pc |-> [c1 |-> "GetClaim", c2 |-> "GetClaim", p1 |-> "EmplSt", p2 |-> "Start"],stale |-> FALSE,husk |-> FALSE,obj |-> 1,claim |-> FALSE,state |-> 2]),
    ([reqs |-> 1,loc |-> [c1 |-> 0, c2 |-> 0, p1 |-> 0, p2 |-> 0],emplEp |-> <<1, 0, 0, 0>>,alive |-> TRUE,overwrote |-> FALSE,ip |-> [c1 |-> 2, c2 |-> 1, p1 |-> 2, p2 |-> 1],deliv |-> <<0, 0, 0, 0>>,prog |-> [c1 |-> <<[op |-> "req", v |-> 0], [op |-> "get", v |-> 0], [op |-> "req", v |-> 0]>>, c2 |-> <<[op |-> "get", v |-> 0], [op |-> "req", v |-> 0], [op |-> "get", v |-> 0]>>, p1 |-> <<[op |-> "emp", v |-> 1], [op |-> "chk", v |-> 0], [op |-> "emp", v |-> 2]>>, p2 |-> <<[op |-> "emp", v |-> 3], [op |-> "emp", v |-> 4], [op |-> "chk", v |-> 0]>>],mode |-> "clear",hist |-> [c1 |-> <<0>>, c2 |-> <<>>, p1 |-> <<1>>, p2 |-> <<>>],pc |-> [c1 |-> "GetClaim", c2 |-> "GetClaim", p1 |-> "ChkLd", p2 |-> "Start"],stale |-> FALSE,husk |-> FALSE,obj |-> 1,claim |-> FALSE,state |-> 3]),
    ([reqs |-> 1,loc |-> [c1 |-> 0, c2 |-> 0, p1 |-> 0, p2 |-> 0],emplEp |-> <<1, 0, 0, 0>>,alive |-> TRUE,overwrote |-> FALSE,ip |-> [c1 |-> 2, c2 |-> 1, p1 |-> 2, p2 |-> 1],deliv |-> <<0, 0, 0, 0>>,prog |-> [c1 |-> <<[op |-> "req", v |-> 0], [op |-> "get", v |-> 0], [op |-> "req", v |-> 0]>>, c2 |-> <<[op |-> "get", v |-> 0], [op |-> "req", v |-> 0], [op |-> "get", v |-> 0]>>, p1 |-> <<[op |-> "emp", v |-> 1], [op |-> "chk", v |-> 0], [op |-> "emp", v |-> 2]>>, p2 |-> <<[op |-> "emp", v |-> 3], [op |-> "emp", v |-> 4], [op |-> "chk", v |-> 0]>>],mode |-> "clear",hist |-> [c1 |-> <<0>>, c2 |-> <<>>, p1 |-> <<1>>, p2 |-> <<>>],pc |-> [c1 |-> "GetMove", c2 |-> "GetClaim", p1 |-> "ChkLd", p2 |-> "Start"],stale |-> FALSE,husk |-> FALSE,obj |-> 1,claim |-> FALSE,state |-> 3]),
    ([reqs |-> 1,loc |-> [c1 |-> 0, c2 |-> 0, p1 |-> 0, p2 |-> 0],emplEp |-> <<1, 0, 0, 0>>,alive |-> TRUE,overwrote |-> FALSE,ip |-> [c1 |-> 2, c2 |-> 1, p1 |-> 2, p2 |-> 1],deliv |-> <<0, 0, 0, 0>>,prog |-> [c1 |-> <<[op |-> "req", v |-> 0], [op |-> "get", v |-> 0], [op |-> "req", v |-> 0]>>, c2 |-> <<[op |-> "get", v |-> 0], [op |-> "req", v |-> 0], [op |-> "get", v |-> 0]>>, p1 |-> <<[op |-> "emp", v |-> 1], [op |-> "chk", v |-> 0], [op |-> "emp", v |-> 2]>>, p2 |-> <<[op |-> "emp", v |-> 3], [op |-> "emp", v |-> 4], [op |-> "chk", v |-> 0]>>],mode |-> "clear",hist |-> [c1 |-> <<0>>, c2 |-> <<>>, p1 |-> <<1>>, p2 |-> <<>>],pc |-> [c1 |-> "GetMove", c2 |-> "GetMove", p1 |-> "ChkLd", p2 |-> "Start"],stale |-> FALSE,husk |-> FALSE,obj |-> 1,claim |-> FALSE,state |-> 3])
    >>
----


=============================================================================

---- CONFIG MCAsyncReq_TTrace_1790042743 ----
CONSTANTS
    Threads = { "c1" , "c2" , "p1" , "p2" }
    Prog <- Prog_2x2
    Mode = "clear"
    Claim = FALSE

INVARIANT
    _inv

CHECK_DEADLOCK
    \* CHECK_DEADLOCK off because of PROPERTY or INVARIANT above.
    FALSE

INIT
    _init

NEXT
    _next

CONSTANT
    _TETrace <- _trace

ALIAS
    _expression
=============================================================================
\* Generated on Tue Sep 22 02:05:57 UTC 2026