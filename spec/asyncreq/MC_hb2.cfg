CONSTANTS
  Threads = {"c1", "c2", "p1", "p2"}
  Prog <- Prog_hb2
  Mode = "clear"
  Claim = TRUE
  Pub = FALSE
INIT HInit
NEXT HNext
CHECK_DEADLOCK FALSE
INVARIANTS OrdersComplete RaceFree PubOff TypeOK SlotExclusive AtMostOnce NoOverwrite StateDescribesSlot NoLeakAfterDestroy
