CONSTANTS
  Threads = {"c1", "c2", "p1"}
  Prog <- Prog_hb3
  Mode = "copy"
  Claim = TRUE
  Pub = FALSE
INIT HInit
NEXT HNext
CHECK_DEADLOCK FALSE
INVARIANTS OrdersComplete RaceFree PubOff TypeOK SlotExclusive AtMostOnce NoOverwrite StateDescribesSlot NoLeakAfterDestroy
