CONSTANTS
  Threads = {"c1", "p1", "p2"}
  Prog <- Prog_pub2
  Mode = "clear"
  Claim = TRUE
  Pub = TRUE
INIT HInit
NEXT HNext
CHECK_DEADLOCK FALSE
INVARIANTS OrdersComplete RaceFreeReq RaceFreeObj TypeOK SlotExclusive AtMostOnce NoOverwrite StateDescribesSlot NoLeakAfterDestroy
