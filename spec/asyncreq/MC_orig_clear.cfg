CONSTANTS
  Threads = {"c1", "c2", "p1", "p2"}
  Prog <- Prog_2x2
  Mode = "clear"
  Claim = FALSE
INIT Init
NEXT Next
CHECK_DEADLOCK FALSE
INVARIANTS TypeOK AtMostOnce DeliveredFresh EmplaceOnlyWhenRequested SlotExclusive NoOverwrite ResultsMatch StateDescribesSlot NoLeakAfterDestroy
