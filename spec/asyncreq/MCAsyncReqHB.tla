--------------------------- MODULE MCAsyncReqHB ---------------------------
EXTENDS AsyncReqHB
O(op, v) == [op |-> op, v |-> v]
\* single producer / single consumer (the primary intended use): up to four rounds, the slot is reused; the
\* consumer polls (a getUpdate() that fails), the producer polls (updateRequested, failing tryEmplaceUpdate)
Prog_hb1 == [c1 |-> <<O("req", 0), O("get", 0), O("get", 0), O("req", 0), O("get", 0), O("req", 0), O("get", 0), O("req", 0), O("get", 0)>>,
             p1 |-> <<O("chk", 0), O("emp", 1), O("emp", 2), O("chk", 0), O("emp", 3), O("emp", 4), O("emp", 5)>>]
\* 2 consumers x 2 producers, every operation on both sides, two rounds possible: the request, the
\* emplace and the get of one round can be done by three different threads, and the next round by others
Prog_hb2 == [c1 |-> <<O("req", 0), O("get", 0), O("req", 0)>>,
             c2 |-> <<O("get", 0), O("req", 0), O("get", 0)>>,
             p1 |-> <<O("emp", 1), O("chk", 0), O("emp", 2)>>,
             p2 |-> <<O("emp", 3), O("emp", 4)>>]
\* 2 consumers x 1 producer: one consumer takes the value, the other one issues the next request
\* (the kNone store of getUpdate() is then the only edge from the move to the next emplace)
Prog_hb3 == [c1 |-> <<O("req", 0), O("get", 0), O("get", 0), O("get", 0)>>,
             c2 |-> <<O("req", 0), O("req", 0), O("get", 0)>>,
             p1 |-> <<O("emp", 1), O("emp", 2), O("emp", 3), O("chk", 0)>>]
\* request data (Pub), single producer: it reads the data after updateRequested() and inside tryEmplaceUpdate()
Prog_pub1 == [c1 |-> <<O("req", 0), O("get", 0), O("req", 0), O("get", 0), O("get", 0), O("req", 0), O("get", 0)>>,
              p1 |-> <<O("chk", 0), O("emp", 1), O("chk", 0), O("emp", 2), O("chk", 0), O("emp", 3)>>]
\* request data (Pub): one consumer, two producers (they read the data inside tryEmplaceUpdate() only), three rounds possible
Prog_pub2 == [c1 |-> <<O("req", 0), O("get", 0), O("req", 0), O("get", 0), O("req", 0), O("get", 0)>>,
             p1 |-> <<O("chk", 0), O("emp", 1), O("chk", 0), O("emp", 2)>>,
             p2 |-> <<O("emp", 3), O("chk", 0), O("emp", 4)>>]
==========================================================================
