---------------------------- MODULE AsyncReqHB ----------------------------
(* C10 for dispenso::AsyncRequest<T>: AsyncReq.tla composed with the happens-     *)
(* before model (spec/lib/MemOrder.tla; async_request.h has no fence).  Memory    *)
(* orders come from OrdersAsyncReq.tla (bin/extract_orders.py, working tree).     *)
(*                                                                                *)
(* Atomic location: state_.                                                       *)
(* Non-atomic locations:                                                          *)
(*   obj   obj_ (the optional<T>): constructed by the owning thread ("main"),     *)
(*         written by tryEmplaceUpdate() between its CAS and its kReady store     *)
(*         (site EmplObj), read and reset by getUpdate() between its CAS and its  *)
(*         kNone store (site GetMove; with a trivially movable T under            *)
(*         std::optional - mode "copy" - the move only reads the source),         *)
(*         destroyed by the owning thread after it joined the users.              *)
(*   req   only when Pub = TRUE: a ghost cell for user data that travels WITH the *)
(*         request (what the consumer wants, e.g. parameters of the update).  The *)
(*         header does not document this use; it is what the release half of      *)
(*         requestUpdate()'s CAS and the acquire of updateRequested() exist for   *)
(*         (nothing inside the class needs them).  The single consumer writes the *)
(*         cell before a requestUpdate() when it knows that no request is         *)
(*         outstanding (first request, or its latest request was answered by a    *)
(*         getUpdate() that returned a value); a producer reads it when its       *)
(*         tryEmplaceUpdate() CAS succeeded and - only if it is the single        *)
(*         producer - when updateRequested() returned true (with several          *)
(*         producers that read is a race of the USER protocol whatever the        *)
(*         orders: another producer can fulfil the request, and nothing orders    *)
(*         the reader before the consumer's next write).  Checked by a separate   *)
(*         invariant (RaceFreeReq) in separate configurations.                    *)
(* Contract (header): "safe to use from multiple producers and consumers", so any *)
(* number of threads per role; construction and destruction by one owner that     *)
(* creates and joins the user threads.                                            *)
EXTENDS AsyncReq, MemOrder, OrdersAsyncReq

CONSTANT Pub        \* TRUE: model the ghost request data (see above)

VARIABLE hb
hvars == <<vars, hb>>

HT == Threads \cup {"main"}
St == <<"state", 0>>
Obj == <<"obj", 0>>
ReqD == <<"req", 0>>
ALocs == {St}
NLocs == {Obj, ReqD}

OS(site, t) == Ord[site][1][2]     \* every site occurs once in async_request.h
OF(site, t) == Ord[site][1][3]     \* CAS failure order
\* EmplObj / GetMove are the non-atomic accesses themselves (no atomic operation follows the hook)
NASites == {"EmplObj", "GetMove"}
CasSites == {"ReqCas", "EmplCas", "GetClaim"}
OrdersComplete ==
  /\ \A s \in DOMAIN Ord : Len(Ord[s]) = 1
  /\ \A s \in DOMAIN Ord \ NASites : Ord[s][1][1] # "none"
  /\ \A s \in NASites : Ord[s][1][1] = "none"
  \* the kind of operation the overlay assumes at every site
  /\ \A s \in CasSites : Ord[s][1][1] \in {"compare_exchange_strong", "compare_exchange_weak"}
  /\ Ord["ChkLd"][1][1] = "load"
  /\ Ord["EmplSt"][1][1] = "store" /\ Ord["GetSt"][1][1] = "store"

\* the object is constructed by the owner before it creates the threads
HInit == Init /\ hb = NAWrite(HT, HBInit(HT, ALocs, NLocs), "main", Obj)

\* a compare_exchange: read-modify-write with the success order, or a load with the failure order
Cas(h, t, site, ok) == IF ok THEN ARmw(HT, h, t, St, OS(site, t)) ELSE ALoad(HT, h, t, St, OF(site, t))

\* ---- ghost request data (Pub) ----
Consumers == {u \in Threads : \E i \in 1 .. Len(prog[u]) : prog[u][i].op \in {"req", "get"}}
\* t, about to perform op number k, knows that no request is outstanding
KnowsIdle(t, k) ==
  LET rs == {j \in 1 .. (k - 1) : prog[t][j].op = "req"} IN
  \/ rs = {}
  \/ LET j == CHOOSE j \in rs : \A j2 \in rs : j2 <= j
     IN \E i \in (j + 1) .. (k - 1) : prog[t][i].op = "get" /\ hist[t][i] # 0
Producers == {u \in Threads : \E i \in 1 .. Len(prog[u]) : prog[u][i].op \in {"chk", "emp"}}
WritesReq(t) == Pub /\ Consumers = {t} /\ KnowsIdle(t, ip[t])
PubW(h, t) == IF WritesReq(t) THEN NAWrite(HT, h, t, ReqD) ELSE h
PubR(h, t, ok) == IF Pub /\ ok THEN NARead(HT, h, t, ReqD) ELSE h

\* what std::move(obj_) does to the source
MoveOut(h, t) == IF mode = "copy" THEN NARead(HT, h, t, Obj) ELSE NAWrite(HT, NARead(HT, h, t, Obj), t, Obj)

HStep(t) ==
  \/ Start(t) /\ hb' = HBSpawn(HT, hb, "main", t)
  \/ ReqCas(t) /\ hb' = Cas(PubW(hb, t), t, "ReqCas", state = kNone)
  \/ ChkLd(t) /\ hb' = PubR(ALoad(HT, hb, t, St, OS("ChkLd", t)), t, state = kNeedsUpdate /\ Producers = {t})
  \/ EmplCas(t) /\ hb' = PubR(Cas(hb, t, "EmplCas", state = kNeedsUpdate), t, state = kNeedsUpdate)
  \/ EmplObj(t) /\ hb' = NAWrite(HT, hb, t, Obj)
  \/ EmplSt(t) /\ hb' = AStore(HT, hb, t, St, OS("EmplSt", t))
  \/ GetClaim(t) /\ hb' = (IF claim THEN Cas(hb, t, "GetClaim", state = kReady)
                                    ELSE ALoad(HT, hb, t, St, OS("GetClaim", t)))
  \/ GetMove(t) /\ hb' = MoveOut(hb, t)
  \/ GetSt(t) /\ hb' = AStore(HT, hb, t, St, OS("GetSt", t))

RECURSIVE JoinAll(_, _)
JoinAll(h, ts) == IF ts = {} THEN h ELSE LET u == CHOOSE u \in ts : TRUE IN JoinAll(HBJoin(HT, h, "main", u), ts \ {u})

\* the owner joins the users, then destroys the object (~optional<T>)
HNext ==
  \/ \E t \in Threads : HStep(t)
  \/ Destroy /\ hb' = NAWrite(HT, JoinAll(hb, Threads), "main", Obj)

HSpec == HInit /\ [][HNext]_hvars

RaceFreeObj == Obj \notin hb.race
RaceFreeReq == ReqD \notin hb.race
RaceFree == NoRace(hb)

\* sanity of the overlay: the ghost cell is used only when asked for
PubOff == Pub \/ (hb.lw[ReqD] = <<"", 0>>)
==========================================================================
