CONSTANTS
  Threads = {}
  Prog = 0
  Mode = "clear"
  Claim = TRUE
SPECIFICATION TraceSpec
CHECK_DEADLOCK FALSE
POSTCONDITION TraceAccepted
INVARIANTS AtMostOnce DeliveredFresh EmplaceOnlyWhenRequested SlotExclusive NoOverwrite ResultsMatch StateDescribesSlot NoLeakAfterDestroy
