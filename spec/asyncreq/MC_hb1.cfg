CONSTANTS
  Threads = {"c1", "p1"}
  Prog <- Prog_hb1
  Mode = "clear"
  Claim = TRUE
  Pub = FALSE
INIT HInit
NEXT HNext
CHECK_DEADLOCK FALSE
INVARIANTS OrdersComplete RaceFree PubOff TypeOK SlotExclusive AtMostOnce NoOverwrite StateDescribesSlot NoLeakAfterDestroy
