--------------------------- MODULE AsyncReqTrace ---------------------------
(* Trace validation for AsyncReq.tla: every line of the ndjson trace recorded    *)
(* from the real AsyncRequest under the controlled scheduler must be explained    *)
(* by the specification action of the same name taken by the same thread; the     *)
(* projected state (state_, the object in obj_, number of live payload objects,   *)
(* lifetime errors) and the value returned to the caller must equal the           *)
(* specification's.  All invariants of AsyncReq.tla are evaluated in every state  *)
(* of the validated behaviour.                                                    *)
EXTENDS AsyncReq, Json, IOUtils

TraceLog == ndJsonDeserialize(IOEnv.TRACE)

VARIABLE l   \* next line to consume

tvars == <<vars, l>>

TraceInit ==
  /\ l = 2
  /\ TraceLog[1].e = "Reset"
  /\ InitWith(TraceLog[1].prog, TraceLog[1].mode, TraceLog[1].claim)

ResetTo(p, m, c) ==
  /\ prog' = p /\ mode' = m /\ claim' = c
  /\ state' = kNone /\ obj' = 0 /\ alive' = TRUE
  /\ pc' = [t \in DOMAIN p |-> "Start"]
  /\ ip' = [t \in DOMAIN p |-> 1]
  /\ loc' = [t \in DOMAIN p |-> 0]
  /\ hist' = [t \in DOMAIN p |-> <<>>]
  /\ reqs' = 0
  /\ emplEp' = [v \in ValsOf(p) |-> 0]
  /\ deliv' = [v \in ValsOf(p) |-> 0]
  /\ stale' = FALSE /\ husk' = FALSE /\ overwrote' = FALSE

Dispatch(e, t) ==
  CASE e = "Start"    -> Start(t)
    [] e = "ReqCas"   -> ReqCas(t)
    [] e = "ChkLd"    -> ChkLd(t)
    [] e = "EmplCas"  -> EmplCas(t)
    [] e = "EmplObj"  -> EmplObj(t)
    [] e = "EmplSt"   -> EmplSt(t)
    [] e = "GetClaim" -> GetClaim(t)
    [] e = "GetMove"  -> GetMove(t)
    [] e = "GetSt"    -> GetSt(t)
    [] OTHER          -> FALSE

ProjOK(ev) ==
  /\ state' = ev.s.state
  /\ obj' = ev.s.obj
  /\ LiveCountOf(obj', loc') = ev.s.live
  /\ ev.s.errs = 0

TraceStep ==
  /\ l <= Len(TraceLog)
  /\ LET ev == TraceLog[l] IN
       \/ /\ ev.e = "Reset"
          /\ ResetTo(ev.prog, ev.mode, ev.claim)
       \/ /\ ev.e = "Destroy"
          /\ Destroy
          /\ ev.live = 0
          /\ ev.errs = 0
       \/ /\ ev.e \notin {"Reset", "Destroy"}
          /\ ev.t \in T
          /\ Dispatch(ev.e, ev.t)
          /\ ProjOK(ev)
          /\ ev.r = (IF ip'[ev.t] > ip[ev.t] THEN <<hist'[ev.t][Len(hist'[ev.t])]>> ELSE <<>>)
  /\ l' = l + 1

TraceSpec == TraceInit /\ [][TraceStep]_tvars

\* One state per consumed line (TraceInit consumes line 1).
TraceAccepted ==
  LET d == TLCGet("stats").diameter IN
  IF d = Len(TraceLog) THEN TRUE
  ELSE /\ PrintT(<<"TRACE_REJECTED_AT_LINE", d + 1, "OF", Len(TraceLog)>>)
       /\ PrintT(<<"OFFENDING", TraceLog[d + 1]>>)
       /\ FALSE
==========================================================================
