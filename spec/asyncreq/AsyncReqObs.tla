---------------------------- MODULE AsyncReqObs ----------------------------
(* E5 record validator for C24 (AsyncRequest delivers each update at most once).          *)
(* Each line is one free-running round of drv_asyncreq --stress: nc consumers and np       *)
(* producers (1..3 each) ran short programs on one fresh AsyncRequest, truly concurrently, *)
(* with the hook points inert - so also the interleavings INSIDE a step of AsyncReq.tla    *)
(* (between two hook points) occur.  The record holds what the callers saw, per thread in  *)
(* program order, plus cheap final state taken when every thread was done:                 *)
(*   {"e":"Round","round":r,"mode":m,"nc":..,"np":..,"stuck":0,                           *)
(*    "c":[[x,...] per consumer]    x < 0: -x consecutive requestUpdate() calls (calls of  *)
(*                                  getUpdate() that returned nothing are not listed);     *)
(*                                  x > 0: getUpdate() returned the value x; x = 0: it     *)
(*                                  returned an engaged result holding a moved-from object *)
(*    "p":[[y,...] per producer]    y > 0: tryEmplaceUpdate(y) returned true; y = 0:       *)
(*                                  updateRequested() returned true; y < 0: -y consecutive *)
(*                                  calls (either kind) that returned false; producer i    *)
(*                                  uses y = 1000*i + 1, 1000*i + 2, ... in program order  *)
(*    "state": state_ at quiescence, "drain": what one more getUpdate() by the main thread *)
(*    returned, in the form of a consumer history (<<>>, <<v>> or <<0>>),                  *)
(*    "live": payload objects alive after the AsyncRequest and all results were destroyed} *)
(* A round that did not end within 10 s is recorded as {"e":"Round",..,"stuck":1}.         *)
(*                                                                                         *)
(* Nothing is assumed about the relative order of operations of different threads.  Every  *)
(* conjunct follows from AsyncReq.tla's protocol on state_ alone - state_ is one atomic    *)
(* word, all accesses to it are totally ordered (its modification order), whatever happens *)
(* between the hook points - so no execution of a correct implementation is rejected:      *)
(*   (P) state_ cycles  kNone -req-> kNeedsUpdate -emplace CAS-> kUpdating -store->        *)
(*       kReady -get CAS-> kUpdating -store-> kNone; each arrow is taken by exactly one    *)
(*       call: the one whose CAS succeeded; between a successful CAS to kUpdating and that *)
(*       call's store no other call changes state_ or touches obj_ (SlotExclusive).        *)
EXTENDS Integers, Sequences, FiniteSets, TLC, Json, IOUtils

ObsLog == ndJsonDeserialize(IOEnv.TRACE)

VARIABLE l
ObsInit == l = 1
ObsNext == l <= Len(ObsLog) /\ l' = l + 1
ObsSpec == ObsInit /\ [][ObsNext]_l

Prod(v) == v \div 1000
Increasing(q) == \A j \in 1 .. Len(q) - 1 : q[j] < q[j + 1]
Range(q) == {q[j] : j \in 1 .. Len(q)}
IsGot(x) == x >= 0                     \* a getUpdate() that returned something
IsPos(x) == x > 0
Sum3(f(_), n) == f(1) + (IF n > 1 THEN f(2) ELSE 0) + (IF n > 2 THEN f(3) ELSE 0)
Cat3(f(_), n) == f(1) \o (IF n > 1 THEN f(2) ELSE <<>>) \o (IF n > 2 THEN f(3) ELSE <<>>)
SumNeg(q) == LET s[j \in 0 .. Len(q)] == IF j = 0 THEN 0 ELSE s[j - 1] + (IF q[j] < 0 THEN -q[j] ELSE 0)
             IN  s[Len(q)]

\* per consumer: what its getUpdate() calls returned, in program order; the drain is after everything
GotSeq(rec, i) == SelectSeq(rec.c[i], IsGot)
NumReq(rec) == LET n(i) == SumNeg(rec.c[i]) IN Sum3(n, Len(rec.c))
AllGot(rec) == LET g(i) == GotSeq(rec, i) IN Cat3(g, Len(rec.c)) \o rec.drain
\* per producer: the values whose tryEmplaceUpdate returned true, in program order
EmpSeq(rec, i) == SelectSeq(rec.p[i], IsPos)
AllEmp(rec) == LET e(i) == EmpSeq(rec, i) IN Cat3(e, Len(rec.p))

\* the driver's side of the bargain (not a property of the library): roles, distinct increasing values,
\* maximal runs
WellFormed(rec) ==
  /\ Len(rec.c) = rec.nc /\ Len(rec.p) = rec.np /\ rec.nc \in 1 .. 3 /\ rec.np \in 1 .. 3
  /\ Len(rec.drain) <= 1 /\ \A j \in 1 .. Len(rec.drain) : rec.drain[j] >= 0
  /\ \A i \in 1 .. Len(rec.c) : \A j \in 1 .. Len(rec.c[i]) - 1 : rec.c[i][j] >= 0 \/ rec.c[i][j + 1] >= 0
  /\ \A i \in 1 .. Len(rec.p) :
       /\ \A j \in 1 .. Len(rec.p[i]) : rec.p[i][j] > 0 => Prod(rec.p[i][j]) = i
       /\ \A j \in 1 .. Len(rec.p[i]) - 1 : rec.p[i][j] >= 0 \/ rec.p[i][j + 1] >= 0
       /\ Increasing(EmpSeq(rec, i))

\* DeliveredFresh: getUpdate() returns only a value that a tryEmplaceUpdate() that returned true put there
\* (never a moved-from object, never a value whose emplace was refused).  By (P) the slot is read only by
\* the call that took kReady -> kUpdating, and kReady is only stored by an emplace that returns true.
Fresh(got, emp) == Range(got) \subseteq Range(emp)

\* AtMostOnce (the property): no value is returned by two getUpdate() calls (the drain included).  By (P)
\* each kReady is left by exactly one successful CAS, and the next kReady needs a new successful emplace,
\* whose value differs.
AtMostOnce(got) == Cardinality(Range(got)) = Len(got)

\* NoOverwrite at quiescence: a value whose emplace returned true is never lost.  By (P) kReady is left
\* only by a getUpdate() that returns the value; if nobody did, the slot is still kReady when all threads
\* are done and the drain returns it.
NotLost(got, emp) == Range(emp) \subseteq Range(got)

\* EmplaceOnlyWhenRequested: every successful emplace consumes one kNone -> kNeedsUpdate transition, each of
\* which is made by a different requestUpdate() call.
Requested(rec, emp) == Len(emp) <= NumReq(rec)

\* Hand-over order: producer q's successful emplaces are ordered by q's program order, and by (P) the
\* getUpdate() that takes v claims the slot before any later emplace can succeed; so a consumer that receives
\* two values of q receives them in increasing order, and the drain (after everything) is q's largest.
Ordered(rec) ==
  \A i \in 1 .. Len(rec.c) : \A q \in 1 .. Len(rec.p) :
    Increasing(SelectSeq(GotSeq(rec, i) \o rec.drain, LAMBDA v : v > 0 /\ Prod(v) = q))

\* One producer: only tryEmplaceUpdate() leaves kNeedsUpdate, so once the only producer has seen
\* updateRequested() = true (0), its next call still finds kNeedsUpdate: it does not return false.
SoleProducer(rec) ==
  Len(rec.p) = 1 => \A j \in 1 .. Len(rec.p[1]) - 1 : rec.p[1][j] = 0 => rec.p[1][j + 1] >= 0

\* One consumer: its getUpdate() that returned a value left kNone behind (its own store), and only
\* requestUpdate() - which only this thread calls - leaves kNone: every delivery is preceded, after the
\* previous delivery, by a request of the same thread.
SoleConsumer(rec) ==
  Len(rec.c) = 1 => \A j \in 1 .. Len(rec.c[1]) : rec.c[1][j] >= 0 => (j > 1 /\ rec.c[1][j - 1] < 0)

\* StateDescribesSlot / NoLeakAfterDestroy when no call is in flight: state_ is not kUpdating (2), the drain
\* finds a value exactly if state_ is kReady (3), and destroying the object leaves no payload behind.
Quiescent(rec) ==
  /\ rec.state \in {0, 1, 3}
  /\ (rec.drain # <<>>) <=> (rec.state = 3)
  /\ rec.live = 0

RecOK(rec) ==
  /\ rec.e = "Round"
  /\ rec.stuck = 0          \* all operations are wait-free: a round always ends
  /\ WellFormed(rec)
  /\ LET got == AllGot(rec)
         emp == AllEmp(rec)
     IN  /\ Fresh(got, emp)
         /\ AtMostOnce(got)
         /\ NotLost(got, emp)
         /\ Requested(rec, emp)
  /\ Ordered(rec)
  /\ SoleProducer(rec)
  /\ SoleConsumer(rec)
  /\ Quiescent(rec)

RecordsOK == l > Len(ObsLog) \/ RecOK(ObsLog[l])

ObsAccepted ==
  LET d == TLCGet("stats").diameter IN
  IF d = Len(ObsLog) + 1 THEN TRUE
  ELSE /\ PrintT(<<"TRACE_REJECTED_AT_LINE", d, "OF", Len(ObsLog)>>)
       /\ FALSE
=============================================================================
