----------------------------- MODULE AsyncReq -----------------------------
(* Implementation-level specification of dispenso::AsyncRequest<T>               *)
(* (dispenso/async_request.h).  One action per access to the shared words; the    *)
(* action name is the DISPENSO_VERIF_POINT site placed immediately before it:     *)
(*                                                                                *)
(*   requestUpdate()     ReqCas    CAS state kNone -> kNeedsUpdate                *)
(*   updateRequested()   ChkLd     load state                                     *)
(*   tryEmplaceUpdate()  EmplCas   CAS state kNeedsUpdate -> kUpdating            *)
(*                       EmplObj   obj_.emplace(...)        (non-atomic, shared)  *)
(*                       EmplSt    store state = kReady                           *)
(*   getUpdate()         GetClaim  claim == TRUE : CAS state kReady -> kUpdating  *)
(*                                 claim == FALSE: load state == kReady           *)
(*                                                 (the code as originally found) *)
(*                       GetMove   auto obj = std::move(obj_) (non-atomic, shared)*)
(*                       GetSt     store state = kNone                            *)
(*                                                                                *)
(* obj_ is not atomic; it is protected only by the state protocol.  Its two       *)
(* accesses therefore get their own steps (EmplObj, GetMove) so that every        *)
(* placement of them relative to the other threads' accesses is explored - the    *)
(* very thing the property is about.                                              *)
(*                                                                                *)
(* Values are distinct positive integers.  obj = 0: no object in the slot;        *)
(* obj = v > 0: a live object with value v; obj = -1: a live, moved-from object.  *)
(* What `std::move(obj_)` leaves behind depends on the optional type (`mode`):    *)
(*   "clear"  C++14 build, detail::OpResult: the source is destroyed/disengaged   *)
(*   "husk"   C++17 build, std::optional, T zeroes its source on move: the slot   *)
(*            stays engaged with a moved-from object                              *)
(*   "copy"   C++17 build, std::optional, trivially movable T (int, PODs): the    *)
(*            slot stays engaged with the same value                              *)
(* Threads have roles, as the documentation describes them: consumers call        *)
(* requestUpdate/getUpdate ("req"/"get"), producers call updateRequested/         *)
(* tryEmplaceUpdate ("chk"/"emp"); any number of each ("safe to use from multiple *)
(* producers and consumers").                                                     *)
EXTENDS Integers, Sequences, FiniteSets, TLC

CONSTANTS Threads,  \* set of thread names
          Prog,     \* [Threads -> Seq([op, v])]
          Mode,     \* "clear" | "husk" | "copy"
          Claim     \* TRUE: getUpdate claims the slot with a CAS (code with the fix)

VARIABLES
  prog, mode, claim,   \* configuration (variables so that a trace can re-initialise them)
  state,               \* state_: 0 kNone, 1 kNeedsUpdate, 2 kUpdating, 3 kReady
  obj,                 \* obj_ (see above)
  alive,               \* the AsyncRequest object has not been destroyed
  pc, ip, loc,         \* per thread: program counter, index of current op, locals
  hist,                \* ghost: per thread, results of completed ops
  reqs,                \* ghost: number of requests that took effect (kNone -> kNeedsUpdate)
  emplEp,              \* ghost: value -> reqs at its successful EmplCas (0 = not emplaced)
  deliv,               \* ghost: value -> number of getUpdate() calls that took it
  stale,               \* ghost: a value was delivered although a later request had taken effect
  husk,                \* ghost: getUpdate() delivered an engaged result holding a moved-from object
  overwrote            \* ghost: an emplaced, never delivered value was overwritten

shared == <<state, obj, alive>>
ghost  == <<hist, reqs, emplEp, deliv, stale, husk, overwrote>>
conf   == <<prog, mode, claim>>
vars   == <<prog, mode, claim, state, obj, alive, pc, ip, loc, hist, reqs, emplEp, deliv, stale,
           husk, overwrote>>

kNone == 0
kNeedsUpdate == 1
kUpdating == 2
kReady == 3

ValsOf(p) == UNION {{p[t][i].v : i \in {j \in 1 .. Len(p[t]) : p[t][j].op = "emp"}} : t \in DOMAIN p}

FirstPcOf(o) ==
  CASE o.op = "req" -> "ReqCas"
    [] o.op = "chk" -> "ChkLd"
    [] o.op = "emp" -> "EmplCas"
    [] o.op = "get" -> "GetClaim"

FirstPc(t, i) == IF i > Len(prog[t]) THEN "Done" ELSE FirstPcOf(prog[t][i])
Op(t) == prog[t][ip[t]]

InitWith(p, m, c) ==
  /\ prog = p /\ mode = m /\ claim = c
  /\ state = kNone /\ obj = 0 /\ alive = TRUE
  /\ pc = [t \in DOMAIN p |-> "Start"]
  /\ ip = [t \in DOMAIN p |-> 1]
  /\ loc = [t \in DOMAIN p |-> 0]          \* `obj` local of getUpdate(): what was moved out
  /\ hist = [t \in DOMAIN p |-> <<>>]
  /\ reqs = 0
  /\ emplEp = [v \in ValsOf(p) |-> 0]
  /\ deliv = [v \in ValsOf(p) |-> 0]
  /\ stale = FALSE /\ husk = FALSE /\ overwrote = FALSE

Init == InitWith(Prog, Mode, Claim)

T == DOMAIN prog
Vals == DOMAIN emplEp

Goto(t, l) == pc' = [pc EXCEPT ![t] = l]

\* complete the current op of t with result r
Finish(t, r) ==
  /\ hist' = [hist EXCEPT ![t] = Append(@, r)]
  /\ ip' = [ip EXCEPT ![t] = @ + 1]
  /\ Goto(t, FirstPc(t, ip[t] + 1))

Start(t) ==
  /\ pc[t] = "Start"
  /\ Goto(t, FirstPc(t, 1))
  /\ UNCHANGED <<conf, shared, ip, loc, ghost>>

\* ---------------------------------------------------------------------- requestUpdate()
ReqCas(t) ==
  /\ pc[t] = "ReqCas"
  /\ (IF state = kNone
        THEN state' = kNeedsUpdate /\ reqs' = reqs + 1
        ELSE UNCHANGED <<state, reqs>>)
  /\ Finish(t, 0)
  /\ UNCHANGED <<conf, obj, alive, loc, emplEp, deliv, stale, husk, overwrote>>

\* -------------------------------------------------------------------- updateRequested()
ChkLd(t) ==
  /\ pc[t] = "ChkLd"
  /\ Finish(t, IF state = kNeedsUpdate THEN 1 ELSE 0)
  /\ UNCHANGED <<conf, shared, loc, reqs, emplEp, deliv, stale, husk, overwrote>>

\* ------------------------------------------------------------------- tryEmplaceUpdate()
EmplCas(t) ==
  /\ pc[t] = "EmplCas"
  /\ (IF state = kNeedsUpdate
        THEN /\ state' = kUpdating
             /\ emplEp' = [emplEp EXCEPT ![Op(t).v] = reqs]
             /\ Goto(t, "EmplObj")
             /\ UNCHANGED <<ip, hist>>
        ELSE /\ Finish(t, 0)
             /\ UNCHANGED <<state, emplEp>>)
  /\ UNCHANGED <<conf, obj, alive, loc, reqs, deliv, stale, husk, overwrote>>

EmplObj(t) ==
  /\ pc[t] = "EmplObj"
  /\ obj' = Op(t).v                 \* emplace destroys whatever object the slot held
  /\ overwrote' = (overwrote \/ (obj > 0 /\ deliv[obj] = 0))
  /\ Goto(t, "EmplSt")
  /\ UNCHANGED <<conf, state, alive, ip, loc, hist, reqs, emplEp, deliv, stale, husk>>

EmplSt(t) ==
  /\ pc[t] = "EmplSt"
  /\ state' = kReady
  /\ Finish(t, 1)
  /\ UNCHANGED <<conf, obj, alive, loc, reqs, emplEp, deliv, stale, husk, overwrote>>

\* --------------------------------------------------------------------------- getUpdate()
GetClaim(t) ==
  /\ pc[t] = "GetClaim"
  /\ (IF state = kReady
        THEN /\ (IF claim THEN state' = kUpdating ELSE UNCHANGED state)
             /\ Goto(t, "GetMove")
             /\ UNCHANGED <<ip, hist>>
        ELSE /\ Finish(t, 0)
             /\ UNCHANGED state)
  /\ UNCHANGED <<conf, obj, alive, loc, reqs, emplEp, deliv, stale, husk, overwrote>>

GetMove(t) ==
  /\ pc[t] = "GetMove"
  /\ loc' = [loc EXCEPT ![t] = obj]
  /\ obj' = (CASE mode = "clear" -> 0
               [] mode = "husk"  -> (IF obj = 0 THEN 0 ELSE -1)
               [] mode = "copy"  -> obj)
  /\ (IF obj > 0
        THEN /\ deliv' = [deliv EXCEPT ![obj] = @ + 1]
             /\ stale' = (stale \/ emplEp[obj] # reqs)
        ELSE UNCHANGED <<deliv, stale>>)
  /\ husk' = (husk \/ obj = -1)
  /\ Goto(t, "GetSt")
  /\ UNCHANGED <<conf, state, alive, ip, hist, reqs, emplEp, overwrote>>

GetSt(t) ==
  /\ pc[t] = "GetSt"
  /\ state' = kNone
  /\ Finish(t, loc[t])
  /\ loc' = [loc EXCEPT ![t] = 0]   \* the returned optional is destroyed by the caller
  /\ UNCHANGED <<conf, obj, alive, reqs, emplEp, deliv, stale, husk, overwrote>>

\* ---------------------------------------------------------------------------- destructor
AllDone == \A t \in T : pc[t] = "Done"

Destroy ==
  /\ alive /\ AllDone
  /\ alive' = FALSE
  /\ obj' = 0
  /\ UNCHANGED <<conf, state, pc, ip, loc, ghost>>

Next ==
  \/ \E t \in Threads :
        \/ Start(t)
        \/ ReqCas(t) \/ ChkLd(t)
        \/ EmplCas(t) \/ EmplObj(t) \/ EmplSt(t)
        \/ GetClaim(t) \/ GetMove(t) \/ GetSt(t)
  \/ Destroy

Spec == Init /\ [][Next]_vars

\* The same relation with the threads taken from the configuration held in `prog`: used to check
\* several configurations (several initial states) in one TLC run.
NextDyn ==
  \/ \E t \in DOMAIN prog :
        \/ Start(t)
        \/ ReqCas(t) \/ ChkLd(t)
        \/ EmplCas(t) \/ EmplObj(t) \/ EmplSt(t)
        \/ GetClaim(t) \/ GetMove(t) \/ GetSt(t)
  \/ Destroy

\* ============================================================================ properties
\* number of live payload objects: the slot plus the locals of consumers inside getUpdate()
LiveCountOf(o, l) == (IF o # 0 THEN 1 ELSE 0) + Cardinality({t \in DOMAIN l : l[t] # 0})
LiveCount == LiveCountOf(obj, loc)

Holders == {t \in T : pc[t] \in {"EmplObj", "EmplSt", "GetMove", "GetSt"}}

\* (C24) each emplaced value is returned by at most one getUpdate()
AtMostOnce == \A v \in Vals : deliv[v] <= 1
\* (C24) getUpdate() returns a value only if a tryEmplaceUpdate() succeeded after the latest
\* request: the value taken was emplaced for the request that is the latest one at that moment,
\* and what is returned is a value (never an engaged optional around a moved-from object)
DeliveredFresh == ~stale /\ ~husk
\* (C24) tryEmplaceUpdate() succeeds only while an update is requested and not yet fulfilled:
\* every success is for a request of its own (no request is fulfilled twice, none is anticipated)
EmplaceOnlyWhenRequested ==
  /\ \A v \in Vals : emplEp[v] <= reqs
  /\ \A v \in Vals : \A w \in Vals : (v # w /\ emplEp[v] > 0) => emplEp[v] # emplEp[w]
\* the mechanism: the non-atomic slot is accessed by at most one thread at a time
SlotExclusive == Cardinality(Holders) <= 1
\* an emplaced value is never overwritten before it was delivered
NoOverwrite == ~overwrote
\* what getUpdate() returned to the callers is what the moves took
ResultsMatch ==
  \A v \in Vals :
    Cardinality(UNION {{<<t, i>> : i \in {j \in 1 .. Len(hist[t]) : prog[t][j].op = "get" /\ hist[t][j] = v}}
                       : t \in T})
      + Cardinality({t \in T : loc[t] = v}) = deliv[v]
\* the state word describes the slot
StateDescribesSlot ==
  /\ (state = kReady /\ Holders = {} /\ alive) => (obj > 0 /\ deliv[obj] = 0)
  /\ (state \in {kNone, kNeedsUpdate} /\ mode = "clear" /\ alive) => obj = 0
\* (C11) payload lifetime: after the destructor nothing is left
NoLeakAfterDestroy == ~alive => LiveCount = 0

TypeOK ==
  /\ state \in 0 .. 3
  /\ obj \in Vals \cup {0, -1}
  /\ \A t \in T : ip[t] \in 1 .. (Len(prog[t]) + 1) /\ loc[t] \in Vals \cup {0, -1}
==========================================================================
