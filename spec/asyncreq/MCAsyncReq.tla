---------------------------- MODULE MCAsyncReq ----------------------------
EXTENDS AsyncReq
O(op, v) == [op |-> op, v |-> v]
\* cover configuration: two consumers, two producers, every operation, every race
Prog_cover == [c1 |-> <<O("req", 0), O("get", 0)>>, c2 |-> <<O("get", 0)>>,
               p1 |-> <<O("emp", 1)>>,              p2 |-> <<O("chk", 0), O("emp", 2)>>]
\* single producer / single consumer (the primary intended use), two full rounds
Prog_1x1 == [c1 |-> <<O("req", 0), O("get", 0), O("req", 0), O("get", 0)>>,
             p1 |-> <<O("chk", 0), O("emp", 1), O("emp", 2), O("emp", 3)>>]
\* 2 consumers x 2 producers, 3 ops each
Prog_2x2 == [c1 |-> <<O("req", 0), O("get", 0), O("req", 0)>>,
             c2 |-> <<O("get", 0), O("req", 0), O("get", 0)>>,
             p1 |-> <<O("emp", 1), O("chk", 0), O("emp", 2)>>,
             p2 |-> <<O("emp", 3), O("emp", 4), O("chk", 0)>>]
\* 3 consumers x 1 producer and 1 consumer x 3 producers, 3 ops each
Prog_3x1 == [c1 |-> <<O("req", 0), O("get", 0), O("get", 0)>>,
             c2 |-> <<O("get", 0), O("req", 0), O("get", 0)>>,
             c3 |-> <<O("get", 0), O("get", 0), O("req", 0)>>,
             p1 |-> <<O("emp", 1), O("emp", 2), O("emp", 3)>>]
Prog_1x3 == [c1 |-> <<O("req", 0), O("get", 0), O("req", 0), O("get", 0)>>,
             p1 |-> <<O("emp", 1), O("emp", 2), O("chk", 0)>>,
             p2 |-> <<O("emp", 3), O("chk", 0), O("emp", 4)>>,
             p3 |-> <<O("chk", 0), O("emp", 5), O("emp", 6)>>]
\* 3 consumers x 3 producers, 2 ops each (thorough: 3 ops each)
Prog_3x3 == [c1 |-> <<O("req", 0), O("get", 0)>>, c2 |-> <<O("get", 0), O("req", 0)>>,
             c3 |-> <<O("get", 0), O("get", 0)>>,
             p1 |-> <<O("emp", 1), O("emp", 2)>>, p2 |-> <<O("emp", 3), O("chk", 0)>>,
             p3 |-> <<O("chk", 0), O("emp", 4)>>]
Prog_3x3x3 == [c1 |-> <<O("req", 0), O("get", 0), O("req", 0)>>, c2 |-> <<O("get", 0), O("req", 0), O("get", 0)>>,
               c3 |-> <<O("get", 0), O("get", 0), O("req", 0)>>,
               p1 |-> <<O("emp", 1), O("emp", 2), O("chk", 0)>>, p2 |-> <<O("emp", 3), O("chk", 0), O("emp", 4)>>,
               p3 |-> <<O("chk", 0), O("emp", 5), O("emp", 6)>>]

\* several configurations checked in one TLC run (one initial state each; NextDyn takes the
\* threads from the configuration)
C(p, m) == [p |-> p, m |-> m]
CfgsQuick == << C(Prog_1x1, "clear"), C(Prog_1x1, "husk"), C(Prog_1x1, "copy"),
                C(Prog_2x2, "clear"), C(Prog_2x2, "husk"), C(Prog_2x2, "copy"),
                C(Prog_3x1, "clear"), C(Prog_1x3, "clear") >>
CfgsThorough == << C(Prog_3x1, "husk"), C(Prog_3x1, "copy"), C(Prog_1x3, "husk"), C(Prog_1x3, "copy"),
                   C(Prog_3x3, "clear"), C(Prog_3x3, "husk"), C(Prog_3x3, "copy") >>
CfgsBig == << C(Prog_3x3x3, "clear") >>
InitQuick == \E i \in 1 .. Len(CfgsQuick) : InitWith(CfgsQuick[i].p, CfgsQuick[i].m, TRUE)
InitBig == \E i \in 1 .. Len(CfgsBig) : InitWith(CfgsBig[i].p, CfgsBig[i].m, TRUE)
InitThorough == \E i \in 1 .. Len(CfgsThorough) : InitWith(CfgsThorough[i].p, CfgsThorough[i].m, TRUE)
\* the code as originally found (getUpdate() tests the state with a plain load)
InitOrig == InitWith(Prog_2x2, Mode, FALSE)
==========================================================================
