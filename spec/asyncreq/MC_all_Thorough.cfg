CONSTANTS
  Threads = {}
  Prog = 0
  Mode = "clear"
  Claim = TRUE
INIT InitThorough
NEXT NextDyn
CHECK_DEADLOCK FALSE
INVARIANTS TypeOK AtMostOnce DeliveredFresh EmplaceOnlyWhenRequested SlotExclusive NoOverwrite ResultsMatch StateDescribesSlot NoLeakAfterDestroy
