----------------------------- MODULE MCSbaHB -----------------------------
EXTENDS SbaHB
O(op, k, n) == [op |-> op, k |-> k, n |-> n]
B == O("bytes", 0, 0)
\* smallest instance with the code's proportions: maxtl = 2*ideal, permalloc = 4*ideal
Cfg_1 == [ideal |-> 1, maxtl |-> 2, permalloc |-> 4, chunk |-> 4, mallocbytes |-> 16, nslots |-> 3]

\* MC_hb1: two grabbers race for the malloc ticket (winner / ticket loser + spin / second malloc by the
\* other thread), both also call bytesAllocated() afterwards (a thread is writer and reader of the
\* vector), one pure diagnostics thread calls it twice (failed CAS, reader after reader, reader
\* between two writers); lock word up to 3 (two ticket losers); threads exit with cached blocks.
Prog_hb1 == [a1 |-> <<O("alloc", 1, 1), B, O("free", 1, 0)>>,
             a2 |-> <<O("alloc", 2, 1), B>>,
             d1 |-> <<B, B>>]
\* MC_hb2: a batch larger than a slab: a1 mallocs twice (5 blocks = slab, 3 dequeues, second slab) with the
\* other thread's sections in between; a2 reads, then mallocs or dequeues depending on the interleaving
\* (up to 3 slabs), then reads again; both threads are writer and reader of the vector.
Prog_hb2 == [a1 |-> <<O("alloc", 1, 5), B>>,
             a2 |-> <<B, O("alloc", 2, 1), B>>,
             d1 |-> <<>>]
\* MC_hb3 (thorough): three grabbers, every one of them also a reader
Prog_hb3 == [a1 |-> <<O("alloc", 1, 2), B>>,
             a2 |-> <<B, O("alloc", 2, 1)>>,
             d1 |-> <<O("alloc", 3, 1), B>>]
==========================================================================
