----------------------------- MODULE SbaTrace -----------------------------
(* Trace validation for Sba.tla: every line recorded from the real                  *)
(* SmallBufferAllocator<N> under the controlled scheduler must be explained by the   *)
(* specification action of the same name taken by the same thread; the projected      *)
(* state (lock word, number of backing buffers, size of the central store, every      *)
(* thread's cache as block offsets) and the values returned to the caller (block      *)
(* offset and addr % N of every block handed out in the step; the byte count of       *)
(* bytesAllocated) must equal the specification's.  The only thing taken from the     *)
(* trace is the queue's choice WHICH blocks a dequeue returned - they must be in the  *)
(* specification's central store.  All invariants of Sba.tla are evaluated in every   *)
(* state.  Lines of the logical thread "main" (it only spawns the threads) are        *)
(* skipped.                                                                           *)
EXTENDS Sba, Json, IOUtils

TraceLog == ndJsonDeserialize(IOEnv.TRACE)

VARIABLE l   \* next line to consume

tvars == <<vars, l>>

TraceInit ==
  /\ l = 2
  /\ TraceLog[1].e = "Reset"
  /\ TraceLog[1].lock0 = 0
  /\ InitWith(TraceLog[1].cfg, TraceLog[1].prog)

ResetTo(c, p) ==
  /\ cfg' = c /\ prog' = p
  /\ lock' = 0 /\ nb' = 0
  /\ central' = {}
  /\ cache' = [t \in DOMAIN p |-> <<>>]
  /\ reg' = {}
  /\ slots' = [k \in 1 .. c.nslots |-> <<>>]
  /\ pc' = [t \in DOMAIN p |-> "Start"]
  /\ ip' = [t \in DOMAIN p |-> 1]
  /\ loc' = [t \in DOMAIN p |-> EmptyLoc]

\* r = <<v1, m1, v2, m2, ...>>: offsets (odd positions) and addr % N (even positions)
Offsets(r) == [i \in 1 .. (Len(r) \div 2) |-> r[2 * i - 1]]
Mods(r) == {r[2 * i] : i \in 1 .. (Len(r) \div 2)}
Reverse(s) == [i \in 1 .. Len(s) |-> s[Len(s) + 1 - i]]

\* what the dequeue of this step returned = what is left of it in the cache + what the batch
\* consumed of it during the step (popped from the top, hence reversed)
GotOf(ev) == ev.s.cache[ev.t] \o Reverse(Offsets(ev.r))

Dispatch(ev) ==
  LET e == ev.e
      t == ev.t
  IN CASE e = "Start"       -> Start(t)
       [] e = "OpStep"      -> OpStep(t)
       [] e = "GrabDeq"     -> GrabDeqGot(t, IF central = {} THEN <<>> ELSE GotOf(ev))
       [] e = "GrabFaa"     -> GrabFaa(t)
       [] e = "GrabEnq"     -> GrabEnq(t)
       [] e = "GrabUnlock"  -> GrabUnlock(t)
       [] e = "GrabSpin"    -> GrabSpin(t)
       [] e = "RecycleEnq"  -> RecycleEnq(t)
       [] e = "BytesCas"    -> BytesCas(t)
       [] e = "BytesUnlock" -> BytesUnlock(t)
       [] e = "ExitEnq"     -> ExitEnq(t)
       [] OTHER             -> FALSE

\* the blocks handed to the caller during the step, according to the specification: a finished
\* alloc batch appended acc \o taken to its slot, an unfinished one appended taken to acc
HandedOut(t) ==
  IF ip'[t] > ip[t]
    THEN (IF Op(t).op = "alloc"
            THEN SubSeq(slots'[Op(t).k], Len(slots[Op(t).k]) + Len(loc[t].acc) + 1, Len(slots'[Op(t).k]))
            ELSE <<>>)
    ELSE SubSeq(loc'[t].acc, Len(loc[t].acc) + 1, Len(loc'[t].acc))

RetOK(ev) ==
  LET t == ev.t IN
    IF ev.e = "BytesUnlock"
      THEN ev.r = <<loc[t].bytes>>
      ELSE /\ Len(ev.r) % 2 = 0
           /\ Offsets(ev.r) = HandedOut(t)
           /\ Mods(ev.r) \subseteq {0}

ProjOK(ev) ==
  /\ lock' = ev.s.lock
  /\ nb' = ev.s.nb
  /\ Cardinality(central') = ev.s.central
  /\ Len(ev.s.bmod) = nb'
  /\ \A i \in 1 .. Len(ev.s.bmod) : ev.s.bmod[i] = 0
  /\ \A t \in T : cache'[t] = ev.s.cache[t]

TraceStep ==
  /\ l <= Len(TraceLog)
  /\ LET ev == TraceLog[l] IN
       \/ /\ ev.e = "Reset"
          /\ ev.lock0 = 0
          /\ ResetTo(ev.cfg, ev.prog)
       \/ /\ ev.e # "Reset" /\ "t" \in DOMAIN ev     \* (Diverged / Deadlock lines have no thread)
          /\ ev.t = "main"
          /\ UNCHANGED vars
       \/ /\ ev.e # "Reset" /\ "t" \in DOMAIN ev
          /\ ev.t \in T
          /\ Dispatch(ev)
          /\ ProjOK(ev)
          /\ RetOK(ev)
  /\ l' = l + 1

TraceSpec == TraceInit /\ [][TraceStep]_tvars

TraceAccepted ==
  LET d == TLCGet("stats").diameter IN
  IF d = Len(TraceLog) THEN TRUE
  ELSE /\ PrintT(<<"TRACE_REJECTED_AT_LINE", d + 1, "OF", Len(TraceLog)>>)
       /\ PrintT(<<"OFFENDING", TraceLog[d + 1].e,
                    IF "t" \in DOMAIN TraceLog[d + 1] THEN TraceLog[d + 1].t ELSE "-">>)
       /\ FALSE
==========================================================================
