CONSTANTS
  Cfg = 0
  Threads = {}
  Prog = 0
  CasReuse = TRUE
SPECIFICATION TraceSpec
CHECK_DEADLOCK FALSE
POSTCONDITION TraceAccepted
INVARIANTS MutexOK LockHeld Exclusive AlignedInBounds Conserved CacheBound ExitReturns
