------------------------------ MODULE MCSba ------------------------------
EXTENDS Sba
O(op, k, n) == [op |-> op, k |-> k, n |-> n]
\* smallest instance with the code's proportions: maxtl = 2*ideal, permalloc = 4*ideal
Cfg_1 == [ideal |-> 1, maxtl |-> 2, permalloc |-> 4, chunk |-> 4, mallocbytes |-> 16, nslots |-> 3]
Cfg_2 == [ideal |-> 2, maxtl |-> 4, permalloc |-> 8, chunk |-> 4, mallocbytes |-> 32, nslots |-> 4]
\* cover configuration (its whole state graph is replayed in the real allocator): every action and
\* both outcomes of every branch are reachable: a1 exhausts its cache twice (malloc, then central
\* store), fills it up to maxtl (recycle); a2 frees a1's blocks (cross-thread dealloc) and exits with a
\* non-empty cache; d1 is the diagnostics caller and contends for the lock (ticket loser + spin).
Prog_cover == [a1 |-> <<O("alloc", 1, 2), O("free", 1, 0)>>,
               a2 |-> <<O("free", 1, 0)>>,
               d1 |-> <<O("bytes", 0, 0)>>]
\* second cover configuration (thorough): a2 only deallocates fewer blocks than a cache holds and exits -
\* its cleanup must have been registered by dealloc() alone
Prog_cover2 == [a1 |-> <<O("alloc", 1, 1), O("alloc", 2, 2), O("free", 2, 0)>>,
                a2 |-> <<O("free", 1, 0)>>,
                d1 |-> <<O("bytes", 0, 0)>>]
\* a1 and a2 race for the malloc ticket as well
Prog_race == [a1 |-> <<O("alloc", 1, 1), O("alloc", 2, 1), O("free", 1, 0), O("free", 2, 0)>>,
               a2 |-> <<O("alloc", 3, 1), O("free", 1, 0)>>,
               d1 |-> <<O("bytes", 0, 0)>>]
\* deeper: batches larger than the cache, two diagnostics calls, re-allocation after free
Prog_deep == [a1 |-> <<O("alloc", 1, 3), O("free", 1, 0), O("alloc", 2, 1)>>,
              a2 |-> <<O("alloc", 3, 1), O("free", 1, 0), O("free", 2, 0), O("alloc", 1, 2)>>,
              d1 |-> <<O("bytes", 0, 0), O("bytes", 0, 0)>>]
Prog_two == [a1 |-> <<O("alloc", 1, 4), O("free", 2, 0)>>,
             a2 |-> <<O("alloc", 2, 2), O("free", 1, 0)>>,
             d1 |-> <<O("bytes", 0, 0)>>]
==========================================================================
