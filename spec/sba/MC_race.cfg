CONSTANTS
  Cfg <- Cfg_1
  Threads = {"a1", "a2", "d1"}
  Prog <- Prog_race
  CasReuse = FALSE
INIT Init
NEXT Next
CHECK_DEADLOCK FALSE
INVARIANTS TypeOK MutexOK LockHeld Exclusive AlignedInBounds Conserved CacheBound ExitReturns
