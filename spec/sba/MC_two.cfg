CONSTANTS
  Cfg <- Cfg_2
  Threads = {"a1", "a2", "d1"}
  Prog <- Prog_two
  CasReuse = FALSE
INIT Init
NEXT Next
CHECK_DEADLOCK FALSE
INVARIANTS TypeOK MutexOK LockHeld Exclusive AlignedInBounds Conserved CacheBound ExitReturns
