CONSTANTS
  Cfg <- Cfg_1
  Threads = {"a1", "a2", "d1"}
  Prog <- Prog_hb1
  CasReuse = FALSE
INIT HInit
NEXT HNext
CHECK_DEADLOCK FALSE
INVARIANTS OrdersComplete KindsOK RaceFree TypeOK MutexOK LockHeld Exclusive Conserved
