------------------------------- MODULE SbaHB -------------------------------
(* C10 for detail::SmallBufferAllocator<N>: Sba.tla composed with the happens-before model    *)
(* spec/lib/MemOrder.tla (no std::atomic_thread_fence in small_buffer_allocator_impl.h /      *)
(* small_buffer_allocator.cpp).                                                               *)
(*                                                                                            *)
(* Atomic location: SmallBufferGlobals::backingStoreLock, a ticket-like spin lock:            *)
(*   grabFromCentralStore  fetch_add(1, o) - the thread that reads 0 owns the lock, every     *)
(*                         other thread has only incremented the word and spins on load(o)    *)
(*                         until it reads 0; the owner leaves with store(0, o)                *)
(*   bytesAllocated        compare_exchange_weak(0 -> 1, o) / store(0, o)                     *)
(* Mutual exclusion comes from the atomicity of the RMWs (SC-checked by C41: MutexOK); what   *)
(* C10 adds is that every critical section HAPPENS BEFORE the next one under the declared     *)
(* orders only.                                                                               *)
(*                                                                                            *)
(* Non-atomic location: ONE ghost cell for SmallBufferGlobals::backingStore (std::vector):    *)
(*   written  by the lock owner in grabFromCentralStore (push_back, possibly reallocating) -  *)
(*            the code between the GrabFaa and the GrabEnq hook, i.e. part of step GrabFaa    *)
(*   read     by bytesAllocated (backingStore.size()) between the successful CAS and the      *)
(*            BytesUnlock hook, i.e. part of the successful step BytesCas                     *)
(*   written  once by "main" before the threads exist (construction of SmallBufferGlobals;    *)
(*            in the code by whichever thread first runs the function-local static            *)
(*            initialiser of getSmallBufferGlobals - the language orders that initialisation  *)
(*            before every use; here: thread creation).  The globals are leaked on purpose    *)
(*            ("controlled leak"), ~SmallBufferGlobals never runs: no final access.           *)
(*                                                                                            *)
(* NOT modelled, deliberately:                                                                *)
(*   - centralStore (moodycamel::ConcurrentQueue): it is used LOCK-FREE - try_dequeue_bulk    *)
(*     (GrabDeq), enqueue_bulk in recycleToCentralStore (RecycleEnq) and in                   *)
(*     ~PerThreadQueuingData (ExitEnq) run without backingStoreLock, only GrabEnq runs with   *)
(*     it - so the lock is not what protects it; its own atomics live in moodycamel, outside  *)
(*     the extracted sources.  Steps at those four sites leave hb unchanged: NO edge is       *)
(*     claimed for the queue (fewer edges = more races reported, never fewer).                *)
(*   - the memory of the blocks: a block changes hands only through the queue or stays in a   *)
(*     thread-private cache (tlBuffers / tlCount are thread_local).                           *)
(*                                                                                            *)
(* Spinning: a GrabSpin load that reads non-zero and a failed BytesCas leave the base state   *)
(* unchanged.  They are loads; a vector clock only has to advance at release operations, so   *)
(* the failed attempt keeps what it acquired but not the tick (NoTick): the step becomes      *)
(* idempotent and ANY number of failed attempts is covered without a spin bound.              *)
EXTENDS Sba, MemOrder, OrdersSba

VARIABLE hb
hvars == <<vars, hb>>

HT == Threads \cup {"main"}
Lock == <<"lock", 0>>
Store == <<"backingStore", 0>>
ALocs == {Lock}
NLocs == {Store}

\* sites with an atomic access on backingStoreLock: number of textual occurrences the extractor
\* sees (the second hook of BytesCas / GrabSpin closes a loop body: the access is the loop
\* condition = first occurrence) and the kind of operation the overlay models
UsedSites == ("GrabFaa" :> <<1, "fetch_add">>) @@ ("GrabSpin" :> <<1, "load">>) @@
             ("GrabUnlock" :> <<1, "store">>) @@ ("BytesCas" :> <<1, "compare_exchange_weak">>) @@
             ("BytesUnlock" :> <<1, "store">>)
\* hooks before operations of the moodycamel queue: no atomic operation in that statement
QueueSites == {"GrabDeq", "GrabEnq", "RecycleEnq", "ExitEnq"}

OrdersComplete ==
  /\ \A s \in DOMAIN UsedSites :
        /\ s \in DOMAIN Ord
        /\ Len(Ord[s]) = UsedSites[s][1]
        /\ \A i \in 1 .. Len(Ord[s]) : Ord[s][i][1] # "none"
  /\ DOMAIN Ord \subseteq (DOMAIN UsedSites \cup QueueSites)
\* the statement after each hook is still the kind of access this overlay gives it
KindsOK ==
  /\ \A s \in DOMAIN UsedSites : \A i \in 1 .. Len(Ord[s]) : Ord[s][i][1] = UsedSites[s][2]
  /\ \A s \in QueueSites \cap DOMAIN Ord : \A i \in 1 .. Len(Ord[s]) : Ord[s][i][1] = "none"

OS(site) == Ord[site][1][2]     \* success order
OF(site) == Ord[site][1][3]     \* failure order of a compare_exchange

\* a failed polling attempt: keep the acquired clocks, drop the tick (see header)
NoTick(h0, h, t) == [h EXCEPT !.vc[t][t] = h0.vc[t][t]]

HInit == Init /\ hb = NAWrite(HT, HBInit(HT, ALocs, NLocs), "main", Store)

HStep(t) ==
  \/ Start(t) /\ hb' = HBSpawn(HT, hb, "main", t)
  \* thread-local fast paths of alloc() / dealloc(): no shared access
  \/ OpStep(t) /\ hb' = hb
  \* moodycamel queue operations: black box, no edge claimed
  \/ GrabDeq(t) /\ hb' = hb
  \/ GrabEnq(t) /\ hb' = hb
  \/ RecycleEnq(t) /\ hb' = hb
  \/ ExitEnq(t) /\ hb' = hb
  \* lock.fetch_add(1): always an RMW; the thread that read 0 then does alignedMalloc +
  \* backingStore.push_back before the next hook (GrabEnq)
  \/ /\ GrabFaa(t)
     /\ hb' = LET h == ARmw(HT, hb, t, Lock, OS("GrabFaa"))
              IN IF lock = 0 THEN NAWrite(HT, h, t, Store) ELSE h
  \/ GrabUnlock(t) /\ hb' = AStore(HT, hb, t, Lock, OS("GrabUnlock"))
  \/ /\ GrabSpin(t)
     /\ hb' = LET h == ALoad(HT, hb, t, Lock, OS("GrabSpin"))
              IN IF lock = 0 THEN h ELSE NoTick(hb, h, t)
  \* compare_exchange_weak(expected, 1): success = RMW with the success order, then
  \* backingStore.size(); failure = load with the failure order
  \/ /\ BytesCas(t)
     /\ hb' = IF lock = loc[t].exp
                THEN NARead(HT, ARmw(HT, hb, t, Lock, OS("BytesCas")), t, Store)
                ELSE NoTick(hb, ALoad(HT, hb, t, Lock, OF("BytesCas")), t)
  \/ BytesUnlock(t) /\ hb' = AStore(HT, hb, t, Lock, OS("BytesUnlock"))

HNext == \E t \in Threads : HStep(t)
HSpec == HInit /\ [][HNext]_hvars

RaceFree == NoRace(hb)
==========================================================================
