-------------------------------- MODULE Sba --------------------------------
(* Implementation-level specification of dispenso::detail::SmallBufferAllocator<N>  *)
(* (dispenso/detail/small_buffer_allocator_impl.h, dispenso/small_buffer_allocator.cpp).       *)
(*                                                                                    *)
(* Shared words: backingStoreLock (`lock`), the backing store (only its length `nb`   *)
(* matters: buffer b consists of the blocks Block(b,0..permalloc-1)), the central     *)
(* store (moodycamel queue, a black box = linearizable bag `central`).  Per thread:   *)
(* the thread-local cache tlBuffers[0..tlCount) (`cache`, a stack), whether the       *)
(* thread_local PerThreadQueuingData exists (`reg`), pc and locals.                   *)
(*                                                                                    *)
(* One action per schedule point (DISPENSO_VERIF_POINT site = action name):           *)
(*   Op          driver point before every operation; the thread-local fast paths of  *)
(*               alloc()/dealloc() touch no shared word and belong to this step       *)
(*   GrabDeq     queue.try_dequeue_bulk in grabFromCentralStore                       *)
(*   GrabFaa     lock.fetch_add(1)  (ticket; 0 wins, malloc + backingStore.push_back) *)
(*   GrabEnq     queue.enqueue_bulk of the first permalloc-ideal blocks (lock held)   *)
(*   GrabUnlock  lock.store(0); last `ideal` blocks go to the thread cache            *)
(*   GrabSpin    lock.load() in the loser's spin loop                                 *)
(*   RecycleEnq  enqueue_bulk in recycleToCentralStore (cache reached maxtl)          *)
(*   BytesCas    lock.compare_exchange_weak(expected, 1) in bytesAllocated            *)
(*   BytesUnlock lock.store(0) in bytesAllocated                                      *)
(*   ExitEnq     enqueue_bulk in ~PerThreadQueuingData (thread exit)                  *)
(*                                                                                    *)
(* Blocks are identified by their byte offset in the concatenation of the backing     *)
(* buffers: Block(b,i) = b*mallocbytes + i*chunk  (never raw addresses).              *)
(*                                                                                    *)
(* Programs: sequences of batch operations                                            *)
(*   [op |-> "alloc", k |-> slot, n |-> count]  n x alloc(), result stored in slot k  *)
(*   [op |-> "free",  k |-> slot, n |-> 0]      dealloc() of every block in slot k    *)
(*   [op |-> "bytes", k |-> 0,    n |-> 0]      bytesAllocated()                      *)
(* Slots are the (driver-side, serialised) hand-over table that lets a block be       *)
(* deallocated by a different thread than the one that allocated it.                  *)
EXTENDS Integers, Sequences, FiniteSets, TLC

CONSTANTS Cfg,      \* [ideal, maxtl, permalloc, chunk, mallocbytes, nslots]
          Threads,  \* set of thread names (strings)
          Prog,     \* [Threads -> Seq(op records)]
          CasReuse  \* TRUE: model the CAS loop of the UNREPAIRED bytesAllocated (the observed value of a
                    \* failed CAS is reused as `expected`); FALSE: `expected` is 0 on every attempt

VARIABLES
  cfg, prog,        \* configuration (variables so that a trace can re-initialise them)
  lock, nb,         \* backingStoreLock, backingStore.size()
  central,          \* contents of the central store (set of blocks)
  cache,            \* cache[t]: thread-local stack of blocks
  reg,              \* set of threads whose PerThreadQueuingData exists (cleanup registered)
  slots,            \* slots[k]: blocks currently owned by the application in slot k
  pc, ip, loc       \* per thread: program counter, index of current op, locals

vars == <<cfg, prog, lock, nb, central, cache, reg, slots, pc, ip, loc>>

T == DOMAIN prog
Min(a, b) == IF a < b THEN a ELSE b
Range(s) == {s[i] : i \in 1 .. Len(s)}
Block(b, i) == b * cfg.mallocbytes + i * cfg.chunk
NumToPush == cfg.permalloc - cfg.ideal

EmptyLoc == [need |-> 0, acc |-> <<>>, rem |-> <<>>, b |-> 0, bytes |-> 0, exp |-> 0]

InitWith(c, p) ==
  /\ cfg = c /\ prog = p
  /\ lock = 0 /\ nb = 0
  /\ central = {}
  /\ cache = [t \in DOMAIN p |-> <<>>]
  /\ reg = {}
  /\ slots = [k \in 1 .. c.nslots |-> <<>>]
  /\ pc = [t \in DOMAIN p |-> "Start"]
  /\ ip = [t \in DOMAIN p |-> 1]
  /\ loc = [t \in DOMAIN p |-> EmptyLoc]

Init == InitWith(Cfg, Prog)

Op(t) == prog[t][ip[t]]
Goto(t, l) == pc' = [pc EXCEPT ![t] = l]

\* end of the current operation; after the last one the thread function returns and the
\* thread_local destructor runs (only if it was ever constructed)
Finish(t, registered) ==
  /\ ip' = [ip EXCEPT ![t] = @ + 1]
  /\ Goto(t, IF ip[t] + 1 > Len(prog[t]) THEN (IF registered THEN "ExitEnq" ELSE "Done") ELSE "Op")

Start(t) ==
  /\ pc[t] = "Start"
  /\ Goto(t, IF Len(prog[t]) = 0 THEN "Done" ELSE "Op")
  /\ UNCHANGED <<cfg, prog, lock, nb, central, cache, reg, slots, ip, loc>>

\* ---------------------------------------------------------------------- alloc() x n
\* `return tlBuffers[--tlCount]` repeated while blocks are needed and the cache is not empty;
\* c is the cache at the beginning (after a grab, what was grabbed), acc what this batch got so far.
\* Changes cache, slots, loc, reg, pc, ip.
AllocProgress(t, c, need, acc) ==
  LET k     == Min(need, Len(c))
      taken == [i \in 1 .. k |-> c[Len(c) + 1 - i]]
      rest  == SubSeq(c, 1, Len(c) - k)
  IN /\ cache' = [cache EXCEPT ![t] = rest]
     /\ IF need - k = 0
          THEN /\ slots' = [slots EXCEPT ![Op(t).k] = @ \o acc \o taken]  \* (appended: see Op)
               /\ loc' = [loc EXCEPT ![t] = EmptyLoc]
               /\ reg' = reg
               /\ Finish(t, TRUE)
          ELSE \* tlCount = 0: registerCleanup(), grabFromCentralStore -> first point inside
               /\ loc' = [loc EXCEPT ![t].need = need - k, ![t].acc = acc \o taken]
               /\ reg' = reg \cup {t}
               /\ Goto(t, "GrabDeq")
               /\ UNCHANGED <<slots, ip>>

\* ---------------------------------------------------------------------- dealloc() x |rem|
\* `tlBuffers[tlCount++] = buffer` until the batch is done or tlCount = maxtl (-> recycle point).
\* Changes cache, loc, pc, ip.
FreeProgress(t, c, rem) ==
  LET k  == Min(Len(rem), cfg.maxtl - Len(c))
      c2 == c \o SubSeq(rem, 1, k)
  IN /\ cache' = [cache EXCEPT ![t] = c2]
     /\ IF Len(c2) = cfg.maxtl
          THEN /\ loc' = [loc EXCEPT ![t].rem = SubSeq(rem, k + 1, Len(rem))]
               /\ Goto(t, "RecycleEnq")
               /\ UNCHANGED ip
          ELSE /\ loc' = [loc EXCEPT ![t] = EmptyLoc]
               /\ Finish(t, TRUE)

OpStep(t) ==
  /\ pc[t] = "Op"
  /\ LET o == Op(t) IN
       CASE o.op = "alloc" ->
              IF slots[o.k] # <<>>
                THEN /\ Finish(t, t \in reg)            \* slot in use: the driver skips the op
                     /\ UNCHANGED <<cache, reg, slots, loc>>
                ELSE AllocProgress(t, cache[t], o.n, <<>>)
         [] o.op = "free" ->
              IF slots[o.k] = <<>>
                THEN /\ Finish(t, t \in reg)            \* nothing to free: skipped
                     /\ UNCHANGED <<cache, reg, slots, loc>>
                ELSE /\ slots' = [slots EXCEPT ![o.k] = <<>>]
                     /\ reg' = reg \cup {t}             \* dealloc() always calls registerCleanup()
                     /\ FreeProgress(t, cache[t], slots[o.k])
         [] o.op = "bytes" ->
              /\ loc' = [loc EXCEPT ![t].exp = 0]
              /\ Goto(t, "BytesCas")
              /\ UNCHANGED <<cache, reg, slots, ip>>
  /\ UNCHANGED <<cfg, prog, lock, nb, central>>

\* ---------------------------------------------------------------- grabFromCentralStore
\* The queue is a black box: a dequeue of up to `ideal` items from a quiescent queue returns
\* min(ideal, size) items, WHICH ones and in which order is the queue's choice (`got`).
GrabDeqGot(t, got) ==
  /\ pc[t] = "GrabDeq"
  /\ Len(got) = Min(cfg.ideal, Cardinality(central))
  /\ Range(got) \subseteq central
  /\ Cardinality(Range(got)) = Len(got)
  /\ IF Len(got) = 0
       THEN /\ Goto(t, "GrabFaa")
            /\ UNCHANGED <<central, cache, reg, slots, ip, loc>>
       ELSE /\ central' = central \ Range(got)
            /\ AllocProgress(t, got, loc[t].need, loc[t].acc)
  /\ UNCHANGED <<cfg, prog, lock, nb>>

GrabFaa(t) ==
  /\ pc[t] = "GrabFaa"
  /\ lock' = lock + 1
  /\ IF lock = 0
       THEN /\ nb' = nb + 1                            \* alignedMalloc + backingStore.push_back
            /\ loc' = [loc EXCEPT ![t].b = nb]
            /\ Goto(t, "GrabEnq")
       ELSE /\ Goto(t, "GrabSpin")
            /\ UNCHANGED <<nb, loc>>
  /\ UNCHANGED <<cfg, prog, central, cache, reg, slots, ip>>

GrabEnq(t) ==
  /\ pc[t] = "GrabEnq"
  /\ central' = central \cup {Block(loc[t].b, i) : i \in 0 .. (NumToPush - 1)}
  /\ Goto(t, "GrabUnlock")
  /\ UNCHANGED <<cfg, prog, lock, nb, cache, reg, slots, ip, loc>>

GrabUnlock(t) ==
  /\ pc[t] = "GrabUnlock"
  /\ lock' = 0
  /\ AllocProgress(t, [i \in 1 .. cfg.ideal |-> Block(loc[t].b, NumToPush + i - 1)],
                   loc[t].need, loc[t].acc)
  /\ UNCHANGED <<cfg, prog, nb, central>>

GrabSpin(t) ==
  /\ pc[t] = "GrabSpin"
  /\ (IF lock = 0 THEN Goto(t, "GrabDeq") ELSE UNCHANGED pc)
  /\ UNCHANGED <<cfg, prog, lock, nb, central, cache, reg, slots, ip, loc>>

\* ---------------------------------------------------------------- recycleToCentralStore
RecycleEnq(t) ==
  /\ pc[t] = "RecycleEnq"
  /\ central' = central \cup Range(SubSeq(cache[t], cfg.ideal + 1, cfg.maxtl))
  /\ FreeProgress(t, SubSeq(cache[t], 1, cfg.ideal), loc[t].rem)
  /\ UNCHANGED <<cfg, prog, lock, nb, reg, slots>>

\* ------------------------------------------------------------------------ bytesAllocated
BytesCas(t) ==
  /\ pc[t] = "BytesCas"
  /\ IF lock = loc[t].exp
       THEN /\ lock' = 1
            /\ loc' = [loc EXCEPT ![t].bytes = cfg.mallocbytes * nb]   \* read inside the section
            /\ Goto(t, "BytesUnlock")
       ELSE /\ loc' = [loc EXCEPT ![t].exp = IF CasReuse THEN lock ELSE 0]
            /\ UNCHANGED <<lock, pc>>
  /\ UNCHANGED <<cfg, prog, nb, central, cache, reg, slots, ip>>

BytesUnlock(t) ==
  /\ pc[t] = "BytesUnlock"
  /\ lock' = 0
  /\ Finish(t, t \in reg)
  /\ UNCHANGED <<cfg, prog, nb, central, cache, reg, slots, loc>>

\* ------------------------------------------------------ thread exit: ~PerThreadQueuingData
ExitEnq(t) ==
  /\ pc[t] = "ExitEnq"
  /\ central' = central \cup Range(cache[t])
  /\ cache' = [cache EXCEPT ![t] = <<>>]
  /\ Goto(t, "Done")
  /\ UNCHANGED <<cfg, prog, lock, nb, reg, slots, ip, loc>>

DeqChoices == LET k == Min(cfg.ideal, Cardinality(central))
              IN {s \in [1 .. k -> central] : Cardinality(Range(s)) = k}
GrabDeq(t) == \E got \in DeqChoices : GrabDeqGot(t, got)

Next ==
  \E t \in Threads :
     \/ Start(t)
     \/ OpStep(t)
     \/ GrabDeq(t)
     \/ GrabFaa(t) \/ GrabEnq(t) \/ GrabUnlock(t) \/ GrabSpin(t)
     \/ RecycleEnq(t)
     \/ BytesCas(t) \/ BytesUnlock(t)
     \/ ExitEnq(t)

Spec == Init /\ [][Next]_vars

\* ============================================================================ properties
CritPcs == {"GrabEnq", "GrabUnlock", "BytesUnlock"}
InCrit == {t \in T : pc[t] \in CritPcs}

\* (C41) at most one thread inside the region protected by backingStoreLock (both lock users)
MutexOK == Cardinality(InCrit) <= 1
LockHeld == (InCrit # {}) => lock >= 1

\* where blocks can be: application (slots, or inside a batch in flight), caches, central store
SeqSum(f, S) == LET RECURSIVE Sum(_)
                    Sum(X) == IF X = {} THEN 0 ELSE LET x == CHOOSE y \in X : TRUE
                                                     IN Len(f[x]) + Sum(X \ {x})
                IN Sum(S)
AccOf == [t \in T |-> loc[t].acc]
RemOf == [t \in T |-> loc[t].rem]
LiveBlocks == UNION {Range(slots[k]) : k \in DOMAIN slots} \cup UNION {Range(loc[t].acc) : t \in T}
              \cup UNION {Range(loc[t].rem) : t \in T}
CachedBlocks == UNION {Range(cache[t]) : t \in T}
Known == LiveBlocks \cup CachedBlocks \cup central
Count == SeqSum(slots, DOMAIN slots) + SeqSum(AccOf, T) + SeqSum(RemOf, T) + SeqSum(cache, T)
         + Cardinality(central)
\* blocks of a fresh backing buffer that its allocating thread has not published yet
Pending == UNION {IF pc[t] = "GrabEnq" THEN {Block(loc[t].b, i) : i \in 0 .. (cfg.permalloc - 1)}
                  ELSE IF pc[t] = "GrabUnlock"
                         THEN {Block(loc[t].b, i) : i \in NumToPush .. (cfg.permalloc - 1)}
                         ELSE {} : t \in T}

\* (C41) a block is in exactly one place: never handed out while live, never live and cached/central
Exclusive == Cardinality(Known) = Count
\* (C41) every block lies inside a backing buffer, is `chunk` bytes long and `chunk`-aligned in it
\* (buffer bases are chunk-aligned: checked on the recorded base addresses by the trace spec)
AlignedInBounds ==
  \A v \in Known : /\ v % cfg.chunk = 0
                   /\ v \div cfg.mallocbytes < nb
                   /\ (v % cfg.mallocbytes) + cfg.chunk <= cfg.mallocbytes
\* nothing is lost and nothing is invented
Conserved ==
  /\ Known \cap Pending = {}
  /\ Known \cup Pending = {Block(b, i) : b \in 0 .. (nb - 1), i \in 0 .. (cfg.permalloc - 1)}
CacheBound == \A t \in T : Len(cache[t]) <= cfg.maxtl
\* a thread that has exited holds no blocks
ExitReturns == \A t \in T : pc[t] = "Done" => cache[t] = <<>>

TypeOK ==
  /\ lock \in Nat /\ nb \in Nat
  /\ \A t \in T : ip[t] \in 1 .. (Len(prog[t]) + 1)
  /\ reg \subseteq T
==========================================================================
