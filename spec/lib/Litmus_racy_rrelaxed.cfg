CONSTANTS
  WOrd = "release"
  ROrd = "relaxed"
  UseRmw = FALSE
  MidRelaxedStore = FALSE
INIT Init
NEXT Next
CHECK_DEADLOCK FALSE
INVARIANT RaceFree
