CONSTANTS
  WOrd = "relaxed"
  ROrd = "relaxed"
  WFence = "acquire"
  RFence = "acquire"
INIT Init
NEXT Next
CHECK_DEADLOCK FALSE
INVARIANT RaceFree
