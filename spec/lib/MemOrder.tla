------------------------------ MODULE MemOrder ------------------------------
(* Happens-before (vector clock) model of the C++ memory model fragment used by  *)
(* dispenso: atomic loads / stores / read-modify-writes with declared memory     *)
(* orders, release sequences, and non-atomic accesses.  A state component `hb`   *)
(* is threaded through the actions of an implementation-level spec; NoRace(hb)   *)
(* is the invariant.  Interleavings explored by TLC are sequentially consistent; *)
(* each is a legal C++ execution, and happens-before is computed only from the   *)
(* DECLARED orders, so every reported race is a real data race ([intro.races]);  *)
(* races that need a non-SC execution can be missed.                             *)
(*                                                                                *)
(* hb = [vc   : thread -> vector clock,                                           *)
(*       rel  : atomic location -> vector clock released by the release sequence  *)
(*              headed at that location (all zero: none),                         *)
(*       relo : atomic location -> thread heading the release sequence ("" none), *)
(*       lw   : non-atomic location -> <<writer thread, its clock>> (<<"",0>>)    *)
(*       rd   : non-atomic location -> [thread -> clock of its last read],        *)
(*       race : set of non-atomic locations on which a race was detected]         *)
EXTENDS Integers, FiniteSets

MaxOf(a, b) == IF a > b THEN a ELSE b
ZeroVC(T) == [u \in T |-> 0]
Join(T, a, b) == [u \in T |-> MaxOf(a[u], b[u])]

HBInit(T, ALocs, NLocs) ==
  [vc |-> [t \in T |-> [u \in T |-> IF u = t THEN 1 ELSE 0]],
   rel |-> [a \in ALocs |-> ZeroVC(T)],
   relo |-> [a \in ALocs |-> ""],
   lw |-> [x \in NLocs |-> <<"", 0>>],
   rd |-> [x \in NLocs |-> ZeroVC(T)],
   race |-> {}]

IsAcq(o) == o \in {"acquire", "acq_rel", "seq_cst", "consume"}
IsRel(o) == o \in {"release", "acq_rel", "seq_cst"}

Tick(T, hb, t) == [hb EXCEPT !.vc[t][t] = @ + 1]

\* atomic load of `a` by t with order o: an acquire load synchronizes with the head of the
\* release sequence it reads from (SC interleaving: the latest store)
ALoad(T, hb0, t, a, o) ==
  LET hb == Tick(T, hb0, t) IN
  IF IsAcq(o) THEN [hb EXCEPT !.vc[t] = Join(T, @, hb.rel[a])] ELSE hb

\* atomic store: a release store heads a new release sequence; a relaxed store continues the
\* sequence only if the same thread heads it (C++11/14/17 rule), otherwise it ends it
AStore(T, hb0, t, a, o) ==
  LET hb == Tick(T, hb0, t) IN
  IF IsRel(o) THEN [hb EXCEPT !.rel[a] = hb.vc[t], !.relo[a] = t]
  ELSE IF hb.relo[a] = t THEN hb
  ELSE [hb EXCEPT !.rel[a] = ZeroVC(T), !.relo[a] = ""]

\* read-modify-write: acquire part as a load; any RMW continues the release sequence, a release
\* RMW additionally contributes its own clock
ARmw(T, hb0, t, a, o) ==
  LET hb == Tick(T, hb0, t)
      h1 == IF IsAcq(o) THEN [hb EXCEPT !.vc[t] = Join(T, @, hb.rel[a])] ELSE hb
  IN IF IsRel(o) THEN [h1 EXCEPT !.rel[a] = Join(T, @, h1.vc[t]),
                                 !.relo[a] = IF @ = "" THEN t ELSE @]
     ELSE h1

\* non-atomic write of x by t: races with an unordered earlier write or read
NAWrite(T, hb0, t, x) ==
  LET hb == Tick(T, hb0, t)
      w == hb.lw[x]
      wrace == w[1] # "" /\ w[1] # t /\ w[2] > hb.vc[t][w[1]]
      rrace == \E u \in T \ {t} : hb.rd[x][u] > hb.vc[t][u]
  IN [hb EXCEPT !.lw[x] = <<t, hb.vc[t][t]>>, !.rd[x] = ZeroVC(T),
                !.race = IF wrace \/ rrace THEN @ \cup {x} ELSE @]

\* non-atomic read of x by t: races with an unordered earlier write
NARead(T, hb0, t, x) ==
  LET hb == Tick(T, hb0, t)
      w == hb.lw[x]
      wrace == w[1] # "" /\ w[1] # t /\ w[2] > hb.vc[t][w[1]]
  IN [hb EXCEPT !.rd[x][t] = hb.vc[t][t],
                !.race = IF wrace THEN @ \cup {x} ELSE @]

\* thread start / join edges
HBSpawn(T, hb, parent, child) == [hb EXCEPT !.vc[child] = Join(T, @, hb.vc[parent])]
HBJoin(T, hb, parent, child) == [hb EXCEPT !.vc[parent] = Join(T, @, hb.vc[child])]

NoRace(hb) == hb.race = {}
=============================================================================
