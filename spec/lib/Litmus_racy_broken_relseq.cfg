CONSTANTS
  WOrd = "release"
  ROrd = "acquire"
  UseRmw = FALSE
  MidRelaxedStore = TRUE
INIT Init
NEXT Next
CHECK_DEADLOCK FALSE
INVARIANT RaceFree
