------------------------------- MODULE Litmus -------------------------------
(* Self-test of MemOrder.tla on message-passing litmus programs:                *)
(*   writer: data = 1 (non-atomic); flag.store(1, WOrd)                          *)
(*   reader: if flag.load(ROrd) = 1 then read data (non-atomic)                  *)
(* and its RMW variant (writer publishes with fetch_add).  With release/acquire  *)
(* there is no race; with a relaxed side there is one.                           *)
EXTENDS MemOrder, Sequences
CONSTANTS WOrd, ROrd, UseRmw, MidRelaxedStore
VARIABLES pc, flag, hb
T == {"w", "r", "m"}
AL == {<<"flag", 0>>}
NL == {<<"data", 0>>}
F == <<"flag", 0>>
D == <<"data", 0>>
Init == pc = [t \in T |-> 0] /\ flag = 0 /\ hb = HBInit(T, AL, NL)
W1 == pc["w"] = 0 /\ pc' = [pc EXCEPT !["w"] = 1] /\ hb' = NAWrite(T, hb, "w", D) /\ UNCHANGED flag
W2 == pc["w"] = 1 /\ pc' = [pc EXCEPT !["w"] = 2] /\ flag' = 1
      /\ hb' = IF UseRmw THEN ARmw(T, hb, "w", F, WOrd) ELSE AStore(T, hb, "w", F, WOrd)
\* a third thread overwrites the flag with a relaxed store of the same value: ends the release sequence
M1 == MidRelaxedStore /\ pc["m"] = 0 /\ flag = 1 /\ pc' = [pc EXCEPT !["m"] = 1] /\ flag' = 1
      /\ hb' = AStore(T, hb, "m", F, "relaxed")
R1 == pc["r"] = 0 /\ pc' = [pc EXCEPT !["r"] = IF flag = 1 THEN 1 ELSE 2] /\ hb' = ALoad(T, hb, "r", F, ROrd) /\ UNCHANGED flag
R2 == pc["r"] = 1 /\ pc' = [pc EXCEPT !["r"] = 2] /\ hb' = NARead(T, hb, "r", D) /\ UNCHANGED flag
Next == W1 \/ W2 \/ M1 \/ R1 \/ R2
RaceFree == NoRace(hb)
=============================================================================
