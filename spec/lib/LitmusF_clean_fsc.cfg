CONSTANTS
  WOrd = "relaxed"
  ROrd = "relaxed"
  WFence = "seq_cst"
  RFence = "seq_cst"
INIT Init
NEXT Next
CHECK_DEADLOCK FALSE
INVARIANT RaceFree
