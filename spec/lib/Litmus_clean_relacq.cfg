CONSTANTS
  WOrd = "release"
  ROrd = "acquire"
  UseRmw = FALSE
  MidRelaxedStore = FALSE
INIT Init
NEXT Next
CHECK_DEADLOCK FALSE
INVARIANT RaceFree
