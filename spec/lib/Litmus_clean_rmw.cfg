CONSTANTS
  WOrd = "acq_rel"
  ROrd = "acquire"
  UseRmw = TRUE
  MidRelaxedStore = FALSE
INIT Init
NEXT Next
CHECK_DEADLOCK FALSE
INVARIANT RaceFree
