---- MODULE Litmus_TTrace_1790042600 ----
EXTENDS Sequences, TLCExt, Toolbox, Naturals, TLC, Litmus

_expression ==
    LET Litmus_TEExpression == INSTANCE Litmus_TEExpression
    IN Litmus_TEExpression!expression
----

_trace ==
    LET Litmus_TETrace == INSTANCE Litmus_TETrace
    IN Litmus_TETrace!trace
----

_inv ==
    ~(
        TLCGet("level") = Len(_TETrace)
        /\
        flag = (1)
        /\
        pc = ([w |-> 2, m |-> 1, r |-> 2])
        /\
        hb = ([vc |-> [w |-> [w |-> 3, m |-> 0, r |-> 0], m |-> [w |-> 0, m |-> 2, r |-> 0], r |-> [w |-> 0, m |-> 0, r |-> 3]], rel |-> (<<"flag", 0>> :> [w |-> 0, m |-> 0, r |-> 0]), relo |-> (<<"flag", 0>> :> ""), lw |-> (<<"data", 0>> :> <<"w", 2>>), rd |-> (<<"data", 0>> :> [w |-> 0, m |-> 0, r |-> 3]), race |-> {<<"data", 0>>}])
    )
----

_init ==
    /\ flag = _TETrace[1].flag
    /\ hb = _TETrace[1].hb
    /\ pc = _TETrace[1].pc
----

_next ==
    /\ \E i,j \in DOMAIN _TETrace:
        /\ \/ /\ j = i + 1
              /\ i = TLCGet("level")
        /\ flag  = _TETrace[i].flag
        /\ flag' = _TETrace[j].flag
        /\ hb  = _TETrace[i].hb
        /\ hb' = _TETrace[j].hb
        /\ pc  = _TETrace[i].pc
        /\ pc' = _TETrace[j].pc

\* Uncomment the ASSUME below to write the states of the error trace
\* to the given file in Json format. Note that you can pass any tuple
\* to `JsonSerialize`. For example, a sub-sequence of _TETrace.
    \* ASSUME
    \*     LET J == INSTANCE Json
    \*         IN J!JsonSerialize("Litmus_TTrace_1790042600.json", _TETrace)

=============================================================================

 Note that you can extract this module `Litmus_TEExpression`
  to a dedicated file to reuse `expression` (the module in the 
  dedicated `Litmus_TEExpression.tla` file takes precedence 
  over the module `Litmus_TEExpression` below).

---- MODULE Litmus_TEExpression ----
EXTENDS Sequences, TLCExt, Toolbox, Naturals, TLC, Litmus

expression == 
    [
        \* To hide variables of the `Litmus` spec from the error trace,
        \* remove the variables below.  The trace will be written in the order
        \* of the fields of this record.
        flag |-> flag
        ,hb |-> hb
        ,pc |-> pc
        
        \* Put additional constant-, state-, and action-level expressions here:
        \* ,_stateNumber |-> _TEPosition
        \* ,_flagUnchanged |-> flag = flag'
        
        \* Format the `flag` variable as Json value.
        \* ,_flagJson |->
        \*     LET J == INSTANCE Json
        \*     IN J!ToJson(flag)
        
        \* Lastly, you may build expressions over arbitrary sets of states by
        \* leveraging the _TETrace operator.  For example, this is how to
        \* count the number of times a spec variable changed up to the current
        \* state in the trace.
        \* ,_flagModCount |->
        \*     LET F[s \in DOMAIN _TETrace] ==
        \*         IF s = 1 THEN 0
        \*         ELSE IF _TETrace[s].flag # _TETrace[s-1].flag
        \*             THEN 1 + F[s-1] ELSE F[s-1]
        \*     IN F[_TEPosition - 1]
    ]

=============================================================================



Parsing and semantic processing can take forever if the trace below is long.
 In this case, it is advised to uncomment the module below to deserialize the
 trace from a generated binary file.

\*
\*---- MODULE Litmus_TETrace ----
\*EXTENDS IOUtils, TLC, Litmus
\*
\*trace == IODeserialize("Litmus_TTrace_1790042600.bin", TRUE)
\*
\*=============================================================================
\*

---- MODULE Litmus_TETrace ----
EXTENDS TLC, Litmus

trace == 
    <<
    ([flag |-> 0,pc |-> [w |-> 0, m |-> 0, r |-> 0],hb |-> [vc |-> [w |-> [w |-> 1, m |-> 0, r |-> 0], m |-> [w |-> 0, m |-> 1, r |-> 0], r |-> [w |-> 0, m |-> 0, r |-> 1]], rel |-> (<<"flag", 0>> :> [w |-> 0, m |-> 0, r |-> 0]), relo |-> (<<"flag", 0>> :> ""), lw |-> (<<"data", 0>> :> <<"", 0>>), rd |-> (<<"data", 0>> :> [w |-> 0, m |-> 0, r |-> 0]), race |-> {}]]),
    ([flag |-> 0,pc |-> [w |-> 1, m |-> 0, r |-> 0],hb |-> [vc |-> [w |-> [w |-> 2, m |-> 0, r |-> 0], m |-> [w |-> 0, m |-> 1, r |-> 0], r |-> [w |-> 0, m |-> 0, r |-> 1]], rel |-> (<<"flag", 0>> :> [w |-> 0, m |-> 0, r |-> 0]), relo |-> (<<"flag", 0>> :> ""), lw |-> (<<"data", 0>> :> <<"w", 2>>), rd |-> (<<"data", 0>> :> [w |-> 0, m |-> 0, r |-> 0]), race |-> {}]]),
    ([flag |-> 1,pc |-> [w |-> 2, m |-> 0, r |-> 0],hb |-> [vc |-> [w |-> [w |-> 3, m |-> 0, r |-> 0], m |-> [w |-> 0, m |-> 1, r |-> 0], r |-> [w |-> 0, m |-> 0, r |-> 1]], rel |-> (<<"flag", 0>> :> [w |-> 3, m |-> 0, r |-> 0]), relo |-> (<<"flag", 0>> :> "w"), lw |-> (<<"data", 0>> :> <<"w", 2>>), rd |-> (<<"data", 0>> :> [w |-> 0, m |-> 0, r |-> 0]), race |-> {}]]),
    ([flag |-> 1,pc |-> [w |-> 2, m |-> 1, r |-> 0],hb |-> [vc |-> [w |-> [w |-> 3, m |-> 0, r |-> 0], m |-> [w |-> 0, m |-> 2, r |-> 0], r |-> [w |-> 0, m |-> 0, r |-> 1]], rel |-> (<<"flag", 0>> :> [w |-> 0, m |-> 0, r |-> 0]), relo |-> (<<"flag", 0>> :> ""), lw |-> (<<"data", 0>> :> <<"w", 2>>), rd |-> (<<"data", 0>> :> [w |-> 0, m |-> 0, r |-> 0]), race |-> {}]]),
    ([flag |-> 1,pc |-> [w |-> 2, m |-> 1, r |-> 1],hb |-> [vc |-> [w |-> [w |-> 3, m |-> 0, r |-> 0], m |-> [w |-> 0, m |-> 2, r |-> 0], r |-> [w |-> 0, m |-> 0, r |-> 2]], rel |-> (<<"flag", 0>> :> [w |-> 0, m |-> 0, r |-> 0]), relo |-> (<<"flag", 0>> :> ""), lw |-> (<<"data", 0>> :> <<"w", 2>>), rd |-> (<<"data", 0>> :> [w |-> 0, m |-> 0, r |-> 0]), race |-> {}]]),
    ([flag |-> 1,pc |-> [w |-> 2, m |-> 1, r |-> 2],hb |-> [vc |-> [w |-> [w |-> 3, m |-> 0, r |-> 0], m |-> [w |-> 0, m |-> 2, r |-> 0], r |-> [w |-> 0, m |-> 0, r |-> 3]], rel |-> (<<"flag", 0>> :> [w |-> 0, m |-> 0, r |-> 0]), relo |-> (<<"flag", 0>> :> ""), lw |-> (<<"data", 0>> :> <<"w", 2>>), rd |-> (<<"data", 0>> :> [w |-> 0, m |-> 0, r |-> 3]), race |-> {<<"data", 0>>}]])
    >>
----


=============================================================================

---- CONFIG Litmus_TTrace_1790042600 ----
CONSTANTS
    WOrd = "release"
    ROrd = "acquire"
    UseRmw = FALSE
    MidRelaxedStore = TRUE

INVARIANT
    _inv

CHECK_DEADLOCK
    \* CHECK_DEADLOCK off because of PROPERTY or INVARIANT above.
    FALSE

INIT
    _init

NEXT
    _next

CONSTANT
    _TETrace <- _trace

ALIAS
    _expression
=============================================================================
\* Generated on Tue Sep 22 02:03:26 UTC 2026