SPECIFICATION Spec
CHECK_DEADLOCK FALSE
INVARIANT LifetimeOK
POSTCONDITION Accepted
