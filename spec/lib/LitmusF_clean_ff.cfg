CONSTANTS
  WOrd = "relaxed"
  ROrd = "relaxed"
  WFence = "release"
  RFence = "acquire"
INIT Init
NEXT Next
CHECK_DEADLOCK FALSE
INVARIANT RaceFree
