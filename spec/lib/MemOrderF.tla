------------------------------ MODULE MemOrderF ------------------------------
(* MemOrder.tla extended with std::atomic_thread_fence ([atomics.fences]).       *)
(* Same operators, two more components of hb:                                    *)
(*   frel : thread -> its vector clock at its last release fence (zero: none)    *)
(*   pacq : thread -> join of the release clocks of the stores it has read with  *)
(*          non-acquire loads / RMWs ("pending acquire"): an acquire fence later *)
(*          in that thread synchronizes with them                                *)
(* Rules:                                                                        *)
(*   - a release fence followed by an atomic store/RMW X of any order makes X    *)
(*     carry the clock of the fence (fence-release);                             *)
(*   - an atomic load/RMW of any order followed by an acquire fence acquires     *)
(*     what the store it read from carries (fence-acquire);                      *)
(*   - seq_cst fences are release + acquire fences; their position in the single *)
(*     total order S restricts the values loads may return but adds no           *)
(*     happens-before edge by itself, and TLC's interleavings are SC anyway.     *)
(* Kept separate from MemOrder.tla because `pacq` changes on every relaxed load  *)
(* and would only enlarge the state spaces of the fence-free components.         *)
EXTENDS Integers, FiniteSets

MaxOf(a, b) == IF a > b THEN a ELSE b
ZeroVC(T) == [u \in T |-> 0]
Join(T, a, b) == [u \in T |-> MaxOf(a[u], b[u])]

HBInit(T, ALocs, NLocs) ==
  [vc |-> [t \in T |-> [u \in T |-> IF u = t THEN 1 ELSE 0]],
   rel |-> [a \in ALocs |-> ZeroVC(T)],
   relo |-> [a \in ALocs |-> ""],
   lw |-> [x \in NLocs |-> <<"", 0>>],
   rd |-> [x \in NLocs |-> ZeroVC(T)],
   race |-> {},
   frel |-> [t \in T |-> ZeroVC(T)],
   pacq |-> [t \in T |-> ZeroVC(T)]]

IsAcq(o) == o \in {"acquire", "acq_rel", "seq_cst", "consume"}
IsRel(o) == o \in {"release", "acq_rel", "seq_cst"}

Tick(T, hb, t) == [hb EXCEPT !.vc[t][t] = @ + 1]

ALoad(T, hb0, t, a, o) ==
  LET hb == Tick(T, hb0, t) IN
  IF IsAcq(o) THEN [hb EXCEPT !.vc[t] = Join(T, @, hb.rel[a])]
  ELSE [hb EXCEPT !.pacq[t] = Join(T, @, hb.rel[a])]

\* what a store / RMW of order o by t releases: its clock (release operation) or the clock of its
\* last release fence (possibly zero)
Carried(hb, t, o) == IF IsRel(o) THEN hb.vc[t] ELSE hb.frel[t]

AStore(T, hb0, t, a, o) ==
  LET hb == Tick(T, hb0, t)
      c == Carried(hb, t, o)
  IN IF IsRel(o) THEN [hb EXCEPT !.rel[a] = c, !.relo[a] = t]
     ELSE IF hb.relo[a] = t THEN [hb EXCEPT !.rel[a] = Join(T, @, c)]
     ELSE [hb EXCEPT !.rel[a] = c, !.relo[a] = IF c = ZeroVC(T) THEN "" ELSE t]

ARmw(T, hb0, t, a, o) ==
  LET hb == Tick(T, hb0, t)
      h1 == IF IsAcq(o) THEN [hb EXCEPT !.vc[t] = Join(T, @, hb.rel[a])]
            ELSE [hb EXCEPT !.pacq[t] = Join(T, @, hb.rel[a])]
      c == Carried(h1, t, o)
  IN [h1 EXCEPT !.rel[a] = Join(T, @, c),
                !.relo[a] = IF @ = "" /\ c # ZeroVC(T) THEN t ELSE @]

AFence(T, hb0, t, o) ==
  LET hb == Tick(T, hb0, t)
      h1 == IF IsAcq(o) THEN [hb EXCEPT !.vc[t] = Join(T, @, hb.pacq[t])] ELSE hb
  IN IF IsRel(o) THEN [h1 EXCEPT !.frel[t] = h1.vc[t]] ELSE h1

NAWrite(T, hb0, t, x) ==
  LET hb == Tick(T, hb0, t)
      w == hb.lw[x]
      wrace == w[1] # "" /\ w[1] # t /\ w[2] > hb.vc[t][w[1]]
      rrace == \E u \in T \ {t} : hb.rd[x][u] > hb.vc[t][u]
  IN [hb EXCEPT !.lw[x] = <<t, hb.vc[t][t]>>, !.rd[x] = ZeroVC(T),
                !.race = IF wrace \/ rrace THEN @ \cup {x} ELSE @]

NARead(T, hb0, t, x) ==
  LET hb == Tick(T, hb0, t)
      w == hb.lw[x]
      wrace == w[1] # "" /\ w[1] # t /\ w[2] > hb.vc[t][w[1]]
  IN [hb EXCEPT !.rd[x][t] = hb.vc[t][t],
                !.race = IF wrace THEN @ \cup {x} ELSE @]

HBSpawn(T, hb, parent, child) == [hb EXCEPT !.vc[child] = Join(T, @, hb.vc[parent])]
HBJoin(T, hb, parent, child) == [hb EXCEPT !.vc[parent] = Join(T, @, hb.vc[child])]

NoRace(hb) == hb.race = {}
=============================================================================
