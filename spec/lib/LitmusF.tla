------------------------------- MODULE LitmusF -------------------------------
(* Self-test of MemOrderF.tla (fences) on message passing:                      *)
(*   writer: data = 1; [fence(WFence)]; flag.store(1, WOrd)                      *)
(*   reader: if flag.load(ROrd) = 1 then { [fence(RFence)]; read data }          *)
(* "none" = no fence at that place.                                              *)
EXTENDS MemOrderF, Sequences
CONSTANTS WOrd, ROrd, WFence, RFence
VARIABLES pc, flag, hb
T == {"w", "r"}
AL == {<<"flag", 0>>}
NL == {<<"data", 0>>}
F == <<"flag", 0>>
D == <<"data", 0>>
Init == pc = [t \in T |-> 0] /\ flag = 0 /\ hb = HBInit(T, AL, NL)
W1 == pc["w"] = 0 /\ pc' = [pc EXCEPT !["w"] = 1] /\ hb' = NAWrite(T, hb, "w", D) /\ UNCHANGED flag
W2 == pc["w"] = 1 /\ pc' = [pc EXCEPT !["w"] = 2] /\ UNCHANGED flag
      /\ hb' = IF WFence = "none" THEN hb ELSE AFence(T, hb, "w", WFence)
W3 == pc["w"] = 2 /\ pc' = [pc EXCEPT !["w"] = 3] /\ flag' = 1 /\ hb' = AStore(T, hb, "w", F, WOrd)
R1 == pc["r"] = 0 /\ pc' = [pc EXCEPT !["r"] = IF flag = 1 THEN 1 ELSE 3] /\ hb' = ALoad(T, hb, "r", F, ROrd) /\ UNCHANGED flag
R2 == pc["r"] = 1 /\ pc' = [pc EXCEPT !["r"] = 2] /\ UNCHANGED flag
      /\ hb' = IF RFence = "none" THEN hb ELSE AFence(T, hb, "r", RFence)
R3 == pc["r"] = 2 /\ pc' = [pc EXCEPT !["r"] = 3] /\ hb' = NARead(T, hb, "r", D) /\ UNCHANGED flag
Next == W1 \/ W2 \/ W3 \/ R1 \/ R2 \/ R3
RaceFree == NoRace(hb)
=============================================================================
