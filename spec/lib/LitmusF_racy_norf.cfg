CONSTANTS
  WOrd = "relaxed"
  ROrd = "relaxed"
  WFence = "release"
  RFence = "none"
INIT Init
NEXT Next
CHECK_DEADLOCK FALSE
INVARIANT RaceFree
