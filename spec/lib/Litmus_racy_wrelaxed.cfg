CONSTANTS
  WOrd = "relaxed"
  ROrd = "acquire"
  UseRmw = FALSE
  MidRelaxedStore = FALSE
INIT Init
NEXT Next
CHECK_DEADLOCK FALSE
INVARIANT RaceFree
