------------------------------ MODULE Lifetime ------------------------------
(* Object life-cycle model used by C11: every payload object a harness hands to  *)
(* dispenso is tracked (construction, copy, move, use, destruction).  The spec   *)
(* keeps the sets of live and dead object ids; the invariants say: no use or     *)
(* destruction of an object that is not live (use-after-destroy / double         *)
(* destroy), no construction of an id twice, and at every declared quiescence    *)
(* point (the dispenso objects of the program are destroyed, the call returned   *)
(* or rethrew) no payload object is still alive (leak), including on exception,  *)
(* cancellation and shutdown paths.                                              *)
EXTENDS Integers, Sequences, FiniteSets, Json, IOUtils, TLC

LogT == ndJsonDeserialize(IOEnv.TRACE)

\* blocks: the small-buffer blocks the LIBRARY itself holds (allocSmallBuffer<size> .. deallocSmallBuffer<size>,
\* logged by the guarded MemAlloc / MemFree hooks): a function from block address (logged as a small id) to
\* the size class it was allocated with.  A block must be returned with the size class it was taken with
\* (otherwise it migrates to the wrong pool: the pool it came from grows without bound) and no block may be
\* outstanding at a quiescence point.
VARIABLES live, dead, bad, prog, l, blocks
vars == <<live, dead, bad, prog, l, blocks>>

Init == live = {} /\ dead = {} /\ bad = <<>> /\ prog = "" /\ l = 1 /\ blocks = <<>>

Flag(b, what, ev) == IF Len(b) < 4 THEN Append(b, <<what, prog, ev>>) ELSE b

Step ==
  /\ l <= Len(LogT)
  /\ l' = l + 1
  /\ LET ev == LogT[l] IN
     CASE ev.e = "Reset" ->
            /\ prog' = ev.prog /\ live' = {} /\ dead' = {} /\ blocks' = <<>> /\ UNCHANGED bad
       [] ev.e = "Ctor" ->
            /\ live' = live \cup {ev.id}
            /\ bad' = (IF ev.id \in live \cup dead THEN Flag(bad, "id constructed twice", ev)
                       ELSE IF ev.src # 0 /\ ev.src \notin live THEN Flag(bad, "copy/move from an object that is not alive", ev)
                       ELSE bad)
            /\ UNCHANGED <<dead, prog, blocks>>
       [] ev.e = "Dtor" ->
            /\ live' = live \ {ev.id} /\ dead' = dead \cup {ev.id}
            /\ bad' = (IF ev.id \notin live THEN Flag(bad, "destroyed an object that is not alive", ev) ELSE bad)
            /\ UNCHANGED <<prog, blocks>>
       [] ev.e = "Use" ->
            /\ bad' = (IF ev.id \notin live THEN Flag(bad, "used an object that is not alive", ev) ELSE bad)
            /\ UNCHANGED <<live, dead, prog, blocks>>
       [] ev.e = "Quiesce" ->
            /\ bad' = (IF live # {} THEN Flag(bad, "payload objects alive at quiescence (leak)", [ids |-> live])
                       ELSE IF DOMAIN blocks # {} THEN Flag(bad, "small-buffer blocks of the library outstanding at quiescence (leak)", blocks)
                       ELSE bad)
            /\ UNCHANGED <<live, dead, prog, blocks>>
       [] ev.e = "Alloc" ->
            /\ blocks' = [b \in DOMAIN blocks \cup {ev.id} |-> IF b = ev.id THEN ev.src ELSE blocks[b]]
            /\ bad' = (IF ev.id \in DOMAIN blocks THEN Flag(bad, "allocator handed out a block that is still held", ev) ELSE bad)
            /\ UNCHANGED <<live, dead, prog>>
       [] ev.e = "Free" ->
            /\ blocks' = [b \in DOMAIN blocks \ {ev.id} |-> blocks[b]]
            /\ bad' = (IF ev.id \notin DOMAIN blocks THEN Flag(bad, "block returned that is not held (double free)", ev)
                       ELSE IF blocks[ev.id] # ev.src THEN Flag(bad, "block returned to a different size class than it was taken from", [ev |-> ev, allocated |-> blocks[ev.id]])
                       ELSE bad)
            /\ UNCHANGED <<live, dead, prog>>
       [] ev.e = "Expect" ->      \* a program-level postcondition evaluated by the driver: id names it, src = 0 iff it held
            /\ bad' = (IF ev.src # 0 THEN Flag(bad, "postcondition of the program violated", ev) ELSE bad)
            /\ UNCHANGED <<live, dead, prog, blocks>>
       [] OTHER -> UNCHANGED <<live, dead, bad, prog, blocks>>

Spec == Init /\ [][Step]_vars

\* (C11) lifetime discipline holds in every state of every recorded program
LifetimeOK == bad = <<>>

Accepted ==
  LET d == TLCGet("stats").diameter IN
  IF d - 1 = Len(LogT) THEN TRUE
  ELSE PrintT(<<"TRACE_REJECTED_AT_LINE", d, "OF", Len(LogT)>>) /\ FALSE
=============================================================================
