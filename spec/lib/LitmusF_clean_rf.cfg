CONSTANTS
  WOrd = "release"
  ROrd = "relaxed"
  WFence = "none"
  RFence = "acquire"
INIT Init
NEXT Next
CHECK_DEADLOCK FALSE
INVARIANT RaceFree
