CONSTANTS
  WOrd = "relaxed"
  ROrd = "relaxed"
  WFence = "release"
  RFence = "release"
INIT Init
NEXT Next
CHECK_DEADLOCK FALSE
INVARIANT RaceFree
