CONSTANTS
  WOrd = "seq_cst"
  ROrd = "seq_cst"
  UseRmw = FALSE
  MidRelaxedStore = FALSE
INIT Init
NEXT Next
CHECK_DEADLOCK FALSE
INVARIANT RaceFree
