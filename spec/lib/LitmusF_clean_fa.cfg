CONSTANTS
  WOrd = "relaxed"
  ROrd = "acquire"
  WFence = "release"
  RFence = "none"
INIT Init
NEXT Next
CHECK_DEADLOCK FALSE
INVARIANT RaceFree
