---- MODULE TC_p17603357 ----
EXTENDS PoolTrace
TCProg == [main |-> <<[op |-> "new", a |-> 2, b |-> 0], [op |-> "idle", a |-> 0, b |-> 0], [op |-> "pfq", a |-> 1, b |-> 0], [op |-> "quiet", a |-> 0, b |-> 0], [op |-> "del", a |-> 0, b |-> 0]>>]
====
