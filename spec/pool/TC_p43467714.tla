---- MODULE TC_p43467714 ----
EXTENDS PoolTrace
TCProg == [main |-> <<[op |-> "new", a |-> 2, b |-> 0], [op |-> "up", a |-> 0, b |-> 0], [op |-> "fq", a |-> 1, b |-> 0], [op |-> "bulk", a |-> 2, b |-> 2], [op |-> "sched", a |-> 4, b |-> 0], [op |-> "sync", a |-> 0, b |-> 0], [op |-> "del", a |-> 0, b |-> 0]>>, p2 |-> <<[op |-> "up", a |-> 0, b |-> 0], [op |-> "resize", a |-> 1, b |-> 0], [op |-> "resize", a |-> 3, b |-> 0]>>]
====
