------------------------------ MODULE MCPoolHB ------------------------------
(* Programs for PoolHB.tla (C10); program language: see MCPool.tla / ThreadPool.tla *)
EXTENDS PoolHB
O(op, a, b) == [op |-> op, a |-> a, b |-> b]
\* 1 worker: force-queued, inline-or-queued, ring fast path, central-queue bulk; destructor joins / drains
P_hb1 == [main |-> <<O("new", 1, 0), O("fq", 1, 0), O("sched", 2, 0), O("rbulk", 3, 1), O("bulk", 4, 1), O("del", 0, 0)>>]
\* placed scheduling from a parked 2-worker pool (claim + steal ring + re-wake, fallback to the central queue)
P_hb2 == [main |-> <<O("new", 2, 0), O("idle", 0, 0), O("pfq", 1, 0), O("placed", 2, 0), O("del", 0, 0)>>]
\* an external submitter racing a growing resize: new PoolWakeState, grown ring / steal arenas
P_hb3 == [main |-> <<O("new", 1, 0), O("resize", 2, 0), O("sync", 0, 0), O("del", 0, 0)>>,
          p2 |-> <<O("up", 0, 0), O("fq", 1, 0), O("rbulk", 2, 2)>>]
\* the same with a placed submission (claimed sleeper of the new generation -> grown steal arena)
P_hb4 == [main |-> <<O("new", 1, 0), O("resize", 2, 0), O("sync", 0, 0), O("del", 0, 0)>>,
          p2 |-> <<O("up", 0, 0), O("pfq", 1, 0)>>]
\* batched ring path with overflow + cascade-wrapped ring tasks (GS = 1: two wake groups)
P_hb5 == [main |-> <<O("new", 2, 0), O("idle", 0, 0), O("rbulk", 1, 2), O("del", 0, 0)>>]
\* setSignalingWake (enableEpochWaiter_ store between two resizes) racing a submitter
P_hb6 == [main |-> <<O("new", 1, 0), O("wake", 0, 0), O("sync", 0, 0), O("del", 0, 0)>>,
          p2 |-> <<O("up", 0, 0), O("fq", 1, 0)>>]
==========================================================================
