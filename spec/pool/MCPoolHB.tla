------------------------------ MODULE MCPoolHB ------------------------------
(* Programs for PoolHB.tla (C10); program language: see MCPool.tla / ThreadPool.tla *)
EXTENDS PoolHB
O(op, a, b) == [op |-> op, a |-> a, b |-> b]
\* 1 worker: force-queued + inline-or-queued (Mult = 0: the second submission runs inline while the first is pending)
P_hb1 == [main |-> <<O("new", 1, 0), O("fq", 1, 0), O("sched", 2, 0), O("del", 0, 0)>>]
\* 1 worker: ring fast path + central-queue bulk; destructor joins / drains
P_hb2 == [main |-> <<O("new", 1, 0), O("rbulk", 1, 1), O("bulk", 2, 1), O("del", 0, 0)>>]
\* placed scheduling into a parked pool (claim + steal ring + re-wake), then a placed submission that may fall back
P_hb3 == [main |-> <<O("new", 1, 0), O("idle", 0, 0), O("pfq", 1, 0), O("placed", 2, 0), O("del", 0, 0)>>]
\* an external submitter racing a growing resize (0 -> 1 workers): first PoolWakeState, grown ring / steal arenas;
\* the submitter runs inline (numThreads_ = 0), or enqueues / pushes to the new ring and wakes through the new wake state
P_hb4 == [main |-> <<O("new", 0, 0), O("resize", 1, 0), O("sync", 0, 0), O("del", 0, 0)>>,
          p2 |-> <<O("up", 0, 0), O("fq", 1, 0), O("rbulk", 2, 1)>>]
\* the same with a placed submission (claimed sleeper of the new generation -> steal ring of the grown arena)
P_hb5 == [main |-> <<O("new", 0, 0), O("resize", 1, 0), O("sync", 0, 0), O("del", 0, 0)>>,
          p2 |-> <<O("up", 0, 0), O("pfq", 1, 0)>>]
\* setSignalingWake (stop, enableEpochWaiter_ store, restart with a second PoolWakeState) racing a submitter
P_hb6 == [main |-> <<O("new", 1, 0), O("wake", 1, 0), O("sync", 0, 0), O("del", 0, 0)>>,
          p2 |-> <<O("up", 0, 0), O("fq", 1, 0)>>]
\* 2 workers, 2 wake groups (GS = 1): ring fast path with cascade-wrapped tasks out of a parked pool
P_hb7 == [main |-> <<O("new", 2, 0), O("idle", 0, 0), O("rbulk", 1, 2), O("del", 0, 0)>>]
\* 2 workers with one steal ring each (SS = 1), one wake group: placed submission into a parked pool; the kernel may
\* release the other waiter; the task waits in the claimed worker's steal ring (re-wake / destructor drain).
\* (TpWkCrossSteal itself is not reached: a worker probes other steal rings only after a ring pop made it prefer rings;
\*  the program that does that - new 2, rbulk 1 2, idle, pfq 3, del - has > 10^7 states)
P_hb8 == [main |-> <<O("new", 2, 0), O("idle", 0, 0), O("pfq", 1, 0), O("del", 0, 0)>>]
==========================================================================
