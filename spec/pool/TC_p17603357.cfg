CONSTANTS
  Prog <- TCProg
  Mult = 32
  MaxW = 2
  GS = 2
  SS = 2
  RingCap = 2
  SpinCheck = 2
  SpinLimit = 4
  CrossThresh = 2
  Branch = 2
  Batch = 8
  MaxGen = 6
  AllowTimeout = FALSE
SPECIFICATION TraceSpec
CHECK_DEADLOCK FALSE
POSTCONDITION TraceAccepted
INVARIANTS AtMostOnce AllRunAtEnd AccountingZeroAtQuiescence CountersSane NoError NoDeadlockObserved
