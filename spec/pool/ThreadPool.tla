----------------------------- MODULE ThreadPool -----------------------------
(* Implementation-level specification of dispenso::ThreadPool                     *)
(* (thread_pool.h/.cpp, thread_pool_wake.h/.cpp, epoch_waiter.h, Linux futex).    *)
(* One action per DISPENSO_VERIF_POINT site; a thread's pc is <<context, site>>   *)
(* so the site of the next step of a thread is pc[2].  The MPMC rings, the        *)
(* moodycamel central queue and the arenas are linearizable units at this level   *)
(* (their internals are Mpmc.tla etc.).  Shared state is ONE record S, thread     *)
(* locals one record per thread in L, ghost/history state in G.                   *)
(*                                                                                *)
(* Driver threads run programs of operations (Prog):                              *)
(*   new n | up | sync | idle | quiet | sched k | fq k | placed k | pfq k | bulk k n | rbulk k n |          *)
(*   resize n | wake b | del                                                      *)
(* Worker threads "w0".."w<MaxW-1>" are created by new/resize.                    *)
EXTENDS Integers, Sequences, FiniteSets, TLC

CONSTANTS
  Prog,        \* [driver name -> Seq([op, a, b])]
  Mult,        \* poolLoadMultiplier
  MaxW,        \* max number of workers ever
  GS,          \* DISPENSO_TUNE_WAKE_GROUP_SIZE
  SS,          \* DISPENSO_TUNE_STEAL_RING_SHARING
  RingCap,     \* DISPENSO_VERIF_RING_CAPACITY (power of two)
  SpinCheck,   \* DISPENSO_TUNE_SPIN_CHECK_INTERVAL
  SpinLimit,   \* DISPENSO_TUNE_FIXED_SPIN_ITERS
  CrossThresh, \* DISPENSO_TUNE_CROSS_RING_FAIL_THRESHOLD
  Branch,      \* DISPENSO_TUNE_WAKE_BRANCH_FACTOR
  Batch,       \* kWorkBatchSize
  MaxGen,      \* max number of PoolWakeState generations
  AllowTimeout \* may the environment fire futex time-outs (the sleep back-stop)

VARIABLES S, L, G
vars == <<S, L, G>>

Drivers == DOMAIN Prog
WName(i) == CASE i = 0 -> "w0" [] i = 1 -> "w1" [] i = 2 -> "w2" [] i = 3 -> "w3" [] OTHER -> "w4"
Workers == {WName(i) : i \in 0 .. (MaxW - 1)}
Threads == Drivers \cup Workers

MaxG == (MaxW + GS - 1) \div GS        \* max wake groups
MaxS == (MaxW + SS - 1) \div SS        \* max steal rings
StealCap == 4 * SS
CeilDiv(a, b) == (a + b - 1) \div b
Min(a, b) == IF a < b THEN a ELSE b
Max(a, b) == IF a > b THEN a ELSE b

OpIds(o) ==
  CASE o.op \in {"sched", "fq", "placed", "pfq"} -> {o.a}
    [] o.op \in {"bulk", "rbulk"} -> o.a .. (o.a + o.b - 1)
    [] OTHER -> {}
TaskIds == UNION {UNION {OpIds(Prog[d][i]) : i \in 1 .. Len(Prog[d])} : d \in Drivers}

\* ------------------------------------------------------------------ initial state
NoLoc == [pc |-> <<"", "None">>, stk |-> <<>>, ip |-> 1,
          x |-> 0, sl |-> 0, cnt |-> 0, i |-> 0, j |-> 0, n |-> 0, g |-> 0, gi |-> 0,
          m |-> {}, tgt |-> 0, wn |-> 0, res |-> 0, tid |-> 0, base |-> 0,
          pr |-> FALSE, fc |-> 0, lwd |-> 0, wk |-> FALSE, ep |-> 0, pre |-> 0, gen |-> 0,
          widx |-> 0, reason |-> 0, timed |-> FALSE,
          ctx |-> "", cur |-> 0, ph |-> 0, tn |-> 0]

EmptyWs == [n |-> 0, ts |-> 0, nwg |-> 0,
            mask |-> [g \in 0 .. (MaxG - 1) |-> {}],
            ep |-> [g \in 0 .. (MaxG - 1) |-> 0],
            fq |-> [g \in 0 .. (MaxG - 1) |-> {}]]

InitS == [alive |-> FALSE, nt |-> 0, nr |-> 0, ns |-> 0, wr |-> 0, nnw |-> 0, lf |-> 0,
          flag |-> FALSE, en |-> TRUE, cq |-> <<>>,
          ring |-> [i \in 0 .. (MaxW - 1) |-> <<>>], nra |-> 0,
          steal |-> [i \in 0 .. (MaxS - 1) |-> <<>>], nsa |-> 0, smask |-> {},
          run |-> [i \in 0 .. (MaxW - 1) |-> FALSE], nth |-> 0,
          wg |-> 0, ngen |-> 0, ws |-> [k \in 1 .. MaxGen |-> EmptyWs],
          wrap |-> [k \in TaskIds |-> -1]]

InitG == [sub |-> {}, ran |-> [k \in TaskIds |-> 0], incall |-> {}, fqset |-> {},
          bad |-> {}]   \* bad: violated ghost assertions (names)

Init ==
  /\ S = InitS
  /\ L = [t \in Threads |-> IF t \in Drivers
                              THEN [NoLoc EXCEPT !.pc = <<"dr", "Start">>]
                              ELSE NoLoc]
  /\ G = InitG

\* ------------------------------------------------------------------ small helpers
Pc(t) == L[t].pc
Site(t) == L[t].pc[2]
At(t, c, s) == L[t].pc = <<c, s>>
Op(t) == Prog[t][L[t].ip]
SetL(t, r) == L' = [L EXCEPT ![t] = r]
Push(l, lab) == [l EXCEPT !.stk = <<lab>> \o @]
Top(l) == l.stk[1]
Pop(l) == [l EXCEPT !.stk = Tail(@)]
Goto(l, c, s) == [l EXCEPT !.pc = <<c, s>>]
WIdx(t) == L[t].widx
GroupOf(i) == i \div GS
BitOf(i) == i % GS
NumGroups(w) == CeilDiv(w.n, GS)
LowBit(m) == CHOOSE b \in m : \A c \in m : b <= c
RemoveAt(s, k) == SubSeq(s, 1, k - 1) \o SubSeq(s, k + 1, Len(s))
Ws(gen) == S.ws[gen]

\* cascadeTargets_ of a PoolWakeState with n threads: thread h (in order) hosts group h+1
CascadeTargetOf(n, threadIdx) ==
  IF threadIdx + 1 < CeilDiv(n, GS) THEN threadIdx + 1 ELSE -1
CascadeTargetFor(n, threadIdx, count) ==
  IF threadIdx < 0 \/ threadIdx >= n THEN -1
  ELSE LET tg == CascadeTargetOf(n, threadIdx)
           lastGroup == (count - 1) \div GS
       IN IF tg <= lastGroup THEN tg ELSE -1

\* ------------------------------------------------------------------ commit helpers
Commit(s, t, l, g) == S' = s /\ L' = [L EXCEPT ![t] = l] /\ G' = g
RanG(g, id) == [g EXCEPT !.ran[id] = @ + 1]

OpDone(t, l) ==
  LET ip2 == l.ip + 1 IN
  [l EXCEPT !.ip = ip2, !.stk = <<>>,
            !.pc = IF ip2 > Len(Prog[t]) THEN <<"dr", "DrEnd">> ELSE <<"dr", "DrOp">>]

\* start of tryFindAndExecuteWork for a worker record
TryFindStart(l) == IF l.pr THEN Goto(l, "wk", "TpWkPopRing") ELSE Goto(l, "wkn", "TpWkReadFlag")

\* start of claimAndWakeOne / cascadeWakeSeed / wakeAll / cascadeWake / enqueueToCentralQueue /
\* conditionallyWake on generation l.x; the return label must already be on the stack
CallClaim(l) == Goto(l, "claim", "PwClaimReadSleeping")
CallSeed(l, count) == Goto([l EXCEPT !.cnt = count], "seed", "PwSeedReadSleeping")
CallEnq(l, id) == Goto([l EXCEPT !.tid = id], "enq", "TpEnqueue")
CallCw(l) == Goto(l, "cw", "TpLoadWake")

\* Local continuation after a subroutine returns: pops the return label and runs thread-local
\* code up to the next schedule point.  (Everything here is thread-local by construction: every
\* shared access of the code is preceded by a point.)
RECURSIVE Resume(_, _)
Resume(t, l0) ==
  LET lab == Top(l0)
      l == Pop(l0)
  IN
  CASE lab = "OpDone" -> OpDone(t, l)
    [] lab = "Cw" -> CallCw(l)                       \* after enqueue: scheduleImpl's wake logic
    [] lab = "WkRan" ->                               \* worker ran a task found by tryFind
         LET l1 == [l EXCEPT !.lwd = @ + 1, !.fc = 0] IN
         IF l1.lwd >= Batch THEN Goto(l1, "wk", "TpWkFlushWork")   \* batch flush, then tryFind again
         ELSE TryFindStart(l1)
    [] lab = "WkRan2" -> Goto(l, "wk2", "TpDecWork")  \* executeNext from the own-steal-ring probe
    [] lab = "Discard" -> Resume(t, l)
    [] lab = "RzRan" -> Goto(l, l.ctx, "TpDecWork")   \* tryExecuteNext: executeNext
    [] lab = "DrainRing" -> Goto([l EXCEPT !.ph = 4], l.ctx, "TpDecWork")    \* executeNext
    [] lab = "DrainSteal" -> Goto([l EXCEPT !.ph = 5], l.ctx, "TpDecWork")
    [] lab = "WakeMid" -> Goto(l, "wz", "TpStoreEnable")
    [] lab = "BulkInline" ->                          \* scheduleBulkImpl ran gen(i) inline
         LET l1 == [l EXCEPT !.i = @ + 1] IN
         IF l1.i < l1.cnt THEN Goto(l1, "bulk", "TpBulkLoadCheck") ELSE OpDone(t, l1)
    [] lab = "BulkWake" ->                            \* claimAndWakeOne returned inside the wake loop
         IF l.res < 0 \/ l.j + 1 >= l.tgt
           THEN Resume(t, Push(l, "BulkNext"))
           ELSE CallClaim(Push([l EXCEPT !.j = @ + 1], "BulkWake"))
    [] lab = "BulkNext" ->                            \* scheduleBulkEnqueue returned
         LET l1 == [l EXCEPT !.i = @ + l.n] IN
         IF l1.i < l1.cnt THEN Goto(l1, "bulk", "TpBulkLoadCheck") ELSE OpDone(t, l1)
    [] lab = "RbEnq" ->                               \* fast path: ring full, task went to central
         LET l1 == [l EXCEPT !.i = @ + 1] IN
         IF l1.i < l1.cnt /\ l1.i < l1.n THEN Goto(l1, "rb", "TpPushRing")
         ELSE Goto(l1, "rb", "TpLoadWake")
    [] lab = "RbbEnq" ->                              \* batched path: overflow tasks to central
         IF l.j + 1 < l.tgt
           THEN CallEnq(Push([l EXCEPT !.j = @ + 1], "RbbEnq"), l.base + l.j + 1)
           ELSE LET l1 == [l EXCEPT !.i = l.tgt, !.g = @ + 1] IN      \* next ring
                IF l1.g < l1.n /\ l1.i < l1.cnt THEN Goto(l1, "rbb", "TpPushRingBatch")
                ELSE Goto(l1, "rb", "TpLoadWake")
    [] lab = "PlClaimed" ->                           \* scheduleImplPlaced: claimAndWakeOne returned
         IF l.res >= 0 THEN Goto(l, "pl", "TpPushSteal") ELSE CallEnq(Push(Push(l, "OpDone"), "Cw"), l.tid)
    [] lab = "ClaimBumped" -> Goto(l, "claim", "PwStoreNextGroup")
    [] lab = "SeedNext" ->                            \* cascadeWakeSeed: next group
         LET l1 == [l EXCEPT !.g = @ + 1] IN
         IF l1.g <= l1.gi
           THEN (IF l1.sl = 0 THEN Goto(Push([l1 EXCEPT !.wn = 0], "SeedNext"), "bw", "EwBump")
                 ELSE Goto(l1, "seed", "PwSeedReadMask"))
           ELSE Resume(t, l1)
    [] lab = "AllNext" ->                             \* wakeAll: next group
         LET l1 == [l EXCEPT !.g = @ + 1] IN
         IF l1.g < NumGroups(Ws(l1.x)) THEN Goto(l1, "all", "PwAllReadMask") ELSE Resume(t, l1)
    [] lab = "AfterWakeAll" -> Goto([l EXCEPT !.ph = 1], l.ctx, "TpStealCentral")
    [] OTHER -> Goto(l, "error", lab)

\* "run task id" by thread t with local record l (return label already pushed).  A task wrapped by
\* the cascade fast path first calls cascadeWake(target).  Returns <<new local, ran-now?>>.
RunTask(t, l, id) ==
  IF S.wrap[id] >= 0
    THEN <<Goto([l EXCEPT !.tid = id, !.tgt = S.wrap[id]], "casc", "PwCascadeReadMask"), FALSE>>
    ELSE <<Resume(t, l), TRUE>>

\* ------------------------------------------------------------------ EpochWaiter bump (+ futex wake)
\* locals: x = generation, g = group, wn = futex wake count (0: bump() only)
EwBump(t) ==
  /\ At(t, "bw", "EwBump")
  /\ LET l == L[t]
         s == [S EXCEPT !.ws[l.x].ep[l.g] = @ + 1]
     IN IF l.wn > 0 THEN Commit(s, t, Goto(l, "bw", "FutexWake"), G)
        ELSE IF Top(l) = "CascInner"
          THEN Commit(s, t, Resume(t, Pop(l)), RanG(G, l.tid))
          ELSE Commit(s, t, Resume(t, l), G)

\* the kernel wakes ANY min(n, |waiters|) of the threads blocked on that group's futex word
FutexWake(t, W) ==
  /\ At(t, "bw", "FutexWake")
  /\ LET l == L[t]
         q == S.ws[l.x].fq[l.g]
         k == Min(l.wn, Cardinality(q))
     IN /\ W \subseteq q /\ Cardinality(W) = k
        /\ S' = [S EXCEPT !.ws[l.x].fq[l.g] = q \ W]
        /\ LET inner == Top(l) = "CascInner"
               lt == IF inner THEN Resume(t, Pop(l)) ELSE Resume(t, l)
           IN /\ L' = [u \in Threads |->
                         IF u = t THEN lt
                         ELSE IF u \in W THEN [L[u] EXCEPT !.pc = <<@[1], "FutexRet">>, !.reason = 1]
                         ELSE L[u]]
              /\ G' = IF inner THEN RanG(G, l.tid) ELSE G

\* ------------------------------------------------------------------ PoolWakeState::claimAndWakeOne
PwClaimReadSleeping(t) ==
  /\ At(t, "claim", "PwClaimReadSleeping")
  /\ LET l == L[t] IN
     IF Ws(l.x).ts <= 0 THEN Commit(S, t, Resume(t, [l EXCEPT !.res = -1]), G)
     ELSE Commit(S, t, Goto(l, "claim", "PwReadNextGroup"), G)

PwReadNextGroup(t) ==
  /\ At(t, "claim", "PwReadNextGroup")
  /\ LET l == L[t]
         g0 == IF Ws(l.x).nwg >= NumGroups(Ws(l.x)) THEN 0 ELSE Ws(l.x).nwg
     IN Commit(S, t, Goto([l EXCEPT !.g = g0, !.gi = 0], "claim", "PwClaimReadMask"), G)

\* after the mask of group g is exhausted: next group or give up
ClaimAdvance(t, l) ==
  LET l1 == [l EXCEPT !.g = (IF @ + 1 >= NumGroups(Ws(l.x)) THEN 0 ELSE @ + 1), !.gi = @ + 1] IN
  IF l1.gi < NumGroups(Ws(l.x)) THEN Goto(l1, "claim", "PwClaimReadMask")
  ELSE Resume(t, [l1 EXCEPT !.res = -1])

\* skip bits whose thread index is out of range, stop at the first claimable candidate
RECURSIVE ClaimScan(_, _)
ClaimScan(t, l) ==
  IF l.m = {} THEN ClaimAdvance(t, l)
  ELSE IF l.g * GS + LowBit(l.m) < Ws(l.x).n THEN Goto(l, "claim", "PwClaim")
  ELSE ClaimScan(t, [l EXCEPT !.m = @ \ {LowBit(@)}])

PwClaimReadMask(t) ==
  /\ At(t, "claim", "PwClaimReadMask")
  /\ LET l == L[t] IN
     Commit(S, t, ClaimScan(t, [l EXCEPT !.m = Ws(l.x).mask[l.g]]), G)

PwClaim(t) ==       \* tryClaimSleeper: fetch_and on the sleep mask
  /\ At(t, "claim", "PwClaim")
  /\ LET l == L[t]
         b == LowBit(l.m)
         had == b \in Ws(l.x).mask[l.g]
         s == [S EXCEPT !.ws[l.x].mask[l.g] = @ \ {b}]
     IN IF had
          THEN Commit(s, t, Goto(Push([l EXCEPT !.res = l.g * GS + b, !.wn = 1], "ClaimBumped"),
                                 "bw", "EwBump"), G)
          ELSE Commit(s, t, ClaimScan(t, [l EXCEPT !.m = @ \ {b}]), G)

PwStoreNextGroup(t) ==
  /\ At(t, "claim", "PwStoreNextGroup")
  /\ LET l == L[t]
         nx == IF l.g + 1 >= NumGroups(Ws(l.x)) THEN 0 ELSE l.g + 1
     IN Commit([S EXCEPT !.ws[l.x].nwg = nx], t, Resume(t, l), G)

\* ------------------------------------------------------------------ cascadeWakeSeed(count)
PwSeedReadSleeping(t) ==
  /\ At(t, "seed", "PwSeedReadSleeping")
  /\ LET l == L[t]
         w == Ws(l.x)
         lg == Min((l.cnt - 1) \div GS, NumGroups(w) - 1)
         l1 == [l EXCEPT !.gi = lg, !.g = 0, !.sl = w.ts]
     IN IF l.cnt <= 0 THEN Commit(S, t, Resume(t, l), G)
        ELSE IF w.ts = 0
          THEN Commit(S, t, Goto(Push([l1 EXCEPT !.wn = 0], "SeedNext"), "bw", "EwBump"), G)
          ELSE Commit(S, t, Goto(l1, "seed", "PwSeedReadMask"), G)

PwSeedReadMask(t) ==
  /\ At(t, "seed", "PwSeedReadMask")
  /\ LET l == L[t]
         w == Ws(l.x)
     \* always bumpAndWakeAll: the sleep mask is not consulted (a thread claimed by claimAndWakeOne can be parked
     \* with its bit cleared; /repo fix "range and cascade wakes do not trust the sleep mask")
     IN Commit(S, t, Goto(Push([l EXCEPT !.wn = 1000], "SeedNext"), "bw", "EwBump"), G)

\* ------------------------------------------------------------------ wakeAll
PwAllReadMask(t) ==
  /\ At(t, "all", "PwAllReadMask")
  /\ LET l == L[t]
         mk == Ws(l.x).mask[l.g]
     IN Commit(S, t, Goto(Push([l EXCEPT !.wn = 1000], "AllNext"),    \* always bumpAndWakeAll (the mask is not read)
                          "bw", "EwBump"), G)

\* ------------------------------------------------------------------ cascadeWake(target) in a wrapped task
PwCascadeReadMask(t) ==
  /\ At(t, "casc", "PwCascadeReadMask")
  /\ LET l == L[t]
         gen == S.wrap[l.tid] \div 100     \* wrap = gen*100 + target group
         tg == S.wrap[l.tid] % 100
     IN Commit(S, t, Goto(Push([l EXCEPT !.x = gen, !.g = tg, !.wn = 1000], "CascInner"),   \* always bumpAndWakeAll
                          "bw", "EwBump"), G)

\* ------------------------------------------------------------------ enqueueToCentralQueue(tid)
TpEnqueue(t) ==
  /\ At(t, "enq", "TpEnqueue")
  /\ Commit([S EXCEPT !.cq = Append(@, L[t].tid)], t, Goto(L[t], "enq", "TpSetFlag"), G)

TpSetFlagEnq(t) ==
  /\ At(t, "enq", "TpSetFlag")
  /\ Commit([S EXCEPT !.flag = TRUE], t, Resume(t, L[t]), G)

\* ------------------------------------------------------------------ conditionallyWake / scheduleImpl tail
CwLoadWake(t) ==
  /\ At(t, "cw", "TpLoadWake")
  /\ LET l == [L[t] EXCEPT !.x = S.wg] IN
     IF S.en /\ S.wg # 0 THEN Commit(S, t, Goto(l, "cw", "TpReadSleeping"), G)
     ELSE Commit(S, t, Resume(t, l), G)

CwReadSleeping(t) ==
  /\ At(t, "cw", "TpReadSleeping")
  /\ LET l == [L[t] EXCEPT !.sl = Ws(L[t].x).ts] IN
     IF l.sl > 0 THEN Commit(S, t, Goto(l, "cw", "TpReadPending"), G)
     ELSE Commit(S, t, Resume(t, l), G)

CwReadPending(t) ==
  /\ At(t, "cw", "TpReadPending")
  /\ LET l == L[t] IN
     IF S.wr > S.nt - l.sl THEN Commit(S, t, CallClaim(Push(l, "Discard")), G)
     ELSE Commit(S, t, Resume(t, l), G)

\* ================================================================== driver operations
NewWs(n) == [EmptyWs EXCEPT !.n = n]
\* workers 0..n-1 freshly spawned (parked at their Start point)
SpawnL(Lf, n, wakeMode) ==
  [u \in Threads |->
     IF \E i \in 0 .. (n - 1) : u = WName(i)
       THEN [NoLoc EXCEPT !.pc = <<"wk", "Start">>, !.widx = CHOOSE i \in 0 .. (n - 1) : u = WName(i),
                          !.cur = IF wakeMode THEN 1 ELSE 0]
       ELSE Lf[u]]

DrStart(t) ==
  /\ At(t, "dr", "Start")
  /\ Commit(S, t, [L[t] EXCEPT !.pc = IF Len(Prog[t]) = 0 THEN <<"dr", "DrEnd">> ELSE <<"dr", "DrOp">>], G)

DrEnd(t) ==
  /\ At(t, "dr", "DrEnd")
  /\ Commit(S, t, Goto(L[t], "", "Done"), G)

\* begin a resize to n (the caller pushed the return label); no point before the first stop
BeginResize(t, l, n, ctx) ==
  LET l1 == [l EXCEPT !.tn = n, !.ctx = ctx, !.i = 0, !.ph = 0] IN
  IF ctx = "rz" /\ n = S.nth THEN Resume(t, l1)
  ELSE IF S.nth > 0 THEN Goto(l1, ctx, "TpStop")
  ELSE Goto(l1, ctx, "TpRzLoadWake")

DrOp(t) ==
  /\ At(t, "dr", "DrOp")
  /\ LET l == L[t]
         o == Op(t)
     IN
     CASE o.op = "new" ->
            LET n == o.a
                s == [S EXCEPT !.alive = TRUE, !.lf = n * Mult, !.nt = n, !.nra = n,
                               !.nsa = CeilDiv(n, SS), !.nr = n, !.ns = CeilDiv(n, SS),
                               !.ngen = IF n > 0 THEN 1 ELSE 0, !.wg = IF n > 0 THEN 1 ELSE 0,
                               !.ws[1] = NewWs(n), !.nnw = n, !.nth = n,
                               !.run = [i \in 0 .. (MaxW - 1) |-> i < n]]
            IN /\ S' = s /\ G' = G
               /\ L' = [SpawnL(L, n, S.en) EXCEPT ![t] = OpDone(t, l)]
       [] o.op = "up" -> Commit(S, t, Goto(l, "dr", "GateUp"), G)
       [] o.op = "idle" -> Commit(S, t, Goto(l, "dr", "GateIdle"), G)
       [] o.op = "quiet" -> Commit(S, t, Goto(l, "dr", "GateQuiet"), G)
       [] o.op = "sync" -> Commit(S, t, Goto(l, "dr", "GateOthers"), G)
       [] o.op = "fq" ->
            Commit(S, t, Goto([l EXCEPT !.tid = o.a, !.ph = 0], "fq", "TpFqLoadThreads"),
                   [G EXCEPT !.sub = @ \cup {o.a}, !.fqset = @ \cup {o.a}])
       [] o.op = "sched" ->
            Commit(S, t, Goto([l EXCEPT !.tid = o.a, !.ph = 0], "sched", "TpInlineCheck"),
                   [G EXCEPT !.sub = @ \cup {o.a}])
       [] o.op = "placed" ->      \* schedulePlaced(f): the path futures and heavy task sets use
            Commit(S, t, Goto([l EXCEPT !.tid = o.a, !.ph = 9], "sched", "TpInlineCheck"),
                   [G EXCEPT !.sub = @ \cup {o.a}])
       [] o.op = "pfq" ->         \* schedulePlaced(f, ForceQueuingTag)
            Commit(S, t, Goto([l EXCEPT !.tid = o.a, !.ph = 9], "fq", "TpFqLoadThreads"),
                   [G EXCEPT !.sub = @ \cup {o.a}, !.fqset = @ \cup {o.a}])
       [] o.op = "bulk" ->
            Commit(S, t, Goto([l EXCEPT !.base = o.a, !.cnt = o.b, !.i = 0], "bulk", "TpBulkLoadThreads"),
                   [G EXCEPT !.sub = @ \cup (o.a .. (o.a + o.b - 1))])
       [] o.op = "rbulk" ->
            Commit(S, t, Goto([l EXCEPT !.base = o.a, !.cnt = o.b, !.i = 0], "dr", "DrRingCheck"),
                   [G EXCEPT !.sub = @ \cup (o.a .. (o.a + o.b - 1))])
       [] o.op = "resize" -> Commit(S, t, BeginResize(t, Push(l, "OpDone"), o.a, "rz"), G)
       [] o.op = "wake" ->
            \* setSignalingWake: resizeLocked(0); store enable; resizeLocked(previous size)
            Commit(S, t, BeginResize(t, Push(Push([l EXCEPT !.cur = S.nt, !.res = o.a], "OpDone"), "WakeMid"), 0, "rz"), G)
       [] o.op = "del" -> Commit(S, t, BeginResize(t, Push(l, "OpDone"), 0, "dt"), G)

WorkersOf == {WName(i) : i \in 0 .. (MaxW - 1)}
LiveWorkers == {u \in Workers : L[u].pc[2] \notin {"None", "Done"}}
AllParked == \A u \in LiveWorkers : L[u].pc[2] = "FutexBlocked"
AllRan == \A k \in G.sub : G.ran[k] >= 1

GateUp(t) == /\ At(t, "dr", "GateUp") /\ S.alive /\ Commit(S, t, OpDone(t, L[t]), G)
GateIdle(t) == /\ At(t, "dr", "GateIdle") /\ S.alive /\ AllParked /\ Commit(S, t, OpDone(t, L[t]), G)
GateQuiet(t) ==
  /\ At(t, "dr", "GateQuiet") /\ S.alive /\ AllParked /\ AllRan
  /\ Commit(S, t, OpDone(t, L[t]),
            [G EXCEPT !.bad = IF S.wr # 0 THEN @ \cup {"QuiescentWorkRemainingNonZero"} ELSE @])

GateOthers(t) ==
  /\ At(t, "dr", "GateOthers")
  /\ \A d \in Drivers \ {t} : L[d].pc[2] = "Done"
  /\ Commit(S, t, OpDone(t, L[t]), G)

\* the TaskSet-style racy guard of the ring fast path (task_set_impl.h): one step reading
\* numThreads_ and numRings_
DrRingCheck(t) ==
  /\ At(t, "dr", "DrRingCheck")
  /\ LET l == L[t] IN
     IF l.cnt * 4 >= S.nt /\ l.cnt <= S.nt /\ S.nr >= l.cnt
       THEN Commit(S, t, Goto(l, "rb", "TpAddWorkN"), G)
       ELSE Commit(S, t, Goto(l, "bulk", "TpBulkLoadThreads"), G)

\* ------------------------------------------------------------------ schedule(f) / schedule(f, ForceQueuingTag)
TpInlineCheck(t) ==
  /\ At(t, "sched", "TpInlineCheck")
  /\ LET l == L[t] IN
     IF S.wr > S.lf                       \* external producer: not pool-recursive
       THEN Commit(S, t, OpDone(t, l), RanG(G, l.tid))
       ELSE Commit(S, t, Goto(l, "fq", "TpFqLoadThreads"), G)   \* (l.ph = 9 marks the placed variant)

TpFqLoadThreads(t) ==
  /\ At(t, "fq", "TpFqLoadThreads")
  /\ LET l == L[t] IN
     IF S.nt = 0 THEN Commit(S, t, OpDone(t, l), RanG(G, l.tid))
     ELSE Commit(S, t, Goto(l, "fq", "TpAddWork"), G)

TpAddWork(t) ==       \* ph = 9: forceEnqueue<kPlaced = true> -> scheduleImplPlaced
  /\ At(t, "fq", "TpAddWork")
  /\ Commit([S EXCEPT !.wr = @ + 1], t,
            IF L[t].ph = 9 THEN Goto(L[t], "pl", "TpLoadWake")
            ELSE CallEnq(Push(Push(L[t], "OpDone"), "Cw"), L[t].tid), G)

\* ------------------------------------------------------------------ scheduleImplPlaced
PlFallback(l) == CallEnq(Push(Push(l, "OpDone"), "Cw"), l.tid)     \* central queue + conditionallyWake

PlLoadWake(t) ==
  /\ At(t, "pl", "TpLoadWake")
  /\ LET l == [L[t] EXCEPT !.x = S.wg] IN
     IF S.en /\ S.wg # 0 THEN Commit(S, t, Goto(l, "pl", "TpReadSleeping"), G)
     ELSE Commit(S, t, PlFallback(l), G)

PlReadSleeping(t) ==
  /\ At(t, "pl", "TpReadSleeping")
  /\ Commit(S, t, Goto([L[t] EXCEPT !.sl = Ws(L[t].x).ts], "pl", "TpReadNotWorking"), G)

PlReadNotWorking(t) ==    \* sleeping > 0 && numNotWorking_ - sleeping < kSpinnerWakeThreshold
  /\ At(t, "pl", "TpReadNotWorking")
  /\ LET l == L[t] IN
     IF l.sl > 0 /\ S.nnw - l.sl < 2 THEN Commit(S, t, CallClaim(Push(l, "PlClaimed")), G)
     ELSE Commit(S, t, PlFallback(l), G)

PlPushSteal(t) ==         \* stealIdx < numStealRings_ && stealRings_[stealIdx].try_push
  /\ At(t, "pl", "TpPushSteal")
  /\ LET l == L[t]
         si == l.res \div SS
     IN IF si < S.ns /\ Len(S.steal[si]) < StealCap
          THEN Commit([S EXCEPT !.steal[si] = Append(@, l.tid)], t, Goto([l EXCEPT !.tgt = si], "pl", "TpSetStealBit"), G)
          ELSE Commit(S, t, PlFallback(l), G)

PlSetStealBit(t) ==      \* then waiterFor(claimed thread).bumpAndWakeAll(): unconditional re-wake
  /\ At(t, "pl", "TpSetStealBit")
  /\ Commit([S EXCEPT !.smask = @ \cup {L[t].tgt}], t,
            Goto(Push([L[t] EXCEPT !.g = L[t].res \div GS, !.wn = 1000], "OpDone"), "bw", "EwBump"), G)

\* ------------------------------------------------------------------ scheduleBulk (central queue)
RECURSIVE RanAll(_, _)
RanAll(g, ids) == IF ids = {} THEN g ELSE LET k == CHOOSE k \in ids : TRUE IN RanAll(RanG(g, k), ids \ {k})

TpBulkLoadThreads(t) ==
  /\ At(t, "bulk", "TpBulkLoadThreads")
  /\ LET l == L[t] IN
     IF S.nt = 0
       THEN Commit(S, t, OpDone(t, l), RanAll(G, l.base .. (l.base + l.cnt - 1)))
       ELSE Commit(S, t, Goto([l EXCEPT !.gi = S.nt, !.i = 0], "bulk", "TpBulkLoadCheck"), G)

TpBulkLoadCheck(t) ==
  /\ At(t, "bulk", "TpBulkLoadCheck")
  /\ LET l == L[t]
         chunk == l.gi + (l.gi \div 2)
         room == S.lf - S.wr
         te0 == Min(Min(l.cnt - l.i, chunk), room)
         te == IF te0 = 0 THEN 1 ELSE te0
     IN IF S.wr > S.lf
          THEN Commit(S, t, Resume(t, Push(l, "BulkInline")), RanG(G, l.base + l.i))
          ELSE Commit(S, t, Goto([l EXCEPT !.n = te], "be", "TpAddWorkN"), G)

BeAddWorkN(t) ==
  /\ At(t, "be", "TpAddWorkN")
  /\ Commit([S EXCEPT !.wr = @ + L[t].n], t, Goto(L[t], "be", "TpEnqueueBulk"), G)

BeEnqueueBulk(t) ==
  /\ At(t, "be", "TpEnqueueBulk")
  /\ LET l == L[t] IN
     Commit([S EXCEPT !.cq = @ \o [k \in 1 .. l.n |-> l.base + l.i + k - 1]], t,
            Goto(l, "be", "TpSetFlag"), G)

BeSetFlag(t) ==
  /\ At(t, "be", "TpSetFlag")
  /\ Commit([S EXCEPT !.flag = TRUE], t, Goto(L[t], "be", "TpLoadWake"), G)

BeLoadWake(t) ==
  /\ At(t, "be", "TpLoadWake")
  /\ LET l == [L[t] EXCEPT !.x = S.wg] IN
     IF S.en /\ S.wg # 0 THEN Commit(S, t, Goto(l, "be", "TpReadSleeping"), G)
     ELSE Commit(S, t, Resume(t, Push(l, "BulkNext")), G)

BeReadSleeping(t) ==
  /\ At(t, "be", "TpReadSleeping")
  /\ LET l == [L[t] EXCEPT !.sl = Ws(L[t].x).ts] IN
     IF l.sl > 0 THEN Commit(S, t, Goto(l, "be", "TpReadNotWorking"), G)
     ELSE Commit(S, t, Resume(t, Push(l, "BulkNext")), G)

BeReadNotWorking(t) ==
  /\ At(t, "be", "TpReadNotWorking")
  /\ LET l == L[t]
         spinning == Max(0, S.nnw - l.sl)
         eff == Max(0, spinning - 2 + 1)          \* kSpinnerWakeThreshold = 2
         tw == Min(Max(0, l.n - eff), l.sl)
     IN IF tw <= 0 THEN Commit(S, t, Resume(t, Push(l, "BulkNext")), G)
        ELSE IF tw <= Branch
          THEN Commit(S, t, CallClaim(Push([l EXCEPT !.j = 0, !.tgt = tw], "BulkWake")), G)
          ELSE Commit(S, t, CallSeed(Push(l, "BulkNext"), tw), G)

\* ------------------------------------------------------------------ scheduleBulkToRings
RbAddWorkN(t) ==
  /\ At(t, "rb", "TpAddWorkN")
  /\ Commit([S EXCEPT !.wr = @ + L[t].cnt], t, Goto(L[t], "rb", "TpBulkLoadRingCount"), G)

RbLoadRingCount(t) ==
  /\ At(t, "rb", "TpBulkLoadRingCount")
  /\ S.nr > 0                                  \* (a zero ring count would divide by zero in the code)
  /\ LET l == [L[t] EXCEPT !.n = S.nr, !.gi = CeilDiv(L[t].cnt, S.nr), !.i = 0, !.g = 0] IN
     IF l.gi <= 1 THEN Commit(S, t, Goto(l, "rb", "TpBulkLoadWake"), G)
     ELSE Commit(S, t, Goto(l, "rbb", "TpPushRingBatch"), G)

RbLoadWake1(t) ==      \* fast path: wsCascade, useCascade
  /\ At(t, "rb", "TpBulkLoadWake")
  /\ LET useC == S.en /\ S.wg # 0 /\ (S.wg # 0 => Ws(S.wg).ts > 0)
         l == [L[t] EXCEPT !.x = S.wg, !.sl = IF useC THEN 1 ELSE 0]
     IN Commit(S, t, Goto(l, "rb", "TpPushRing"), G)

RbPushRing(t) ==
  /\ At(t, "rb", "TpPushRing")
  /\ LET l == L[t]
         id == l.base + l.i
         tg == IF l.sl = 1 THEN CascadeTargetFor(Ws(l.x).n, l.i, l.cnt) ELSE -1
         wv == IF tg >= 0 THEN l.x * 100 + tg ELSE -1
         s1 == [S EXCEPT !.wrap[id] = wv]
     IN IF Len(S.ring[l.i]) < RingCap
          THEN Commit([s1 EXCEPT !.ring[l.i] = Append(@, id)], t, Resume(t, Push(l, "RbEnq")), G)
          ELSE Commit(s1, t, CallEnq(Push(l, "RbEnq"), id), G)

RbbPushRingBatch(t) ==
  /\ At(t, "rbb", "TpPushRingBatch")
  /\ LET l == L[t]
         blockEnd == Min(l.i + l.gi, l.cnt)
         toStage == Min(blockEnd - l.i, RingCap)
         pushed == Min(RingCap - Len(S.ring[l.g]), toStage)
         s == [S EXCEPT !.ring[l.g] = @ \o [k \in 1 .. pushed |-> l.base + l.i + k - 1]]
         l1 == [l EXCEPT !.tgt = blockEnd, !.j = l.i + pushed]
     IN IF l.i + pushed < blockEnd
          THEN Commit(s, t, CallEnq(Push(l1, "RbbEnq"), l.base + l.i + pushed), G)
          ELSE Commit(s, t, Resume(t, Push([l1 EXCEPT !.j = blockEnd - 1], "RbbEnq")), G)

RbLoadWake2(t) ==
  /\ At(t, "rb", "TpLoadWake")
  /\ LET l == [L[t] EXCEPT !.x = S.wg] IN
     IF S.en /\ S.wg # 0 THEN Commit(S, t, CallSeed(Push(l, "OpDone"), l.cnt), G)
     ELSE Commit(S, t, OpDone(t, l), G)

\* ================================================================== resize / setSignalingWake / destructor
\* contexts "rz" (resizeLocked) and "dt" (~ThreadPool); locals: tn = target size, i = loop index,
\* ph = which tryExecuteNext loop (1: before join, 2: dtor after join, 3: resize-to-zero tail)
TpStop(t) ==
  /\ L[t].pc[1] \in {"rz", "dt"} /\ Site(t) = "TpStop"
  /\ LET l == L[t]
         l1 == [l EXCEPT !.i = @ + 1]
     IN Commit([S EXCEPT !.run[l.i] = FALSE], t,
               IF l1.i < S.nth THEN l1 ELSE Goto(l1, l.ctx, "TpRzLoadWake"), G)

TpRzLoadWake(t) ==
  /\ L[t].pc[1] \in {"rz", "dt"} /\ Site(t) = "TpRzLoadWake"
  /\ LET l == [L[t] EXCEPT !.x = S.wg, !.g = 0] IN
     IF S.wg # 0 THEN Commit(S, t, Goto(Push(l, "AfterWakeAll"), "all", "PwAllReadMask"), G)
     ELSE Commit(S, t, Goto([l EXCEPT !.ph = 1], l.ctx, "TpStealCentral"), G)

\* what follows the ring / steal-ring drains
AfterDrain(t, l) ==
  IF l.ctx = "dt" THEN Resume(t, l)                        \* members destroyed; return
  ELSE IF l.tn > 0
    THEN (IF l.tn > S.nra THEN Goto(l, "rz", "TpRzGrowRings") ELSE Goto(l, "rz", "TpRzStoreNumRings"))
    ELSE Goto(l, "rz", "TpRzStoreNumSteal")

\* the destructor's last step destroys the members: the pool is gone once control is back in the driver
FixAlive(s, l, lt) == IF l.ctx = "dt" /\ lt.pc[1] = "dr" THEN [s EXCEPT !.alive = FALSE] ELSE s
StartStealDrain(t, l) ==
  IF S.nsa > 0 THEN Goto([l EXCEPT !.i = 0], l.ctx, "TpRzDrainSteal") ELSE AfterDrain(t, l)
StartRingDrain(t, l) ==
  IF S.nra > 0 THEN Goto([l EXCEPT !.i = 0], l.ctx, "TpRzDrainRing") ELSE StartStealDrain(t, l)

\* what follows the joins
AfterJoin(t, l) ==
  IF l.ctx = "dt" THEN Goto([l EXCEPT !.ph = 2], "dt", "TpStealCentral")
  ELSE StartRingDrain(t, l)

\* tryExecuteNext(): dequeue ANY element of the central queue (k = its position) or find it empty
TpStealCentral(t, k) ==
  /\ L[t].pc[1] \in {"rz", "dt"} /\ Site(t) = "TpStealCentral"
  /\ LET l == L[t] IN
     IF S.cq # <<>>
       THEN /\ k \in 1 .. Len(S.cq)
            /\ LET rt == RunTask(t, Push(l, "RzRan"), S.cq[k]) IN
               Commit([S EXCEPT !.cq = RemoveAt(@, k)], t, rt[1],
                      IF rt[2] THEN RanG(G, S.cq[k]) ELSE G)
       ELSE /\ k = 0
            /\ (CASE l.ph = 1 ->
                      IF S.nth > 0 THEN Commit(S, t, Goto([l EXCEPT !.i = 0], l.ctx, "TpRzJoined"), G)
                      ELSE Commit([S EXCEPT !.nth = 0], t, AfterJoin(t, l), G)
                  [] l.ph = 2 -> LET lt == StartRingDrain(t, l) IN Commit(FixAlive(S, l, lt), t, lt, G)
                  [] l.ph = 3 -> Commit(S, t, Resume(t, l), G))

TpDecWorkRz(t) ==
  /\ L[t].pc[1] \in {"rz", "dt"} /\ Site(t) = "TpDecWork"
  /\ Commit([S EXCEPT !.wr = @ - 1], t,
            Goto(L[t], L[t].ctx, CASE L[t].ph = 4 -> "TpRzDrainRing" [] L[t].ph = 5 -> "TpRzDrainSteal"
                                   [] OTHER -> "TpStealCentral"), G)

\* thread_.join() returned for worker i (enabled once that worker has exited)
TpRzJoined(t) ==
  /\ L[t].pc[1] \in {"rz", "dt"} /\ Site(t) = "TpRzJoined"
  /\ LET l == L[t]
         l1 == [l EXCEPT !.i = @ + 1]
     IN /\ L[WName(l.i)].pc[2] = "Done"
        /\ IF l1.i < S.nth THEN Commit(S, t, l1, G)
           ELSE Commit([S EXCEPT !.nth = 0], t, AfterJoin(t, l1), G)

\* drain ring i: pop and executeNext (run + workRemaining_ decrement), or move on
TpRzDrainRing(t) ==
  /\ L[t].pc[1] \in {"rz", "dt"} /\ Site(t) = "TpRzDrainRing"
  /\ LET l == L[t] IN
     IF l.i < S.nra /\ S.ring[l.i] # <<>>
       THEN LET id == Head(S.ring[l.i])
                rt == RunTask(t, Push(l, "DrainRing"), id)
            IN Commit([S EXCEPT !.ring[l.i] = Tail(@)], t, rt[1], IF rt[2] THEN RanG(G, id) ELSE G)
       ELSE IF l.i + 1 < S.nra THEN Commit(S, t, [l EXCEPT !.i = @ + 1], G)
       ELSE LET lt == StartStealDrain(t, l) IN Commit(FixAlive(S, l, lt), t, lt, G)

TpRzDrainSteal(t) ==
  /\ L[t].pc[1] \in {"rz", "dt"} /\ Site(t) = "TpRzDrainSteal"
  /\ LET l == L[t] IN
     IF l.i < S.nsa /\ S.steal[l.i] # <<>>
       THEN LET id == Head(S.steal[l.i])
                rt == RunTask(t, Push(l, "DrainSteal"), id)
            IN Commit([S EXCEPT !.steal[l.i] = Tail(@)], t, rt[1], IF rt[2] THEN RanG(G, id) ELSE G)
       ELSE IF l.i + 1 < S.nsa THEN Commit(S, t, [l EXCEPT !.i = @ + 1], G)
       ELSE LET lt == AfterDrain(t, l) IN Commit(FixAlive(S, l, lt), t, lt, G)

TpRzGrowRings(t) ==
  /\ At(t, "rz", "TpRzGrowRings")
  /\ Commit([S EXCEPT !.nra = L[t].tn], t, Goto(L[t], "rz", "TpRzStoreNumRings"), G)

TpRzStoreNumRings(t) ==      \* numRings_.store(rings_.size()); then the steal arena grows (no point)
  /\ At(t, "rz", "TpRzStoreNumRings")
  /\ LET n == L[t].tn IN
     Commit([S EXCEPT !.nr = S.nra, !.nsa = Max(@, CeilDiv(n, SS))], t, Goto(L[t], "rz", "TpRzStoreNumSteal"), G)

TpRzStoreNumSteal(t) ==      \* numStealRings_.store; for n > 0 the new PoolWakeState is then built
  /\ At(t, "rz", "TpRzStoreNumSteal")
  /\ LET n == L[t].tn IN
     IF n > 0
       THEN /\ S.ngen < MaxGen
            /\ Commit([S EXCEPT !.ns = CeilDiv(n, SS), !.ngen = @ + 1, !.ws[S.ngen + 1] = NewWs(n)], t,
                      Goto(L[t], "rz", "TpRzStoreWake"), G)
       ELSE Commit([S EXCEPT !.ns = 0], t, Goto(L[t], "rz", "TpRzStoreWake"), G)

TpRzStoreWake(t) ==
  /\ At(t, "rz", "TpRzStoreWake")
  /\ Commit([S EXCEPT !.wg = IF L[t].tn > 0 THEN S.ngen ELSE 0], t, Goto(L[t], "rz", "TpRzStoreLoadFactor"), G)

TpRzStoreLoadFactor(t) ==
  /\ At(t, "rz", "TpRzStoreLoadFactor")
  /\ Commit([S EXCEPT !.lf = L[t].tn * Mult], t, Goto(L[t], "rz", "TpRzStoreNumThreads"), G)

TpRzStoreNumThreads(t) ==
  /\ At(t, "rz", "TpRzStoreNumThreads")
  /\ Commit([S EXCEPT !.nt = L[t].tn], t, Goto(L[t], "rz", "TpRzStoreNotWorking"), G)

TpRzStoreNotWorking(t) ==    \* then the new workers are spawned (no point until the next op)
  /\ At(t, "rz", "TpRzStoreNotWorking")
  /\ LET l == L[t]
         n == l.tn
         s == [S EXCEPT !.nnw = n, !.nth = n, !.run = [i \in 0 .. (MaxW - 1) |-> i < n]]
         lt == IF n = 0 THEN Goto([l EXCEPT !.ph = 3], "rz", "TpStealCentral") ELSE Resume(t, l)
     IN /\ S' = s /\ G' = G
        /\ L' = [SpawnL(L, n, S.en) EXCEPT ![t] = lt]

TpStoreEnable(t) ==          \* setSignalingWake between its two resizes
  /\ At(t, "wz", "TpStoreEnable")
  /\ LET l == L[t] IN
     Commit([S EXCEPT !.en = (l.res # 0)], t, BeginResize(t, l, l.cur, "rz"), G)

\* ================================================================== worker thread (threadLoopImpl)
\* locals: widx, gen (PoolWakeState captured at start), pr = preferRing, fc = failCount,
\* lwd = localWorkDone, wk = isWorking, ep = epoch, pre = preWaitEpoch, cur = 1 iff wake-sleep mode
MyGroup(l) == GroupOf(l.widx)
MySteal(l) == l.widx \div SS
LoopHead(l) == Goto(l, "wk", "TpWkLoadRunning")

WkStart(t) == /\ At(t, "wk", "Start") /\ Commit(S, t, Goto(L[t], "wk", "TpWkInit"), G)

TpWkInit(t) ==
  /\ At(t, "wk", "TpWkInit")
  /\ Commit(S, t, Goto([L[t] EXCEPT !.gen = S.wg], "wki", "EwLoadEpochC"), G)

WkiLoadEpoch(t) ==
  /\ At(t, "wki", "EwLoadEpochC")
  /\ LET l == L[t] IN
     Commit(S, t, LoopHead([l EXCEPT !.ep = Ws(l.gen).ep[MyGroup(l)], !.fc = 0, !.wk = FALSE, !.pr = FALSE]), G)

\* exit of the thread function: markIdle(isWorking) then return
WkExit(l) == IF l.wk THEN Goto(l, "wkx", "TpWkIncNotWorking") ELSE Goto(l, "", "Done")

TpWkLoadRunning(t) ==
  /\ At(t, "wk", "TpWkLoadRunning")
  /\ LET l == L[t] IN
     IF ~S.run[l.widx] THEN Commit(S, t, WkExit(l), G)
     ELSE Commit(S, t, TryFindStart([l EXCEPT !.lwd = 0]), G)

\* tryFindAndExecuteWork returned false
FindFail(l) ==
  IF l.lwd > 0
    THEN (IF ~l.wk THEN Goto(l, "wkf", "TpWkDecNotWorking") ELSE Goto(l, "wkf", "TpWkFlushWork"))
    ELSE LET l1 == [l EXCEPT !.fc = @ + 1] IN
         IF l1.fc < SpinCheck THEN LoopHead(l1) ELSE Goto(l1, "wk", "TpWkPopSteal2")

\* pop own locality ring; prefer branch ("wk") falls through to the flag, the other ("wkn") fails
TpWkPopRing(t) ==
  /\ L[t].pc[1] \in {"wk", "wkn"} /\ Site(t) = "TpWkPopRing"
  /\ LET l == L[t]
         r == S.ring[l.widx]
     IN IF r # <<>>
          THEN LET rt == RunTask(t, Push([l EXCEPT !.pr = TRUE], "WkRan"), Head(r)) IN
               Commit([S EXCEPT !.ring[l.widx] = Tail(@)], t, rt[1], IF rt[2] THEN RanG(G, Head(r)) ELSE G)
          ELSE IF l.pc[1] = "wk" THEN Commit(S, t, Goto(l, "wk", "TpWkReadFlag"), G)
          ELSE Commit(S, t, FindFail(l), G)

TpWkReadFlag(t) ==
  /\ L[t].pc[1] \in {"wk", "wkn"} /\ Site(t) = "TpWkReadFlag"
  /\ LET l == L[t] IN
     IF S.flag THEN Commit(S, t, Goto(l, l.pc[1], "TpWkDequeue"), G)
     ELSE IF l.pc[1] = "wk" THEN Commit(S, t, Goto(l, "wk", "TpWkPopSteal"), G)
     ELSE Commit(S, t, Goto(l, "wkn", "TpWkPopRing"), G)

TpWkDequeue(t, k) ==
  /\ L[t].pc[1] \in {"wk", "wkn"} /\ Site(t) = "TpWkDequeue"
  /\ LET l == L[t] IN
     IF S.cq # <<>>
       THEN /\ k \in 1 .. Len(S.cq)
            /\ LET rt == RunTask(t, Push([l EXCEPT !.pr = FALSE], "WkRan"), S.cq[k]) IN
               Commit([S EXCEPT !.cq = RemoveAt(@, k)], t, rt[1], IF rt[2] THEN RanG(G, S.cq[k]) ELSE G)
       ELSE /\ k = 0
            /\ Commit(S, t, Goto(l, l.pc[1], "TpWkClearFlag"), G)

TpWkClearFlag(t) ==
  /\ L[t].pc[1] \in {"wk", "wkn"} /\ Site(t) = "TpWkClearFlag"
  /\ LET l == L[t] IN
     Commit([S EXCEPT !.flag = FALSE], t,
            IF l.pc[1] = "wk" THEN Goto(l, "wk", "TpWkPopSteal") ELSE Goto(l, "wkn", "TpWkPopRing"), G)

AfterOwnSteal(l) ==
  IF l.fc >= CrossThresh THEN Goto(l, "wk", "TpWkReadStealMask") ELSE FindFail(l)

TpWkPopSteal(t) ==
  /\ At(t, "wk", "TpWkPopSteal")
  /\ LET l == L[t]
         r == S.steal[MySteal(l)]
     IN IF r # <<>>
          THEN LET rt == RunTask(t, Push(l, "WkRan"), Head(r)) IN
               Commit([S EXCEPT !.steal[MySteal(l)] = Tail(@)], t, rt[1], IF rt[2] THEN RanG(G, Head(r)) ELSE G)
          ELSE Commit(S, t, AfterOwnSteal(l), G)

TpWkReadStealMask(t) ==
  /\ At(t, "wk", "TpWkReadStealMask")
  /\ LET l == L[t]
         mk == S.smask \ {MySteal(l)}
     IN IF mk # {} THEN Commit(S, t, Goto([l EXCEPT !.tgt = LowBit(mk)], "wk", "TpWkCrossSteal"), G)
        ELSE Commit(S, t, FindFail(l), G)

TpWkCrossSteal(t) ==
  /\ At(t, "wk", "TpWkCrossSteal")
  /\ LET l == L[t]
         r == S.steal[l.tgt]
     IN IF r # <<>>
          THEN LET rt == RunTask(t, Push(l, "WkRan"), Head(r)) IN
               Commit([S EXCEPT !.steal[l.tgt] = Tail(@)], t, rt[1], IF rt[2] THEN RanG(G, Head(r)) ELSE G)
          ELSE Commit(S, t, Goto(l, "wk", "TpWkClearStealBit"), G)

TpWkClearStealBit(t) ==
  /\ At(t, "wk", "TpWkClearStealBit")
  /\ Commit([S EXCEPT !.smask = @ \ {L[t].tgt}], t, FindFail(L[t]), G)

TpWkFlushBatch(t) ==        \* inside the inner while: localWorkDone reached the batch size
  /\ At(t, "wk", "TpWkFlushWork")
  /\ LET l == L[t] IN
     Commit([S EXCEPT !.wr = @ - l.lwd], t, TryFindStart([l EXCEPT !.lwd = 0]), G)

TpWkDecNotWorkingF(t) ==    \* markWorkDone before the final flush
  /\ At(t, "wkf", "TpWkDecNotWorking")
  /\ Commit([S EXCEPT !.nnw = @ - 1], t, Goto([L[t] EXCEPT !.wk = TRUE], "wkf", "TpWkFlushWork"), G)

TpWkFlushFinal(t) ==
  /\ At(t, "wkf", "TpWkFlushWork")
  /\ LET l == L[t] IN
     Commit([S EXCEPT !.wr = @ - l.lwd], t, LoopHead([l EXCEPT !.fc = 0]), G)

\* second probe of the own steal ring (outside tryFind), then possibly go to sleep
GoSleep(l) ==
  IF l.wk THEN Goto(l, "wks", "TpWkIncNotWorking")
  ELSE IF l.cur = 1 THEN Goto(l, "wks", "PwSetSleepBit")
  ELSE Goto([l EXCEPT !.pre = l.ep], "wks", "TpWkWaitLoadWake")

TpWkPopSteal2(t) ==
  /\ At(t, "wk", "TpWkPopSteal2")
  /\ LET l == L[t]
         r == S.steal[MySteal(l)]
     IN IF r # <<>>
          THEN LET l1 == [l EXCEPT !.tid = Head(r)]
                   s == [S EXCEPT !.steal[MySteal(l)] = Tail(@)]
               IN IF ~l.wk THEN Commit(s, t, Goto(l1, "wk2", "TpWkDecNotWorking"), G)
                  ELSE LET rt == RunTask(t, Push(l1, "WkRan2"), Head(r)) IN
                       Commit(s, t, rt[1], IF rt[2] THEN RanG(G, Head(r)) ELSE G)
          ELSE LET l1 == [l EXCEPT !.fc = @ + 1] IN
               IF l1.fc >= SpinLimit THEN Commit(S, t, GoSleep(l1), G)
               ELSE Commit(S, t, LoopHead(l1), G)

TpWkDecNotWorking2(t) ==
  /\ At(t, "wk2", "TpWkDecNotWorking")
  /\ LET l == [L[t] EXCEPT !.wk = TRUE]
         rt == RunTask(t, Push(l, "WkRan2"), l.tid)
     IN Commit([S EXCEPT !.nnw = @ - 1], t, rt[1], IF rt[2] THEN RanG(G, l.tid) ELSE G)

TpDecWork2(t) ==
  /\ At(t, "wk2", "TpDecWork")
  /\ Commit([S EXCEPT !.wr = @ - 1], t, LoopHead([L[t] EXCEPT !.fc = 0]), G)

TpWkIncNotWorkingS(t) ==    \* markIdle before sleeping
  /\ At(t, "wks", "TpWkIncNotWorking")
  /\ LET l == [L[t] EXCEPT !.wk = FALSE] IN
     Commit([S EXCEPT !.nnw = @ + 1], t, GoSleep(l), G)

PwSetSleepBit(t) ==
  /\ At(t, "wks", "PwSetSleepBit")
  /\ LET l == L[t] IN
     Commit([S EXCEPT !.ws[l.gen].mask[MyGroup(l)] = @ \cup {BitOf(l.widx)}], t, Goto(l, "wks", "PwIncSleeping"), G)

PwIncSleeping(t) ==
  /\ At(t, "wks", "PwIncSleeping")
  /\ LET l == L[t] IN
     Commit([S EXCEPT !.ws[l.gen].ts = @ + 1], t, Goto(l, "wks", "TpWkLoadRunning"), G)

TpWkLoadRunningS(t) ==      \* re-check of running after enterSleep
  /\ At(t, "wks", "TpWkLoadRunning")
  /\ LET l == L[t] IN
     IF ~S.run[l.widx] THEN Commit(S, t, Goto(l, "wkq", "PwClearSleepBit"), G)
     ELSE Commit(S, t, Goto([l EXCEPT !.pre = l.ep], "wks", "TpWkWaitLoadWake"), G)

TpWkWaitLoadWake(t) ==
  /\ At(t, "wks", "TpWkWaitLoadWake")
  /\ S.wg # 0
  /\ Commit(S, t, Goto([L[t] EXCEPT !.x = S.wg], "wkw", "EwLoadEpochA"), G)

\* waitOnThread returned `result`
AfterWait(l, result) ==
  LET l1 == [l EXCEPT !.ep = result] IN
  IF l.cur = 1 THEN Goto(l1, "wke", "PwClearSleepBit") ELSE Goto(l1, "wke", "TpWkSizeApprox")

EwLoadEpochA(t) ==
  /\ At(t, "wkw", "EwLoadEpochA")
  /\ LET l == L[t]
         c == Ws(l.x).ep[MyGroup(l)]
     IN IF c # l.ep THEN Commit(S, t, AfterWait(l, c), G)
        ELSE Commit(S, t, Goto(l, "wkw", "EwLoadEpochB"), G)

EwLoadEpochB(t) ==
  /\ At(t, "wkw", "EwLoadEpochB")
  /\ LET l == L[t]
         c == Ws(l.x).ep[MyGroup(l)]
     IN IF c = l.ep THEN Commit(S, t, Goto(l, "wkw", "FutexWait"), G)
        ELSE Commit(S, t, AfterWait(l, c), G)

FutexWait(t) ==
  /\ At(t, "wkw", "FutexWait")
  /\ LET l == L[t]
         g == MyGroup(l)
     IN IF Ws(l.x).ep[g] = l.ep
          THEN Commit([S EXCEPT !.ws[l.x].fq[g] = @ \cup {t}], t,
                      Goto([l EXCEPT !.reason = 0, !.timed = TRUE], "wkw", "FutexBlocked"), G)
          ELSE Commit(S, t, Goto(l, "wkw", "EwLoadEpochC"), G)

FutexRet(t) ==
  /\ At(t, "wkw", "FutexRet")
  /\ Commit(S, t, Goto(L[t], "wkw", "EwLoadEpochC"), G)

\* environment: the idle-sleep back-stop fires
FutexTimeout(t) ==
  /\ AllowTimeout
  /\ At(t, "wkw", "FutexBlocked")
  /\ LET l == L[t] IN
     Commit([S EXCEPT !.ws[l.x].fq[MyGroup(l)] = @ \ {t}], t,
            Goto([l EXCEPT !.reason = 2], "wkw", "FutexRet"), G)

EwLoadEpochC(t) ==
  /\ At(t, "wkw", "EwLoadEpochC")
  /\ LET l == L[t] IN Commit(S, t, AfterWait(l, Ws(l.x).ep[MyGroup(l)]), G)

PwClearSleepBit(t) ==
  /\ L[t].pc[1] \in {"wke", "wkq"} /\ Site(t) = "PwClearSleepBit"
  /\ LET l == L[t] IN
     Commit([S EXCEPT !.ws[l.gen].mask[MyGroup(l)] = @ \ {BitOf(l.widx)}], t, Goto(l, l.pc[1], "PwDecSleeping"), G)

PwDecSleeping(t) ==
  /\ L[t].pc[1] \in {"wke", "wkq"} /\ Site(t) = "PwDecSleeping"
  /\ LET l == L[t] IN
     Commit([S EXCEPT !.ws[l.gen].ts = @ - 1], t,
            IF l.pc[1] = "wke" THEN Goto(l, "wke", "TpWkSizeApprox") ELSE WkExit(l), G)

TpWkSizeApprox(t) ==
  /\ At(t, "wke", "TpWkSizeApprox")
  /\ LET l == L[t] IN
     IF l.ep = l.pre /\ S.cq # <<>> THEN Commit(S, t, Goto(l, "wke", "TpSetFlag"), G)
     ELSE Commit(S, t, LoopHead([l EXCEPT !.fc = 0]), G)

TpSetFlagWk(t) ==
  /\ At(t, "wke", "TpSetFlag")
  /\ Commit([S EXCEPT !.flag = TRUE], t, LoopHead([L[t] EXCEPT !.fc = 0]), G)

TpWkIncNotWorkingX(t) ==
  /\ At(t, "wkx", "TpWkIncNotWorking")
  /\ Commit([S EXCEPT !.nnw = @ + 1], t, Goto([L[t] EXCEPT !.wk = FALSE], "", "Done"), G)

\* ================================================================== next-state relation
AllDone == \A d \in Drivers : L[d].pc[2] = "Done"

ThreadStep(t) ==
  \/ DrStart(t) \/ DrOp(t) \/ DrEnd(t) \/ GateUp(t) \/ GateIdle(t) \/ GateQuiet(t) \/ GateOthers(t) \/ DrRingCheck(t)
  \/ TpInlineCheck(t) \/ TpFqLoadThreads(t) \/ TpAddWork(t)
  \/ PlLoadWake(t) \/ PlReadSleeping(t) \/ PlReadNotWorking(t) \/ PlPushSteal(t) \/ PlSetStealBit(t)
  \/ TpEnqueue(t) \/ TpSetFlagEnq(t) \/ CwLoadWake(t) \/ CwReadSleeping(t) \/ CwReadPending(t)
  \/ TpBulkLoadThreads(t) \/ TpBulkLoadCheck(t) \/ BeAddWorkN(t) \/ BeEnqueueBulk(t) \/ BeSetFlag(t)
  \/ BeLoadWake(t) \/ BeReadSleeping(t) \/ BeReadNotWorking(t)
  \/ RbAddWorkN(t) \/ RbLoadRingCount(t) \/ RbLoadWake1(t) \/ RbPushRing(t) \/ RbbPushRingBatch(t) \/ RbLoadWake2(t)
  \/ EwBump(t) \/ (\E W \in SUBSET Workers : FutexWake(t, W))
  \/ PwClaimReadSleeping(t) \/ PwReadNextGroup(t) \/ PwClaimReadMask(t) \/ PwClaim(t) \/ PwStoreNextGroup(t)
  \/ PwSeedReadSleeping(t) \/ PwSeedReadMask(t) \/ PwAllReadMask(t) \/ PwCascadeReadMask(t)
  \/ TpStop(t) \/ TpRzLoadWake(t) \/ (\E k \in 0 .. Len(S.cq) : TpStealCentral(t, k)) \/ TpDecWorkRz(t)
  \/ TpRzJoined(t) \/ TpRzDrainRing(t) \/ TpRzDrainSteal(t) \/ TpRzGrowRings(t) \/ TpRzStoreNumRings(t)
  \/ TpRzStoreNumSteal(t) \/ TpRzStoreWake(t) \/ TpRzStoreLoadFactor(t) \/ TpRzStoreNumThreads(t)
  \/ TpRzStoreNotWorking(t) \/ TpStoreEnable(t)
  \/ WkStart(t) \/ TpWkInit(t) \/ WkiLoadEpoch(t) \/ TpWkLoadRunning(t) \/ TpWkPopRing(t) \/ TpWkReadFlag(t)
  \/ (\E k \in 0 .. Len(S.cq) : TpWkDequeue(t, k)) \/ TpWkClearFlag(t) \/ TpWkPopSteal(t)
  \/ TpWkReadStealMask(t) \/ TpWkCrossSteal(t) \/ TpWkClearStealBit(t) \/ TpWkFlushBatch(t)
  \/ TpWkDecNotWorkingF(t) \/ TpWkFlushFinal(t) \/ TpWkPopSteal2(t) \/ TpWkDecNotWorking2(t) \/ TpDecWork2(t)
  \/ TpWkIncNotWorkingS(t) \/ PwSetSleepBit(t) \/ PwIncSleeping(t) \/ TpWkLoadRunningS(t) \/ TpWkWaitLoadWake(t)
  \/ EwLoadEpochA(t) \/ EwLoadEpochB(t) \/ FutexWait(t) \/ FutexRet(t) \/ EwLoadEpochC(t)
  \/ PwClearSleepBit(t) \/ PwDecSleeping(t) \/ TpWkSizeApprox(t) \/ TpSetFlagWk(t) \/ TpWkIncNotWorkingX(t)

Terminated == AllDone /\ UNCHANGED vars

Next ==
  \/ \E t \in Threads : ThreadStep(t)
  \/ \E t \in Workers : FutexTimeout(t)
  \/ Terminated

Spec == Init /\ [][Next]_vars
FairSpec == Spec /\ \A t \in Threads : WF_vars(ThreadStep(t))

\* ================================================================== properties
\* (C01/C03) no task runs twice ...
AtMostOnce == \A k \in TaskIds : G.ran[k] <= 1
\* ... and once every driver has finished and the pool is destroyed every submitted task has run
AllRunAtEnd == (AllDone /\ ~S.alive) => \A k \in G.sub : G.ran[k] = 1
\* (C08) at a quiescent point (all submitted work done, every worker parked) workRemaining_ is 0
AccountingZeroAtQuiescence == "QuiescentWorkRemainingNonZero" \notin G.bad
\* sanity of the counters
CountersSane ==
  /\ S.wr >= 0
  /\ S.nnw >= 0
  /\ \A gen \in 1 .. S.ngen : Ws(gen).ts >= 0 /\ Ws(gen).ts <= Ws(gen).n
NoError == \A t \in Threads : L[t].pc[1] # "error"
\* (C03) a task is never left in a ring that nobody polls while every thread is parked or finished:
\* decided by the deadlock check of configurations without time-outs (a stranded task prevents
\* GateQuiet / completion) and by AllRunAtEnd.
\* (C07/C09) progress without the back-stop: in configurations with AllowTimeout = FALSE the
\* deadlock check (CHECK_DEADLOCK TRUE) is the property; Terminated keeps a finished run alive.
Progress == <>AllDone
\* ================================================================== refinement
\* ThreadPool.tla implements the abstraction its clients are specified over (PoolAbs.tla) under this mapping
Abs == INSTANCE PoolAbs WITH Tasks <- TaskIds, alive <- S.alive, sub <- G.sub, ran <- G.ran
Refines == Abs!Spec
AbsInv == Abs!ExactlyOnceSoFar /\ Abs!NothingPendingWhenGone
==============================================================================
