----------------------------- MODULE PoolTrace -----------------------------
(* Trace validation for ThreadPool.tla.  Every recorded step (site, thread, notes,  *)
(* projected pool state) of the real dispenso::ThreadPool running under the          *)
(* controlled scheduler must be a step of the specification: the thread's pc must    *)
(* be at that site, the action's effect must produce exactly the projected words     *)
(* (counters, flags, queue lengths, sleep masks, epochs, futex wait sets), and the   *)
(* tasks the step ran must be the tasks the specification runs.                       *)
EXTENDS ThreadPool, Json, IOUtils

TraceLog == ndJsonDeserialize(IOEnv.TRACE)
Hdr == TraceLog[1]
TraceProg == Hdr.prog
TraceMult == Hdr.mult
TraceMaxW == Hdr.maxw
TraceGS == Hdr.gs
TraceSS == Hdr.ss
TraceRingCap == Hdr.ringcap
TraceAllowTimeout == Hdr.timeouts = 1

VARIABLE l
tvars == <<vars, l>>

TraceInit == l = 2 /\ Hdr.e = "Reset" /\ Init

Pow2(b) == CASE b = 0 -> 1 [] b = 1 -> 2 [] b = 2 -> 4 [] b = 3 -> 8 [] b = 4 -> 16 [] b = 5 -> 32 [] b = 6 -> 64 [] OTHER -> 128
RECURSIVE BitsVal(_)
BitsVal(m) == IF m = {} THEN 0 ELSE LET b == CHOOSE b \in m : TRUE IN Pow2(b) + BitsVal(m \ {b})
RECURSIVE SumRan(_, _)
SumRan(g, ids) == IF ids = {} THEN 0 ELSE LET k == CHOOSE k \in ids : TRUE IN g.ran[k] + SumRan(g, ids \ {k})
SeqToSet(s) == {s[i] : i \in 1 .. Len(s)}

WsOK(w, p) ==
  /\ p.ts = w.ts /\ p.nwg = w.nwg
  /\ Len(p.mask) = NumGroups(w)
  /\ \A g \in 0 .. (NumGroups(w) - 1) :
       /\ p.mask[g + 1] = BitsVal(w.mask[g])
       /\ p.ep[g + 1] = w.ep[g]
       /\ SeqToSet(p.fq[g + 1]) = w.fq[g]

ProjOK(p, s, g) ==
  /\ p.sub = Cardinality(g.sub)
  /\ p.ran = SumRan(g, TaskIds)
  /\ p.alive = (IF s.alive THEN 1 ELSE 0)
  /\ (s.alive =>
        /\ p.nt = s.nt /\ p.nr = s.nr /\ p.ns = s.ns /\ p.wr = s.wr /\ p.nnw = s.nnw /\ p.lf = s.lf
        /\ p.flag = (IF s.flag THEN 1 ELSE 0) /\ p.en = (IF s.en THEN 1 ELSE 0)
        /\ p.cq = Len(s.cq)
        /\ Len(p.rings) = s.nra /\ \A i \in 0 .. (s.nra - 1) : p.rings[i + 1] = Len(s.ring[i])
        /\ Len(p.steal) = s.nsa /\ \A i \in 0 .. (s.nsa - 1) : p.steal[i + 1] = Len(s.steal[i])
        /\ p.smask = BitsVal(s.smask)
        /\ Len(p.run) = s.nth /\ \A i \in 0 .. (s.nth - 1) : p.run[i + 1] = (IF s.run[i] THEN 1 ELSE 0)
        /\ p.wg = s.wg
        /\ Len(p.ws) = s.ngen /\ \A k \in 1 .. s.ngen : WsOK(s.ws[k], p.ws[k]))

RunIds(ev) == IF ev.e \in {"FutexWait", "FutexRet"} THEN {}   \* (their notes are plain numbers)
              ELSE {ev.r[i][2] : i \in {j \in 1 .. Len(ev.r) : ev.r[j][1] = "run"}}
RanNow == {k \in TaskIds : G'.ran[k] > G.ran[k]}

TraceStep ==
  /\ l <= Len(TraceLog)
  /\ LET ev == TraceLog[l] IN
       \/ /\ ev.e = "Reset"
          /\ S' = InitS /\ G' = InitG
          /\ L' = [t \in Threads |-> IF t \in Drivers THEN [NoLoc EXCEPT !.pc = <<"dr", "Start">>] ELSE NoLoc]
       \/ /\ ev.e = "End"
          /\ AllDone
          /\ UNCHANGED vars
       \/ /\ ev.e = "Deadlock"       \* the controlled run found nothing runnable: recorded, judged by NoDeadlockObserved
          /\ S' = S /\ L' = L /\ G' = [G EXCEPT !.bad = @ \cup {"Deadlock"}]
       \/ /\ ev.e = "FutexTimeout"
          /\ ev.t \in Workers
          /\ FutexTimeout(ev.t)
          /\ ProjOK(ev.s, S', G')
       \/ /\ ev.e \notin {"Reset", "End", "Deadlock", "FutexTimeout", "Diverged"}
          /\ ev.t \in Threads
          /\ Site(ev.t) = ev.e
          /\ ThreadStep(ev.t)
          /\ RunIds(ev) = RanNow
          /\ ProjOK(ev.s, S', G')
  /\ l' = l + 1

TraceSpec == TraceInit /\ [][TraceStep]_tvars

NoDeadlockObserved == "Deadlock" \notin G.bad

TraceAccepted ==
  LET d == TLCGet("stats").diameter IN
  IF d = Len(TraceLog) THEN TRUE
  ELSE /\ PrintT(<<"TRACE_REJECTED_AT_LINE", d + 1, "OF", Len(TraceLog)>>)
       /\ PrintT(<<"OFFENDING", TraceLog[d + 1]>>)
       /\ FALSE
\* every step of the real pool, projected on (alive, submitted, ran), is a step of PoolAbs (a Reset line starts a new execution)
TraceRefines == [][TraceLog[l].e = "Reset" \/ Abs!Next]_<<S.alive, G.sub, G.ran>>
==========================================================================
