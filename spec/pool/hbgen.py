#!/usr/bin/env python3
"""Generates OrdersPoolX.tla for the C10 overlay PoolHB.tla: the memory orders that bin/extract_orders.py cannot
see because the hooked statement reaches the atomic operation through a helper function:

  ConsumeLoad       order of the load inside detail::consumeLoad()          (thread_pool.h)
  TotalSleeping     order of the load inside PoolWakeState::totalSleeping() (detail/thread_pool_wake.h)
  <Site>_wg         per textual occurrence of <Site>: "consumeLoad" when the hooked statement is
                    detail::consumeLoad(wakeState_) (the overlay then uses ConsumeLoad)
  <Site>_en         per textual occurrence of <Site>: order of the enableEpochWaiter_.load(...) that follows the
                    consumeLoad (same model step)
  SpawnEnable       order of enableEpochWaiter_.load in resizeLocked's spawn loop
  CtorWake          order of the constructor's wakeState_.store

and checks that every hooked statement without an own atomic operation ("none" in OrdersPool) is what the overlay
assumes it to be (a queue / ring operation, a helper call ...).  Any pattern that is not found is an error (exit 1):
the overlay must then be re-read against the sources.

usage: hbgen.py <out dir> [<dispenso source dir, default /repo/dispenso>]
"""
import os
import re
import sys

ORDER = r'std::memory_order_(\w+)'


def fail(msg):
    sys.stderr.write('hbgen.py (pool): ' + msg + '\n')
    sys.exit(1)


def strip(src):
    src = re.sub(r'//[^\n]*', '', src)
    return re.sub(r'/\*.*?\*/', '', src, flags=re.S)


def segments(src):
    """[(site, text between this hook and the next hook)] in file order"""
    out = []
    ms = list(re.finditer(r'DISPENSO_VERIF_POINT\(\s*"(\w+)"[^;]*\);', src))
    for i, m in enumerate(ms):
        end = ms[i + 1].start() if i + 1 < len(ms) else len(src)
        out.append((m.group(1), src[m.end():end]))
    return out


def statement(seg):
    depth = 0
    for i, ch in enumerate(seg):
        if ch == '(':
            depth += 1
        elif ch == ')':
            depth -= 1
        elif ch == ';' and depth == 0:
            return seg[:i]
    return seg


def one(pattern, text, what):
    m = re.search(pattern, text, flags=re.S)
    if not m:
        fail('pattern not found: ' + what)
    return m


# hooked statements without an own atomic operation: site -> regex the statement must match
NONE_SITES = {
    'TpLoadWake': r'consumeLoad\(wakeState_\)', 'TpBulkLoadWake': r'consumeLoad\(wakeState_\)',
    'TpRzLoadWake': r'consumeLoad\(wakeState_\)', 'TpWkInit': r'consumeLoad\(wakeState_\)',
    'TpWkWaitLoadWake': r'consumeLoad\(wakeState_\)',
    'TpReadSleeping': r'->totalSleeping\(\)',
    'TpEnqueue': r'bool enqueued', 'TpEnqueueBulk': r'bool enqueued',
    'TpStealCentral': r'work_\.try_dequeue\(', 'TpStealCentralTok': r'work_\.try_dequeue_from_producer\(',
    'TpWkDequeue': r'work_\.try_dequeue\(ctoken',
    'TpPushRing': r'rings_\[ring\]\.try_push\(', 'TpPushRingBatch': r'rings_\[ring\]\.try_push_batch\(',
    'TpWkPopRing': r'myRing\.try_pop\(', 'TpWkPopSteal': r'myStealRing\.try_pop\(',
    'TpWkPopSteal2': r'myStealRing\.try_pop\(', 'TpWkCrossSteal': r'stealRings_\[.*\]\.try_pop\(',
    'TpRzDrainRing': r'rings_\[i\]\.try_pop\(|^\s*\}', 'TpRzDrainSteal': r'stealRings_\[i\]\.try_pop\(|^\s*\}',
    'TpRzGrowRings': r'rings_\.grow_by\(', 'TpWkSizeApprox': r'work_\.size_approx\(\)',
    'TpRingsPop': r'rings_\[idx\]\.try_pop\(', 'TpRingsPopSteal': r'stealRings_\[i\]\.try_pop\(',
    'PwAllReadMask': r'bumpAndWakeAll\(\)', 'PwSeedReadMask': r'bumpAndWakeAll\(\)',
    'PwCascadeReadMask': r'bumpAndWakeAll\(\)', 'PwRangeReadMask': r'waiterFor\(',
}
WG_SITES = ['TpLoadWake', 'TpBulkLoadWake', 'TpRzLoadWake', 'TpWkInit', 'TpWkWaitLoadWake']
EN_SITES = ['TpLoadWake', 'TpBulkLoadWake']


def main():
    out = sys.argv[1]
    root = sys.argv[2] if len(sys.argv) > 2 else '/repo/dispenso'
    files = ['thread_pool.h', 'thread_pool.cpp', 'thread_pool_wake.cpp', 'detail/thread_pool_wake.h',
             'detail/epoch_waiter.h']
    src = {f: strip(open(os.path.join(root, f)).read()) for f in files}
    tab = {}
    m = one(r'consumeLoad\(std::atomic<T\*>&\s*ptr\)\s*\{\s*T\*\s*p\s*=\s*ptr\.load\(' + ORDER + r'\)', src['thread_pool.h'],
            'body of detail::consumeLoad')
    tab['ConsumeLoad'] = ['"%s"' % m.group(1)]
    m = one(r'totalSleeping\(\)\s*const\s*\{\s*return\s+totalSleeping_\.load\(' + ORDER + r'\)',
            src['detail/thread_pool_wake.h'], 'body of PoolWakeState::totalSleeping')
    tab['TotalSleeping'] = ['"%s"' % m.group(1)]
    m = one(r'void ThreadPool::resizeLocked.*?threads_\.emplace_back\(\);.*?enableEpochWaiter_\.load\(' + ORDER + r'\)',
            src['thread_pool.cpp'], 'enableEpochWaiter_.load in the spawn loop of resizeLocked')
    tab['SpawnEnable'] = ['"%s"' % m.group(1)]
    m = one(r'ThreadPool::ThreadPool\(size_t n.*?wakeState_\.store\(rawWs,\s*' + ORDER + r'\)', src['thread_pool.cpp'],
            'wakeState_.store in the constructor')
    tab['CtorWake'] = ['"%s"' % m.group(1)]
    seen = {}
    for f in files:
        for site, seg in segments(src[f]):
            if site in NONE_SITES:
                st = statement(seg)
                if not re.search(NONE_SITES[site], st, flags=re.S):
                    fail('%s: the statement after hook %s is not the expected one (%s): %r' % (f, site, NONE_SITES[site], st[:120]))
                seen[site] = seen.get(site, 0) + 1
            if site in WG_SITES:
                tab.setdefault(site + '_wg', []).append('"consumeLoad"')
            if site in EN_SITES:
                m = re.search(r'enableEpochWaiter_\.load\(' + ORDER + r'\)', seg)
                if not m:
                    fail('%s: no enableEpochWaiter_.load after hook %s' % (f, site))
                tab.setdefault(site + '_en', []).append('"%s"' % m.group(1))
    for site in NONE_SITES:
        if site not in seen:
            fail('hook %s not found in the sources' % site)
    lines = ['---- MODULE OrdersPoolX ----',
             '\\* generated by spec/pool/hbgen.py from the working tree; do not edit',
             'OrdX == [']
    lines.append(',\n'.join('  %s |-> <<%s>>' % (k, ', '.join(v)) for k, v in sorted(tab.items())))
    lines += [']', '====', '']
    with open(os.path.join(out, 'OrdersPoolX.tla'), 'w') as fh:
        fh.write('\n'.join(lines))
    print('OrdersPoolX: %d entries' % len(tab))


if __name__ == '__main__':
    main()
